(* C07 — whole trees: the interpreter of the table agrees with the specification on EVERY well-typed
   value, for every remapper, when the rows pass the finite check (C07/Tree.v has the definitions).

   Part 1  the finite check [table_ok] of a table against the specification: per row Th 1 / Th 2 of
           C07/Theory.v (reference-carrying => rebuilt with the appropriate method, otherwise copied)
           plus the structural conditions the step from rows to trees needs (how the class name is
           handed down, coverage of duke's definitions by rows).
   Part 2  [remap_val_spec]: for ANY table that passes the check, by induction on values.
   Part 3  the check holds for the regenerated table (vm_compute), the corollaries (shape, opaque
           leaves, non-reference types), non-vacuity. *)
From Coq Require Import String Lia.
From FB Require Import C07.Model C07.Spec C07.Theory C07.Tree.
Local Open Scope string_scope.

(* ------------------------------------------------------------------ *)
(* induction on values *)

Fixpoint val_ind2 (P : val -> Prop)
  (HStr : forall s, P (VStr s))
  (HOp : forall s, P (VOpaque s))
  (HNode : forall n c fs, Forall (fun p => P (snd p)) fs -> P (VNode n c fs))
  (HList : forall l, Forall P l -> P (VList l))
  (HNone : P VNone)
  (HSome : forall x, P x -> P (VSome x))
  (HPair : forall a b, P a -> P b -> P (VPair a b))
  (v : val) {struct v} : P v :=
  match v with
  | VStr s => HStr s
  | VOpaque s => HOp s
  | VNode n c fs =>
      HNode n c fs
        ((fix go (l : list (string * val)) : Forall (fun p => P (snd p)) l :=
            match l with
            | [] => Forall_nil _
            | (f, x) :: r =>
                Forall_cons (f, x) (val_ind2 P HStr HOp HNode HList HNone HSome HPair x) (go r)
            end) fs)
  | VList l =>
      HList l
        ((fix go (l : list val) : Forall P l :=
            match l with
            | [] => Forall_nil _
            | x :: r => Forall_cons x (val_ind2 P HStr HOp HNode HList HNone HSome HPair x) (go r)
            end) l)
  | VNone => HNone
  | VSome x => HSome x (val_ind2 P HStr HOp HNode HList HNone HSome HPair x)
  | VPair a b =>
      HPair a b (val_ind2 P HStr HOp HNode HList HNone HSome HPair a)
                (val_ind2 P HStr HOp HNode HList HNone HSome HPair b)
  end.

(* ------------------------------------------------------------------ *)
(* mapM *)

Lemma mapM_cons {A B} (f : A -> res B) x l :
  mapM f (x :: l) = match f x, mapM f l with Ok y, Ok r => Ok (y :: r) | _, _ => Err end.
Proof. reflexivity. Qed.

Lemma mapM_ext_in {A B} (f g : A -> res B) l :
  (forall x, In x l -> f x = g x) -> mapM f l = mapM g l.
Proof.
  induction l as [|x l IH]; intros H; [reflexivity|].
  rewrite !mapM_cons. rewrite (H x (or_introl eq_refl)). rewrite IH; [reflexivity|].
  intros y Hy. apply H. right. exact Hy.
Qed.

Lemma mapM_id {A} (f : A -> res A) l : (forall x, In x l -> f x = Ok x) -> mapM f l = Ok l.
Proof.
  induction l as [|x l IH]; intros H; [reflexivity|].
  rewrite mapM_cons. rewrite (H x (or_introl eq_refl)). rewrite IH; [reflexivity|].
  intros y Hy. apply H. right. exact Hy.
Qed.

Lemma mapM_ok_forall2 {A B} (f : A -> res B) l l' :
  mapM f l = Ok l' -> Forall2 (fun x y => f x = Ok y) l l'.
Proof.
  revert l'; induction l as [|x l IH]; intros l'.
  - cbn. intros [= <-]. constructor.
  - rewrite mapM_cons. destruct (f x) as [y|] eqn:E; [|discriminate].
    destruct (mapM f l) as [r|]; [|discriminate]. intros [= <-]. constructor; [exact E|apply IH; reflexivity].
Qed.

(* ------------------------------------------------------------------ *)
(* equations of the two recursive functions (for every value) *)

Definition remap_fields (tb : table) (R : remapper) (ctx : option str) (n c : string) (fs : list (string * val))
  : res (list (string * val)) :=
  mapM (fun p =>
          match (match lookup_row tb n c (fst p) with
                 | None => Err
                 | Some r =>
                     match r_act r with
                     | Copied => Ok (snd p)
                     | Dropped => empty_of (r_ty r)
                     | Remapped (MRec k) => remap_val tb R (pass_ctx k ctx fs) (r_ty r) (snd p)
                     | Remapped m => if is_leaf_meth m then apply_leaf R m (snd p) else apply_pos R m ctx fs (snd p)
                     end
                 end) with
          | Ok y => Ok (fst p, y)
          | Err => Err
          end) fs.

Definition remap_named (tb : table) (R : remapper) (ctx : option str) (n : string) (v : val) : res val :=
  match lookup_impl tb n with
  | Some (ILeaf m) => apply_leaf R m v
  | Some IIdentity => Ok v
  | Some (IFields _) =>
      match v with
      | VNode n' c fs =>
          if String.eqb n' n then
            match remap_fields tb R ctx n c fs with Ok fs' => Ok (VNode n' c fs') | Err => Err end
          else Err
      | _ => Err
      end
  | None => Err
  end.

Lemma remap_val_name tb R ctx n v : remap_val tb R ctx (TName n) v = remap_named tb R ctx n v.
Proof. destruct v; reflexivity. Qed.
Lemma remap_val_app tb R ctx n a v : remap_val tb R ctx (TApp n a) v = remap_named tb R ctx n v.
Proof. destruct v; reflexivity. Qed.
Lemma remap_val_opt tb R ctx a v :
  remap_val tb R ctx (TOpt a) v =
    match v with
    | VNone => Ok VNone
    | VSome x => match remap_val tb R ctx a x with Ok y => Ok (VSome y) | Err => Err end
    | _ => Err
    end.
Proof. destruct v; reflexivity. Qed.
Lemma remap_val_vec tb R ctx a v :
  remap_val tb R ctx (TVec a) v =
    match v with
    | VList l => match mapM (remap_val tb R ctx a) l with Ok l' => Ok (VList l') | Err => Err end
    | _ => Err
    end.
Proof. destruct v; reflexivity. Qed.

Definition spec_fields (defs : list tdef) (S : list string) (R : remapper) (ctx : option str) (n c : string)
           (fts : list (string * rty)) (fs : list (string * val)) : res (list (string * val)) :=
  mapM (fun p =>
          match lookup_ty fts (fst p) with
          | None => Err
          | Some t =>
              match (match position_method (pseudo_row n c (fst p) t) with
                     | Some m => apply_pos R m (self_ctx n ctx fs) fs (snd p)
                     | None => spec_val defs S R (self_ctx n ctx fs) t (snd p)
                     end) with
              | Ok y => Ok (fst p, y)
              | Err => Err
              end
          end) fs.

Definition spec_node (defs : list tdef) (S : list string) (R : remapper) (ctx : option str) (n : string) (v : val) : res val :=
  match v with
  | VNode n' c fs =>
      if String.eqb n' n then
        match node_fields defs n c with
        | None => Err
        | Some fts => match spec_fields defs S R ctx n c fts fs with Ok fs' => Ok (VNode n' c fs') | Err => Err end
        end
      else Err
  | _ => Err
  end.

Lemma spec_val_name defs S R ctx n v :
  spec_val defs S R ctx (TName n) v =
    if negb (mentions S (TName n)) then Ok v
    else match leaf_method n with
         | Some m => apply_leaf R m v
         | None => if needs_owner n then Err else spec_node defs S R ctx n v
         end.
Proof. destruct v; reflexivity. Qed.
Lemma spec_val_app defs S R ctx n a v :
  spec_val defs S R ctx (TApp n a) v =
    if negb (mentions S (TApp n a)) then Ok v else spec_node defs S R ctx n v.
Proof. destruct v; reflexivity. Qed.
Lemma spec_val_opt defs S R ctx a v :
  spec_val defs S R ctx (TOpt a) v =
    if negb (mentions S a) then Ok v
    else match v with
         | VNone => Ok VNone
         | VSome x => match spec_val defs S R ctx a x with Ok y => Ok (VSome y) | Err => Err end
         | _ => Err
         end.
Proof. destruct v; reflexivity. Qed.
Lemma spec_val_vec defs S R ctx a v :
  spec_val defs S R ctx (TVec a) v =
    if negb (mentions S a) then Ok v
    else match v with
         | VList l => match mapM (spec_val defs S R ctx a) l with Ok l' => Ok (VList l') | Err => Err end
         | _ => Err
         end.
Proof. destruct v; reflexivity. Qed.
Lemma spec_val_pair defs S R ctx a b v :
  spec_val defs S R ctx (TPair a b) v =
    if negb (mentions S (TPair a b)) then Ok v
    else match v with
         | VPair x y =>
             match spec_val defs S R ctx a x, spec_val defs S R ctx b y with
             | Ok x', Ok y' => Ok (VPair x' y')
             | _, _ => Err
             end
         | _ => Err
         end.
Proof. destruct v; reflexivity. Qed.

(* a type that carries no reference: the value as it is *)
Lemma spec_val_nomention defs S R ctx T v : mentions S T = false -> spec_val defs S R ctx T v = Ok v.
Proof. intros H. destruct v; cbn [spec_val]; rewrite H; reflexivity. Qed.

(* ------------------------------------------------------------------ *)
(* Part 1.  The finite check of a table against the specification *)

(* [Model.effective] for any table *)
Definition effective_t (tb : table) (r : row) : action :=
  match r_act r with
  | Remapped (MRec _) =>
      match base_name (r_ty r) with
      | Some n =>
          match lookup_impl tb n with
          | Some (ILeaf m) => Remapped m
          | Some IIdentity => Copied
          | Some (IFields _) => Remapped (MRec CNone)
          | None => Dropped
          end
      | None => Dropped
      end
  | a => a
  end.

Lemma effective_t_gen r : effective_t gen_table r = effective r.
Proof. reflexivity. Qed.

Definition meth_eqb (a b : meth) : bool := if meth_eq_dec a b then true else false.
Lemma meth_eqb_eq a b : meth_eqb a b = true <-> a = b.
Proof. unfold meth_eqb. destruct (meth_eq_dec a b); split; congruence. Qed.

(* the types with a declared-member position (Spec.position_method) *)
Definition decl_seed : list string := ["Field"; "Method"; "RecordComponent"].

(* how a delegating row hands the class name down, and where a remapper method is called directly.
   [DT]: the types from which a declared-member position is reachable *)
Definition rec_ok (DT : list string) (r : row) : bool :=
  match r_act r with
  | Remapped (MRec k) =>
      (match position_method r with Some _ => false | None => true end) &&
      (match k with
       | CNone => negb (mentions DT (r_ty r))                        (* below a plain `.remap` nothing needs the declaring class *)
       | CThisClass => negb (String.eqb (r_type r) "ClassFile")      (* passed on by an impl that received it *)
       | CSelfName => String.eqb (r_type r) "ClassFile"              (* introduced by ClassFile, as its own name *)
       end)
  | Remapped m => if is_leaf_meth m then (match r_ty r with TName _ => true | _ => false end) else true
  | _ => true
  end.

(* the per-row check: Th 1 (C07_every_ref_remapped), C07_every_ref_has_a_rule, Th 2
   (C07_nothing_else_changes), and [rec_ok] *)
Definition row_ok (tb : table) (S DT : list string) (r : row) : bool :=
  (if carries_ref_in S r
   then action_eqb (effective_t tb r) (Remapped (appropriate r)) && negb (meth_eqb (appropriate r) MUnspecified)
   else action_eqb (effective_t tb r) Copied)
  && rec_ok DT r.

(* a row recorded as a known finding: the field is dropped *)
Definition known_shape (r : row) : bool :=
  action_eqb (r_act r) Dropped
  && (match r_ty r with TOpt _ | TVec _ => true | _ => false end)
  && (match position_method r with None => true | Some _ => false end).

(* every field of every field-wise rebuilt type has a row, of the declared type; leaf impls name leaf methods *)
Definition cover_ok (tb : table) : bool :=
  forallb (fun p =>
             match snd p with
             | IFields _ =>
                 match lookup_def (t_defs tb) (fst p) with
                 | Some d =>
                     forallb (fun q => match lookup_row tb (fst p) (fst (fst q)) (snd (fst q)) with
                                       | Some r => rty_eqb (r_ty r) (snd q)
                                       | None => false
                                       end) (def_positions d)
                 | None => false
                 end
             | ILeaf m => is_leaf_meth m
             | IIdentity => true
             end) (t_impls tb).

Definition closed_under (defs : list tdef) (X : list string) : bool :=
  forallb (fun d => if def_carries X d then mem (def_name d) X else true) defs.

Definition table_ok (tb : table) (S DT : list string) (known : row -> bool) : bool :=
  forallb (fun r => if known r then known_shape r else row_ok tb S DT r) (t_rows tb)
  && cover_ok tb
  && closed_under (t_defs tb) DT
  && forallb (fun n => mem n DT) decl_seed.

(* a type on which `.remap…` may be called: its impl is what the specification demands *)
Definition deleg_ok (tb : table) (S : list string) (T : rty) : bool :=
  match base_ty T with
  | TName n =>
      match lookup_impl tb n with
      | Some (ILeaf m) => mentions S T && (match leaf_method n with Some m' => meth_eqb m m' | None => false end)
      | Some IIdentity => negb (mentions S T)
      | Some (IFields _) => mentions S T && (match leaf_method n with None => negb (needs_owner n) | Some _ => false end)
      | None => false
      end
  | TApp n _ =>
      match lookup_impl tb n with
      | Some IIdentity => negb (mentions S T)
      | Some (IFields _) => mentions S T
      | _ => false
      end
  | _ => false
  end.

(* --- small facts about Spec.v --- *)

Lemma at_pos_eq r t v f : at_pos r t v f = true -> r_type r = t /\ r_variant r = v /\ r_field r = f.
Proof.
  unfold at_pos. intros H. apply andb_prop in H. destruct H as [H H3]. apply andb_prop in H. destruct H as [H1 H2].
  apply String.eqb_eq in H1, H2, H3. auto.
Qed.

Lemma position_pseudo r n c f t : at_pos r n c f = true -> position_method (pseudo_row n c f t) = position_method r.
Proof.
  intros H. apply at_pos_eq in H. destruct H as (H1 & H2 & H3).
  unfold position_method, at_pos, pseudo_row. cbn [r_type r_variant r_field]. rewrite H1, H2, H3. reflexivity.
Qed.

Ltac split_position H :=
  unfold position_method in H;
  repeat match type of H with
         | context [if at_pos ?r ?a ?b ?c then _ else _] => destruct (at_pos r a b c) eqn:?
         end.

Lemma position_kind r m :
  position_method r = Some m ->
  is_leaf_meth m = false /\ m <> MUnspecified /\ (forall k, m <> MRec k) /\
  ((exists d, m = MDeclName d \/ m = MDeclDesc d) -> mem (r_type r) decl_seed = true).
Proof.
  intros H. split_position H; try discriminate; injection H as <-;
    (split; [reflexivity|split; [discriminate|split; [discriminate|]]]);
    intros [d [Hd|Hd]]; try discriminate;
    match goal with E : at_pos _ _ _ _ = true |- _ => apply at_pos_eq in E; destruct E as (-> & _ & _); reflexivity end.
Qed.

Lemma leaf_method_leaf n m : leaf_method n = Some m -> is_leaf_meth m = true.
Proof.
  unfold leaf_method.
  repeat match goal with |- context [if ?b then _ else _] => destruct b end; intros [= <-]; reflexivity.
Qed.

Lemma apply_pos_ctx R m c1 c2 sib x :
  (forall d, m <> MDeclName d /\ m <> MDeclDesc d) -> apply_pos R m c1 sib x = apply_pos R m c2 sib x.
Proof. intros H. destruct m; try reflexivity; destruct (H d) as [H1 H2]; congruence. Qed.

Lemma rty_eqb_eq a b : rty_eqb a b = true -> a = b.
Proof.
  revert b; induction a as [x|x| |x a IH|a IH|a IH|a1 IH1 a2 IH2]; intros [y|y| |y b|b|b|b1 b2]; cbn [rty_eqb]; try discriminate; intros H.
  - apply String.eqb_eq in H. congruence.
  - apply String.eqb_eq in H. congruence.
  - reflexivity.
  - apply andb_prop in H. destruct H as [H1 H2]. apply String.eqb_eq in H1. apply IH in H2. congruence.
  - apply IH in H. congruence.
  - apply IH in H. congruence.
  - apply andb_prop in H. destruct H as [H1 H2]. apply IH1 in H1. apply IH2 in H2. congruence.
Qed.

Lemma deleg_opt tb S a : deleg_ok tb S (TOpt a) = deleg_ok tb S a.
Proof. reflexivity. Qed.
Lemma deleg_vec tb S a : deleg_ok tb S (TVec a) = deleg_ok tb S a.
Proof. reflexivity. Qed.

Definition impls_leaf_ok (tb : table) : Prop :=
  forall n m, lookup_impl tb n = Some (ILeaf m) -> is_leaf_meth m = true.

Lemma cover_impls_leaf tb : cover_ok tb = true -> impls_leaf_ok tb.
Proof.
  unfold cover_ok, impls_leaf_ok, lookup_impl. intros H n m Hf. rewrite forallb_forall in H.
  destruct (find (fun p => String.eqb (fst p) n) (t_impls tb)) as [p|] eqn:E; [|discriminate].
  injection Hf as Hp. apply find_some in E. destruct E as [Hin _]. specialize (H p Hin). cbv beta in H. rewrite Hp in H. exact H.
Qed.

(* a delegating row that passes the check delegates to an impl the specification agrees with *)
Lemma row_deleg tb S DT r k :
  impls_leaf_ok tb -> row_ok tb S DT r = true -> r_act r = Remapped (MRec k) -> deleg_ok tb S (r_ty r) = true.
Proof.
  intros Hleaf H Ha. unfold row_ok in H. apply andb_prop in H. destruct H as [H Hr].
  unfold rec_ok in Hr. rewrite Ha in Hr. apply andb_prop in Hr. destruct Hr as [Hp _].
  destruct (position_method r) as [pm|] eqn:Epos; [discriminate|]. clear Hp.
  unfold carries_ref_in in H. rewrite Epos in H.
  unfold effective_t in H. rewrite Ha in H. unfold base_name in H.
  unfold appropriate in H. rewrite Epos in H.
  unfold deleg_ok.
  destruct (base_ty (r_ty r)) as [x|n| |n a|a|a|a1 a2] eqn:Eb;
    try (destruct (mentions S (r_ty r)); [apply andb_prop in H; destruct H as [H _]|]; apply action_eqb_eq in H; discriminate).
  - (* TName n *)
    destruct (lookup_impl tb n) as [[m| |wc]|] eqn:Ei; destruct (mentions S (r_ty r)) eqn:Em;
      try (apply andb_prop in H; destruct H as [H Hu]); apply action_eqb_eq in H; try discriminate.
    + injection H as Hm. destruct (leaf_method n) as [m'|] eqn:El.
      * subst m. cbn. apply meth_eqb_eq. reflexivity.
      * exfalso. specialize (Hleaf n m Ei). destruct (needs_owner n); subst m; discriminate.
    + reflexivity.
    + injection H as Hm. destruct (leaf_method n) as [m'|] eqn:El.
      * apply leaf_method_leaf in El. rewrite <- Hm in El. discriminate.
      * destruct (needs_owner n); [discriminate|reflexivity].
  - (* TApp n a *)
    destruct (lookup_impl tb n) as [[m| |wc]|] eqn:Ei; destruct (mentions S (r_ty r)) eqn:Em;
      try (apply andb_prop in H; destruct H as [H Hu]); apply action_eqb_eq in H; try discriminate; try reflexivity.
    injection H as Hm. specialize (Hleaf n m Ei). subst m. discriminate.
Qed.

(* coverage: a field of a well-typed node of a field-wise rebuilt type has its row *)
Lemma cover_row tb n wc c fts f t :
  cover_ok tb = true -> lookup_impl tb n = Some (IFields wc) -> node_fields (t_defs tb) n c = Some fts ->
  lookup_ty fts f = Some t -> exists r, lookup_row tb n c f = Some r /\ r_ty r = t.
Proof.
  unfold cover_ok, lookup_impl. intros H Hi Hn Hl. rewrite forallb_forall in H.
  destruct (find (fun p => String.eqb (fst p) n) (t_impls tb)) as [p|] eqn:E; [|discriminate].
  injection Hi as Hp. apply find_some in E. destruct E as [Hin Hname]. apply String.eqb_eq in Hname.
  specialize (H p Hin). cbv beta in H. rewrite Hp, Hname in H.
  unfold node_fields in Hn. destruct (lookup_def (t_defs tb) n) as [d|] eqn:Ed; [|discriminate].
  rewrite forallb_forall in H.
  assert (Hpos : In (c, f, t) (def_positions d)).
  { unfold lookup_ty in Hl. destruct (find (fun p0 => String.eqb (fst p0) f) fts) as [q|] eqn:Eq; [|discriminate].
    injection Hl as Hq. apply find_some in Eq. destruct Eq as [Hq1 Hq2]. apply String.eqb_eq in Hq2.
    destruct q as [f' t']. cbn [fst snd] in *. subst f' t'.
    destruct d as [nm|nm fs0|nm vs]; [discriminate| |].
    - destruct (String.eqb c "") eqn:Ec; [|discriminate]. apply String.eqb_eq in Ec. subst c.
      injection Hn as <-. apply in_map_iff in Hq1. destruct Hq1 as (x & Hx & Hxin).
      cbn [def_positions]. apply in_map_iff. exists x. split; [|exact Hxin].
      injection Hx as <- <-. reflexivity.
    - destruct (find (fun v => String.eqb (fst v) c) vs) as [v|] eqn:Ev; [|discriminate].
      injection Hn as <-. apply find_some in Ev. destruct Ev as [Hv1 Hv2]. apply String.eqb_eq in Hv2.
      cbn [def_positions]. apply in_flat_map. exists v. split; [exact Hv1|].
      apply in_map_iff. exists (f, t). split; [|exact Hq1]. cbn [fst snd]. rewrite Hv2. reflexivity. }
  specialize (H _ Hpos). cbv beta in H. cbn [fst snd] in H.
  destruct (lookup_row tb n c f) as [r|]; [|discriminate]. exists r. split; [reflexivity|]. apply rty_eqb_eq. exact H.
Qed.

(* closure: a type with a field whose type mentions X is in X *)
Lemma closed_field defs X n c fts f t :
  closed_under defs X = true -> node_fields defs n c = Some fts -> lookup_ty fts f = Some t ->
  mentions X t = true -> mem n X = true.
Proof.
  unfold closed_under, node_fields. intros H Hn Hl Hm. rewrite forallb_forall in H.
  unfold lookup_def in Hn. destruct (find (fun d => String.eqb (def_name d) n) defs) as [d|] eqn:Ed; [|discriminate].
  apply find_some in Ed. destruct Ed as [Hin Hname]. apply String.eqb_eq in Hname.
  specialize (H d Hin). cbv beta in H. rewrite Hname in H.
  assert (Hc : def_carries X d = true); [|rewrite Hc in H; exact H].
  unfold lookup_ty in Hl. destruct (find (fun p0 => String.eqb (fst p0) f) fts) as [q|] eqn:Eq; [|discriminate].
  injection Hl as Hq. apply find_some in Eq. destruct Eq as [Hq1 _]. destruct q as [f' t']. cbn [snd] in Hq. subst t'.
  destruct d as [nm|nm fs0|nm vs]; [discriminate| |].
  - destruct (String.eqb c ""); [|discriminate]. injection Hn as <-.
    apply in_map_iff in Hq1. destruct Hq1 as (x & Hx & Hxin). injection Hx as _ Hx2.
    cbn [def_carries]. apply existsb_exists. exists x. split; [exact Hxin|]. rewrite Hx2. exact Hm.
  - destruct (find (fun v => String.eqb (fst v) c) vs) as [v|] eqn:Ev; [|discriminate].
    injection Hn as <-. apply find_some in Ev. destruct Ev as [Hv1 _].
    cbn [def_carries]. apply existsb_exists. exists v. split; [exact Hv1|].
    apply existsb_exists. exists (f', t). split; [exact Hq1|exact Hm].
Qed.

(* ------------------------------------------------------------------ *)
(* Part 2.  Rows => every tree *)

Record tfacts (tb : table) (S DT : list string) (known : row -> bool) : Prop := mkFacts {
  tf_rows : forall r, In r (t_rows tb) -> known r = false -> row_ok tb S DT r = true;
  tf_known : forall r, In r (t_rows tb) -> known r = true -> known_shape r = true;
  tf_cover : cover_ok tb = true;
  tf_closed : closed_under (t_defs tb) DT = true;
  tf_seed : forall n, In n decl_seed -> mem n DT = true }.

Lemma table_ok_facts tb S DT known : table_ok tb S DT known = true -> tfacts tb S DT known.
Proof.
  unfold table_ok. intros H. apply andb_prop in H. destruct H as [H H4]. apply andb_prop in H. destruct H as [H H3].
  apply andb_prop in H. destruct H as [H1 H2]. rewrite forallb_forall in H1, H4.
  constructor; try assumption.
  - intros r Hin Hk. specialize (H1 r Hin). cbv beta in H1. rewrite Hk in H1. exact H1.
  - intros r Hin Hk. specialize (H1 r Hin). cbv beta in H1. rewrite Hk in H1. exact H1.
Qed.

Definition named (T : rty) (n : string) : Prop := T = TName n \/ exists a, T = TApp n a.

Lemma has_ty_fields_inv defs n c (fs : list (string * val)) :
  (match node_fields defs n c with
   | Some fts =>
       strs_eqb (map fst fs) (map fst fts) &&
       forallb (fun p => match lookup_ty fts (fst p) with
                         | Some t => has_ty defs t (snd p)
                         | None => false
                         end) fs
   | None => false
   end) = true ->
  exists fts, node_fields defs n c = Some fts /\
              forall p, In p fs -> exists t, lookup_ty fts (fst p) = Some t /\ has_ty defs t (snd p) = true.
Proof.
  destruct (node_fields defs n c) as [fts|]; [|discriminate]. intros H.
  apply andb_prop in H. destruct H as [_ H]. exists fts. split; [reflexivity|].
  rewrite forallb_forall in H. intros p Hp. specialize (H p Hp). cbv beta in H.
  destruct (lookup_ty fts (fst p)) as [t|]; [|discriminate]. exists t. split; [reflexivity|exact H].
Qed.

Lemma has_ty_node_inv defs T n n' c fs :
  named T n -> has_ty defs T (VNode n' c fs) = true ->
  String.eqb n' n = true /\
  exists fts, node_fields defs n c = Some fts /\
              forall p, In p fs -> exists t, lookup_ty fts (fst p) = Some t /\ has_ty defs t (snd p) = true.
Proof.
  intros [->|[a ->]] H; cbn [has_ty] in H.
  - destruct (lookup_def defs n) as [[nm|nm fs0|nm vs]|]; try discriminate;
      apply andb_prop in H; destruct H as [H1 H]; (split; [exact H1|exact (has_ty_fields_inv _ _ _ _ H)]).
  - destruct (lookup_def defs n) as [[nm|nm fs0|nm vs]|]; try discriminate;
      apply andb_prop in H; destruct H as [H1 H]; (split; [exact H1|exact (has_ty_fields_inv _ _ _ _ H)]).
Qed.

Lemma mentions_named X T n : named T n -> mem n X = true -> mentions X T = true.
Proof. intros [->|[a ->]] H; cbn [mentions]; rewrite H; reflexivity. Qed.

Lemma mem_in n l : mem n l = true -> In n l.
Proof.
  unfold mem. intros H. apply existsb_exists in H. destruct H as (x & Hx & He). apply String.eqb_eq in He. subst. exact Hx.
Qed.

Definition rec_arg (m : meth) : option cls_arg := match m with MRec k => Some k | _ => None end.

(* one field of a node: what the row does = what the specification demands *)
Lemma field_agree tb S DT known R (F : tfacts tb S DT known) n wc c fs fts ci cs T :
  named T n ->
  lookup_impl tb n = Some (IFields wc) ->
  node_fields (t_defs tb) n c = Some fts ->
  (mentions DT T = true -> ci = cs) ->
  forall f x t,
    lookup_ty fts f = Some t -> has_ty (t_defs tb) t x = true ->
    (match lookup_row tb n c f with Some r => if known r then is_empty x else true | None => true end) = true ->
    clean tb known x = true ->
    (forall T' ci' cs', deleg_ok tb S T' = true -> has_ty (t_defs tb) T' x = true -> clean tb known x = true ->
                        (mentions DT T' = true -> ci' = cs') ->
                        remap_val tb R ci' T' x = spec_val (t_defs tb) S R cs' T' x) ->
    (match lookup_row tb n c f with
     | None => Err
     | Some r =>
         match r_act r with
         | Copied => Ok x
         | Dropped => empty_of (r_ty r)
         | Remapped (MRec k) => remap_val tb R (pass_ctx k ci fs) (r_ty r) x
         | Remapped m => if is_leaf_meth m then apply_leaf R m x else apply_pos R m ci fs x
         end
     end) =
    (match position_method (pseudo_row n c f t) with
     | Some m => apply_pos R m (self_ctx n cs fs) fs x
     | None => spec_val (t_defs tb) S R (self_ctx n cs fs) t x
     end).
Proof.
  intros HT Hi Hnf Hctx f x t Hlt Hty Hkn Hcl IH.
  destruct (cover_row tb n wc c fts f t (tf_cover _ _ _ _ F) Hi Hnf Hlt) as (r & Hr & Hrt).
  rewrite Hr in *.
  assert (Hfs : In r (t_rows tb) /\ at_pos r n c f = true).
  { unfold lookup_row in Hr. apply find_some in Hr. exact Hr. }
  destruct Hfs as [Hin Hat].
  rewrite (position_pseudo r n c f t Hat).
  destruct (at_pos_eq _ _ _ _ Hat) as (Hrn & _ & _).
  destruct (known r) eqn:Ek.
  - (* a known finding: dropped, and the value has nothing there *)
    pose proof (tf_known _ _ _ _ F r Hin Ek) as Hs. unfold known_shape in Hs.
    apply andb_prop in Hs. destruct Hs as [Hs Hp]. apply andb_prop in Hs. destruct Hs as [Ha Hc].
    apply action_eqb_eq in Ha. rewrite Ha.
    destruct (position_method r); [discriminate|].
    subst t. destruct (r_ty r) as [p|p| |p a|a|a|a b]; try discriminate.
    + destruct x as [s|s|n0 c0 fs0|l| |y|a1 b1]; try discriminate; try (destruct l; discriminate).
      rewrite spec_val_opt. destruct (negb (mentions S a)); reflexivity.
    + destruct x as [s|s|n0 c0 fs0|l| |y|a1 b1]; try discriminate. destruct l; [|discriminate].
      rewrite spec_val_vec. destruct (negb (mentions S a)); reflexivity.
  - pose proof (tf_rows _ _ _ _ F r Hin Ek) as Hrow. unfold row_ok in Hrow.
    apply andb_prop in Hrow. destruct Hrow as [H1 Hrec].
    destruct (r_act r) as [| |m] eqn:Ea.
    + (* Copied *)
      unfold effective_t in H1. rewrite Ea in H1.
      destruct (carries_ref_in S r) eqn:Ec.
      { apply andb_prop in H1. destruct H1 as [H1 _]. apply action_eqb_eq in H1. discriminate. }
      unfold carries_ref_in in Ec. destruct (position_method r); [discriminate|].
      rewrite spec_val_nomention; [reflexivity|]. rewrite <- Hrt. exact Ec.
    + (* Dropped *)
      unfold effective_t in H1. rewrite Ea in H1.
      destruct (carries_ref_in S r); [apply andb_prop in H1; destruct H1 as [H1 _]|]; apply action_eqb_eq in H1; discriminate.
    + destruct (rec_arg m) as [k|] eqn:Erec.
      * (* delegated *)
        assert (m = MRec k) by (destruct m; try discriminate; injection Erec as ->; reflexivity). subst m.
        pose proof (row_deleg tb S DT r k (cover_impls_leaf tb (tf_cover _ _ _ _ F))
                              (proj2 (andb_true_iff _ _) (conj H1 Hrec)) Ea) as Hd.
        unfold rec_ok in Hrec. rewrite Ea in Hrec. apply andb_prop in Hrec. destruct Hrec as [Hp Hk].
        destruct (position_method r); [discriminate|].
        subst t. apply IH; try assumption.
        intros Hm. destruct k; cbn [pass_ctx].
        -- rewrite Hm in Hk. discriminate.
        -- rewrite Hrn in Hk. unfold self_ctx. destruct (String.eqb n "ClassFile"); [discriminate|].
           apply Hctx. apply (mentions_named DT T n HT).
           exact (closed_field _ _ _ _ _ _ _ (tf_closed _ _ _ _ F) Hnf Hlt Hm).
        -- rewrite Hrn in Hk. unfold self_ctx. rewrite Hk. reflexivity.
      * (* a remapper method called on the spot *)
        assert (He : effective_t tb r = Remapped m) by (unfold effective_t; rewrite Ea; destruct m; try reflexivity; discriminate).
        assert (Hgoal : (match m with
                         | MRec k => remap_val tb R (pass_ctx k ci fs) (r_ty r) x
                         | _ => if is_leaf_meth m then apply_leaf R m x else apply_pos R m ci fs x
                         end) = (if is_leaf_meth m then apply_leaf R m x else apply_pos R m ci fs x))
          by (destruct m; try reflexivity; discriminate).
        assert (Hrec' : (if is_leaf_meth m then (match r_ty r with TName _ => true | _ => false end) else true) = true)
          by (unfold rec_ok in Hrec; rewrite Ea in Hrec; destruct m; try exact Hrec; discriminate).
        transitivity (if is_leaf_meth m then apply_leaf R m x else apply_pos R m ci fs x);
          [destruct m; try reflexivity; discriminate|]. clear Hgoal.
        rewrite He in H1.
        destruct (carries_ref_in S r) eqn:Ec; [|apply action_eqb_eq in H1; discriminate].
        apply andb_prop in H1. destruct H1 as [H1 Hu]. apply action_eqb_eq in H1. injection H1 as Hm.
        unfold carries_ref_in in Ec. unfold appropriate in Hm, Hu.
        destruct (position_method r) as [pm|] eqn:Epos.
        -- (* a position rule *)
           subst pm. destruct (position_kind r m Epos) as (Hl & _ & _ & Hseed). rewrite Hl.
           destruct m; try (apply apply_pos_ctx; intros d0; split; discriminate).
           ++ assert (Hs : mem n decl_seed = true) by (rewrite <- Hrn; apply Hseed; exists d; left; reflexivity).
              assert (Hcf : String.eqb n "ClassFile" = false)
                by (apply mem_in in Hs; destruct Hs as [<-|[<-|[<-|[]]]]; reflexivity).
              unfold self_ctx. rewrite Hcf. rewrite (Hctx (mentions_named DT T n HT (tf_seed _ _ _ _ F n (mem_in _ _ Hs)))). reflexivity.
           ++ assert (Hs : mem n decl_seed = true) by (rewrite <- Hrn; apply Hseed; exists d; right; reflexivity).
              assert (Hcf : String.eqb n "ClassFile" = false)
                by (apply mem_in in Hs; destruct Hs as [<-|[<-|[<-|[]]]]; reflexivity).
              unfold self_ctx. rewrite Hcf. rewrite (Hctx (mentions_named DT T n HT (tf_seed _ _ _ _ F n (mem_in _ _ Hs)))). reflexivity.
        -- (* a leaf reference type *)
           destruct (base_ty (r_ty r)) as [p|n0| |n0 a|a|a|a b] eqn:Eb;
             try (subst m; discriminate).
           destruct (leaf_method n0) as [m'|] eqn:El; [|destruct (needs_owner n0); subst m; discriminate].
           subst m'. pose proof (leaf_method_leaf _ _ El) as Hl. rewrite Hl in *.
           destruct (r_ty r) as [p|n1| |n1 a|a|a|a b] eqn:Ety; try discriminate.
           cbn [base_ty] in Eb. injection Eb as ->. subst t.
           rewrite spec_val_name. cbn [mentions] in Ec |- *. rewrite Ec. cbn [negb]. rewrite El. reflexivity.
Qed.

Definition agree_at (tb : table) (S DT : list string) (known : row -> bool) (R : remapper) (v : val) : Prop :=
  forall T ci cs,
    deleg_ok tb S T = true -> has_ty (t_defs tb) T v = true -> clean tb known v = true ->
    (mentions DT T = true -> ci = cs) ->
    remap_val tb R ci T v = spec_val (t_defs tb) S R cs T v.

Lemma node_agree tb S DT known R (F : tfacts tb S DT known) T n wc n' c fs ci cs :
  named T n -> lookup_impl tb n = Some (IFields wc) ->
  has_ty (t_defs tb) T (VNode n' c fs) = true -> clean tb known (VNode n' c fs) = true ->
  (mentions DT T = true -> ci = cs) ->
  Forall (fun p => agree_at tb S DT known R (snd p)) fs ->
  (if String.eqb n' n
   then match remap_fields tb R ci n c fs with Ok fs' => Ok (VNode n' c fs') | Err => Err end
   else Err) = spec_node (t_defs tb) S R cs n (VNode n' c fs).
Proof.
  intros HT Hi Ht Hc Hctx IH. unfold spec_node.
  destruct (has_ty_node_inv _ _ _ _ _ _ HT Ht) as (En & fts & Hnf & Hfs).
  rewrite En, Hnf. apply String.eqb_eq in En. subst n'. unfold remap_fields, spec_fields.
  rewrite (mapM_ext_in _ (fun p =>
          match lookup_ty fts (fst p) with
          | None => Err
          | Some t =>
              match (match position_method (pseudo_row n c (fst p) t) with
                     | Some m => apply_pos R m (self_ctx n cs fs) fs (snd p)
                     | None => spec_val (t_defs tb) S R (self_ctx n cs fs) t (snd p)
                     end) with
              | Ok y => Ok (fst p, y)
              | Err => Err
              end
          end) fs); [reflexivity|].
  intros [f x] Hp. cbn [fst snd].
  destruct (Hfs _ Hp) as (t & Hlt & Hty). cbn [fst snd] in Hlt, Hty. rewrite Hlt.
  cbn [clean] in Hc. rewrite forallb_forall in Hc. specialize (Hc _ Hp). cbv beta in Hc. cbn [fst snd] in Hc.
  apply andb_prop in Hc. destruct Hc as [Hk Hcl].
  rewrite Forall_forall in IH. specialize (IH _ Hp). cbn [snd] in IH.
  rewrite (field_agree tb S DT known R F n wc c fs fts ci cs T HT Hi Hnf Hctx f x t Hlt Hty Hk Hcl IH).
  reflexivity.
Qed.

Lemma agree tb S DT known R (F : tfacts tb S DT known) : forall v, agree_at tb S DT known R v.
Proof.
  assert (Hnamed : forall v n T ci cs,
             named T n ->
             (match v with VNode _ _ fs => Forall (fun p => agree_at tb S DT known R (snd p)) fs | _ => True end) ->
             has_ty (t_defs tb) T v = true -> clean tb known v = true -> (mentions DT T = true -> ci = cs) ->
             forall wc, lookup_impl tb n = Some (IFields wc) ->
             (match v with
              | VNode n' c fs =>
                  if String.eqb n' n
                  then match remap_fields tb R ci n c fs with Ok fs' => Ok (VNode n' c fs') | Err => Err end
                  else Err
              | _ => Err
              end) = spec_node (t_defs tb) S R cs n v).
  { intros v n T ci cs HT IH Ht Hc Hctx wc Hi. destruct v; try reflexivity.
    exact (node_agree tb S DT known R F T n wc _ _ _ ci cs HT Hi Ht Hc Hctx IH). }
  assert (Hstep : forall v,
             (match v with
              | VNode _ _ fs => Forall (fun p => agree_at tb S DT known R (snd p)) fs
              | VList l => Forall (agree_at tb S DT known R) l
              | VSome x => agree_at tb S DT known R x
              | _ => True
              end) -> agree_at tb S DT known R v).
  { intros v IH T ci cs Hd Ht Hc Hctx.
    destruct T as [p|n| |n a|a|a|a b]; try discriminate.
    - (* TName *)
      rewrite remap_val_name, spec_val_name. unfold deleg_ok in Hd. cbn [base_ty] in Hd. unfold remap_named.
      destruct (lookup_impl tb n) as [[m| |wc]|] eqn:Ei; try discriminate.
      + apply andb_prop in Hd. destruct Hd as [Hm Hl]. rewrite Hm. cbn [negb].
        destruct (leaf_method n) as [m'|]; [|discriminate]. apply meth_eqb_eq in Hl. subst m'. reflexivity.
      + rewrite Hd. reflexivity.
      + apply andb_prop in Hd. destruct Hd as [Hm Hl]. rewrite Hm. cbn [negb].
        destruct (leaf_method n) as [m'|]; [discriminate|]. destruct (needs_owner n); [discriminate|].
        apply (Hnamed v n (TName n) ci cs (or_introl eq_refl)) with (wc := wc); try assumption.
        destruct v; try exact I. exact IH.
    - (* TApp *)
      rewrite remap_val_app, spec_val_app. unfold deleg_ok in Hd. cbn [base_ty] in Hd. unfold remap_named.
      destruct (lookup_impl tb n) as [[m| |wc]|] eqn:Ei; try discriminate.
      + rewrite Hd. reflexivity.
      + rewrite Hd. cbn [negb].
        apply (Hnamed v n (TApp n a) ci cs (or_intror (ex_intro _ a eq_refl))) with (wc := wc); try assumption.
        destruct v; try exact I. exact IH.
    - (* TOpt *)
      rewrite remap_val_opt, spec_val_opt. rewrite deleg_opt in Hd.
      destruct v as [s|s|n0 c0 fs0|l| |y|a1 b1]; try discriminate.
      + destruct (negb (mentions S a)); reflexivity.
      + cbn [has_ty] in Ht. cbn [clean] in Hc. cbn [mentions] in Hctx.
        rewrite (IH a ci cs Hd Ht Hc Hctx).
        destruct (mentions S a) eqn:Em; cbn [negb]; [reflexivity|].
        rewrite spec_val_nomention by exact Em. reflexivity.
    - (* TVec *)
      rewrite remap_val_vec, spec_val_vec. rewrite deleg_vec in Hd.
      destruct v as [s|s|n0 c0 fs0|l| |y|a1 b1]; try discriminate.
      cbn [has_ty] in Ht. cbn [clean] in Hc. cbn [mentions] in Hctx.
      rewrite forallb_forall in Ht, Hc. rewrite Forall_forall in IH.
      rewrite (mapM_ext_in (remap_val tb R ci a) (spec_val (t_defs tb) S R cs a) l)
        by (intros x Hx; exact (IH x Hx a ci cs Hd (Ht x Hx) (Hc x Hx) Hctx)).
      destruct (mentions S a) eqn:Em; cbn [negb]; [reflexivity|].
      rewrite mapM_id; [reflexivity|]. intros x Hx. apply spec_val_nomention. exact Em. }
  intros v. induction v using val_ind2; apply Hstep; try exact I; assumption.
Qed.

(* THE THEOREM, for any table: if the table passes the finite check, then on every well-typed value
   without anything at the positions of the known findings, the interpreter of the table computes
   exactly what the specification demands, for every remapper and every class-name context *)
Theorem remap_val_spec_gen :
  forall (tb : table) (DT : list string) (known : row -> bool),
    table_ok tb (ref_types (t_defs tb)) DT known = true ->
    forall (R : remapper) (ctx : option str) (T : rty) (v : val),
      deleg_ok tb (ref_types (t_defs tb)) T = true ->
      has_ty (t_defs tb) T v = true ->
      clean tb known v = true ->
      remap_val tb R ctx T v = spec_remap_val (t_defs tb) R ctx T v.
Proof.
  intros tb DT known Hok R ctx T v Hd Ht Hc. unfold spec_remap_val.
  exact (agree tb _ DT known R (table_ok_facts _ _ _ _ Hok) v T ctx ctx Hd Ht Hc (fun _ => eq_refl)).
Qed.

(* ------------------------------------------------------------------ *)
(* Part 3.  The regenerated table *)

(* the types from which a declared-member position is reachable (closure of [decl_seed] under
   "has a field whose type mentions one of them") *)
Definition DT : list string := Eval vm_compute in iter (List.length type_defs) type_defs decl_seed.

(* the finite check holds for the table regenerated from dukebox/src/remap.rs and duke/src/tree
   (re-proved on every run) *)
Lemma gen_table_ok : table_ok gen_table (ref_types (t_defs gen_table)) DT known_row = true.
Proof. vm_compute. reflexivity. Qed.

(* every row outside [known_row] passes the per-row check — which contains Th 1 and Th 2 *)
Lemma gen_rows_ok : forall r, In r rows -> known_row r = false -> row_ok gen_table (ref_types type_defs) DT r = true.
Proof. exact (tf_rows _ _ _ _ (table_ok_facts _ _ _ _ gen_table_ok)). Qed.

Lemma row_ok_th1 tb S D r :
  row_ok tb S D r = true -> carries_ref_in S r = true -> effective_t tb r = Remapped (appropriate r).
Proof.
  unfold row_ok. intros H Hc. rewrite Hc in H. apply andb_prop in H. destruct H as [H _].
  apply andb_prop in H. destruct H as [H _]. apply action_eqb_eq. exact H.
Qed.
Lemma row_ok_th2 tb S D r :
  row_ok tb S D r = true -> carries_ref_in S r = false -> effective_t tb r = Copied.
Proof.
  unfold row_ok. intros H Hc. rewrite Hc in H. apply andb_prop in H. destruct H as [H _]. apply action_eqb_eq. exact H.
Qed.

Definition class_ty : rty := TName "ClassFile".

Lemma class_deleg_ok : deleg_ok gen_table (ref_types type_defs) class_ty = true.
Proof. vm_compute. reflexivity. Qed.

(* no type argument of a generic tree type carries a reference (so leaving a field of the parameter
   type alone, as `impl<T> Mappable for TypeAnnotation<T>` must, loses nothing) *)
Fixpoint targs (t : rty) : list rty :=
  match t with
  | TApp _ a => a :: targs a
  | TOpt a | TVec a => targs a
  | TPair a b => targs a ++ targs b
  | _ => []
  end.
Definition def_targs (d : tdef) : list rty :=
  match d with
  | DStr _ => []
  | DStruct _ fs => flat_map (fun f => targs (snd (fst f))) fs
  | DEnum _ vs => flat_map (fun v => flat_map (fun f => targs (snd f)) (snd v)) vs
  end.
Definition targs_carry_no_refs : Prop :=
  forall d a, In d type_defs -> In a (def_targs d) -> carries_ref_ty type_defs a = false.
Lemma targs_carry_no_refs_holds : targs_carry_no_refs.
Proof.
  assert (H : forallb (fun d => forallb (fun a => negb (mentions RT a)) (def_targs d)) type_defs = true) by (vm_compute; reflexivity).
  intros d a Hd Ha. unfold carries_ref_ty. rewrite RT_eq. rewrite forallb_forall in H. specialize (H d Hd). cbv beta in H.
  rewrite forallb_forall in H. specialize (H a Ha). cbv beta in H. destruct (mentions RT a); [discriminate|reflexivity].
Qed.

(* THE THEOREM for the table regenerated from the source *)
Theorem remap_val_spec :
  forall (R : remapper) (ctx : option str) (T : rty) (v : val),
    deleg_ok gen_table (ref_types type_defs) T = true ->
    has_ty type_defs T v = true ->
    clean gen_table known_row v = true ->
    remap_val gen_table R ctx T v = spec_remap_val type_defs R ctx T v.
Proof. exact (remap_val_spec_gen gen_table DT known_row gen_table_ok). Qed.

(* whole classes *)
Theorem remap_class_spec :
  forall (R : remapper) (ctx : option str) (v : val),
    has_ty type_defs class_ty v = true ->
    clean gen_table known_row v = true ->
    remap_val gen_table R ctx class_ty v = spec_remap_val type_defs R ctx class_ty v.
Proof. intros R ctx v. exact (remap_val_spec R ctx class_ty v class_deleg_ok). Qed.

(* ------------------------------------------------------------------ *)
(* Corollaries: what the specification (hence, by the theorem, remap.rs) leaves as it is *)

Definition shape_fields (fs fs' : list (string * val)) : bool :=
  forall2b (fun p q => String.eqb (fst p) (fst q) && same_shape (snd p) (snd q)) fs fs'.

Lemma forall2b_cons {A B} (f : A -> B -> bool) x l y l' :
  forall2b f (x :: l) (y :: l') = f x y && forall2b f l l'.
Proof. reflexivity. Qed.

Lemma forall2b_of_Forall2 {A B} (f : A -> B -> bool) l l' :
  Forall2 (fun x y => f x y = true) l l' -> forall2b f l l' = true.
Proof. induction 1 as [|x y l l' H _ IH]; [reflexivity|]. rewrite forall2b_cons, H, IH. reflexivity. Qed.

Lemma same_shape_refl : forall v, same_shape v v = true.
Proof.
  induction v using val_ind2; cbn [same_shape]; try reflexivity.
  - apply str_eqb_refl.
  - rewrite !String.eqb_refl. cbn [andb]. apply forall2b_of_Forall2.
    induction H as [|p l Hp _ IH]; constructor; [|exact IH]. rewrite String.eqb_refl. exact Hp.
  - apply forall2b_of_Forall2. induction H as [|p l Hp _ IH]; constructor; [exact Hp|exact IH].
  - exact IHv.
  - rewrite IHv1, IHv2. reflexivity.
Qed.

Lemma shape_fields_refl fs : shape_fields fs fs = true.
Proof.
  unfold shape_fields. induction fs as [|p fs IH]; [reflexivity|].
  rewrite forall2b_cons, String.eqb_refl, same_shape_refl, IH. reflexivity.
Qed.

Lemma same_shape_str x s s' : same_shape x (VStr s) = true -> same_shape x (VStr s') = true.
Proof. destruct x; cbn [same_shape]; congruence. Qed.

Lemma field_of_cons p fs f :
  field_of (p :: fs) f = if String.eqb (fst p) f then Ok (snd p) else field_of fs f.
Proof. unfold field_of. cbn [find]. destruct (String.eqb (fst p) f); reflexivity. Qed.

Lemma set_field_shape f s s' : forall fs fs0,
  shape_fields fs0 fs = true -> field_of fs f = Ok (VStr s) -> shape_fields fs0 (set_field f (VStr s') fs) = true.
Proof.
  unfold shape_fields. induction fs as [|p fs IH]; intros [|p0 fs0] H Hf; try discriminate.
  rewrite forall2b_cons in H. apply andb_prop in H. destruct H as [H H2]. apply andb_prop in H. destruct H as [Hn Hs].
  rewrite field_of_cons in Hf. cbn [set_field]. destruct (String.eqb (fst p) f) eqn:E.
  - injection Hf as Hf. rewrite forall2b_cons. cbn [fst snd]. rewrite Hn, H2. rewrite Hf in Hs.
    rewrite (same_shape_str _ _ s' Hs). reflexivity.
  - rewrite forall2b_cons, Hn, Hs. cbn [andb]. apply IH; assumption.
Qed.

Lemma field_of_set_other g x f : f <> g -> forall fs, field_of (set_field g x fs) f = field_of fs f.
Proof.
  intros Hne. induction fs as [|p fs IH]; [reflexivity|]. cbn [set_field].
  destruct (String.eqb (fst p) g) eqn:E.
  - rewrite !field_of_cons. cbn [fst snd]. apply String.eqb_eq in E.
    destruct (String.eqb (fst p) f) eqn:E2; [|reflexivity]. apply String.eqb_eq in E2. congruence.
  - rewrite !field_of_cons, IH. reflexivity.
Qed.

Lemma str_field_ok fs f s : str_field fs f = Ok s -> field_of fs f = Ok (VStr s).
Proof. unfold str_field. destruct (field_of fs f) as [[]|]; try discriminate. intros [= ->]. reflexivity. Qed.

Lemma apply_str_shape g v v' : apply_str g v = Ok v' -> same_shape v v' = true.
Proof. destruct v; try discriminate. cbn [apply_str]. destruct (g s); [|discriminate]. intros [= <-]. reflexivity. Qed.

Lemma apply_ref_shape g v v' : apply_ref g v = Ok v' -> same_shape v v' = true.
Proof.
  destruct v as [s|s|n c fs|l| |y|a b]; try discriminate. cbn [apply_ref].
  destruct (str_field fs "class") as [cl|] eqn:E1; [|discriminate].
  destruct (str_field fs "name") as [nm|] eqn:E2; [|discriminate].
  destruct (str_field fs "desc") as [d|] eqn:E3; [|discriminate].
  destruct (g (cl, nm, d)) as [[[cl' nm'] d']|]; [|discriminate]. intros [= <-].
  cbn [same_shape]. rewrite !String.eqb_refl. cbn [andb]. fold (shape_fields fs (set_field "class" (VStr cl') (set_field "name" (VStr nm') (set_field "desc" (VStr d') fs)))).
  apply str_field_ok in E1, E2, E3.
  apply (set_field_shape "class" cl cl').
  - apply (set_field_shape "name" nm nm').
    + apply (set_field_shape "desc" d d'); [apply shape_fields_refl|exact E3].
    + rewrite field_of_set_other by discriminate. exact E2.
  - rewrite !field_of_set_other by discriminate. exact E1.
Qed.

Lemma apply_leaf_shape R m v v' : apply_leaf R m v = Ok v' -> same_shape v v' = true.
Proof.
  destruct m; cbn [apply_leaf]; try discriminate;
    first [apply apply_str_shape | apply apply_ref_shape].
Qed.

Lemma apply_pos_shape R m ctx sib x y : apply_pos R m ctx sib x = Ok y -> same_shape x y = true.
Proof.
  destruct m; cbn [apply_pos]; try discriminate.
  - destruct x; try discriminate. destruct ctx; [|discriminate].
    destruct (str_field sib "name"); [|discriminate]. destruct (str_field sib "descriptor"); [|discriminate].
    destruct (decl_map d R s0 a a0) as [[n' d']|]; [|discriminate].
    intros [= <-]. reflexivity.
  - destruct x; try discriminate. destruct ctx; [|discriminate].
    destruct (str_field sib "name"); [|discriminate]. destruct (str_field sib "descriptor"); [|discriminate].
    destruct (decl_map d R s0 a a0) as [[n' d']|]; [|discriminate].
    intros [= <-]. reflexivity.
  - destruct x; try discriminate. cbn [get_str].
    destruct (match field_of sib "method" with Ok mv => member_of mv | Err => Err end); [|discriminate].
    destruct (remap_enclosing R s a) as [[c' mm']|]; [|discriminate]. intros [= <-]. reflexivity.
  - destruct (str_field sib "class"); [|discriminate].
    destruct (member_of x) as [mm|] eqn:Em; [|discriminate].
    destruct (remap_enclosing R a mm) as [[c' mm']|]; [|discriminate].
    destruct x as [s|s|n c fs|l| |z|a1 b1]; try discriminate.
    + destruct mm'; [discriminate|]. intros [= <-]. reflexivity.
    + destruct z as [s|s|n c fs|l| |z|a1 b1]; try discriminate.
      destruct mm' as [[n' d']|]; [|discriminate]. intros [= <-].
      cbn [member_of] in Em.
      destruct (str_field fs "name") as [nm|] eqn:E2; [|discriminate].
      destruct (str_field fs "desc") as [ds|] eqn:E3; [|discriminate].
      apply str_field_ok in E2, E3.
      cbn [same_shape]. rewrite !String.eqb_refl. cbn [andb].
      fold (shape_fields fs (set_field "name" (VStr n') (set_field "desc" (VStr d') fs))).
      apply (set_field_shape "name" nm n').
      * apply (set_field_shape "desc" ds d'); [apply shape_fields_refl|exact E3].
      * rewrite field_of_set_other by discriminate. exact E2.
  - destruct x; try discriminate. destruct (str_field sib "type_name"); [|discriminate].
    destruct (remap_enum_const R a s); [|discriminate]. intros [= <-]. reflexivity.
Qed.

(* the specification never changes the shape of a value: same constructors, same struct / variant /
   field names, same list lengths, identical opaque leaves *)
Lemma spec_val_shape defs S R : forall v T ctx v', spec_val defs S R ctx T v = Ok v' -> same_shape v v' = true.
Proof.
  induction v using val_ind2; intros T ctx v' Hs;
    (destruct (mentions S T) eqn:Em;
     [|rewrite spec_val_nomention in Hs by exact Em; injection Hs as <-; apply same_shape_refl]).
  (* leaves: only a leaf reference type or nothing *)
  1,2,5: (destruct T as [p|n| |n a|a|a|a b]; try discriminate;
          [rewrite spec_val_name, Em in Hs; cbn [negb] in Hs;
           destruct (leaf_method n); [exact (apply_leaf_shape _ _ _ _ Hs)|destruct (needs_owner n); discriminate]
          |rewrite spec_val_app, Em in Hs; discriminate
          |rewrite spec_val_opt in Hs; cbn [mentions] in Em; rewrite Em in Hs; cbn [negb] in Hs; try discriminate;
           injection Hs as <-; reflexivity
          |rewrite spec_val_vec in Hs; cbn [mentions] in Em; rewrite Em in Hs; discriminate
          |rewrite spec_val_pair, Em in Hs; discriminate]).
  - (* node *)
    assert (Hnode : forall n0 ctx0, spec_node defs S R ctx0 n0 (VNode n c fs) = Ok v' -> same_shape (VNode n c fs) v' = true).
    { intros n0 ctx0. unfold spec_node. destruct (String.eqb n n0); [|discriminate].
      destruct (node_fields defs n0 c) as [fts|]; [|discriminate].
      destruct (spec_fields defs S R ctx0 n0 c fts fs) as [fs'|] eqn:Ef; [|discriminate]. intros [= <-].
      cbn [same_shape]. rewrite !String.eqb_refl. cbn [andb].
      unfold spec_fields in Ef. apply mapM_ok_forall2 in Ef. apply forall2b_of_Forall2.
      assert (Haux : forall (sib : list (string * val)) (o : option str) (l l' : list (string * val)),
                 Forall (fun p => forall T ctx v', spec_val defs S R ctx T (snd p) = Ok v' -> same_shape (snd p) v' = true) l ->
                 Forall2 (fun p q =>
                            match lookup_ty fts (fst p) with
                            | None => Err
                            | Some t =>
                                match (match position_method (pseudo_row n0 c (fst p) t) with
                                       | Some m => apply_pos R m o sib (snd p)
                                       | None => spec_val defs S R o t (snd p)
                                       end) with
                                | Ok y => Ok (fst p, y)
                                | Err => Err
                                end
                            end = Ok q) l l' ->
                 Forall2 (fun x y => String.eqb (fst x) (fst y) && same_shape (snd x) (snd y) = true) l l').
      { intros sib o l l' HF Ef2. induction Ef2 as [|p q l l' Hpq _ IH]; [constructor|].
        inversion HF as [|? ? Hp Hl]; subst. constructor; [|exact (IH Hl)].
        destruct (lookup_ty fts (fst p)) as [t|]; [|discriminate].
        destruct (position_method (pseudo_row n0 c (fst p) t)) as [m|].
        - destruct (apply_pos R m o sib (snd p)) as [y|] eqn:Ey; [|discriminate]. injection Hpq as <-.
          cbn [fst snd]. rewrite String.eqb_refl. exact (apply_pos_shape _ _ _ _ _ _ Ey).
        - destruct (spec_val defs S R o t (snd p)) as [y|] eqn:Ey; [|discriminate]. injection Hpq as <-.
          cbn [fst snd]. rewrite String.eqb_refl. exact (Hp _ _ _ Ey). }
      exact (Haux fs (self_ctx n0 ctx0 fs) fs fs' H Ef). }
    destruct T as [p|n0| |n0 a|a|a|a b]; try discriminate.
    + rewrite spec_val_name, Em in Hs. cbn [negb] in Hs.
      destruct (leaf_method n0); [exact (apply_leaf_shape _ _ _ _ Hs)|].
      destruct (needs_owner n0); [discriminate|]. exact (Hnode _ _ Hs).
    + rewrite spec_val_app, Em in Hs. cbn [negb] in Hs. exact (Hnode _ _ Hs).
    + rewrite spec_val_opt in Hs. cbn [mentions] in Em. rewrite Em in Hs. discriminate.
    + rewrite spec_val_vec in Hs. cbn [mentions] in Em. rewrite Em in Hs. discriminate.
    + rewrite spec_val_pair, Em in Hs. discriminate.
  - (* list *)
    destruct T as [p|n0| |n0 a|a|a|a b]; try discriminate.
    + rewrite spec_val_name, Em in Hs. cbn [negb] in Hs.
      destruct (leaf_method n0); [exact (apply_leaf_shape _ _ _ _ Hs)|destruct (needs_owner n0); discriminate].
    + rewrite spec_val_app, Em in Hs. discriminate.
    + rewrite spec_val_opt in Hs. cbn [mentions] in Em. rewrite Em in Hs. discriminate.
    + rewrite spec_val_vec in Hs. cbn [mentions] in Em. rewrite Em in Hs. cbn [negb] in Hs.
      destruct (mapM (spec_val defs S R ctx a) l) as [l'|] eqn:El; [|discriminate]. injection Hs as <-.
      cbn [same_shape]. apply mapM_ok_forall2 in El. apply forall2b_of_Forall2.
      induction El as [|x y l0 l0' Hxy _ IH]; [constructor|].
      inversion H as [|? ? Hx Hl]; subst. constructor; [exact (Hx _ _ _ Hxy)|exact (IH Hl)].
    + rewrite spec_val_pair, Em in Hs. discriminate.
  - (* some *)
    destruct T as [p|n0| |n0 a|a|a|a b]; try discriminate.
    + rewrite spec_val_name, Em in Hs. cbn [negb] in Hs.
      destruct (leaf_method n0); [exact (apply_leaf_shape _ _ _ _ Hs)|destruct (needs_owner n0); discriminate].
    + rewrite spec_val_app, Em in Hs. discriminate.
    + rewrite spec_val_opt in Hs. cbn [mentions] in Em. rewrite Em in Hs. cbn [negb] in Hs.
      destruct (spec_val defs S R ctx a v) as [y|] eqn:Ey; [|discriminate]. injection Hs as <-.
      cbn [same_shape]. exact (IHv _ _ _ Ey).
    + rewrite spec_val_vec in Hs. cbn [mentions] in Em. rewrite Em in Hs. discriminate.
    + rewrite spec_val_pair, Em in Hs. discriminate.
  - (* pair *)
    destruct T as [p|n0| |n0 a0|a0|a0|a0 b0]; try discriminate.
    + rewrite spec_val_name, Em in Hs. cbn [negb] in Hs.
      destruct (leaf_method n0); [exact (apply_leaf_shape _ _ _ _ Hs)|destruct (needs_owner n0); discriminate].
    + rewrite spec_val_app, Em in Hs. discriminate.
    + rewrite spec_val_opt in Hs. cbn [mentions] in Em. rewrite Em in Hs. discriminate.
    + rewrite spec_val_vec in Hs. cbn [mentions] in Em. rewrite Em in Hs. discriminate.
    + rewrite spec_val_pair, Em in Hs. cbn [negb] in Hs.
      destruct (spec_val defs S R ctx a0 v1) as [x'|] eqn:E1; [|discriminate].
      destruct (spec_val defs S R ctx b0 v2) as [y'|] eqn:E2; [|discriminate]. injection Hs as <-.
      cbn [same_shape]. rewrite (IHv1 _ _ _ E1), (IHv2 _ _ _ E2). reflexivity.
Qed.

Lemma same_shape_opaques : forall a b, same_shape a b = true -> opaques a = opaques b.
Proof.
  induction a using val_ind2; intros b Hs; destruct b; try discriminate; cbn [same_shape opaques] in *.
  - reflexivity.
  - apply str_eqb_eq in Hs. congruence.
  - apply andb_prop in Hs. destruct Hs as [_ Hs].
    revert fs0 Hs. induction H as [|p l Hp _ IH]; intros [|q l'] Hs; try discriminate; [reflexivity|].
    rewrite forall2b_cons in Hs. apply andb_prop in Hs. destruct Hs as [Hs Hl].
    apply andb_prop in Hs. destruct Hs as [_ Hs]. cbn [flat_map]. rewrite (Hp _ Hs), (IH _ Hl). reflexivity.
  - revert l0 Hs. induction H as [|p l Hp _ IH]; intros [|q l'] Hs; try discriminate; [reflexivity|].
    rewrite forall2b_cons in Hs. apply andb_prop in Hs. destruct Hs as [Hs Hl].
    cbn [flat_map]. rewrite (Hp _ Hs), (IH _ Hl). reflexivity.
  - reflexivity.
  - exact (IHa _ Hs).
  - apply andb_prop in Hs. destruct Hs as [H1 H2]. rewrite (IHa1 _ H1), (IHa2 _ H2). reflexivity.
Qed.

(* what remap.rs leaves as it is, on every well-typed tree without known-finding positions: the shape
   (constructors, struct / variant / field names, list lengths — e.g. the instruction list entry by
   entry) and every opaque leaf (flags, constants, line numbers, labels, local-variable indices) *)
Theorem remap_val_shape :
  forall (R : remapper) (ctx : option str) (T : rty) (v v' : val),
    deleg_ok gen_table (ref_types type_defs) T = true ->
    has_ty type_defs T v = true ->
    clean gen_table known_row v = true ->
    remap_val gen_table R ctx T v = Ok v' ->
    same_shape v v' = true /\ opaques v' = opaques v.
Proof.
  intros R ctx T v v' Hd Ht Hc Hr. rewrite (remap_val_spec R ctx T v Hd Ht Hc) in Hr.
  pose proof (spec_val_shape _ _ _ _ _ _ _ Hr) as Hs. split; [exact Hs|]. symmetry. exact (same_shape_opaques _ _ Hs).
Qed.

(* a value of a type that carries no reference comes out as it went in *)
Theorem remap_val_nonref :
  forall (R : remapper) (ctx : option str) (T : rty) (v : val),
    deleg_ok gen_table (ref_types type_defs) T = true ->
    has_ty type_defs T v = true ->
    clean gen_table known_row v = true ->
    carries_ref_ty type_defs T = false ->
    remap_val gen_table R ctx T v = Ok v.
Proof.
  intros R ctx T v Hd Ht Hc Hn. rewrite (remap_val_spec R ctx T v Hd Ht Hc).
  unfold spec_remap_val. apply spec_val_nomention. exact Hn.
Qed.

(* and inside any tree: the specification (hence remap.rs) leaves every sub-value whose type carries
   no reference alone — by definition of [spec_val], first line *)
Theorem spec_val_nonref :
  forall defs R ctx T v, carries_ref_ty defs T = false -> spec_remap_val defs R ctx T v = Ok v.
Proof. intros defs R ctx T v H. unfold spec_remap_val. apply spec_val_nomention. exact H. Qed.

(* no row is recorded as a known finding today: every value is [clean], the theorems hold for EVERY
   well-typed class *)
Lemma clean_when_none_known tb known : (forall r, known r = false) -> forall v, clean tb known v = true.
Proof.
  intros Hk. induction v using val_ind2; cbn [clean]; try reflexivity.
  - apply forallb_forall. intros p Hp. rewrite Forall_forall in H. rewrite (H p Hp).
    destruct (lookup_row tb n c (fst p)) as [r|]; [rewrite Hk|]; reflexivity.
  - apply forallb_forall. rewrite Forall_forall in H. exact H.
  - exact IHv.
  - rewrite IHv1, IHv2. reflexivity.
Qed.

Theorem remap_class_spec_full :
  forall (R : remapper) (ctx : option str) (v : val),
    has_ty type_defs class_ty v = true ->
    remap_val gen_table R ctx class_ty v = spec_remap_val type_defs R ctx class_ty v.
Proof.
  intros R ctx v Ht. apply remap_class_spec; [exact Ht|]. apply clean_when_none_known. intros r. reflexivity.
Qed.

Theorem remap_val_spec_full :
  forall (R : remapper) (ctx : option str) (T : rty) (v : val),
    deleg_ok gen_table (ref_types type_defs) T = true ->
    has_ty type_defs T v = true ->
    remap_val gen_table R ctx T v = spec_remap_val type_defs R ctx T v.
Proof.
  intros R ctx T v Hd Ht. apply remap_val_spec; [exact Hd|exact Ht|]. apply clean_when_none_known. intros r. reflexivity.
Qed.

Theorem remap_val_shape_full :
  forall (R : remapper) (ctx : option str) (T : rty) (v v' : val),
    deleg_ok gen_table (ref_types type_defs) T = true ->
    has_ty type_defs T v = true ->
    remap_val gen_table R ctx T v = Ok v' ->
    same_shape v v' = true /\ opaques v' = opaques v.
Proof.
  intros R ctx T v v' Hd Ht. apply remap_val_shape; [exact Hd|exact Ht|].
  apply clean_when_none_known. intros r. reflexivity.
Qed.

Lemma row_ok_contains_th1_th2 :
  forall tb S D r, row_ok tb S D r = true ->
    (carries_ref_in S r = true -> effective_t tb r = Remapped (appropriate r)) /\
    (carries_ref_in S r = false -> effective_t tb r = Copied).
Proof. intros tb S D r H. split; [exact (row_ok_th1 tb S D r H)|exact (row_ok_th2 tb S D r H)]. Qed.

(* ------------------------------------------------------------------ *)
(* non-vacuity: a concrete class *)
From Coq Require Import Ascii.
Fixpoint bs (s : string) : str := match s with EmptyString => [] | String a r => N_of_ascii a :: bs r end.

Definition vfalse : val := VOpaque (bs "false").
Definition vflags (n : string) (fs : list string) : val := VNode n "" (map (fun f => (f, vfalse)) fs).
Definition ex_insn (c : string) (fs : list (string * val)) : val :=
  VNode "InstructionListEntry" "" [("label", VNone); ("frame", VNone); ("instruction", VNode "Instruction" c fs)].

Definition ex_component (n d : string) : val :=
  VNode "RecordComponent" "" [
    ("name", VStr (bs n)); ("descriptor", VStr (bs d)); ("signature", VNone);
    ("runtime_visible_annotations", VList []); ("runtime_invisible_annotations", VList []);
    ("runtime_visible_type_annotations", VList []); ("runtime_invisible_type_annotations", VList []);
    ("attributes", VList [])].

(* class [cn] { int [fn]; void m() { getfield [ro].[rn]:I; return } } *)
Definition ex_class_of (cn fn ro rn : string) : val :=
  VNode "ClassFile" "" [
    ("version", VNode "Version" "" [("major", VOpaque (bs "52")); ("minor", VOpaque (bs "0"))]);
    ("access", vflags "ClassAccess" ["is_public"; "is_final"; "is_super"; "is_interface"; "is_abstract"; "is_synthetic"; "is_annotation"; "is_enum"; "is_module"]);
    ("name", VStr (bs cn));
    ("super_class", VSome (VStr (bs "java/lang/Object")));
    ("interfaces", VList []);
    ("fields", VList [
       VNode "Field" "" [
         ("access", vflags "FieldAccess" ["is_public"; "is_private"; "is_protected"; "is_static"; "is_final"; "is_volatile"; "is_transient"; "is_synthetic"; "is_enum"]);
         ("name", VStr (bs fn));
         ("descriptor", VStr (bs "I"));
         ("has_deprecated_attribute", vfalse); ("has_synthetic_attribute", vfalse);
         ("constant_value", VSome (VNode "ConstantValue" "Integer" [("0", VOpaque (bs "7"))]));
         ("signature", VNone);
         ("runtime_visible_annotations", VList []); ("runtime_invisible_annotations", VList []);
         ("runtime_visible_type_annotations", VList []); ("runtime_invisible_type_annotations", VList []);
         ("attributes", VList [])]]);
    ("methods", VList [
       VNode "Method" "" [
         ("access", vflags "MethodAccess" ["is_public"; "is_private"; "is_protected"; "is_static"; "is_final"; "is_synchronized"; "is_bridge"; "is_varargs"; "is_native"; "is_abstract"; "is_strict"; "is_synthetic"]);
         ("name", VStr (bs "m"));
         ("descriptor", VStr (bs "()V"));
         ("has_deprecated_attribute", vfalse); ("has_synthetic_attribute", vfalse);
         ("code", VSome (VNode "Code" "" [
            ("max_stack", VSome (VOpaque (bs "1"))); ("max_locals", VSome (VOpaque (bs "1")));
            ("instructions", VList [
               ex_insn "ALoad" [("0", VNode "LvIndex" "" [("index", VOpaque (bs "0"))])];
               ex_insn "GetField" [("0", VNode "FieldRef" "" [("class", VStr (bs ro)); ("name", VStr (bs rn)); ("desc", VStr (bs "I"))])];
               ex_insn "Ldc" [("0", VNode "Loadable" "String" [("0", VStr (bs "a/A"))])];
               ex_insn "Return" []]);
            ("exception_table", VList []); ("last_label", VNone);
            ("line_numbers", VSome (VList [VPair (VNode "Label" "" [("id", VOpaque (bs "0"))]) (VOpaque (bs "3"))]));
            ("local_variables", VNone);
            ("runtime_visible_type_annotations", VList []); ("runtime_invisible_type_annotations", VList []);
            ("attributes", VList [])]));
         ("exceptions", VNone); ("signature", VNone);
         ("runtime_visible_annotations", VList []); ("runtime_invisible_annotations", VList []);
         ("runtime_visible_type_annotations", VList []); ("runtime_invisible_type_annotations", VList []);
         ("annotation_default", VNone); ("method_parameters", VNone); ("attributes", VList [])]]);
    ("has_deprecated_attribute", vfalse); ("has_synthetic_attribute", vfalse);
    ("inner_classes", VNone); ("enclosing_method", VNone); ("signature", VNone);
    ("source_file", VSome (VStr (bs "A.java"))); ("source_debug_extension", VNone);
    ("runtime_visible_annotations", VList []); ("runtime_invisible_annotations", VList []);
    ("runtime_visible_type_annotations", VList []); ("runtime_invisible_type_annotations", VList []);
    ("module", VNone); ("module_packages", VNone); ("module_main_class", VNone);
    ("nest_host_class", VSome (VStr (bs ro))); ("nest_members", VNone); ("permitted_subclasses", VNone);
    ("record_components", VList [ex_component fn "I"]); ("attributes", VList [])].

(* [ex_R] (C07/Theory.v): a/A -> x/Y, a/A.f:I -> g, nothing else *)
Definition tree_example : Prop :=
  has_ty type_defs class_ty (ex_class_of "a/A" "f" "a/A" "f") = true /\
  clean gen_table known_row (ex_class_of "a/A" "f" "a/A" "f") = true /\
  remap_val gen_table ex_R None class_ty (ex_class_of "a/A" "f" "a/A" "f") = Ok (ex_class_of "x/Y" "g" "x/Y" "g") /\
  spec_remap_val type_defs ex_R None class_ty (ex_class_of "a/A" "f" "a/A" "f") = Ok (ex_class_of "x/Y" "g" "x/Y" "g") /\
  (* the declared field is asked about with the declaring class, the referenced one with its owner:
     the same field name under another owner stays *)
  remap_val gen_table ex_R None class_ty (ex_class_of "a/A" "f" "b/B" "f") = Ok (ex_class_of "x/Y" "g" "b/B" "f") /\
  (* a record component is the field of its name in the record class; module data is kept *)
  remap_val gen_table ex_R (Some (bs "a/A")) (TName "RecordComponent") (ex_component "f" "I") = Ok (ex_component "g" "I") /\
  remap_val gen_table ex_R (Some (bs "b/B")) (TName "RecordComponent") (ex_component "f" "La/A;") = Ok (ex_component "f" "Lx/Y;") /\
  remap_val gen_table ex_R (Some (bs "a/A")) (TName "RecordComponent") (ex_component "not/a;name" "I") = Err /\
  remap_val gen_table ex_R None (TName "ModuleProvides")
    (VNode "ModuleProvides" "" [("name", VStr (bs "a/A")); ("provides_with", VList [VStr (bs "a/A"); VStr (bs "b/B")])]) =
  Ok (VNode "ModuleProvides" "" [("name", VStr (bs "x/Y")); ("provides_with", VList [VStr (bs "x/Y"); VStr (bs "b/B")])]).
Lemma tree_example_holds : tree_example.
Proof. unfold tree_example. repeat split; vm_compute; reflexivity. Qed.
