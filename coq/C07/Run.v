(* C07 correspondence cases: what dukebox::remap::remap / remap_class did on generated and corpus
   classes, to be compared with the model.

   The remapper is generic (`impl BRemapper`); a case carries it as the finite table of its own
   answers (map_class_fail / map_field_fail / map_method_fail, asked by the harness for everything
   that occurs in the class, class names inside descriptors included).  A question outside the
   table is an error of the case (the check then fails), never silently "unmapped". *)
From Coq Require Export String.
From Coq Require Import Ascii.
From FB Require Export C07.Model Base.Run.

(* Strings of a case are written as Coq string literals (UTF-8) — Coq reads those far faster than
   lists of numerals — and decoded to code points here. *)
Fixpoint bytes_of (s : string) : list N :=
  match s with EmptyString => [] | String a s' => N_of_ascii a :: bytes_of s' end.
Fixpoint utf8_dec (fuel : nat) (l : list N) : str :=
  match fuel with
  | O => []
  | S k =>
      match l with
      | [] => []
      | b :: r =>
          if b <? 128 then b :: utf8_dec k r
          else if b <? 224 then
            match r with c :: r' => ((b - 192) * 64 + (c - 128)) :: utf8_dec k r' | _ => [] end
          else if b <? 240 then
            match r with c :: d :: r' => ((b - 224) * 4096 + (c - 128) * 64 + (d - 128)) :: utf8_dec k r' | _ => [] end
          else
            match r with
            | c :: d :: e :: r' => ((b - 240) * 262144 + (c - 128) * 4096 + (d - 128) * 64 + (e - 128)) :: utf8_dec k r'
            | _ => []
            end
      end
  end.
Definition U (s : string) : str := let b := bytes_of s in utf8_dec (List.length b) b.

Definition ctable := list (str * option str).
Definition mkey := (str * str * str)%type.
Definition mtable := list (mkey * option (str * str)).

Fixpoint lookup_c (c : str) (t : ctable) : res (option str) :=
  match t with
  | [] => Err
  | (k, v) :: t' => if str_eqb c k then Ok v else lookup_c c t'
  end.
Definition mkey_eqb (a b : mkey) : bool :=
  let '(a1, a2, a3) := a in let '(b1, b2, b3) := b in str_eqb a1 b1 && str_eqb a2 b2 && str_eqb a3 b3.
Fixpoint lookup_m (k : mkey) (t : mtable) : res (option (str * str)) :=
  match t with
  | [] => Err
  | (k', v) :: t' => if mkey_eqb k k' then Ok v else lookup_m k t'
  end.
Definition remapper_of (cs : ctable) (fs ms : mtable) : remapper :=
  mkRemapper (fun c => lookup_c c cs) (fun o n d => lookup_m (o, n, d) fs) (fun o n d => lookup_m (o, n, d) ms).

(* one reference position of a class, before and after *)
Inductive obs :=
| OName (k : N) (a b : str)          (* 0 ObjClassName 1 ClassName 2 field 3 method 4 return descriptor *)
| ORef (k : N) (a b : ref3)          (* 0 FieldRef 1 MethodRef *)
| ODecl (k : N) (n d n' d' : str)    (* 0 declared field 1 declared method *)
| OEncl (c : str) (m : option member) (c' : str) (m' : option member)
| OEnum (t c t' c' : str).

Inductive case :=
| CNames (cs : ctable) (names : list str) (out : res (list str))
    (* entry names of the input jar, in order -> entry names of the remapped jar, in order *)
| CRefs (cs : ctable) (fs ms : mtable) (this : str) (l : list obs).
    (* one class (original name [this]): every reference position *)

Definition member_eqb (a b : member) : bool := str_eqb (fst a) (fst b) && str_eqb (snd a) (snd b).
Definition ref3_eqb (a b : ref3) : bool := mkey_eqb a b.
Definition refval_eqb (a b : refval) : bool :=
  match a, b with
  | VName x, VName y => str_eqb x y
  | VRef x, VRef y => ref3_eqb x y
  | VDecl n d, VDecl n' d' => str_eqb n n' && str_eqb d d'
  | VEncl c m, VEncl c' m' => str_eqb c c' && opt_eqb member_eqb m m'
  | VEnumC t c, VEnumC t' c' => str_eqb t t' && str_eqb c c'
  | _, _ => false
  end.

Definition name_meth (k : N) : meth :=
  match k with 0 => MClass | 1 => MClassAny | 2 => MFieldDesc | 3 => MMethodDesc | _ => MReturnDesc end.

Definition check_obs (R : remapper) (this : str) (o : obs) : bool :=
  match o with
  | OName k a b => res_eqb refval_eqb (remap_at R (name_meth k) this (VName a)) (Ok (VName b))
  | ORef k a b => res_eqb refval_eqb (remap_at R (match k with 0 => MFieldRef | _ => MMethodRef end) this (VRef a)) (Ok (VRef b))
  | ODecl k n d n' d' =>
      res_eqb refval_eqb (remap_at R (MDeclName (match k with 0 => DField | _ => DMethod end)) this (VDecl n d)) (Ok (VDecl n' d'))
  | OEncl c m c' m' => res_eqb refval_eqb (remap_at R MEnclMethod this (VEncl c m)) (Ok (VEncl c' m'))
  | OEnum t c t' c' => res_eqb refval_eqb (remap_at R MEnumConst this (VEnumC t c)) (Ok (VEnumC t' c'))
  end.

Definition check (c : case) : bool :=
  match c with
  | CNames cs names out =>
      let R := remapper_of cs [] [] in
      res_eqb (list_eqb str_eqb)
              (match remap_entries R (fun _ (_ : unit) => Ok tt) (map (fun n => (n, tt)) names) with
               | Ok l => Ok (map fst l)
               | Err => Err
               end) out
  | CRefs cs fs ms this l => forallb (check_obs (remapper_of cs fs ms) this) l
  end.
