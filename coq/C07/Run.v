(* C07 correspondence cases: what dukebox::remap::remap / remap_class did on generated and corpus
   classes, to be compared with the model.

   The remapper is generic (`impl BRemapper`); a case carries it as the finite table of its own
   answers (map_class_fail / map_field_fail / map_method_fail, asked by the harness for everything
   that occurs in the class, class names inside descriptors included).  A question outside the
   table is an error of the case (the check then fails), never silently "unmapped". *)
From Coq Require Export String Uint63.
From Coq Require Import Ascii ZArith.
From FB Require Export C07.Model C07.Spec C07.Tree C07.BridgeDefs Base.Run.
From FB Require X27.Tr C02.Class.

(* Strings of a case are written as Coq string literals (UTF-8) — Coq reads those far faster than
   lists of numerals — and decoded to code points here. *)
Fixpoint bytes_of (s : string) : list N :=
  match s with EmptyString => [] | String a s' => N_of_ascii a :: bytes_of s' end.
Fixpoint utf8_dec (fuel : nat) (l : list N) : str :=
  match fuel with
  | O => []
  | S k =>
      match l with
      | [] => []
      | b :: r =>
          if b <? 128 then b :: utf8_dec k r
          else if b <? 224 then
            match r with c :: r' => ((b - 192) * 64 + (c - 128)) :: utf8_dec k r' | _ => [] end
          else if b <? 240 then
            match r with c :: d :: r' => ((b - 224) * 4096 + (c - 128) * 64 + (d - 128)) :: utf8_dec k r' | _ => [] end
          else
            match r with
            | c :: d :: e :: r' => ((b - 240) * 262144 + (c - 128) * 4096 + (d - 128) * 64 + (e - 128)) :: utf8_dec k r'
            | _ => []
            end
      end
  end.
Definition U (s : string) : str := let b := bytes_of s in utf8_dec (List.length b) b.

Definition ctable := list (str * option str).
Definition mkey := (str * str * str)%type.
Definition mtable := list (mkey * option (str * str)).

Fixpoint lookup_c (c : str) (t : ctable) : res (option str) :=
  match t with
  | [] => Err
  | (k, v) :: t' => if str_eqb c k then Ok v else lookup_c c t'
  end.
Definition mkey_eqb (a b : mkey) : bool :=
  let '(a1, a2, a3) := a in let '(b1, b2, b3) := b in str_eqb a1 b1 && str_eqb a2 b2 && str_eqb a3 b3.
Fixpoint lookup_m (k : mkey) (t : mtable) : res (option (str * str)) :=
  match t with
  | [] => Err
  | (k', v) :: t' => if mkey_eqb k k' then Ok v else lookup_m k t'
  end.
Definition remapper_of (cs : ctable) (fs ms : mtable) : remapper :=
  mkRemapper (fun c => lookup_c c cs) (fun o n d => lookup_m (o, n, d) fs) (fun o n d => lookup_m (o, n, d) ms).

(* one reference position of a class, before and after *)
Inductive obs :=
| OName (k : N) (a b : str)          (* 0 ObjClassName 1 ClassName 2 field 3 method 4 return descriptor *)
| ORef (k : N) (a b : ref3)          (* 0 FieldRef 1 MethodRef *)
| ODecl (k : N) (n d n' d' : str)    (* 0 declared field 1 declared method 2 record component *)
| OEncl (c : str) (m : option member) (c' : str) (m' : option member)
| OEnum (t c t' c' : str).

(* the `{:?}` rendering of a duke tree, as parsed by harness/src/classfile/dbg.rs: the harness knows
   nothing about the class tree — the schema-directed reading into [val] happens here ([of_dbg]) *)
Inductive dbg :=
| DAtom (a : str)                               (* number, bool, unit variant, None *)
| DStrL (s : str)                               (* string literal *)
| DNode (n : str) (fs : list (str * dbg))       (* Name { f: v, .. } / Name(v, ..) (fields "0", "1", ..) *)
| DFlags (n : str) (ws : list str)              (* Name { word word } (duke's access-flag structs) *)
| DList (l : list dbg)
| DTuple (l : list dbg).

Inductive case :=
| CNames (cs : ctable) (names : list str) (out : res (list str))
    (* entry names of the input jar, in order -> entry names of the remapped jar, in order *)
| CRefs (cs : ctable) (fs ms : mtable) (this : str) (l : list obs)
    (* one class (original name [this]): every reference position *)
| CTree (cs : ctable) (fs ms : mtable) (tin : dbg) (tout : res dbg) (wr : option (list N * list (list Z)))
    (* one whole class tree as handed to remap_class, and what remap_class returned; the tables are
       every question the call put to the remapper, with its answer.  [wr]: the bytes duke::write_class
       produced for the returned tree and, per method, the offsets of its instructions in the written code
       array (C07/BridgeDefs.v check_written: the conclusion of Bridge.written_operands on the implementation) *)
| CJar (cs : ctable) (es : list (str * (bool * N))) (out : res (list (str * (N * N))))
    (* the entries of the input jar in order (name, is a directory, checksum of the content) and the entries of the
       ParsedJar `remap` returned: name, kind (0 directory, 1 class, 2 other), checksum of the content of an `other` entry *)
| CBad.
    (* a case text that does not decode *)

(* ------------------------------------------------------------------ *)
(* Cases are written by the harness as ONE string literal each and decoded here (Coq elaborates a
   literal in no time, a term of the same size node by node).  Format, over the UTF-8 bytes of the
   literal (numbers in decimal):

     case   ::= pool ( 'N' ctable strs ( 'E' | 'O' strs ) | 'R' ctable mtable mtable str obss
                     | 'J' ctable count ';' ( str ( 'd' | 'f' ) num ';' )* ( 'E' | 'O' count ';' ( str num ';' num ';' )* )
                     | 'T' ctable mtable mtable dbg ( 'E' | 'O' dbg [ 'W' bytecount ';' bytes count ';' ( count ';' ( num ';' )* )* ] ) )
     dbg    ::= 'a' str | 'q' str | 'k' str count ';' ( str dbg )* | 'f' str strs | 'l' count ';' dbg* | 't' count ';' dbg*
     pool   ::= count ';' strlit*                      strings referred to by '#' index ';'
     strlit ::= 's' bytecount ':' utf8-bytes | 'c' count ':' ( codepoint ',' )*
     str    ::= strlit | '#' index ';'
     strs   ::= count ';' str*
     ctable ::= count ';' ( str ostr )*                ostr  ::= '-' | '+' str
     mtable ::= count ';' ( str str str opair )*       opair ::= '-' | '+' str str
     obss   ::= count ';' obs*
     obs    ::= 'n' k ';' str str | 'r' k ';' str^6 | 'd' k ';' str^4 | 'e' str opair str opair | 'u' str^4

   A malformed text decodes to [CBad], on which [check] is false. *)
Definition bytes := list N.
Definition P (A : Type) := bytes -> option (A * bytes).

Fixpoint p_num_aux (fuel : nat) (acc : N) (l : bytes) : N * bytes :=
  match fuel, l with
  | S k, c :: r => if (48 <=? c) && (c <=? 57) then p_num_aux k (acc * 10 + (c - 48)) r else (acc, l)
  | _, _ => (acc, l)
  end.
Definition p_num : P N := fun l =>
  match l with
  | c :: _ => if (48 <=? c) && (c <=? 57) then Some (p_num_aux 24 0 l) else None   (* at most 24 digits *)
  | [] => None
  end.
Definition p_char (c : N) : P unit := fun l =>
  match l with x :: r => if N.eqb x c then Some (tt, r) else None | [] => None end.
Definition p_bind {A B} (p : P A) (f : A -> P B) : P B := fun l =>
  match p l with Some (a, r) => f a r | None => None end.
Definition p_ret {A} (a : A) : P A := fun l => Some (a, l).
Notation "'pdo' x <- p ; k" := (p_bind p (fun x => k)) (at level 200, x pattern, p at level 100, k at level 200).
Fixpoint p_rep {A} (p : P A) (n : nat) : P (list A) :=
  match n with
  | O => p_ret []
  | S k => pdo a <- p; pdo l <- p_rep p k; p_ret (a :: l)
  end.
Definition p_counted {A} (p : P A) : P (list A) :=
  pdo n <- p_num; pdo _ <- p_char 59; p_rep p (N.to_nat n).
Fixpoint p_take (n : nat) : P bytes := fun l =>
  match n with
  | O => Some ([], l)
  | S k => match l with
           | [] => None
           | x :: r => match p_take k r with Some (a, b) => Some (x :: a, b) | None => None end
           end
  end.

Definition p_strlit : P str := fun l =>
  match l with
  | 115 :: r => (pdo n <- p_num; pdo _ <- p_char 58; pdo b <- p_take (N.to_nat n); p_ret (utf8_dec (List.length b) b)) r
  | 99 :: r => (pdo n <- p_num; pdo _ <- p_char 58; p_rep (pdo c <- p_num; pdo _ <- p_char 44; p_ret c) (N.to_nat n)) r
  | _ => None
  end.
Definition p_str (pool : list str) : P str := fun l =>
  match l with
  | 35 :: r => (pdo i <- p_num; pdo _ <- p_char 59;
                fun l' => match nth_error pool (N.to_nat i) with Some s => Some (s, l') | None => None end) r
  | _ => p_strlit l
  end.
Definition p_opt {A} (p : P A) : P (option A) := fun l =>
  match l with
  | 45 :: r => Some (None, r)
  | 43 :: r => (pdo a <- p; p_ret (Some a)) r
  | _ => None
  end.
Definition p_pair {A B} (p : P A) (q : P B) : P (A * B) := pdo a <- p; pdo b <- q; p_ret (a, b).
Definition p_ctable (pool : list str) : P ctable := p_counted (p_pair (p_str pool) (p_opt (p_str pool))).
Definition p_ref3 (pool : list str) : P ref3 :=
  pdo a <- p_str pool; pdo b <- p_str pool; pdo c <- p_str pool; p_ret (a, b, c).
Definition p_mtable (pool : list str) : P mtable :=
  p_counted (p_pair (p_ref3 pool) (p_opt (p_pair (p_str pool) (p_str pool)))).
Definition p_obs (pool : list str) : P obs := fun l =>
  let s := p_str pool in
  match l with
  | 110 :: r => (pdo k <- p_num; pdo _ <- p_char 59; pdo a <- s; pdo b <- s; p_ret (OName k a b)) r
  | 114 :: r => (pdo k <- p_num; pdo _ <- p_char 59; pdo a <- p_ref3 pool; pdo b <- p_ref3 pool; p_ret (ORef k a b)) r
  | 100 :: r => (pdo k <- p_num; pdo _ <- p_char 59; pdo n <- s; pdo d <- s; pdo n' <- s; pdo d' <- s; p_ret (ODecl k n d n' d')) r
  | 101 :: r => (pdo c <- s; pdo m <- p_opt (p_pair s s); pdo c' <- s; pdo m' <- p_opt (p_pair s s); p_ret (OEncl c m c' m')) r
  | 117 :: r => (pdo t <- s; pdo c <- s; pdo t' <- s; pdo c' <- s; p_ret (OEnum t c t' c')) r
  | _ => None
  end.
Fixpoint p_dbg (fuel : nat) (pool : list str) : P dbg :=
  match fuel with
  | O => fun _ => None
  | S k => fun l =>
      match l with
      | 97 :: r => (pdo a <- p_str pool; p_ret (DAtom a)) r
      | 113 :: r => (pdo a <- p_str pool; p_ret (DStrL a)) r
      | 107 :: r => (pdo n <- p_str pool; pdo fs <- p_counted (p_pair (p_str pool) (p_dbg k pool)); p_ret (DNode n fs)) r
      | 102 :: r => (pdo n <- p_str pool; pdo ws <- p_counted (p_str pool); p_ret (DFlags n ws)) r
      | 108 :: r => (pdo x <- p_counted (p_dbg k pool); p_ret (DList x)) r
      | 116 :: r => (pdo x <- p_counted (p_dbg k pool); p_ret (DTuple x)) r
      | _ => None
      end
  end.
Definition dbg_fuel : nat := 400.   (* nesting depth *)

Definition p_case : P case :=
  pdo pool <- p_counted p_strlit;
  fun l =>
    match l with
    | 78 :: r =>
        (pdo cs <- p_ctable pool; pdo names <- p_counted (p_str pool);
         fun l' => match l' with
                   | 69 :: r' => Some (CNames cs names Err, r')
                   | 79 :: r' => (pdo out <- p_counted (p_str pool); p_ret (CNames cs names (Ok out))) r'
                   | _ => None
                   end) r
    | 82 :: r =>
        (pdo cs <- p_ctable pool; pdo fs <- p_mtable pool; pdo ms <- p_mtable pool; pdo this <- p_str pool;
         pdo l <- p_counted (p_obs pool); p_ret (CRefs cs fs ms this l)) r
    | 74 :: r =>
        (pdo cs <- p_ctable pool;
         pdo es <- p_counted (pdo n <- p_str pool;
                              fun l1 => match l1 with
                                        | 100 :: r1 => (pdo h <- p_num; pdo _ <- p_char 59; p_ret (n, (true, h))) r1
                                        | 102 :: r1 => (pdo h <- p_num; pdo _ <- p_char 59; p_ret (n, (false, h))) r1
                                        | _ => None
                                        end);
         fun l' => match l' with
                   | 69 :: r' => Some (CJar cs es Err, r')
                   | 79 :: r' =>
                       (pdo out <- p_counted (pdo n <- p_str pool; pdo k <- p_num; pdo _ <- p_char 59; pdo h <- p_num; pdo _ <- p_char 59;
                                              p_ret (n, (k, h)));
                        p_ret (CJar cs es (Ok out))) r'
                   | _ => None
                   end) r
    | 84 :: r =>
        (pdo cs <- p_ctable pool; pdo fs <- p_mtable pool; pdo ms <- p_mtable pool; pdo tin <- p_dbg dbg_fuel pool;
         fun l' => match l' with
                   | 69 :: r' => Some (CTree cs fs ms tin Err None, r')
                   | 79 :: r' =>
                       (pdo tout <- p_dbg dbg_fuel pool;
                        fun l2 => match l2 with
                                  | 87 :: r2 =>
                                      (pdo n <- p_num; pdo _ <- p_char 59; pdo b <- p_take (N.to_nat n);
                                       pdo pos <- p_counted (p_counted (pdo x <- p_num; pdo _ <- p_char 59; p_ret (Z.of_N x)));
                                       p_ret (CTree cs fs ms tin (Ok tout) (Some (b, pos)))) r2
                                  | _ => Some (CTree cs fs ms tin (Ok tout) None, l2)
                                  end) r'
                   | _ => None
                   end) r
    | _ => None
    end.
Definition D (s : string) : case :=
  match p_case (bytes_of s) with
  | Some (c, []) => c
  | _ => CBad
  end.

(* the same text, 7 bytes per primitive 63-bit integer literal (little endian): Coq elaborates such a
   literal as one node, where a string literal costs about ten nodes per character *)
Fixpoint unpack7 (k : nat) (x : int) : list N :=
  match k with O => [] | S k1 => Z.to_N (Uint63.to_Z (Uint63.land x 255)) :: unpack7 k1 (Uint63.lsr x 8) end.
Definition D7 (len : N) (l : list int) : case :=
  match p_case (firstn (N.to_nat len) (flat_map (unpack7 7) l)) with
  | Some (c, []) => c
  | _ => CBad
  end.

Definition member_eqb (a b : member) : bool := str_eqb (fst a) (fst b) && str_eqb (snd a) (snd b).
Definition ref3_eqb (a b : ref3) : bool := mkey_eqb a b.
Definition refval_eqb (a b : refval) : bool :=
  match a, b with
  | VName x, VName y => str_eqb x y
  | VRef x, VRef y => ref3_eqb x y
  | VDecl n d, VDecl n' d' => str_eqb n n' && str_eqb d d'
  | VEncl c m, VEncl c' m' => str_eqb c c' && opt_eqb member_eqb m m'
  | VEnumC t c, VEnumC t' c' => str_eqb t t' && str_eqb c c'
  | _, _ => false
  end.

Definition name_meth (k : N) : meth :=
  match k with 0 => MClass | 1 => MClassAny | 2 => MFieldDesc | 3 => MMethodDesc | _ => MReturnDesc end.

Definition check_obs (R : remapper) (this : str) (o : obs) : bool :=
  match o with
  | OName k a b => res_eqb refval_eqb (remap_at R (name_meth k) this (VName a)) (Ok (VName b))
  | ORef k a b => res_eqb refval_eqb (remap_at R (match k with 0 => MFieldRef | _ => MMethodRef end) this (VRef a)) (Ok (VRef b))
  | ODecl k n d n' d' =>
      res_eqb refval_eqb (remap_at R (MDeclName (match k with 0 => DField | 1 => DMethod | _ => DRecord end)) this (VDecl n d)) (Ok (VDecl n' d'))
  | OEncl c m c' m' => res_eqb refval_eqb (remap_at R MEnclMethod this (VEncl c m)) (Ok (VEncl c' m'))
  | OEnum t c t' c' => res_eqb refval_eqb (remap_at R MEnumConst this (VEnumC t c)) (Ok (VEnumC t' c'))
  end.

(* ------------------------------------------------------------------ *)
(* reading a `{:?}` tree as a value of a type of the schema *)

Definition sname (s : string) : str := bytes_of s.
Definition is_bool (t : rty) : bool := match t with TPrim p => String.eqb p "bool" | _ => false end.
Definition a_true : str := sname "true".
Definition a_false : str := sname "false".
Definition a_none : str := sname "None".
Definition a_some : str := sname "Some".
Definition a_zero : str := sname "0".

(* a value of the type parameter of TypeAnnotation<T>: never looked into, any injective reading will do *)
Fixpoint raw_val (d : dbg) : val :=
  match d with
  | DAtom a => VOpaque a
  | DStrL s => VStr s
  | DNode n fs => VPair (VOpaque n) (VList (map (fun p => VPair (VOpaque (fst p)) (raw_val (snd p))) fs))
  | DFlags n ws => VPair (VOpaque n) (VList (map VOpaque ws))
  | DList l => VList (map raw_val l)
  | DTuple l => VPair (VOpaque []) (VList (map raw_val l))
  end.

Definition find_field (fts : list (string * rty)) (f : str) : option (string * rty) :=
  find (fun p => str_eqb (sname (fst p)) f) fts.

(* duke's flag structs print the set flags as words: field is_<word> *)
Definition flags_val (n : string) (fts : list (string * rty)) (ws : list str) : res val :=
  if forallb (fun p => is_bool (snd p)) fts then
    let fs := map (fun p => (fst p, VOpaque (if existsb (fun w => str_eqb (sname (fst p)) (sname "is_" ++ w)) ws then a_true else a_false))) fts in
    if Nat.eqb (List.length (filter (fun p => match snd p with VOpaque a => str_eqb a a_true | _ => false end) fs)) (List.length ws)
    then Ok (VNode n "" fs) else Err
  else Err.

Fixpoint of_dbg (defs : list tdef) (T : rty) (d : dbg) {struct d} : res val :=
  match T with
  | TPrim _ => match d with DAtom a => Ok (VOpaque a) | DStrL s => Ok (VStr s) | _ => Err end
  | TParam => Ok (raw_val d)
  | TOpt a =>
      match d with
      | DAtom x => if str_eqb x a_none then Ok VNone else Err
      | DNode n [(_, x)] => if str_eqb n a_some then match of_dbg defs a x with Ok y => Ok (VSome y) | Err => Err end else Err
      | _ => Err
      end
  | TVec a => match d with DList l => match mapM (of_dbg defs a) l with Ok l' => Ok (VList l') | Err => Err end | _ => Err end
  | TPair a b =>
      match d with
      | DTuple [x; y] => match of_dbg defs a x, of_dbg defs b y with Ok x', Ok y' => Ok (VPair x' y') | _, _ => Err end
      | _ => Err
      end
  | TName n | TApp n _ =>
      match lookup_def defs n with
      | Some (DStr _) =>
          match d with
          | DNode n' [(_, DStrL s)] => if str_eqb n' (sname n) then Ok (VStr s) else Err
          | _ => Err
          end
      | Some (DStruct _ fs0) =>
          let fts := map (fun f => (fst (fst f), snd (fst f))) fs0 in
          match d with
          | DFlags n' ws => if str_eqb n' (sname n) then flags_val n fts ws else Err
          | DNode n' fs =>
              if str_eqb n' (sname n) then
                match fs, fts with
                | [], _ :: _ => flags_val n fts []
                | _, _ =>
                    match mapM (fun p => match find_field fts (fst p) with
                                         | Some ft => match of_dbg defs (snd ft) (snd p) with Ok y => Ok (fst ft, y) | Err => Err end
                                         | None => Err
                                         end) fs with
                    | Ok fs' => Ok (VNode n "" fs')
                    | Err => Err
                    end
                end
              else Err
          | _ => Err
          end
      | Some (DEnum _ vs) =>
          match d with
          | DAtom c =>
              match find (fun v => str_eqb (sname (fst v)) c) vs with
              | Some v => match snd v with [] => Ok (VNode n (fst v) []) | _ => Err end
              | None => Err
              end
          | DNode c fs =>
              match find (fun v => str_eqb (sname (fst v)) c) vs with
              | Some v =>
                  match mapM (fun p => match find_field (snd v) (fst p) with
                                       | Some ft => match of_dbg defs (snd ft) (snd p) with Ok y => Ok (fst ft, y) | Err => Err end
                                       | None => Err
                                       end) fs with
                  | Ok fs' => Ok (VNode n (fst v) fs')
                  | Err => Err
                  end
              | None => Err
              end
          | _ => Err
          end
      | None => Err
      end
  end.

Definition RTr : list string := Eval vm_compute in ref_types type_defs.
Definition class_t : rty := TName "ClassFile".

(* the tree handed to remap_class is a well-typed class; the interpreter of the regenerated table
   computes the tree remap_class returned; and when the class has nothing at the positions of the
   known findings, so does the specification *)
(* the translation X27.Tr.tr against the implementation: when the tree remap_class returned lies inside the part [tr] covers,
   C02's model of duke::write_class applied to [tr] of it yields, byte for byte, what duke::write_class wrote *)
Definition tr_written_ok (vo : val) (wr : option (list N * list (list Z))) : bool :=
  match wr, X27.Tr.tr vo with
  | Some (b, _), Some t =>
      match C02.Class.write_class_aux t with
      | C02.Class.WOK (b', _) => list_eqb N.eqb b' b
      | _ => false
      end
  | _, _ => true
  end.

Definition check_tree (R : remapper) (tin : dbg) (tout : res dbg) (wr : option (list N * list (list Z))) : bool :=
  match of_dbg type_defs class_t tin with
  | Ok vi =>
      has_ty type_defs class_t vi &&
      (match wr with Some (b, pos) => check_written R vi b pos | None => true end) &&
      match tout with
      | Ok dout =>
          match of_dbg type_defs class_t dout with
          | Ok vo =>
              res_eqb val_eqb (remap_val gen_table R None class_t vi) (Ok vo) && tr_written_ok vo wr &&
              (if clean gen_table known_row vi
               then res_eqb val_eqb (spec_val type_defs RTr R None class_t vi) (Ok vo) && same_shape vi vo
               else true)
          | Err => false
          end
      | Err => match remap_val gen_table R None class_t vi with Err => true | Ok _ => false end
      end
  | Err => false
  end.

Definition check (c : case) : bool :=
  match c with
  | CNames cs names out =>
      let R := remapper_of cs [] [] in
      res_eqb (list_eqb str_eqb)
              (match remap_entries R (fun _ (_ : unit) => Ok tt) (map (fun n => (n, tt)) names) with
               | Ok l => Ok (map fst l)
               | Err => Err
               end) out
  | CJar cs es out =>
      (* the content of a class is not looked into here (rc = the identity on its checksum): names, kinds, and the
         content of the entries that are no classes *)
      let R := remapper_of cs [] [] in
      let obs (o : str * content (list N)) : str * (N * N) :=
        (fst o, match snd o with KDir => (0, 0) | KClass _ => (1, 0) | KOther d => (2, match d with [h] => h | _ => 0 end) end) in
      res_eqb (list_eqb (fun a b => str_eqb (fst a) (fst b) && N.eqb (fst (snd a)) (fst (snd b)) && N.eqb (snd (snd a)) (snd (snd b))))
              (match remap_jar R (fun d => Ok d) (map (fun e => (fst e, (fst (snd e), [snd (snd e)]))) es) with
               | Ok l => Ok (map obs l)
               | Err => Err
               end) out
  | CRefs cs fs ms this l => forallb (check_obs (remapper_of cs fs ms) this) l
  | CTree cs fs ms tin tout wr => check_tree (remapper_of cs fs ms) tin tout wr
  | CBad => false
  end.
