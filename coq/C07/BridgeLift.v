(* C07 — helper for C07/Bridge.v that belongs to C02 (it is about C02's writer model only; it lives here because a
   round-5 agent may only add files of its own property): the lift of C02's per-Code-attribute theorem code_operands_resolve (operand_ok: ICp, IIface, ILdc) to whole classes,
   following C02/TheoryB2.v write_method_den / methods_den / bootstrap_resolves step by step *)
From FB Require Import C02.Model C02.Encode C02.Theory1 C02.Theory2 C02.Theory3 C02.Theory4 C02.Theory5 C02.Theory6 C02.Theory7 C02.Theory8 C02.Frames C02.TheoryF
  C02.Class C02.Decode C02.Facts C02.TheoryC1 C02.TheoryC2 C02.TheoryC3 C02.TheoryC4 C02.TheoryC5 C02.TheoryC6 C02.TheoryC7 C02.TheoryC8 C02.TheoryC9 C02.TheoryC10 C02.TheoryC11 C02.TheoryB1 C02.TheoryB2.
Local Open Scope Z_scope.
Local Arguments Z.add : simpl never.
Local Arguments Z.sub : simpl never.
Local Arguments Z.mul : simpl never.
Local Opaque be16 be32 be64.

Definition code_ok (p : pool) (c : ccode) (a : bytes * labmap * list Z) : Prop :=
  Forall2 (fun i q => operand_ok p (fst (fst a)) q (snd i)) (c_insns c) (snd a).
Lemma code_ok_mono p p' c a : pool_ext p p' -> code_ok p c a -> code_ok p' c a.
Proof. intros Hp F. eapply Forall2_impl'; [|exact F]. intros i q. apply operand_ok_mono; assumption. Qed.
Definition method_ok (p : pool) (m : cmethod) (ca : code_aux) : Prop :=
  match md_code m, ca with
  | Some c, Some a => code_ok p c a
  | None, None => True
  | _, _ => False
  end.
Lemma method_ok_mono p p' m ca : pool_ext p p' -> method_ok p m ca -> method_ok p' m ca.
Proof. intros Hp. unfold method_ok. destruct (md_code m), ca; auto. apply code_ok_mono; assumption. Qed.

Lemma write_method_ok m : cmethod_ok m = true ->
  forall s r s', winv s -> write_method m s = WOK (r, s') -> method_ok (w_pool s') m (snd r).
Proof.
  intros Hok s r s' Hi H. unfold cmethod_ok in Hok. bsplit. unfold write_method in H.
  apply bind_ok in H as (n & s1 & R1 & H). destruct (put_utf8_spec _ _ _ _ Hi R1) as (I1 & _ & _).
  apply bind_ok in H as (d & s2 & R2 & H). destruct (put_utf8_spec _ _ _ _ I1 R2) as (I2 & _ & _).
  apply bind_ok in H as (dep & s3 & R3 & H).
  assert (I3 : winv s3).
  { refine (proj1 (lseq_of AtMethod _ (leafs (fa_flag (md_deprecated m) ADeprecated) ++ leafs (fa_flag (md_synthetic m) ASynthetic)) _ _ _ _ I2 R3)).
    apply Forall2_app'.
    - apply (w_flag_spec AtMethod); [reflexivity|left; split; reflexivity].
    - apply (w_flag_spec AtMethod); [reflexivity|right; split; reflexivity]. }
  apply bind_ok in H as (code & s4 & R4 & H).
  assert (T : st_ext s4 s' /\ snd r = snd code).
  { apply bind_ok in H as (rest & s5 & R5 & H). apply bind_ok in H as (cnt & s6 & R6 & H). apply ret_ok in H as [-> Hs]. subst s6.
    split; [|reflexivity]. eapply st_ext_trans; [|apply (wmono_lift_res _ _ _ _ _ R6)]. revert R5. apply wmono_seqW.
    repeat apply in_app_P; try mfin.
    - apply wmono_oattr. intros l. apply wmono_wattr, wmono_wslice16. intros x _. apply wmono_idx16. auto with wmono.
    - apply wmono_oattr. intros e. apply wmono_wattr. auto with wmono.
    - apply wmono_oattr. intros l. apply wmono_wattr, wmono_wslice8. intros x _. mo. apply wmono_put_opt. auto with wmono. }
  destruct T as [[Ep Eb] ->]. unfold method_ok.
  destruct (md_code m) as [c|].
  - apply bind_ok in R4 as (rc & s5 & Rc & R4). apply bind_ok in R4 as (i & s6 & Ri & R4). apply bind_ok in R4 as (a & s7 & Ra & R4).
    apply ret_ok in R4 as [-> Hs]. subst s7. cbn [snd].
    destruct (code_operands_resolve c ltac:(assumption) _ _ _ I3 Rc) as (_ & _ & Q).
    apply (code_ok_mono (w_pool s5)); [|exact Q].
    eapply pool_ext_trans; [|exact Ep]. eapply pool_ext_trans; [apply (wmono_put_utf8 _ _ _ _ Ri)|apply (wmono_lift_res _ _ _ _ _ Ra)].
  - apply ret_ok in R4 as [-> _]. exact I.
Qed.

Lemma methods_ok : forall ms, forallb cmethod_ok ms = true ->
  forall s rs s', winv s -> mapW write_method ms s = WOK (rs, s') ->
  winv s' /\ Forall2 (fun m r => method_ok (w_pool s') m (snd r)) ms rs.
Proof.
  induction ms as [|m ms IH]; intros Hok s rs s' Hi H; cbn [mapW] in H.
  - apply ret_ok in H as [-> ->]. split; [exact Hi|constructor].
  - cbn [forallb] in Hok. apply andb_true_iff in Hok as [A B].
    apply bind_ok in H as (r & s1 & R1 & H). apply bind_ok in H as (rs' & s2 & R2 & H). apply ret_ok in H as [-> Hs]. subst s2.
    destruct (write_method_spec m A _ _ _ Hi R1) as (I1 & _ & _).
    destruct (IH B _ _ _ I1 R2) as (I2 & F).
    assert (E : st_ext s1 s'). { revert R2. apply wmono_mapW. intros z _. apply wmono_write_method. }
    split; [exact I2|]. constructor; [|exact F]. destruct E as [Ep Eb].
    apply (method_ok_mono _ _ _ _ Ep). exact (write_method_ok m A _ _ _ Hi R1).
Qed.

Theorem class_operands_ok t bs aux :
  cclass_ok t = true -> write_class_aux t = WOK (bs, aux) ->
  Forall2 (method_ok (a_pool aux)) (k_methods t) (a_codes aux).
Proof.
  intros Hok Hw. pose proof Hok as Hok0. unfold cclass_ok in Hok. bsplit. okfacts.
  unfold write_class_aux in Hw.
  match type of Hw with match ?body wst_new with _ => _ end = _ => destruct (body wst_new) as [[[[rest codes] tbl] sF]|?c|] eqn:Hbody; try discriminate end.
  destruct (pool_bytes (w_pool sF)) as [pb|] eqn:Hpb; [|discriminate]. injection Hw as <- <-. cbn [a_pool a_bsm a_codes].
  apply bind_ok in Hbody as (this & s1 & R1 & Hbody). destruct (wspec_run _ _ _ _ _ (put_class_spec (k_name t)) winv_new R1) as (I1 & E1 & Q1).
  apply bind_ok in Hbody as (super & s2 & R2 & Hbody).
  destruct (wspec_run _ _ _ _ _ (put_opt_spec put_class get_class (k_super t) put_class_spec) I1 R2) as (I2 & E2 & Q2).
  apply bind_ok in Hbody as (ifs & s3 & R3 & Hbody).
  destruct (wspec_run _ _ _ _ _ (idx_list_spec put_class get_class (k_interfaces t) put_class_spec) I2 R3) as (I3 & E3 & Q3).
  apply bind_ok in Hbody as (fields & s4 & R4 & Hbody).
  assert (S4 : wspec (wslice16 write_field (k_fields t)) (fun p b => exists ys, mapO fa_field (k_fields t) = Some ys /\ decodes (fun c => p_list16 (p_member AtField c)) ys p b)).
  { apply wslice16_spec_gen. intros f Hin. match goal with H : forallb cfield_ok _ = true |- _ => rewrite forallb_forall in H; destruct (write_field_spec f (H _ Hin)) as (d & Hd & Hwf) end.
    eapply wspec_weaken; [exact Hwf|]. intros p b Hdec. exists d. split; assumption. }
  destruct (wspec_run _ _ _ _ _ S4 I3 R4) as (I4 & E4 & _).
  apply bind_ok in Hbody as (nm & s5 & R5 & Hbody). destruct (wspec_run _ _ _ _ _ (w_u16len_spec _) I4 R5) as (I5 & E5 & _).
  apply bind_ok in Hbody as (methods & s6 & R6 & Hbody).
  assert (Hms : forallb cmethod_ok (k_methods t) = true) by assumption.
  destruct (methods_ok _ Hms _ _ _ I5 R6) as (I6 & F6).
  apply bind_ok in Hbody as (pre & s7 & R7 & Hbody).
  assert (E67 : st_ext s6 s7). { revert R7. apply wmono_seqW, wmono_class_pre. }
  apply bind_ok in Hbody as (tbl' & s8 & R8 & Hbody). injection R8 as <- <-.
  apply bind_ok in Hbody as (bsm & s9 & R9 & Hbody).
  assert (E79 : st_ext s7 s9). { revert R9. apply wmono_seqW, wmono_w_bootstrap. }
  apply bind_ok in Hbody as (unk & s10 & R10 & Hbody).
  assert (E910 : st_ext s9 s10). { revert R10. apply wmono_mapW. intros a _. unfold wunknown. auto with wmono. }
  apply bind_ok in Hbody as (cnt & s11 & R11 & Hbody). pose proof (wmono_lift_res _ _ _ _ _ R11) as E1011.
  apply ret_ok in Hbody as [Hret Hs]. subst s11. injection Hret as _ -> ->.
  clear -F6 E67 E79 E910 E1011. induction F6 as [|m r ms rs Hmr F IH]; cbn [map]; constructor; [|exact IH].
  apply (method_ok_mono (w_pool s6)); [|exact Hmr].
  destruct E67, E79, E910, E1011. eauto 8 with pext.
Qed.
