(* Shared model of quill's mapping tree (quill/src/tree/mappings.rs).
   An IndexMap<Key, Node> is the list of its nodes in insertion order; the key of a node is
   derived from its info (first-namespace name [+ descriptor] / parameter index), exactly as
   `ToKey::get_key` does.  [wf] states the invariants the Rust code maintains. *)
From FB Require Export Base.Str Base.Run Base.Sort.

Definition names := list (option str).     (* one entry per namespace *)

Record param := mkParam { p_index : N; p_names : names; p_doc : option str }.
Record field := mkField { f_desc : str; f_names : names; f_doc : option str }.
Record meth := mkMeth { m_desc : str; m_names : names; m_doc : option str; m_params : list param }.
Record class := mkClass { c_names : names; c_doc : option str; c_fields : list field; c_methods : list meth }.
Record mappings := mkMappings { ms_ns : list str; ms_doc : option str; ms_classes : list class }.

(* `Names::first_name` *)
Definition first_name (l : names) : option str := match l with Some x :: _ => Some x | _ => None end.
Definition nth_name (l : names) (i : nat) : option str := nth i l None.

(* keys (ToKey::get_key); None = get_key fails *)
Definition class_key (c : class) : option str := first_name (c_names c).
Definition field_key (f : field) : option (str * str) :=
  match first_name (f_names f) with Some n => Some (n, f_desc f) | None => None end.
Definition meth_key (m : meth) : option (str * str) :=
  match first_name (m_names m) with Some n => Some (n, m_desc m) | None => None end.
Definition param_key (p : param) : N := p_index p.

(* boolean equalities *)
Definition names_eqb : names -> names -> bool := list_eqb (opt_eqb str_eqb).
Definition doc_eqb : option str -> option str -> bool := opt_eqb str_eqb.
Definition param_eqb (a b : param) : bool :=
  N.eqb (p_index a) (p_index b) && names_eqb (p_names a) (p_names b) && doc_eqb (p_doc a) (p_doc b).
Definition field_eqb (a b : field) : bool :=
  str_eqb (f_desc a) (f_desc b) && names_eqb (f_names a) (f_names b) && doc_eqb (f_doc a) (f_doc b).
Definition meth_eqb (a b : meth) : bool :=
  str_eqb (m_desc a) (m_desc b) && names_eqb (m_names a) (m_names b) && doc_eqb (m_doc a) (m_doc b)
  && list_eqb param_eqb (m_params a) (m_params b).
Definition class_eqb (a b : class) : bool :=
  names_eqb (c_names a) (c_names b) && doc_eqb (c_doc a) (c_doc b)
  && list_eqb field_eqb (c_fields a) (c_fields b) && list_eqb meth_eqb (c_methods a) (c_methods b).
Definition mappings_eqb (a b : mappings) : bool :=
  list_eqb str_eqb (ms_ns a) (ms_ns b) && doc_eqb (ms_doc a) (ms_doc b)
  && list_eqb class_eqb (ms_classes a) (ms_classes b).

(* The derived `Ord` of Names<N,T> = [Option<T>; N]: lexicographic, None < Some, strings by code point *)
Definition opt_str_cmp (a b : option str) : comparison :=
  match a, b with
  | None, None => Eq | None, Some _ => Lt | Some _, None => Gt
  | Some x, Some y => str_cmp x y
  end.
Fixpoint names_cmp (a b : names) : comparison :=
  match a, b with
  | [], [] => Eq | [], _ :: _ => Lt | _ :: _, [] => Gt
  | x :: a', y :: b' => match opt_str_cmp x y with Eq => names_cmp a' b' | c => c end
  end.
Definition lex (c1 c2 : comparison) : comparison := match c1 with Eq => c2 | c => c end.
Definition is_le (c : comparison) : bool := match c with Gt => false | _ => true end.

(* ClassMapping{names}; FieldMapping{desc, names}; MethodMapping{desc, names}; ParameterMapping{index, names} *)
Definition class_cmp (a b : class) := names_cmp (c_names a) (c_names b).
Definition field_cmp (a b : field) := lex (str_cmp (f_desc a) (f_desc b)) (names_cmp (f_names a) (f_names b)).
Definition meth_cmp (a b : meth) := lex (str_cmp (m_desc a) (m_desc b)) (names_cmp (m_names a) (m_names b)).
Definition param_cmp (a b : param) := lex (N.compare (p_index a) (p_index b)) (names_cmp (p_names a) (p_names b)).

(* canonical representative: every level sorted by the info order *)
Definition canon_meth (m : meth) : meth :=
  mkMeth (m_desc m) (m_names m) (m_doc m) (isort (fun a b => is_le (param_cmp a b)) (m_params m)).
Definition canon_class (c : class) : class :=
  mkClass (c_names c) (c_doc c)
    (isort (fun a b => is_le (field_cmp a b)) (c_fields c))
    (isort (fun a b => is_le (meth_cmp a b)) (map canon_meth (c_methods c))).
Definition canon (M : mappings) : mappings :=
  mkMappings (ms_ns M) (ms_doc M) (isort (fun a b => is_le (class_cmp a b)) (map canon_class (ms_classes M))).

(* equality up to insertion order, decidable *)
Definition equivb (a b : mappings) : bool := mappings_eqb (canon a) (canon b).

(* well-formedness: every names row has one cell per namespace, first names present, keys unique *)
Fixpoint nodupb {A} (eqb : A -> A -> bool) (l : list A) : bool :=
  match l with [] => true | x :: l' => negb (existsb (eqb x) l') && nodupb eqb l' end.
Definition key2_eqb (a b : str * str) : bool := str_eqb (fst a) (fst b) && str_eqb (snd a) (snd b).
Definition okey_eqb {K} (eqb : K -> K -> bool) (a b : option K) : bool := opt_eqb eqb a b.
Definition is_some {A} (o : option A) : bool := match o with Some _ => true | None => false end.
Definition names_ok (n : nat) (l : names) : bool :=
  Nat.eqb (length l) n && forallb (fun o => match o with Some [] => false | _ => true end) l.

Definition wf_param (n : nat) (p : param) : bool := names_ok n (p_names p).
Definition wf_field (n : nat) (f : field) : bool := names_ok n (f_names f) && is_some (field_key f).
Definition wf_meth (n : nat) (m : meth) : bool :=
  names_ok n (m_names m) && is_some (meth_key m) && forallb (wf_param n) (m_params m)
  && nodupb N.eqb (map param_key (m_params m)).
Definition wf_class (n : nat) (c : class) : bool :=
  names_ok n (c_names c) && is_some (class_key c)
  && forallb (wf_field n) (c_fields c) && nodupb (okey_eqb key2_eqb) (map field_key (c_fields c))
  && forallb (wf_meth n) (c_methods c) && nodupb (okey_eqb key2_eqb) (map meth_key (c_methods c)).
Definition wf (M : mappings) : bool :=
  let n := length (ms_ns M) in
  Nat.leb 2 n && forallb (fun s => negb (match s with [] => true | _ => false end)) (ms_ns M)
  && forallb (wf_class n) (ms_classes M) && nodupb (okey_eqb str_eqb) (map class_key (ms_classes M)).
