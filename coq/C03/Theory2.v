(* C03 theory, part 2: the indentation-driven grouping of lines ([build]) is inverse to
   flattening a well-indented forest, in both directions. *)
From FB Require Import C03.Model.
From Coq Require Import Lia Arith PeanoNat.
Local Open Scope nat_scope.

Fixpoint flatten (f : forest) : list tline :=
  match f with
  | FNil => []
  | FNode l ch sib => l :: flatten ch ++ flatten sib
  end.

(* every node of the forest sits at its depth *)
Fixpoint depth_ok (d : nat) (f : forest) : Prop :=
  match f with
  | FNil => True
  | FNode l ch sib => l_ind l = d /\ depth_ok (S d) ch /\ depth_ok d sib
  end.

(* what follows a loop at depth d: nothing, or a line that is less indented *)
Definition stops (d : nat) (rest : list tline) : Prop :=
  match rest with
  | [] => True
  | l :: _ => l_ind l < d
  end.

Lemma stops_flatten_app d f rest : depth_ok d f -> stops d rest -> stops (S d) (flatten f ++ rest).
Proof.
  destruct f as [|l ch sib]; cbn [flatten app depth_ok stops].
  - intros _ H. destruct rest as [|l r]; cbn [stops] in *; [exact I|lia].
  - intros (H & _ & _) _. lia.
Qed.

Theorem build_flatten fuel : forall d f rest,
  depth_ok d f -> stops d rest -> length (flatten f ++ rest) < fuel ->
  build fuel d (flatten f ++ rest) = Ok (f, rest).
Proof.
  induction fuel as [|fuel IH]; intros d f rest Hd Hs Hlen; [lia|].
  destruct f as [|l ch sib].
  - cbn [flatten app]. destruct rest as [|l r]; [reflexivity|].
    cbn [build]. cbn [stops] in Hs.
    destruct (Nat.compare_spec (l_ind l) d) as [E|E|E]; try lia. reflexivity.
  - cbn [flatten app depth_ok] in *. destruct Hd as (Hl & Hch & Hsib).
    cbn [build]. rewrite Hl, Nat.compare_refl.
    rewrite <- app_assoc.
    rewrite (IH (S d) ch (flatten sib ++ rest)).
    + rewrite (IH d sib rest); [reflexivity|exact Hsib|exact Hs|].
      cbn [length] in Hlen. rewrite <- app_assoc, app_length in Hlen. lia.
    + exact Hch.
    + apply stops_flatten_app; assumption.
    + cbn [length] in Hlen. rewrite <- app_assoc in Hlen. lia.
Qed.

(* conversely: whatever [build] returns is a well-indented forest whose lines are exactly the
   lines consumed, in order — grouping never drops, duplicates or reorders a line *)
Theorem build_sound fuel : forall d ls f rest,
  build fuel d ls = Ok (f, rest) -> ls = flatten f ++ rest /\ depth_ok d f /\ stops d rest.
Proof.
  induction fuel as [|fuel IH]; intros d ls f rest H; [discriminate|].
  cbn [build] in H. destruct ls as [|l ls'].
  - injection H as <- <-. cbn. auto.
  - destruct (Nat.compare_spec (l_ind l) d) as [E|E|E].
    + destruct (build fuel (S d) ls') as [[ch r1]|] eqn:B1; [|discriminate].
      destruct (build fuel d r1) as [[sib r2]|] eqn:B2; [|discriminate].
      injection H as <- <-.
      apply IH in B1. destruct B1 as (E1 & D1 & S1).
      apply IH in B2. destruct B2 as (E2 & D2 & S2).
      subst ls' r1. cbn [flatten depth_ok app]. rewrite <- app_assoc. auto.
    + injection H as <- <-. cbn [flatten app depth_ok stops]. auto.
    + discriminate.
Qed.


(* fuel monotonicity: once the fuel exceeds the number of lines the answer no longer depends on it *)
Theorem build_fuel_irrelevant fuel : forall fuel' d ls,
  length ls < fuel -> length ls < fuel' -> build fuel d ls = build fuel' d ls.
Proof.
  induction fuel as [|fuel IH]; intros fuel' d ls H H'; [lia|].
  destruct fuel' as [|fuel']; [lia|].
  cbn [build]. destruct ls as [|l ls']; [reflexivity|].
  destruct (Nat.compare (l_ind l) d); try reflexivity.
  cbn [length] in H, H'.
  rewrite (IH fuel' (S d) ls') by lia.
  destruct (build fuel' (S d) ls') as [[ch r1]|] eqn:B1; [|reflexivity].
  assert (Hr1 : length r1 <= length ls').
  { apply build_sound in B1. destruct B1 as (E & _ & _). rewrite E, app_length. lia. }
  rewrite (IH fuel' d r1) by lia. reflexivity.
Qed.
