(* C03 theory, part 1: the text layer — escaping, decimal numbers, lines, cells. *)
From FB Require Import C03.Model.
From Coq Require Import Lia.

Arguments N.add : simpl never.
Arguments N.mul : simpl never.
Arguments N.div : simpl never.
Arguments N.modulo : simpl never.
Arguments N.ltb : simpl never.
Arguments N.leb : simpl never.
Arguments N.eqb : simpl never.
Arguments N.sub : simpl never.

(* ------------------------------------------------------------------------------------------ *)
(* escape / unescape                                                                           *)

Lemma esc_unesc c e : esc_char c = Some e -> unesc_char e = Some c.
Proof.
  unfold esc_char.
  destruct (N.eqb_spec c cBSLASH) as [->|H1]; [intros [= <-]; reflexivity|].
  destruct (N.eqb_spec c cLF) as [->|H2]; [intros [= <-]; reflexivity|].
  destruct (N.eqb_spec c cCR) as [->|H3]; [intros [= <-]; reflexivity|].
  destruct (N.eqb_spec c cTAB) as [->|H4]; [intros [= <-]; reflexivity|].
  discriminate.
Qed.

Lemma esc_none c : esc_char c = None -> N.eqb c cBSLASH = false.
Proof.
  unfold esc_char. destruct (N.eqb c cBSLASH); [discriminate|reflexivity].
Qed.

Theorem unescape_escape s : unescape (escape s) = s.
Proof.
  induction s as [|c s IH]; [reflexivity|].
  cbn [escape]. destruct (esc_char c) as [e|] eqn:E.
  - cbn [unescape]. rewrite N.eqb_refl. rewrite (esc_unesc _ _ E). rewrite IH. reflexivity.
  - cbn [unescape]. rewrite (esc_none _ E). rewrite IH. reflexivity.
Qed.

(* what is written for a comment contains neither TAB nor LF nor CR *)
Definition plain_char (c : N) : bool := negb (N.eqb c cTAB) && negb (N.eqb c cLF) && negb (N.eqb c cCR).

Lemma escape_plain s : forallb plain_char (escape s) = true.
Proof.
  induction s as [|c s IH]; [reflexivity|].
  cbn [escape]. unfold esc_char.
  destruct (N.eqb_spec c cBSLASH) as [->|H1]; [cbn [forallb]; rewrite IH; reflexivity|].
  destruct (N.eqb_spec c cLF) as [->|H2]; [cbn [forallb]; rewrite IH; reflexivity|].
  destruct (N.eqb_spec c cCR) as [->|H3]; [cbn [forallb]; rewrite IH; reflexivity|].
  destruct (N.eqb_spec c cTAB) as [->|H4]; [cbn [forallb]; rewrite IH; reflexivity|].
  cbn [forallb]. rewrite IH. unfold plain_char.
  apply N.eqb_neq in H2, H3, H4. rewrite H2, H3, H4. reflexivity.
Qed.

(* ------------------------------------------------------------------------------------------ *)
(* decimal numbers                                                                             *)

Definition is_digit (c : N) : bool := N.leb c_0 c && N.leb c 57.

Lemma digit_val_digit d : d < 10 -> digit_val (c_0 + d) = Some d.
Proof.
  intros H. unfold digit_val, c_0.
  replace (N.leb 48 (48 + d)) with true by (symmetry; apply N.leb_le; lia).
  replace (N.leb (48 + d) 57) with true by (symmetry; apply N.leb_le; lia).
  cbn [andb]. f_equal. lia.
Qed.

Lemma parse_digits_app a s1 s2 :
  parse_digits a (s1 ++ s2) = match parse_digits a s1 with Some v => parse_digits v s2 | None => None end.
Proof.
  revert a; induction s1 as [|c s1 IH]; intros a; cbn [parse_digits app]; [reflexivity|].
  destruct (digit_val c); [apply IH|reflexivity].
Qed.

Lemma dec_fuel_parse f : forall n, n < 2 ^ N.of_nat f -> parse_digits 0 (dec_fuel (S f) n) = Some n.
Proof.
  induction f as [|f IH]; intros n Hn.
  - cbn in Hn. assert (n = 0) by lia. subst. reflexivity.
  - cbn [dec_fuel]. destruct (N.ltb_spec n 10) as [Hlt|Hge].
    + cbn [parse_digits]. rewrite digit_val_digit by exact Hlt. cbn [parse_digits]. f_equal; lia.
    + rewrite parse_digits_app.
      assert (Hdiv : n / 10 < 2 ^ N.of_nat f).
      { apply N.div_lt_upper_bound; [lia|].
        rewrite Nat2N.inj_succ, N.pow_succ_r' in Hn. lia. }
      change (match n / 10 <? 10 with true => _ | false => _ end) with (dec_fuel (S f) (n / 10)).
      rewrite (IH _ Hdiv). cbn [parse_digits].
      rewrite digit_val_digit by (apply N.mod_lt; lia). cbn [parse_digits]. f_equal.
      pose proof (N.div_mod n 10). lia.
Qed.

Lemma dec_parse_digits n : parse_digits 0 (dec n) = Some n.
Proof.
  unfold dec. apply dec_fuel_parse. rewrite N2Nat.id.
  destruct n as [|p]; [reflexivity|]. apply N.size_gt.
Qed.

Lemma is_digit_add d : d < 10 -> is_digit (c_0 + d) = true.
Proof.
  intros H. unfold is_digit, c_0. apply andb_true_iff. split; apply N.leb_le; lia.
Qed.

Lemma dec_fuel_digits f n : forallb is_digit (dec_fuel f n) = true.
Proof.
  revert n; induction f as [|f IH]; intros n; [reflexivity|].
  cbn [dec_fuel]. destruct (N.ltb_spec n 10) as [Hlt|Hge].
  - cbn [forallb]. rewrite is_digit_add by exact Hlt. reflexivity.
  - rewrite forallb_app, IH. cbn [forallb].
    rewrite is_digit_add by (apply N.mod_lt; lia). reflexivity.
Qed.

Lemma dec_digits n : forallb is_digit (dec n) = true.
Proof. apply dec_fuel_digits. Qed.

Lemma dec_nonempty n : dec n <> [].
Proof.
  unfold dec. cbn [dec_fuel]. destruct (N.ltb n 10); [discriminate|].
  intros H. apply app_eq_nil in H. destruct H as [_ H]. discriminate.
Qed.

Theorem parse_usize_dec n : n < usize_max1 -> parse_usize (dec n) = Ok n.
Proof.
  intros Hn. unfold parse_usize.
  pose proof (dec_digits n) as Hd. pose proof (dec_nonempty n) as Hne.
  destruct (dec n) as [|c r] eqn:E; [congruence|].
  assert (Hc : N.eqb c c_PLUS = false).
  { cbn [forallb] in Hd. apply andb_true_iff in Hd. destruct Hd as [Hd _].
    unfold is_digit, c_0 in Hd. apply andb_true_iff in Hd. destruct Hd as [H1 _].
    apply N.leb_le in H1. apply N.eqb_neq. unfold c_PLUS. lia. }
  rewrite Hc. rewrite <- E, dec_parse_digits.
  apply N.ltb_lt in Hn. rewrite Hn. reflexivity.
Qed.

Lemma is_digit_plain c : is_digit c = true -> plain_char c = true.
Proof.
  unfold is_digit, plain_char, c_0, cTAB, cLF, cCR. intros H.
  apply andb_true_iff in H. destruct H as [H1 H2]. apply N.leb_le in H1.
  replace (N.eqb c 9) with false by (symmetry; apply N.eqb_neq; lia).
  replace (N.eqb c 10) with false by (symmetry; apply N.eqb_neq; lia).
  replace (N.eqb c 13) with false by (symmetry; apply N.eqb_neq; lia). reflexivity.
Qed.

Lemma dec_plain n : forallb plain_char (dec n) = true.
Proof.
  pose proof (dec_digits n) as H. rewrite forallb_forall in *.
  intros c Hc. apply is_digit_plain. apply H. exact Hc.
Qed.

(* ------------------------------------------------------------------------------------------ *)
(* lines                                                                                       *)

Definition no_lf (s : str) : bool := forallb (fun c => negb (N.eqb c cLF)) s.
Definition line_ok (s : str) : bool := no_lf s && negb (ends_cr s).

Lemma raw_lines_line l rest :
  no_lf l = true -> ends_cr l = false -> raw_lines (l ++ cLF :: rest) = l :: raw_lines rest.
Proof.
  induction l as [|c l IH]; intros Hlf Hcr.
  - cbn [app raw_lines]. rewrite N.eqb_refl. reflexivity.
  - cbn [no_lf forallb] in Hlf. apply andb_true_iff in Hlf. destruct Hlf as [Hc Hlf].
    apply negb_true_iff in Hc.
    cbn [app raw_lines]. rewrite Hc.
    assert (Hskip : N.eqb c cCR && starts_with [cLF] (l ++ cLF :: rest) = false).
    { destruct (N.eqb_spec c cCR) as [->|Hn]; [|reflexivity]. cbn [andb].
      destruct l as [|d l].
      - cbn in Hcr. discriminate.
      - cbn [app starts_with]. cbn [no_lf forallb] in Hlf. apply andb_true_iff in Hlf.
        destruct Hlf as [Hd _]. apply negb_true_iff in Hd. rewrite N.eqb_sym in Hd.
        rewrite N.eqb_sym. rewrite N.eqb_sym in Hd. rewrite Hd. reflexivity. }
    rewrite Hskip.
    assert (Hcr' : ends_cr l = false).
    { destruct l as [|d l]; [reflexivity|]. exact Hcr. }
    rewrite (IH Hlf Hcr'). reflexivity.
Qed.

Theorem raw_lines_unlines ls : forallb line_ok ls = true -> raw_lines (unlines ls) = ls.
Proof.
  induction ls as [|l ls IH]; intros H; [reflexivity|].
  cbn [forallb] in H. apply andb_true_iff in H. destruct H as [Hl Hls].
  unfold line_ok in Hl. apply andb_true_iff in Hl. destruct Hl as [H1 H2].
  apply negb_true_iff in H2.
  unfold unlines. cbn [flat_map]. rewrite <- app_assoc. cbn [app].
  rewrite raw_lines_line by assumption. f_equal. apply IH. exact Hls.
Qed.

(* ------------------------------------------------------------------------------------------ *)
(* cells of a line                                                                             *)

Definition no_tab (s : str) : bool := forallb (fun c => negb (N.eqb c cTAB)) s.

Lemma split_on_nonempty c s : split_on c s <> [].
Proof.
  induction s as [|x s IH]; cbn [split_on]; [discriminate|].
  destruct (N.eqb x c); [discriminate|]. destruct (split_on c s); [congruence|discriminate].
Qed.

Lemma split_on_cell c cellv rest :
  forallb (fun x => negb (N.eqb x c)) cellv = true ->
  split_on c (cellv ++ c :: rest) = cellv :: split_on c rest.
Proof.
  induction cellv as [|x l IH]; intros H.
  - cbn [app split_on]. rewrite N.eqb_refl. reflexivity.
  - cbn [forallb] in H. apply andb_true_iff in H. destruct H as [Hx Hl].
    apply negb_true_iff in Hx. cbn [app split_on]. rewrite Hx. rewrite (IH Hl). reflexivity.
Qed.

Lemma split_on_last c cellv :
  forallb (fun x => negb (N.eqb x c)) cellv = true -> split_on c cellv = [cellv].
Proof.
  induction cellv as [|x l IH]; intros H; [reflexivity|].
  cbn [forallb] in H. apply andb_true_iff in H. destruct H as [Hx Hl].
  apply negb_true_iff in Hx. cbn [split_on]. rewrite Hx. rewrite (IH Hl). reflexivity.
Qed.

(* a first cell followed by TAB-prefixed cells *)
Definition join_cells (first : str) (fields : list str) : str := first ++ flat_map (fun s => cTAB :: s) fields.

Lemma split_on_join first fields :
  no_tab first = true -> forallb no_tab fields = true ->
  split_on cTAB (join_cells first fields) = first :: fields.
Proof.
  revert first; induction fields as [|f fs IH]; intros first Hf Hfs; unfold join_cells.
  - cbn [flat_map]. rewrite app_nil_r. apply split_on_last. exact Hf.
  - cbn [flat_map forallb app] in *. apply andb_true_iff in Hfs. destruct Hfs as [H1 H2].
    rewrite split_on_cell by exact Hf. f_equal.
    apply (IH f H1 H2).
Qed.

Lemma count_tabs_tabs k s :
  match s with c :: _ => N.eqb c cTAB = false | [] => True end ->
  count_tabs (tabs k ++ s) = (k, s).
Proof.
  intros Hs. induction k as [|k IH].
  - cbn [tabs repeat app]. destruct s as [|c s]; [reflexivity|]. cbn [count_tabs]. rewrite Hs. reflexivity.
  - cbn [tabs repeat app count_tabs]. rewrite N.eqb_refl.
    change (repeat cTAB k) with (tabs k). rewrite IH. reflexivity.
Qed.

Theorem tiny_line_join k first fields :
  match first with c :: _ => N.eqb c cTAB = false | [] => fields = [] end ->
  no_tab first = true -> forallb no_tab fields = true ->
  tiny_line (tabs k ++ join_cells first fields) = mkLine k first fields.
Proof.
  intros Hfirst Hf Hfs. unfold tiny_line.
  rewrite count_tabs_tabs.
  - rewrite split_on_join by assumption. reflexivity.
  - destruct first as [|c r]; [subst; exact I|]. cbn [join_cells app]. exact Hfirst.
Qed.
