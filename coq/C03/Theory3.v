(* C03 theory, part 3: the handlers ([interp_*]) applied to the forest of a mapping set give
   the mapping set back, in the order of the lines. *)
From FB Require Import C03.Model C03.Theory1 C03.Theory2.
From Coq Require Import Lia.

Arguments N.add : simpl never.
Arguments N.mul : simpl never.
Arguments N.ltb : simpl never.
Arguments N.eqb : simpl never.

(* ------------------------------------------------------------------------------------------ *)
(* boolean equalities and duplicate-freeness                                                   *)

Lemma opt_eqb_eq {A} (eqb : A -> A -> bool) (Heq : forall a b, eqb a b = true <-> a = b) x y :
  opt_eqb eqb x y = true <-> x = y.
Proof.
  destruct x as [a|], y as [b|]; cbn [opt_eqb]; try (split; congruence).
  rewrite Heq. split; congruence.
Qed.

Lemma key2_eqb_eq a b : key2_eqb a b = true <-> a = b.
Proof.
  destruct a as [a1 a2], b as [b1 b2]. unfold key2_eqb. cbn [fst snd].
  rewrite andb_true_iff, !str_eqb_eq. split; [intros [-> ->]; reflexivity|intros [= -> ->]; auto].
Qed.

Lemma okey2_eqb_eq a b : okey_eqb key2_eqb a b = true <-> a = b.
Proof. apply opt_eqb_eq, key2_eqb_eq. Qed.

Lemma okey_str_eqb_eq a b : okey_eqb str_eqb a b = true <-> a = b.
Proof. apply opt_eqb_eq, str_eqb_eq. Qed.

Lemma existsb_eqb_false {A} (eqb : A -> A -> bool) (Heq : forall a b, eqb a b = true <-> a = b) x l :
  ~ In x l -> existsb (eqb x) l = false.
Proof.
  intros Hn. destruct (existsb (eqb x) l) eqn:E; [|reflexivity].
  apply existsb_exists in E. destruct E as (y & Hy & E). apply Heq in E. subst. contradiction.
Qed.

Lemma existsb_eqb_true {A} (eqb : A -> A -> bool) (Heq : forall a b, eqb a b = true <-> a = b) x l :
  In x l -> existsb (eqb x) l = true.
Proof. intros H. apply existsb_exists. exists x. split; [exact H|apply Heq; reflexivity]. Qed.

Lemma nodupb_NoDup {A} (eqb : A -> A -> bool) (Heq : forall a b, eqb a b = true <-> a = b) l :
  nodupb eqb l = true <-> NoDup l.
Proof.
  induction l as [|x l IH]; cbn [nodupb].
  - split; [constructor|reflexivity].
  - rewrite andb_true_iff, negb_true_iff, IH. split.
    + intros [H1 H2]. constructor; [|exact H2]. intros Hin.
      rewrite (existsb_eqb_true eqb Heq x l Hin) in H1. discriminate.
    + intros H. inversion H as [|? ? Hn Hnd]; subst. split; [|exact Hnd].
      apply existsb_eqb_false; assumption.
Qed.

Lemma NoDup_app_not_in {A} (l1 : list A) x l2 : NoDup (l1 ++ x :: l2) -> ~ In x l1.
Proof.
  intros H Hin. apply NoDup_remove_2 in H. apply H. apply in_or_app. left. exact Hin.
Qed.

(* ------------------------------------------------------------------------------------------ *)
(* a names row and its cells                                                                   *)

Definition cells_of (l : names) : list str := map cell_str l.

Lemma cells_cells_of valid l :
  forallb (fun o => match o with Some [] => false | _ => true end) l = true ->
  names_textual valid l = true ->
  cells valid (cells_of l) = Ok l.
Proof.
  induction l as [|o l IH]; intros H1 H2; [reflexivity|].
  cbn [forallb names_textual] in *. unfold names_textual in H2. cbn [forallb] in H2.
  apply andb_true_iff in H1. destruct H1 as [Ho H1].
  apply andb_true_iff in H2. destruct H2 as [Hv H2].
  cbn [cells_of map cells]. change (map cell_str l) with (cells_of l).
  rewrite (IH H1 H2).
  destruct o as [s|]; cbn [cell_str]; [|reflexivity].
  destruct s as [|c s]; [discriminate|].
  unfold name_ok in Hv. apply andb_true_iff in Hv. destruct Hv as [_ Hv]. unfold cell. rewrite Hv. reflexivity.
Qed.

Lemma into_names_cells_of n valid l :
  names_ok n l = true -> names_textual valid l = true -> into_names n valid (cells_of l) = Ok l.
Proof.
  unfold names_ok. intros H1 H2. apply andb_true_iff in H1. destruct H1 as [Hlen Hne].
  unfold into_names. rewrite (cells_cells_of valid l Hne H2). cbn [bind]. rewrite Hlen. reflexivity.
Qed.

(* ------------------------------------------------------------------------------------------ *)
(* lines and forest of a mapping set, children in list order                                   *)

Definition doc_tl (k : nat) (d : option str) : list tline :=
  match d with Some s => [mkLine k [c_c] [escape s]] | None => [] end.
Definition param_tline (p : param) : tline := mkLine 2 [c_p] (dec (p_index p) :: cells_of (p_names p)).
Definition field_tline (f : field) : tline := mkLine 1 [c_f] (lossy (f_desc f) :: cells_of (f_names f)).
Definition meth_tline (m : meth) : tline := mkLine 1 [c_m] (lossy (m_desc m) :: cells_of (m_names m)).
Definition class_tline (c : class) : tline := mkLine 0 [c_c] (cells_of (c_names c)).

Definition param_tl (p : param) : list tline := param_tline p :: doc_tl 3 (p_doc p).
Definition field_tl (f : field) : list tline := field_tline f :: doc_tl 2 (f_doc f).
Definition meth_tl (m : meth) : list tline :=
  meth_tline m :: doc_tl 2 (m_doc m) ++ flat_map param_tl (m_params m).
Definition class_tl (c : class) : list tline :=
  class_tline c :: doc_tl 1 (c_doc c) ++ flat_map field_tl (c_fields c) ++ flat_map meth_tl (c_methods c).

(* forests, built with the siblings that follow as a parameter *)
Definition doc_f (k : nat) (d : option str) (sib : forest) : forest :=
  match d with Some s => FNode (mkLine k [c_c] [escape s]) FNil sib | None => sib end.
Fixpoint params_f (ps : list param) (sib : forest) : forest :=
  match ps with
  | [] => sib
  | p :: ps' => FNode (param_tline p) (doc_f 3 (p_doc p) FNil) (params_f ps' sib)
  end.
Fixpoint fields_f (fs : list field) (sib : forest) : forest :=
  match fs with
  | [] => sib
  | f :: fs' => FNode (field_tline f) (doc_f 2 (f_doc f) FNil) (fields_f fs' sib)
  end.
Fixpoint meths_f (ms : list meth) (sib : forest) : forest :=
  match ms with
  | [] => sib
  | m :: ms' => FNode (meth_tline m) (doc_f 2 (m_doc m) (params_f (m_params m) FNil)) (meths_f ms' sib)
  end.
Fixpoint classes_f (cs : list class) : forest :=
  match cs with
  | [] => FNil
  | c :: cs' => FNode (class_tline c) (doc_f 1 (c_doc c) (fields_f (c_fields c) (meths_f (c_methods c) FNil))) (classes_f cs')
  end.

Lemma flatten_doc_f k d sib : flatten (doc_f k d sib) = doc_tl k d ++ flatten sib.
Proof. destruct d; reflexivity. Qed.

Lemma flatten_params_f ps sib : flatten (params_f ps sib) = flat_map param_tl ps ++ flatten sib.
Proof.
  induction ps as [|p ps IH]; [reflexivity|].
  cbn [params_f flatten flat_map]. rewrite flatten_doc_f, IH. cbn [flatten].
  rewrite app_nil_r. unfold param_tl. cbn [app]. rewrite app_assoc. reflexivity.
Qed.

Lemma flatten_fields_f fs sib : flatten (fields_f fs sib) = flat_map field_tl fs ++ flatten sib.
Proof.
  induction fs as [|f fs IH]; [reflexivity|].
  cbn [fields_f flatten flat_map]. rewrite flatten_doc_f, IH. cbn [flatten].
  rewrite app_nil_r. unfold field_tl. cbn [app]. rewrite app_assoc. reflexivity.
Qed.

Lemma flatten_meths_f ms sib : flatten (meths_f ms sib) = flat_map meth_tl ms ++ flatten sib.
Proof.
  induction ms as [|m ms IH]; [reflexivity|].
  cbn [meths_f flatten flat_map]. rewrite flatten_doc_f, flatten_params_f, IH. cbn [flatten].
  rewrite app_nil_r. unfold meth_tl. cbn [app]. rewrite <- !app_assoc. reflexivity.
Qed.

Lemma flatten_classes_f cs : flatten (classes_f cs) = flat_map class_tl cs.
Proof.
  induction cs as [|c cs IH]; [reflexivity|].
  cbn [classes_f flatten flat_map]. rewrite flatten_doc_f, flatten_fields_f, flatten_meths_f, IH.
  cbn [flatten]. rewrite app_nil_r. unfold class_tl. cbn [app]. rewrite <- !app_assoc. reflexivity.
Qed.

Lemma depth_doc_f k d sib : depth_ok k sib -> depth_ok k (doc_f k d sib).
Proof. destruct d; cbn [doc_f depth_ok l_ind]; auto. Qed.

Lemma depth_params_f ps sib : depth_ok 2 sib -> depth_ok 2 (params_f ps sib).
Proof.
  intros H. induction ps as [|p ps IH]; [exact H|].
  cbn [params_f depth_ok]. repeat split; [|exact IH]. apply depth_doc_f. exact I.
Qed.

Lemma depth_fields_f fs sib : depth_ok 1 sib -> depth_ok 1 (fields_f fs sib).
Proof.
  intros H. induction fs as [|f fs IH]; [exact H|].
  cbn [fields_f depth_ok]. repeat split; [|exact IH]. apply depth_doc_f. exact I.
Qed.

Lemma depth_meths_f ms sib : depth_ok 1 sib -> depth_ok 1 (meths_f ms sib).
Proof.
  intros H. induction ms as [|m ms IH]; [exact H|].
  cbn [meths_f depth_ok]. repeat split; [|exact IH]. apply depth_doc_f, depth_params_f. exact I.
Qed.

Lemma depth_classes_f cs : depth_ok 0 (classes_f cs).
Proof.
  induction cs as [|c cs IH]; [exact I|].
  cbn [classes_f depth_ok]. repeat split; [|exact IH].
  apply depth_doc_f, depth_fields_f, depth_meths_f. exact I.
Qed.

(* ------------------------------------------------------------------------------------------ *)
(* the handlers on these forests                                                               *)

Lemma tag_is_same t k fs : tag_is t (mkLine k [t] fs) = true.
Proof. unfold tag_is. cbn [l_first str_eqb]. rewrite N.eqb_refl. reflexivity. Qed.

Lemma tag_is_diff t t' k fs : N.eqb t' t = false -> tag_is t (mkLine k [t'] fs) = false.
Proof. intros H. unfold tag_is. cbn [l_first str_eqb]. rewrite H. reflexivity. Qed.

Lemma interp_comments_doc_f k d : interp_comments None (doc_f k d FNil) = Ok d.
Proof.
  destruct d as [s|]; [|reflexivity].
  cbn [doc_f interp_comments]. rewrite tag_is_same. cbn [line_end l_fields].
  rewrite unescape_escape. reflexivity.
Qed.

(* parameters *)
Lemma interp_meth_params n : forall ps m sib,
  forallb (wf_param n) ps = true -> forallb textual_param ps = true ->
  NoDup (map param_key (m_params m ++ ps)) ->
  interp_meth n m (params_f ps sib)
  = interp_meth n (mkMeth (m_desc m) (m_names m) (m_doc m) (m_params m ++ ps)) sib.
Proof.
  induction ps as [|p ps IH]; intros m sib Hwf Htx Hnd.
  - cbn [params_f]. rewrite app_nil_r. destruct m; reflexivity.
  - cbn [forallb] in Hwf, Htx.
    apply andb_true_iff in Hwf. destruct Hwf as [Hwp Hwf].
    apply andb_true_iff in Htx. destruct Htx as [Htp Htx].
    unfold wf_param in Hwp. unfold textual_param in Htp.
    apply andb_true_iff in Htp. destruct Htp as [Hidx Hnm]. apply N.ltb_lt in Hidx.
    cbn [params_f interp_meth]. unfold param_tline. rewrite tag_is_same.
    cbn [l_fields]. rewrite (parse_usize_dec _ Hidx). cbn [bind].
    rewrite (into_names_cells_of n _ _ Hwp Hnm). cbn [bind].
    assert (Hnotin : ~ In (p_index p) (map param_key (m_params m))).
    { rewrite map_app in Hnd. cbn [map] in Hnd. apply NoDup_app_not_in in Hnd. exact Hnd. }
    rewrite (existsb_eqb_false N.eqb N.eqb_eq _ _ Hnotin).
    rewrite interp_comments_doc_f. cbn [bind].
    replace (mkParam (p_index p) (p_names p) (p_doc p)) with p by (destruct p; reflexivity).
    rewrite IH.
    + unfold add_m_param. cbn [m_desc m_names m_doc m_params]. rewrite <- app_assoc. reflexivity.
    + exact Hwf.
    + exact Htx.
    + unfold add_m_param. cbn [m_params]. rewrite <- app_assoc. exact Hnd.
Qed.

Lemma interp_meth_doc n d m sib :
  m_doc m = None ->
  interp_meth n m (doc_f 2 d sib) = interp_meth n (set_m_doc m d) sib.
Proof.
  intros Hd. destruct d as [s|].
  - cbn [doc_f interp_meth]. rewrite tag_is_diff by reflexivity. rewrite tag_is_same.
    cbn [line_end l_fields]. rewrite Hd. rewrite unescape_escape. reflexivity.
  - cbn [doc_f]. unfold set_m_doc. rewrite <- Hd. destruct m; reflexivity.
Qed.

(* one method line with everything below it *)
Lemma interp_meth_children n m :
  wf_meth n m = true -> textual_meth m = true ->
  interp_meth n (mkMeth (m_desc m) (m_names m) None []) (doc_f 2 (m_doc m) (params_f (m_params m) FNil)) = Ok m.
Proof.
  intros Hwf Htx. unfold wf_meth in Hwf. unfold textual_meth in Htx.
  apply andb_true_iff in Hwf. destruct Hwf as [Hwf Hnd].
  apply andb_true_iff in Hwf. destruct Hwf as [_ Hps].
  apply andb_true_iff in Htx. destruct Htx as [_ Htp].
  rewrite interp_meth_doc by reflexivity.
  unfold set_m_doc. cbn [m_desc m_names m_params].
  rewrite interp_meth_params.
  - cbn [interp_meth m_desc m_names m_doc m_params app]. destruct m; reflexivity.
  - exact Hps.
  - exact Htp.
  - cbn [m_params app]. apply (nodupb_NoDup N.eqb N.eqb_eq). exact Hnd.
Qed.

(* fields *)
Lemma field_key_mk desc nm d : field_key (mkField desc nm d) = field_key (mkField desc nm None).
Proof. reflexivity. Qed.

Lemma interp_class_fields n : forall fs c sib,
  forallb (wf_field n) fs = true -> forallb textual_field fs = true ->
  NoDup (map field_key (c_fields c ++ fs)) ->
  interp_class n c (fields_f fs sib)
  = interp_class n (mkClass (c_names c) (c_doc c) (c_fields c ++ fs) (c_methods c)) sib.
Proof.
  induction fs as [|f fs IH]; intros c sib Hwf Htx Hnd.
  - cbn [fields_f]. rewrite app_nil_r. destruct c; reflexivity.
  - cbn [forallb] in Hwf, Htx.
    apply andb_true_iff in Hwf. destruct Hwf as [Hwp Hwf].
    apply andb_true_iff in Htx. destruct Htx as [Htp Htx].
    unfold wf_field in Hwp. apply andb_true_iff in Hwp. destruct Hwp as [Hrow Hkey].
    unfold textual_field in Htp. apply andb_true_iff in Htp. destruct Htp as [Hdesc Hnm].
    unfold desc_ok in Hdesc. apply andb_true_iff in Hdesc. destruct Hdesc as [_ Hsc].
    assert (Hlossy : lossy (f_desc f) = f_desc f).
    { unfold lossy. unfold scalar_only in Hsc. rewrite forallb_forall in Hsc.
      rewrite <- (map_id (f_desc f)) at 2. apply map_ext_in. intros x Hx. rewrite (Hsc x Hx). reflexivity. }
    cbn [fields_f interp_class]. unfold field_tline. rewrite tag_is_same.
    cbn [l_fields]. rewrite Hlossy.
    rewrite (into_names_cells_of n _ _ Hrow Hnm). cbn [bind].
    change (field_key (mkField (f_desc f) (f_names f) None)) with (field_key f).
    destruct (field_key f) as [k|] eqn:Ek; [|discriminate].
    assert (Hnotin : ~ In (Some k) (map field_key (c_fields c))).
    { rewrite map_app in Hnd. cbn [map] in Hnd. rewrite Ek in Hnd. apply NoDup_app_not_in in Hnd. exact Hnd. }
    rewrite (existsb_eqb_false _ okey2_eqb_eq _ _ Hnotin).
    rewrite interp_comments_doc_f. cbn [bind].
    replace (mkField (f_desc f) (f_names f) (f_doc f)) with f by (destruct f; reflexivity).
    rewrite IH.
    + unfold add_c_field. cbn [c_names c_doc c_fields c_methods]. rewrite <- app_assoc. reflexivity.
    + exact Hwf.
    + exact Htx.
    + unfold add_c_field. cbn [c_fields]. rewrite <- app_assoc. exact Hnd.
Qed.

(* methods *)
Lemma interp_class_meths n : forall ms c sib,
  forallb (wf_meth n) ms = true -> forallb textual_meth ms = true ->
  NoDup (map meth_key (c_methods c ++ ms)) ->
  interp_class n c (meths_f ms sib)
  = interp_class n (mkClass (c_names c) (c_doc c) (c_fields c) (c_methods c ++ ms)) sib.
Proof.
  induction ms as [|m ms IH]; intros c sib Hwf Htx Hnd.
  - cbn [meths_f]. rewrite app_nil_r. destruct c; reflexivity.
  - cbn [forallb] in Hwf, Htx.
    apply andb_true_iff in Hwf. destruct Hwf as [Hwm Hwf].
    apply andb_true_iff in Htx. destruct Htx as [Htm Htx].
    pose proof Hwm as Hwm'. pose proof Htm as Htm'.
    unfold wf_meth in Hwm. apply andb_true_iff in Hwm. destruct Hwm as [Hwm _].
    apply andb_true_iff in Hwm. destruct Hwm as [Hwm _].
    apply andb_true_iff in Hwm. destruct Hwm as [Hrow Hkey].
    unfold textual_meth in Htm. apply andb_true_iff in Htm. destruct Htm as [Htm _].
    apply andb_true_iff in Htm. destruct Htm as [Hdesc Hnm].
    unfold desc_ok in Hdesc. apply andb_true_iff in Hdesc. destruct Hdesc as [_ Hsc].
    assert (Hlossy : lossy (m_desc m) = m_desc m).
    { unfold lossy. unfold scalar_only in Hsc. rewrite forallb_forall in Hsc.
      rewrite <- (map_id (m_desc m)) at 2. apply map_ext_in. intros x Hx. rewrite (Hsc x Hx). reflexivity. }
    cbn [meths_f interp_class]. unfold meth_tline.
    rewrite tag_is_diff by reflexivity. rewrite tag_is_same.
    cbn [l_fields]. rewrite Hlossy.
    rewrite (into_names_cells_of n _ _ Hrow Hnm). cbn [bind].
    change (meth_key (mkMeth (m_desc m) (m_names m) None [])) with (meth_key m).
    destruct (meth_key m) as [k|] eqn:Ek; [|discriminate].
    assert (Hnotin : ~ In (Some k) (map meth_key (c_methods c))).
    { rewrite map_app in Hnd. cbn [map] in Hnd. rewrite Ek in Hnd. apply NoDup_app_not_in in Hnd. exact Hnd. }
    rewrite (existsb_eqb_false _ okey2_eqb_eq _ _ Hnotin).
    rewrite (interp_meth_children n m Hwm' Htm'). cbn [bind].
    rewrite IH.
    + unfold add_c_meth. cbn [c_names c_doc c_fields c_methods]. rewrite <- app_assoc. reflexivity.
    + exact Hwf.
    + exact Htx.
    + unfold add_c_meth. cbn [c_methods]. rewrite <- app_assoc. exact Hnd.
Qed.

Lemma interp_class_doc n d c sib :
  c_doc c = None ->
  interp_class n c (doc_f 1 d sib) = interp_class n (set_c_doc c d) sib.
Proof.
  intros Hd. destruct d as [s|].
  - cbn [doc_f interp_class]. rewrite !tag_is_diff by reflexivity. rewrite tag_is_same.
    cbn [line_end l_fields]. rewrite Hd. rewrite unescape_escape. reflexivity.
  - cbn [doc_f]. unfold set_c_doc. rewrite <- Hd. destruct c; reflexivity.
Qed.

(* one class line with everything below it *)
Lemma interp_class_children n c :
  wf_class n c = true -> textual_class c = true ->
  interp_class n (mkClass (c_names c) None [] [])
    (doc_f 1 (c_doc c) (fields_f (c_fields c) (meths_f (c_methods c) FNil))) = Ok c.
Proof.
  intros Hwf Htx. unfold wf_class in Hwf. unfold textual_class in Htx.
  apply andb_true_iff in Hwf. destruct Hwf as [Hwf Hndm].
  apply andb_true_iff in Hwf. destruct Hwf as [Hwf Hwm].
  apply andb_true_iff in Hwf. destruct Hwf as [Hwf Hndf].
  apply andb_true_iff in Hwf. destruct Hwf as [_ Hwfl].
  apply andb_true_iff in Htx. destruct Htx as [Htx Htm].
  apply andb_true_iff in Htx. destruct Htx as [_ Htf].
  rewrite interp_class_doc by reflexivity.
  unfold set_c_doc. cbn [c_names c_fields c_methods].
  rewrite interp_class_fields; [|exact Hwfl|exact Htf|].
  - cbn [c_names c_doc c_fields c_methods app].
    rewrite interp_class_meths; [|exact Hwm|exact Htm|].
    + cbn [interp_class c_names c_doc c_fields c_methods app]. destruct c; reflexivity.
    + cbn [c_methods app]. apply (nodupb_NoDup _ okey2_eqb_eq). exact Hndm.
  - cbn [c_fields app]. apply (nodupb_NoDup _ okey2_eqb_eq). exact Hndf.
Qed.

(* classes *)
Lemma interp_top_classes n : forall cs M,
  forallb (wf_class n) cs = true -> forallb textual_class cs = true ->
  NoDup (map class_key (ms_classes M ++ cs)) ->
  interp_top n M (classes_f cs) = Ok (mkMappings (ms_ns M) (ms_doc M) (ms_classes M ++ cs)).
Proof.
  induction cs as [|c cs IH]; intros M Hwf Htx Hnd.
  - cbn [classes_f interp_top]. rewrite app_nil_r. destruct M; reflexivity.
  - cbn [forallb] in Hwf, Htx.
    apply andb_true_iff in Hwf. destruct Hwf as [Hwc Hwf].
    apply andb_true_iff in Htx. destruct Htx as [Htc Htx].
    pose proof Hwc as Hwc'. pose proof Htc as Htc'.
    unfold wf_class in Hwc. do 4 (apply andb_true_iff in Hwc; destruct Hwc as [Hwc _]).
    apply andb_true_iff in Hwc. destruct Hwc as [Hrow Hkey].
    unfold textual_class in Htc. do 2 (apply andb_true_iff in Htc; destruct Htc as [Htc _]).
    cbn [classes_f interp_top]. unfold class_tline. rewrite tag_is_same.
    cbn [l_fields].
    rewrite (into_names_cells_of n _ _ Hrow Htc). cbn [bind].
    change (class_key (mkClass (c_names c) None [] [])) with (class_key c).
    destruct (class_key c) as [k|] eqn:Ek; [|discriminate].
    assert (Hnotin : ~ In (Some k) (map class_key (ms_classes M))).
    { rewrite map_app in Hnd. cbn [map] in Hnd. rewrite Ek in Hnd. apply NoDup_app_not_in in Hnd. exact Hnd. }
    rewrite (existsb_eqb_false _ okey_str_eqb_eq _ _ Hnotin).
    rewrite (interp_class_children n c Hwc' Htc'). cbn [bind].
    rewrite IH.
    + unfold add_class. cbn [ms_ns ms_doc ms_classes]. rewrite <- app_assoc. reflexivity.
    + exact Hwf.
    + exact Htx.
    + unfold add_class. cbn [ms_classes]. rewrite <- app_assoc. exact Hnd.
Qed.
