(* C03 round 5 — whatever the reader returns is a set of the types: every name passed the check_valid of
   its type (the reader goes through the checked constructors) and every parameter index is a usize.  So
   [typed], the hypothesis of the round trip without [textual] (Theory14), holds for every set that came
   from a file; together with C03_read_ok_wf: read n t = Ok M -> wf M /\ typed M. *)
From FB Require Import C03.Model C03.Theory7.

Lemma cells_typed valid l r : cells valid l = Ok r -> names_typed valid r = true.
Proof.
  revert r. induction l as [|s l IH]; intros r H; cbn [cells] in H.
  - injection H as <-. reflexivity.
  - destruct (cell valid s) as [o|] eqn:Ec; [|discriminate]. cbn [bind] in H.
    destruct (cells valid l) as [r'|]; [|discriminate]. cbn [bind] in H. injection H as <-.
    unfold names_typed. cbn [forallb]. fold (names_typed valid r'). rewrite (IH r' eq_refl), andb_true_r.
    unfold cell in Ec. destruct s as [|c s]; [injection Ec as <-; reflexivity|].
    destruct (valid (c :: s)) eqn:Ev; [|discriminate]. injection Ec as <-. exact Ev.
Qed.

Lemma into_names_typed n valid fs r : into_names n valid fs = Ok r -> names_typed valid r = true.
Proof.
  unfold into_names. destruct (cells valid fs) as [r'|] eqn:Ec; [|discriminate]. cbn [bind].
  destruct (Nat.eqb (length r') n); [|discriminate]. intros [= <-]. exact (cells_typed _ _ _ Ec).
Qed.

Lemma parse_usize_lt s i : parse_usize s = Ok i -> N.ltb i usize_max1 = true.
Proof.
  unfold parse_usize. destruct (match s with c :: r => if N.eqb c c_PLUS then r else s | [] => [] end) as [|d ds]; [discriminate|].
  destruct (parse_digits 0 (d :: ds)) as [v|]; [|discriminate].
  destruct (N.ltb v usize_max1) eqn:E; [|discriminate]. intros [= <-]. exact E.
Qed.

Lemma interp_meth_typed n : forall f m m',
  typed_meth m = true -> interp_meth n m f = Ok m' -> typed_meth m' = true.
Proof.
  induction f as [|l ch _ sib IH]; intros m m' Ht H.
  - cbn [interp_meth] in H. injection H as <-. exact Ht.
  - cbn [interp_meth] in H. destruct (tag_is c_p l).
    + destruct (l_fields l) as [|idx rest]; [discriminate|].
      destruct (parse_usize idx) as [i|] eqn:Ei; [|discriminate]. cbn [bind] in H.
      destruct (into_names n is_valid_unqualified_name rest) as [nm|] eqn:En; [|discriminate]. cbn [bind] in H.
      destruct (existsb (N.eqb i) (map param_key (m_params m))); [discriminate|].
      destruct (interp_comments None ch) as [d|]; [|discriminate]. cbn [bind] in H.
      apply IH in H; [exact H|].
      unfold typed_meth in Ht |- *. unfold add_m_param. cbn [m_names m_params].
      apply andb_true_iff in Ht. destruct Ht as [Hn Hps]. rewrite Hn, forallb_app, Hps. cbn [forallb andb].
      unfold typed_param. cbn [p_index p_names]. rewrite (parse_usize_lt _ _ Ei), (into_names_typed _ _ _ _ En). reflexivity.
    + destruct ch; [|discriminate]. destruct (tag_is c_c l).
      * destruct (line_end l); [|discriminate]. destruct (m_doc m); [discriminate|].
        apply IH in H; [exact H|]. exact Ht.
      * apply IH in H; [exact H|exact Ht].
Qed.

Lemma interp_class_typed n : forall f c c',
  typed_class c = true -> interp_class n c f = Ok c' -> typed_class c' = true.
Proof.
  induction f as [|l ch _ sib IH]; intros c c' Ht H.
  - cbn [interp_class] in H. injection H as <-. exact Ht.
  - cbn [interp_class] in H. pose proof Ht as Ht0. unfold typed_class in Ht.
    apply andb_true_iff in Ht. destruct Ht as [Ht Hms]. apply andb_true_iff in Ht. destruct Ht as [Hn Hfs].
    destruct (tag_is c_f l).
    + destruct (l_fields l) as [|desc rest]; [discriminate|].
      destruct (into_names n is_valid_unqualified_name rest) as [nm|] eqn:En; [|discriminate]. cbn [bind] in H.
      destruct (field_key (mkField desc nm None)) as [k|]; [|discriminate].
      destruct (existsb _ _); [discriminate|].
      destruct (interp_comments None ch) as [d|]; [|discriminate]. cbn [bind] in H.
      apply IH in H; [exact H|].
      unfold typed_class, add_c_field. cbn [c_names c_fields c_methods].
      rewrite Hn, Hms, forallb_app, Hfs. cbn [forallb andb]. unfold typed_field. cbn [f_names].
      rewrite (into_names_typed _ _ _ _ En). reflexivity.
    + destruct (tag_is c_m l).
      * destruct (l_fields l) as [|desc rest]; [discriminate|].
        destruct (into_names n is_valid_method_name rest) as [nm|] eqn:En; [|discriminate]. cbn [bind] in H.
        destruct (meth_key (mkMeth desc nm None [])) as [k|]; [|discriminate].
        destruct (existsb _ _); [discriminate|].
        destruct (interp_meth n (mkMeth desc nm None []) ch) as [m|] eqn:Em; [|discriminate]. cbn [bind] in H.
        apply IH in H; [exact H|].
        assert (Hm0 : typed_meth (mkMeth desc nm None []) = true).
        { unfold typed_meth. cbn [m_names m_params forallb]. rewrite (into_names_typed _ _ _ _ En). reflexivity. }
        pose proof (interp_meth_typed n _ _ _ Hm0 Em) as Htm.
        unfold typed_class, add_c_meth. cbn [c_names c_fields c_methods].
        rewrite Hn, Hfs, forallb_app, Hms. cbn [forallb andb]. rewrite Htm. reflexivity.
      * destruct ch; [|discriminate]. destruct (tag_is c_c l).
        -- destruct (line_end l); [|discriminate]. destruct (c_doc c); [discriminate|].
           apply IH in H; [exact H|]. exact Ht0.
        -- apply IH in H; [exact H|exact Ht0].
Qed.

Lemma interp_top_typed n : forall f M M',
  typed M = true -> interp_top n M f = Ok M' -> typed M' = true.
Proof.
  induction f as [|l ch _ sib IH]; intros M M' Ht H.
  - cbn [interp_top] in H. injection H as <-. exact Ht.
  - cbn [interp_top] in H. destruct (tag_is c_c l).
    + destruct (into_names n is_valid_obj_class_name (l_fields l)) as [nm|] eqn:En; [|discriminate]. cbn [bind] in H.
      destruct (class_key (mkClass nm None [] [])) as [k|]; [|discriminate].
      destruct (existsb _ _); [discriminate|].
      destruct (interp_class n (mkClass nm None [] []) ch) as [c|] eqn:Ecl; [|discriminate]. cbn [bind] in H.
      apply IH in H; [exact H|].
      assert (Hc0 : typed_class (mkClass nm None [] []) = true).
      { unfold typed_class. cbn [c_names c_fields c_methods forallb]. rewrite (into_names_typed _ _ _ _ En). reflexivity. }
      pose proof (interp_class_typed n _ _ _ Hc0 Ecl) as Htc.
      unfold typed in Ht |- *. unfold add_class. cbn [ms_classes]. rewrite forallb_app, Ht. cbn [forallb andb]. rewrite Htc. reflexivity.
    + destruct ch; [|discriminate]. apply IH in H; [exact H|exact Ht].
Qed.

Theorem read_ok_typed n t M : read n t = Ok M -> typed M = true.
Proof.
  unfold read. destruct (Nat.ltb n 2); [discriminate|].
  destruct (map tiny_line (raw_lines t)) as [|h body]; [discriminate|].
  destruct (read_header n h) as [ns|]; [|discriminate]. cbn [bind].
  destruct (build (S (length body)) 1 body) as [[hsub rest]|]; [|discriminate].
  destruct (interp_comments None hsub) as [doc|]; [|discriminate]. cbn [bind].
  destruct (build (S (length body)) 0 rest) as [[tops rest2]|]; [|discriminate].
  destruct rest2; [|discriminate]. intros H.
  apply (interp_top_typed n tops (mkMappings ns doc []) M); [reflexivity|exact H].
Qed.

(* every set that came from a file is refused or survives the round trip (C03.Theory14) *)
From FB Require Import C03.Theory14.

Theorem read_then_write n t M : read n t = Ok M ->
  (write M = Err /\ writable M = false)
  \/ (exists t', write M = Ok t' /\ read n t' = Ok (canon M)).
Proof.
  intros H. destruct (read_ok_wf n t M H) as [Hwf Hn]. pose proof (read_ok_typed n t M H) as Hty.
  rewrite <- Hn. exact (refused_or_round_trip M Hwf Hty).
Qed.

(* both cases occur: the class name "A<CR>" in the middle of a line is read (BufRead::lines only strips a CR
   before the LF) and such a set is then refused by the writer; the same text without the CR round-trips *)
Definition read_refused_example : Prop :=
  let t  := [116;105;110;121;9;50;9;48;9;97;9;98;10; 99;9;65;13;9;66;10] in
  let t' := [116;105;110;121;9;50;9;48;9;97;9;98;10; 99;9;65;9;66;10] in
  (exists M, read 2 t = Ok M /\ write M = Err)
  /\ (exists M, read 2 t' = Ok M /\ write M = Ok t').

Lemma read_refused_example_holds : read_refused_example.
Proof.
  split.
  - eexists. split; [vm_compute; reflexivity|vm_compute; reflexivity].
  - eexists. split; [vm_compute; reflexivity|vm_compute; reflexivity].
Qed.
