(* C03 model, byte level: what is on disk.  quill::tiny_v2::read takes an `impl Read`;
   `BufReader::lines` splits the BYTES at LF (dropping one CR before it) and validates every
   line as UTF-8 on its own (`io::ErrorKind::InvalidData` for a line that is not UTF-8; the error
   travels through WithMoreIdentIter::next's `Err(_) => self.iter.next()` arm at any depth and
   ends the read).  write_string returns a `String`, whose bytes are the UTF-8 encoding of the
   code-point text of C03/Model.v.  Definitions only; proofs are in Theory10.v. *)
From FB Require Export C03.Model.

(* char::encode_utf8 *)
Definition enc_char (c : N) : list N :=
  if N.ltb c 128 then [c]
  else if N.ltb c 2048 then [192 + c / 64; 128 + c mod 64]
  else if N.ltb c 65536 then [224 + c / 4096; 128 + (c / 64) mod 64; 128 + c mod 64]
  else [240 + c / 262144; 128 + (c / 4096) mod 64; 128 + (c / 64) mod 64; 128 + c mod 64].
Definition utf8 (s : str) : list N := flat_map enc_char s.

(* core::str::from_utf8 (strict: no overlong forms, no surrogates, nothing above U+10FFFF) *)
Definition is_cont (b : N) : bool := N.leb 128 b && N.ltb b 192.
Fixpoint utf8_decode (bs : list N) : option str :=
  match bs with
  | [] => Some []
  | b :: r =>
      if N.ltb b 128 then option_map (cons b) (utf8_decode r)
      else if N.ltb b 194 then None           (* continuation byte, or the overlong leads C0 C1 *)
      else if N.ltb b 224 then
        match r with
        | b1 :: r' =>
            if is_cont b1 then option_map (cons ((b - 192) * 64 + (b1 - 128))) (utf8_decode r') else None
        | _ => None
        end
      else if N.ltb b 240 then
        match r with
        | b1 :: b2 :: r' =>
            let c := (b - 224) * 4096 + (b1 - 128) * 64 + (b2 - 128) in
            if is_cont b1 && is_cont b2 && N.leb 2048 c && negb (N.leb 55296 c && N.leb c 57343)
            then option_map (cons c) (utf8_decode r') else None
        | _ => None
        end
      else if N.ltb b 245 then
        match r with
        | b1 :: b2 :: b3 :: r' =>
            let c := (b - 240) * 262144 + (b1 - 128) * 4096 + (b2 - 128) * 64 + (b3 - 128) in
            if is_cont b1 && is_cont b2 && is_cont b3 && N.leb 65536 c && N.ltb c 1114112
            then option_map (cons c) (utf8_decode r') else None
        | _ => None
        end
      else None
  end.

(* every line is validated on its own *)
Fixpoint decode_lines (ls : list (list N)) : option (list str) :=
  match ls with
  | [] => Some []
  | l :: r =>
      match utf8_decode l, decode_lines r with
      | Some a, Some b => Some (a :: b)
      | _, _ => None
      end
  end.

(* [read] of Model.v after the line splitting *)
Definition read_lines (n : nat) (ls : list str) : res mappings :=
  if Nat.ltb n 2 then Err else
  match map tiny_line ls with
  | [] => Err
  | h :: body =>
      do ns <- read_header n h;
      let fuel := S (length body) in
      match build fuel 1 body with
      | Ok (hsub, rest) =>
          do doc <- interp_comments None hsub;
          match build fuel 0 rest with
          | Ok (tops, []) => interp_top n (mkMappings ns doc []) tops
          | _ => Err
          end
      | Err => Err
      end
  end.

(* tiny_v2::read::<N, _> on the bytes: [raw_lines] is BufRead::lines (it only looks at LF and CR,
   which are single bytes), then every line is decoded *)
Definition read_bytes (n : nat) (bs : list N) : res mappings :=
  match decode_lines (raw_lines bs) with
  | Some ls => read_lines n ls
  | None => Err
  end.

(* write_vec: the bytes of write_string's String *)
Definition write_bytes (M : mappings) : res (list N) :=
  match write M with Ok t => Ok (utf8 t) | Err => Err end.
