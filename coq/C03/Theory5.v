(* C03 theory, part 5: sorting.  The orders used by [write] are total, transitive and decide
   equality of the infos; [write] factors through the canonical representative [canon];
   [canon] keeps the hypotheses; the round-trip and fixed-point theorems. *)
From FB Require Import C03.Model C03.Theory1 C03.Theory2 C03.Theory3 C03.Theory4.
From Coq Require Import Lia Arith PeanoNat.

Arguments N.add : simpl never.
Arguments N.mul : simpl never.
Arguments N.ltb : simpl never.
Arguments N.eqb : simpl never.

(* ------------------------------------------------------------------------------------------ *)
(* well-behaved three-way comparisons                                                          *)

Record cmp_good {K} (cmp : K -> K -> comparison) : Prop := {
  cg_eq : forall a b, cmp a b = Eq <-> a = b;
  cg_anti : forall a b, cmp b a = CompOpp (cmp a b);
  cg_lt : forall a b d, cmp a b = Lt -> cmp b d = Lt -> cmp a d = Lt }.

Lemma str_cmp_good : cmp_good str_cmp.
Proof.
  constructor.
  - apply str_cmp_eq.
  - intros a b. apply str_cmp_antisym.
  - intros a b d. apply str_cmp_trans.
Qed.

Lemma N_cmp_good : cmp_good N.compare.
Proof.
  constructor.
  - apply N.compare_eq_iff.
  - intros a b. apply N.compare_antisym.
  - intros a b d. rewrite !N.compare_lt_iff. lia.
Qed.

Lemma opt_str_cmp_good : cmp_good opt_str_cmp.
Proof.
  destruct str_cmp_good as [E A T]. constructor.
  - intros [a|] [b|]; cbn [opt_str_cmp]; try (split; congruence).
    rewrite E. split; congruence.
  - intros [a|] [b|]; cbn [opt_str_cmp CompOpp]; try reflexivity. apply A.
  - intros [a|] [b|] [d|]; cbn [opt_str_cmp]; try congruence. apply T.
Qed.

Lemma cmp_refl {K} (cmp : K -> K -> comparison) (G : cmp_good cmp) a : cmp a a = Eq.
Proof. apply (cg_eq _ G). reflexivity. Qed.

Lemma names_cmp_good : cmp_good names_cmp.
Proof.
  pose proof opt_str_cmp_good as G. constructor.
  - induction a as [|x a IH]; intros [|y b]; cbn [names_cmp]; try (split; congruence).
    destruct (opt_str_cmp x y) eqn:E.
    + apply (cg_eq _ G) in E. subst. rewrite IH. split; congruence.
    + split; [discriminate|]. intros [= -> _]. rewrite (cmp_refl _ G) in E. discriminate.
    + split; [discriminate|]. intros [= -> _]. rewrite (cmp_refl _ G) in E. discriminate.
  - induction a as [|x a IH]; intros [|y b]; cbn [names_cmp CompOpp]; try reflexivity.
    rewrite (cg_anti _ G x y). destruct (opt_str_cmp x y); cbn [CompOpp]; auto.
  - induction a as [|x a IH]; intros [|y b] [|z d]; cbn [names_cmp]; try congruence.
    destruct (opt_str_cmp x y) eqn:E1; destruct (opt_str_cmp y z) eqn:E2; try congruence.
    + apply (cg_eq _ G) in E1, E2. subst. rewrite (cmp_refl _ G). apply IH.
    + apply (cg_eq _ G) in E1. subst. rewrite E2. reflexivity.
    + apply (cg_eq _ G) in E2. subst. rewrite E1. reflexivity.
    + rewrite (cg_lt _ G _ _ _ E1 E2). reflexivity.
Qed.

Definition pair_cmp {K1 K2} (c1 : K1 -> K1 -> comparison) (c2 : K2 -> K2 -> comparison)
  (a b : K1 * K2) : comparison := lex (c1 (fst a) (fst b)) (c2 (snd a) (snd b)).

Lemma pair_cmp_good {K1 K2} (c1 : K1 -> K1 -> comparison) (c2 : K2 -> K2 -> comparison) :
  cmp_good c1 -> cmp_good c2 -> cmp_good (pair_cmp c1 c2).
Proof.
  intros G1 G2. constructor.
  - intros [a1 a2] [b1 b2]. unfold pair_cmp, lex. cbn [fst snd].
    destruct (c1 a1 b1) eqn:E.
    + apply (cg_eq _ G1) in E. subst. rewrite (cg_eq _ G2). split; congruence.
    + split; [discriminate|]. intros [= -> _]. rewrite (cmp_refl _ G1) in E. discriminate.
    + split; [discriminate|]. intros [= -> _]. rewrite (cmp_refl _ G1) in E. discriminate.
  - intros [a1 a2] [b1 b2]. unfold pair_cmp, lex. cbn [fst snd].
    rewrite (cg_anti _ G1 a1 b1). destruct (c1 a1 b1); cbn [CompOpp]; auto. apply (cg_anti _ G2).
  - intros [a1 a2] [b1 b2] [d1 d2]. unfold pair_cmp, lex. cbn [fst snd].
    destruct (c1 a1 b1) eqn:E1; destruct (c1 b1 d1) eqn:E2; try congruence.
    + apply (cg_eq _ G1) in E1, E2. subst. rewrite (cmp_refl _ G1). apply (cg_lt _ G2).
    + apply (cg_eq _ G1) in E1. subst. rewrite E2. reflexivity.
    + apply (cg_eq _ G1) in E2. subst. rewrite E1. reflexivity.
    + rewrite (cg_lt _ G1 _ _ _ E1 E2). reflexivity.
Qed.

(* the order on nodes induced by a comparison of their infos *)
Definition le_by {A K} (info : A -> K) (cmp : K -> K -> comparison) (a b : A) : bool :=
  is_le (cmp (info a) (info b)).

Lemma le_by_total {A K} (info : A -> K) cmp (G : cmp_good cmp) P : total_on (le_by info cmp) P.
Proof.
  intros a b _ _. unfold le_by. rewrite (cg_anti _ G (info a) (info b)).
  destruct (cmp (info a) (info b)); cbn; auto.
Qed.

Lemma le_by_trans {A K} (info : A -> K) cmp (G : cmp_good cmp) P : trans_on (le_by info cmp) P.
Proof.
  intros a b c _ _ _. unfold le_by.
  destruct (cmp (info a) (info b)) eqn:E1; destruct (cmp (info b) (info c)) eqn:E2; cbn [is_le]; try discriminate; intros _ _.
  - apply (cg_eq _ G) in E1, E2. rewrite E1, E2, (cmp_refl _ G). reflexivity.
  - apply (cg_eq _ G) in E1. rewrite E1, E2. reflexivity.
  - apply (cg_eq _ G) in E2. rewrite <- E2, E1. reflexivity.
  - rewrite (cg_lt _ G _ _ _ E1 E2). reflexivity.
Qed.

Lemma le_by_antisym {A K} (info : A -> K) cmp (G : cmp_good cmp) (P : A -> Prop) :
  (forall a b, P a -> P b -> info a = info b -> a = b) -> antisym_on (le_by info cmp) P.
Proof.
  intros Hinj a b Pa Pb. unfold le_by. rewrite (cg_anti _ G (info a) (info b)).
  destruct (cmp (info a) (info b)) eqn:E; cbn [CompOpp is_le]; try discriminate.
  intros _ _. apply Hinj; auto. apply (cg_eq _ G). exact E.
Qed.

(* the four orders of [write] in this form *)
Definition class_info (c : class) := c_names c.
Definition field_info (f : field) := (f_desc f, f_names f).
Definition meth_info (m : meth) := (m_desc m, m_names m).
Definition param_info (p : param) := (p_index p, p_names p).

Lemma class_le_by : class_le = le_by class_info names_cmp. Proof. reflexivity. Qed.
Lemma field_le_by : field_le = le_by field_info (pair_cmp str_cmp names_cmp). Proof. reflexivity. Qed.
Lemma meth_le_by : meth_le = le_by meth_info (pair_cmp str_cmp names_cmp). Proof. reflexivity. Qed.
Lemma param_le_by : param_le = le_by param_info (pair_cmp N.compare names_cmp). Proof. reflexivity. Qed.

Definition desc_names_good := pair_cmp_good _ _ str_cmp_good names_cmp_good.
Definition index_names_good := pair_cmp_good _ _ N_cmp_good names_cmp_good.

Lemma isort_le_by_sorted {A K} (info : A -> K) cmp (G : cmp_good cmp) l :
  Sorted (lebP (le_by info cmp)) (isort (le_by info cmp) l).
Proof.
  apply isort_sorted with (P := fun _ => True).
  - apply le_by_total. exact G.
  - apply Forall_forall. auto.
Qed.

Lemma isort_le_by_idem {A K} (info : A -> K) cmp (G : cmp_good cmp) l :
  isort (le_by info cmp) (isort (le_by info cmp) l) = isort (le_by info cmp) l.
Proof. apply isort_id_sorted. apply isort_le_by_sorted. exact G. Qed.

(* ------------------------------------------------------------------------------------------ *)
(* sorting commutes with maps that keep the order; permutation-invariant predicates            *)

Lemma insert_map {A B} (f : A -> B) (leA : A -> A -> bool) (leB : B -> B -> bool)
  (H : forall a b, leB (f a) (f b) = leA a b) x l :
  insert leB (f x) (map f l) = map f (insert leA x l).
Proof.
  induction l as [|y l IH]; [reflexivity|].
  cbn [map insert]. rewrite H. destruct (leA x y); [reflexivity|]. cbn [map]. rewrite IH. reflexivity.
Qed.

Lemma isort_map {A B} (f : A -> B) (leA : A -> A -> bool) (leB : B -> B -> bool)
  (H : forall a b, leB (f a) (f b) = leA a b) l :
  isort leB (map f l) = map f (isort leA l).
Proof.
  induction l as [|x l IH]; [reflexivity|].
  cbn [map isort]. rewrite IH. apply insert_map. exact H.
Qed.

Lemma forallb_perm {A} (p : A -> bool) l l' : Permutation l l' -> forallb p l = forallb p l'.
Proof.
  induction 1 as [|x l l' _ IH|x y l|l l' l'' _ IH1 _ IH2]; cbn [forallb].
  - reflexivity.
  - rewrite IH. reflexivity.
  - destruct (p x), (p y); reflexivity.
  - congruence.
Qed.

Lemma forallb_isort {A} (p : A -> bool) le l : forallb p (isort le l) = forallb p l.
Proof. apply forallb_perm, isort_perm. Qed.

Lemma nodupb_perm_map {A K} (eqb : K -> K -> bool) (Heq : forall a b, eqb a b = true <-> a = b)
  (key : A -> K) l l' :
  Permutation l l' -> nodupb eqb (map key l) = true -> nodupb eqb (map key l') = true.
Proof.
  intros Hp H. apply (nodupb_NoDup eqb Heq). apply (nodupb_NoDup eqb Heq) in H.
  eapply Permutation_NoDup; [|exact H]. apply Permutation_map. exact Hp.
Qed.

Lemma nodupb_isort_map {A K} (eqb : K -> K -> bool) (Heq : forall a b, eqb a b = true <-> a = b)
  (key : A -> K) le l :
  nodupb eqb (map key l) = true -> nodupb eqb (map key (isort le l)) = true.
Proof. apply nodupb_perm_map; [exact Heq|]. symmetry. apply isort_perm. Qed.

Lemma forallb_map {A B} (p : B -> bool) (g : A -> B) l :
  forallb p (map g l) = forallb (fun x => p (g x)) l.
Proof. induction l as [|x l IH]; [reflexivity|]. cbn [map forallb]. rewrite IH. reflexivity. Qed.

Lemma forallb_ext {A} (p q : A -> bool) l : (forall x, p x = q x) -> forallb p l = forallb q l.
Proof. intros H. induction l as [|x l IH]; [reflexivity|]. cbn [forallb]. rewrite H, IH. reflexivity. Qed.

Lemma flat_map_map {A B C} (f : B -> list C) (g : A -> B) l :
  flat_map f (map g l) = flat_map (fun x => f (g x)) l.
Proof. induction l as [|x l IH]; [reflexivity|]. cbn [map flat_map]. rewrite IH. reflexivity. Qed.

(* ------------------------------------------------------------------------------------------ *)
(* [write] factors through [canon]                                                             *)

Lemma meth_lines_canon m : meth_lines m = meth_lines_o (canon_meth m).
Proof. reflexivity. Qed.

Lemma class_lines_canon c : class_lines c = class_lines_o (canon_class c).
Proof.
  unfold class_lines, class_lines_o, canon_class. cbn [c_names c_doc c_fields c_methods].
  f_equal. f_equal. f_equal.
  rewrite (isort_map canon_meth meth_le) by reflexivity.
  rewrite flat_map_map. apply flat_map_ext. intros m. apply meth_lines_canon.
Qed.

Lemma write_lines_canon M : write_lines M = write_lines_o (canon M).
Proof.
  unfold write_lines, write_lines_o, canon. cbn [ms_ns ms_doc ms_classes].
  f_equal. f_equal.
  rewrite (isort_map canon_class class_le) by reflexivity.
  rewrite flat_map_map. apply flat_map_ext. intros c. apply class_lines_canon.
Qed.

Lemma meth_scalar_canon m : meth_scalar (canon_meth m) = meth_scalar m.
Proof.
  unfold meth_scalar, canon_meth. cbn [m_names m_params]. rewrite forallb_isort. reflexivity.
Qed.

Lemma class_scalar_canon c : class_scalar (canon_class c) = class_scalar c.
Proof.
  unfold class_scalar, canon_class. cbn [c_names c_fields c_methods].
  rewrite !forallb_isort. f_equal.
  rewrite forallb_map. apply forallb_ext. intros m. apply meth_scalar_canon.
Qed.

Lemma all_names_scalar_canon M : all_names_scalar (canon M) = all_names_scalar M.
Proof.
  unfold all_names_scalar, canon. cbn [ms_classes]. rewrite forallb_isort.
  rewrite forallb_map. apply forallb_ext. intros c. apply class_scalar_canon.
Qed.

(* the writer's check (check_fields) does not depend on the order either *)
Lemma meth_checked_canon m : meth_checked (canon_meth m) = meth_checked m.
Proof.
  unfold meth_checked, canon_meth. cbn [m_desc m_names m_params]. rewrite forallb_isort. reflexivity.
Qed.

Lemma class_checked_canon c : class_checked (canon_class c) = class_checked c.
Proof.
  unfold class_checked, canon_class. cbn [c_names c_fields c_methods].
  rewrite !forallb_isort. f_equal.
  rewrite forallb_map. apply forallb_ext. intros m. apply meth_checked_canon.
Qed.

Lemma fields_checked_canon M : fields_checked (canon M) = fields_checked M.
Proof.
  unfold fields_checked, canon. cbn [ms_ns ms_classes]. rewrite forallb_isort. f_equal.
  rewrite forallb_map. apply forallb_ext. intros c. apply class_checked_canon.
Qed.

Lemma writable_canon M : writable (canon M) = writable M.
Proof. unfold writable. rewrite fields_checked_canon, all_names_scalar_canon. reflexivity. Qed.

(* the writer without the sorting *)
Definition write_o (M : mappings) : res text :=
  if writable M then Ok (unlines (write_lines_o M)) else Err.

Theorem write_factor M : write M = write_o (canon M).
Proof.
  unfold write, write_o. rewrite writable_canon, write_lines_canon. reflexivity.
Qed.

(* ------------------------------------------------------------------------------------------ *)
(* [canon] is idempotent                                                                       *)

Lemma canon_meth_idem m : canon_meth (canon_meth m) = canon_meth m.
Proof.
  unfold canon_meth. cbn [m_desc m_names m_doc m_params]. f_equal.
  change (fun a b => is_le (param_cmp a b)) with param_le. rewrite param_le_by.
  apply isort_le_by_idem. exact index_names_good.
Qed.

Lemma map_id_in {A} (f : A -> A) l : (forall x, In x l -> f x = x) -> map f l = l.
Proof.
  intros H. induction l as [|x l IH]; [reflexivity|].
  cbn [map]. rewrite H by (left; reflexivity). rewrite IH; [reflexivity|].
  intros y Hy. apply H. right. exact Hy.
Qed.

Lemma canon_class_idem c : canon_class (canon_class c) = canon_class c.
Proof.
  unfold canon_class. cbn [c_names c_doc c_fields c_methods]. f_equal.
  - change (fun a b => is_le (field_cmp a b)) with field_le. rewrite field_le_by.
    apply isort_le_by_idem. exact desc_names_good.
  - change (fun a b => is_le (meth_cmp a b)) with meth_le.
    rewrite map_id_in.
    + rewrite meth_le_by. apply isort_le_by_idem. exact desc_names_good.
    + intros m Hm. apply isort_in in Hm. apply in_map_iff in Hm. destruct Hm as (m0 & <- & _).
      apply canon_meth_idem.
Qed.

Theorem canon_idem M : canon (canon M) = canon M.
Proof.
  unfold canon. cbn [ms_ns ms_doc ms_classes]. f_equal.
  change (fun a b => is_le (class_cmp a b)) with class_le.
  rewrite map_id_in.
  - rewrite class_le_by. apply isort_le_by_idem. exact names_cmp_good.
  - intros c Hc. apply isort_in in Hc. apply in_map_iff in Hc. destruct Hc as (c0 & <- & _).
    apply canon_class_idem.
Qed.

(* ------------------------------------------------------------------------------------------ *)
(* [canon] keeps the hypotheses                                                                *)

Lemma wf_meth_canon n m : wf_meth n m = true -> wf_meth n (canon_meth m) = true.
Proof.
  unfold wf_meth, canon_meth. cbn [m_names m_params].
  intros H. apply andb_true_iff in H. destruct H as [H Hnd].
  apply andb_true_iff in H. destruct H as [H Hps]. rewrite forallb_isort, Hps.
  change (meth_key (mkMeth (m_desc m) (m_names m) (m_doc m) (isort (fun a b => is_le (param_cmp a b)) (m_params m))))
    with (meth_key m).
  rewrite H. cbn [andb]. apply (nodupb_isort_map N.eqb N.eqb_eq). exact Hnd.
Qed.

Lemma wf_class_canon n c : wf_class n c = true -> wf_class n (canon_class c) = true.
Proof.
  unfold wf_class, canon_class. cbn [c_names c_fields c_methods].
  intros H. apply andb_true_iff in H. destruct H as [H Hndm].
  apply andb_true_iff in H. destruct H as [H Hms].
  apply andb_true_iff in H. destruct H as [H Hndf].
  apply andb_true_iff in H. destruct H as [H Hfs].
  change (class_key (mkClass (c_names c) (c_doc c) (isort (fun a b => is_le (field_cmp a b)) (c_fields c))
            (isort (fun a b => is_le (meth_cmp a b)) (map canon_meth (c_methods c)))))
    with (class_key c).
  rewrite H. cbn [andb]. rewrite forallb_isort, Hfs. cbn [andb].
  rewrite (nodupb_isort_map _ okey2_eqb_eq _ _ _ Hndf). cbn [andb].
  rewrite forallb_isort, forallb_map.
  replace (forallb (fun x => wf_meth n (canon_meth x)) (c_methods c)) with true.
  2:{ symmetry. rewrite forallb_forall in *. intros m Hm. apply wf_meth_canon, Hms, Hm. }
  cbn [andb]. apply (nodupb_isort_map _ okey2_eqb_eq).
  rewrite map_map. exact Hndm.
Qed.

Theorem wf_canon M : wf M = true -> wf (canon M) = true.
Proof.
  unfold wf, canon. cbn [ms_ns ms_classes]. cbv zeta.
  intros H. apply andb_true_iff in H. destruct H as [H Hnd].
  apply andb_true_iff in H. destruct H as [H Hcs]. rewrite H. cbn [andb].
  rewrite forallb_isort, forallb_map.
  replace (forallb (fun x => wf_class (length (ms_ns M)) (canon_class x)) (ms_classes M)) with true.
  2:{ symmetry. rewrite forallb_forall in *. intros c Hc. apply wf_class_canon, Hcs, Hc. }
  cbn [andb]. apply (nodupb_isort_map _ okey_str_eqb_eq).
  rewrite map_map. exact Hnd.
Qed.

Lemma textual_meth_canon m : textual_meth (canon_meth m) = textual_meth m.
Proof. unfold textual_meth, canon_meth. cbn [m_desc m_names m_params]. rewrite forallb_isort. reflexivity. Qed.

Lemma textual_class_canon c : textual_class (canon_class c) = textual_class c.
Proof.
  unfold textual_class, canon_class. cbn [c_names c_fields c_methods].
  rewrite !forallb_isort, forallb_map. f_equal. apply forallb_ext. intros m. apply textual_meth_canon.
Qed.

Theorem textual_canon M : textual (canon M) = textual M.
Proof.
  unfold textual, canon. cbn [ms_ns ms_classes]. rewrite forallb_isort, forallb_map. f_equal.
  apply forallb_ext. intros c. apply textual_class_canon.
Qed.

(* ------------------------------------------------------------------------------------------ *)
(* the theorems                                                                                *)

Lemma names_textual_scalar valid l : names_textual valid l = true -> names_scalar l = true.
Proof.
  unfold names_textual, names_scalar. rewrite !forallb_forall. intros H o Ho. specialize (H o Ho).
  destruct o as [s|]; [|reflexivity]. cbn [cell_str]. unfold name_ok in H.
  apply andb_true_iff in H. destruct H as [H _]. apply andb_true_iff in H. tauto.
Qed.

Lemma textual_scalar M : textual M = true -> all_names_scalar M = true.
Proof.
  unfold textual, all_names_scalar. intros H. apply andb_true_iff in H. destruct H as [_ H].
  rewrite forallb_forall in *. intros c Hc. specialize (H c Hc).
  unfold textual_class in H. apply andb_true_iff in H. destruct H as [H Hms].
  apply andb_true_iff in H. destruct H as [Hn Hfs].
  unfold class_scalar. rewrite (names_textual_scalar _ _ Hn). cbn [andb].
  apply andb_true_iff. split.
  - rewrite forallb_forall in *. intros f Hf. specialize (Hfs f Hf). unfold textual_field in Hfs.
    apply andb_true_iff in Hfs. destruct Hfs as [_ Hfs]. apply (names_textual_scalar _ _ Hfs).
  - rewrite forallb_forall in *. intros m Hm. specialize (Hms m Hm). unfold textual_meth in Hms.
    apply andb_true_iff in Hms. destruct Hms as [Hms Hps]. apply andb_true_iff in Hms. destruct Hms as [_ Hmn].
    unfold meth_scalar. rewrite (names_textual_scalar _ _ Hmn). cbn [andb].
    rewrite forallb_forall in *. intros p Hp. specialize (Hps p Hp). unfold textual_param in Hps.
    apply andb_true_iff in Hps. destruct Hps as [_ Hps]. apply (names_textual_scalar _ _ Hps).
Qed.

Lemma names_textual_checked valid l : names_textual valid l = true -> names_checked l = true.
Proof.
  unfold names_textual, names_checked. rewrite !forallb_forall. intros H o Ho. specialize (H o Ho).
  destruct o as [s|]; [|reflexivity]. cbn [cell_str]. unfold name_ok in H.
  apply andb_true_iff in H. destruct H as [H _]. apply andb_true_iff in H. tauto.
Qed.

Lemma textual_checked M : textual M = true -> fields_checked M = true.
Proof.
  unfold textual, fields_checked. intros H. apply andb_true_iff in H. destruct H as [Hns H].
  rewrite Hns. cbn [andb].
  rewrite forallb_forall in *. intros c Hc. specialize (H c Hc).
  unfold textual_class in H. apply andb_true_iff in H. destruct H as [H Hms].
  apply andb_true_iff in H. destruct H as [Hn Hfs].
  unfold class_checked. rewrite (names_textual_checked _ _ Hn). cbn [andb].
  apply andb_true_iff. split.
  - rewrite forallb_forall in *. intros f Hf. specialize (Hfs f Hf). unfold textual_field in Hfs.
    apply andb_true_iff in Hfs. destruct Hfs as [Hd Hfs]. unfold field_checked.
    rewrite Hd, (names_textual_checked _ _ Hfs). reflexivity.
  - rewrite forallb_forall in *. intros m Hm. specialize (Hms m Hm). unfold textual_meth in Hms.
    apply andb_true_iff in Hms. destruct Hms as [Hms Hps]. apply andb_true_iff in Hms. destruct Hms as [Hd Hmn].
    unfold meth_checked. rewrite Hd, (names_textual_checked _ _ Hmn). cbn [andb].
    rewrite forallb_forall in *. intros p Hp. specialize (Hps p Hp). unfold textual_param in Hps.
    apply andb_true_iff in Hps. destruct Hps as [_ Hps]. apply (names_textual_checked _ _ Hps).
Qed.

Lemma textual_writable M : textual M = true -> writable M = true.
Proof. intros H. unfold writable. rewrite (textual_checked M H), (textual_scalar M H). reflexivity. Qed.

(* Th 1: reading what was written gives the canonical representative of the mapping set *)
Theorem read_write M :
  wf M = true -> textual M = true ->
  exists t, write M = Ok t /\ read (length (ms_ns M)) t = Ok (canon M).
Proof.
  intros Hwf Htx. exists (unlines (write_lines_o (canon M))). split.
  - rewrite write_factor. unfold write_o.
    rewrite (textual_writable (canon M)) by (rewrite textual_canon; exact Htx). reflexivity.
  - change (length (ms_ns M)) with (length (ms_ns (canon M))).
    apply read_write_ordered; [apply wf_canon; exact Hwf|rewrite textual_canon; exact Htx].
Qed.

(* the canonical representative is the same content: a permutation at every level *)
Theorem write_total M : textual M = true -> exists t, write M = Ok t.
Proof.
  intros Htx. unfold write. rewrite (textual_writable M Htx). eexists. reflexivity.
Qed.

(* Th 3: writing is a fixed point of read-then-write *)
Theorem write_canon_same M : write (canon M) = write M.
Proof. rewrite (write_factor (canon M)), canon_idem, <- write_factor. reflexivity. Qed.

Theorem write_read_write M t :
  wf M = true -> textual M = true -> write M = Ok t ->
  exists M', read (length (ms_ns M)) t = Ok M' /\ write M' = Ok t.
Proof.
  intros Hwf Htx Hw. destruct (read_write M Hwf Htx) as (t' & Hw' & Hr).
  rewrite Hw in Hw'. injection Hw' as <-. exists (canon M). split; [exact Hr|].
  rewrite write_canon_same. exact Hw.
Qed.
