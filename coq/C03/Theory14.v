(* C03 round 5 — the round trip without the hypothesis [textual].

   [textual M] was a hypothesis on the STRINGS of a mapping set (no TAB / LF / final CR in a name,
   descriptor or namespace; no unpaired surrogate in a name or descriptor) mixed with what the TYPES of a
   quill tree guarantee anyway (every name passed its check_valid, indices are usize).  After the two
   repairs of this round the writer itself checks the strings (check_fields), so:

     textual M  =  typed M  &&  writable M            (textual_split)
     write M = Ok _   <->  writable M = true           (write_ok_iff)

   and the round trip holds for EVERY well-formed typed set that is written at all; every other set is
   refused (Err) — nothing is ever written that does not read back, and two sets are never written as the
   same text unless they are the same content. *)
From FB Require Import C03.Model C03.Theory1 C03.Theory5 C03.Theory8 C03.SrcGen.
From Coq Require Import Lia.

Lemma forallb_and {A} (p q : A -> bool) l :
  forallb (fun x => p x && q x) l = forallb p l && forallb q l.
Proof.
  induction l as [|x l IH]; [reflexivity|]. cbn [forallb]. rewrite IH.
  destruct (p x), (q x), (forallb p l), (forallb q l); reflexivity.
Qed.

(* ------------------------------------------------------------------------------------------ *)
(* textual = typed && writable, level by level                                                  *)

Definition names_wr (l : names) : bool := names_checked l && names_scalar l.

Lemma names_textual_split valid l : names_textual valid l = names_typed valid l && names_wr l.
Proof.
  unfold names_textual, names_typed, names_wr, names_checked, names_scalar. rewrite <- !forallb_and.
  apply forallb_ext. intros [s|]; [|reflexivity]. cbn [cell_str]. unfold name_ok.
  destruct (cell_ok s), (scalar_only s), (valid s); reflexivity.
Qed.

Definition param_wr (p : param) : bool := names_wr (p_names p).

Lemma textual_param_split p : textual_param p = typed_param p && param_wr p.
Proof.
  unfold textual_param, typed_param, param_wr. rewrite names_textual_split.
  destruct (N.ltb (p_index p) usize_max1), (names_typed is_valid_unqualified_name (p_names p)), (names_wr (p_names p)); reflexivity.
Qed.

Definition field_wr (f : field) : bool := field_checked f && names_scalar (f_names f).

Lemma textual_field_split f : textual_field f = typed_field f && field_wr f.
Proof.
  unfold textual_field, typed_field, field_wr, field_checked. rewrite names_textual_split. unfold names_wr.
  destruct (desc_ok (f_desc f)), (names_typed is_valid_unqualified_name (f_names f)), (names_checked (f_names f)), (names_scalar (f_names f)); reflexivity.
Qed.

Definition meth_wr (m : meth) : bool := meth_checked m && meth_scalar m.

Lemma textual_meth_split m : textual_meth m = typed_meth m && meth_wr m.
Proof.
  unfold textual_meth, typed_meth, meth_wr, meth_checked, meth_scalar.
  rewrite names_textual_split. unfold names_wr.
  rewrite (forallb_ext textual_param (fun p => typed_param p && param_wr p) (m_params m) textual_param_split).
  rewrite forallb_and. unfold param_wr, names_wr. rewrite forallb_and.
  destruct (desc_ok (m_desc m)), (names_typed is_valid_method_name (m_names m)), (names_checked (m_names m)),
    (names_scalar (m_names m)), (forallb typed_param (m_params m)),
    (forallb (fun x => names_checked (p_names x)) (m_params m)), (forallb (fun x => names_scalar (p_names x)) (m_params m)); reflexivity.
Qed.

Definition class_wr (c : class) : bool := class_checked c && class_scalar c.

Lemma textual_class_split c : textual_class c = typed_class c && class_wr c.
Proof.
  unfold textual_class, typed_class, class_wr, class_checked, class_scalar.
  rewrite names_textual_split. unfold names_wr.
  rewrite (forallb_ext textual_field (fun f => typed_field f && field_wr f) (c_fields c) textual_field_split).
  rewrite (forallb_ext textual_meth (fun m => typed_meth m && meth_wr m) (c_methods c) textual_meth_split).
  rewrite !forallb_and. unfold field_wr, meth_wr. rewrite !forallb_and.
  destruct (names_typed is_valid_obj_class_name (c_names c)), (names_checked (c_names c)), (names_scalar (c_names c)),
    (forallb typed_field (c_fields c)), (forallb field_checked (c_fields c)), (forallb (fun x => names_scalar (f_names x)) (c_fields c)),
    (forallb typed_meth (c_methods c)), (forallb meth_checked (c_methods c)), (forallb meth_scalar (c_methods c)); reflexivity.
Qed.

Theorem textual_split M : textual M = typed M && writable M.
Proof.
  unfold textual, typed, writable, fields_checked, all_names_scalar.
  rewrite (forallb_ext textual_class (fun c => typed_class c && class_wr c) (ms_classes M) textual_class_split).
  rewrite forallb_and. unfold class_wr. rewrite forallb_and.
  destruct (forallb cell_ok (ms_ns M)), (forallb typed_class (ms_classes M)), (forallb class_checked (ms_classes M)),
    (forallb class_scalar (ms_classes M)); reflexivity.
Qed.

(* ------------------------------------------------------------------------------------------ *)
(* the writer writes exactly the writable sets                                                  *)

Theorem write_ok_iff M t : write M = Ok t <-> writable M = true /\ t = unlines (write_lines M).
Proof.
  unfold write. destruct (writable M); split.
  - intros H. injection H as <-. split; reflexivity.
  - intros [_ ->]. reflexivity.
  - discriminate.
  - intros [H _]. discriminate.
Qed.

Theorem write_refuses M : writable M = false -> write M = Err.
Proof. intros H. unfold write. rewrite H. reflexivity. Qed.

Theorem write_err_iff M : write M = Err <-> writable M = false.
Proof. unfold write. destruct (writable M); split; congruence. Qed.

(* Th 1 without [textual]: whatever a well-formed typed set is, IF it is written, the text reads back to
   its canonical representative *)
Theorem read_write_typed M t :
  wf M = true -> typed M = true -> write M = Ok t -> read (length (ms_ns M)) t = Ok (canon M).
Proof.
  intros Hwf Hty Hw. pose proof Hw as Hw0. apply write_ok_iff in Hw0. destruct Hw0 as [Hwr _].
  assert (Htx : textual M = true) by (rewrite textual_split, Hty, Hwr; reflexivity).
  destruct (read_write M Hwf Htx) as (t' & Hw' & Hr). rewrite Hw in Hw'. injection Hw' as <-. exact Hr.
Qed.

(* ... so every well-formed typed set is either refused or survives the round trip *)
Theorem refused_or_round_trip M :
  wf M = true -> typed M = true ->
  (write M = Err /\ writable M = false)
  \/ (exists t, write M = Ok t /\ read (length (ms_ns M)) t = Ok (canon M)).
Proof.
  intros Hwf Hty. destruct (write M) as [t|] eqn:Hw.
  - right. exists t. split; [reflexivity|]. apply read_write_typed; assumption.
  - left. split; [reflexivity|]. apply write_err_iff. exact Hw.
Qed.

(* the fixed point, likewise *)
Theorem write_read_write_typed M t :
  wf M = true -> typed M = true -> write M = Ok t ->
  exists M', read (length (ms_ns M)) t = Ok M' /\ write M' = Ok t.
Proof.
  intros Hwf Hty Hw. exists (canon M). split; [apply read_write_typed; assumption|].
  rewrite write_canon_same. exact Hw.
Qed.

(* no two different contents are written as the same text *)
Theorem write_injective M M' t :
  wf M = true -> typed M = true -> wf M' = true -> typed M' = true ->
  write M = Ok t -> write M' = Ok t -> canon M = canon M'.
Proof.
  intros Hwf Hty Hwf' Hty' Hw Hw'.
  pose proof (read_write_typed M t Hwf Hty Hw) as Hr.
  pose proof (read_write_typed M' t Hwf' Hty' Hw') as Hr'.
  destruct (read_n_unique _ _ _ _ _ Hr Hr') as [_ E]. exact E.
Qed.

(* ------------------------------------------------------------------------------------------ *)
(* which sets are refused: some namespace, name or descriptor that the line format cannot carry *)

Definition present (l : names) : list str := flat_map (fun o => match o with Some s => [s] | None => [] end) l.
Definition param_names (p : param) : list str := present (p_names p).
Definition meth_names (m : meth) : list str := present (m_names m) ++ flat_map param_names (m_params m).
Definition class_name_cells (c : class) : list str :=
  present (c_names c) ++ flat_map (fun f => present (f_names f)) (c_fields c) ++ flat_map meth_names (c_methods c).
(* every name of the set, in every namespace *)
Definition name_cells (M : mappings) : list str := flat_map class_name_cells (ms_classes M).
Definition class_descs (c : class) : list str := map f_desc (c_fields c) ++ map m_desc (c_methods c).
(* every descriptor of the set *)
Definition desc_cells (M : mappings) : list str := flat_map class_descs (ms_classes M).

Lemma forallb_present (p : str -> bool) l : p [] = true ->
  forallb (fun o => p (cell_str o)) l = forallb p (present l).
Proof.
  intros Hnil. induction l as [|o l IH]; [reflexivity|]. unfold present. cbn [forallb flat_map]. fold (present l).
  rewrite forallb_app, IH. destruct o as [s|]; cbn [cell_str forallb]; [rewrite andb_true_r|rewrite Hnil]; reflexivity.
Qed.

Lemma forallb_flat_map_eq {A B} (p : B -> bool) (g : A -> list B) l :
  forallb p (flat_map g l) = forallb (fun x => forallb p (g x)) l.
Proof. induction l as [|x l IH]; [reflexivity|]. cbn [flat_map forallb]. rewrite forallb_app, IH. reflexivity. Qed.

Lemma names_checked_present l : names_checked l = forallb cell_ok (present l).
Proof. apply (forallb_present cell_ok). reflexivity. Qed.
Lemma names_scalar_present l : names_scalar l = forallb scalar_only (present l).
Proof. apply (forallb_present scalar_only). reflexivity. Qed.

Lemma meth_scalar_cells m : meth_scalar m = forallb scalar_only (meth_names m).
Proof.
  unfold meth_scalar, meth_names. rewrite forallb_app, forallb_flat_map_eq, names_scalar_present. f_equal.
  apply forallb_ext. intros p. apply names_scalar_present.
Qed.

Lemma class_scalar_cells c : class_scalar c = forallb scalar_only (class_name_cells c).
Proof.
  unfold class_scalar, class_name_cells. rewrite !forallb_app, !forallb_flat_map_eq, names_scalar_present.
  rewrite <- andb_assoc. f_equal. f_equal.
  - apply forallb_ext. intros f. apply names_scalar_present.
  - apply forallb_ext. intros m. apply meth_scalar_cells.
Qed.

Theorem all_names_scalar_cells M : all_names_scalar M = forallb scalar_only (name_cells M).
Proof.
  unfold all_names_scalar, name_cells. rewrite forallb_flat_map_eq. apply forallb_ext. intros c. apply class_scalar_cells.
Qed.

Lemma meth_checked_cells m :
  meth_checked m = desc_ok (m_desc m) && forallb cell_ok (meth_names m).
Proof.
  unfold meth_checked, meth_names. rewrite forallb_app, forallb_flat_map_eq, names_checked_present.
  rewrite <- andb_assoc. f_equal. f_equal. apply forallb_ext. intros p. apply names_checked_present.
Qed.

Lemma forallb_map' {A B} (p : B -> bool) (g : A -> B) l : forallb p (map g l) = forallb (fun x => p (g x)) l.
Proof. induction l as [|x l IH]; [reflexivity|]. cbn [map forallb]. rewrite IH. reflexivity. Qed.

Lemma class_checked_cells c :
  class_checked c = forallb cell_ok (class_name_cells c) && forallb desc_ok (class_descs c).
Proof.
  unfold class_checked, class_name_cells, class_descs.
  rewrite !forallb_app, !forallb_flat_map_eq, !forallb_map', names_checked_present.
  rewrite (forallb_ext field_checked (fun f => desc_ok (f_desc f) && forallb cell_ok (present (f_names f))) (c_fields c))
    by (intros f; unfold field_checked; rewrite names_checked_present; reflexivity).
  rewrite (forallb_ext meth_checked (fun m => desc_ok (m_desc m) && forallb cell_ok (meth_names m)) (c_methods c) meth_checked_cells).
  rewrite !forallb_and.
  destruct (forallb cell_ok (present (c_names c))), (forallb (fun x => desc_ok (f_desc x)) (c_fields c)),
    (forallb (fun x => forallb cell_ok (present (f_names x))) (c_fields c)), (forallb (fun x => desc_ok (m_desc x)) (c_methods c)),
    (forallb (fun x => forallb cell_ok (meth_names x)) (c_methods c)); reflexivity.
Qed.

Theorem fields_checked_cells M :
  fields_checked M = forallb cell_ok (ms_ns M) && forallb cell_ok (name_cells M) && forallb desc_ok (desc_cells M).
Proof.
  unfold fields_checked, name_cells, desc_cells. rewrite !forallb_flat_map_eq, <- andb_assoc. f_equal.
  rewrite <- forallb_and. apply forallb_ext. intros c. apply class_checked_cells.
Qed.

(* [writable] on the flat lists: every namespace, name and descriptor is a cell the line format can carry,
   and no name and no descriptor holds an unpaired surrogate *)
Theorem writable_cells M :
  writable M = forallb cell_ok (ms_ns M ++ name_cells M ++ desc_cells M)
               && forallb scalar_only (name_cells M ++ desc_cells M).
Proof.
  unfold writable. rewrite fields_checked_cells, all_names_scalar_cells, !forallb_app.
  unfold desc_ok. rewrite forallb_and.
  destruct (forallb cell_ok (ms_ns M)), (forallb cell_ok (name_cells M)), (forallb cell_ok (desc_cells M)),
    (forallb scalar_only (desc_cells M)), (forallb scalar_only (name_cells M)); reflexivity.
Qed.

(* what a cell the format cannot carry is *)
Lemma ends_cr_iff s : ends_cr s = true <-> exists s', s = s' ++ [cCR].
Proof.
  induction s as [|c s IH].
  - split; [discriminate|]. intros [[|? ?] E]; discriminate.
  - destruct s as [|d s].
    + cbn [ends_cr]. split.
      * intros E. apply N.eqb_eq in E. subst c. exists []. reflexivity.
      * intros [[|x [|y s']] E]; try discriminate. injection E as ->. reflexivity.
    + change (ends_cr (c :: d :: s)) with (ends_cr (d :: s)). rewrite IH. split.
      * intros [s' E]. exists (c :: s'). rewrite E. reflexivity.
      * intros [[|x s'] E]; [discriminate|]. injection E as -> E. exists s'. exact E.
Qed.

Theorem cell_ok_false_iff s :
  cell_ok s = false <-> In cTAB s \/ In cLF s \/ exists s', s = s' ++ [cCR].
Proof.
  unfold cell_ok. rewrite andb_false_iff, negb_false_iff, ends_cr_iff. split.
  - intros [H|H]; [|right; right; exact H].
    unfold no_tab_lf in H. induction s as [|c s IH]; [discriminate|].
    cbn [forallb] in H. apply andb_false_iff in H. destruct H as [H|H].
    + apply andb_false_iff in H. rewrite !negb_false_iff, !N.eqb_eq in H.
      destruct H as [->| ->]; [left|right; left]; left; reflexivity.
    + destruct (IH H) as [K|[K|(s' & K)]]; [left; right; exact K|right; left; right; exact K|].
      right. right. exists (c :: s'). rewrite K. reflexivity.
  - intros [H|[H|H]]; [left|left|right; exact H]; unfold no_tab_lf.
    + destruct (forallb _ s) eqn:E; [|reflexivity]. rewrite forallb_forall in E. specialize (E _ H).
      rewrite N.eqb_refl in E. discriminate.
    + destruct (forallb _ s) eqn:E; [|reflexivity]. rewrite forallb_forall in E. specialize (E _ H).
      rewrite N.eqb_refl, andb_false_r in E. discriminate.
Qed.

Lemma scalar_only_false_iff s : scalar_only s = false <-> exists c, In c s /\ is_scalar c = false.
Proof.
  unfold scalar_only. split.
  - induction s as [|c s IH]; [discriminate|]. cbn [forallb]. intros H. apply andb_false_iff in H. destruct H as [H|H].
    + exists c. split; [left; reflexivity|exact H].
    + destruct (IH H) as (x & Hx & Hs). exists x. split; [right; exact Hx|exact Hs].
  - intros (c & Hc & Hs). destruct (forallb is_scalar s) eqn:E; [|reflexivity].
    rewrite forallb_forall in E. rewrite (E _ Hc) in Hs. discriminate.
Qed.

(* the refusals, class by class of what [textual] used to exclude *)
Theorem write_refuses_separator M s :
  In s (ms_ns M ++ name_cells M ++ desc_cells M) ->
  (In cTAB s \/ In cLF s \/ exists s', s = s' ++ [cCR]) -> write M = Err.
Proof.
  intros Hin Hbad. apply write_refuses. rewrite writable_cells.
  destruct (forallb cell_ok (ms_ns M ++ name_cells M ++ desc_cells M)) eqn:E; [|reflexivity].
  rewrite forallb_forall in E. apply cell_ok_false_iff in Hbad. rewrite (E _ Hin) in Hbad. discriminate.
Qed.

Theorem write_refuses_surrogate M s c :
  In s (name_cells M ++ desc_cells M) -> In c s -> is_scalar c = false -> write M = Err.
Proof.
  intros Hin Hc Hs. apply write_refuses. rewrite writable_cells.
  destruct (forallb scalar_only (name_cells M ++ desc_cells M)) eqn:E; [|apply andb_false_r].
  rewrite forallb_forall in E. specialize (E _ Hin).
  assert (scalar_only s = false) by (apply scalar_only_false_iff; exists c; split; assumption). congruence.
Qed.

(* and nothing else is refused *)
Theorem write_refuses_only M : write M = Err ->
  (exists s, In s (ms_ns M ++ name_cells M ++ desc_cells M) /\ (In cTAB s \/ In cLF s \/ exists s', s = s' ++ [cCR]))
  \/ (exists s c, In s (name_cells M ++ desc_cells M) /\ In c s /\ is_scalar c = false).
Proof.
  intros H. apply write_err_iff in H. rewrite writable_cells in H. apply andb_false_iff in H. destruct H as [H|H].
  - left. assert (K : exists s, In s (ms_ns M ++ name_cells M ++ desc_cells M) /\ cell_ok s = false).
    { induction (ms_ns M ++ name_cells M ++ desc_cells M) as [|x l IH]; [discriminate|].
      cbn [forallb] in H. apply andb_false_iff in H. destruct H as [H|H].
      - exists x. split; [left; reflexivity|exact H].
      - destruct (IH H) as (s & Hs & Hb). exists s. split; [right; exact Hs|exact Hb]. }
    destruct K as (s & Hs & Hb). exists s. split; [exact Hs|]. apply cell_ok_false_iff. exact Hb.
  - right. assert (K : exists s, In s (name_cells M ++ desc_cells M) /\ scalar_only s = false).
    { induction (name_cells M ++ desc_cells M) as [|x l IH]; [discriminate|].
      cbn [forallb] in H. apply andb_false_iff in H. destruct H as [H|H].
      - exists x. split; [left; reflexivity|exact H].
      - destruct (IH H) as (s & Hs & Hb). exists s. split; [right; exact Hs|exact Hb]. }
    destruct K as (s & Hs & Hb). apply scalar_only_false_iff in Hb. destruct Hb as (c & Hc & Hsc).
    exists s, c. split; [exact Hs|]. split; assumption.
Qed.

(* ------------------------------------------------------------------------------------------ *)
(* the characters of check_field are those of the source (C03/SrcGen.v, regenerated every run)  *)

Fixpoint last_is (c : N) (s : str) : bool :=
  match s with
  | [] => false
  | [d] => N.eqb d c
  | _ :: s' => last_is c s'
  end.
Definition cell_ok_tbl (contains ends : list N) (s : str) : bool :=
  forallb (fun c => negb (existsb (N.eqb c) s)) contains && forallb (fun c => negb (last_is c s)) ends.

Lemma last_is_cr s : last_is cCR s = ends_cr s.
Proof. induction s as [|c [|d s] IH]; [reflexivity|reflexivity|]. exact IH. Qed.

Theorem check_field_from_source :
  (forall s, cell_ok s = cell_ok_tbl check_field_contains check_field_ends_with s)
  /\ check_desc_needs_str = true /\ write_checks_first = true.
Proof.
  split; [|split; reflexivity]. intros s. unfold cell_ok, cell_ok_tbl, check_field_contains, check_field_ends_with.
  cbn [forallb]. change 13 with cCR. rewrite last_is_cr, !andb_true_r. f_equal.
  unfold no_tab_lf. induction s as [|c s IH]; [reflexivity|].
  cbn [forallb existsb]. rewrite IH. change 9 with cTAB. change 10 with cLF.
  rewrite (N.eqb_sym cTAB c), (N.eqb_sym cLF c).
  destruct (N.eqb c cTAB), (N.eqb c cLF), (existsb (N.eqb cTAB) s), (existsb (N.eqb cLF) s); reflexivity.
Qed.

(* ------------------------------------------------------------------------------------------ *)
(* non-vacuity: sets outside [textual] that are typed and well-formed — each refused; and a set with a CR
   in the MIDDLE of a name, a NUL, a NEL and a backslash in names (inside) — written and read back *)

Definition ex_ns : list str := [[97]; [98]].
Definition ex_with (cname : str) (fdesc : str) (pname : str) : mappings :=
  mkMappings ex_ns None
    [ mkClass [Some cname; None] None
        [ mkField fdesc [Some [102]; Some [103]] None ]
        [ mkMeth [40; 41; 86] [Some [109]; None] None [ mkParam 0 [None; Some pname] None ] ] ].

Definition refusal_examples : Prop :=
  (* TAB in a class name, LF in a parameter name, CR at the end of a descriptor, a surrogate in a name, in a descriptor *)
  let bad := [ ex_with [65; 9; 66] [73] [112]; ex_with [65] [73] [112; 10; 99; 9; 88; 9; 89]; ex_with [65] [73; 13] [112];
               ex_with [65; 55296] [73] [112]; ex_with [65] [76; 57343; 59] [112] ] in
  forallb (fun M => wf M && typed M && negb (textual M)) bad = true
  /\ forallb (fun M => match write M with Err => true | Ok _ => false end) bad = true
  /\ (let M := ex_with [65; 13; 66; 0; 133; 92; 110] [76; 13; 59] [65533] in
      wf M = true /\ textual M = true /\ exists t, write M = Ok t /\ read 2 t = Ok (canon M))
  (* the two descriptors that were written as the same text before the repair *)
  /\ (let M := ex_with [65] [76; 55296; 59] [112] in let M' := ex_with [65] [76; 65533; 59] [112] in
      write M = Err /\ exists t, write M' = Ok t /\ read 2 t = Ok (canon M')).

Lemma refusal_examples_hold : refusal_examples.
Proof.
  split; [vm_compute; reflexivity|]. split; [vm_compute; reflexivity|]. split.
  - split; [vm_compute; reflexivity|]. split; [vm_compute; reflexivity|].
    apply read_write; vm_compute; reflexivity.
  - split; [vm_compute; reflexivity|]. apply read_write; vm_compute; reflexivity.
Qed.
