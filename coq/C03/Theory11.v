(* C03 theory, part 11: line endings, stated exactly.
   (a) CR LF line ends: a file in which every LF is preceded by an added CR reads as the same
       mapping set, PROVIDED the original has no CR directly before a LF (such a CR would be
       the one BufRead::lines strips; after the conversion it stays in the last cell);
   (b) the final LF is optional, PROVIDED the last line does not end in CR;
   (c) one more LF after the final LF (an empty last line) changes nothing; an empty line in
       the middle is a line at indentation 0 and ends every open section (example).
   All three hold for the byte reader as well: it sees the file only through [raw_lines]. *)
From FB Require Import C03.Model C03.ModelBytes C03.Theory1 C03.Theory2 C03.Theory10.
From Coq Require Import Lia Arith PeanoNat.
Local Open Scope nat_scope.

Arguments N.eqb : simpl never.

Definition crlf (t : text) : text := flat_map (fun c => if N.eqb c cLF then [cCR; cLF] else [c]) t.

Fixpoint no_cr_lf (t : text) : bool :=
  match t with
  | [] => true
  | c :: t' => negb (N.eqb c cCR && starts_with [cLF] t') && no_cr_lf t'
  end.

Lemma starts_lf_crlf t : starts_with [cLF] (crlf t) = false.
Proof.
  destruct t as [|c t]; [reflexivity|]. unfold crlf. cbn [flat_map].
  destruct (N.eqb c cLF) eqn:E; cbn [app starts_with].
  - reflexivity.
  - rewrite N.eqb_sym, E. reflexivity.
Qed.

Theorem raw_lines_crlf t : no_cr_lf t = true -> raw_lines (crlf t) = raw_lines t.
Proof.
  induction t as [|c t IH]; intros H; [reflexivity|].
  cbn [no_cr_lf] in H. apply andb_true_iff in H. destruct H as [Hc Ht]. apply negb_true_iff in Hc.
  specialize (IH Ht). unfold crlf. cbn [flat_map]. fold (crlf t).
  destruct (N.eqb c cLF) eqn:E.
  - cbn [app raw_lines]. change (N.eqb cCR cLF) with false. rewrite N.eqb_refl. cbn [andb starts_with].
    rewrite N.eqb_refl. cbn [raw_lines]. rewrite N.eqb_refl, IH, E. reflexivity.
  - cbn [app raw_lines]. rewrite E, Hc, starts_lf_crlf, andb_false_r, IH. reflexivity.
Qed.

Theorem read_crlf n t : no_cr_lf t = true -> read n (crlf t) = read n t.
Proof. intros H. rewrite !read_read_lines, (raw_lines_crlf t H). reflexivity. Qed.

Theorem read_bytes_crlf n bs : no_cr_lf bs = true -> read_bytes n (crlf bs) = read_bytes n bs.
Proof. intros H. unfold read_bytes. rewrite (raw_lines_crlf bs H). reflexivity. Qed.

(* the side condition is needed: the header  tiny 2 0 a b CR LF  names the namespaces a, b;
   converted once more its last cell is  b CR *)
Definition crlf_witness : text := [116;105;110;121;9;50;9;48;9;97;9;98;13;10]%N.
Definition crlf_condition_needed : Prop :=
  no_cr_lf crlf_witness = false
  /\ read 2 crlf_witness = Ok (mkMappings [[97]; [98]]%N None [])
  /\ read 2 (crlf crlf_witness) = Ok (mkMappings [[97]; [98; 13]]%N None []).
Lemma crlf_condition_needed_holds : crlf_condition_needed.
Proof. repeat split; vm_compute; reflexivity. Qed.

(* ------------------------------------------------------------------------------------------ *)
(* the final LF                                                                                *)

Lemma starts_with_app_ne (p : str) a b : a <> [] -> starts_with [cLF] (a ++ b) = starts_with [cLF] a.
Proof. destruct a as [|x a]; [congruence|]. intros _. cbn [app starts_with]. destruct (N.eqb cLF x); reflexivity. Qed.

Theorem raw_lines_final_lf t0 c : c <> cLF -> c <> cCR ->
  raw_lines ((t0 ++ [c]) ++ [cLF]) = raw_lines (t0 ++ [c]).
Proof.
  intros H1 H2. apply N.eqb_neq in H1. apply N.eqb_neq in H2.
  induction t0 as [|x t0 IH].
  - cbn [app raw_lines]. rewrite H1, H2, N.eqb_refl. reflexivity.
  - cbn [app raw_lines]. rewrite IH.
    rewrite (starts_with_app_ne [] (t0 ++ [c]) [cLF]) by (destruct t0; discriminate). reflexivity.
Qed.

Theorem read_final_lf n t0 c : c <> cLF -> c <> cCR -> read n ((t0 ++ [c]) ++ [cLF]) = read n (t0 ++ [c]).
Proof. intros H1 H2. rewrite !read_read_lines, (raw_lines_final_lf t0 c H1 H2). reflexivity. Qed.

(* a last line that ends in CR and has no LF keeps the CR; with the LF it loses it *)
Definition final_cr_example : Prop :=
  raw_lines [120; 13]%N = [[120; 13]]%N /\ raw_lines [120; 13; 10]%N = [[120]]%N.
Lemma final_cr_example_holds : final_cr_example.
Proof. split; reflexivity. Qed.

(* ------------------------------------------------------------------------------------------ *)
(* an empty last line                                                                          *)

Lemma raw_lines_nonempty t : t <> [] -> raw_lines t <> [].
Proof.
  induction t as [|c t IH]; [congruence|]. intros _. cbn [raw_lines].
  destruct (N.eqb c cLF); [discriminate|].
  destruct (N.eqb c cCR && starts_with [cLF] t) eqn:E.
  - apply IH. apply andb_true_iff in E. destruct E as [_ E]. destruct t; [discriminate|discriminate].
  - destruct (raw_lines t); discriminate.
Qed.

Theorem raw_lines_extra_lf t0 : raw_lines ((t0 ++ [cLF]) ++ [cLF]) = raw_lines (t0 ++ [cLF]) ++ [[]].
Proof.
  induction t0 as [|x t0 IH]; [reflexivity|].
  cbn [app raw_lines]. rewrite IH.
  rewrite (starts_with_app_ne [] (t0 ++ [cLF]) [cLF]) by (destruct t0; discriminate).
  destruct (N.eqb x cLF); [reflexivity|].
  destruct (N.eqb x cCR && starts_with [cLF] (t0 ++ [cLF])); [reflexivity|].
  destruct (raw_lines (t0 ++ [cLF])) as [|l ls] eqn:E; [|reflexivity].
  exfalso. apply (raw_lines_nonempty (t0 ++ [cLF])); [destruct t0; discriminate|exact E].
Qed.

(* a line at indentation 0 that is not a class line: ignored by the outermost loop *)
Definition ignorable (b : tline) : Prop := l_ind b = 0 /\ tag_is c_c b = false.

Fixpoint snoc_sib (f : forest) (b : tline) : forest :=
  match f with
  | FNil => FNode b FNil FNil
  | FNode l ch sib => FNode l ch (snoc_sib sib b)
  end.

Lemma flatten_snoc_sib f b : flatten (snoc_sib f b) = flatten f ++ [b].
Proof.
  induction f as [|l ch _ sib IH]; [reflexivity|]. cbn [snoc_sib flatten]. rewrite IH, app_assoc. reflexivity.
Qed.

Lemma depth_snoc_sib f b : l_ind b = 0 -> depth_ok 0 f -> depth_ok 0 (snoc_sib f b).
Proof.
  intros Hb. induction f as [|l ch _ sib IH]; cbn [snoc_sib depth_ok]; [auto|].
  intros (H1 & H2 & H3). auto.
Qed.

Lemma interp_top_snoc_sib n b : tag_is c_c b = false -> forall f M,
  interp_top n M (snoc_sib f b) = interp_top n M f.
Proof.
  intros Hb. induction f as [|l ch _ sib IH]; intros M.
  - cbn [snoc_sib interp_top]. rewrite Hb. reflexivity.
  - cbn [snoc_sib interp_top]. destruct (tag_is c_c l).
    + destruct (into_names n is_valid_obj_class_name (l_fields l)) as [nm|]; [|reflexivity]. cbn [bind].
      destruct (class_key (mkClass nm None [] [])); [|reflexivity].
      destruct (existsb _ _); [reflexivity|].
      destruct (interp_class n (mkClass nm None [] []) ch); [|reflexivity]. cbn [bind]. apply IH.
    + destruct ch; [apply IH|reflexivity].
Qed.

Lemma stops_snoc d rest b : l_ind b = 0 -> stops (S d) rest -> stops (S d) (rest ++ [b]).
Proof. intros Hb. destruct rest as [|l r]; cbn [app stops]; [lia|auto]. Qed.

Lemma stops_zero rest : stops 0 rest -> rest = [].
Proof. destruct rest as [|l r]; cbn [stops]; [reflexivity|lia]. Qed.

(* a loop at depth >= 1 ends at the appended line *)
Lemma build_ok_snoc b fuel fuel' d ls f rest : l_ind b = 0 ->
  build fuel (S d) ls = Ok (f, rest) -> length (ls ++ [b]) < fuel' ->
  build fuel' (S d) (ls ++ [b]) = Ok (f, rest ++ [b]).
Proof.
  intros Hb B Hlen. apply build_sound in B. destruct B as (-> & D & S).
  rewrite <- app_assoc in *. apply build_flatten; [exact D|apply stops_snoc; assumption|exact Hlen].
Qed.

Lemma build_S fuel d l ls :
  build (S fuel) d (l :: ls) =
    match Nat.compare (l_ind l) d with
    | Lt => Ok (FNil, l :: ls)
    | Gt => Err
    | Eq => match build fuel (S d) ls with
            | Ok (ch, r1) => match build fuel d r1 with
                             | Ok (sib, r2) => Ok (FNode l ch sib, r2)
                             | Err => Err
                             end
            | Err => Err
            end
    end.
Proof. reflexivity. Qed.

Lemma build_err_snoc b : l_ind b = 0 -> forall fuel d ls,
  length ls < fuel -> build fuel d ls = Err -> build (S fuel) d (ls ++ [b]) = Err.
Proof.
  intros Hb. induction fuel as [|fuel IH]; intros d ls Hlen B; [lia|].
  destruct ls as [|l ls']; [discriminate|]. rewrite build_S in B.
  cbn [length] in Hlen. change ((l :: ls') ++ [b]) with (l :: (ls' ++ [b])).
  rewrite build_S.
  destruct (Nat.compare (l_ind l) d); [|discriminate|reflexivity].
  destruct (build fuel (S d) ls') as [[ch r1]|] eqn:B1.
  - rewrite (build_ok_snoc b fuel (S fuel) d ls' ch r1 Hb B1) by (rewrite app_length; cbn [length]; lia).
    destruct (build fuel d r1) as [[sib r2]|] eqn:B2; [discriminate|].
    rewrite (IH d r1); [reflexivity| |exact B2].
    apply build_sound in B1. destruct B1 as (E & _ & _). rewrite E, app_length in Hlen. lia.
  - rewrite (IH (S d) ls'); [reflexivity|lia|exact B1].
Qed.

Theorem read_lines_ignorable_last n ls x :
  ls <> [] -> ignorable (tiny_line x) -> read_lines n (ls ++ [x]) = read_lines n ls.
Proof.
  intros Hne [Hb Ht]. unfold read_lines. destruct (Nat.ltb n 2); [reflexivity|].
  rewrite map_app. cbn [map]. destruct (map tiny_line ls) as [|h body] eqn:El.
  { destruct ls; [congruence|discriminate]. }
  cbn [app]. destruct (read_header n h) as [ns|]; [|reflexivity]. cbn [bind].
  set (b := tiny_line x) in *.
  assert (Hl : length (body ++ [b]) = S (length body)) by (rewrite app_length; cbn [length]; lia).
  rewrite Hl.
  destruct (build (S (length body)) 1 body) as [[hsub rest]|] eqn:B1.
  - rewrite (build_ok_snoc b _ (S (S (length body))) 0 body hsub rest Hb B1) by lia.
    destruct (interp_comments None hsub) as [doc|]; [|reflexivity]. cbn [bind].
    assert (Hr : length rest <= length body).
    { apply build_sound in B1. destruct B1 as (E & _ & _). rewrite E, app_length. lia. }
    destruct (build (S (length body)) 0 rest) as [[tops r2]|] eqn:B0.
    + apply build_sound in B0. destruct B0 as (E & D & S). apply stops_zero in S. subst r2.
      rewrite app_nil_r in E. subst rest.
      assert (B0' : build (S (S (length body))) 0 (flatten (snoc_sib tops b) ++ []) = Ok (snoc_sib tops b, [])).
      { apply build_flatten; [apply depth_snoc_sib; assumption|exact I|].
        rewrite app_nil_r, flatten_snoc_sib, app_length. cbn [length]. lia. }
      rewrite app_nil_r, flatten_snoc_sib in B0'. rewrite B0'. apply interp_top_snoc_sib. exact Ht.
    + rewrite (build_fuel_irrelevant (S (S (length body))) (S (S (length rest))) 0 (rest ++ [b]))
        by (rewrite app_length; cbn [length]; lia).
      rewrite (build_err_snoc b Hb (S (length rest)) 0 rest); [reflexivity|lia|].
      rewrite <- B0. apply build_fuel_irrelevant; lia.
  - rewrite (build_err_snoc b Hb (S (length body)) 1 body); [reflexivity|lia|exact B1].
Qed.

Lemma blank_ignorable : ignorable (tiny_line []).
Proof. split; reflexivity. Qed.

(* (c) one more LF after the final LF *)
Theorem read_extra_lf n t0 : read n ((t0 ++ [cLF]) ++ [cLF]) = read n (t0 ++ [cLF]).
Proof.
  rewrite !read_read_lines, raw_lines_extra_lf. apply read_lines_ignorable_last.
  - apply raw_lines_nonempty. destruct t0; discriminate.
  - exact blank_ignorable.
Qed.

Theorem read_bytes_extra_lf n t0 : read_bytes n ((t0 ++ [cLF]) ++ [cLF]) = read_bytes n (t0 ++ [cLF]).
Proof.
  unfold read_bytes. rewrite raw_lines_extra_lf.
  assert (D : forall ls, decode_lines (ls ++ [[]]) = match decode_lines ls with Some a => Some (a ++ [[]]) | None => None end).
  { induction ls as [|l ls IH]; [reflexivity|]. cbn [app decode_lines]. rewrite IH.
    destruct (utf8_decode l); [|reflexivity]. destruct (decode_lines ls); reflexivity. }
  rewrite D. destruct (decode_lines (raw_lines (t0 ++ [cLF]))) as [ls|] eqn:E; [|reflexivity].
  apply read_lines_ignorable_last; [|exact blank_ignorable].
  intros ->. destruct (raw_lines (t0 ++ [cLF])) as [|l r] eqn:Er.
  - apply (raw_lines_nonempty (t0 ++ [cLF])); [destruct t0; discriminate|exact Er].
  - cbn [decode_lines] in E. destruct (utf8_decode l); [|discriminate]. destruct (decode_lines r); discriminate.
Qed.

(* an empty line in the middle is not ignorable: it ends the class section, the field line
   after it is an indentation error.  header / c A B / (empty) / TAB f I x y *)
Definition blank_middle_text : text :=
  [116;105;110;121;9;50;9;48;9;97;9;98;10; 99;9;65;9;66;10; 10; 9;102;9;73;9;120;9;121;10]%N.
Definition blank_middle_example : Prop := read 2 blank_middle_text = Err.
Lemma blank_middle_example_holds : blank_middle_example.
Proof. vm_compute. reflexivity. Qed.

Lemma read_crlf_both n t : no_cr_lf t = true ->
  read n (crlf t) = read n t /\ read_bytes n (crlf t) = read_bytes n t.
Proof. intros H. split; [apply read_crlf|apply read_bytes_crlf]; exact H. Qed.

Lemma read_extra_lf_both n t0 :
  read n ((t0 ++ [cLF]) ++ [cLF]) = read n (t0 ++ [cLF])
  /\ read_bytes n ((t0 ++ [cLF]) ++ [cLF]) = read_bytes n (t0 ++ [cLF]).
Proof. split; [apply read_extra_lf|apply read_bytes_extra_lf]. Qed.

(* the outermost loop consumes every line: `bail!("expected end of input ...")` after it in
   tiny_v2::read cannot be reached (no line is indented by less than 0) *)
Theorem top_loop_consumes_all fuel ls f rest : build fuel 0 ls = Ok (f, rest) -> rest = [].
Proof. intros B. apply build_sound in B. destruct B as (_ & _ & S). apply stops_zero. exact S. Qed.
