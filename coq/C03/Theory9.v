(* C03 theory, part 9: READING does not depend on the order of sibling sections.
   [fperm f f']: f' is f with the sibling lists permuted at any level (every line keeps its
   parent and its own sub-section).  Then the reader accepts f' iff it accepts f, and the two
   results are the same content ([mappings_equiv], hence the same written text): nothing is
   merged with, or moved to, a neighbouring section, whatever the neighbours are. *)
From FB Require Import C03.Model C03.Theory2 C03.Theory3 C03.Theory5 C03.Theory6 C03.Theory7 C03.Theory8.
From Coq Require Import Lia Arith PeanoNat.

Arguments N.add : simpl never.
Arguments N.eqb : simpl never.

Inductive fperm : forest -> forest -> Prop :=
| fp_nil : fperm FNil FNil
| fp_skip l ch ch' sib sib' : fperm ch ch' -> fperm sib sib' -> fperm (FNode l ch sib) (FNode l ch' sib')
| fp_swap l1 c1 l2 c2 s : fperm (FNode l1 c1 (FNode l2 c2 s)) (FNode l2 c2 (FNode l1 c1 s))
| fp_trans f g h : fperm f g -> fperm g h -> fperm f h.

Lemma fperm_refl f : fperm f f.
Proof. induction f as [|l ch IH1 sib IH2]; constructor; assumption. Qed.

Lemma fperm_sym f f' : fperm f f' -> fperm f' f.
Proof.
  induction 1 as [|l ch ch' sib sib' _ IH1 _ IH2|l1 c1 l2 c2 s|f g h _ IH1 _ IH2].
  - constructor.
  - constructor; assumption.
  - constructor.
  - econstructor; eassumption.
Qed.

Lemma fperm_depth f f' : fperm f f' -> forall d, depth_ok d f -> depth_ok d f'.
Proof.
  induction 1 as [|l ch ch' sib sib' _ IH1 _ IH2|l1 c1 l2 c2 s|f g h _ IH1 _ IH2]; intros d; cbn [depth_ok].
  - auto.
  - intros (H1 & H2 & H3). auto.
  - intros (H1 & H2 & H3 & H4 & H5). auto.
  - auto.
Qed.

Lemma fperm_is_fnil f f' : fperm f f' -> is_fnil f = is_fnil f'.
Proof. induction 1; cbn [is_fnil]; congruence. Qed.

(* the lines are the same lines *)
Lemma fperm_flatten f f' : fperm f f' -> Permutation (flatten f) (flatten f').
Proof.
  induction 1 as [|l ch ch' sib sib' _ IH1 _ IH2|l1 c1 l2 c2 s|f g h _ IH1 _ IH2]; cbn [flatten].
  - constructor.
  - constructor. apply Permutation_app; assumption.
  - rewrite !app_comm_cons, !app_assoc. apply Permutation_app_tail.
    change (l1 :: flatten c1 ++ l2 :: flatten c2) with ((l1 :: flatten c1) ++ (l2 :: flatten c2)).
    change (l2 :: flatten c2 ++ l1 :: flatten c1) with ((l2 :: flatten c2) ++ (l1 :: flatten c1)).
    apply Permutation_app_comm.
  - etransitivity; eassumption.
Qed.

(* ------------------------------------------------------------------------------------------ *)
(* permutations up to a relation                                                               *)

Lemma Forall2_perm_commute {A} (R : A -> A -> Prop) l' l3 :
  Permutation l' l3 -> forall l2, Forall2 R l2 l' -> exists l2', Permutation l2 l2' /\ Forall2 R l2' l3.
Proof.
  induction 1 as [|x l l' _ IH|x y l|l l' l'' _ IH1 _ IH2]; intros l2 F.
  - inversion F; subst. exists []. split; constructor.
  - inversion F as [|a ? t ? Ha Ft]; subst. destruct (IH t Ft) as (t' & Hp & Hf).
    exists (a :: t'). split; constructor; assumption.
  - inversion F as [|a ? t ? Ha Ft]; subst. inversion Ft as [|b ? t2 ? Hb Ft2]; subst.
    exists (b :: a :: t2). split; [apply perm_swap|repeat constructor; assumption].
  - destruct (IH1 l2 F) as (m & Hp1 & Hf1). destruct (IH2 m Hf1) as (m' & Hp2 & Hf2).
    exists m'. split; [etransitivity; eassumption|exact Hf2].
Qed.

Lemma Forall2_trans {A} (R : A -> A -> Prop) (Ht : forall a b c, R a b -> R b c -> R a c) l1 l2 :
  Forall2 R l1 l2 -> forall l3, Forall2 R l2 l3 -> Forall2 R l1 l3.
Proof.
  induction 1 as [|a b l1 l2 Hab _ IH]; intros l3 F; inversion F; subst; constructor; eauto.
Qed.

Lemma Forall2_refl {A} (R : A -> A -> Prop) (Hr : forall a, R a a) l : Forall2 R l l.
Proof. induction l; constructor; auto. Qed.

Lemma perm_upto_refl {A} (R : A -> A -> Prop) (Hr : forall a, R a a) l : perm_upto R l l.
Proof. exists l. split; [reflexivity|apply Forall2_refl; exact Hr]. Qed.

Lemma perm_upto_trans {A} (R : A -> A -> Prop) (Ht : forall a b c, R a b -> R b c -> R a c) l1 l2 l3 :
  perm_upto R l1 l2 -> perm_upto R l2 l3 -> perm_upto R l1 l3.
Proof.
  intros (m1 & Hp1 & Hf1) (m2 & Hp2 & Hf2).
  destruct (Forall2_perm_commute R l2 m2 Hp2 m1 Hf1) as (m1' & Hp & Hf).
  exists m1'. split; [etransitivity; eassumption|]. eapply Forall2_trans; eassumption.
Qed.

Lemma perm_upto_cons {A} (R : A -> A -> Prop) a b l l' : R a b -> perm_upto R l l' -> perm_upto R (a :: l) (b :: l').
Proof. intros Hab (m & Hp & Hf). exists (a :: m). split; constructor; assumption. Qed.

Lemma perm_upto_swap {A} (R : A -> A -> Prop) (Hr : forall a, R a a) a b l : perm_upto R (a :: b :: l) (b :: a :: l).
Proof. exists (b :: a :: l). split; [apply perm_swap|apply Forall2_refl; exact Hr]. Qed.

Lemma perm_upto_app_head {A} (R : A -> A -> Prop) (Hr : forall a, R a a) l0 l l' :
  perm_upto R l l' -> perm_upto R (l0 ++ l) (l0 ++ l').
Proof.
  intros (m & Hp & Hf). exists (l0 ++ m). split; [apply Permutation_app_head; exact Hp|].
  apply Forall2_app; [apply Forall2_refl; exact Hr|exact Hf].
Qed.

Lemma perm_upto_map_perm {A K} (R : A -> A -> Prop) (key : A -> K) (Hk : forall a b, R a b -> key a = key b) l l' :
  perm_upto R l l' -> Permutation (map key l) (map key l').
Proof.
  intros (m & Hp & Hf).
  assert (E : map key m = map key l').
  { clear Hp. induction Hf as [|a b t t' Hab _ IH]; [reflexivity|]. cbn [map]. rewrite (Hk a b Hab), IH. reflexivity. }
  rewrite <- E. apply Permutation_map. exact Hp.
Qed.

Lemma meth_equiv_refl m : meth_equiv m m.
Proof. repeat split; reflexivity. Qed.
Lemma meth_equiv_trans a b c : meth_equiv a b -> meth_equiv b c -> meth_equiv a c.
Proof.
  intros (A1 & A2 & A3 & A4) (B1 & B2 & B3 & B4). repeat split; try congruence. etransitivity; eassumption.
Qed.
Lemma class_equiv_refl c : class_equiv c c.
Proof. repeat split; try reflexivity. apply perm_upto_refl, meth_equiv_refl. Qed.
Lemma class_equiv_trans a b c : class_equiv a b -> class_equiv b c -> class_equiv a c.
Proof.
  intros (A1 & A2 & A3 & A4) (B1 & B2 & B3 & B4). repeat split; try congruence.
  - etransitivity; eassumption.
  - eapply perm_upto_trans; [exact meth_equiv_trans|eassumption|eassumption].
Qed.
Lemma mappings_equiv_refl M : mappings_equiv M M.
Proof. repeat split; try reflexivity. apply perm_upto_refl, class_equiv_refl. Qed.
Lemma mappings_equiv_trans a b c : mappings_equiv a b -> mappings_equiv b c -> mappings_equiv a c.
Proof.
  intros (A1 & A2 & A3) (B1 & B2 & B3). repeat split; try congruence.
  eapply perm_upto_trans; [exact class_equiv_trans|eassumption|eassumption].
Qed.

Lemma meth_equiv_key a b : meth_equiv a b -> meth_key a = meth_key b.
Proof. intros (H1 & H2 & _). unfold meth_key. rewrite H1, H2. reflexivity. Qed.
Lemma class_equiv_key a b : class_equiv a b -> class_key a = class_key b.
Proof. intros (H1 & _). unfold class_key. rewrite H1. reflexivity. Qed.

(* ------------------------------------------------------------------------------------------ *)
(* comments                                                                                    *)

Lemma docs_perm f f' : fperm f f' -> Permutation (docs_of f) (docs_of f').
Proof.
  induction 1 as [|l ch ch' sib sib' _ _ _ IH2|l1 c1 l2 c2 s|f g h _ IH1 _ IH2]; cbn [docs_of].
  - constructor.
  - destruct (tag_is c_c l); [|exact IH2]. destruct (l_fields l) as [|x [|y r]]; try exact IH2.
    constructor. exact IH2.
  - destruct (tag_is c_c l1), (tag_is c_c l2); try reflexivity;
      destruct (l_fields l1) as [|x1 [|y1 r1]]; destruct (l_fields l2) as [|x2 [|y2 r2]]; try reflexivity.
    apply perm_swap.
  - etransitivity; eassumption.
Qed.

Lemma one_doc_perm (l l' : list str) : Permutation l l' -> one_doc l = one_doc l'.
Proof. intros H. unfold one_doc. rewrite (Permutation_length H). reflexivity. Qed.

Lemma one_doc_perm_eq (l l' : list str) : Permutation l l' -> one_doc l = true -> l = l'.
Proof.
  intros Hp H. unfold one_doc in H. apply Nat.leb_le in H.
  destruct l as [|a [|b r]]; cbn [length] in H; try lia.
  - apply Permutation_nil in Hp. subst. reflexivity.
  - apply Permutation_length_1_inv in Hp. subst. reflexivity.
Qed.

Lemma comments_okb_perm f f' : fperm f f' -> comments_okb f = comments_okb f'.
Proof.
  induction 1 as [|l ch ch' sib sib' Hc _ _ IH2|l1 c1 l2 c2 s|f g h _ IH1 _ IH2]; cbn [comments_okb].
  - reflexivity.
  - rewrite (fperm_is_fnil _ _ Hc), IH2. reflexivity.
  - destruct (is_fnil c1), (is_fnil c2), (plain_line_okb l1), (plain_line_okb l2); reflexivity.
  - congruence.
Qed.

Lemma docs_okb_perm f f' : fperm f f' -> docs_okb f = docs_okb f'.
Proof.
  intros H. unfold docs_okb. rewrite (comments_okb_perm _ _ H), (one_doc_perm _ _ (docs_perm _ _ H)). reflexivity.
Qed.

Lemma doc_of_perm f f' : fperm f f' -> one_doc (docs_of f) = true -> doc_of f = doc_of f'.
Proof.
  intros H Ho. unfold doc_of. rewrite (one_doc_perm_eq _ _ (docs_perm _ _ H) Ho). reflexivity.
Qed.

Lemma docs_okb_one f : docs_okb f = true -> one_doc (docs_of f) = true.
Proof. unfold docs_okb. intros H. apply andb_true_iff in H. tauto. Qed.

(* ------------------------------------------------------------------------------------------ *)
(* the section below a method line                                                             *)

Lemma param_node_okb_perm n l ch ch' : fperm ch ch' -> param_node_okb n l ch = param_node_okb n l ch'.
Proof.
  intros H. unfold param_node_okb. destruct (l_fields l); [reflexivity|].
  rewrite (docs_okb_perm _ _ H). reflexivity.
Qed.

Lemma meth_okb_perm n f f' : fperm f f' -> meth_okb n f = meth_okb n f'.
Proof.
  induction 1 as [|l ch ch' sib sib' Hc _ _ IH2|l1 c1 l2 c2 s|f g h _ IH1 _ IH2]; cbn [meth_okb].
  - reflexivity.
  - rewrite (fperm_is_fnil _ _ Hc), IH2, (param_node_okb_perm n l _ _ Hc). reflexivity.
  - rewrite !andb_assoc. f_equal. apply andb_comm.
  - congruence.
Qed.

Lemma params_perm n f f' : fperm f f' -> meth_okb n f = true -> Permutation (params_of f) (params_of f').
Proof.
  induction 1 as [|l ch ch' sib sib' Hc _ _ IH2|l1 c1 l2 c2 s|f g h H1 IH1 _ IH2]; intros Hok.
  - constructor.
  - cbn [meth_okb] in Hok. apply andb_true_iff in Hok. destruct Hok as [Hn Hs]. specialize (IH2 Hs).
    cbn [params_of]. destruct (tag_is c_p l); [|exact IH2].
    unfold param_node_okb in Hn. destruct (l_fields l) as [|idx rest]; [discriminate|].
    destruct (parse_usize idx) as [i|]; [|exact IH2].
    apply andb_true_iff in Hn. destruct Hn as [_ Hd].
    rewrite (doc_of_perm _ _ Hc (docs_okb_one _ Hd)). constructor. exact IH2.
  - cbn [params_of].
    destruct (tag_is c_p l1), (tag_is c_p l2); try reflexivity;
      destruct (l_fields l1) as [|i1 r1]; destruct (l_fields l2) as [|i2 r2]; try reflexivity;
      try destruct (parse_usize i1); try destruct (parse_usize i2); try reflexivity.
    apply perm_swap.
  - etransitivity; [apply IH1; exact Hok|]. apply IH2. rewrite <- (meth_okb_perm n _ _ H1). exact Hok.
Qed.

Lemma meth_sub_okb_perm n f f' : fperm f f' -> meth_sub_okb n f = meth_sub_okb n f'.
Proof.
  intros H. unfold meth_sub_okb. rewrite <- (meth_okb_perm n _ _ H), <- (one_doc_perm _ _ (docs_perm _ _ H)).
  destruct (meth_okb n f) eqn:Hok; [|reflexivity]. cbn [andb]. f_equal.
  apply (fresh_perm N.eqb N.eqb_eq); [reflexivity|]. unfold param_keys. apply Permutation_map.
  apply (params_perm n); assumption.
Qed.

Lemma meth_sub_okb_parts n f : meth_sub_okb n f = true ->
  meth_okb n f = true /\ one_doc (docs_of f) = true.
Proof. unfold meth_sub_okb. intros H. apply andb_true_iff in H. destruct H as [H _]. apply andb_true_iff in H. exact H. Qed.

(* ------------------------------------------------------------------------------------------ *)
(* the section below a class line                                                              *)

Lemma field_node_okb_perm n l ch ch' : fperm ch ch' -> field_node_okb n l ch = field_node_okb n l ch'.
Proof.
  intros H. unfold field_node_okb. destruct (l_fields l); [reflexivity|].
  rewrite (docs_okb_perm _ _ H). reflexivity.
Qed.
Lemma meth_node_okb_perm n l ch ch' : fperm ch ch' -> meth_node_okb n l ch = meth_node_okb n l ch'.
Proof.
  intros H. unfold meth_node_okb. destruct (l_fields l); [reflexivity|].
  rewrite (meth_sub_okb_perm n _ _ H). reflexivity.
Qed.

Lemma class_okb_perm n f f' : fperm f f' -> class_okb n f = class_okb n f'.
Proof.
  induction 1 as [|l ch ch' sib sib' Hc _ _ IH2|l1 c1 l2 c2 s|f g h _ IH1 _ IH2]; cbn [class_okb].
  - reflexivity.
  - rewrite (fperm_is_fnil _ _ Hc), IH2, (field_node_okb_perm n l _ _ Hc), (meth_node_okb_perm n l _ _ Hc). reflexivity.
  - rewrite !andb_assoc. f_equal. apply andb_comm.
  - congruence.
Qed.

Lemma fields_perm n f f' : fperm f f' -> class_okb n f = true -> Permutation (fields_of f) (fields_of f').
Proof.
  induction 1 as [|l ch ch' sib sib' Hc _ _ IH2|l1 c1 l2 c2 s|f g h H1 IH1 _ IH2]; intros Hok.
  - constructor.
  - cbn [class_okb] in Hok. apply andb_true_iff in Hok. destruct Hok as [Hn Hs]. specialize (IH2 Hs).
    cbn [fields_of]. destruct (tag_is c_f l); [|exact IH2].
    unfold field_node_okb in Hn. destruct (l_fields l) as [|desc rest]; [discriminate|].
    apply andb_true_iff in Hn. destruct Hn as [_ Hd].
    rewrite (doc_of_perm _ _ Hc (docs_okb_one _ Hd)). constructor. exact IH2.
  - cbn [fields_of].
    destruct (tag_is c_f l1), (tag_is c_f l2); try reflexivity;
      destruct (l_fields l1) as [|i1 r1]; destruct (l_fields l2) as [|i2 r2]; try reflexivity.
    apply perm_swap.
  - etransitivity; [apply IH1; exact Hok|]. apply IH2. rewrite <- (class_okb_perm n _ _ H1). exact Hok.
Qed.

Lemma meths_perm n f f' : fperm f f' -> class_okb n f = true -> perm_upto meth_equiv (meths_of f) (meths_of f').
Proof.
  induction 1 as [|l ch ch' sib sib' Hc _ _ IH2|l1 c1 l2 c2 s|f g h H1 IH1 _ IH2]; intros Hok.
  - apply perm_upto_refl, meth_equiv_refl.
  - cbn [class_okb] in Hok. apply andb_true_iff in Hok. destruct Hok as [Hn Hs]. specialize (IH2 Hs).
    cbn [meths_of]. destruct (tag_is c_m l) eqn:Tm; [|exact IH2].
    assert (Tf : tag_is c_f l = false) by (apply (tag_excl c_m c_f l eq_refl Tm)). rewrite Tf in Hn.
    unfold meth_node_okb in Hn. destruct (l_fields l) as [|desc rest]; [discriminate|].
    apply andb_true_iff in Hn. destruct Hn as [_ Hd]. apply meth_sub_okb_parts in Hd. destruct Hd as [Hm Ho].
    apply perm_upto_cons; [|exact IH2].
    repeat split; cbn [m_desc m_names m_doc m_params].
    + apply doc_of_perm; assumption.
    + apply (params_perm n); assumption.
  - cbn [meths_of].
    destruct (tag_is c_m l1), (tag_is c_m l2); try (apply perm_upto_refl, meth_equiv_refl);
      destruct (l_fields l1) as [|i1 r1]; destruct (l_fields l2) as [|i2 r2]; try (apply perm_upto_refl, meth_equiv_refl).
    apply perm_upto_swap, meth_equiv_refl.
  - eapply perm_upto_trans; [exact meth_equiv_trans|apply IH1; exact Hok|].
    apply IH2. rewrite <- (class_okb_perm n _ _ H1). exact Hok.
Qed.

Lemma class_sub_okb_perm n f f' : fperm f f' -> class_sub_okb n f = class_sub_okb n f'.
Proof.
  intros H. unfold class_sub_okb. rewrite <- (class_okb_perm n _ _ H), <- (one_doc_perm _ _ (docs_perm _ _ H)).
  destruct (class_okb n f) eqn:Hok; [|reflexivity]. cbn [andb]. f_equal; [f_equal|].
  - apply (fresh_perm _ okey2_eqb_eq); [reflexivity|]. unfold field_keys. apply Permutation_map.
    apply (fields_perm n); assumption.
  - apply (fresh_perm _ okey2_eqb_eq); [reflexivity|]. unfold meth_keys.
    apply (perm_upto_map_perm meth_equiv meth_key meth_equiv_key). apply (meths_perm n); assumption.
Qed.

Lemma class_sub_okb_parts n f : class_sub_okb n f = true ->
  class_okb n f = true /\ one_doc (docs_of f) = true.
Proof.
  unfold class_sub_okb. intros H. apply andb_true_iff in H. destruct H as [H _].
  apply andb_true_iff in H. destruct H as [H _]. apply andb_true_iff in H. exact H.
Qed.

(* ------------------------------------------------------------------------------------------ *)
(* the top level                                                                               *)

Lemma class_node_okb_perm n l ch ch' : fperm ch ch' -> class_node_okb n l ch = class_node_okb n l ch'.
Proof. intros H. unfold class_node_okb. rewrite (class_sub_okb_perm n _ _ H). reflexivity. Qed.

Lemma top_okb_perm n f f' : fperm f f' -> top_okb n f = top_okb n f'.
Proof.
  induction 1 as [|l ch ch' sib sib' Hc _ _ IH2|l1 c1 l2 c2 s|f g h _ IH1 _ IH2]; cbn [top_okb].
  - reflexivity.
  - rewrite (fperm_is_fnil _ _ Hc), IH2, (class_node_okb_perm n l _ _ Hc). reflexivity.
  - rewrite !andb_assoc. f_equal. apply andb_comm.
  - congruence.
Qed.

Lemma classes_perm n f f' : fperm f f' -> top_okb n f = true -> perm_upto class_equiv (classes_of f) (classes_of f').
Proof.
  induction 1 as [|l ch ch' sib sib' Hc _ _ IH2|l1 c1 l2 c2 s|f g h H1 IH1 _ IH2]; intros Hok.
  - apply perm_upto_refl, class_equiv_refl.
  - cbn [top_okb] in Hok. apply andb_true_iff in Hok. destruct Hok as [Hn Hs]. specialize (IH2 Hs).
    cbn [classes_of]. destruct (tag_is c_c l); [|exact IH2].
    unfold class_node_okb in Hn. apply andb_true_iff in Hn. destruct Hn as [_ Hd].
    apply class_sub_okb_parts in Hd. destruct Hd as [Hm Ho].
    apply perm_upto_cons; [|exact IH2].
    repeat split; cbn [c_names c_doc c_fields c_methods].
    + apply doc_of_perm; assumption.
    + apply (fields_perm n); assumption.
    + apply (meths_perm n); assumption.
  - cbn [classes_of].
    destruct (tag_is c_c l1), (tag_is c_c l2); try (apply perm_upto_refl, class_equiv_refl).
    apply perm_upto_swap, class_equiv_refl.
  - eapply perm_upto_trans; [exact class_equiv_trans|apply IH1; exact Hok|].
    apply IH2. rewrite <- (top_okb_perm n _ _ H1). exact Hok.
Qed.

(* ------------------------------------------------------------------------------------------ *)
(* the reader                                                                                  *)

Theorem accepts_perm n h hsub hsub' tops tops' :
  fperm hsub hsub' -> fperm tops tops' -> accepts n h hsub tops = accepts n h hsub' tops'.
Proof.
  intros Hh Ht. unfold accepts. rewrite <- (docs_okb_perm _ _ Hh), <- (top_okb_perm n _ _ Ht).
  destruct (top_okb n tops) eqn:Hok; [|rewrite !andb_false_r; reflexivity].
  f_equal. apply (fresh_perm _ okey_str_eqb_eq); [reflexivity|]. unfold class_keys.
  apply (perm_upto_map_perm class_equiv class_key class_equiv_key). apply (classes_perm n); assumption.
Qed.

Theorem skeleton_perm n h hsub hsub' tops tops' :
  fperm hsub hsub' -> fperm tops tops' -> accepts n h hsub tops = true ->
  mappings_equiv (skeleton h hsub tops) (skeleton h hsub' tops').
Proof.
  intros Hh Ht Ha. unfold accepts in Ha.
  apply andb_true_iff in Ha. destruct Ha as [Ha _].
  apply andb_true_iff in Ha. destruct Ha as [Ha Htop].
  apply andb_true_iff in Ha. destruct Ha as [_ Hd].
  unfold skeleton. repeat split; cbn [ms_ns ms_doc ms_classes].
  - apply doc_of_perm; [exact Hh|apply docs_okb_one; exact Hd].
  - apply (classes_perm n); assumption.
Qed.

Definition same_result (a b : res mappings) : Prop :=
  match a, b with
  | Ok M, Ok M' => mappings_equiv M M'
  | Err, Err => True
  | _, _ => False
  end.

(* two texts with the same header whose lines form forests that differ by the order of sibling
   sections only: both are rejected, or both are read and the results are the same content *)
Theorem read_sibling_order n t t' h hsub hsub' tops tops' :
  map tiny_line (raw_lines t) = h :: flatten hsub ++ flatten tops ->
  map tiny_line (raw_lines t') = h :: flatten hsub' ++ flatten tops' ->
  depth_ok 1 hsub -> depth_ok 0 tops ->
  fperm hsub hsub' -> fperm tops tops' ->
  same_result (read n t) (read n t').
Proof.
  intros El El' D1 D0 Hh Ht.
  rewrite (read_forest n t h hsub tops El D1 D0).
  rewrite (read_forest n t' h hsub' tops' El' (fperm_depth _ _ Hh 1 D1) (fperm_depth _ _ Ht 0 D0)).
  rewrite <- (accepts_perm n h _ _ _ _ Hh Ht).
  destruct (accepts n h hsub tops) eqn:Ha; cbn [same_result]; [|exact I].
  apply (skeleton_perm n); assumption.
Qed.

(* ... and then they are written as the same text *)
Theorem read_sibling_order_write n t t' h hsub hsub' tops tops' M :
  map tiny_line (raw_lines t) = h :: flatten hsub ++ flatten tops ->
  map tiny_line (raw_lines t') = h :: flatten hsub' ++ flatten tops' ->
  depth_ok 1 hsub -> depth_ok 0 tops ->
  fperm hsub hsub' -> fperm tops tops' ->
  read n t = Ok M ->
  exists M', read n t' = Ok M' /\ mappings_equiv M M' /\ write M = write M'.
Proof.
  intros El El' D1 D0 Hh Ht Hr.
  pose proof (read_sibling_order n t t' h hsub hsub' tops tops' El El' D1 D0 Hh Ht) as H.
  rewrite Hr in H. destruct (read n t') as [M'|]; cbn [same_result] in H; [|contradiction].
  exists M'. split; [reflexivity|]. split; [exact H|].
  apply write_order_independent; [|exact H]. apply (read_ok_wf n t M Hr).
Qed.

(* non-vacuity: the fixture-like text  header / class A (field x with a comment, method m with two
   parameters) / class D, against the text with the classes, the members and the parameters in the
   opposite order; both are read, the results differ as lists and are the same content *)
Definition sib_text_1 : text :=
  [116;105;110;121;9;50;9;48;9;97;9;98;10;
   99;9;65;9;66;10;
   9;102;9;73;9;120;9;121;10;
   9;9;99;9;100;111;99;10;
   9;109;9;40;41;86;9;109;9;110;10;
   9;9;112;9;48;9;9;112;10;
   9;9;112;9;49;9;9;113;10;
   99;9;68;9;69;10].
Definition sib_text_2 : text :=
  [116;105;110;121;9;50;9;48;9;97;9;98;10;
   99;9;68;9;69;10;
   99;9;65;9;66;10;
   9;109;9;40;41;86;9;109;9;110;10;
   9;9;112;9;49;9;9;113;10;
   9;9;112;9;48;9;9;112;10;
   9;102;9;73;9;120;9;121;10;
   9;9;99;9;100;111;99;10].

Definition sibling_example : Prop :=
  exists h tops tops' M M',
    map tiny_line (raw_lines sib_text_1) = h :: flatten FNil ++ flatten tops
    /\ map tiny_line (raw_lines sib_text_2) = h :: flatten FNil ++ flatten tops'
    /\ depth_ok 0 tops /\ fperm tops tops'
    /\ read 2 sib_text_1 = Ok M /\ read 2 sib_text_2 = Ok M' /\ M <> M' /\ write M = write M'.

Lemma sibling_example_holds : sibling_example.
Proof.
  pose (lA := mkLine 0 [99] [[65]; [66]]). pose (lD := mkLine 0 [99] [[68]; [69]]).
  pose (lf := mkLine 1 [102] [[73]; [120]; [121]]). pose (lc := mkLine 2 [99] [[100; 111; 99]]).
  pose (lm := mkLine 1 [109] [[40; 41; 86]; [109]; [110]]).
  pose (p0 := mkLine 2 [112] [[48]; []; [112]]). pose (p1 := mkLine 2 [112] [[49]; []; [113]]).
  pose (fA := FNode lf (FNode lc FNil FNil) (FNode lm (FNode p0 FNil (FNode p1 FNil FNil)) FNil)).
  pose (fA' := FNode lm (FNode p1 FNil (FNode p0 FNil FNil)) (FNode lf (FNode lc FNil FNil) FNil)).
  exists (mkLine 0 s_tiny [[50]; [48]; [97]; [98]]), (FNode lA fA (FNode lD FNil FNil)), (FNode lD FNil (FNode lA fA' FNil)).
  destruct (read 2 sib_text_1) as [M|] eqn:E1; [|vm_compute in E1; discriminate].
  destruct (read 2 sib_text_2) as [M'|] eqn:E2; [|vm_compute in E2; discriminate].
  exists M, M'.
  split; [vm_compute; reflexivity|]. split; [vm_compute; reflexivity|].
  split; [cbv; repeat split|].
  split.
  { eapply fp_trans; [apply fp_swap|]. apply fp_skip; [apply fperm_refl|]. apply fp_skip; [|apply fperm_refl].
    unfold fA, fA'. eapply fp_trans; [apply fp_swap|]. apply fp_skip; [|apply fperm_refl]. apply fp_swap. }
  split; [reflexivity|]. split; [reflexivity|]. split.
  - intros E. subst M'. rewrite <- E1 in E2. vm_compute in E2. discriminate.
  - assert (Ew : res_eqb str_eqb (write M) (write M') = true).
    { vm_compute in E1. injection E1 as <-. vm_compute in E2. injection E2 as <-. vm_compute. reflexivity. }
    destruct (write M) as [a|], (write M') as [b|]; cbn [res_eqb] in Ew; try discriminate; [|reflexivity].
    apply str_eqb_eq in Ew. subst. reflexivity.
Qed.

Lemma fperm_same_lines f f' : fperm f f' ->
  Permutation (flatten f) (flatten f') /\ (forall d, depth_ok d f -> depth_ok d f').
Proof. intros H. split; [apply fperm_flatten; exact H|apply fperm_depth; exact H]. Qed.
