(* C03 theory, part 12: the model's tables are the source's tables.  C03/SrcGen.v is regenerated
   from quill's sources on every run (translate/c03_source.py); the statements below compare it
   with the hand-written model, so an edit of the struct field order, of a sort key, of the
   ESCAPES table or of the header literals breaks an obligation here. *)
From FB Require Import C03.Model C03.SrcGen C03.Theory1 C03.Theory3 C03.Theory5.

Arguments N.eqb : simpl never.

(* the derived Ord of a struct: lexicographic over the fields in declaration order *)
Fixpoint lex_fields {A} (fc : ofield -> A -> A -> comparison) (os : list ofield) (a b : A) : comparison :=
  match os with
  | [] => Eq
  | o :: r => lex (fc o a b) (lex_fields fc r a b)
  end.

(* comparison of one field; a field the struct does not have compares as Lt, which no
   reflexive order can be (the translator rejects such a table anyway) *)
Definition class_fcmp (o : ofield) (a b : class) : comparison :=
  match o with OF_names => names_cmp (c_names a) (c_names b) | _ => Lt end.
Definition field_fcmp (o : ofield) (a b : field) : comparison :=
  match o with OF_desc => str_cmp (f_desc a) (f_desc b) | OF_names => names_cmp (f_names a) (f_names b) | OF_index => Lt end.
Definition meth_fcmp (o : ofield) (a b : meth) : comparison :=
  match o with OF_desc => str_cmp (m_desc a) (m_desc b) | OF_names => names_cmp (m_names a) (m_names b) | OF_index => Lt end.
Definition param_fcmp (o : ofield) (a b : param) : comparison :=
  match o with OF_index => N.compare (p_index a) (p_index b) | OF_names => names_cmp (p_names a) (p_names b) | OF_desc => Lt end.

Lemma lex_Eq_r c : lex c Eq = c.
Proof. destruct c; reflexivity. Qed.

(* the order the model's writer sorts by (Quill/Mappings.v) is the derived order of the structs
   as declared in quill/src/tree/mappings.rs *)
Theorem class_cmp_derived a b : class_cmp a b = lex_fields class_fcmp ord_class a b.
Proof. unfold ord_class. cbn [lex_fields class_fcmp]. rewrite lex_Eq_r. reflexivity. Qed.
Theorem field_cmp_derived a b : field_cmp a b = lex_fields field_fcmp ord_field a b.
Proof. unfold ord_field. cbn [lex_fields field_fcmp]. rewrite lex_Eq_r. reflexivity. Qed.
Theorem meth_cmp_derived a b : meth_cmp a b = lex_fields meth_fcmp ord_meth a b.
Proof. unfold ord_meth. cbn [lex_fields meth_fcmp]. rewrite lex_Eq_r. reflexivity. Qed.
Theorem param_cmp_derived a b : param_cmp a b = lex_fields param_fcmp ord_param a b.
Proof. unfold ord_param. cbn [lex_fields param_fcmp]. rewrite lex_Eq_r. reflexivity. Qed.

Definition writer_order_from_source : Prop :=
  (forall a b, class_le a b = is_le (lex_fields class_fcmp ord_class a b))
  /\ (forall a b, field_le a b = is_le (lex_fields field_fcmp ord_field a b))
  /\ (forall a b, meth_le a b = is_le (lex_fields meth_fcmp ord_meth a b))
  /\ (forall a b, param_le a b = is_le (lex_fields param_fcmp ord_param a b))
  /\ (sort_key_classes, sort_key_fields, sort_key_methods, sort_key_parameters) = (SK_info, SK_info, SK_info, SK_info).

Theorem writer_order_from_source_holds : writer_order_from_source.
Proof.
  repeat split; intros a b.
  - unfold class_le. rewrite class_cmp_derived. reflexivity.
  - unfold field_le. rewrite field_cmp_derived. reflexivity.
  - unfold meth_le. rewrite meth_cmp_derived. reflexivity.
  - unfold param_le. rewrite param_cmp_derived. reflexivity.
Qed.

(* consequence for members: the descriptor decides before any name does *)
Theorem field_order_desc_first a b : str_cmp (f_desc a) (f_desc b) = Lt -> field_le a b = true /\ field_le b a = false.
Proof.
  intros H. unfold field_le, field_cmp. rewrite H. split; [reflexivity|].
  rewrite (str_cmp_antisym (f_desc a) (f_desc b)), H. reflexivity.
Qed.
Theorem param_order_index_first a b : (p_index a < p_index b)%N -> param_le a b = true /\ param_le b a = false.
Proof.
  intros H. unfold param_le, param_cmp. rewrite (proj2 (N.compare_lt_iff _ _) H). split; [reflexivity|].
  rewrite (proj2 (N.compare_gt_iff _ _) H). reflexivity.
Qed.

(* ESCAPES: the model's two character tables are lookups in the source's table *)
Fixpoint lookup_fst (c : N) (t : list (N * N)) : option N :=
  match t with [] => None | (a, b) :: r => if N.eqb a c then Some b else lookup_fst c r end.
Fixpoint lookup_snd (e : N) (t : list (N * N)) : option N :=
  match t with [] => None | (a, b) :: r => if N.eqb b e then Some a else lookup_snd e r end.

Theorem esc_char_from_source c : esc_char c = lookup_fst c escapes_src.
Proof.
  unfold esc_char, escapes_src. cbn [lookup_fst].
  rewrite (N.eqb_sym 92 c), (N.eqb_sym 10 c), (N.eqb_sym 13 c), (N.eqb_sym 9 c). reflexivity.
Qed.
Theorem unesc_char_from_source e : unesc_char e = lookup_snd e escapes_src.
Proof.
  unfold unesc_char, escapes_src. cbn [lookup_snd].
  rewrite (N.eqb_sym 92 e), (N.eqb_sym 110 e), (N.eqb_sym 114 e), (N.eqb_sym 116 e). reflexivity.
Qed.

(* what makes ANY such table work: the backslash is in it, no character and no letter twice *)
Definition escapes_table_ok (t : list (N * N)) : bool :=
  existsb (fun p => N.eqb (fst p) cBSLASH) t
  && nodupb N.eqb (map fst t) && nodupb N.eqb (map snd t).
Theorem escapes_src_ok : escapes_table_ok escapes_src = true.
Proof. vm_compute. reflexivity. Qed.

(* the escaping scheme over ANY table: a raw character of the table is written as backslash +
   letter, a backslash followed by a letter of the table is read back as its raw character *)
Fixpoint escape_t (t : list (N * N)) (s : str) : str :=
  match s with
  | [] => []
  | c :: s' => match lookup_fst c t with
               | Some e => cBSLASH :: e :: escape_t t s'
               | None => c :: escape_t t s'
               end
  end.
Fixpoint unescape_t (t : list (N * N)) (s : str) : str :=
  match s with
  | [] => []
  | c :: s' =>
      if N.eqb c cBSLASH then
        match s' with
        | e :: s'' => match lookup_snd e t with
                      | Some x => x :: unescape_t t s''
                      | None => c :: unescape_t t s'
                      end
        | [] => [c]
        end
      else c :: unescape_t t s'
  end.

Lemma lookup_fst_in c e t : lookup_fst c t = Some e -> In (c, e) t.
Proof.
  induction t as [|[a b] t IH]; cbn [lookup_fst]; [discriminate|].
  destruct (N.eqb_spec a c) as [->|_]; [intros [= ->]; left; reflexivity|intros H; right; auto].
Qed.
Lemma lookup_snd_in c e t : NoDup (map snd t) -> In (c, e) t -> lookup_snd e t = Some c.
Proof.
  induction t as [|[a b] t IH]; intros Hnd Hin; [contradiction|].
  cbn [map snd] in Hnd. inversion Hnd as [|? ? Hn Hnd']; subst. cbn [lookup_snd].
  destruct Hin as [[= -> ->]|Hin]; [rewrite N.eqb_refl; reflexivity|].
  destruct (N.eqb_spec b e) as [->|_]; [|auto].
  exfalso. apply Hn. change e with (snd (c, e)). apply in_map. exact Hin.
Qed.
Lemma lookup_fst_bslash t : existsb (fun p => N.eqb (fst p) cBSLASH) t = true -> lookup_fst cBSLASH t <> None.
Proof.
  induction t as [|[a b] t IH]; cbn [existsb lookup_fst fst]; [discriminate|].
  destruct (N.eqb a cBSLASH); [discriminate|]. exact IH.
Qed.

Theorem unescape_escape_t t : escapes_table_ok t = true -> forall s, unescape_t t (escape_t t s) = s.
Proof.
  intros Hok. unfold escapes_table_ok in Hok. apply andb_true_iff in Hok. destruct Hok as [Hok Hv].
  apply andb_true_iff in Hok. destruct Hok as [Hb _].
  apply (nodupb_NoDup N.eqb N.eqb_eq) in Hv. apply lookup_fst_bslash in Hb.
  induction s as [|c s IH]; [reflexivity|]. cbn [escape_t].
  destruct (lookup_fst c t) as [e|] eqn:E.
  - cbn [unescape_t]. rewrite N.eqb_refl. rewrite (lookup_snd_in c e t Hv (lookup_fst_in c e t E)), IH. reflexivity.
  - cbn [unescape_t]. destruct (N.eqb_spec c cBSLASH) as [->|_]; [congruence|]. rewrite IH. reflexivity.
Qed.

(* the model's functions are the scheme over the source's table *)
Theorem escape_is_scheme s : escape s = escape_t escapes_src s.
Proof. induction s as [|c s IH]; [reflexivity|]. cbn [escape escape_t]. rewrite <- esc_char_from_source, IH. reflexivity. Qed.
Lemma unescape_is_scheme_len k : forall s, (length s <= k)%nat -> unescape s = unescape_t escapes_src s.
Proof.
  induction k as [|k IH]; intros s Hlen; [destruct s; [reflexivity|cbn [length] in Hlen; inversion Hlen]|].
  destruct s as [|c s]; [reflexivity|]. cbn [length] in Hlen. apply le_S_n in Hlen.
  cbn [unescape unescape_t]. destruct (N.eqb c cBSLASH).
  - destruct s as [|e s']; [reflexivity|]. rewrite <- unesc_char_from_source. cbn [length] in Hlen.
    destruct (unesc_char e); [rewrite (IH s') by (apply le_S_n, le_S; exact Hlen)|rewrite (IH (e :: s')) by exact Hlen]; reflexivity.
  - rewrite (IH s) by exact Hlen. reflexivity.
Qed.
Theorem unescape_is_scheme s : unescape s = unescape_t escapes_src s.
Proof. apply (unescape_is_scheme_len (length s)). apply le_n. Qed.

Definition escaping_scheme : Prop :=
  (forall t, escapes_table_ok t = true -> forall s, unescape_t t (escape_t t s) = s)
  /\ (forall s, escape s = escape_t escapes_src s) /\ (forall s, unescape s = unescape_t escapes_src s).
Lemma escaping_scheme_holds : escaping_scheme.
Proof. exact (conj unescape_escape_t (conj escape_is_scheme unescape_is_scheme)). Qed.

(* header literals *)
Theorem header_from_source : (s_tiny, [c_2], [c_0]) = (hdr_tag, hdr_major, hdr_minor).
Proof. reflexivity. Qed.

Lemma escapes_from_source :
  (forall c, esc_char c = lookup_fst c escapes_src) /\ (forall e, unesc_char e = lookup_snd e escapes_src)
  /\ escapes_table_ok escapes_src = true.
Proof. exact (conj esc_char_from_source (conj unesc_char_from_source escapes_src_ok)). Qed.
