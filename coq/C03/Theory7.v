(* C03 theory, part 7: what [read] returns, for EVERY text it accepts.
   (a) the result is well-formed (unique keys, full rows, first names present);
   (b) the result is the check-free structural decoding ([skeleton]) of the indentation forest
       of the text: one class per `c` line at depth 0, its fields / methods exactly the `f` / `m`
       lines directly below that line, parameters below their method line, comments at their
       node — the validity, arity and duplicate checks of the reader only decide between Ok
       and Err, they never change, merge, drop or move an entry;
   (c) hence a duplicate key in the text makes [read] fail. *)
From FB Require Import C03.Model C03.Theory2 C03.Theory3.
From Coq Require Import Lia Arith PeanoNat.

Arguments N.add : simpl never.
Arguments N.mul : simpl never.
Arguments N.ltb : simpl never.
Arguments N.eqb : simpl never.

(* ------------------------------------------------------------------------------------------ *)
(* the check-free decoding of a forest                                                         *)

Definition cell_name (s : str) : option str := match s with [] => None | _ => Some s end.
Definition names_of (fs : list str) : names := map cell_name fs.

Fixpoint docs_of (f : forest) : list str :=
  match f with
  | FNil => []
  | FNode l _ sib =>
      if tag_is c_c l then
        match l_fields l with
        | [s] => unescape s :: docs_of sib
        | _ => docs_of sib
        end
      else docs_of sib
  end.
Definition doc_of (f : forest) : option str := hd_error (docs_of f).

Fixpoint params_of (f : forest) : list param :=
  match f with
  | FNil => []
  | FNode l ch sib =>
      if tag_is c_p l then
        match l_fields l with
        | idx :: rest =>
            match parse_usize idx with
            | Ok i => mkParam i (names_of rest) (doc_of ch) :: params_of sib
            | Err => params_of sib
            end
        | [] => params_of sib
        end
      else params_of sib
  end.

Fixpoint fields_of (f : forest) : list field :=
  match f with
  | FNil => []
  | FNode l ch sib =>
      if tag_is c_f l then
        match l_fields l with
        | desc :: rest => mkField desc (names_of rest) (doc_of ch) :: fields_of sib
        | [] => fields_of sib
        end
      else fields_of sib
  end.

Fixpoint meths_of (f : forest) : list meth :=
  match f with
  | FNil => []
  | FNode l ch sib =>
      if tag_is c_m l then
        match l_fields l with
        | desc :: rest => mkMeth desc (names_of rest) (doc_of ch) (params_of ch) :: meths_of sib
        | [] => meths_of sib
        end
      else meths_of sib
  end.

Fixpoint classes_of (f : forest) : list class :=
  match f with
  | FNil => []
  | FNode l ch sib =>
      if tag_is c_c l then
        mkClass (names_of (l_fields l)) (doc_of ch) (fields_of ch) (meths_of ch) :: classes_of sib
      else classes_of sib
  end.

(* header line, the forest below it, the forest of the classes *)
Definition skeleton (h : tline) (hsub tops : forest) : mappings :=
  mkMappings (skipn 2 (l_fields h)) (doc_of hsub) (classes_of tops).

(* ------------------------------------------------------------------------------------------ *)
(* cells                                                                                       *)

Lemma cells_names_of valid l r : cells valid l = Ok r -> r = names_of l.
Proof.
  revert r; induction l as [|s l IH]; intros r H; cbn [cells] in H.
  - injection H as <-. reflexivity.
  - destruct (cell valid s) as [o|] eqn:Ec; [|discriminate]. cbn [bind] in H.
    destruct (cells valid l) as [r'|] eqn:Er; [|discriminate]. cbn [bind] in H.
    injection H as <-. pose proof (IH r' eq_refl) as ->. cbn [names_of map]. f_equal.
    unfold cell in Ec. destruct s as [|c s]; [injection Ec as <-; reflexivity|].
    destruct (valid (c :: s)); [injection Ec as <-; reflexivity|discriminate].
Qed.

Lemma names_of_no_empty l :
  forallb (fun o => match o with Some [] => false | _ => true end) (names_of l) = true.
Proof.
  induction l as [|s l IH]; [reflexivity|]. cbn [names_of map forallb]. fold (names_of l).
  rewrite IH. destruct s; reflexivity.
Qed.

Lemma into_names_ok n valid fs r : into_names n valid fs = Ok r -> r = names_of fs /\ names_ok n r = true.
Proof.
  unfold into_names. destruct (cells valid fs) as [r'|] eqn:E; [|discriminate]. cbn [bind].
  destruct (Nat.eqb (length r') n) eqn:El; [|discriminate]. intros [= <-].
  pose proof (cells_names_of _ _ _ E) as ->. split; [reflexivity|].
  unfold names_ok. rewrite El, names_of_no_empty. reflexivity.
Qed.

(* ------------------------------------------------------------------------------------------ *)
(* (b) the handlers compute the skeleton                                                       *)

Definition opt_list {A} (o : option A) : list A := match o with Some x => [x] | None => [] end.

Lemma interp_comments_exact : forall f doc d,
  interp_comments doc f = Ok d -> d = hd_error (opt_list doc ++ docs_of f).
Proof.
  induction f as [|l ch _ sib IH]; intros doc d H.
  - cbn [interp_comments] in H. injection H as <-. destruct doc; reflexivity.
  - cbn [interp_comments docs_of] in *. destruct ch; [|discriminate].
    destruct (tag_is c_c l).
    + unfold line_end in H. destruct (l_fields l) as [|s [|s2 r]]; try discriminate.
      destruct doc; [discriminate|]. apply IH in H. exact H.
    + apply IH. exact H.
Qed.

Lemma tag_excl t t' l : N.eqb t t' = false -> tag_is t l = true -> tag_is t' l = false.
Proof.
  unfold tag_is. intros Hn H. apply str_eqb_eq in H. rewrite H. cbn [str_eqb]. rewrite Hn. reflexivity.
Qed.

Lemma interp_meth_exact n : forall f m m',
  interp_meth n m f = Ok m' ->
  m_desc m' = m_desc m /\ m_names m' = m_names m
  /\ m_doc m' = hd_error (opt_list (m_doc m) ++ docs_of f)
  /\ m_params m' = m_params m ++ params_of f.
Proof.
  induction f as [|l ch _ sib IH]; intros m m' H.
  - cbn [interp_meth] in H. injection H as <-. cbn [docs_of params_of]. rewrite !app_nil_r.
    repeat split. destruct (m_doc m); reflexivity.
  - cbn [interp_meth docs_of params_of] in *. destruct (tag_is c_p l) eqn:Tp.
    + rewrite (tag_excl c_p c_c l eq_refl Tp).
      destruct (l_fields l) as [|idx rest]; [discriminate|].
      destruct (parse_usize idx) as [i|]; [|discriminate]. cbn [bind] in H.
      destruct (into_names n is_valid_unqualified_name rest) as [nm|] eqn:En; [|discriminate]. cbn [bind] in H.
      destruct (existsb (N.eqb i) (map param_key (m_params m))); [discriminate|].
      destruct (interp_comments None ch) as [d|] eqn:Ec; [|discriminate]. cbn [bind] in H.
      apply IH in H. destruct H as (H1 & H2 & H3 & H4). cbn [add_m_param m_desc m_names m_doc m_params] in *.
      apply into_names_ok in En. destruct En as [-> _].
      apply interp_comments_exact in Ec. cbn [opt_list app] in Ec. subst d.
      repeat split; try assumption. rewrite H4, <- app_assoc. reflexivity.
    + destruct ch; [|discriminate]. destruct (tag_is c_c l) eqn:Tc.
      * unfold line_end in H. destruct (l_fields l) as [|s [|s2 r]]; try discriminate.
        destruct (m_doc m) eqn:Ed; [discriminate|]. apply IH in H.
        destruct H as (H1 & H2 & H3 & H4). cbn [set_m_doc m_desc m_names m_doc m_params opt_list app] in *.
        repeat split; assumption.
      * apply IH in H. exact H.
Qed.

Lemma interp_class_exact n : forall f c c',
  interp_class n c f = Ok c' ->
  c_names c' = c_names c
  /\ c_doc c' = hd_error (opt_list (c_doc c) ++ docs_of f)
  /\ c_fields c' = c_fields c ++ fields_of f
  /\ c_methods c' = c_methods c ++ meths_of f.
Proof.
  induction f as [|l ch _ sib IH]; intros c c' H.
  - cbn [interp_class] in H. injection H as <-. cbn [docs_of fields_of meths_of]. rewrite !app_nil_r.
    repeat split. destruct (c_doc c); reflexivity.
  - cbn [interp_class docs_of fields_of meths_of] in *. destruct (tag_is c_f l) eqn:Tf.
    + rewrite (tag_excl c_f c_c l eq_refl Tf), (tag_excl c_f c_m l eq_refl Tf).
      destruct (l_fields l) as [|desc rest]; [discriminate|].
      destruct (into_names n is_valid_unqualified_name rest) as [nm|] eqn:En; [|discriminate]. cbn [bind] in H.
      destruct (field_key (mkField desc nm None)) as [k|]; [|discriminate].
      destruct (existsb _ _); [discriminate|].
      destruct (interp_comments None ch) as [d|] eqn:Ec; [|discriminate]. cbn [bind] in H.
      apply IH in H. destruct H as (H1 & H2 & H3 & H4). cbn [add_c_field c_names c_doc c_fields c_methods] in *.
      apply into_names_ok in En. destruct En as [-> _].
      apply interp_comments_exact in Ec. cbn [opt_list app] in Ec. subst d.
      repeat split; try assumption. rewrite H3, <- app_assoc. reflexivity.
    + destruct (tag_is c_m l) eqn:Tm.
      * rewrite (tag_excl c_m c_c l eq_refl Tm).
        destruct (l_fields l) as [|desc rest]; [discriminate|].
        destruct (into_names n is_valid_method_name rest) as [nm|] eqn:En; [|discriminate]. cbn [bind] in H.
        destruct (meth_key (mkMeth desc nm None [])) as [k|]; [|discriminate].
        destruct (existsb _ _); [discriminate|].
        destruct (interp_meth n (mkMeth desc nm None []) ch) as [m|] eqn:Em; [|discriminate]. cbn [bind] in H.
        apply IH in H. destruct H as (H1 & H2 & H3 & H4). cbn [add_c_meth c_names c_doc c_fields c_methods] in *.
        apply into_names_ok in En. destruct En as [-> _].
        apply interp_meth_exact in Em. cbn [m_desc m_names m_doc m_params opt_list app] in Em.
        destruct Em as (E1 & E2 & E3 & E4).
        repeat split; try assumption. rewrite H4, <- app_assoc. cbn [app]. do 2 f_equal.
        destruct m as [md mn mdoc mps]. cbn [m_desc m_names m_doc m_params] in *. subst. reflexivity.
      * destruct ch; [|discriminate]. destruct (tag_is c_c l) eqn:Tc.
        -- unfold line_end in H. destruct (l_fields l) as [|s [|s2 r]]; try discriminate.
           destruct (c_doc c) eqn:Ed; [discriminate|]. apply IH in H.
           destruct H as (H1 & H2 & H3 & H4). cbn [set_c_doc c_names c_doc c_fields c_methods opt_list app] in *.
           repeat split; assumption.
        -- apply IH in H. exact H.
Qed.

Lemma interp_top_exact n : forall f M M',
  interp_top n M f = Ok M' ->
  ms_ns M' = ms_ns M /\ ms_doc M' = ms_doc M /\ ms_classes M' = ms_classes M ++ classes_of f.
Proof.
  induction f as [|l ch _ sib IH]; intros M M' H.
  - cbn [interp_top] in H. injection H as <-. cbn [classes_of]. rewrite app_nil_r. auto.
  - cbn [interp_top classes_of] in *. destruct (tag_is c_c l) eqn:Tc.
    + destruct (into_names n is_valid_obj_class_name (l_fields l)) as [nm|] eqn:En; [|discriminate]. cbn [bind] in H.
      destruct (class_key (mkClass nm None [] [])) as [k|]; [|discriminate].
      destruct (existsb _ _); [discriminate|].
      destruct (interp_class n (mkClass nm None [] []) ch) as [c|] eqn:Ecl; [|discriminate]. cbn [bind] in H.
      apply IH in H. destruct H as (H1 & H2 & H3). cbn [add_class ms_ns ms_doc ms_classes] in *.
      apply into_names_ok in En. destruct En as [-> _].
      apply interp_class_exact in Ecl. cbn [c_names c_doc c_fields c_methods opt_list app] in Ecl.
      destruct Ecl as (E1 & E2 & E3 & E4).
      repeat split; try assumption. rewrite H3, <- app_assoc. cbn [app]. do 2 f_equal.
      destruct c as [cn cdoc cfs cms]. cbn [c_names c_doc c_fields c_methods] in *. subst. reflexivity.
    + destruct ch; [|discriminate]. apply IH in H. exact H.
Qed.

(* Th 4: every accepted text is decoded structurally *)
Theorem read_exact n t M :
  read n t = Ok M ->
  exists h hsub tops,
    map tiny_line (raw_lines t) = h :: flatten hsub ++ flatten tops
    /\ depth_ok 1 hsub /\ depth_ok 0 tops
    /\ M = skeleton h hsub tops.
Proof.
  unfold read. destruct (Nat.ltb n 2); [discriminate|].
  destruct (map tiny_line (raw_lines t)) as [|h body]; [discriminate|].
  destruct (read_header n h) as [ns|] eqn:Eh; [|discriminate]. cbn [bind].
  destruct (build (S (length body)) 1 body) as [[hsub rest]|] eqn:B1; [|discriminate].
  destruct (interp_comments None hsub) as [doc|] eqn:Ec; [|discriminate]. cbn [bind].
  destruct (build (S (length body)) 0 rest) as [[tops rest2]|] eqn:B2; [|discriminate].
  destruct rest2; [|discriminate]. intros H.
  apply build_sound in B1. destruct B1 as (E1 & D1 & _).
  apply build_sound in B2. destruct B2 as (E2 & D2 & _). rewrite app_nil_r in E2. subst rest body.
  exists h, hsub, tops. repeat split; try assumption.
  apply interp_top_exact in H. cbn [ms_ns ms_doc ms_classes app] in H. destruct H as (H1 & H2 & H3).
  apply interp_comments_exact in Ec. cbn [opt_list app] in Ec.
  unfold skeleton, doc_of. rewrite <- Ec.
  assert (Ens : ns = skipn 2 (l_fields h)).
  { unfold read_header in Eh. destruct (str_eqb (l_first h) s_tiny); [|discriminate].
    destruct (l_fields h) as [|a [|b r]]; try discriminate.
    destruct (str_eqb a [c_2] && str_eqb b [c_0]); [|discriminate].
    unfold into_namespaces in Eh. destruct (_ && _) in Eh; [|discriminate]. injection Eh as <-. reflexivity. }
  destruct M as [mns mdoc mcs]. cbn [ms_ns ms_doc ms_classes] in *. subst. reflexivity.
Qed.

(* ------------------------------------------------------------------------------------------ *)
(* (a) the result is well-formed                                                               *)

Lemma nodupb_snoc {A K} (eqb : K -> K -> bool) (Heq : forall a b, eqb a b = true <-> a = b)
  (key : A -> K) l x :
  nodupb eqb (map key l) = true -> existsb (eqb (key x)) (map key l) = false ->
  nodupb eqb (map key (l ++ [x])) = true.
Proof.
  intros H1 H2. apply (nodupb_NoDup eqb Heq). apply (nodupb_NoDup eqb Heq) in H1.
  rewrite map_app. cbn [map].
  apply (Permutation_NoDup (l := key x :: map key l)).
  - apply Permutation_cons_append.
  - constructor; [|exact H1]. intros Hin.
    rewrite (existsb_eqb_true eqb Heq _ _ Hin) in H2. discriminate.
Qed.

Lemma interp_meth_wf n : forall f m m',
  wf_meth n m = true -> interp_meth n m f = Ok m' -> wf_meth n m' = true.
Proof.
  induction f as [|l ch _ sib IH]; intros m m' Hwf H.
  - cbn [interp_meth] in H. injection H as <-. exact Hwf.
  - cbn [interp_meth] in H. destruct (tag_is c_p l).
    + destruct (l_fields l) as [|idx rest]; [discriminate|].
      destruct (parse_usize idx) as [i|]; [|discriminate]. cbn [bind] in H.
      destruct (into_names n is_valid_unqualified_name rest) as [nm|] eqn:En; [|discriminate]. cbn [bind] in H.
      destruct (existsb (N.eqb i) (map param_key (m_params m))) eqn:Ex; [discriminate|].
      destruct (interp_comments None ch) as [d|]; [|discriminate]. cbn [bind] in H.
      apply IH in H; [exact H|].
      apply into_names_ok in En. destruct En as [_ Hok].
      unfold wf_meth in Hwf |- *. unfold add_m_param. cbn [m_names m_params].
      apply andb_true_iff in Hwf. destruct Hwf as [Hwf Hnd].
      apply andb_true_iff in Hwf. destruct Hwf as [Hwf Hps].
      change (meth_key (mkMeth (m_desc m) (m_names m) (m_doc m) (m_params m ++ [mkParam i nm d]))) with (meth_key m).
      rewrite Hwf. cbn [andb]. rewrite forallb_app, Hps. cbn [forallb andb].
      unfold wf_param at 1. cbn [p_names]. rewrite Hok. cbn [andb].
      apply (nodupb_snoc N.eqb N.eqb_eq); [exact Hnd|exact Ex].
    + destruct ch; [|discriminate]. destruct (tag_is c_c l).
      * destruct (line_end l); [|discriminate]. destruct (m_doc m); [discriminate|].
        apply IH in H; [exact H|]. exact Hwf.
      * apply IH in H; [exact H|exact Hwf].
Qed.

Lemma interp_class_wf n : forall f c c',
  wf_class n c = true -> interp_class n c f = Ok c' -> wf_class n c' = true.
Proof.
  induction f as [|l ch _ sib IH]; intros c c' Hwf H.
  - cbn [interp_class] in H. injection H as <-. exact Hwf.
  - cbn [interp_class] in H.
    pose proof Hwf as Hwf0. unfold wf_class in Hwf.
    apply andb_true_iff in Hwf. destruct Hwf as [Hwf Hndm].
    apply andb_true_iff in Hwf. destruct Hwf as [Hwf Hms].
    apply andb_true_iff in Hwf. destruct Hwf as [Hwf Hndf].
    apply andb_true_iff in Hwf. destruct Hwf as [Hwf Hfs].
    destruct (tag_is c_f l).
    + destruct (l_fields l) as [|desc rest]; [discriminate|].
      destruct (into_names n is_valid_unqualified_name rest) as [nm|] eqn:En; [|discriminate]. cbn [bind] in H.
      destruct (field_key (mkField desc nm None)) as [k|] eqn:Ek; [|discriminate].
      destruct (existsb _ _) eqn:Ex; [discriminate|].
      destruct (interp_comments None ch) as [d|]; [|discriminate]. cbn [bind] in H.
      apply IH in H; [exact H|].
      apply into_names_ok in En. destruct En as [_ Hok].
      unfold wf_class, add_c_field. cbn [c_names c_fields c_methods].
      change (class_key (mkClass (c_names c) (c_doc c) (c_fields c ++ [mkField desc nm d]) (c_methods c))) with (class_key c).
      rewrite Hwf. cbn [andb]. rewrite forallb_app, Hfs. cbn [forallb andb].
      unfold wf_field at 1. cbn [f_names]. rewrite Hok.
      change (field_key (mkField desc nm d)) with (field_key (mkField desc nm None)). rewrite Ek. cbn [is_some andb].
      rewrite Hms, Hndm, !andb_true_r.
      apply (nodupb_snoc _ okey2_eqb_eq); [exact Hndf|].
      change (field_key (mkField desc nm d)) with (field_key (mkField desc nm None)). rewrite Ek. exact Ex.
    + destruct (tag_is c_m l).
      * destruct (l_fields l) as [|desc rest]; [discriminate|].
        destruct (into_names n is_valid_method_name rest) as [nm|] eqn:En; [|discriminate]. cbn [bind] in H.
        destruct (meth_key (mkMeth desc nm None [])) as [k|] eqn:Ek; [|discriminate].
        destruct (existsb _ _) eqn:Ex; [discriminate|].
        destruct (interp_meth n (mkMeth desc nm None []) ch) as [m|] eqn:Em; [|discriminate]. cbn [bind] in H.
        apply IH in H; [exact H|].
        apply into_names_ok in En. destruct En as [_ Hok].
        assert (Hm0 : wf_meth n (mkMeth desc nm None []) = true).
        { unfold wf_meth. cbn [m_names m_params forallb map nodupb]. rewrite Hok, Ek. reflexivity. }
        pose proof (interp_meth_wf n _ _ _ Hm0 Em) as Hwm.
        pose proof (interp_meth_exact n _ _ _ Em) as (E1 & E2 & _ & _). cbn [m_desc m_names] in E1, E2.
        assert (Ekm : meth_key m = Some k).
        { unfold meth_key in *. rewrite E1, E2. exact Ek. }
        unfold wf_class, add_c_meth. cbn [c_names c_fields c_methods].
        change (class_key (mkClass (c_names c) (c_doc c) (c_fields c) (c_methods c ++ [m]))) with (class_key c).
        rewrite Hwf, Hfs, Hndf. cbn [andb]. rewrite forallb_app, Hms. cbn [forallb andb]. rewrite Hwm. cbn [andb].
        apply (nodupb_snoc _ okey2_eqb_eq); [exact Hndm|]. rewrite Ekm. exact Ex.
      * destruct ch; [|discriminate]. destruct (tag_is c_c l).
        -- destruct (line_end l); [|discriminate]. destruct (c_doc c); [discriminate|].
           apply IH in H; [exact H|]. exact Hwf0.
        -- apply IH in H; [exact H|exact Hwf0].
Qed.

Definition classes_wf (n : nat) (M : mappings) : bool :=
  forallb (wf_class n) (ms_classes M) && nodupb (okey_eqb str_eqb) (map class_key (ms_classes M)).

Lemma interp_top_wf n : forall f M M',
  classes_wf n M = true -> interp_top n M f = Ok M' -> classes_wf n M' = true.
Proof.
  induction f as [|l ch _ sib IH]; intros M M' Hwf H.
  - cbn [interp_top] in H. injection H as <-. exact Hwf.
  - cbn [interp_top] in H. destruct (tag_is c_c l).
    + destruct (into_names n is_valid_obj_class_name (l_fields l)) as [nm|] eqn:En; [|discriminate]. cbn [bind] in H.
      destruct (class_key (mkClass nm None [] [])) as [k|] eqn:Ek; [|discriminate].
      destruct (existsb _ _) eqn:Ex; [discriminate|].
      destruct (interp_class n (mkClass nm None [] []) ch) as [c|] eqn:Ecl; [|discriminate]. cbn [bind] in H.
      apply IH in H; [exact H|].
      apply into_names_ok in En. destruct En as [_ Hok].
      assert (Hc0 : wf_class n (mkClass nm None [] []) = true).
      { unfold wf_class. cbn [c_names c_fields c_methods forallb map nodupb]. rewrite Hok, Ek. reflexivity. }
      pose proof (interp_class_wf n _ _ _ Hc0 Ecl) as Hwc.
      pose proof (interp_class_exact n _ _ _ Ecl) as (E1 & _). cbn [c_names] in E1.
      assert (Ekc : class_key c = Some k). { unfold class_key in *. rewrite E1. exact Ek. }
      unfold classes_wf in Hwf |- *. unfold add_class. cbn [ms_classes].
      apply andb_true_iff in Hwf. destruct Hwf as [Hcs Hnd].
      rewrite forallb_app, Hcs. cbn [forallb andb]. rewrite Hwc. cbn [andb].
      apply (nodupb_snoc _ okey_str_eqb_eq); [exact Hnd|]. rewrite Ekc. exact Ex.
    + destruct ch; [|discriminate]. apply IH in H; [exact H|exact Hwf].
Qed.

Theorem read_ok_wf n t M : read n t = Ok M -> wf M = true /\ length (ms_ns M) = n.
Proof.
  unfold read. destruct (Nat.ltb n 2) eqn:En2; [discriminate|].
  destruct (map tiny_line (raw_lines t)) as [|h body]; [discriminate|].
  destruct (read_header n h) as [ns|] eqn:Eh; [|discriminate]. cbn [bind].
  destruct (build (S (length body)) 1 body) as [[hsub rest]|]; [|discriminate].
  destruct (interp_comments None hsub) as [doc|]; [|discriminate]. cbn [bind].
  destruct (build (S (length body)) 0 rest) as [[tops rest2]|]; [|discriminate].
  destruct rest2; [|discriminate]. intros H.
  assert (Hns : length ns = n /\ forallb (fun s => negb (is_nil s)) ns = true).
  { unfold read_header in Eh. destruct (str_eqb (l_first h) s_tiny); [|discriminate].
    destruct (l_fields h) as [|a [|b r]]; try discriminate.
    destruct (str_eqb a [c_2] && str_eqb b [c_0]); [|discriminate].
    unfold into_namespaces in Eh. destruct (Nat.eqb (length r) n) eqn:El; [|discriminate].
    cbn [andb] in Eh. destruct (forallb (fun s => negb (is_nil s)) r) eqn:Ef; [|discriminate]. injection Eh as <-.
    apply Nat.eqb_eq in El. auto. }
  destruct Hns as [Hlen Hne].
  pose proof (interp_top_exact n _ _ _ H) as (E1 & _ & _). cbn [ms_ns] in E1.
  assert (Hcw : classes_wf n M = true) by (apply (interp_top_wf n tops (mkMappings ns doc []) M); [reflexivity|exact H]).
  unfold classes_wf in Hcw. apply andb_true_iff in Hcw. destruct Hcw as [Hcs Hnd].
  split; [|rewrite E1; exact Hlen].
  unfold wf. cbv zeta. rewrite E1, Hlen.
  apply Nat.ltb_ge in En2. apply Nat.leb_le in En2. rewrite En2. cbn [andb].
  assert (Hne' : forallb (fun s => negb match s with [] => true | _ :: _ => false end) ns = true) by exact Hne.
  rewrite Hne', Hcs, Hnd. reflexivity.
Qed.

(* (c) a text whose structural decoding has a duplicate key (two `c` lines at depth 0 with the
   same first name, two `f` / `m` lines of one class with the same first name and descriptor, two
   `p` lines of one method with the same index), a missing first name or a short row is rejected *)
Theorem read_dup_key_err n t h hsub tops :
  map tiny_line (raw_lines t) = h :: flatten hsub ++ flatten tops ->
  depth_ok 1 hsub -> depth_ok 0 tops ->
  wf (skeleton h hsub tops) = false ->
  read n t = Err.
Proof.
  intros El D1 D0 Hnwf. destruct (read n t) as [M|] eqn:Er; [|reflexivity]. exfalso.
  pose proof (read_ok_wf n t M Er) as [Hwf _].
  destruct (read_exact n t M Er) as (h' & hsub' & tops' & El' & D1' & D0' & ->).
  rewrite El in El'. injection El' as <- Ebody.
  (* the forest is determined by the lines *)
  assert (Hst : forall f : forest, depth_ok 0 f -> stops 1 (flatten f)).
  { intros f. destruct f as [|l ch sib]; cbn [flatten stops depth_ok]; [auto|]. intros (-> & _). lia. }
  assert (B : build (S (length (flatten hsub ++ flatten tops))) 1 (flatten hsub ++ flatten tops) = Ok (hsub, flatten tops)).
  { apply build_flatten; [exact D1|apply Hst; exact D0|apply Nat.lt_succ_diag_r]. }
  assert (B' : build (S (length (flatten hsub ++ flatten tops))) 1 (flatten hsub' ++ flatten tops') = Ok (hsub', flatten tops')).
  { apply build_flatten; [exact D1'|apply Hst; exact D0'|rewrite <- Ebody; apply Nat.lt_succ_diag_r]. }
  rewrite <- Ebody, B in B'. injection B' as <- Etops.
  assert (C : build (S (length (flatten tops))) 0 (flatten tops ++ []) = Ok (tops, [])).
  { apply build_flatten; [exact D0|exact I|rewrite app_nil_r; apply Nat.lt_succ_diag_r]. }
  assert (C' : build (S (length (flatten tops))) 0 (flatten tops' ++ []) = Ok (tops', [])).
  { apply build_flatten; [exact D0'|exact I|rewrite app_nil_r, <- Etops; apply Nat.lt_succ_diag_r]. }
  rewrite <- Etops, C in C'. injection C' as <-.
  congruence.
Qed.

(* non-vacuity of (c): the same class line twice; the same field twice under one class *)
Definition dup_class_text : text :=
  (* tiny 2 0 a b / c A B / c A C *)
  [116;105;110;121;9;50;9;48;9;97;9;98;10; 99;9;65;9;66;10; 99;9;65;9;67;10].
Definition dup_field_text : text :=
  (* tiny 2 0 a b / c A B / <tab>f I x y / <tab>f I x z *)
  [116;105;110;121;9;50;9;48;9;97;9;98;10; 99;9;65;9;66;10; 9;102;9;73;9;120;9;121;10; 9;102;9;73;9;120;9;122;10].

Definition dup_examples : Prop :=
  read 2 dup_class_text = Err /\ read 2 dup_field_text = Err
  /\ (exists h tops, map tiny_line (raw_lines dup_class_text) = h :: flatten FNil ++ flatten tops
        /\ depth_ok 0 tops /\ length (classes_of tops) = 2%nat /\ wf (skeleton h FNil tops) = false).

Lemma dup_examples_hold : dup_examples.
Proof.
  split; [vm_compute; reflexivity|]. split; [vm_compute; reflexivity|].
  exists (mkLine 0 s_tiny [[50]; [48]; [97]; [98]]).
  exists (FNode (mkLine 0 [99] [[65]; [66]]) FNil (FNode (mkLine 0 [99] [[65]; [67]]) FNil FNil)).
  split; [vm_compute; reflexivity|].
  split; [cbn; auto|]. split; vm_compute; reflexivity.
Qed.
