(* C03 model: quill/src/tiny_v2.rs (read, write, escape, unescape, add_comment),
   quill/src/lines.rs (TinyLine, WithMoreIdentIter), the parts of quill/src/tree/mappings.rs and
   quill/src/tree/mod.rs they use (add_child, get_key, Names / Namespaces conversions).
   The mapping tree itself is the shared model FB.Quill.Mappings; the validity predicates of the
   name types (ObjClassName, FieldName, MethodName, ParameterName: `TryFrom<JavaString>` calls
   `check_valid`) are those of FB.C18.Model.  Definitions only; proofs are in Theory*.v.

   The model follows the code after the two repairs made for this property
   (1ac2bb2: escape table  \\ \n \r \t ;  29d9cf3: the reader accepts the header sub-section). *)
From FB Require Export Base.Str Base.Run Base.Sort Quill.Mappings C18.Model.

Definition text := str.

(* letters used by the format *)
Definition c_c : N := 99.  Definition c_f : N := 102. Definition c_m : N := 109.
Definition c_p : N := 112. Definition c_n : N := 110. Definition c_r : N := 114.
Definition c_t : N := 116. Definition c_0 : N := 48.  Definition c_2 : N := 50.
Definition c_PLUS : N := 43.
Definition s_tiny : str := [116; 105; 110; 121].

(* ------------------------------------------------------------------------------------------ *)
(* escape / unescape (tiny_v2.rs, table ESCAPES)                                               *)

Definition esc_char (c : N) : option N :=
  if N.eqb c cBSLASH then Some cBSLASH
  else if N.eqb c cLF then Some c_n
  else if N.eqb c cCR then Some c_r
  else if N.eqb c cTAB then Some c_t
  else None.

Definition unesc_char (e : N) : option N :=
  if N.eqb e cBSLASH then Some cBSLASH
  else if N.eqb e c_n then Some cLF
  else if N.eqb e c_r then Some cCR
  else if N.eqb e c_t then Some cTAB
  else None.

Fixpoint escape (s : str) : str :=
  match s with
  | [] => []
  | c :: s' => match esc_char c with
               | Some e => cBSLASH :: e :: escape s'
               | None => c :: escape s'
               end
  end.

(* `while let Some(c) = chars.next()`: a backslash followed by a known escape letter is
   replaced, every other character (also a backslash before anything else, or at the end) is kept *)
Fixpoint unescape (s : str) : str :=
  match s with
  | [] => []
  | c :: s' =>
      if N.eqb c cBSLASH then
        match s' with
        | e :: s'' => match unesc_char e with
                      | Some x => x :: unescape s''
                      | None => c :: unescape s'
                      end
        | [] => [c]
        end
      else c :: unescape s'
  end.

(* ------------------------------------------------------------------------------------------ *)
(* what `Display` does with names and descriptors                                              *)

(* a Unicode scalar value: what a Rust `char` / valid UTF-8 can hold *)
Definition is_scalar (c : N) : bool := N.ltb c 55296 || (N.ltb 57343 c && N.ltb c 1114112).
Definition scalar_only (s : str) : bool := forallb is_scalar s.
(* `JavaStr: Display` goes through as_str_lossy: every unpaired surrogate becomes U+FFFD.
   (descriptors are written with `desc.as_inner()`, i.e. by this impl) *)
Definition lossy (s : str) : str := map (fun c => if is_scalar c then c else 65533) s.
(* names are written through duke's make_display!, which fails with fmt::Error on a surrogate;
   io::Write::write_fmt then PANICS ("a formatting trait implementation returned an error when
   the underlying stream did not").  [write] below answers Err for that outcome. *)

(* decimal printing of usize (`{}` on parameter.info.index) *)
Fixpoint dec_fuel (fuel : nat) (n : N) : str :=
  match fuel with
  | O => []
  | S f => if N.ltb n 10 then [c_0 + n] else dec_fuel f (n / 10) ++ [c_0 + n mod 10]
  end.
Definition dec (n : N) : str := dec_fuel (S (N.to_nat (N.size n))) n.

(* `str::parse::<usize>()`: optional `+`, at least one ASCII digit, value below 2^64 *)
Definition digit_val (c : N) : option N :=
  if N.leb c_0 c && N.leb c 57 then Some (c - c_0) else None.
Fixpoint parse_digits (acc : N) (s : str) : option N :=
  match s with
  | [] => Some acc
  | c :: s' => match digit_val c with
               | Some d => parse_digits (acc * 10 + d) s'
               | None => None
               end
  end.
Definition usize_max1 : N := 18446744073709551616.  (* 2^64 *)
Definition parse_usize (s : str) : res N :=
  let digits := match s with
                | c :: r => if N.eqb c c_PLUS then r else s
                | [] => []
                end in
  match digits with
  | [] => Err
  | _ => match parse_digits 0 digits with
         | Some v => if N.ltb v usize_max1 then Ok v else Err
         | None => Err
         end
  end.

(* ------------------------------------------------------------------------------------------ *)
(* write                                                                                       *)

Definition tabs (k : nat) : str := repeat cTAB k.

(* write_names: a TAB before every cell, nothing for an absent name *)
Definition cell_str (o : option str) : str := match o with Some s => s | None => [] end.
Definition names_cells (l : names) : str := flat_map (fun o => cTAB :: cell_str o) l.
(* write_namespaces *)
Definition ns_cells (l : list str) : str := flat_map (fun s => cTAB :: s) l.

Definition doc_lines (k : nat) (d : option str) : list str :=
  match d with
  | Some s => [tabs k ++ c_c :: cTAB :: escape s]
  | None => []
  end.

Definition class_le (a b : class) : bool := is_le (class_cmp a b).
Definition field_le (a b : field) : bool := is_le (field_cmp a b).
Definition meth_le (a b : meth) : bool := is_le (meth_cmp a b).
Definition param_le (a b : param) : bool := is_le (param_cmp a b).

Definition param_lines (p : param) : list str :=
  (tabs 2 ++ c_p :: cTAB :: dec (p_index p) ++ names_cells (p_names p)) :: doc_lines 3 (p_doc p).
Definition field_lines (f : field) : list str :=
  (tabs 1 ++ c_f :: cTAB :: lossy (f_desc f) ++ names_cells (f_names f)) :: doc_lines 2 (f_doc f).
Definition meth_lines (m : meth) : list str :=
  (tabs 1 ++ c_m :: cTAB :: lossy (m_desc m) ++ names_cells (m_names m))
    :: doc_lines 2 (m_doc m) ++ flat_map param_lines (isort param_le (m_params m)).
Definition class_lines (c : class) : list str :=
  (c_c :: names_cells (c_names c))
    :: doc_lines 1 (c_doc c)
    ++ flat_map field_lines (isort field_le (c_fields c))
    ++ flat_map meth_lines (isort meth_le (c_methods c)).
Definition header_line (ns : list str) : str := s_tiny ++ cTAB :: c_2 :: cTAB :: c_0 :: ns_cells ns.
Definition write_lines (M : mappings) : list str :=
  header_line (ms_ns M) :: doc_lines 1 (ms_doc M) ++ flat_map class_lines (isort class_le (ms_classes M)).

(* writeln!: every line is followed by LF *)
Definition unlines (ls : list str) : text := flat_map (fun l => l ++ [cLF]) ls.

(* the names that go through duke's Display (see above) *)
Definition names_scalar (l : names) : bool := forallb (fun o => scalar_only (cell_str o)) l.
Definition meth_scalar (m : meth) : bool :=
  names_scalar (m_names m) && forallb (fun p => names_scalar (p_names p)) (m_params m).
Definition class_scalar (c : class) : bool :=
  names_scalar (c_names c) && forallb (fun f => names_scalar (f_names f)) (c_fields c)
  && forallb meth_scalar (c_methods c).
Definition all_names_scalar (M : mappings) : bool := forallb class_scalar (ms_classes M).

(* check_field / check_desc / check_names / check_fields (after the repairs of round 5): before anything
   is written, `write` walks over every namespace, name and descriptor and fails (anyhow error) if one of
   them contains a TAB or a LF or ends with a CR — the field would not be read back as it is —
   and if a descriptor holds an unpaired surrogate (it would be written as U+FFFD, see [lossy]). *)
Definition no_tab_lf (s : str) : bool := forallb (fun c => negb (N.eqb c cTAB) && negb (N.eqb c cLF)) s.
Fixpoint ends_cr (s : str) : bool :=
  match s with
  | [] => false
  | [c] => N.eqb c cCR
  | _ :: s' => ends_cr s'
  end.
(* check_field *)
Definition cell_ok (s : str) : bool := no_tab_lf s && negb (ends_cr s).
(* check_desc *)
Definition desc_ok (s : str) : bool := cell_ok s && scalar_only s.
(* check_names: the names that are present *)
Definition names_checked (l : names) : bool := forallb (fun o => cell_ok (cell_str o)) l.
Definition meth_checked (m : meth) : bool :=
  desc_ok (m_desc m) && names_checked (m_names m) && forallb (fun p => names_checked (p_names p)) (m_params m).
Definition field_checked (f : field) : bool := desc_ok (f_desc f) && names_checked (f_names f).
Definition class_checked (c : class) : bool :=
  names_checked (c_names c) && forallb field_checked (c_fields c) && forallb meth_checked (c_methods c).
(* check_fields *)
Definition fields_checked (M : mappings) : bool := forallb cell_ok (ms_ns M) && forallb class_checked (ms_classes M).

(* the sets the writer writes: every field passes the check, and no name makes Display fail *)
Definition writable (M : mappings) : bool := fields_checked M && all_names_scalar M.

(* write_string / write_vec.  Ok t: the text;  Err: no text is produced — the error of check_fields, or
   (for a set that passes it) the panic described above; writing into a Vec has no other failure.
   [C03.Run.write_res] tells the two apart for the correspondence. *)
Definition write (M : mappings) : res text :=
  if writable M then Ok (unlines (write_lines M)) else Err.

(* ------------------------------------------------------------------------------------------ *)
(* read: lines                                                                                 *)

(* BufRead::lines on the decoded text: split at LF, the LF is removed and, if the line then ends
   in CR, that one CR too; a last line without LF is kept as it is (its CR stays); no line after
   the final LF *)
Fixpoint raw_lines (s : text) : list str :=
  match s with
  | [] => []
  | c :: s' =>
      if N.eqb c cLF then [] :: raw_lines s'
      else if N.eqb c cCR && starts_with [cLF] s' then raw_lines s'
      else match raw_lines s' with
           | l :: ls => (c :: l) :: ls
           | [] => [[c]]
           end
  end.

(* TinyLine::new *)
Record tline := mkLine { l_ind : nat; l_first : str; l_fields : list str }.

Fixpoint count_tabs (s : str) : nat * str :=
  match s with
  | c :: s' => if N.eqb c cTAB then let (k, r) := count_tabs s' in (S k, r) else (O, s)
  | [] => (O, [])
  end.

Definition tiny_line (s : str) : tline :=
  let (k, r) := count_tabs s in
  match split_on cTAB r with
  | f :: fs => mkLine k f fs
  | [] => mkLine k [] []      (* unreachable: split_on never returns [] *)
  end.

(* TinyLine::end: exactly one more field *)
Definition line_end (l : tline) : res str :=
  match l_fields l with [s] => Ok s | _ => Err end.

(* TinyLine::into_names: empty cell = absent name, otherwise T::try_from (check_valid);
   exactly n cells *)
Definition cell (valid : str -> bool) (s : str) : res (option str) :=
  match s with
  | [] => Ok None
  | _ => if valid s then Ok (Some s) else Err
  end.
Fixpoint cells (valid : str -> bool) (l : list str) : res names :=
  match l with
  | [] => Ok []
  | s :: l' => do o <- cell valid s; do r <- cells valid l'; Ok (o :: r)
  end.
Definition into_names (n : nat) (valid : str -> bool) (fs : list str) : res names :=
  do r <- cells valid fs; if Nat.eqb (length r) n then Ok r else Err.

(* TinyLine::into_namespaces: exactly n fields, none empty *)
Definition into_namespaces (n : nat) (fs : list str) : res (list str) :=
  if Nat.eqb (length fs) n && forallb (fun s => negb (is_nil s)) fs then Ok fs else Err.

(* ------------------------------------------------------------------------------------------ *)
(* read: the indentation-driven nested iterator                                                *)

(* WithMoreIdentIter.  A loop at depth d looks at the next line: fewer tabs -> the loop ends and
   the line is left for the enclosing loop; exactly d -> the line is handled (and the handler may
   run a loop at depth d+1 over what follows); more -> error.  The model separates the two
   concerns: [build] groups the lines into a forest (first child / next sibling), [interp_*] are
   the handlers.  A handler that does not descend (`next_level` is not called: unknown tag,
   comment line) must find no deeper line behind its line — in the code that deeper line meets
   the "expected an indentation of d" error of the same loop; the handlers below check
   [ch = FNil] for it.  Only Ok/Err is modelled, so which of two errors comes first is immaterial. *)
Inductive forest := FNil | FNode (l : tline) (children : forest) (siblings : forest).

Fixpoint build (fuel : nat) (d : nat) (ls : list tline) : res (forest * list tline) :=
  match fuel with
  | O => Err
  | S f =>
      match ls with
      | [] => Ok (FNil, [])
      | l :: ls' =>
          match Nat.compare (l_ind l) d with
          | Lt => Ok (FNil, ls)
          | Gt => Err
          | Eq =>
              match build f (S d) ls' with
              | Ok (ch, r1) =>
                  match build f d r1 with
                  | Ok (sib, r2) => Ok (FNode l ch sib, r2)
                  | Err => Err
                  end
              | Err => Err
              end
          end
      end
  end.

Definition tag_is (t : N) (l : tline) : bool := str_eqb (l_first l) [t].

(* sub-sections that only know comment lines: below the header, a field, a parameter.
   add_comment: `line.end()`, unescape, a second comment is an error *)
Fixpoint interp_comments (doc : option str) (f : forest) : res (option str) :=
  match f with
  | FNil => Ok doc
  | FNode l FNil sib =>
      if tag_is c_c l then
        match line_end l, doc with
        | Ok s, None => interp_comments (Some (unescape s)) sib
        | _, _ => Err
        end
      else interp_comments doc sib
  | FNode _ _ _ => Err
  end.

Definition set_m_doc (m : meth) (d : option str) : meth := mkMeth (m_desc m) (m_names m) d (m_params m).
Definition add_m_param (m : meth) (p : param) : meth := mkMeth (m_desc m) (m_names m) (m_doc m) (m_params m ++ [p]).
Definition set_c_doc (c : class) (d : option str) : class := mkClass (c_names c) d (c_fields c) (c_methods c).
Definition add_c_field (c : class) (f : field) : class := mkClass (c_names c) (c_doc c) (c_fields c ++ [f]) (c_methods c).
Definition add_c_meth (c : class) (m : meth) : class := mkClass (c_names c) (c_doc c) (c_fields c) (c_methods c ++ [m]).
Definition add_class (M : mappings) (c : class) : mappings := mkMappings (ms_ns M) (ms_doc M) (ms_classes M ++ [c]).

(* the loop below a method line: `p` lines and the method's comment *)
Fixpoint interp_meth (n : nat) (m : meth) (f : forest) : res meth :=
  match f with
  | FNil => Ok m
  | FNode l ch sib =>
      if tag_is c_p l then
        match l_fields l with
        | idx :: rest =>
            do i <- parse_usize idx;
            do nm <- into_names n is_valid_unqualified_name rest;
            (* add_parameter: key = index *)
            if existsb (N.eqb i) (map param_key (m_params m)) then Err
            else do d <- interp_comments None ch;
                 interp_meth n (add_m_param m (mkParam i nm d)) sib
        | [] => Err
        end
      else match ch with
           | FNil =>
               if tag_is c_c l then
                 match line_end l, m_doc m with
                 | Ok s, None => interp_meth n (set_m_doc m (Some (unescape s))) sib
                 | _, _ => Err
                 end
               else interp_meth n m sib
           | _ => Err
           end
  end.

(* the loop below a class line *)
Fixpoint interp_class (n : nat) (c : class) (f : forest) : res class :=
  match f with
  | FNil => Ok c
  | FNode l ch sib =>
      if tag_is c_f l then
        match l_fields l with
        | desc :: rest =>
            do nm <- into_names n is_valid_unqualified_name rest;
            let fd := mkField desc nm None in
            (* add_field: get_key needs the first name; the key must be new *)
            match field_key fd with
            | None => Err
            | Some k =>
                if existsb (okey_eqb key2_eqb (Some k)) (map field_key (c_fields c)) then Err
                else do d <- interp_comments None ch;
                     interp_class n (add_c_field c (mkField desc nm d)) sib
            end
        | [] => Err
        end
      else if tag_is c_m l then
        match l_fields l with
        | desc :: rest =>
            do nm <- into_names n is_valid_method_name rest;
            let m0 := mkMeth desc nm None [] in
            match meth_key m0 with
            | None => Err
            | Some k =>
                if existsb (okey_eqb key2_eqb (Some k)) (map meth_key (c_methods c)) then Err
                else do m <- interp_meth n m0 ch;
                     interp_class n (add_c_meth c m) sib
            end
        | [] => Err
        end
      else match ch with
           | FNil =>
               if tag_is c_c l then
                 match line_end l, c_doc c with
                 | Ok s, None => interp_class n (set_c_doc c (Some (unescape s))) sib
                 | _, _ => Err
                 end
               else interp_class n c sib
           | _ => Err
           end
  end.

(* the outermost loop *)
Fixpoint interp_top (n : nat) (M : mappings) (f : forest) : res mappings :=
  match f with
  | FNil => Ok M
  | FNode l ch sib =>
      if tag_is c_c l then
        do nm <- into_names n is_valid_obj_class_name (l_fields l);
        let c0 := mkClass nm None [] [] in
        match class_key c0 with
        | None => Err
        | Some k =>
            if existsb (okey_eqb str_eqb (Some k)) (map class_key (ms_classes M)) then Err
            else do c <- interp_class n c0 ch;
                 interp_top n (add_class M c) sib
        end
      else match ch with
           | FNil => interp_top n M sib
           | _ => Err
           end
  end.

(* the header line: `tiny`, `2`, `0`, then the namespaces; its own indentation is not looked at *)
Definition read_header (n : nat) (l : tline) : res (list str) :=
  if str_eqb (l_first l) s_tiny then
    match l_fields l with
    | a :: b :: ns => if str_eqb a [c_2] && str_eqb b [c_0] then into_namespaces n ns else Err
    | _ => Err
    end
  else Err.

(* tiny_v2::read::<N, _> on the decoded text *)
Definition read (n : nat) (t : text) : res mappings :=
  if Nat.ltb n 2 then Err else
  match map tiny_line (raw_lines t) with
  | [] => Err                                   (* "no header line" *)
  | h :: body =>
      do ns <- read_header n h;
      let fuel := S (length body) in
      (* header sub-section (depth 1), then the classes (depth 0) *)
      match build fuel 1 body with
      | Ok (hsub, rest) =>
          do doc <- interp_comments None hsub;
          match build fuel 0 rest with
          | Ok (tops, []) => interp_top n (mkMappings ns doc []) tops
          | _ => Err                            (* "expected end of input" (unreachable) *)
          end
      | Err => Err
      end
  end.

(* ------------------------------------------------------------------------------------------ *)
(* decidable hypotheses of the round-trip theorems (beside [wf] of Quill/Mappings.v)           *)

(* a cell of a line ([cell_ok], defined with the writer's check above): no TAB (ends the cell), no LF
   (ends the line), and no CR at the very end (a cell that is last in its line would lose it to the
   line reader) *)

(* a name: a cell, made of scalar values (else it cannot be written as UTF-8), accepted by the
   name type's check_valid (the reader goes through the checked constructors) *)
Definition name_ok (valid : str -> bool) (s : str) : bool := cell_ok s && scalar_only s && valid s.
Definition names_textual (valid : str -> bool) (l : names) : bool :=
  forallb (fun o => match o with Some s => name_ok valid s | None => true end) l.
(* descriptors are not validated by the reader (FieldDescriptor::check_valid accepts everything);
   [desc_ok] is the writer's check_desc above *)

Definition textual_param (p : param) : bool :=
  N.ltb (p_index p) usize_max1 && names_textual is_valid_unqualified_name (p_names p).
Definition textual_field (f : field) : bool :=
  desc_ok (f_desc f) && names_textual is_valid_unqualified_name (f_names f).
Definition textual_meth (m : meth) : bool :=
  desc_ok (m_desc m) && names_textual is_valid_method_name (m_names m) && forallb textual_param (m_params m).
Definition textual_class (c : class) : bool :=
  names_textual is_valid_obj_class_name (c_names c)
  && forallb textual_field (c_fields c) && forallb textual_meth (c_methods c).
(* no condition on comments: every string is escaped into a cell *)
Definition textual (M : mappings) : bool :=
  forallb cell_ok (ms_ns M) && forallb textual_class (ms_classes M).

(* what the TYPES of a quill tree guarantee, whatever the strings are: every name passed the check_valid of its
   type (the checked constructors; a tree that fails this needs `from_inner_unchecked`), a parameter index is a usize *)
Definition names_typed (valid : str -> bool) (l : names) : bool :=
  forallb (fun o => match o with Some s => valid s | None => true end) l.
Definition typed_param (p : param) : bool :=
  N.ltb (p_index p) usize_max1 && names_typed is_valid_unqualified_name (p_names p).
Definition typed_field (f : field) : bool := names_typed is_valid_unqualified_name (f_names f).
Definition typed_meth (m : meth) : bool :=
  names_typed is_valid_method_name (m_names m) && forallb typed_param (m_params m).
Definition typed_class (c : class) : bool :=
  names_typed is_valid_obj_class_name (c_names c)
  && forallb typed_field (c_fields c) && forallb typed_meth (c_methods c).
Definition typed (M : mappings) : bool := forallb typed_class (ms_classes M).
