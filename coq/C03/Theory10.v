(* C03 theory, part 10: the byte level.  UTF-8 encoding and strict decoding are inverse to each
   other; the reader on bytes (split the bytes into lines, validate each line) is the reader on
   code points applied to the decoded text, and rejects everything that is not UTF-8; the
   escaping functions and the cell splitter, which the Rust code runs on `str`, commute with the
   encoding (so they never cut a multi-byte character). *)
From FB Require Import C03.Model C03.ModelBytes C03.Theory1.
From Coq Require Import Lia.

Arguments N.add : simpl never.
Arguments N.mul : simpl never.
Arguments N.sub : simpl never.
Arguments N.div : simpl never.
Arguments N.modulo : simpl never.
Arguments N.ltb : simpl never.
Arguments N.leb : simpl never.
Arguments N.eqb : simpl never.

Ltac dm c k :=
  let q := fresh "q" in let r := fresh "r" in
  pose proof (N.div_mod' c k); pose proof (N.mod_lt c k ltac:(discriminate));
  set (q := c / k) in *; set (r := c mod k) in *; clearbody q r.

Lemma ltb_t a b : a < b -> N.ltb a b = true. Proof. apply N.ltb_lt. Qed.
Lemma ltb_f a b : b <= a -> N.ltb a b = false. Proof. apply N.ltb_ge. Qed.
Lemma leb_t a b : a <= b -> N.leb a b = true. Proof. apply N.leb_le. Qed.
Lemma leb_f a b : b < a -> N.leb a b = false. Proof. apply N.leb_gt. Qed.
Lemma cont_t b : 128 <= b -> b < 192 -> is_cont b = true.
Proof. intros H1 H2. unfold is_cont. rewrite leb_t, ltb_t by assumption. reflexivity. Qed.
Lemma cont_bounds b : is_cont b = true -> 128 <= b /\ b < 192.
Proof. unfold is_cont. intros H. apply andb_true_iff in H. destruct H as [H1 H2]. apply N.leb_le in H1. apply N.ltb_lt in H2. auto. Qed.

Lemma is_scalar_cases c : is_scalar c = true -> c < 55296 \/ (57343 < c /\ c < 1114112).
Proof.
  unfold is_scalar. intros H. apply orb_true_iff in H. destruct H as [H|H].
  - left. apply N.ltb_lt. exact H.
  - right. apply andb_true_iff in H. destruct H as [H1 H2]. split; apply N.ltb_lt; assumption.
Qed.
Lemma is_scalar_intro c : c < 55296 \/ (57343 < c /\ c < 1114112) -> is_scalar c = true.
Proof.
  unfold is_scalar. intros [H|[H1 H2]].
  - rewrite (ltb_t _ _ H). reflexivity.
  - rewrite (ltb_t _ _ H1), (ltb_t _ _ H2), orb_true_r. reflexivity.
Qed.

(* ------------------------------------------------------------------------------------------ *)
(* decode after encode                                                                         *)

Lemma decode_enc c rest : is_scalar c = true ->
  utf8_decode (enc_char c ++ rest) = option_map (cons c) (utf8_decode rest).
Proof.
  intros Hs. apply is_scalar_cases in Hs. unfold enc_char.
  destruct (N.ltb c 128) eqn:E1.
  { cbn [app utf8_decode]. rewrite E1. reflexivity. }
  apply N.ltb_ge in E1.
  destruct (N.ltb c 2048) eqn:E2.
  { apply N.ltb_lt in E2. dm c 64. cbn [app utf8_decode].
    rewrite (ltb_f (192 + q) 128), (ltb_f (192 + q) 194), (ltb_t (192 + q) 224), (cont_t (128 + r)) by lia.
    replace ((192 + q - 192) * 64 + (128 + r - 128)) with c by lia. reflexivity. }
  apply N.ltb_ge in E2.
  destruct (N.ltb c 65536) eqn:E3.
  { apply N.ltb_lt in E3. dm c 4096. dm c 64. dm q0 64. cbn [app utf8_decode]. cbv zeta.
    rewrite (ltb_f (224 + q) 128), (ltb_f (224 + q) 194), (ltb_f (224 + q) 224), (ltb_t (224 + q) 240),
      (cont_t (128 + r1)), (cont_t (128 + r0)) by lia.
    replace ((224 + q - 224) * 4096 + (128 + r1 - 128) * 64 + (128 + r0 - 128)) with c by lia.
    rewrite (leb_t 2048 c) by lia. cbn [andb].
    assert (Hn : N.leb 55296 c && N.leb c 57343 = false).
    { destruct Hs as [Hs|[Hs _]]; [rewrite (leb_f 55296 c) by lia; reflexivity|rewrite (leb_f c 57343) by lia; apply andb_false_r]. }
    rewrite Hn. reflexivity. }
  apply N.ltb_ge in E3.
  assert (Hc : c < 1114112) by lia.
  dm c 262144. dm c 4096. dm q0 64. dm c 64. dm q2 64. cbn [app utf8_decode]. cbv zeta.
  rewrite (ltb_f (240 + q) 128), (ltb_f (240 + q) 194), (ltb_f (240 + q) 224), (ltb_f (240 + q) 240), (ltb_t (240 + q) 245),
    (cont_t (128 + r1)), (cont_t (128 + r3)), (cont_t (128 + r2)) by lia.
  replace ((240 + q - 240) * 262144 + (128 + r1 - 128) * 4096 + (128 + r3 - 128) * 64 + (128 + r2 - 128)) with c by lia.
  rewrite (leb_t 65536 c), (ltb_t c 1114112) by lia. reflexivity.
Qed.

Theorem utf8_decode_utf8 s : scalar_only s = true -> utf8_decode (utf8 s) = Some s.
Proof.
  induction s as [|c s IH]; intros H; [reflexivity|].
  cbn [scalar_only forallb] in H. apply andb_true_iff in H. destruct H as [Hc Hs].
  unfold utf8. cbn [flat_map]. rewrite (decode_enc c _ Hc). fold (utf8 s). rewrite (IH Hs). reflexivity.
Qed.

(* ------------------------------------------------------------------------------------------ *)
(* encode after decode: the decoder accepts nothing but encodings of scalar values            *)

Lemma div_u a b q r : r < b -> a = b * q + r -> a / b = q.
Proof. intros H1 H2. symmetry. apply (N.div_unique a b q r); assumption. Qed.
Lemma mod_u a b q r : r < b -> a = b * q + r -> a mod b = r.
Proof. intros H1 H2. symmetry. apply (N.mod_unique a b q r); assumption. Qed.

Lemma utf8_decode_exact_len k : forall bs s, (length bs <= k)%nat ->
  utf8_decode bs = Some s -> utf8 s = bs /\ scalar_only s = true.
Proof.
  induction k as [|k IH]; intros bs s Hlen H.
  { destruct bs; [|cbn [length] in Hlen; lia]. cbn [utf8_decode] in H. injection H as <-. split; reflexivity. }
  destruct bs as [|b r]; [cbn [utf8_decode] in H; injection H as <-; split; reflexivity|].
  cbn [length] in Hlen. cbn [utf8_decode] in H.
  destruct (N.ltb b 128) eqn:E1.
  { destruct (utf8_decode r) as [s'|] eqn:Er; [|discriminate]. cbn [option_map] in H. injection H as <-.
    destruct (IH r s' ltac:(lia) Er) as [Hu Hs]. apply N.ltb_lt in E1. split.
    - unfold utf8. cbn [flat_map]. fold (utf8 s'). rewrite Hu. unfold enc_char. rewrite (ltb_t b 128 E1). reflexivity.
    - cbn [scalar_only forallb]. fold (scalar_only s'). rewrite Hs, andb_true_r. apply is_scalar_intro. lia. }
  apply N.ltb_ge in E1.
  destruct (N.ltb b 194) eqn:E2; [discriminate|]. apply N.ltb_ge in E2.
  destruct (N.ltb b 224) eqn:E3.
  { apply N.ltb_lt in E3. destruct r as [|b1 r']; [discriminate|].
    destruct (is_cont b1) eqn:C1; [|discriminate]. apply cont_bounds in C1.
    destruct (utf8_decode r') as [s'|] eqn:Er; [|discriminate]. cbn [option_map] in H. injection H as <-.
    cbn [length] in Hlen. destruct (IH r' s' ltac:(lia) Er) as [Hu Hs].
    set (c := (b - 192) * 64 + (b1 - 128)).
    assert (Hc : 128 <= c /\ c < 2048) by (unfold c; lia).
    split.
    - unfold utf8. cbn [flat_map]. fold (utf8 s'). rewrite Hu. unfold enc_char.
      rewrite (ltb_f c 128), (ltb_t c 2048) by lia.
      rewrite (div_u c 64 (b - 192) (b1 - 128)), (mod_u c 64 (b - 192) (b1 - 128)) by (unfold c; lia).
      cbn [app]. f_equal; [lia|f_equal; lia].
    - cbn [scalar_only forallb]. fold (scalar_only s'). rewrite Hs, andb_true_r. apply is_scalar_intro. lia. }
  apply N.ltb_ge in E3.
  destruct (N.ltb b 240) eqn:E4.
  { apply N.ltb_lt in E4. destruct r as [|b1 [|b2 r']]; try discriminate. cbv zeta in H.
    set (c := (b - 224) * 4096 + (b1 - 128) * 64 + (b2 - 128)) in *.
    destruct (is_cont b1) eqn:C1; [|discriminate]. apply cont_bounds in C1.
    destruct (is_cont b2) eqn:C2; [|discriminate]. apply cont_bounds in C2.
    destruct (N.leb 2048 c) eqn:L1; [|discriminate]. apply N.leb_le in L1.
    destruct (N.leb 55296 c && N.leb c 57343) eqn:L2; [discriminate|]. cbn [andb negb] in H.
    destruct (utf8_decode r') as [s'|] eqn:Er; [|discriminate]. cbn [option_map] in H. injection H as <-.
    cbn [length] in Hlen. destruct (IH r' s' ltac:(lia) Er) as [Hu Hs].
    assert (Hc : c < 65536) by (unfold c; lia).
    assert (Hsc : c < 55296 \/ 57343 < c /\ c < 1114112).
    { apply andb_false_iff in L2. destruct L2 as [L2|L2]; apply N.leb_gt in L2; lia. }
    split.
    - unfold utf8. cbn [flat_map]. fold (utf8 s'). rewrite Hu. unfold enc_char.
      rewrite (ltb_f c 128), (ltb_f c 2048), (ltb_t c 65536) by lia.
      rewrite (div_u c 4096 (b - 224) ((b1 - 128) * 64 + (b2 - 128))) by (unfold c; lia).
      rewrite (div_u c 64 ((b - 224) * 64 + (b1 - 128)) (b2 - 128)), (mod_u c 64 ((b - 224) * 64 + (b1 - 128)) (b2 - 128)) by (unfold c; lia).
      rewrite (mod_u ((b - 224) * 64 + (b1 - 128)) 64 (b - 224) (b1 - 128)) by lia.
      cbn [app]. f_equal; [lia|f_equal; [lia|f_equal; lia]].
    - cbn [scalar_only forallb]. fold (scalar_only s'). rewrite Hs, andb_true_r. apply is_scalar_intro. exact Hsc. }
  apply N.ltb_ge in E4.
  destruct (N.ltb b 245) eqn:E5; [|discriminate]. apply N.ltb_lt in E5.
  destruct r as [|b1 [|b2 [|b3 r']]]; try discriminate. cbv zeta in H.
  set (c := (b - 240) * 262144 + (b1 - 128) * 4096 + (b2 - 128) * 64 + (b3 - 128)) in *.
  destruct (is_cont b1) eqn:C1; [|discriminate]. apply cont_bounds in C1.
  destruct (is_cont b2) eqn:C2; [|discriminate]. apply cont_bounds in C2.
  destruct (is_cont b3) eqn:C3; [|discriminate]. apply cont_bounds in C3.
  destruct (N.leb 65536 c) eqn:L1; [|discriminate]. apply N.leb_le in L1.
  destruct (N.ltb c 1114112) eqn:L2; [|discriminate]. apply N.ltb_lt in L2. cbn [andb] in H.
  destruct (utf8_decode r') as [s'|] eqn:Er; [|discriminate]. cbn [option_map] in H. injection H as <-.
  cbn [length] in Hlen. destruct (IH r' s' ltac:(lia) Er) as [Hu Hs].
  split.
  - unfold utf8. cbn [flat_map]. fold (utf8 s'). rewrite Hu. unfold enc_char.
    rewrite (ltb_f c 128), (ltb_f c 2048), (ltb_f c 65536) by lia.
    rewrite (div_u c 262144 (b - 240) ((b1 - 128) * 4096 + (b2 - 128) * 64 + (b3 - 128))) by (unfold c; lia).
    rewrite (div_u c 4096 ((b - 240) * 64 + (b1 - 128)) ((b2 - 128) * 64 + (b3 - 128))) by (unfold c; lia).
    rewrite (div_u c 64 ((b - 240) * 4096 + (b1 - 128) * 64 + (b2 - 128)) (b3 - 128)),
            (mod_u c 64 ((b - 240) * 4096 + (b1 - 128) * 64 + (b2 - 128)) (b3 - 128)) by (unfold c; lia).
    rewrite (mod_u ((b - 240) * 64 + (b1 - 128)) 64 (b - 240) (b1 - 128)) by lia.
    rewrite (mod_u ((b - 240) * 4096 + (b1 - 128) * 64 + (b2 - 128)) 64 ((b - 240) * 64 + (b1 - 128)) (b2 - 128)) by lia.
    cbn [app]. f_equal; [lia|f_equal; [lia|f_equal; [lia|f_equal; lia]]].
  - cbn [scalar_only forallb]. fold (scalar_only s'). rewrite Hs, andb_true_r. apply is_scalar_intro. lia.
Qed.

Theorem utf8_decode_exact bs s : utf8_decode bs = Some s -> utf8 s = bs /\ scalar_only s = true.
Proof. apply (utf8_decode_exact_len (length bs)). apply le_n. Qed.

Theorem utf8_decode_iff bs s : utf8_decode bs = Some s <-> (scalar_only s = true /\ utf8 s = bs).
Proof.
  split.
  - intros H. apply utf8_decode_exact in H. tauto.
  - intros [Hs <-]. apply utf8_decode_utf8. exact Hs.
Qed.

Theorem utf8_injective s s' : scalar_only s = true -> scalar_only s' = true -> utf8 s = utf8 s' -> s = s'.
Proof.
  intros H1 H2 E. pose proof (utf8_decode_utf8 s H1) as D1. rewrite E, (utf8_decode_utf8 s' H2) in D1.
  injection D1 as <-. reflexivity.
Qed.

Lemma utf8_app a b : utf8 (a ++ b) = utf8 a ++ utf8 b.
Proof. unfold utf8. apply flat_map_app. Qed.

(* ------------------------------------------------------------------------------------------ *)
(* bytes of a character: one ASCII byte, or bytes >= 128                                       *)

Definition high (b : N) : bool := N.leb 128 b.

Lemma high_add k x : 128 <= k -> high (k + x) = true.
Proof. intros H. unfold high. apply N.leb_le. lia. Qed.

Lemma enc_char_shape c : (c < 128 /\ enc_char c = [c]) \/ (128 <= c /\ forallb high (enc_char c) = true /\ enc_char c <> []).
Proof.
  unfold enc_char. destruct (N.ltb c 128) eqn:E1; [left; apply N.ltb_lt in E1; auto|]. right.
  apply N.ltb_ge in E1. split; [exact E1|].
  destruct (N.ltb c 2048); [|destruct (N.ltb c 65536)]; cbn [forallb];
    rewrite !high_add by lia; (split; [reflexivity|discriminate]).
Qed.

(* a function on strings that looks at single characters below 128 only, copies everything else *)
Lemma high_not (x : N) b : x < 128 -> high b = true -> N.eqb b x = false.
Proof. unfold high. intros Hx Hb. apply N.leb_le in Hb. apply N.eqb_neq. lia. Qed.

(* ------------------------------------------------------------------------------------------ *)
(* lines: splitting the bytes = splitting the text                                             *)

Definition plain_byte (b : N) : bool := negb (N.eqb b cLF) && negb (N.eqb b cCR).

Lemma raw_lines_plain_prefix p rest : forallb plain_byte p = true ->
  raw_lines (p ++ rest) = match p with
                          | [] => raw_lines rest
                          | _ => match raw_lines rest with l :: ls => (p ++ l) :: ls | [] => [p] end
                          end.
Proof.
  induction p as [|b p IH]; intros H; [reflexivity|].
  cbn [forallb] in H. apply andb_true_iff in H. destruct H as [Hb Hp].
  unfold plain_byte in Hb. apply andb_true_iff in Hb. destruct Hb as [H1 H2].
  apply negb_true_iff in H1. apply negb_true_iff in H2.
  cbn [app raw_lines]. rewrite H1, H2. cbn [andb]. rewrite (IH Hp).
  destruct p as [|b' p'].
  - cbn [app]. destruct (raw_lines rest); reflexivity.
  - destruct (raw_lines rest); reflexivity.
Qed.

Lemma high_plain p : forallb high p = true -> forallb plain_byte p = true.
Proof.
  intros H. rewrite forallb_forall in *. intros b Hb. specialize (H b Hb). unfold plain_byte.
  rewrite (high_not cLF b), (high_not cCR b) by (try exact H; unfold cLF, cCR; lia). reflexivity.
Qed.

Lemma starts_lf_utf8 t : starts_with [cLF] (utf8 t) = starts_with [cLF] t.
Proof.
  destruct t as [|c t]; [reflexivity|]. unfold utf8. cbn [flat_map].
  destruct (enc_char_shape c) as [[Hc ->]|(Hc & Hh & Hne)].
  - reflexivity.
  - destruct (enc_char c) as [|b r]; [congruence|]. cbn [app starts_with forallb] in *.
    apply andb_true_iff in Hh. destruct Hh as [Hb _].
    rewrite N.eqb_sym, (high_not cLF b) by (try exact Hb; unfold cLF; lia).
    assert (E : N.eqb cLF c = false) by (apply N.eqb_neq; unfold cLF; lia). rewrite E. reflexivity.
Qed.

Theorem raw_lines_utf8 t : raw_lines (utf8 t) = map utf8 (raw_lines t).
Proof.
  induction t as [|c t IH]; [reflexivity|].
  unfold utf8 at 1. cbn [flat_map]. fold (utf8 t).
  destruct (enc_char_shape c) as [[Hc Hec]|(Hc & Hh & Hne)].
  - rewrite Hec. cbn [app raw_lines]. rewrite starts_lf_utf8, IH.
    destruct (N.eqb c cLF); [reflexivity|]. destruct (N.eqb c cCR && starts_with [cLF] t); [reflexivity|].
    destruct (raw_lines t) as [|l ls]; cbn [map].
    + unfold utf8. cbn [flat_map]. rewrite Hec. reflexivity.
    + f_equal. unfold utf8. cbn [flat_map]. rewrite Hec. reflexivity.
  - rewrite (raw_lines_plain_prefix _ _ (high_plain _ Hh)), IH.
    cbn [raw_lines].
    assert (E1 : N.eqb c cLF = false) by (apply N.eqb_neq; unfold cLF; lia).
    assert (E2 : N.eqb c cCR = false) by (apply N.eqb_neq; unfold cCR; lia).
    rewrite E1, E2. cbn [andb].
    destruct (enc_char c) as [|b r] eqn:Ee; [congruence|].
    destruct (raw_lines t) as [|l ls]; cbn [map].
    + unfold utf8. cbn [flat_map]. rewrite Ee, app_nil_r. reflexivity.
    + f_equal. unfold utf8. cbn [flat_map]. rewrite Ee. reflexivity.
Qed.

Lemma raw_lines_scalar t : scalar_only t = true -> forallb scalar_only (raw_lines t) = true.
Proof.
  induction t as [|c t IH]; intros H; [reflexivity|].
  cbn [scalar_only forallb] in H. apply andb_true_iff in H. destruct H as [Hc Ht]. specialize (IH Ht).
  cbn [raw_lines]. destruct (N.eqb c cLF); [cbn [forallb]; exact IH|].
  destruct (N.eqb c cCR && starts_with [cLF] t); [exact IH|].
  destruct (raw_lines t) as [|l ls]; cbn [forallb scalar_only] in *.
  - rewrite Hc. reflexivity.
  - fold (scalar_only l) in *. rewrite Hc. exact IH.
Qed.

Lemma decode_lines_utf8 ls : forallb scalar_only ls = true -> decode_lines (map utf8 ls) = Some ls.
Proof.
  induction ls as [|l ls IH]; intros H; [reflexivity|].
  cbn [forallb] in H. apply andb_true_iff in H. destruct H as [Hl Hls].
  cbn [map decode_lines]. rewrite (utf8_decode_utf8 l Hl), (IH Hls). reflexivity.
Qed.

Lemma read_read_lines n t : read n t = read_lines n (raw_lines t).
Proof. reflexivity. Qed.

(* the bytes of a text are read as the text *)
Theorem read_bytes_utf8 n t : scalar_only t = true -> read_bytes n (utf8 t) = read n t.
Proof.
  intros H. unfold read_bytes. rewrite raw_lines_utf8, (decode_lines_utf8 _ (raw_lines_scalar t H)).
  symmetry. apply read_read_lines.
Qed.

(* ------------------------------------------------------------------------------------------ *)
(* whatever the byte reader accepts is the encoding of a text                                  *)

Definition valid_utf8 (bs : list N) : Prop := exists t, scalar_only t = true /\ bs = utf8 t.

Lemma valid_app a b : valid_utf8 a -> valid_utf8 b -> valid_utf8 (a ++ b).
Proof.
  intros (s & Hs & ->) (t & Ht & ->). exists (s ++ t). split; [|symmetry; apply utf8_app].
  unfold scalar_only in *. rewrite forallb_app, Hs, Ht. reflexivity.
Qed.
Lemma valid_ascii c : c < 128 -> valid_utf8 [c].
Proof.
  intros H. exists [c]. split.
  - cbn [scalar_only forallb]. rewrite (is_scalar_intro c) by lia. reflexivity.
  - unfold utf8. cbn [flat_map]. unfold enc_char. rewrite (ltb_t c 128 H). reflexivity.
Qed.
Lemma valid_decode bs : valid_utf8 bs <-> utf8_decode bs <> None.
Proof.
  split.
  - intros (t & Ht & ->). rewrite (utf8_decode_utf8 t Ht). discriminate.
  - intros H. destruct (utf8_decode bs) as [t|] eqn:E; [|congruence].
    apply utf8_decode_exact in E. exists t. destruct E as [<- Hs]. auto.
Qed.

(* the line reader on a first line *)
Definition strip_cr (l : list N) : list N := if ends_cr l then removelast l else l.

Lemma strip_cr_cons c l : l <> [] -> strip_cr (c :: l) = c :: strip_cr l.
Proof.
  intros Hl. unfold strip_cr. destruct l as [|d l]; [congruence|].
  change (ends_cr (c :: d :: l)) with (ends_cr (d :: l)).
  destruct (ends_cr (d :: l)); reflexivity.
Qed.

Lemma raw_lines_first l rest : no_lf l = true ->
  raw_lines (l ++ cLF :: rest) = strip_cr l :: raw_lines rest.
Proof.
  induction l as [|c l IH]; intros Hlf.
  - cbn [app raw_lines]. rewrite N.eqb_refl. reflexivity.
  - cbn [no_lf forallb] in Hlf. apply andb_true_iff in Hlf. destruct Hlf as [Hc Hlf].
    apply negb_true_iff in Hc. fold (no_lf l) in Hlf.
    cbn [app raw_lines]. rewrite Hc.
    destruct l as [|d l].
    + cbn [app starts_with]. rewrite N.eqb_refl. cbn [raw_lines]. rewrite N.eqb_refl.
      unfold strip_cr. cbn [ends_cr]. destruct (N.eqb c cCR); reflexivity.
    + assert (Hd : N.eqb cLF d = false).
      { cbn [no_lf forallb] in Hlf. apply andb_true_iff in Hlf. destruct Hlf as [Hd _].
        apply negb_true_iff in Hd. rewrite N.eqb_sym. exact Hd. }
      cbn [app starts_with]. rewrite Hd, andb_false_r.
      change (d :: l ++ cLF :: rest) with ((d :: l) ++ cLF :: rest). rewrite (IH Hlf).
      rewrite (strip_cr_cons c (d :: l)) by discriminate. reflexivity.
Qed.

Lemma raw_lines_last l : no_lf l = true -> raw_lines l = match l with [] => [] | _ => [l] end.
Proof.
  induction l as [|c l IH]; intros Hlf; [reflexivity|].
  cbn [no_lf forallb] in Hlf. apply andb_true_iff in Hlf. destruct Hlf as [Hc Hlf].
  apply negb_true_iff in Hc. fold (no_lf l) in Hlf.
  cbn [raw_lines]. rewrite Hc, (IH Hlf).
  assert (Hs : starts_with [cLF] l = false).
  { destruct l as [|d l]; [reflexivity|]. cbn [starts_with].
    cbn [no_lf forallb] in Hlf. apply andb_true_iff in Hlf. destruct Hlf as [Hd _].
    apply negb_true_iff in Hd. rewrite N.eqb_sym, Hd. reflexivity. }
  rewrite Hs, andb_false_r. destruct l; reflexivity.
Qed.

Lemma first_line_split bs : no_lf bs = true \/ exists l rest, bs = l ++ cLF :: rest /\ no_lf l = true.
Proof.
  induction bs as [|b bs IH]; [left; reflexivity|].
  destruct (N.eqb b cLF) eqn:Eb.
  - right. apply N.eqb_eq in Eb. subst b. exists [], bs. split; reflexivity.
  - destruct IH as [IH|(l & rest & -> & Hl)].
    + left. cbn [no_lf forallb]. rewrite Eb. exact IH.
    + right. exists (b :: l), rest. split; [reflexivity|]. cbn [no_lf forallb]. rewrite Eb. exact Hl.
Qed.

Lemma valid_strip_cr l : valid_utf8 (strip_cr l) -> valid_utf8 l.
Proof.
  unfold strip_cr. destruct (ends_cr l) eqn:E; [|auto]. intros H.
  assert (El : l = removelast l ++ [cCR]).
  { clear H. induction l as [|c l IH]; [discriminate|]. destruct l as [|d l].
    - cbn [ends_cr] in E. apply N.eqb_eq in E. subst. reflexivity.
    - change (ends_cr (c :: d :: l)) with (ends_cr (d :: l)) in E.
      change (removelast (c :: d :: l)) with (c :: removelast (d :: l)).
      cbn [app]. f_equal. apply IH. exact E. }
  rewrite El. apply valid_app; [exact H|]. apply valid_ascii. unfold cCR. lia.
Qed.

Lemma lines_valid_len k : forall bs, (length bs <= k)%nat -> decode_lines (raw_lines bs) <> None -> valid_utf8 bs.
Proof.
  induction k as [|k IH]; intros bs Hlen H.
  { destruct bs; [|cbn [length] in Hlen; lia]. exists []. split; reflexivity. }
  destruct (first_line_split bs) as [Hlf|(l & rest & -> & Hl)].
  - rewrite (raw_lines_last bs Hlf) in H. destruct bs as [|b bs']; [exists []; split; reflexivity|].
    cbn [decode_lines] in H. apply valid_decode. destruct (utf8_decode (b :: bs')); [discriminate|congruence].
  - rewrite (raw_lines_first l rest Hl) in H. cbn [decode_lines] in H.
    destruct (utf8_decode (strip_cr l)) as [a|] eqn:Ea; [|congruence].
    destruct (decode_lines (raw_lines rest)) as [b|] eqn:Eb; [|congruence].
    apply valid_app.
    + apply valid_strip_cr. apply valid_decode. rewrite Ea. discriminate.
    + change (cLF :: rest) with ([cLF] ++ rest). apply valid_app; [apply valid_ascii; unfold cLF; lia|].
      apply IH; [rewrite app_length in Hlen; cbn [length] in Hlen; lia|rewrite Eb; discriminate].
Qed.

(* the byte reader: Err on anything that is not UTF-8, the code-point reader otherwise *)
Theorem read_bytes_spec n bs :
  read_bytes n bs = match utf8_decode bs with Some t => read n t | None => Err end.
Proof.
  destruct (utf8_decode bs) as [t|] eqn:E.
  - apply utf8_decode_exact in E. destruct E as [<- Hs]. apply read_bytes_utf8. exact Hs.
  - unfold read_bytes. destruct (decode_lines (raw_lines bs)) as [ls|] eqn:El; [|reflexivity]. exfalso.
    assert (V : valid_utf8 bs) by (apply (lines_valid_len (length bs)); [apply le_n|rewrite El; discriminate]).
    apply valid_decode in V. congruence.
Qed.

Theorem read_bytes_ok n bs M : read_bytes n bs = Ok M ->
  exists t, scalar_only t = true /\ bs = utf8 t /\ read n t = Ok M.
Proof.
  rewrite read_bytes_spec. destruct (utf8_decode bs) as [t|] eqn:E; [|discriminate]. intros H.
  apply utf8_decode_exact in E. destruct E as [<- Hs]. exists t. auto.
Qed.

Theorem read_bytes_invalid_err n bs : utf8_decode bs = None -> read_bytes n bs = Err.
Proof. intros H. rewrite read_bytes_spec, H. reflexivity. Qed.

(* ------------------------------------------------------------------------------------------ *)
(* escape / unescape / cells run on `str` in Rust; on the bytes they do the same               *)

Lemma esc_char_high b : high b = true -> esc_char b = None.
Proof.
  intros H. unfold esc_char.
  rewrite (high_not cBSLASH b), (high_not cLF b), (high_not cCR b), (high_not cTAB b)
    by (try exact H; unfold cBSLASH, cLF, cCR, cTAB; lia). reflexivity.
Qed.

Lemma escape_app_high p rest : forallb high p = true -> escape (p ++ rest) = p ++ escape rest.
Proof.
  induction p as [|b p IH]; intros H; [reflexivity|].
  cbn [forallb] in H. apply andb_true_iff in H. destruct H as [Hb Hp].
  cbn [app escape]. rewrite (esc_char_high b Hb), (IH Hp). reflexivity.
Qed.

Lemma esc_char_lt c e : esc_char c = Some e -> c < 128 /\ e < 128.
Proof.
  unfold esc_char. destruct (N.eqb_spec c cBSLASH) as [->|_]; [intros [= <-]; unfold cBSLASH; lia|].
  destruct (N.eqb_spec c cLF) as [->|_]; [intros [= <-]; unfold cLF, c_n; lia|].
  destruct (N.eqb_spec c cCR) as [->|_]; [intros [= <-]; unfold cCR, c_r; lia|].
  destruct (N.eqb_spec c cTAB) as [->|_]; [intros [= <-]; unfold cTAB, c_t; lia|discriminate].
Qed.

Lemma enc_ascii c : c < 128 -> enc_char c = [c].
Proof. intros H. unfold enc_char. rewrite (ltb_t c 128 H). reflexivity. Qed.

Theorem escape_utf8 s : escape (utf8 s) = utf8 (escape s).
Proof.
  induction s as [|c s IH]; [reflexivity|].
  unfold utf8 at 1. cbn [flat_map]. fold (utf8 s). cbn [escape].
  destruct (enc_char_shape c) as [[Hc Hec]|(Hc & Hh & Hne)].
  - rewrite Hec. cbn [app escape]. rewrite IH. destruct (esc_char c) as [e|] eqn:Ee.
    + apply esc_char_lt in Ee. unfold utf8. cbn [flat_map].
      rewrite (enc_ascii cBSLASH), (enc_ascii e) by (unfold cBSLASH; lia). reflexivity.
    + unfold utf8. cbn [flat_map]. rewrite Hec. reflexivity.
  - rewrite (escape_app_high _ _ Hh), IH.
    assert (Ee : esc_char c = None).
    { destruct (esc_char c) as [e|] eqn:Ee; [|reflexivity]. apply esc_char_lt in Ee. lia. }
    rewrite Ee. reflexivity.
Qed.

Lemma unescape_app_high p rest : forallb high p = true -> unescape (p ++ rest) = p ++ unescape rest.
Proof.
  induction p as [|b p IH]; intros H; [reflexivity|].
  cbn [forallb] in H. apply andb_true_iff in H. destruct H as [Hb Hp].
  cbn [app unescape]. rewrite (high_not cBSLASH b) by (try exact Hb; unfold cBSLASH; lia).
  rewrite (IH Hp). reflexivity.
Qed.

Lemma unesc_char_lt e x : unesc_char e = Some x -> e < 128 /\ x < 128.
Proof.
  unfold unesc_char. destruct (N.eqb_spec e cBSLASH) as [->|_]; [intros [= <-]; unfold cBSLASH; lia|].
  destruct (N.eqb_spec e c_n) as [->|_]; [intros [= <-]; unfold cLF, c_n; lia|].
  destruct (N.eqb_spec e c_r) as [->|_]; [intros [= <-]; unfold cCR, c_r; lia|].
  destruct (N.eqb_spec e c_t) as [->|_]; [intros [= <-]; unfold cTAB, c_t; lia|discriminate].
Qed.

Lemma unesc_char_high b : high b = true -> unesc_char b = None.
Proof.
  intros H. destruct (unesc_char b) as [x|] eqn:E; [|reflexivity].
  apply unesc_char_lt in E. unfold high in H. apply N.leb_le in H. lia.
Qed.

Lemma unescape_utf8_len k : forall s, (length s <= k)%nat -> unescape (utf8 s) = utf8 (unescape s).
Proof.
  induction k as [|k IH]; intros s Hlen.
  { destruct s; [reflexivity|cbn [length] in Hlen; lia]. }
  destruct s as [|c s]; [reflexivity|]. cbn [length] in Hlen.
  unfold utf8 at 1. cbn [flat_map]. fold (utf8 s).
  destruct (enc_char_shape c) as [[Hc Hec]|(Hc & Hh & Hne)].
  - rewrite Hec. cbn [app]. cbn [unescape]. destruct (N.eqb c cBSLASH) eqn:Eb.
    + destruct s as [|e s'].
      * cbn [utf8 flat_map]. unfold utf8. cbn [flat_map]. rewrite Hec. reflexivity.
      * unfold utf8 at 1 2. cbn [flat_map]. fold (utf8 s').
        destruct (enc_char_shape e) as [[He Hee]|(He & Hhe & Hnee)].
        -- rewrite Hee. cbn [app]. destruct (unesc_char e) as [x|] eqn:Eu.
           ++ apply unesc_char_lt in Eu. cbn [length] in Hlen. rewrite (IH s') by lia.
              unfold utf8. cbn [flat_map]. rewrite (enc_ascii x) by lia. reflexivity.
           ++ change (e :: utf8 s') with ([e] ++ utf8 s'). rewrite <- Hee.
              change (enc_char e ++ utf8 s') with (utf8 (e :: s')). rewrite (IH (e :: s')) by (cbn [length] in *; lia).
              unfold utf8 at 2. cbn [flat_map]. rewrite Hec. reflexivity.
        -- destruct (enc_char e) as [|b r] eqn:Ee; [congruence|]. cbn [app].
           cbn [forallb] in Hhe. apply andb_true_iff in Hhe. destruct Hhe as [Hb Hr].
           rewrite (unesc_char_high b Hb).
           assert (Eu : unesc_char e = None).
           { destruct (unesc_char e) as [x|] eqn:Eu; [|reflexivity]. apply unesc_char_lt in Eu. lia. }
           rewrite Eu.
           change (b :: r ++ utf8 s') with ((b :: r) ++ utf8 s'). rewrite <- Ee.
           change (enc_char e ++ utf8 s') with (utf8 (e :: s')). rewrite (IH (e :: s')) by (cbn [length] in *; lia).
           unfold utf8 at 2. cbn [flat_map]. rewrite Hec. reflexivity.
    + rewrite (IH s) by lia. unfold utf8 at 2. cbn [flat_map]. rewrite Hec. reflexivity.
  - rewrite (unescape_app_high _ _ Hh), (IH s) by lia. cbn [unescape].
    assert (Eb : N.eqb c cBSLASH = false) by (apply N.eqb_neq; unfold cBSLASH; lia).
    rewrite Eb. reflexivity.
Qed.

Theorem unescape_utf8 s : unescape (utf8 s) = utf8 (unescape s).
Proof. apply (unescape_utf8_len (length s)). apply le_n. Qed.

(* hence, on the bytes of any string, unescape undoes escape *)
Theorem unescape_escape_bytes s : unescape (escape (utf8 s)) = utf8 s.
Proof. rewrite escape_utf8, unescape_utf8, unescape_escape. reflexivity. Qed.

(* TinyLine::new: `line[idents..]` with idents = number of leading TAB characters, then
   split('\t'): the byte offset is a character boundary and the cells are the cells of the text *)
Lemma split_on_app_high c p rest : c < 128 -> forallb high p = true -> p <> [] ->
  split_on c (p ++ rest) = match split_on c rest with l :: ls => (p ++ l) :: ls | [] => [p] end.
Proof.
  intros Hc. induction p as [|b p IH]; intros H Hne; [congruence|].
  cbn [forallb] in H. apply andb_true_iff in H. destruct H as [Hb Hp].
  cbn [app split_on]. rewrite (high_not c b Hc Hb).
  destruct p as [|b' p'].
  - cbn [app]. destruct (split_on c rest); reflexivity.
  - rewrite (IH Hp) by discriminate. destruct (split_on c rest); reflexivity.
Qed.

Theorem split_on_utf8 c s : c < 128 -> split_on c (utf8 s) = map utf8 (split_on c s).
Proof.
  intros Hc. induction s as [|x s IH]; [reflexivity|].
  unfold utf8 at 1. cbn [flat_map]. fold (utf8 s). cbn [split_on].
  destruct (enc_char_shape x) as [[Hx Hex]|(Hx & Hh & Hne)].
  - rewrite Hex. cbn [app split_on]. rewrite IH. destruct (N.eqb x c); [reflexivity|].
    destruct (split_on c s) as [|l ls]; cbn [map]; unfold utf8; cbn [flat_map]; rewrite Hex; reflexivity.
  - rewrite (split_on_app_high c _ _ Hc Hh Hne), IH.
    assert (E : N.eqb x c = false) by (apply N.eqb_neq; lia). rewrite E.
    destruct (split_on c s) as [|l ls]; cbn [map]; unfold utf8; cbn [flat_map]; [rewrite app_nil_r|]; reflexivity.
Qed.

Theorem count_tabs_utf8 s : count_tabs (utf8 s) = (fst (count_tabs s), utf8 (snd (count_tabs s))).
Proof.
  induction s as [|x s IH]; [reflexivity|].
  unfold utf8 at 1. cbn [flat_map]. fold (utf8 s). cbn [count_tabs].
  destruct (enc_char_shape x) as [[Hx Hex]|(Hx & Hh & Hne)].
  - rewrite Hex. cbn [app count_tabs]. destruct (N.eqb x cTAB).
    + rewrite IH. destruct (count_tabs s) as [k r]. reflexivity.
    + cbn [fst snd]. unfold utf8. cbn [flat_map]. rewrite Hex. reflexivity.
  - assert (E : N.eqb x cTAB = false) by (apply N.eqb_neq; unfold cTAB; lia). rewrite E. cbn [fst snd].
    destruct (enc_char x) as [|b r] eqn:Ee; [congruence|]. cbn [app count_tabs].
    cbn [forallb] in Hh. apply andb_true_iff in Hh. destruct Hh as [Hb _].
    rewrite (high_not cTAB b) by (try exact Hb; unfold cTAB; lia).
    unfold utf8. cbn [flat_map]. rewrite Ee. reflexivity.
Qed.

Definition tline_utf8 (l : tline) : tline := mkLine (l_ind l) (utf8 (l_first l)) (map utf8 (l_fields l)).

Theorem tiny_line_utf8 s : tiny_line (utf8 s) = tline_utf8 (tiny_line s).
Proof.
  unfold tiny_line. rewrite count_tabs_utf8. destruct (count_tabs s) as [k r]. cbn [fst snd].
  rewrite (split_on_utf8 cTAB r) by (unfold cTAB; lia).
  destruct (split_on cTAB r) as [|f fs]; reflexivity.
Qed.
