(* C03 theory, part 4: the text that [write] produces for a mapping set whose children are
   already in order, read back line by line; the round trip for such a set. *)
From FB Require Import C03.Model C03.Theory1 C03.Theory2 C03.Theory3.
From Coq Require Import Lia Arith PeanoNat.

Arguments N.add : simpl never.
Arguments N.mul : simpl never.
Arguments N.ltb : simpl never.
Arguments N.eqb : simpl never.

(* ------------------------------------------------------------------------------------------ *)
(* the text of a line                                                                          *)

Definition line_text (tl : tline) : str := tabs (l_ind tl) ++ join_cells (l_first tl) (l_fields tl).

(* a line that survives writing and reading: the tag is not empty and does not start with TAB;
   no cell contains TAB or LF; the last cell does not end in CR *)
Definition tl_ok (tl : tline) : bool :=
  match l_first tl with c :: _ => negb (N.eqb c cTAB) | [] => false end
  && no_tab_lf (l_first tl) && forallb no_tab_lf (l_fields tl)
  && negb (ends_cr (last (l_fields tl) (l_first tl))).

Lemma no_tab_lf_split s : no_tab_lf s = true -> no_tab s = true /\ no_lf s = true.
Proof.
  unfold no_tab_lf, no_tab, no_lf. rewrite !forallb_forall. intros H. split; intros c Hc;
    specialize (H c Hc); apply andb_true_iff in H; tauto.
Qed.

Lemma no_lf_app a b : no_lf (a ++ b) = no_lf a && no_lf b.
Proof. apply forallb_app. Qed.

Lemma no_lf_tabs k : no_lf (tabs k) = true.
Proof. induction k as [|k IH]; [reflexivity|]. cbn [tabs repeat no_lf forallb]. exact IH. Qed.

Lemma no_lf_join first fields :
  no_lf first = true -> forallb no_lf fields = true -> no_lf (join_cells first fields) = true.
Proof.
  intros H1 H2. unfold join_cells. rewrite no_lf_app, H1. cbn [andb].
  induction fields as [|f fs IH]; [reflexivity|].
  cbn [forallb flat_map] in *. apply andb_true_iff in H2. destruct H2 as [Hf Hfs].
  change (no_lf ((cTAB :: f) ++ flat_map (fun s => cTAB :: s) fs) = true).
  rewrite no_lf_app. cbn [no_lf forallb]. fold (no_lf f). rewrite Hf. cbn [andb].
  apply IH. exact Hfs.
Qed.

Lemma ends_cr_app x y : y <> [] -> ends_cr (x ++ y) = ends_cr y.
Proof.
  intros Hy. induction x as [|c x IH]; [reflexivity|].
  cbn [app]. destruct (x ++ y) as [|d r] eqn:E.
  - apply app_eq_nil in E. destruct E as [_ E]. contradiction.
  - cbn [ends_cr]. exact IH.
Qed.

Lemma ends_cr_tab f : ends_cr (cTAB :: f) = ends_cr f.
Proof. destruct f; reflexivity. Qed.

Lemma last_indep {A} (l : list A) d d' : l <> [] -> last l d = last l d'.
Proof.
  induction l as [|x l IH]; intros H; [contradiction|].
  destruct l as [|y l]; [reflexivity|]. cbn [last] in *. apply IH. discriminate.
Qed.

Lemma ends_cr_join : forall fields first,
  ends_cr (join_cells first fields) = ends_cr (last fields first).
Proof.
  induction fields as [|f fs IH]; intros first.
  - unfold join_cells. cbn [flat_map last]. rewrite app_nil_r. reflexivity.
  - unfold join_cells. cbn [flat_map].
    change (first ++ (cTAB :: f) ++ flat_map (fun s => cTAB :: s) fs)
      with (first ++ (cTAB :: f) ++ flat_map (fun s => cTAB :: s) fs).
    rewrite app_assoc. fold (join_cells (first ++ cTAB :: f) fs). rewrite IH.
    destruct fs as [|g gs].
    + cbn [last]. rewrite ends_cr_app by discriminate. apply ends_cr_tab.
    + f_equal. change (last (f :: g :: gs) first) with (last (g :: gs) first).
      apply last_indep. discriminate.
Qed.

Theorem tl_ok_line tl : tl_ok tl = true ->
  tiny_line (line_text tl) = tl /\ line_ok (line_text tl) = true.
Proof.
  destruct tl as [k first fields]. unfold tl_ok, line_text. cbn [l_ind l_first l_fields].
  intros H. apply andb_true_iff in H. destruct H as [H Hcr].
  apply andb_true_iff in H. destruct H as [H Hfs].
  apply andb_true_iff in H. destruct H as [Hc Hf].
  apply negb_true_iff in Hcr.
  destruct (no_tab_lf_split _ Hf) as [Hft Hfl].
  assert (Hfst : forallb no_tab fields = true /\ forallb no_lf fields = true).
  { rewrite forallb_forall in Hfs. split; apply forallb_forall; intros s Hs;
      apply (no_tab_lf_split _ (Hfs s Hs)). }
  destruct Hfst as [Hfst Hfsl].
  split.
  - apply tiny_line_join; [|exact Hft|exact Hfst].
    destruct first as [|c r]; [discriminate|]. apply negb_true_iff in Hc. exact Hc.
  - unfold line_ok. apply andb_true_iff. split.
    + rewrite no_lf_app, no_lf_tabs. cbn [andb]. apply no_lf_join; assumption.
    + apply negb_true_iff. rewrite ends_cr_app.
      * rewrite ends_cr_join. exact Hcr.
      * unfold join_cells. destruct first; [discriminate|discriminate].
Qed.

Lemma lines_roundtrip tls : forallb tl_ok tls = true ->
  map tiny_line (raw_lines (unlines (map line_text tls))) = tls.
Proof.
  intros H. rewrite raw_lines_unlines.
  - rewrite map_map. rewrite <- (map_id tls) at 2. apply map_ext_in. intros tl Htl.
    rewrite forallb_forall in H. apply (tl_ok_line tl (H tl Htl)).
  - rewrite forallb_forall in *. intros l Hl. apply in_map_iff in Hl. destruct Hl as (tl & <- & Htl).
    apply (tl_ok_line tl (H tl Htl)).
Qed.

(* ------------------------------------------------------------------------------------------ *)
(* what [write] prints, children in list order (no sorting), is the text of the forest's lines *)

Definition meth_lines_o (m : meth) : list str :=
  (tabs 1 ++ c_m :: cTAB :: lossy (m_desc m) ++ names_cells (m_names m))
    :: doc_lines 2 (m_doc m) ++ flat_map param_lines (m_params m).
Definition class_lines_o (c : class) : list str :=
  (c_c :: names_cells (c_names c))
    :: doc_lines 1 (c_doc c)
    ++ flat_map field_lines (c_fields c)
    ++ flat_map meth_lines_o (c_methods c).
Definition write_lines_o (M : mappings) : list str :=
  header_line (ms_ns M) :: doc_lines 1 (ms_doc M) ++ flat_map class_lines_o (ms_classes M).

Definition header_tline (ns : list str) : tline := mkLine 0 s_tiny ([c_2] :: [c_0] :: ns).

Lemma names_cells_cells_of l : names_cells l = flat_map (fun s => cTAB :: s) (cells_of l).
Proof.
  induction l as [|o l IH]; [reflexivity|].
  cbn [names_cells cells_of map flat_map]. unfold names_cells, cells_of in IH. rewrite IH. reflexivity.
Qed.

Lemma doc_lines_text k d : doc_lines k d = map line_text (doc_tl k d).
Proof.
  destruct d as [s|]; [|reflexivity].
  cbn [doc_lines doc_tl map]. unfold line_text, join_cells. cbn [l_ind l_first l_fields flat_map app].
  rewrite app_nil_r. reflexivity.
Qed.

Lemma param_lines_text p : param_lines p = map line_text (param_tl p).
Proof.
  unfold param_lines, param_tl. cbn [map]. rewrite doc_lines_text. f_equal.
  unfold line_text, param_tline, join_cells. cbn [l_ind l_first l_fields flat_map app].
  rewrite names_cells_cells_of. try rewrite <- app_assoc. reflexivity.
Qed.

Lemma field_lines_text f : field_lines f = map line_text (field_tl f).
Proof.
  unfold field_lines, field_tl. cbn [map]. rewrite doc_lines_text. f_equal.
  unfold line_text, field_tline, join_cells. cbn [l_ind l_first l_fields flat_map app].
  rewrite names_cells_cells_of. try rewrite <- app_assoc. reflexivity.
Qed.

Lemma flat_map_text {A} (f : A -> list str) (g : A -> list tline) l :
  (forall x, f x = map line_text (g x)) -> flat_map f l = map line_text (flat_map g l).
Proof.
  intros H. induction l as [|x l IH]; [reflexivity|].
  cbn [flat_map]. rewrite map_app, H, IH. reflexivity.
Qed.

Lemma meth_lines_text m : meth_lines_o m = map line_text (meth_tl m).
Proof.
  unfold meth_lines_o, meth_tl. cbn [map]. rewrite map_app, doc_lines_text.
  rewrite (flat_map_text _ _ _ param_lines_text). f_equal.
  unfold line_text, meth_tline, join_cells. cbn [l_ind l_first l_fields flat_map app].
  rewrite names_cells_cells_of. try rewrite <- app_assoc. reflexivity.
Qed.

Lemma class_lines_text c : class_lines_o c = map line_text (class_tl c).
Proof.
  unfold class_lines_o, class_tl. cbn [map]. rewrite !map_app, doc_lines_text.
  rewrite (flat_map_text _ _ _ field_lines_text), (flat_map_text _ _ _ meth_lines_text). f_equal.
  unfold line_text, class_tline, join_cells. cbn [l_ind l_first l_fields tabs repeat app].
  rewrite names_cells_cells_of. reflexivity.
Qed.

Lemma header_line_text ns : header_line ns = line_text (header_tline ns).
Proof.
  unfold header_line, line_text, header_tline, join_cells, ns_cells.
  cbn [l_ind l_first l_fields tabs repeat app flat_map]. reflexivity.
Qed.

Lemma write_lines_text M :
  write_lines_o M = map line_text (header_tline (ms_ns M) :: doc_tl 1 (ms_doc M) ++ flat_map class_tl (ms_classes M)).
Proof.
  unfold write_lines_o. cbn [map]. rewrite map_app, doc_lines_text, header_line_text.
  rewrite (flat_map_text _ _ _ class_lines_text). reflexivity.
Qed.

(* ------------------------------------------------------------------------------------------ *)
(* every line of a textual mapping set is [tl_ok]                                              *)

Lemma plain_cell s : forallb plain_char s = true -> no_tab_lf s = true /\ ends_cr s = false.
Proof.
  intros H. split.
  - unfold no_tab_lf. rewrite forallb_forall in *. intros c Hc. specialize (H c Hc).
    unfold plain_char in H. apply andb_true_iff in H. destruct H as [H _]. exact H.
  - induction s as [|c s IH]; [reflexivity|].
    cbn [forallb] in H. apply andb_true_iff in H. destruct H as [Hc Hs].
    destruct s as [|d s]; [|apply IH; exact Hs].
    cbn [ends_cr]. unfold plain_char in Hc. apply andb_true_iff in Hc. destruct Hc as [_ Hc].
    apply negb_true_iff in Hc. exact Hc.
Qed.

Lemma names_textual_cells valid l : names_textual valid l = true ->
  forallb cell_ok (cells_of l) = true.
Proof.
  unfold names_textual. rewrite !forallb_forall. intros H s Hs.
  apply in_map_iff in Hs. destruct Hs as (o & <- & Ho). specialize (H o Ho).
  destruct o as [x|]; [|reflexivity]. cbn [cell_str].
  unfold name_ok in H. apply andb_true_iff in H. destruct H as [H _].
  apply andb_true_iff in H. destruct H as [H _]. exact H.
Qed.

Lemma last_cells_ok cs d : forallb cell_ok cs = true -> ends_cr d = false -> ends_cr (last cs d) = false.
Proof.
  revert d; induction cs as [|c cs IH]; intros d H Hd; [exact Hd|].
  cbn [forallb] in H. apply andb_true_iff in H. destruct H as [Hc Hcs].
  destruct cs as [|c2 cs]; [|cbn [last]; apply IH; [exact Hcs|exact Hd]].
  cbn [last]. unfold cell_ok in Hc. apply andb_true_iff in Hc. destruct Hc as [_ Hc].
  apply negb_true_iff in Hc. exact Hc.
Qed.

Lemma cells_no_tab_lf cs : forallb cell_ok cs = true -> forallb no_tab_lf cs = true.
Proof.
  rewrite !forallb_forall. intros H s Hs. specialize (H s Hs). unfold cell_ok in H.
  apply andb_true_iff in H. tauto.
Qed.

(* a line  tag, x, cells...  where x is a cell too *)
Lemma tl_ok_tagged k t x cs :
  N.eqb t cTAB = false -> N.eqb t cLF = false -> N.eqb t cCR = false ->
  cell_ok x = true -> forallb cell_ok cs = true ->
  tl_ok (mkLine k [t] (x :: cs)) = true.
Proof.
  intros Ht1 Ht2 Ht3 Hx Hcs. unfold tl_ok. cbn [l_first l_fields].
  rewrite Ht1. cbn [negb andb]. unfold no_tab_lf at 1. cbn [forallb]. rewrite Ht1, Ht2. cbn [negb andb].
  cbn [forallb]. rewrite (cells_no_tab_lf _ Hcs).
  pose proof Hx as Hx'. unfold cell_ok in Hx'. apply andb_true_iff in Hx'. destruct Hx' as [Hx1 Hx2].
  rewrite Hx1. cbn [andb]. apply negb_true_iff.
  change (last (x :: cs) [t]) with (last (x :: cs) [t]).
  apply (last_cells_ok (x :: cs)).
  - cbn [forallb]. rewrite Hx, Hcs. reflexivity.
  - cbn [ends_cr]. exact Ht3.
Qed.

Lemma tl_ok_doc k d : forallb tl_ok (doc_tl k d) = true.
Proof.
  destruct d as [s|]; [|reflexivity]. cbn [doc_tl forallb]. rewrite andb_true_r.
  destruct (plain_cell _ (escape_plain s)) as [H1 H2].
  apply tl_ok_tagged; try reflexivity.
  unfold cell_ok. rewrite H1, H2. reflexivity.
Qed.

Lemma tl_ok_param p : textual_param p = true -> forallb tl_ok (param_tl p) = true.
Proof.
  intros H. unfold textual_param in H. apply andb_true_iff in H. destruct H as [_ Hn].
  unfold param_tl. cbn [forallb]. rewrite tl_ok_doc, andb_true_r.
  destruct (plain_cell _ (dec_plain (p_index p))) as [H1 H2].
  apply tl_ok_tagged; try reflexivity.
  - unfold cell_ok. rewrite H1, H2. reflexivity.
  - apply (names_textual_cells _ _ Hn).
Qed.

Lemma lossy_scalar s : scalar_only s = true -> lossy s = s.
Proof.
  intros Hsc. unfold lossy. unfold scalar_only in Hsc. rewrite forallb_forall in Hsc.
  rewrite <- (map_id s) at 2. apply map_ext_in. intros x Hx. rewrite (Hsc x Hx). reflexivity.
Qed.

Lemma tl_ok_field f : textual_field f = true -> forallb tl_ok (field_tl f) = true.
Proof.
  intros H. unfold textual_field in H. apply andb_true_iff in H. destruct H as [Hd Hn].
  unfold desc_ok in Hd. apply andb_true_iff in Hd. destruct Hd as [Hd Hsc].
  unfold field_tl. cbn [forallb]. rewrite tl_ok_doc, andb_true_r.
  unfold field_tline. rewrite (lossy_scalar _ Hsc).
  apply tl_ok_tagged; try reflexivity; [exact Hd|apply (names_textual_cells _ _ Hn)].
Qed.

Lemma forallb_flat_map {A B} (p : B -> bool) (g : A -> list B) l :
  (forall x, In x l -> forallb p (g x) = true) -> forallb p (flat_map g l) = true.
Proof.
  intros H. induction l as [|x l IH]; [reflexivity|].
  cbn [flat_map]. rewrite forallb_app, H by (left; reflexivity). cbn [andb].
  apply IH. intros y Hy. apply H. right. exact Hy.
Qed.

Lemma tl_ok_meth m : textual_meth m = true -> forallb tl_ok (meth_tl m) = true.
Proof.
  intros H. unfold textual_meth in H. apply andb_true_iff in H. destruct H as [H Hps].
  apply andb_true_iff in H. destruct H as [Hd Hn].
  unfold desc_ok in Hd. apply andb_true_iff in Hd. destruct Hd as [Hd Hsc].
  unfold meth_tl. cbn [forallb]. rewrite forallb_app, tl_ok_doc. cbn [andb].
  apply andb_true_iff. split.
  - unfold meth_tline. rewrite (lossy_scalar _ Hsc).
    apply tl_ok_tagged; try reflexivity; [exact Hd|apply (names_textual_cells _ _ Hn)].
  - apply forallb_flat_map. intros p Hp. apply tl_ok_param.
    rewrite forallb_forall in Hps. apply Hps. exact Hp.
Qed.

(* a class line has no cell before the names: at least one name cell is needed *)
Lemma tl_ok_class_line c : c_names c <> [] ->
  names_textual is_valid_obj_class_name (c_names c) = true -> tl_ok (class_tline c) = true.
Proof.
  intros Hne Hn. unfold class_tline. pose proof (names_textual_cells _ _ Hn) as Hcs.
  destruct (c_names c) as [|o l] eqn:E; [contradiction|].
  cbn [cells_of map] in *. cbn [forallb] in Hcs. apply andb_true_iff in Hcs. destruct Hcs as [H1 H2].
  apply tl_ok_tagged; try reflexivity; assumption.
Qed.

Lemma tl_ok_class c : c_names c <> [] -> textual_class c = true -> forallb tl_ok (class_tl c) = true.
Proof.
  intros Hne H. unfold textual_class in H. apply andb_true_iff in H. destruct H as [H Hms].
  apply andb_true_iff in H. destruct H as [Hn Hfs].
  unfold class_tl. cbn [forallb]. rewrite !forallb_app, tl_ok_doc. cbn [andb].
  rewrite (tl_ok_class_line c Hne Hn). cbn [andb].
  apply andb_true_iff. split.
  - apply forallb_flat_map. intros f Hf. apply tl_ok_field.
    rewrite forallb_forall in Hfs. apply Hfs. exact Hf.
  - apply forallb_flat_map. intros m Hm. apply tl_ok_meth.
    rewrite forallb_forall in Hms. apply Hms. exact Hm.
Qed.

Lemma tl_ok_header ns : forallb cell_ok ns = true -> tl_ok (header_tline ns) = true.
Proof.
  intros H. unfold header_tline, tl_ok. cbn [l_first l_fields s_tiny].
  cbn [forallb]. rewrite (cells_no_tab_lf _ H).
  replace (no_tab_lf [116; 105; 110; 121]) with true by reflexivity.
  replace (no_tab_lf [c_2]) with true by reflexivity.
  replace (no_tab_lf [c_0]) with true by reflexivity.
  replace (negb (N.eqb 116 cTAB)) with true by reflexivity. cbn [andb].
  apply negb_true_iff.
  apply (last_cells_ok ([c_2] :: [c_0] :: ns)).
  - cbn [forallb]. rewrite H. reflexivity.
  - reflexivity.
Qed.

(* ------------------------------------------------------------------------------------------ *)
(* the round trip for a mapping set whose children are in the order they are written in       *)

Lemma wf_class_names_nonempty n c : (2 <= n)%nat -> wf_class n c = true -> c_names c <> [].
Proof.
  intros Hn H. unfold wf_class in H. do 5 (apply andb_true_iff in H; destruct H as [H _]).
  unfold names_ok in H. apply andb_true_iff in H. destruct H as [H _].
  apply Nat.eqb_eq in H. intros E. rewrite E in H. cbn in H. lia.
Qed.

Theorem read_write_ordered M :
  wf M = true -> textual M = true ->
  read (length (ms_ns M)) (unlines (write_lines_o M)) = Ok M.
Proof.
  intros Hwf Htx. unfold wf in Hwf. cbv zeta in Hwf.
  apply andb_true_iff in Hwf. destruct Hwf as [Hwf Hnd].
  apply andb_true_iff in Hwf. destruct Hwf as [Hwf Hcs].
  apply andb_true_iff in Hwf. destruct Hwf as [Hn Hns].
  apply Nat.leb_le in Hn.
  unfold textual in Htx. apply andb_true_iff in Htx. destruct Htx as [Htns Htcs].
  set (n := length (ms_ns M)) in *.
  unfold read.
  replace (Nat.ltb n 2) with false by (symmetry; apply Nat.ltb_ge; exact Hn).
  rewrite write_lines_text.
  rewrite lines_roundtrip.
  2:{ cbn [forallb]. rewrite (tl_ok_header _ Htns). cbn [andb]. rewrite forallb_app, tl_ok_doc. cbn [andb].
      apply forallb_flat_map. intros c Hc. rewrite forallb_forall in Hcs, Htcs.
      apply tl_ok_class; [|apply Htcs; exact Hc].
      apply (wf_class_names_nonempty n); [exact Hn|apply Hcs; exact Hc]. }
  (* header *)
  assert (Hhdr : read_header n (header_tline (ms_ns M)) = Ok (ms_ns M)).
  { unfold read_header, header_tline. cbn [l_first l_fields]. rewrite str_eqb_refl.
    rewrite !str_eqb_refl. cbn [andb]. unfold into_namespaces.
    fold n. rewrite Nat.eqb_refl. cbn [andb].
    assert (Hns' : forallb (fun s => negb (is_nil s)) (ms_ns M) = true) by exact Hns.
    rewrite Hns'. reflexivity. }
  rewrite Hhdr. cbn [bind].
  (* the lines below the header are the flattened forest *)
  set (body := doc_tl 1 (ms_doc M) ++ flat_map class_tl (ms_classes M)).
  assert (Hbody : body = flatten (doc_f 1 (ms_doc M) FNil) ++ flatten (classes_f (ms_classes M))).
  { unfold body. rewrite flatten_doc_f, flatten_classes_f. cbn [flatten]. rewrite app_nil_r. reflexivity. }
  rewrite Hbody at 2.
  rewrite build_flatten.
  - rewrite interp_comments_doc_f. cbn [bind].
    rewrite <- (app_nil_r (flatten (classes_f (ms_classes M)))).
    rewrite build_flatten.
    + rewrite interp_top_classes.
      * cbn [ms_ns ms_doc ms_classes app]. destruct M; reflexivity.
      * exact Hcs.
      * exact Htcs.
      * cbn [ms_classes app]. apply (nodupb_NoDup _ okey_str_eqb_eq). exact Hnd.
    + apply depth_classes_f.
    + exact I.
    + rewrite app_nil_r, Hbody, app_length. lia.
  - apply depth_doc_f. exact I.
  - destruct (ms_classes M) as [|c cs]; cbn [classes_f flatten stops class_tline l_ind]; [exact I|lia].
  - rewrite Hbody. lia.
Qed.
