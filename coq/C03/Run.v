(* C03 correspondence cases: an input together with what quill answered, compared with the model *)
From Coq Require Export ZArith Uint63.
From FB Require Export C03.Model C03.ModelBytes Base.Run.

(* Case files carry every string as a short list of primitive 63-bit integers (coqc needs
   about 0.1 ms to read one numeral of type N, and a case holds thousands of code points):
   each integer packs up to seven bytes of the (generalised) UTF-8 form of the string,
   i = count + 8 * (b0 + 256 * b1 + ...).  [u] decodes; it is only applied to the harness'
   output, and a wrong decoding shows up as a disagreement. *)
Definition int_N (i : int) : N := Z.to_N (Uint63.to_Z i).
Fixpoint int_bytes_from (k : nat) (i : int) : list N :=
  match k with
  | O => []
  | S k' => int_N (Uint63.land i 255) :: int_bytes_from k' (Uint63.lsr i 8)
  end.
Definition int_bytes (i : int) : list N :=
  int_bytes_from (N.to_nat (int_N (Uint63.land i 7))) (Uint63.lsr i 3).
Fixpoint utf8_dec (bs : list N) : str :=
  match bs with
  | [] => []
  | b :: r =>
      if N.ltb b 128 then b :: utf8_dec r
      else if N.ltb b 224 then
        match r with
        | b1 :: r' => ((b - 192) * 64 + (b1 - 128)) :: utf8_dec r'
        | _ => []
        end
      else if N.ltb b 240 then
        match r with
        | b1 :: b2 :: r' => ((b - 224) * 4096 + (b1 - 128) * 64 + (b2 - 128)) :: utf8_dec r'
        | _ => []
        end
      else
        match r with
        | b1 :: b2 :: b3 :: r' => ((b - 240) * 262144 + (b1 - 128) * 4096 + (b2 - 128) * 64 + (b3 - 128)) :: utf8_dec r'
        | _ => []
        end
  end.
Definition u (l : list int) : str := utf8_dec (flat_map int_bytes l).
Arguments u l%uint63.
(* raw bytes (files that need not be UTF-8) *)
Definition ub (l : list int) : list N := flat_map int_bytes l.
Arguments ub l%uint63.

(* outcome of quill::tiny_v2::write_string on the implementation side *)
Inductive wres := WOk (t : text) | WErr | WPanic.

Definition wres_eqb (a b : wres) : bool :=
  match a, b with
  | WOk x, WOk y => str_eqb x y
  | WErr, WErr => true
  | WPanic, WPanic => true
  | _, _ => false
  end.

(* the model's [write] answers Err for the error of check_fields and for the panic inside write_fmt
   (Model.v); the check comes first *)
Definition write_res (M : mappings) : wres :=
  match write M with
  | Ok t => WOk t
  | Err => if fields_checked M then WPanic else WErr
  end.

Inductive case :=
| CWrite (M : mappings) (w : wres)
    (* write_string of the tree M (children in IndexMap order) *)
| CRead (n : N) (t : text) (r : res mappings)
    (* read::<n> of the text t; the result in IndexMap iteration order (compared exactly:
       the reader keeps the order of the lines) *)
| CReadBytes (n : N) (bs : list N) (r : res mappings)
    (* read::<n> of the BYTES bs (any bytes, not necessarily UTF-8) against the byte-level model *)
| CWriteRead (M : mappings) (hyp : bool) (judged : bool) (w : wres) (r : res mappings).
    (* write_string M = w and, when w is a text, read::<number of namespaces of M> of it = r;
       hyp: the harness' copy of the theorems' hypotheses (wf M && textual M) agrees with Coq's;
       judged: the harness' copy of (wf M && typed M) — the sets its oracle judges — agrees too *)

Definition check (c : case) : bool :=
  match c with
  | CWrite M w => wres_eqb (write_res M) w
  | CRead n t r => res_eqb mappings_eqb (read (N.to_nat n) t) r
  | CReadBytes n bs r => res_eqb mappings_eqb (read_bytes (N.to_nat n) bs) r
  | CWriteRead M hyp judged w r =>
      Bool.eqb (wf M && textual M) hyp &&
      Bool.eqb (wf M && typed M) judged &&
      wres_eqb (write_res M) w &&
      match w with
      | WOk t => res_eqb mappings_eqb (read (length (ms_ns M)) t) r
      | _ => match r with Err => true | _ => false end
      end
  end.
