(* C03 correspondence cases: an input together with what quill answered, compared with the model *)
From FB Require Export C03.Model Base.Run.

(* outcome of quill::tiny_v2::write_string on the implementation side *)
Inductive wres := WOk (t : text) | WErr | WPanic.

Definition wres_eqb (a b : wres) : bool :=
  match a, b with
  | WOk x, WOk y => str_eqb x y
  | WErr, WErr => true
  | WPanic, WPanic => true
  | _, _ => false
  end.

(* the model's [write] answers Err exactly for the panic inside write_fmt (Model.v) *)
Definition write_res (M : mappings) : wres :=
  match write M with Ok t => WOk t | Err => WPanic end.

Inductive case :=
| CWrite (M : mappings) (w : wres)
    (* write_string of the tree M (children in IndexMap order) *)
| CRead (n : N) (t : text) (r : res mappings)
    (* read::<n> of the text t; the result in IndexMap iteration order (compared exactly:
       the reader keeps the order of the lines) *)
| CWriteRead (M : mappings) (w : wres) (r : res mappings)
| CHyp (M : mappings) (b : bool).
    (* write_string M = w and, when w is a text, read::<number of namespaces of M> of it = r;
       [CHyp]: the harness' copy of the theorems' hypotheses (wf M && textual M) agrees with Coq's *)

Definition check (c : case) : bool :=
  match c with
  | CWrite M w => wres_eqb (write_res M) w
  | CRead n t r => res_eqb mappings_eqb (read (N.to_nat n) t) r
  | CWriteRead M w r =>
      wres_eqb (write_res M) w &&
      match w with
      | WOk t => res_eqb mappings_eqb (read (length (ms_ns M)) t) r
      | _ => match r with Err => true | _ => false end
      end
  | CHyp M b => Bool.eqb (wf M && textual M) b
  end.
