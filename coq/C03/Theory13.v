(* C03 theory, part 13: the round trip on the bytes of the file.  A written text consists of
   Unicode scalar values when the namespaces and the comments do (they are Rust `String`s; names
   are checked by [write] itself, descriptors are written lossily), so it has an UTF-8 encoding,
   and reading those bytes yields the canonical representative. *)
From FB Require Import C03.Model C03.ModelBytes C03.Theory1 C03.Theory4 C03.Theory5 C03.Theory10.
From Coq Require Import Lia.

Arguments N.add : simpl never.
Arguments N.ltb : simpl never.
Arguments N.eqb : simpl never.

Definition doc_scalar (d : option str) : bool := match d with Some s => scalar_only s | None => true end.
Definition meth_strings (m : meth) : bool := doc_scalar (m_doc m) && forallb (fun p => doc_scalar (p_doc p)) (m_params m).
Definition class_strings (c : class) : bool :=
  doc_scalar (c_doc c) && forallb (fun f => doc_scalar (f_doc f)) (c_fields c) && forallb meth_strings (c_methods c).
(* namespaces and comments are `String`s *)
Definition rust_strings (M : mappings) : bool :=
  forallb scalar_only (ms_ns M) && doc_scalar (ms_doc M) && forallb class_strings (ms_classes M).

Lemma scalar_app a b : scalar_only (a ++ b) = scalar_only a && scalar_only b.
Proof. apply forallb_app. Qed.
Lemma scalar_cons c s : scalar_only (c :: s) = is_scalar c && scalar_only s.
Proof. reflexivity. Qed.
Lemma scalar_small c : c < 55296 -> is_scalar c = true.
Proof. intros H. apply is_scalar_intro. left. exact H. Qed.
Lemma scalar_tabs k : scalar_only (tabs k) = true.
Proof. induction k as [|k IH]; [reflexivity|]. cbn [tabs repeat]. fold (tabs k). rewrite scalar_cons, IH. reflexivity. Qed.

Lemma scalar_escape s : scalar_only s = true -> scalar_only (escape s) = true.
Proof.
  induction s as [|c s IH]; intros H; [reflexivity|].
  rewrite scalar_cons in H. apply andb_true_iff in H. destruct H as [Hc Hs]. specialize (IH Hs).
  cbn [escape]. destruct (esc_char c) as [e|] eqn:E.
  - apply esc_char_lt in E. rewrite !scalar_cons, IH, (scalar_small e) by lia. reflexivity.
  - rewrite scalar_cons, Hc, IH. reflexivity.
Qed.

Lemma scalar_digits s : forallb is_digit s = true -> scalar_only s = true.
Proof.
  induction s as [|c s IH]; intros H; [reflexivity|].
  cbn [forallb] in H. apply andb_true_iff in H. destruct H as [Hc Hs].
  rewrite scalar_cons, (IH Hs), andb_true_r. unfold is_digit in Hc. apply andb_true_iff in Hc.
  destruct Hc as [_ Hc]. apply N.leb_le in Hc. apply scalar_small. lia.
Qed.

Lemma scalar_lossy s : scalar_only (lossy s) = true.
Proof.
  induction s as [|c s IH]; [reflexivity|]. cbn [lossy map]. fold (lossy s). rewrite scalar_cons, IH, andb_true_r.
  destruct (is_scalar c) eqn:E; [exact E|reflexivity].
Qed.

Lemma scalar_names_cells l : names_scalar l = true -> scalar_only (names_cells l) = true.
Proof.
  induction l as [|o l IH]; intros H; [reflexivity|].
  cbn [names_scalar forallb] in H. apply andb_true_iff in H. destruct H as [Ho Hl].
  cbn [names_cells flat_map]. fold (names_cells l). change (cTAB :: cell_str o) with ([cTAB] ++ cell_str o).
  rewrite !scalar_app, Ho, (IH Hl). reflexivity.
Qed.

Lemma scalar_ns_cells l : forallb scalar_only l = true -> scalar_only (ns_cells l) = true.
Proof.
  induction l as [|s l IH]; intros H; [reflexivity|].
  cbn [forallb] in H. apply andb_true_iff in H. destruct H as [Hs Hl].
  cbn [ns_cells flat_map]. fold (ns_cells l). change (cTAB :: s) with ([cTAB] ++ s).
  rewrite !scalar_app, Hs, (IH Hl). reflexivity.
Qed.

Lemma scalar_doc_lines k d : doc_scalar d = true -> forallb scalar_only (doc_lines k d) = true.
Proof.
  destruct d as [s|]; [|reflexivity]. cbn [doc_scalar doc_lines forallb]. intros H.
  change (c_c :: cTAB :: escape s) with ([c_c; cTAB] ++ escape s).
  rewrite !scalar_app, scalar_tabs, (scalar_escape s H). reflexivity.
Qed.

Lemma scalar_param_lines p : names_scalar (p_names p) = true -> doc_scalar (p_doc p) = true ->
  forallb scalar_only (param_lines p) = true.
Proof.
  intros Hn Hd. unfold param_lines. cbn [forallb]. rewrite (scalar_doc_lines 3 _ Hd), andb_true_r.
  change (c_p :: cTAB :: dec (p_index p) ++ names_cells (p_names p)) with ([c_p; cTAB] ++ dec (p_index p) ++ names_cells (p_names p)).
  rewrite !scalar_app, scalar_tabs, (scalar_digits _ (dec_digits _)), (scalar_names_cells _ Hn). reflexivity.
Qed.

Lemma scalar_field_lines f : names_scalar (f_names f) = true -> doc_scalar (f_doc f) = true ->
  forallb scalar_only (field_lines f) = true.
Proof.
  intros Hn Hd. unfold field_lines. cbn [forallb]. rewrite (scalar_doc_lines 2 _ Hd), andb_true_r.
  change (c_f :: cTAB :: lossy (f_desc f) ++ names_cells (f_names f)) with ([c_f; cTAB] ++ lossy (f_desc f) ++ names_cells (f_names f)).
  rewrite !scalar_app, scalar_tabs, scalar_lossy, (scalar_names_cells _ Hn). reflexivity.
Qed.

Lemma scalar_meth_lines m : meth_scalar m = true -> meth_strings m = true ->
  forallb scalar_only (meth_lines m) = true.
Proof.
  intros Hs Hd. unfold meth_scalar in Hs. apply andb_true_iff in Hs. destruct Hs as [Hn Hps].
  unfold meth_strings in Hd. apply andb_true_iff in Hd. destruct Hd as [Hd Hpd].
  unfold meth_lines. cbn [forallb]. rewrite forallb_app, (scalar_doc_lines 2 _ Hd).
  change (c_m :: cTAB :: lossy (m_desc m) ++ names_cells (m_names m)) with ([c_m; cTAB] ++ lossy (m_desc m) ++ names_cells (m_names m)).
  rewrite !scalar_app, scalar_tabs, scalar_lossy, (scalar_names_cells _ Hn). cbn [scalar_only forallb andb].
  apply forallb_flat_map. intros p Hp. apply isort_in in Hp. rewrite forallb_forall in Hps, Hpd.
  apply scalar_param_lines; auto.
Qed.

Lemma scalar_class_lines c : class_scalar c = true -> class_strings c = true ->
  forallb scalar_only (class_lines c) = true.
Proof.
  intros Hs Hd. unfold class_scalar in Hs. apply andb_true_iff in Hs. destruct Hs as [Hs Hms].
  apply andb_true_iff in Hs. destruct Hs as [Hn Hfs].
  unfold class_strings in Hd. apply andb_true_iff in Hd. destruct Hd as [Hd Hmd].
  apply andb_true_iff in Hd. destruct Hd as [Hd Hfd].
  unfold class_lines. cbn [forallb]. rewrite !forallb_app, (scalar_doc_lines 1 _ Hd).
  rewrite scalar_cons, (scalar_names_cells _ Hn). cbn [andb].
  rewrite forallb_forall in Hfs, Hfd, Hms, Hmd.
  rewrite (forallb_flat_map scalar_only field_lines), (forallb_flat_map scalar_only meth_lines); [reflexivity| |].
  - intros m Hm. apply isort_in in Hm. apply scalar_meth_lines; auto.
  - intros f Hf. apply isort_in in Hf. apply scalar_field_lines; auto.
Qed.

Lemma scalar_unlines ls : forallb scalar_only ls = true -> scalar_only (unlines ls) = true.
Proof.
  induction ls as [|l ls IH]; intros H; [reflexivity|].
  cbn [forallb] in H. apply andb_true_iff in H. destruct H as [Hl Hls].
  unfold unlines. cbn [flat_map]. fold (unlines ls). rewrite !scalar_app, Hl, (IH Hls). reflexivity.
Qed.

Theorem write_scalar M t : rust_strings M = true -> write M = Ok t -> scalar_only t = true.
Proof.
  intros Hr H. unfold write in H. destruct (writable M) eqn:Hwr; [|discriminate]. injection H as <-.
  unfold writable in Hwr. apply andb_true_iff in Hwr. destruct Hwr as [_ Ha].
  unfold rust_strings in Hr. apply andb_true_iff in Hr. destruct Hr as [Hr Hcs].
  apply andb_true_iff in Hr. destruct Hr as [Hns Hd].
  change (scalar_only (unlines (write_lines M)) = true).
  apply scalar_unlines. unfold write_lines. cbn [forallb]. rewrite forallb_app, (scalar_doc_lines 1 _ Hd).
  unfold header_line.
  change (s_tiny ++ cTAB :: c_2 :: cTAB :: c_0 :: ns_cells (ms_ns M)) with (s_tiny ++ [cTAB; c_2; cTAB; c_0] ++ ns_cells (ms_ns M)).
  rewrite !scalar_app, (scalar_ns_cells _ Hns). cbn [scalar_only forallb s_tiny andb].
  unfold all_names_scalar in Ha. rewrite forallb_forall in Ha, Hcs.
  apply forallb_flat_map. intros c Hc. apply isort_in in Hc. apply scalar_class_lines; auto.
Qed.

(* the round trip, on the bytes *)
Theorem read_write_bytes M :
  wf M = true -> textual M = true -> rust_strings M = true ->
  exists bs, write_bytes M = Ok bs /\ utf8_decode bs <> None
             /\ read_bytes (length (ms_ns M)) bs = Ok (canon M).
Proof.
  intros Hwf Htx Hrs. destruct (read_write M Hwf Htx) as (t & Hw & Hr).
  pose proof (write_scalar M t Hrs Hw) as Hs.
  exists (utf8 t). unfold write_bytes. rewrite Hw. split; [reflexivity|]. split.
  - rewrite (utf8_decode_utf8 t Hs). discriminate.
  - rewrite (read_bytes_utf8 _ t Hs). exact Hr.
Qed.

(* non-vacuity: the example of Theory6 (non-BMP name, comments with escapes on every level) *)
From FB Require Import C03.Theory6.
Lemma ex_rust_strings : rust_strings ex_mappings = true.
Proof. vm_compute. reflexivity. Qed.
