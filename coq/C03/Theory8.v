(* C03 theory, part 8: the reader as an EQUATION.  For every forest (hence every text) the
   handlers answer  `if <decidable acceptance test> then Ok <check-free decoding> else Err`:
   the accepted texts are characterised exactly, not only what accepted texts decode to.
   The acceptance test is a conjunction of per-line conditions (arity, validity of names, a
   parsable index, no line below a line that does not open a section), "at most one comment per
   node" and "keys pairwise different per parent" ([fresh] = no key twice, none already there). *)
From FB Require Import C03.Model C03.Theory2 C03.Theory3 C03.Theory7.
From Coq Require Import Lia Arith PeanoNat.

Arguments N.add : simpl never.
Arguments N.mul : simpl never.
Arguments N.ltb : simpl never.
Arguments N.eqb : simpl never.

(* ------------------------------------------------------------------------------------------ *)
(* keys added one after the other to a map that already holds [old]                            *)

Fixpoint fresh {K} (eqb : K -> K -> bool) (old new : list K) : bool :=
  match new with
  | [] => true
  | k :: r => negb (existsb (eqb k) old) && fresh eqb (old ++ [k]) r
  end.

Lemma fresh_iff {K} (eqb : K -> K -> bool) (Heq : forall a b, eqb a b = true <-> a = b) new : forall old,
  fresh eqb old new = true <-> NoDup new /\ (forall k, In k new -> ~ In k old).
Proof.
  induction new as [|k r IH]; intros old; cbn [fresh].
  - split; [intros _; split; [constructor|intros k []]|reflexivity].
  - rewrite andb_true_iff, negb_true_iff, IH. split.
    + intros (Hk & Hnd & Hdis). split.
      * constructor; [|exact Hnd]. intros Hin. apply (Hdis k Hin). apply in_or_app. right. left. reflexivity.
      * intros x [<-|Hx] Hold.
        -- rewrite (existsb_eqb_true eqb Heq _ _ Hold) in Hk. discriminate.
        -- apply (Hdis x Hx). apply in_or_app. left. exact Hold.
    + intros (Hnd & Hdis). inversion Hnd as [|? ? Hnk Hnd']; subst. split; [|split].
      * apply (existsb_eqb_false eqb Heq). apply Hdis. left. reflexivity.
      * exact Hnd'.
      * intros x Hx Hin. apply in_app_or in Hin. destruct Hin as [Hin|[<-|[]]].
        -- apply (Hdis x); [right; exact Hx|exact Hin].
        -- contradiction.
Qed.

Lemma fresh_nil {K} (eqb : K -> K -> bool) (Heq : forall a b, eqb a b = true <-> a = b) new :
  fresh eqb [] new = nodupb eqb new.
Proof.
  apply Bool.eq_true_iff_eq. rewrite (fresh_iff eqb Heq), (nodupb_NoDup eqb Heq).
  split; [intros [H _]; exact H|intros H; split; [exact H|intros k _ []]].
Qed.

Lemma fresh_perm {K} (eqb : K -> K -> bool) (Heq : forall a b, eqb a b = true <-> a = b) old old' new new' :
  Permutation old old' -> Permutation new new' -> fresh eqb old new = fresh eqb old' new'.
Proof.
  intros Ho Hn. apply Bool.eq_true_iff_eq. rewrite !(fresh_iff eqb Heq). split.
  - intros [Hnd Hdis]. split; [eapply Permutation_NoDup; eassumption|].
    intros k Hk Hin. apply (Hdis k).
    + eapply Permutation_in; [symmetry; exact Hn|exact Hk].
    + eapply Permutation_in; [symmetry; exact Ho|exact Hin].
  - intros [Hnd Hdis]. split; [eapply Permutation_NoDup; [symmetry; exact Hn|exact Hnd]|].
    intros k Hk Hin. apply (Hdis k).
    + eapply Permutation_in; [exact Hn|exact Hk].
    + eapply Permutation_in; [exact Ho|exact Hin].
Qed.

Lemma fresh_snoc {K} (eqb : K -> K -> bool) old k r :
  fresh eqb old (k :: r) = negb (existsb (eqb k) old) && fresh eqb (old ++ [k]) r.
Proof. reflexivity. Qed.

(* ------------------------------------------------------------------------------------------ *)
(* the acceptance tests                                                                        *)

Definition is_fnil (f : forest) : bool := match f with FNil => true | _ => false end.
Definition is_ok {A} (r : res A) : bool := match r with Ok _ => true | Err => false end.
Definition one_field (l : tline) : bool := match l_fields l with [_] => true | _ => false end.
(* a comment line (tag c) must have exactly one field; any other line is ignored *)
Definition plain_line_okb (l : tline) : bool := if tag_is c_c l then one_field l else true.
Definition one_doc (l : list str) : bool := Nat.leb (length l) 1.

(* sub-section that only knows comment lines *)
Fixpoint comments_okb (f : forest) : bool :=
  match f with
  | FNil => true
  | FNode l ch sib => is_fnil ch && plain_line_okb l && comments_okb sib
  end.
Definition docs_okb (f : forest) : bool := comments_okb f && one_doc (docs_of f).

Definition param_node_okb (n : nat) (l : tline) (ch : forest) : bool :=
  match l_fields l with
  | idx :: rest => is_ok (parse_usize idx) && is_ok (into_names n is_valid_unqualified_name rest) && docs_okb ch
  | [] => false
  end.
Fixpoint meth_okb (n : nat) (f : forest) : bool :=
  match f with
  | FNil => true
  | FNode l ch sib =>
      (if tag_is c_p l then param_node_okb n l ch else is_fnil ch && plain_line_okb l) && meth_okb n sib
  end.
Definition param_keys (f : forest) : list N := map param_key (params_of f).
Definition meth_sub_okb (n : nat) (f : forest) : bool :=
  meth_okb n f && one_doc (docs_of f) && fresh N.eqb [] (param_keys f).

Definition field_node_okb (n : nat) (l : tline) (ch : forest) : bool :=
  match l_fields l with
  | desc :: rest => is_ok (into_names n is_valid_unqualified_name rest) && is_some (first_name (names_of rest)) && docs_okb ch
  | [] => false
  end.
Definition meth_node_okb (n : nat) (l : tline) (ch : forest) : bool :=
  match l_fields l with
  | desc :: rest => is_ok (into_names n is_valid_method_name rest) && is_some (first_name (names_of rest)) && meth_sub_okb n ch
  | [] => false
  end.
Fixpoint class_okb (n : nat) (f : forest) : bool :=
  match f with
  | FNil => true
  | FNode l ch sib =>
      (if tag_is c_f l then field_node_okb n l ch
       else if tag_is c_m l then meth_node_okb n l ch
       else is_fnil ch && plain_line_okb l) && class_okb n sib
  end.
Definition field_keys (f : forest) := map field_key (fields_of f).
Definition meth_keys (f : forest) := map meth_key (meths_of f).
Definition class_sub_okb (n : nat) (f : forest) : bool :=
  class_okb n f && one_doc (docs_of f)
  && fresh (okey_eqb key2_eqb) [] (field_keys f) && fresh (okey_eqb key2_eqb) [] (meth_keys f).

Definition class_node_okb (n : nat) (l : tline) (ch : forest) : bool :=
  is_ok (into_names n is_valid_obj_class_name (l_fields l)) && is_some (first_name (names_of (l_fields l)))
  && class_sub_okb n ch.
Fixpoint top_okb (n : nat) (f : forest) : bool :=
  match f with
  | FNil => true
  | FNode l ch sib => (if tag_is c_c l then class_node_okb n l ch else is_fnil ch) && top_okb n sib
  end.
Definition class_keys (f : forest) := map class_key (classes_of f).

(* the whole file: header line, the forest below it, the forest of the classes *)
Definition accepts (n : nat) (h : tline) (hsub tops : forest) : bool :=
  Nat.leb 2 n && is_ok (read_header n h) && docs_okb hsub
  && top_okb n tops && fresh (okey_eqb str_eqb) [] (class_keys tops).

(* ------------------------------------------------------------------------------------------ *)
(* the handlers, as equations                                                                  *)

Lemma one_doc_two a b l : one_doc (a :: b :: l) = false.
Proof. reflexivity. Qed.

Lemma interp_comments_spec : forall f doc,
  interp_comments doc f =
    if comments_okb f && one_doc (opt_list doc ++ docs_of f)
    then Ok (hd_error (opt_list doc ++ docs_of f)) else Err.
Proof.
  induction f as [|l ch _ sib IH]; intros doc.
  - cbn [interp_comments comments_okb docs_of]. rewrite app_nil_r. destruct doc; reflexivity.
  - cbn [interp_comments comments_okb docs_of]. destruct ch as [|l2 c2 s2]; [|reflexivity].
    cbn [is_fnil andb]. unfold plain_line_okb, one_field, line_end.
    destruct (tag_is c_c l).
    + destruct (l_fields l) as [|s [|s2 r]]; cbn [andb]; try reflexivity.
      destruct doc as [d|].
      * cbn [opt_list app]. rewrite one_doc_two, andb_false_r. reflexivity.
      * rewrite IH. reflexivity.
    + cbn [andb]. apply IH.
Qed.

Lemma interp_comments_none f :
  interp_comments None f = if docs_okb f then Ok (doc_of f) else Err.
Proof. rewrite interp_comments_spec. reflexivity. Qed.

Lemma into_names_names_of n valid fs r : into_names n valid fs = Ok r -> r = names_of fs.
Proof. intros H. apply into_names_ok in H. tauto. Qed.

Definition meth_result (m : meth) (f : forest) : meth :=
  mkMeth (m_desc m) (m_names m) (hd_error (opt_list (m_doc m) ++ docs_of f)) (m_params m ++ params_of f).

Lemma interp_meth_spec n : forall f m,
  interp_meth n m f =
    if meth_okb n f && one_doc (opt_list (m_doc m) ++ docs_of f)
       && fresh N.eqb (map param_key (m_params m)) (param_keys f)
    then Ok (meth_result m f) else Err.
Proof.
  induction f as [|l ch _ sib IH]; intros m.
  - cbn [interp_meth meth_okb docs_of]. unfold meth_result, param_keys. cbn [params_of docs_of map fresh].
    rewrite !app_nil_r, andb_true_r. destruct m as [d nm [dc|] ps]; reflexivity.
  - cbn [interp_meth meth_okb]. unfold param_keys, meth_result. cbn [docs_of params_of].
    destruct (tag_is c_p l) eqn:Tp.
    + rewrite (tag_excl c_p c_c l eq_refl Tp). unfold param_node_okb.
      destruct (l_fields l) as [|idx rest]; [reflexivity|].
      destruct (parse_usize idx) as [i|]; [|reflexivity]. cbn [bind is_ok andb].
      destruct (into_names n is_valid_unqualified_name rest) as [nm|] eqn:En; [|reflexivity]. cbn [bind is_ok andb].
      pose proof (into_names_names_of _ _ _ _ En) as ->.
      rewrite interp_comments_none. cbn [map fresh param_key p_index].
      destruct (existsb (N.eqb i) (map param_key (m_params m))).
      { cbn [negb andb]. rewrite !andb_false_r. reflexivity. }
      cbn [negb andb]. destruct (docs_okb ch); [|reflexivity]. cbn [bind andb].
      rewrite IH. unfold meth_result, param_keys, add_m_param. cbn [m_desc m_names m_doc m_params].
      rewrite map_app, <- !app_assoc. reflexivity.
    + destruct ch as [|l2 c2 s2]; [|reflexivity]. cbn [is_fnil andb].
      unfold plain_line_okb, one_field, line_end. destruct (tag_is c_c l).
      * destruct (l_fields l) as [|s [|s2 r]]; cbn [andb]; try reflexivity.
        destruct (m_doc m) as [d|] eqn:Ed.
        -- cbn [opt_list app]. rewrite one_doc_two, andb_false_r. reflexivity.
        -- rewrite IH. unfold meth_result, set_m_doc. cbn [m_desc m_names m_doc m_params opt_list app]. reflexivity.
      * cbn [andb]. apply IH.
Qed.

Lemma interp_meth_fresh n desc nm ch :
  interp_meth n (mkMeth desc nm None []) ch =
    if meth_sub_okb n ch then Ok (mkMeth desc nm (doc_of ch) (params_of ch)) else Err.
Proof. rewrite interp_meth_spec. reflexivity. Qed.

Definition class_result (c : class) (f : forest) : class :=
  mkClass (c_names c) (hd_error (opt_list (c_doc c) ++ docs_of f)) (c_fields c ++ fields_of f) (c_methods c ++ meths_of f).

Lemma field_key_names desc nm d : field_key (mkField desc nm d) = match first_name nm with Some x => Some (x, desc) | None => None end.
Proof. reflexivity. Qed.
Lemma meth_key_names desc nm d ps : meth_key (mkMeth desc nm d ps) = match first_name nm with Some x => Some (x, desc) | None => None end.
Proof. reflexivity. Qed.

Lemma interp_class_spec n : forall f c,
  interp_class n c f =
    if class_okb n f && one_doc (opt_list (c_doc c) ++ docs_of f)
       && fresh (okey_eqb key2_eqb) (map field_key (c_fields c)) (field_keys f)
       && fresh (okey_eqb key2_eqb) (map meth_key (c_methods c)) (meth_keys f)
    then Ok (class_result c f) else Err.
Proof.
  induction f as [|l ch _ sib IH]; intros c.
  - cbn [interp_class class_okb docs_of]. unfold class_result, field_keys, meth_keys.
    cbn [fields_of meths_of docs_of map fresh].
    rewrite !app_nil_r, !andb_true_r. destruct c as [nm [dc|] fs ms]; reflexivity.
  - cbn [interp_class class_okb]. unfold field_keys, meth_keys, class_result. cbn [docs_of fields_of meths_of].
    destruct (tag_is c_f l) eqn:Tf.
    + rewrite (tag_excl c_f c_c l eq_refl Tf), (tag_excl c_f c_m l eq_refl Tf). unfold field_node_okb.
      destruct (l_fields l) as [|desc rest]; [reflexivity|].
      destruct (into_names n is_valid_unqualified_name rest) as [nm|] eqn:En; [|reflexivity]. cbn [bind is_ok andb].
      pose proof (into_names_names_of _ _ _ _ En) as ->.
      rewrite interp_comments_none. cbn [map fresh]. rewrite !field_key_names.
      destruct (first_name (names_of rest)) as [x|] eqn:Ef; [|reflexivity]. cbn [is_some andb].
      destruct (existsb (okey_eqb key2_eqb (Some (x, desc))) (map field_key (c_fields c))).
      { cbn [negb andb]. rewrite !andb_false_r. reflexivity. }
      cbn [negb andb]. destruct (docs_okb ch); [|reflexivity]. cbn [bind andb].
      rewrite IH. unfold class_result, field_keys, meth_keys, add_c_field. cbn [c_names c_doc c_fields c_methods].
      rewrite map_app, <- !app_assoc. cbn [map app]. rewrite field_key_names, Ef. reflexivity.
    + destruct (tag_is c_m l) eqn:Tm.
      * rewrite (tag_excl c_m c_c l eq_refl Tm). unfold meth_node_okb.
        destruct (l_fields l) as [|desc rest]; [reflexivity|].
        destruct (into_names n is_valid_method_name rest) as [nm|] eqn:En; [|reflexivity]. cbn [bind is_ok andb].
        pose proof (into_names_names_of _ _ _ _ En) as ->.
        rewrite interp_meth_fresh. cbn [map fresh]. rewrite !meth_key_names.
        destruct (first_name (names_of rest)) as [x|] eqn:Ef; [|reflexivity]. cbn [is_some andb].
        destruct (existsb (okey_eqb key2_eqb (Some (x, desc))) (map meth_key (c_methods c))).
        { cbn [negb andb]. rewrite !andb_false_r. reflexivity. }
        cbn [negb andb]. destruct (meth_sub_okb n ch); [|reflexivity]. cbn [bind andb].
        rewrite IH. unfold class_result, field_keys, meth_keys, add_c_meth. cbn [c_names c_doc c_fields c_methods].
        rewrite map_app, <- !app_assoc. cbn [map app]. rewrite meth_key_names, Ef. reflexivity.
      * destruct ch as [|l2 c2 s2]; [|reflexivity]. cbn [is_fnil andb].
        unfold plain_line_okb, one_field, line_end. destruct (tag_is c_c l).
        -- destruct (l_fields l) as [|s [|s2 r]]; cbn [andb]; try reflexivity.
           destruct (c_doc c) as [d|] eqn:Ed.
           ++ cbn [opt_list app]. rewrite one_doc_two, !andb_false_r. reflexivity.
           ++ rewrite IH. unfold class_result, set_c_doc. cbn [c_names c_doc c_fields c_methods opt_list app]. reflexivity.
        -- cbn [andb]. apply IH.
Qed.

Lemma interp_class_fresh n nm ch :
  interp_class n (mkClass nm None [] []) ch =
    if class_sub_okb n ch then Ok (mkClass nm (doc_of ch) (fields_of ch) (meths_of ch)) else Err.
Proof. rewrite interp_class_spec. reflexivity. Qed.

Lemma interp_top_spec n : forall f M,
  interp_top n M f =
    if top_okb n f && fresh (okey_eqb str_eqb) (map class_key (ms_classes M)) (class_keys f)
    then Ok (mkMappings (ms_ns M) (ms_doc M) (ms_classes M ++ classes_of f)) else Err.
Proof.
  induction f as [|l ch _ sib IH]; intros M.
  - cbn [interp_top top_okb]. unfold class_keys. cbn [classes_of map fresh andb].
    rewrite app_nil_r. destruct M; reflexivity.
  - cbn [interp_top top_okb]. unfold class_keys. cbn [classes_of].
    destruct (tag_is c_c l) eqn:Tc.
    + unfold class_node_okb.
      destruct (into_names n is_valid_obj_class_name (l_fields l)) as [nm|] eqn:En; [|reflexivity]. cbn [bind is_ok andb].
      pose proof (into_names_names_of _ _ _ _ En) as ->.
      rewrite interp_class_fresh. cbn [map fresh]. unfold class_key at 1 3. cbn [c_names].
      destruct (first_name (names_of (l_fields l))) as [x|] eqn:Ef; [|reflexivity]. cbn [is_some andb].
      destruct (existsb (okey_eqb str_eqb (Some x)) (map class_key (ms_classes M))).
      { cbn [negb andb]. rewrite !andb_false_r. reflexivity. }
      cbn [negb andb]. destruct (class_sub_okb n ch); [|reflexivity]. cbn [bind andb].
      rewrite IH. unfold class_keys, add_class. cbn [ms_ns ms_doc ms_classes].
      rewrite map_app, <- !app_assoc. cbn [map app].
      change (class_key (mkClass (names_of (l_fields l)) (doc_of ch) (fields_of ch) (meths_of ch))) with (first_name (names_of (l_fields l))).
      rewrite Ef. reflexivity.
    + destruct ch as [|l2 c2 s2]; [|reflexivity]. cbn [is_fnil andb]. apply IH.
Qed.

(* ------------------------------------------------------------------------------------------ *)
(* the whole reader                                                                            *)

(* [read] on a text whose lines are a header followed by a well-indented forest *)
Theorem read_forest n t h hsub tops :
  map tiny_line (raw_lines t) = h :: flatten hsub ++ flatten tops ->
  depth_ok 1 hsub -> depth_ok 0 tops ->
  read n t = if accepts n h hsub tops then Ok (skeleton h hsub tops) else Err.
Proof.
  intros El D1 D0. unfold read, accepts. rewrite El.
  destruct (Nat.ltb n 2) eqn:En2.
  { apply Nat.ltb_lt in En2. destruct (Nat.leb 2 n) eqn:E; [apply Nat.leb_le in E; lia|reflexivity]. }
  apply Nat.ltb_ge in En2. apply Nat.leb_le in En2. rewrite En2. cbn [andb].
  destruct (read_header n h) as [ns|] eqn:Eh; [|reflexivity]. cbn [bind is_ok andb].
  assert (Hst : stops 1 (flatten tops)).
  { destruct tops as [|l ch sib]; cbn [flatten stops depth_ok] in *; [exact I|]. destruct D0 as (-> & _). lia. }
  rewrite (build_flatten _ 1 hsub (flatten tops) D1 Hst) by apply Nat.lt_succ_diag_r.
  rewrite interp_comments_none. destruct (docs_okb hsub); [|reflexivity]. cbn [bind andb].
  assert (B0 : build (S (length (flatten hsub ++ flatten tops))) 0 (flatten tops ++ []) = Ok (tops, [])).
  { apply build_flatten; [exact D0|exact I|]. rewrite app_nil_r, app_length. lia. }
  rewrite app_nil_r in B0. rewrite B0, interp_top_spec. cbn [ms_ns ms_doc ms_classes map app].
  destruct (top_okb n tops && fresh (okey_eqb str_eqb) [] (class_keys tops)); [|reflexivity].
  unfold skeleton. do 2 f_equal.
  unfold read_header in Eh. destruct (str_eqb (l_first h) s_tiny); [|discriminate].
  destruct (l_fields h) as [|a [|b r]]; try discriminate.
  destruct (str_eqb a [c_2] && str_eqb b [c_0]); [|discriminate].
  unfold into_namespaces in Eh. destruct (_ && _) in Eh; [|discriminate]. injection Eh as <-. reflexivity.
Qed.

(* exactly the accepted texts: [read] answers Ok iff the lines are a header followed by a
   well-indented forest that passes the acceptance test; the answer is its skeleton *)
Theorem read_accepts_iff n t M :
  read n t = Ok M <->
  exists h hsub tops,
    map tiny_line (raw_lines t) = h :: flatten hsub ++ flatten tops
    /\ depth_ok 1 hsub /\ depth_ok 0 tops
    /\ accepts n h hsub tops = true /\ M = skeleton h hsub tops.
Proof.
  split.
  - intros H. destruct (read_exact n t M H) as (h & hsub & tops & El & D1 & D0 & ->).
    exists h, hsub, tops. repeat split; try assumption.
    rewrite (read_forest n t h hsub tops El D1 D0) in H.
    destruct (accepts n h hsub tops); [reflexivity|discriminate].
  - intros (h & hsub & tops & El & D1 & D0 & Ha & ->).
    rewrite (read_forest n t h hsub tops El D1 D0), Ha. reflexivity.
Qed.

(* a text whose lines cannot be grouped by indentation is rejected *)
Theorem read_not_indented_err n t :
  (forall h hsub tops, map tiny_line (raw_lines t) = h :: flatten hsub ++ flatten tops ->
     depth_ok 1 hsub -> depth_ok 0 tops -> False) ->
  read n t = Err.
Proof.
  intros H. destruct (read n t) as [M|] eqn:E; [|reflexivity]. exfalso.
  destruct (read_exact n t M E) as (h & hsub & tops & El & D1 & D0 & _). exact (H h hsub tops El D1 D0).
Qed.

Lemma fresh_class_keys_iff (old new : list (option str)) :
  fresh (okey_eqb str_eqb) old new = true <-> NoDup new /\ (forall k, In k new -> ~ In k old).
Proof. apply (fresh_iff (okey_eqb str_eqb) okey_str_eqb_eq). Qed.

(* a text is read with one namespace count only *)
Theorem read_n_unique n n' t M M' : read n t = Ok M -> read n' t = Ok M' -> n = n' /\ M = M'.
Proof.
  intros H H'.
  destruct (read_exact n t M H) as (h & hsub & tops & El & D1 & D0 & ->).
  destruct (read_accepts_iff n' t M') as [Hx _]. destruct (Hx H') as (h' & hsub' & tops' & El' & D1' & D0' & _ & ->).
  pose proof (read_ok_wf n t _ H) as [_ L]. pose proof (read_ok_wf n' t _ H') as [_ L'].
  rewrite El in El'. injection El' as <- Ebody.
  assert (Hst : forall f : forest, depth_ok 0 f -> stops 1 (flatten f)).
  { intros f. destruct f as [|l ch sib]; cbn [flatten stops depth_ok]; [auto|]. intros (-> & _). lia. }
  assert (B : build (S (length (flatten hsub ++ flatten tops))) 1 (flatten hsub ++ flatten tops) = Ok (hsub, flatten tops))
    by (apply build_flatten; [exact D1|apply Hst; exact D0|apply Nat.lt_succ_diag_r]).
  assert (B' : build (S (length (flatten hsub ++ flatten tops))) 1 (flatten hsub' ++ flatten tops') = Ok (hsub', flatten tops'))
    by (apply build_flatten; [exact D1'|apply Hst; exact D0'|rewrite <- Ebody; apply Nat.lt_succ_diag_r]).
  rewrite <- Ebody, B in B'. injection B' as <- Etops.
  assert (C : build (S (length (flatten tops))) 0 (flatten tops ++ []) = Ok (tops, []))
    by (apply build_flatten; [exact D0|exact I|rewrite app_nil_r; apply Nat.lt_succ_diag_r]).
  assert (C' : build (S (length (flatten tops))) 0 (flatten tops' ++ []) = Ok (tops', []))
    by (apply build_flatten; [exact D0'|exact I|rewrite app_nil_r, <- Etops; apply Nat.lt_succ_diag_r]).
  rewrite <- Etops, C in C'. injection C' as <-.
  split; [|reflexivity]. rewrite <- L, <- L'. reflexivity.
Qed.
