(* C03 theory, part 6: the written text does not depend on the insertion order. *)
From FB Require Import C03.Model C03.Theory3 C03.Theory5.
From Coq Require Import Lia.

(* the same content in another insertion order, at every level *)
Definition perm_upto {A} (R : A -> A -> Prop) (l l' : list A) : Prop :=
  exists l2, Permutation l l2 /\ Forall2 R l2 l'.
Definition meth_equiv (m m' : meth) : Prop :=
  m_desc m = m_desc m' /\ m_names m = m_names m' /\ m_doc m = m_doc m'
  /\ Permutation (m_params m) (m_params m').
Definition class_equiv (c c' : class) : Prop :=
  c_names c = c_names c' /\ c_doc c = c_doc c'
  /\ Permutation (c_fields c) (c_fields c') /\ perm_upto meth_equiv (c_methods c) (c_methods c').
Definition mappings_equiv (M M' : mappings) : Prop :=
  ms_ns M = ms_ns M' /\ ms_doc M = ms_doc M' /\ perm_upto class_equiv (ms_classes M) (ms_classes M').

Lemma NoDup_map_inj {A K} (key : A -> K) l a b :
  NoDup (map key l) -> In a l -> In b l -> key a = key b -> a = b.
Proof.
  induction l as [|x l IH]; intros Hnd Ha Hb E; [contradiction|].
  cbn [map] in Hnd. inversion Hnd as [|? ? Hn Hnd']; subst.
  destruct Ha as [->|Ha], Hb as [->|Hb].
  - reflexivity.
  - exfalso. apply Hn. rewrite E. apply in_map. exact Hb.
  - exfalso. apply Hn. rewrite <- E. apply in_map. exact Ha.
  - apply IH; assumption.
Qed.

(* sorting a list with distinct keys gives the same result for every permutation of it *)
Lemma isort_perm_eq {A K K2} (info : A -> K) cmp (G : cmp_good cmp) (key : A -> K2) l l' :
  (forall a b, info a = info b -> key a = key b) ->
  NoDup (map key l) -> Permutation l l' ->
  isort (le_by info cmp) l = isort (le_by info cmp) l'.
Proof.
  intros Hk Hnd Hp.
  apply sorted_perm_unique with (P := fun x => In x l).
  - apply le_by_total. exact G.
  - apply le_by_trans. exact G.
  - apply le_by_antisym; [exact G|]. intros a b Ha Hb E.
    apply (NoDup_map_inj key l); auto.
  - apply Forall_forall. auto.
  - exact Hp.
Qed.

Lemma canon_meth_equiv n m m' : wf_meth n m = true -> meth_equiv m m' -> canon_meth m = canon_meth m'.
Proof.
  intros Hwf (Hd & Hn & Hdoc & Hp). unfold canon_meth. rewrite <- Hd, <- Hn, <- Hdoc. f_equal.
  change (fun a b => is_le (param_cmp a b)) with param_le. rewrite param_le_by.
  apply (isort_perm_eq param_info _ index_names_good param_key).
  - intros a b [= E _]. exact E.
  - unfold wf_meth in Hwf. apply andb_true_iff in Hwf. destruct Hwf as [_ Hnd].
    apply (nodupb_NoDup N.eqb N.eqb_eq). exact Hnd.
  - exact Hp.
Qed.

Lemma Forall2_map_eq {A B} (f : A -> B) (R : A -> A -> Prop) l l' :
  (forall a b, In a l -> R a b -> f a = f b) -> Forall2 R l l' -> map f l = map f l'.
Proof.
  intros H F. induction F as [|a b l l' Hab _ IH]; [reflexivity|].
  cbn [map]. rewrite (H a b) by (auto; left; reflexivity). rewrite IH; [reflexivity|].
  intros x y Hx. apply H. right. exact Hx.
Qed.

Lemma meth_key_canon m : meth_key (canon_meth m) = meth_key m. Proof. reflexivity. Qed.
Lemma class_key_canon c : class_key (canon_class c) = class_key c. Proof. reflexivity. Qed.

Lemma first_name_eq (a b : names) : a = b -> first_name a = first_name b.
Proof. intros ->. reflexivity. Qed.

Lemma canon_class_equiv n c c' : wf_class n c = true -> class_equiv c c' -> canon_class c = canon_class c'.
Proof.
  intros Hwf (Hn & Hdoc & Hpf & (ms2 & Hpm & Hfm)). unfold canon_class. rewrite <- Hn, <- Hdoc.
  unfold wf_class in Hwf.
  apply andb_true_iff in Hwf. destruct Hwf as [Hwf Hndm].
  apply andb_true_iff in Hwf. destruct Hwf as [Hwf Hms].
  apply andb_true_iff in Hwf. destruct Hwf as [Hwf Hndf].
  f_equal.
  - change (fun a b => is_le (field_cmp a b)) with field_le. rewrite field_le_by.
    apply (isort_perm_eq field_info _ desc_names_good field_key).
    + intros a b [= E1 E2]. unfold field_key. rewrite E1, E2. reflexivity.
    + apply (nodupb_NoDup _ okey2_eqb_eq). exact Hndf.
    + exact Hpf.
  - change (fun a b => is_le (meth_cmp a b)) with meth_le. rewrite meth_le_by.
    assert (E : map canon_meth ms2 = map canon_meth (c_methods c')).
    { apply (Forall2_map_eq canon_meth meth_equiv); [|exact Hfm].
      intros a b Ha Hab. apply (canon_meth_equiv n); [|exact Hab].
      rewrite forallb_forall in Hms. apply Hms.
      eapply Permutation_in; [symmetry; exact Hpm|exact Ha]. }
    rewrite <- E.
    apply (isort_perm_eq meth_info _ desc_names_good meth_key).
    + intros a b [= E1 E2]. unfold meth_key. rewrite E1, E2. reflexivity.
    + rewrite map_map. apply (nodupb_NoDup _ okey2_eqb_eq). exact Hndm.
    + apply Permutation_map. exact Hpm.
Qed.

Theorem canon_equiv M M' : wf M = true -> mappings_equiv M M' -> canon M = canon M'.
Proof.
  intros Hwf (Hns & Hdoc & (cs2 & Hp & Hf)). unfold canon. rewrite <- Hns, <- Hdoc. f_equal.
  unfold wf in Hwf. cbv zeta in Hwf.
  apply andb_true_iff in Hwf. destruct Hwf as [Hwf Hnd].
  apply andb_true_iff in Hwf. destruct Hwf as [_ Hcs].
  change (fun a b => is_le (class_cmp a b)) with class_le. rewrite class_le_by.
  assert (E : map canon_class cs2 = map canon_class (ms_classes M')).
  { apply (Forall2_map_eq canon_class class_equiv); [|exact Hf].
    intros a b Ha Hab. apply (canon_class_equiv (length (ms_ns M))); [|exact Hab].
    rewrite forallb_forall in Hcs. apply Hcs.
    eapply Permutation_in; [symmetry; exact Hp|exact Ha]. }
  rewrite <- E.
  apply (isort_perm_eq class_info _ names_cmp_good class_key).
  - intros a b E1. unfold class_key, class_info in *. rewrite E1. reflexivity.
  - rewrite map_map. apply (nodupb_NoDup _ okey_str_eqb_eq). exact Hnd.
  - apply Permutation_map. exact Hp.
Qed.

(* Th 2: n! insertion orders per level, one text *)
Theorem write_order_independent M M' :
  wf M = true -> mappings_equiv M M' -> write M = write M'.
Proof.
  intros Hwf He. rewrite (write_factor M), (write_factor M'), (canon_equiv M M' Hwf He). reflexivity.
Qed.

(* the canonical representative is itself the same content in another order *)
Lemma perm_upto_refl_map {A} (R : A -> A -> Prop) (f : A -> A) le l :
  (forall x, R x (f x)) -> perm_upto R l (isort le (map f l)).
Proof.
  intros H. exists (isort (fun a b => le (f a) (f b)) l). split.
  - symmetry. apply isort_perm.
  - rewrite (isort_map f (fun a b => le (f a) (f b)) le) by reflexivity.
    induction (isort (fun a b => le (f a) (f b)) l) as [|x r IH]; constructor; auto.
Qed.

Theorem canon_is_equiv M : mappings_equiv M (canon M).
Proof.
  unfold mappings_equiv, canon. cbn [ms_ns ms_doc ms_classes]. repeat split.
  apply perm_upto_refl_map. intros c. unfold class_equiv, canon_class. cbn [c_names c_doc c_fields c_methods].
  repeat split.
  - symmetry. apply isort_perm.
  - apply perm_upto_refl_map. intros m. unfold meth_equiv, canon_meth. cbn [m_desc m_names m_doc m_params].
    repeat split. symmetry. apply isort_perm.
Qed.

(* the decidable version used by the harness: equal canonical forms *)
Theorem write_equivb M M' : canon M = canon M' -> write M = write M'.
Proof. intros E. rewrite (write_factor M), (write_factor M'), E. reflexivity. Qed.

(* ------------------------------------------------------------------------------------------ *)
(* non-vacuity: a mapping set with three namespaces, a nested class, absent cells, a non-BMP
   name, comments with line breaks, TAB, CR and a backslash followed by n on every level, a
   parameter without source name, children inserted out of order — it satisfies the hypotheses,
   is not in canonical order, and its text reads back as its canonical form *)
Definition ex_mappings : mappings :=
  mkMappings [[111; 102; 102]; [105; 110; 116]; [110; 97; 109; 101; 100]] (Some [116; 111; 112; 92; 110; 9; 120])
    [ mkClass [Some [98; 47; 90]; None; Some [110; 47; 90; 122]] (Some [108; 49; 10; 108; 50; 13]) []
        [ mkMeth [40; 73; 41; 86] [Some [109]; Some [109; 95; 49]; None] (Some [92; 110]) 
            [ mkParam 2 [None; None; Some [118]] (Some [112; 9]);
              mkParam 0 [None; Some [112; 95; 48]; None] None ] ];
      mkClass [Some [97; 36; 66]; Some [66560]; None] None
        [ mkField [73] [Some [102]; None; Some [102; 50]] (Some [99]);
          mkField [73] [Some [101]; Some [101; 49]; None] None ] [] ].

Definition nonvacuous : Prop :=
  wf ex_mappings = true /\ textual ex_mappings = true /\ canon ex_mappings <> ex_mappings
  /\ exists t, write ex_mappings = Ok t /\ read 3 t = Ok (canon ex_mappings).

Lemma nonvacuous_holds : nonvacuous.
Proof.
  split; [vm_compute; reflexivity|]. split; [vm_compute; reflexivity|]. split.
  - intros E. vm_compute in E. discriminate.
  - apply (read_write ex_mappings); vm_compute; reflexivity.
Qed.
