(* C02 — why Labels::next_attempt matters.  An attempt of the model (C02/Model.v attempt) starts from [init]: the
   label map is empty, as after Labels::next_attempt.  Here the loop is written once more with the label map of
   the previous attempt carried into the next one (what the code does when next_attempt is dropped).  The two
   loops agree as long as no attempt is repeated; on a body whose forward goto needs a second attempt the
   carried map makes the jump "resolved" at the position the label had in the FIRST layout: the written goto_w
   designates a byte 2 before the labelled instruction.  So C02_write_is_encode / C02_targets_preserved are
   statements about the loop that resets the map, and fail for the loop that does not. *)
From FB Require Import C02.Model C02.Encode C02.Theory1.
Local Open Scope Z_scope.

Definition attempt_from (labs0 : labmap) (W : list N) (b : body) (last : option label) : aresult * labmap :=
  match run W 0%N {| s_w := []; s_len := 0; s_labs := labs0; s_unw := [] |} b with
  | ERR => (AErr, labs0)
  | PANIC => (APanic, labs0)
  | OK s =>
      let labs := finish_labels last s in
      (match patch labs (frev (s_unw s)) (frev (s_w s)) with
       | PDone w => if (s_len s =? 0) || (u16max <? s_len s) then AErr else ADone w labs
       | PRestart i => ARestart i
       | PErr => AErr
       | PPanic => APanic
       end, labs)
  end.
Fixpoint wc_loop_stale (fuel : nat) (labs0 : labmap) (W : list N) (b : body) (last : option label)
  : option (out (list N * labmap * list N)) :=
  match fuel with
  | O => None
  | S f =>
      match attempt_from labs0 W b last with
      | (ADone w labs, _) => Some (OK (w, labs, W))
      | (ARestart i, labs) => wc_loop_stale f labs (i :: W) b last
      | (AErr, _) => Some ERR
      | (APanic, _) => Some PANIC
      end
  end.

(* the model's attempt is the attempt from the empty map *)
Lemma attempt_is_from_nil W b last : attempt W b last = fst (attempt_from [] W b last).
Proof.
  unfold attempt, attempt_from, init. destruct (run W 0%N _ b) as [s| |]; try reflexivity.
Qed.
(* without a restart the two loops are the same loop *)
Lemma stale_same_without_restart f W b last :
  (forall i, attempt W b last <> ARestart i) -> wc_loop_stale (S f) [] W b last = wc_loop (S f) W b last.
Proof.
  intros H. cbn [wc_loop_stale wc_loop]. pose proof (attempt_is_from_nil W b last) as E.
  destruct (attempt_from [] W b last) as [a l]. cbn [fst] in E. rewrite E in *.
  destruct a; try reflexivity. exfalso. exact (H i eq_refl).
Qed.

(* goto L; 32768 x nop; L: return *)
Definition ex_stale : body :=
  (None, Br (KJump 167 200) 7%N) :: repeat (None, Plain [0%N]) (N.to_nat 32768) ++ [(Some 7%N, Plain [177%N])].
Definition stale_check : bool :=
  match wc_loop (S (length ex_stale)) [] ex_stale None, wc_loop_stale (S (length ex_stale)) [] [] ex_stale None with
  | Some (OK (w, labs, [0%N])), Some (OK (w', labs', [0%N])) =>
      (* the loop of the model: goto_w +32773, the position of the labelled return *)
      (match decode_at w 0 with DJump 200 t => (t =? 32773) | _ => false end)
      && (match lget labs 7%N with Some p => p =? 32773 | None => false end)
      && (nthb w 32773 =? 177)
      (* the loop that keeps the map: same length, the label ends at 32773 as well, but the jump says 32771: a nop *)
      && (zlen w' =? zlen w)
      && (match lget labs' 7%N with Some p => p =? 32773 | None => false end)
      && (match decode_at w' 0 with DJump 200 t => (t =? 32771) | _ => false end)
      && (nthb w' 32771 =? 0)
  | _, _ => false
  end.
Theorem stale_labels_break : stale_check = true.
Proof. vm_compute. reflexivity. Qed.
