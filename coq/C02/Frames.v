(* C02 — the StackMapTable attribute that write_code emits (since the commit "fix: class writer
   writes the StackMapTable attribute"), at the layout level, and a decoder of the attribute that
   follows the reader's read_stack_map_frame / read_verification_type_info (class_reader.rs) and
   looks only at bytes.  Executable definitions only.

   A frame sits on an instruction entry (InstructionListEntry.frame) in the form the tree holds
   it (StackMapData).  VerificationTypeInfo::Object(class) enters with the pool index that
   pool.put_class(class) returned; Uninitialized(label) carries the label. *)
From FB Require Export C02.Model C02.Encode.
Local Open Scope Z_scope.

Inductive vti :=
| VSimple (tag : N)        (* Top 0, Integer 1, Float 2, Double 3, Long 4, Null 5, UninitializedThis 6 *)
| VObject (idx : Z)        (* 7, u16 pool index of the class *)
| VUninit (l : label).     (* 8, u16 bytecode offset of the label *)
Inductive sframe :=
| FSame
| FSame1 (s : vti)
| FChop (k : Z)
| FAppend (ls : list vti)
| FFull (ls ss : list vti).

(* `frames.push((opcode_pos, frame))`: opcode_pos = w.len() at the start of the step; the vector
   is cleared when the loop starts another attempt, so what is written are the positions of the
   attempt that ends the loop *)
Fixpoint run_pos (W : list N) (i : N) (s : st) (b : body) : list Z :=
  match b with
  | [] => []
  | le :: r => s_len s :: match step W s i le with
                          | OK s' => run_pos W (N.succ i) s' r
                          | _ => []
                          end
  end.
Fixpoint frames_at (pos : list Z) (fs : list (option sframe)) : list (Z * sframe) :=
  match pos, fs with
  | p :: pos', Some f :: fs' => (p, f) :: frames_at pos' fs'
  | _ :: pos', None :: fs' => frames_at pos' fs'
  | _, _ => []
  end.

(* write_verification_type_info *)
Definition emit_vti (labs : labmap) (v : vti) : out (list N) :=
  match v with
  | VSimple t => OK [t]
  | VObject i => OK (7%N :: be16 i)
  | VUninit l => match try_get labs l with
                 | OK p => OK (8%N :: be16 p)
                 | ERR => ERR
                 | PANIC => PANIC
                 end
  end.
Definition emit_vtis (labs : labmap) (vs : list vti) : out (list N) :=
  match mapM_out (emit_vti labs) vs with
  | OK l => OK (concat l)
  | ERR => ERR
  | PANIC => PANIC
  end.

(* `let short = u8::try_from(offset_delta).ok().filter(|&x| x < 64)`: the short form holds the
   delta in the frame type, the extended form has its own type and a u16 delta *)
Definition frame_head (short_base ext_type delta : Z) : list N :=
  if delta <? 64 then [byte_of (short_base + delta)] else byte_of ext_type :: be16 delta.

Definition emit_frame (labs : labmap) (delta : Z) (f : sframe) : out (list N) :=
  match f with
  | FSame => OK (frame_head 0 251 delta)
  | FSame1 s =>
      match emit_vti labs s with
      | OK v => OK (frame_head 64 247 delta ++ v)
      | ERR => ERR | PANIC => PANIC
      end
  | FChop k =>
      if (1 <=? k) && (k <=? 3) then OK (byte_of (251 - k) :: be16 delta) else ERR
  | FAppend ls =>
      if (1 <=? zlen ls) && (zlen ls <=? 3) then
        match emit_vtis labs ls with
        | OK v => OK (byte_of (251 + zlen ls) :: be16 delta ++ v)
        | ERR => ERR | PANIC => PANIC
        end
      else ERR
  | FFull ls ss =>
      if 65535 <? zlen ls then ERR                        (* write_usize_as_u16(len) *)
      else match emit_vtis labs ls with
           | OK v1 =>
               if 65535 <? zlen ss then ERR
               else match emit_vtis labs ss with
                    | OK v2 => OK (255%N :: be16 delta ++ be16 (zlen ls) ++ v1 ++ be16 (zlen ss) ++ v2)
                    | ERR => ERR | PANIC => PANIC
                    end
           | ERR => ERR | PANIC => PANIC
           end
  end.

(* offset_delta: the first frame stores its offset, every other one
   offset.checked_sub(previous).and_then(|x| x.checked_sub(1)) *)
Definition delta_of (prev : option Z) (off : Z) : out Z :=
  match prev with
  | None => OK off
  | Some p => if off - p - 1 <? 0 then ERR else OK (off - p - 1)
  end.
Fixpoint emit_frames (labs : labmap) (prev : option Z) (frs : list (Z * sframe)) : out (list N) :=
  match frs with
  | [] => OK []
  | (off, f) :: r =>
      match delta_of prev off with
      | OK d =>
          match emit_frame labs d f with
          | OK bs => match emit_frames labs (Some off) r with
                     | OK rest => OK (bs ++ rest)
                     | ERR => ERR | PANIC => PANIC
                     end
          | ERR => ERR | PANIC => PANIC
          end
      | ERR => ERR | PANIC => PANIC
      end
  end.
(* the body of the attribute: number_of_entries, entries *)
Definition emit_stack_map (labs : labmap) (frs : list (Z * sframe)) : out (list N) :=
  if 65535 <? zlen frs then ERR
  else match emit_frames labs None frs with
       | OK bs => OK (be16 (zlen frs) ++ bs)
       | ERR => ERR | PANIC => PANIC
       end.

(* `if !frames.is_empty() { … write_attribute(.., STACK_MAP_TABLE, ..) }`: None = no attribute *)
Definition write_frames (labs : labmap) (frs : list (Z * sframe)) : out (option (list N)) :=
  match frs with
  | [] => OK None
  | _ => match emit_stack_map labs frs with
         | OK bs => OK (Some bs)
         | ERR => ERR | PANIC => PANIC
         end
  end.

(* write_code with the frames: the loop, the exception table, the StackMapTable, then the other
   tables (order of the source: an error in an earlier part wins) *)
Definition write_code_f (hasmax : bool) (b : body) (last : option label) (tb : tables)
  (fs : list (option sframe)) : option (out (list N * list N * rtables * option (list N))) :=
  if negb hasmax then Some ERR
  else match wc_loop (S (length b)) [] b last with
       | None => None
       | Some (OK (w, labs, W)) =>
           match mapM_out (try_get3 labs) (t_exc tb) with
           | OK _ =>
               match write_frames labs (frames_at (run_pos W 0%N init b) fs) with
               | OK sm =>
                   match resolve_tables labs tb with
                   | OK r => Some (OK (w, W, r, sm))
                   | ERR => Some ERR
                   | PANIC => Some PANIC
                   end
               | ERR => Some ERR
               | PANIC => Some PANIC
               end
           | ERR => Some ERR
           | PANIC => Some PANIC
           end
       | Some ERR => Some ERR
       | Some PANIC => Some PANIC
       end.

(* ---------------- decoder (bytes only), after class_reader.rs ---------------- *)
Inductive dvti := DSimple (tag : Z) | DObject (idx : Z) | DUninit (off : Z).
Inductive dframe :=
| DSame
| DSame1 (s : dvti)
| DChop (k : Z)
| DAppend (ls : list dvti)
| DFull (ls ss : list dvti).

Definition rd_u8 (bs : list N) : option (Z * list N) :=
  match bs with a :: r => Some (Z.of_N a, r) | [] => None end.
Definition rd_u16 (bs : list N) : option (Z * list N) :=
  match bs with a :: b :: r => Some (Z.of_N a * 256 + Z.of_N b, r) | _ => None end.

(* read_verification_type_info *)
Definition dec_vti (bs : list N) : option (dvti * list N) :=
  match rd_u8 bs with
  | Some (t, r) =>
      if t <? 7 then Some (DSimple t, r)
      else if t =? 7 then match rd_u16 r with Some (i, r') => Some (DObject i, r') | None => None end
      else if t =? 8 then match rd_u16 r with Some (o, r') => Some (DUninit o, r') | None => None end
      else None
  | None => None
  end.
Fixpoint dec_vtis (n : nat) (bs : list N) : option (list dvti * list N) :=
  match n with
  | O => Some ([], bs)
  | S n' => match dec_vti bs with
            | Some (v, r) => match dec_vtis n' r with Some (vs, r') => Some (v :: vs, r') | None => None end
            | None => None
            end
  end.

(* read_stack_map_frame: (offset_delta, frame) *)
Definition dec_frame (bs : list N) : option (Z * dframe * list N) :=
  match rd_u8 bs with
  | None => None
  | Some (t, r) =>
      if t <? 64 then Some (t, DSame, r)
      else if t <? 128 then
        match dec_vti r with Some (v, r') => Some (t - 64, DSame1 v, r') | None => None end
      else if t <? 247 then None
      else match rd_u16 r with
           | None => None
           | Some (d, r1) =>
               if t =? 247 then
                 match dec_vti r1 with Some (v, r') => Some (d, DSame1 v, r') | None => None end
               else if t <? 251 then Some (d, DChop (251 - t), r1)
               else if t =? 251 then Some (d, DSame, r1)
               else if t <? 255 then
                 match dec_vtis (Z.to_nat (t - 251)) r1 with Some (vs, r') => Some (d, DAppend vs, r') | None => None end
               else
                 match rd_u16 r1 with
                 | None => None
                 | Some (nl, r2) =>
                     match dec_vtis (Z.to_nat nl) r2 with
                     | None => None
                     | Some (ls, r3) =>
                         match rd_u16 r3 with
                         | None => None
                         | Some (ns, r4) =>
                             match dec_vtis (Z.to_nat ns) r4 with
                             | Some (ss, r') => Some (d, DFull ls ss, r')
                             | None => None
                             end
                         end
                     end
                 end
           end
  end.

(* the reader's loop: offset += offset_delta (+ 1 from the second frame on), checked on u16 *)
Fixpoint dec_frames (n : nat) (first : bool) (offset : Z) (bs : list N) : option (list (Z * dframe) * list N) :=
  match n with
  | O => Some ([], bs)
  | S n' =>
      match dec_frame bs with
      | None => None
      | Some (d, f, r) =>
          let off := offset + d + (if first then 0 else 1) in
          if 65535 <? off then None
          else match dec_frames n' false off r with
               | Some (l, r') => Some ((off, f) :: l, r')
               | None => None
               end
      end
  end.
(* the whole attribute body; nothing may follow the last frame (attribute_length exact) *)
Definition dec_stack_map (bs : list N) : option (list (Z * dframe)) :=
  match rd_u16 bs with
  | None => None
  | Some (n, r) => match dec_frames (Z.to_nat n) true 0 r with
                   | Some (l, []) => Some l
                   | _ => None
                   end
  end.

(* ---------------- what the tree says ---------------- *)
Definition tvti (L : label -> option Z) (v : vti) : option dvti :=
  match v with
  | VSimple t => Some (DSimple (Z.of_N t))
  | VObject i => Some (DObject i)
  | VUninit l => match L l with Some p => Some (DUninit p) | None => None end
  end.
Definition tframe (L : label -> option Z) (f : sframe) : option dframe :=
  match f with
  | FSame => Some DSame
  | FSame1 s => match tvti L s with Some v => Some (DSame1 v) | None => None end
  | FChop k => Some (DChop k)
  | FAppend ls => match mapO (fun v => tvti L v) ls with Some vs => Some (DAppend vs) | None => None end
  | FFull ls ss => match mapO (fun v => tvti L v) ls, mapO (fun v => tvti L v) ss with
                   | Some a, Some b => Some (DFull a b)
                   | _, _ => None
                   end
  end.
(* the frames of the tree at the positions of their instructions, labels resolved by L *)
Fixpoint tree_frames (L : label -> option Z) (pos : list Z) (fs : list (option sframe)) : option (list (Z * dframe)) :=
  match pos, fs with
  | p :: pos', Some f :: fs' =>
      match tframe L f, tree_frames L pos' fs' with
      | Some d, Some r => Some ((p, d) :: r)
      | _, _ => None
      end
  | _ :: pos', None :: fs' => tree_frames L pos' fs'
  | _, _ => Some []
  end.

(* decidable well-formedness of the frames of a tree: tags of the simple types, u16 pool indices *)
Definition vti_ok (v : vti) : bool :=
  match v with
  | VSimple t => (t <? 7)%N
  | VObject i => (0 <=? i) && (i <=? 65535)
  | VUninit _ => true
  end.
Definition sframe_ok (f : sframe) : bool :=
  match f with
  | FSame => true
  | FSame1 s => vti_ok s
  | FChop _ => true
  | FAppend ls => forallb vti_ok ls
  | FFull ls ss => forallb vti_ok ls && forallb vti_ok ss
  end.
Definition frames_ok (fs : list (option sframe)) : bool :=
  forallb (fun o => match o with Some f => sframe_ok f | None => true end) fs.
Definition has_frames (fs : list (option sframe)) : bool :=
  existsb (fun o => match o with Some _ => true | None => false end) fs.
