(* C02 — whole-class theorems, part 10: the pool operands inside the code array.  For every
   instruction of a method that carries a constant, the written code array holds, at the position of
   the instruction, the instruction's bytes with a u16 (u8 for ldc) index that designates the
   constant in the final pool through the decoder's kind-checked getters. *)
From FB Require Import C02.Model C02.Encode C02.Theory1 C02.Theory2 C02.Theory3 C02.Theory4 C02.Theory5 C02.Theory6 C02.Theory7 C02.Theory8 C02.Frames C02.TheoryF
  C02.Class C02.Decode C02.Facts C02.TheoryC1 C02.TheoryC2 C02.TheoryC3 C02.TheoryC4 C02.TheoryC5 C02.TheoryC6 C02.TheoryC7.
Local Open Scope Z_scope.
Local Arguments Z.add : simpl never.
Local Arguments Z.sub : simpl never.
Local Arguments Z.mul : simpl never.
Local Opaque be16 be32 be64.

(* what the index of a loadable constant designates; for a dynamic constant the entry itself, its
   name and type, and a u16 index into the bootstrap table *)
Definition loadable_refers (p : pool) (l : loadable) (x : Z) : Prop :=
  match l with
  | LInt v => resolves p x (CInteger v)
  | LFloat b => resolves p x (CFloat b)
  | LLong v => resolves p x (CLong v)
  | LDouble b => resolves p x (CDouble b)
  | LClass n => refers get_class n p x
  | LString s => refers get_string s p x
  | LHandle h => refers get_handle h p x
  | LMethodType d => refers get_method_type d p x
  | LDynamic n d _ _ => exists b nt, resolves p x (CDynamic b nt) /\ refers get_nat (n, d) p nt
  end.
Lemma loadable_refers_mono p p' l x : pool_ext p p' -> loadable_refers p l x -> loadable_refers p' l x.
Proof.
  intros He. destruct l; cbn [loadable_refers]; try apply resolves_mono; try apply refers_mono; auto.
  intros (b & nt & H1 & H2). exists b, nt. split; [eapply resolves_mono|eapply refers_mono]; eauto.
Qed.
Lemma loadable_refers_idx p l x : loadable_refers p l x -> idx_ok x.
Proof.
  destruct l; cbn [loadable_refers]; try apply resolves_idx; try apply refers_idx.
  intros (b & nt & H1 & _). apply (resolves_idx _ _ _ H1).
Qed.

Lemma go_is_mapW : forall a,
  (fix go (a : list loadable) : W (list Z) :=
     match a with [] => ret [] | x :: r => i <- put_loadable x ;; is <- go r ;; ret (i :: is) end) a = mapW put_loadable a.
Proof. induction a as [|x r IH]; cbn [mapW]; [reflexivity|]. rewrite IH. reflexivity. Qed.

Lemma put_loadable_refers l : loadable_ok l = true -> wspec (put_loadable l) (fun p x => loadable_refers p l x).
Proof.
  destruct l as [v|v|v|v|n|s|h|d|n d h args]; intros Hok; cbn [loadable_refers].
  1-4: cbn [put_loadable loadable_ok] in *; boolsplit; apply put_spec; cbn [centry_wf centry_ok]; lia.
  - apply put_class_spec.
  - apply put_string_spec.
  - apply put_handle_spec, Hok.
  - cbn [put_loadable]. apply (put_named_spec CMethodType); [reflexivity|intros; assumption].
  - rewrite loadable_ok_dyn in Hok. apply andb_true_iff in Hok as [Hh Ha]. cbn [put_loadable]. rewrite go_is_mapW.
    eapply wspec_bind; [apply put_nat_spec|]. intros nt p0 Hnt.
    eapply wspec_bind; [apply mapW_idx; intros x Hx; apply put_loadable_spec; rewrite forallb_forall in Ha; apply Ha, Hx|]. intros idxs p1 Hidxs.
    eapply wspec_bind; [apply (put_bsm_entry_spec h idxs Hh Hidxs)|]. intros b p2 Hb.
    eapply wspec_weaken; [apply put_spec; split; [exact Hb|apply (refers_idx _ _ _ _ Hnt)]|]. intros p x Hx He2 He1 He0.
    exists b, nt. split; [exact Hx|eapply refers_mono; eauto].
Qed.

Definition iconst_refers (p : pool) (k : iconst) (x : Z) : Prop :=
  match k with
  | KClass n => refers get_class n p x
  | KField r => refers get_fieldref r p x
  | KMethod r => refers get_methodref r p x
  | KIMethod r => refers get_imethodref r p x
  | KIndy n d _ _ => exists b nt, resolves p x (CInvokeDynamic b nt) /\ refers get_nat (n, d) p nt
  end.
Lemma iconst_refers_mono p p' k x : pool_ext p p' -> iconst_refers p k x -> iconst_refers p' k x.
Proof.
  intros He. destruct k; cbn [iconst_refers]; try apply refers_mono; auto.
  intros (b & nt & H1 & H2). exists b, nt. split; [eapply resolves_mono|eapply refers_mono]; eauto.
Qed.
Lemma put_iconst_refers k : iconst_ok k = true -> wspec (put_iconst k) (fun p x => iconst_refers p k x).
Proof.
  destruct k as [n|r|r|r|n d h args]; cbn [put_iconst iconst_ok iconst_refers]; intros Hok.
  - apply put_class_spec.
  - apply put_fieldref_spec.
  - apply put_methodref_spec.
  - apply put_imethodref_spec.
  - apply andb_true_iff in Hok as [Hh Ha]. unfold put_invoke_dynamic.
    eapply wspec_bind; [apply put_nat_spec|]. intros nt p0 Hnt.
    eapply wspec_bind; [apply mapW_idx; intros x Hx; apply put_loadable_spec; rewrite forallb_forall in Ha; apply Ha, Hx|]. intros idxs p1 Hidxs.
    eapply wspec_bind; [apply (put_bsm_entry_spec h idxs Hh Hidxs)|]. intros b p2 Hb.
    eapply wspec_weaken; [apply put_spec; split; [exact Hb|apply (refers_idx _ _ _ _ Hnt)]|]. intros p x Hx He2 He1 He0.
    exists b, nt. split; [exact Hx|eapply refers_mono; eauto].
Qed.

(* the layout-level entry of an instruction, with what its operand designates *)
Definition ldc_bytes (l : loadable) (x : Z) : bytes :=
  match ldc_choose (is_long_or_double l) x with
  | LDC i => 18%N :: u8 i
  | LDC_W i => 19%N :: be16 i
  | LDC2_W i => 20%N :: be16 i
  end.
Definition lowered (p : pool) (i : cinsn) (e : entry) : Prop :=
  match i with
  | IRaw bs => e = Plain bs
  | ICp pre k post => exists x, e = Plain (pre ++ be16 x ++ post) /\ iconst_refers p k x
  | IIface r => exists x n, e = Plain (185%N :: be16 x ++ [byte_of n; 0%N]) /\ refers get_imethodref r p x /\ args_size (mr_desc r) = Ok n
  | ILdc l => exists x, e = Plain (ldc_bytes l x) /\ loadable_refers p l x
  | IBr k l => e = Br k l
  | ITSwitch d low high ts => e = TSwitch d low high ts
  | ILSwitch d ps => e = LSwitch d ps
  end.
Lemma lowered_mono p p' i e : pool_ext p p' -> lowered p i e -> lowered p' i e.
Proof.
  intros He. destruct i; cbn [lowered]; auto.
  - intros (x & H1 & H2). exists x. split; [exact H1|eapply iconst_refers_mono; eauto].
  - intros (x & n & H1 & H2 & H3). exists x, n. split; [exact H1|split; [eapply refers_mono; eauto|exact H3]].
  - intros (x & H1 & H2). exists x. split; [exact H1|eapply loadable_refers_mono; eauto].
Qed.
Lemma lower_insn_refers i : cinsn_ok i = true -> wspec (lower_insn i) (fun p e => lowered p i e).
Proof.
  destruct i; cbn [lower_insn cinsn_ok lowered]; intros Hok; try (apply wspec_ret; intros; reflexivity).
  - eapply wspec_bind; [apply put_iconst_refers, Hok|]. intros x p0 Hx. apply wspec_ret. intros p He. exists x. split; [reflexivity|eapply iconst_refers_mono; eauto].
  - eapply wspec_bind; [apply put_imethodref_spec|]. intros x p0 Hx.
    eapply (wspec_bind _ _ (fun _ n => args_size (mr_desc r) = Ok n)); [apply wspec_lift_res; intros n p Hn; exact Hn|]. intros n p1 Hn.
    apply wspec_ret. intros p He1 He0. exists x, n. split; [reflexivity|split; [eapply refers_mono; [|exact Hx]; eauto with pext|exact Hn]].
  - eapply wspec_bind; [apply put_loadable_refers, Hok|]. intros x p0 Hx. apply wspec_ret. intros p He. exists x. split; [reflexivity|eapply loadable_refers_mono; eauto].
Qed.
Lemma lower_all_refers (is : list (option label * option cframe * cinsn)) :
  forallb (fun i => cinsn_ok (snd i)) is = true ->
  wspec (mapW (fun i => e <- lower_insn (snd i) ;; ret (fst (fst i), e)) is)
        (fun p es => map fst es = map (fun i => fst (fst i)) is /\ Forall2 (fun i le => lowered p (snd i) (snd le)) is es).
Proof.
  induction is as [|i is IH]; cbn [forallb mapW map]; intros Hok.
  - apply wspec_ret. intros p. split; [reflexivity|constructor].
  - apply andb_true_iff in Hok as [A B].
    eapply (wspec_bind _ _ (fun p le => fst le = fst (fst i) /\ lowered p (snd i) (snd le))).
    { eapply wspec_bind; [apply lower_insn_refers, A|]. intros e p0 He. apply wspec_ret. intros p Hx. split; [reflexivity|]. cbn [snd]. exact (lowered_mono p0 p _ _ Hx He). }
    intros le p0 [Hle Hlo]. eapply wspec_bind; [apply IH, B|]. intros es p1 [Hes Fes].
    apply wspec_ret. intros p He1 He0. split; [cbn [map]; rewrite Hle, Hes; reflexivity|].
    constructor; [exact (lowered_mono p0 p _ _ He0 Hlo)|]. eapply Forall2_impl'; [|exact Fes]. intros a b H. exact (lowered_mono p1 p _ _ He1 H).
Qed.

(* a Plain entry's bytes sit in the encoded code array at the entry's position *)
Definition bytes_at (w : bytes) (q : Z) (bs : bytes) : Prop := exists pre post, w = pre ++ bs ++ post /\ zlen pre = q.
Lemma encode_plain_at L : forall b chs p w k lb bs q,
  encode chs L p b = Some w -> nth_error b k = Some (lb, Plain bs) -> nth_error (positions chs p b) k = Some q ->
  exists pre post, w = pre ++ bs ++ post /\ zlen pre = q - p.
Proof.
  induction b as [|[lb0 e0] r IH]; intros chs p w k lb bs q He Hk Hq; [destruct k; discriminate|].
  destruct chs as [|c cs]; cbn [encode] in He; [discriminate|].
  destruct (enc_entry c L p e0) as [x|] eqn:Ex; [|discriminate]. destruct (encode cs L (p + esize c p e0) r) as [rest|] eqn:Er; [|discriminate].
  injection He as <-. cbn [positions] in Hq. destruct k as [|k]; cbn [nth_error] in Hk, Hq.
  - injection Hk as <- ->. injection Hq as <-. cbn [enc_entry] in Ex. injection Ex as <-. exists [], rest. split; [reflexivity|]. unfold zlen; cbn [length]. lia.
  - destruct (IH _ _ _ _ _ _ _ Er Hk Hq) as (pre & post & -> & Hl). exists (x ++ pre), post. split; [rewrite <- app_assoc; reflexivity|].
    rewrite zlen_app, Hl.
    rewrite (enc_entry_len _ _ _ _ _ Ex). lia.
Qed.

Lemma wc_loop_encode b last w labs W :
  unique_labels b last -> wc_loop (S (length b)) [] b last = Some (OK (w, labs, W)) ->
  let chs := chs_run W 0%N 0 [] b in
  encode chs (labpos chs 0 b last) 0 b = Some w /\ run_pos W 0%N init b = positions chs 0 b /\ length chs = length b.
Proof.
  intros Hu Ew chs.
  pose proof (write_is_encode _ _ _ _ _ Hu Ew) as (Hcl & Henc & _).
  destruct (wc_loop_W b last _ _ _ _ _ (NoDup_nil _) ltac:(intros i []) Ew) as (_ & _ & _ & Hat).
  apply attempt_done in Hat as (_ & _ & _ & _ & (s & Hrun)).
  destruct (run_pos_positions _ _ _ _ _ Hrun) as [Hpos _]. cbn [init s_len s_labs] in Hpos.
  split; [exact Henc|split; [exact Hpos|exact Hcl]].
Qed.

Lemma Forall2_nth {A B} (R : A -> B -> Prop) : forall l l', length l = length l' ->
  (forall k a b, nth_error l k = Some a -> nth_error l' k = Some b -> R a b) -> Forall2 R l l'.
Proof.
  induction l as [|a l IH]; intros [|b l'] Hl H; cbn [length] in Hl; try discriminate; constructor.
  - apply (H 0%nat); reflexivity.
  - apply IH; [lia|]. intros k x y Hx Hy. apply (H (S k)); assumption.
Qed.
Lemma Forall2_nth_inv {A B} (R : A -> B -> Prop) : forall l l' k a, Forall2 R l l' -> nth_error l k = Some a -> exists b, nth_error l' k = Some b /\ R a b.
Proof.
  intros l l' k a F. revert k. induction F as [|x y l l' Hxy F IH]; intros [|k]; cbn [nth_error]; try discriminate.
  - intros [= <-]. exists y. split; [reflexivity|exact Hxy].
  - apply IH.
Qed.

Definition operand_ok (p : pool) (w : bytes) (q : Z) (i : cinsn) : Prop :=
  match i with
  | ICp pre k post => exists x, bytes_at w q (pre ++ be16 x ++ post) /\ iconst_refers p k x
  | IIface r => exists x n, bytes_at w q (185%N :: be16 x ++ [byte_of n; 0%N]) /\ refers get_imethodref r p x /\ args_size (mr_desc r) = Ok n
  | ILdc l => exists x, bytes_at w q (ldc_bytes l x) /\ loadable_refers p l x
  | _ => True
  end.
Lemma operand_ok_mono p p' w q i : pool_ext p p' -> operand_ok p w q i -> operand_ok p' w q i.
Proof.
  intros He. destruct i; cbn [operand_ok]; auto.
  - intros (x & H1 & H2). exists x. split; [exact H1|eapply iconst_refers_mono; eauto].
  - intros (x & n & H1 & H2 & H3). exists x, n. split; [exact H1|split; [eapply refers_mono; eauto|exact H3]].
  - intros (x & H1 & H2). exists x. split; [exact H1|eapply loadable_refers_mono; eauto].
Qed.

Theorem code_operands_resolve c : ccode_ok c = true ->
  wspec (write_code_attr c) (fun p r => Forall2 (fun i q => operand_ok p (fst (fst (snd r))) q (snd i)) (c_insns c) (snd (snd r))).
Proof.
  intros Hok. pose proof Hok as Hok0. unfold ccode_ok in Hok. bsplit. unfold write_code_attr.
  destruct (c_max c) as [[ms ml]|] eqn:Emax; [|apply wspec_err].
  eapply wspec_bind.
  { apply lower_all_refers. match goal with H : forallb _ (c_insns c) = true |- _ => rewrite forallb_forall in H; apply forallb_forall; intros i Hin; specialize (H i Hin) end.
    bsplit. assumption. }
  intros es p0 [Hes Flow].
  destruct (wc_loop (S (length es)) [] es (c_last c)) as [[[[w labs] Wd]| |]|] eqn:Ew; try apply wspec_err; try apply wspec_panic.
  assert (Hu : unique_labels es (c_last c)).
  { unfold unique_labels. rewrite body_labels_map, Hes, <- insn_labels_map. apply nodupN_spec. assumption. }
  destruct (wc_loop_encode _ _ _ _ _ Hu Ew) as (Henc & Hpos & Hcl).
  assert (Hmain : Forall2 (fun i q => operand_ok p0 w q (snd i)) (c_insns c) (run_pos Wd 0%N init es)).
  { apply Forall2_nth.
    - rewrite Hpos, positions_length by exact Hcl. rewrite <- (map_length fst es), Hes, map_length. reflexivity.
    - intros k i q Hi Hq. destruct (Forall2_nth_inv _ _ _ _ _ Flow Hi) as ([lb e] & He & Hlo). cbn [snd] in Hlo. rewrite Hpos in Hq.
      destruct (snd i) as [bs|pre kk post|rr|l|kd l|d lo hi ts|d ps]; cbn [operand_ok lowered] in *; try exact I.
      + destruct Hlo as (x & -> & Hx). exists x. split; [|exact Hx].
        destruct (encode_plain_at _ _ _ _ _ _ _ _ _ Henc He Hq) as (a & b & Hw & Hl). exists a, b. split; [exact Hw|lia].
      + destruct Hlo as (x & n & -> & Hx & Hn). exists x, n. split; [|split; [exact Hx|exact Hn]].
        destruct (encode_plain_at _ _ _ _ _ _ _ _ _ Henc He Hq) as (a & b & Hw & Hl). exists a, b. split; [exact Hw|lia].
      + destruct Hlo as (x & -> & Hx). exists x. split; [|exact Hx].
        destruct (encode_plain_at _ _ _ _ _ _ _ _ _ Henc He Hq) as (a & b & Hw & Hl). exists a, b. split; [exact Hw|lia]. }
  eapply wspec_bind; [apply (wslice16_spec_gen _ pe_exc (fa_exc labs)); intros x _; apply exc_spec|].
  { destruct (wc_loop_facts _ _ _ _ _ Hu Ew) as (Hlb & _). exact Hlb. }
  intros exc p1 _.
  destruct (wc_loop_facts _ _ _ _ _ Hu Ew) as (Hlb & Hposb & _ & _).
  eapply wspec_bind; [apply (wattrs_lspec (p_attr0 AtCode) _ _ (code_attrs_spec c labs (run_pos Wd 0%N init es) Hlb Hposb Hok0))|]. intros ab p2 _.
  apply wspec_ret. intros p He2 He1 He0. cbn [fst snd].
  eapply Forall2_impl'; [|exact Hmain]. intros i q Hiq. exact (operand_ok_mono p0 p w q (snd i) He0 Hiq).
Qed.
