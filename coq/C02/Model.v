(* C02 — layout-level model of duke::simple_class_writer::write_code (the branch-offset
   fixpoint), of the writer's label table (simple_class_writer/labels.rs) and of the
   hash-consing constant pool (simple_class_writer/pool.rs).  Executable definitions only.

   A method body is a list of (optional label, entry).  [Plain bs] is an instruction that has
   no label operand, already encoded (only its bytes/length matter for the layout); [Br] is one
   of the 16 conditionals (with the opposite opcode the code passes to if_helper) or goto/jsr
   (with the _w opcode the code passes to goto_helper); the two switches carry their labels.

   All u16 arithmetic of the Rust code is written out: the harness builds the crate with
   overflow checks, so an overflowing `+`/`-` is a panic (outcome PANIC). *)
From Coq Require Export List NArith ZArith Bool Lia.
From FB Require Export Base.Str.
Export ListNotations.
Local Open Scope Z_scope.

Inductive out (A : Type) : Type := OK (a : A) | ERR | PANIC.
Arguments OK {A} a.
Arguments ERR {A}.
Arguments PANIC {A}.

Definition label := N.

Inductive kind :=
| KCond (op inv : N)      (* if_helper(.., opcode, opposite_opcode) *)
| KJump (op wop : N).     (* goto_helper(.., opcode, wide_opcode) *)

Inductive entry :=
| Plain (bs : list N)
| Br (k : kind) (l : label)
| TSwitch (d : label) (low high : Z) (ts : list label)
| LSwitch (d : label) (ps : list (Z * label)).

Definition body := list (option label * entry).

(* ---- integers ---- *)
Definition byte_of (z : Z) : N := Z.to_N (z mod 256).
(* i16::to_be_bytes / i32::to_be_bytes (two's complement through floor division) *)
Definition be16 (z : Z) : list N := [byte_of (z / 256); byte_of z].
Definition be32 (z : Z) : list N := [byte_of (z / 16777216); byte_of (z / 65536); byte_of (z / 256); byte_of z].
Definition fits16 (z : Z) : bool := (-32768 <=? z) && (z <=? 32767).       (* i16::try_from(i32) *)
Definition u16max : Z := 65535.
Definition i32max : Z := 2147483647.
Definition zlen {A} (l : list A) : Z := Z.of_nat (length l).

(* ---- Labels (labels.rs): HashMap<Label,u16>; insert overwrites, so the most recent binding
   is the one found.  [index_to_offset] is only ever written, never read: not modelled. ---- *)
Definition labmap := list (label * Z).
Fixpoint lget (m : labmap) (l : label) : option Z :=
  match m with
  | [] => None
  | (k, v) :: m' => if N.eqb k l then Some v else lget m' l
  end.

(* ---- UnwrittenLabel ---- *)
Record unw := { u_opos : Z; u_idx : N; u_lab : label; u_wpos : Z; u_wide : bool }.

(* state of one attempt: w (reversed) with its stored length (Vec::len), the labels bound so
   far, the unwritten list (reversed: Vec::push) *)
Record st := { s_w : list N; s_len : Z; s_labs : labmap; s_unw : list unw }.

Definition push (bs : list N) (s : st) : st :=
  {| s_w := rev_append bs (s_w s); s_len := s_len s + zlen bs; s_labs := s_labs s; s_unw := s_unw s |}.
Definition add_unw (u : unw) (s : st) : st :=
  {| s_w := s_w s; s_len := s_len s; s_labs := s_labs s; s_unw := u :: s_unw s |}.
Definition add_lab (l : label) (p : Z) (s : st) : st :=
  {| s_w := s_w s; s_len := s_len s; s_labs := (l, p) :: s_labs s; s_unw := s_unw s |}.

(* List.rev is quadratic under vm_compute; rev_append is the same function (List.rev_alt) *)
Definition frev {A} (l : list A) : list A := rev_append l [].

Definition memN (i : N) (W : list N) : bool := existsb (N.eqb i) W.

Definition GOTO_W : N := 200%N.
Definition TABLESWITCH : N := 170%N.
Definition LOOKUPSWITCH : N := 171%N.
Definition ph16 : list N := [127; 255]%N.              (* i16::MAX *)
Definition ph32 : list N := [127; 255; 255; 255]%N.    (* i32::MAX *)

(* `opcode_pos + 1 + 2` on u16.  Since the commit "fix: far conditional at the end of a maximal
   method …" the code uses checked_add and returns an error; before it, this was an
   arithmetic-overflow panic in builds with overflow checks (finding F15). *)
Definition plus3 (pos : Z) : out Z := if u16max <? pos + 3 then ERR else OK (pos + 3).

(* if_helper *)
Definition if_helper (W : list N) (s : st) (pos : Z) (i : N) (l : label) (op inv : N) : out st :=
  match lget (s_labs s) l with
  | Some t =>
      let br := t - pos in
      if fits16 br then OK (push (op :: be16 br) s)
      else match plus3 pos with
           | OK p3 => OK (push ([inv; 0; 8; GOTO_W]%N ++ be32 (t - p3)) s)
           | ERR => ERR | PANIC => PANIC
           end
  | None =>
      if memN i W then
        match plus3 pos with
        | OK p3 =>
            OK (push ([inv; 0; 8; GOTO_W]%N ++ ph32)
                  (add_unw {| u_opos := p3; u_idx := i; u_lab := l; u_wpos := pos + 1 + 2 + 1; u_wide := true |} s))
        | ERR => ERR | PANIC => PANIC
        end
      else
        OK (push (op :: ph16)
              (add_unw {| u_opos := pos; u_idx := i; u_lab := l; u_wpos := pos + 1; u_wide := false |} s))
  end.

(* goto_helper *)
Definition goto_helper (W : list N) (s : st) (pos : Z) (i : N) (l : label) (op wop : N) : out st :=
  match lget (s_labs s) l with
  | Some t =>
      let br := t - pos in
      if fits16 br then OK (push (op :: be16 br) s) else OK (push (wop :: be32 br) s)
  | None =>
      if memN i W then
        OK (push (wop :: ph32)
              (add_unw {| u_opos := pos; u_idx := i; u_lab := l; u_wpos := pos + 1; u_wide := true |} s))
      else
        OK (push (op :: ph16)
              (add_unw {| u_opos := pos; u_idx := i; u_lab := l; u_wpos := pos + 1; u_wide := false |} s))
  end.

(* switch_helper: always an i32; label_write_pos = w.len() *)
Definition switch_ref (pos : Z) (i : N) (s : st) (l : label) : st :=
  match lget (s_labs s) l with
  | Some t => push (be32 (t - pos)) s
  | None => push ph32 (add_unw {| u_opos := pos; u_idx := i; u_lab := l; u_wpos := s_len s; u_wide := true |} s)
  end.

(* align_to_4_byte_boundary, called after the opcode byte has been written *)
Definition pad_of (len : Z) : list N :=
  match len mod 4 with 0 => [] | 1 => [0; 0; 0]%N | 2 => [0; 0]%N | _ => [0]%N end.

Fixpoint keys_sorted (ps : list (Z * label)) : bool :=
  match ps with
  | (k1, _) :: ((k2, _) :: _) as r => (k1 <=? k2) && keys_sorted r
  | _ => true
  end.

Definition step (W : list N) (s : st) (i : N) (le : option label * entry) : out st :=
  if u16max <? s_len s then ERR                 (* u16::try_from(w.len()) *)
  else
    let pos := s_len s in
    let s := match fst le with Some l => add_lab l pos s | None => s end in
    match snd le with
    | Plain bs => OK (push bs s)
    | Br (KCond op inv) l => if_helper W s pos i l op inv
    | Br (KJump op wop) l => goto_helper W s pos i l op wop
    | TSwitch d low high ts =>
        let s1 := push [TABLESWITCH] s in
        let s2 := push (pad_of (s_len s1)) s1 in
        let s3 := switch_ref pos i s2 d in
        if high <? low then ERR
        else if i32max <? high - low + 1 then PANIC        (* (high - low + 1) on i32 *)
        else if negb (zlen ts =? high - low + 1) then ERR
        else OK (fold_left (switch_ref pos i) ts (push (be32 low ++ be32 high) s3))
    | LSwitch d ps =>
        let s1 := push [LOOKUPSWITCH] s in
        let s2 := push (pad_of (s_len s1)) s1 in
        if negb (keys_sorted ps) then ERR
        else
          let s3 := switch_ref pos i s2 d in
          if i32max <? zlen ps then ERR                  (* i32::try_from(pairs.len()) *)
          else OK (fold_left (fun s kp => switch_ref pos i (push (be32 (fst kp)) s) (snd kp)) ps
                     (push (be32 (zlen ps)) s3))
    end.

Fixpoint run (W : list N) (i : N) (s : st) (b : body) : out st :=
  match b with
  | [] => OK s
  | le :: r => match step W s i le with
               | OK s' => run W (N.succ i) s' r
               | ERR => ERR
               | PANIC => PANIC
               end
  end.

(* labels.add_opcode_pos_label(last_label, w.len() as u16) *)
Definition finish_labels (last : option label) (s : st) : labmap :=
  match last with Some l => (l, s_len s mod 65536) :: s_labs s | None => s_labs s end.

(* put_i16_at / put_i32_at: indexing panics when out of bounds (None) *)
Fixpoint overwrite (v w : list N) : option (list N) :=
  match v, w with
  | [], _ => Some w
  | a :: v', _ :: w' => option_map (cons a) (overwrite v' w')
  | _ :: _, [] => None
  end.
Fixpoint put_at (n : nat) (v w : list N) : option (list N) :=
  match n, w with
  | O, _ => overwrite v w
  | S n', x :: w' => option_map (cons x) (put_at n' v w')
  | S _, [] => None
  end.

Inductive presult := PDone (w : list N) | PRestart (i : N) | PErr | PPanic.

Fixpoint patch (labs : labmap) (us : list unw) (w : list N) : presult :=
  match us with
  | [] => PDone w
  | u :: r =>
      match lget labs (u_lab u) with
      | None => PErr                                         (* "no instruction has the label" *)
      | Some t =>
          let br := t - u_opos u in
          if u_wide u then
            match put_at (Z.to_nat (u_wpos u)) (be32 br) w with
            | Some w' => patch labs r w'
            | None => PPanic
            end
          else if fits16 br then
            match put_at (Z.to_nat (u_wpos u)) (be16 br) w with
            | Some w' => patch labs r w'
            | None => PPanic
            end
          else PRestart (u_idx u)                            (* wide.insert(index); continue 'a *)
      end
  end.

Definition init : st := {| s_w := []; s_len := 0; s_labs := []; s_unw := [] |}.

Inductive aresult := ADone (code : list N) (labs : labmap) | ARestart (i : N) | AErr | APanic.

Definition attempt (W : list N) (b : body) (last : option label) : aresult :=
  match run W 0%N init b with
  | ERR => AErr
  | PANIC => APanic
  | OK s =>
      let labs := finish_labels last s in
      match patch labs (frev (s_unw s)) (frev (s_w s)) with
      | PDone w => if (s_len s =? 0) || (u16max <? s_len s) then AErr else ADone w labs
      | PRestart i => ARestart i
      | PErr => AErr
      | PPanic => APanic
      end
  end.

(* the 'a loop; None = out of fuel (excluded by write_terminates) *)
Fixpoint wc_loop (fuel : nat) (W : list N) (b : body) (last : option label) : option (out (list N * labmap * list N)) :=
  match fuel with
  | O => None
  | S f =>
      match attempt W b last with
      | ADone w labs => Some (OK (w, labs, W))
      | ARestart i => wc_loop f (i :: W) b last
      | AErr => Some ERR
      | APanic => Some PANIC
      end
  end.

(* ---- the tables that point into the code: all go through labels.try_get / try_get_range ---- *)
Record tables := {
  t_exc : list (label * label * label);      (* exception table: start, end, handler *)
  t_offs : list label;                       (* line numbers, type-annotation offset targets *)
  t_ranges : list (label * label)            (* local variable (type) tables, localvar type-annotation targets *)
}.
Record rtables := { r_exc : list (Z * Z * Z); r_offs : list Z; r_ranges : list (Z * Z) }.

Definition try_get (m : labmap) (l : label) : out Z :=
  match lget m l with Some t => OK t | None => ERR end.
(* (start, end - start) on u16 *)
Definition try_get_range (m : labmap) (r : label * label) : out (Z * Z) :=
  match try_get m (fst r), try_get m (snd r) with
  | OK a, OK b => if b <? a then PANIC else OK (a, b - a)
  | ERR, _ | OK _, ERR => ERR
  | _, _ => PANIC
  end.
Fixpoint mapM_out {A B} (f : A -> out B) (l : list A) : out (list B) :=
  match l with
  | [] => OK []
  | x :: r => match f x with
              | OK y => match mapM_out f r with OK ys => OK (y :: ys) | ERR => ERR | PANIC => PANIC end
              | ERR => ERR
              | PANIC => PANIC
              end
  end.
Definition try_get3 (m : labmap) (e : label * label * label) : out (Z * Z * Z) :=
  match try_get m (fst (fst e)), try_get m (snd (fst e)), try_get m (snd e) with
  | OK a, OK b, OK c => OK (a, b, c)
  | _, _, _ => ERR
  end.
Definition resolve_tables (m : labmap) (tb : tables) : out rtables :=
  match mapM_out (try_get3 m) (t_exc tb) with
  | OK e => match mapM_out (try_get m) (t_offs tb) with
            | OK o => match mapM_out (try_get_range m) (t_ranges tb) with
                      | OK r => OK {| r_exc := e; r_offs := o; r_ranges := r |}
                      | ERR => ERR | PANIC => PANIC
                      end
            | ERR => ERR | PANIC => PANIC
            end
  | ERR => ERR | PANIC => PANIC
  end.

(* write_code: max_stack/max_locals present, the loop, then the tables *)
Definition write_code (hasmax : bool) (b : body) (last : option label) (tb : tables)
  : option (out (list N * list N * rtables)) :=
  if negb hasmax then Some ERR
  else match wc_loop (S (length b)) [] b last with
       | None => None
       | Some (OK (w, labs, W)) =>
           match resolve_tables labs tb with
           | OK r => Some (OK (w, W, r))
           | ERR => Some ERR
           | PANIC => Some PANIC
           end
       | Some ERR => Some ERR
       | Some PANIC => Some PANIC
       end.

(* ======================= the writer's constant pool (pool.rs) ======================= *)
(* An entry is identified by its tag and payload; the payload's pool indices are already
   resolved when [put] is called (PoolEntry holds u16 indices), so for the hash-consing only
   equality and the two-slot flag matter: an entry is (two_slots, key). *)
Record pentry := { pe_two : bool; pe_key : list N }.
Definition pentry_eqb (a b : pentry) : bool := Bool.eqb (pe_two a) (pe_two b) && str_eqb (pe_key a) (pe_key b).

(* count: u16; map: entry -> index (association list, first binding = the only binding) *)
Record pool := { p_count : Z; p_inner : list pentry (* reversed *); p_map : list (pentry * Z) }.
Definition pool_new : pool := {| p_count := 1; p_inner := []; p_map := [] |}.
Fixpoint pfind (m : list (pentry * Z)) (e : pentry) : option Z :=
  match m with
  | [] => None
  | (k, v) :: m' => if pentry_eqb k e then Some v else pfind m' e
  end.
Definition pool_put (p : pool) (e : pentry) : res (pool * Z) :=
  match pfind (p_map p) e with
  | Some i => Ok (p, i)
  | None =>
      let index := p_count p in
      let inc := if pe_two e then 2 else 1 in
      if u16max <? index + inc then Err                      (* checked_add *)
      else Ok ({| p_count := index + inc; p_inner := e :: p_inner p; p_map := (e, index) :: p_map p |}, index)
  end.
(* what the pool, written out, holds at index i: slot layout = entries in insertion order *)
Fixpoint slots_of (es : list pentry) (i : Z) : list (Z * pentry) :=
  match es with
  | [] => []
  | e :: r => (i, e) :: slots_of r (i + (if pe_two e then 2 else 1))
  end.
Definition pool_resolve (p : pool) (i : Z) : option pentry :=
  match find (fun ie => fst ie =? i) (slots_of (frev (p_inner p)) 1) with
  | Some ie => Some (snd ie)
  | None => None
  end.
(* the Ldc arm of write_code *)
Inductive ldc_form := LDC (idx : Z) | LDC_W (idx : Z) | LDC2_W (idx : Z).
Definition ldc_choose (is_long_or_double : bool) (index : Z) : ldc_form :=
  if is_long_or_double then LDC2_W index
  else if index <=? 255 then LDC index else LDC_W index.

(* ======================= framing: write_attribute, write_usize_as_uN ======================= *)
(* u16::try_from(usize) / u32::try_from(usize) then to_be_bytes *)
Definition write_usize_as_u16 (n : Z) : res (list N) := if 65535 <? n then Err else Ok (be16 n).
Definition write_usize_as_u32 (n : Z) : res (list N) := if 4294967295 <? n then Err else Ok (be32 n).
(* write_attribute: the body is buffered, then name index, measured length, body *)
Definition write_attribute (name_index : Z) (body : list N) : res (list N) :=
  match write_usize_as_u32 (zlen body) with
  | Ok l => Ok (be16 name_index ++ l ++ body)
  | Err => Err
  end.
(* write_slice with a u16 count: the count, then the elements *)
Definition write_slice16 (elems : list (list N)) : res (list N) :=
  match write_usize_as_u16 (zlen elems) with
  | Ok l => Ok (l ++ concat elems)
  | Err => Err
  end.
(* `writer.write_u32(code_length); writer.write_u8_slice(&w)` *)
Definition frame_code (code : list N) : list N := be32 (zlen code) ++ code.

(* stack map frames: C02/Frames.v *)

(* ======================= the BootstrapMethods table (pool.rs put_bootstrap_method) =========== *)
(* an entry = (handle, argument pool indices), abstracted to a key; index = position in the Vec *)
Record bsm := { b_inner : list (list N) (* reversed *); b_map : list (list N * Z) }.
Definition bsm_new : bsm := {| b_inner := []; b_map := [] |}.
Fixpoint bfind (m : list (list N * Z)) (e : list N) : option Z :=
  match m with
  | [] => None
  | (k, v) :: m' => if str_eqb k e then Some v else bfind m' e
  end.
Definition bsm_put (t : bsm) (e : list N) : res (bsm * Z) :=
  match bfind (b_map t) e with
  | Some i => Ok (t, i)
  | None =>
      let index := zlen (b_inner t) in
      if u16max <? index then Err                                   (* vec.len().try_into::<u16>() *)
      else Ok ({| b_inner := e :: b_inner t; b_map := (e, index) :: b_map t |}, index)
  end.
Definition bsm_get (t : bsm) (i : Z) : option (list N) :=
  if i <? 0 then None else nth_error (frev (b_inner t)) (Z.to_nat i).
