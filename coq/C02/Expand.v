(* C02 — expand: the body in which every conditional that the writer emits in its long form is
   replaced by the explicit pair it stands for — the inverted condition jumping over the pair, then
   goto_w to the target — with a fresh label on a zero-length entry after the pair.  Executable
   definitions only. *)
From FB Require Export C02.Model C02.Encode.
Local Open Scope Z_scope.

Fixpoint expand (chs : list bool) (b : body) (fresh : N) : body * list bool :=
  match b, chs with
  | (lb, Br (KCond op inv) l) :: r, true :: cs =>
      let (b', c') := expand cs r (N.succ fresh) in
      ((lb, Br (KCond inv op) fresh) :: (None, Br (KJump 167%N GOTO_W) l) :: (Some fresh, Plain []) :: b',
       false :: true :: false :: c')
  | le :: r, c :: cs => let (b', c') := expand cs r fresh in (le :: b', c :: c')
  | _, _ => ([], [])
  end.
(* every label of the body, every referenced label and the last label are below the first fresh one *)
Definition refs_of (e : entry) : list label :=
  match e with
  | Plain _ => []
  | Br _ l => [l]
  | TSwitch d _ _ ts => d :: ts
  | LSwitch d ps => d :: map snd ps
  end.
Definition olist' (o : option label) : list label := match o with Some l => [l] | None => [] end.
Definition all_labels (b : body) (last : option label) : list label :=
  flat_map (fun le => olist' (fst le) ++ refs_of (snd le)) b ++ olist' last.
Definition below (fresh : N) (b : body) (last : option label) : bool := forallb (fun l => (l <? fresh)%N) (all_labels b last).
