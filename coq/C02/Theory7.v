(* C02 — targets_preserved for whole bodies, the tables that point into the code, and
   freedom from panics of write_code as a whole. *)
From FB Require Import C02.Model C02.Encode C02.Theory1 C02.Theory2 C02.Theory3 C02.Theory4 C02.Theory5 C02.Theory6.
Local Open Scope Z_scope.

Fixpoint all_expected (chs : list bool) (L : label -> option Z) (p : Z) (b : body) (bs : list N) : Prop :=
  match b, chs with
  | (_, e) :: r, c :: cs =>
      (exists ex, expected c L p e = Some ex /\ forall q d, In (q, d) ex -> decode_at bs q = d)
      /\ all_expected cs L (p + esize c p e) r bs
  | _, _ => True
  end.

Definition body_ok (b : body) : bool := forallb (fun le => entry_ok (snd le) && entry_i32 (snd le)) b.

Lemma zlen_flat_be32 {A} (f : A -> Z) (l : list A) : zlen (flat_map (fun t => be32 (f t)) l) = 4 * zlen l.
Proof.
  induction l as [|a l IH]; cbn [flat_map]; [reflexivity|]. rewrite zlen_app, IH, zlen_cons, zlen_be32. lia.
Qed.
Lemma zlen_flat_be32_pairs (g h : Z * Z -> Z) (l : list (Z * Z)) :
  zlen (flat_map (fun kt => be32 (g kt) ++ be32 (h kt)) l) = 8 * zlen l.
Proof.
  induction l as [|a l IH]; cbn [flat_map]; [reflexivity|]. rewrite !zlen_app, IH, zlen_cons, !zlen_be32. lia.
Qed.

Lemma enc_entry_len c L p e chunk : enc_entry c L p e = Some chunk -> zlen chunk = esize c p e.
Proof.
  destruct e as [bs|[op inv|op wop] l|d low high ts|d ps]; cbn [enc_entry esize].
  - intros [= <-]. reflexivity.
  - destruct (L l); [|discriminate]. destruct c; intros H; some_inj H; reflexivity.
  - destruct (L l); [|discriminate]. destruct c; intros H; some_inj H; reflexivity.
  - destruct (L d); [|discriminate]. destruct (mapO L ts) as [tts|] eqn:E; [|discriminate].
    intros H. some_inj H. pose proof (pad_bounds p).
    rewrite !zlen_app, zlen_zeros, zlen_flat_be32, !zlen_be32 by lia.
    assert (zlen tts = zlen ts) by (unfold zlen; rewrite (mapO_length _ _ _ E); reflexivity).
    cbn [zlen length Z.of_nat]. lia.
  - destruct (L d); [|discriminate]. destruct (mapO _ ps) as [kts|] eqn:E; [|discriminate].
    intros H. some_inj H. pose proof (pad_bounds p).
    rewrite !zlen_app, zlen_zeros, zlen_flat_be32_pairs, !zlen_be32 by lia.
    assert (zlen kts = zlen ps) by (unfold zlen; rewrite (mapO_length _ _ _ E); reflexivity).
    cbn [zlen length Z.of_nat]. lia.
Qed.

Lemma encode_decode L : forall b chs p pre w post,
  zlen pre = p -> encode chs L p b = Some w -> admissible chs L p b = true -> body_ok b = true ->
  all_expected chs L p b (pre ++ w ++ post).
Proof.
  induction b as [|[lb e] r IH]; intros [|c cs] p pre w post Hp He Ha Hok; cbn [all_expected encode admissible] in *; try exact I.
  destruct (enc_entry c L p e) as [chunk|] eqn:E1; [|discriminate].
  destruct (encode cs L _ r) as [rest|] eqn:E2; [|discriminate].
  some_inj He. apply andb_true_iff in Ha as [Ha1 Ha2].
  cbn [body_ok forallb snd] in Hok. apply andb_true_iff in Hok as [Hok1 Hok2]. apply andb_true_iff in Hok1 as [Ho Hi].
  split.
  - rewrite <- app_assoc. apply (decode_entry c L (zlen pre) e chunk pre (rest ++ post)); auto.
  - rewrite <- app_assoc, app_assoc.
    apply IH; auto. rewrite zlen_app, (enc_entry_len _ _ _ _ _ E1). reflexivity.
Qed.

(* ================= targets_preserved ================= *)
Theorem targets_preserved b last w labs W :
  unique_labels b last -> body_ok b = true ->
  wc_loop (S (length b)) [] b last = Some (OK (w, labs, W)) ->
  let chs := chs_run W 0%N 0 [] b in
  all_expected chs (labpos chs 0 b last) 0 b w.
Proof.
  intros Hu Hok H chs.
  pose proof (write_is_encode _ _ _ _ _ Hu H) as (_ & He & Ha & _ & _ & _).
  pose proof (encode_decode _ b chs 0 [] w [] eq_refl He Ha Hok) as Hx.
  cbn [app] in Hx. rewrite app_nil_r in Hx. exact Hx.
Qed.

(* the same, instruction by instruction *)
Lemma all_expected_nth L bs : forall b chs p k lb e c q,
  all_expected chs L p b bs ->
  nth_error b k = Some (lb, e) -> nth_error chs k = Some c -> nth_error (positions chs p b) k = Some q ->
  exists ex, expected c L q e = Some ex /\ forall q' d, In (q', d) ex -> decode_at bs q' = d.
Proof.
  induction b as [|[lb0 e0] r IH]; intros [|c0 cs] p k lb e c q; destruct k as [|k]; cbn [all_expected nth_error positions]; try discriminate.
  - intros [H _] [= <- <-] [= <-] [= <-]. exact H.
  - intros [_ H]. apply IH. exact H.
Qed.

(* a label position is the position of the instruction that carries the label (index embedding) *)
Lemma labpos_positions : forall b chs p last l t,
  length chs = length b ->
  labpos chs p b last l = Some t ->
  (exists k e, nth_error b k = Some (Some l, e) /\ nth_error (positions chs p b) k = Some t)
  \/ (last = Some l /\ t = endpos chs p b).
Proof.
  induction b as [|[lb e] r IH]; intros [|c cs] p last l t Hl; cbn [length] in Hl; try discriminate; cbn [labpos endpos positions].
  - destruct (olabel_is last l) eqn:E; [|discriminate]. intros [= <-]. right. apply olabel_is_spec in E. auto.
  - destruct (olabel_is lb l) eqn:E.
    + intros [= <-]. left. apply olabel_is_spec in E. subst. exists O, e. split; reflexivity.
    + intros H. apply IH in H; [|lia]. destruct H as [(k & e' & H1 & H2)|H]; [left|right; exact H].
      exists (S k), e'. split; assumption.
Qed.

(* ================= tables ================= *)
Lemma mapM_out_mapO {A B} (f : A -> out B) (g : A -> option B) :
  (forall x y, f x = OK y -> g x = Some y) ->
  forall l r, mapM_out f l = OK r -> mapO g l = Some r.
Proof.
  intros H. induction l as [|a l IH]; intros r; cbn [mapM_out mapO]; [intros [= <-]; reflexivity|].
  destruct (f a) as [y| |] eqn:E; try discriminate. destruct (mapM_out f l) as [ys| |]; try discriminate.
  intros [= <-]. rewrite (H _ _ E), (IH _ eq_refl). reflexivity.
Qed.

Definition L3 (L : label -> option Z) (e : label * label * label) : option (Z * Z * Z) :=
  match L (fst (fst e)), L (snd (fst e)), L (snd e) with Some a, Some b, Some c => Some (a, b, c) | _, _, _ => None end.
Definition Lrange (L : label -> option Z) (r : label * label) : option (Z * Z) :=
  match L (fst r), L (snd r) with Some a, Some b => Some (a, b - a) | _, _ => None end.

Theorem tables_resolve hasmax b last tb w W rt :
  unique_labels b last ->
  write_code hasmax b last tb = Some (OK (w, W, rt)) ->
  let chs := chs_run W 0%N 0 [] b in
  let L := labpos chs 0 b last in
  mapO (L3 L) (t_exc tb) = Some (r_exc rt) /\
  mapO L (t_offs tb) = Some (r_offs rt) /\
  mapO (Lrange L) (t_ranges tb) = Some (r_ranges rt).
Proof.
  intros Hu. unfold write_code. destruct (negb hasmax); [discriminate|].
  destruct (wc_loop _ _ _ _) as [[[[w0 labs] W0]| |]|] eqn:E; try discriminate.
  destruct (resolve_tables labs tb) as [r| |] eqn:Er; try discriminate.
  intros H. injection H as <- <- <-.
  pose proof (write_is_encode _ _ _ _ _ Hu E) as (_ & _ & _ & HL & _ & _). cbv zeta in HL.
  unfold resolve_tables in Er.
  destruct (mapM_out (try_get3 labs) (t_exc tb)) as [e| |] eqn:E1; try discriminate.
  destruct (mapM_out (try_get labs) (t_offs tb)) as [o| |] eqn:E2; try discriminate.
  destruct (mapM_out (try_get_range labs) (t_ranges tb)) as [rg| |] eqn:E3; try discriminate.
  injection Er as <-. cbn [r_exc r_offs r_ranges].
  split; [|split].
  - eapply mapM_out_mapO; [|exact E1]. intros x y. unfold try_get3, try_get, L3. rewrite <- !HL.
    destruct (lget labs (fst (fst x))); [|discriminate]. destruct (lget labs (snd (fst x))); [|discriminate].
    destruct (lget labs (snd x)); [|discriminate]. intros [= <-]. reflexivity.
  - eapply mapM_out_mapO; [|exact E2]. intros x y. unfold try_get. rewrite <- HL.
    destruct (lget labs x); [|discriminate]. intros [= <-]. reflexivity.
  - eapply mapM_out_mapO; [|exact E3]. intros x y. unfold try_get_range, try_get, Lrange. rewrite <- !HL.
    destruct (lget labs (fst x)); [|discriminate]. destruct (lget labs (snd x)); [|discriminate].
    destruct (_ <? _); [discriminate|]. intros [= <-]. reflexivity.
Qed.

(* ---- no panic for write_code as a whole: ranges are ordered (start before end) ---- *)
Fixpoint labidx (b : body) (last : option label) (l : label) (k : nat) : option nat :=
  match b with
  | [] => if olabel_is last l then Some k else None
  | (lb, _) :: r => if olabel_is lb l then Some k else labidx r last l (S k)
  end.
Definition ranges_ok (b : body) (last : option label) (tb : tables) : bool :=
  forallb (fun r => match labidx b last (fst r) O, labidx b last (snd r) O with
                    | Some i, Some j => Nat.leb i j
                    | _, _ => true
                    end) (t_ranges tb).

Lemma labidx_ge : forall b last l k i, labidx b last l k = Some i -> (k <= i)%nat.
Proof.
  induction b as [|[lb e] r IH]; intros last l k i; cbn [labidx].
  - destruct (olabel_is last l); [intros [= <-]; lia|discriminate].
  - destruct (olabel_is lb l); [intros [= <-]; lia|]. intros H. apply IH in H. lia.
Qed.

Lemma labpos_mono : forall b chs p last l1 l2 k i1 i2 t1 t2,
  labidx b last l1 k = Some i1 -> labidx b last l2 k = Some i2 -> (i1 <= i2)%nat ->
  labpos chs p b last l1 = Some t1 -> labpos chs p b last l2 = Some t2 -> t1 <= t2.
Proof.
  induction b as [|[lb e] r IH]; intros [|c cs] p last l1 l2 k i1 i2 t1 t2; cbn [labidx labpos].
  1,2: destruct (olabel_is last l1); [|discriminate]; destruct (olabel_is last l2); [|discriminate];
       intros _ _ _ [= <-] [= <-]; lia.
  - destruct (olabel_is lb l1); destruct (olabel_is lb l2).
    + intros _ _ _. destruct (olabel_is last l1); [|discriminate]. destruct (olabel_is last l2); [|discriminate]. intros [= <-] [= <-]. lia.
    + intros _ _ _. destruct (olabel_is last l1); [|discriminate]. destruct (olabel_is last l2); [|discriminate]. intros [= <-] [= <-]. lia.
    + intros _ _ _. destruct (olabel_is last l1); [|discriminate]. destruct (olabel_is last l2); [|discriminate]. intros [= <-] [= <-]. lia.
    + intros _ _ _. destruct (olabel_is last l1); [|discriminate]. destruct (olabel_is last l2); [|discriminate]. intros [= <-] [= <-]. lia.
  - destruct (olabel_is lb l1) eqn:E1; destruct (olabel_is lb l2) eqn:E2.
    + intros _ _ _ [= <-] [= <-]. lia.
    + intros _ _ _ [= <-] H. apply labpos_bounds in H. pose proof (esize_nonneg c p e). lia.
    + intros H1 [= <-] Hle. apply labidx_ge in H1. lia.
    + intros H1 H2 Hle. apply (IH cs _ last l1 l2 (S k) i1 i2); assumption.
Qed.

Lemma labpos_idx : forall b chs p last l t k,
  length chs = length b -> labpos chs p b last l = Some t -> exists i, labidx b last l k = Some i.
Proof.
  induction b as [|[lb e] r IH]; intros [|c cs] p last l t k Hl; cbn [length] in Hl; try discriminate; cbn [labpos labidx].
  - destruct (olabel_is last l); [eauto|discriminate].
  - destruct (olabel_is lb l); [eauto|]. apply IH. lia.
Qed.

Lemma try_get_range_no_panic labs x :
  (forall a c, lget labs (fst x) = Some a -> lget labs (snd x) = Some c -> a <= c) ->
  try_get_range labs x <> PANIC.
Proof.
  intros H. unfold try_get_range, try_get.
  destruct (lget labs (fst x)) as [a|]; destruct (lget labs (snd x)) as [c|]; try discriminate.
  specialize (H a c eq_refl eq_refl). destruct (c <? a) eqn:E; [apply Z.ltb_lt in E; lia|discriminate].
Qed.

Theorem write_code_no_panic hasmax b last tb :
  unique_labels b last -> spans_ok b = true -> ranges_ok b last tb = true ->
  write_code hasmax b last tb <> Some PANIC.
Proof.
  intros Hu Hs Hr. unfold write_code. destruct (negb hasmax); [discriminate|].
  destruct (wc_loop _ _ _ _) as [[[[w labs] W]| |]|] eqn:E; try discriminate.
  2:{ exfalso. exact (wc_loop_no_panic _ _ Hs _ _ E). }
  pose proof (write_is_encode _ _ _ _ _ Hu E) as (_ & _ & _ & HL & _ & _). cbv zeta in HL.
  unfold resolve_tables.
  assert (H1 : mapM_out (try_get3 labs) (t_exc tb) <> PANIC).
  { induction (t_exc tb) as [|x l IH]; cbn [mapM_out]; [discriminate|].
    unfold try_get3 at 1, try_get. destruct (lget labs (fst (fst x))); [|discriminate].
    destruct (lget labs (snd (fst x))); [|discriminate]. destruct (lget labs (snd x)); [|discriminate].
    destruct (mapM_out _ l); try discriminate. exact IH. }
  assert (H2 : mapM_out (try_get labs) (t_offs tb) <> PANIC).
  { induction (t_offs tb) as [|x l IH]; cbn [mapM_out]; [discriminate|].
    unfold try_get at 1. destruct (lget labs x); [|discriminate].
    destruct (mapM_out _ l); try discriminate. exact IH. }
  assert (H3 : mapM_out (try_get_range labs) (t_ranges tb) <> PANIC).
  { unfold ranges_ok in Hr. induction (t_ranges tb) as [|x l IH]; cbn [mapM_out forallb] in *; [discriminate|].
    apply andb_true_iff in Hr as [Hr1 Hr2].
    assert (Hx : try_get_range labs x <> PANIC).
    { apply try_get_range_no_panic. intros a c Ha Hc. rewrite HL in Ha, Hc.
      destruct (labpos_idx _ _ _ _ _ _ O (chs_run_length W b 0%N 0 []) Ha) as [i Hi].
      destruct (labpos_idx _ _ _ _ _ _ O (chs_run_length W b 0%N 0 []) Hc) as [j Hj].
      rewrite Hi, Hj in Hr1. apply Nat.leb_le in Hr1. exact (labpos_mono _ _ _ _ _ _ _ _ _ _ _ Hi Hj Hr1 Ha Hc). }
    destruct (try_get_range labs x); try discriminate; [|congruence].
    specialize (IH Hr2). destruct (mapM_out _ l); try discriminate. congruence. }
  destruct (mapM_out (try_get3 labs) (t_exc tb)); try discriminate; [|congruence].
  destruct (mapM_out (try_get labs) (t_offs tb)); try discriminate; [|congruence].
  destruct (mapM_out (try_get_range labs) (t_ranges tb)); try discriminate. congruence.
Qed.

(* targets_preserved, instruction by instruction: the instruction with index k of the tree
   sits at positions[k] of the written code; decoding there gives its label-free meaning with
   every target = the position of the instruction that carries the target label *)
Theorem targets_preserved_nth b last w labs W k lb e c q :
  unique_labels b last -> body_ok b = true ->
  wc_loop (S (length b)) [] b last = Some (OK (w, labs, W)) ->
  let chs := chs_run W 0%N 0 [] b in
  let L := labpos chs 0 b last in
  nth_error b k = Some (lb, e) -> nth_error chs k = Some c -> nth_error (positions chs 0 b) k = Some q ->
  exists ex, expected c L q e = Some ex /\ forall q' d, In (q', d) ex -> decode_at w q' = d.
Proof.
  intros Hu Hok H chs L. apply all_expected_nth. apply (targets_preserved _ _ _ _ _ Hu Hok H).
Qed.
