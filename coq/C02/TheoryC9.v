(* C02 — whole-class theorems, non-vacuity: a class with an interface, a constant field with a
   signature and an annotation, a method whose code has a pool instruction, an ldc, a conditional, an
   exception handler, stack map frames (one with an Object and an Uninitialized type), line numbers,
   local variables, an invokedynamic (so a BootstrapMethods table), and class attributes
   (InnerClasses, SourceFile, NestMembers, an unknown attribute) satisfies the hypotheses; it is
   written, and the decoder reads the facts back. *)
From FB Require Import C02.Model C02.Encode C02.Frames C02.Class C02.Decode C02.Facts
  C02.TheoryC1 C02.TheoryC2 C02.TheoryC4 C02.TheoryC5 C02.TheoryC6 C02.TheoryC7 C02.TheoryC8.
Local Open Scope Z_scope.

Definition b_A : bytes := [65]%N.                       (* "A" *)
Definition b_Obj : bytes := [79]%N.                     (* "O" *)
Definition b_I : bytes := [73]%N.                       (* "I" *)
Definition b_f : bytes := [102]%N.                      (* "f" *)
Definition b_m : bytes := [109]%N.                      (* "m" *)
Definition b_V : bytes := [40; 41; 86]%N.               (* "()V" *)
Definition b_Ann : bytes := [76; 81; 59]%N.             (* "LQ;" *)
Definition no_annots : annots := {| an_vis := []; an_invis := []; an_tvis := []; an_tinvis := [] |}.
Definition ex_handle : handle := {| h_kind := 6; h_ref := {| mr_class := b_A; mr_name := b_m; mr_desc := b_V |}; h_iface := false |}.
Definition ex_code : ccode := {|
  c_max := Some (2, 1);
  c_insns := [ (Some 1%N, Some CFSame, ICp [187]%N (KClass b_A) []);
               (None, None, ILdc (LString b_f));
               (None, None, IBr (KCond 153 154) 2%N);
               (None, None, ICp [186]%N (KIndy b_m b_V ex_handle [LInt 7; LClass b_Obj]) [0; 0]%N);
               (Some 2%N, Some (CFAppend [CVObject b_Obj; CVUninit 1%N]), IRaw [177]%N) ];
  c_last := Some 3%N;
  c_exceptions := [ {| x_start := 1%N; x_end := 2%N; x_handler := 2%N; x_catch := Some b_Obj |} ];
  c_lines := Some [(1%N, 10); (2%N, 11)];
  c_locals := Some [ {| lv_start := 1%N; lv_end := 3%N; lv_name := b_f; lv_desc := Some b_I; lv_sig := None; lv_index := 0 |} ];
  c_tvis := []; c_tinvis := []; c_unknown := [] |}.
Definition ex_class : cclass := {|
  k_minor := 0; k_major := 61; k_access := 33;
  k_name := b_A; k_super := Some b_Obj; k_interfaces := [b_I];
  k_fields := [ {| f_access := 25; f_name := b_f; f_desc := b_I; f_deprecated := true; f_synthetic := false;
                   f_constant := Some (CVInt (-5)); f_signature := Some b_I;
                   f_annots := {| an_vis := [(b_Ann, [(b_f, EArray [EConst 73 (ECInt 3); EEnum b_Ann b_f])])]; an_invis := []; an_tvis := []; an_tinvis := [] |};
                   f_unknown := [] |} ];
  k_methods := [ {| md_access := 9; md_name := b_m; md_desc := b_V; md_deprecated := false; md_synthetic := false;
                    md_code := Some ex_code; md_exceptions := Some [b_Obj]; md_signature := None; md_annots := no_annots;
                    md_default := None; md_parameters := Some [(Some b_f, 16)]; md_unknown := [] |} ];
  k_deprecated := false; k_synthetic := false;
  k_inner := Some [ {| ic_inner := b_A; ic_outer := None; ic_name := Some b_f; ic_flags := 8 |} ];
  k_enclosing := None; k_signature := None; k_source_file := Some b_f; k_source_debug := None;
  k_annots := no_annots; k_module := None; k_module_packages := None; k_module_main := None;
  k_nest_host := None; k_nest_members := Some [b_I]; k_permitted := None; k_record := [];
  k_unknown := [([88]%N, [1; 2; 3]%N)] |}.

Theorem class_example :
  cclass_ok ex_class = true /\
  exists bs aux d, write_class_aux ex_class = WOK (bs, aux) /\ facts_of ex_class aux = Some d /\ parse_class bs = Some d /\
                   zlen bs = 567 /\ length (d_attrs d) = 5%nat /\ a_bsm aux = [(ex_handle, [19; 4])].
Proof.
  split; [vm_compute; reflexivity|].
  destruct (write_class_aux ex_class) as [[bs aux]|?c|] eqn:E; [|vm_compute in E; discriminate|vm_compute in E; discriminate].
  destruct (write_class_decodes ex_class bs aux ltac:(vm_compute; reflexivity) E) as (d & Hd & Hp).
  exists bs, aux, d. split; [reflexivity|split; [exact Hd|split; [exact Hp|]]].
  vm_compute in E. injection E as <- <-. vm_compute in Hd. injection Hd as <-. vm_compute. repeat split.
Qed.
