(* C02 — the bootstrap-method table, part 1: every writer of the whole-class model only ever extends
   the state: an index of the constant pool keeps the entry it designates, and the bootstrap-method
   table only grows at its end (an entry, once put, keeps its index and its content).  No hypothesis on
   the tree and no invariant on the state is needed: [put] appends to the pool or finds, [put_bsm_entry]
   appends to the table or finds, and everything else is built from these. *)
From FB Require Import C02.Model C02.Encode C02.Theory8 C02.Frames C02.Class C02.TheoryC2 C02.TheoryC4 C02.TheoryC6 C02.TheoryC10.
Local Open Scope Z_scope.

Definition bsm_ext (t t' : list bsment) : Prop := exists r, t' = t ++ r.
Lemma bsm_ext_refl t : bsm_ext t t. Proof. exists []. rewrite app_nil_r. reflexivity. Qed.
Lemma bsm_ext_trans a b c : bsm_ext a b -> bsm_ext b c -> bsm_ext a c.
Proof. intros [r ->] [r' ->]. exists (r ++ r'). rewrite app_assoc. reflexivity. Qed.
Lemma bsm_ext_nth t t' j e : bsm_ext t t' -> nth_error t j = Some e -> nth_error t' j = Some e.
Proof. intros [r ->] H. rewrite nth_error_app1; [exact H|]. apply nth_error_Some. congruence. Qed.

Definition st_ext (s s' : wst) : Prop := pool_ext (w_pool s) (w_pool s') /\ bsm_ext (w_bsm s) (w_bsm s').
Lemma st_ext_refl s : st_ext s s. Proof. split; [apply pool_ext_refl|apply bsm_ext_refl]. Qed.
Lemma st_ext_trans a b c : st_ext a b -> st_ext b c -> st_ext a c.
Proof. intros [H1 H2] [H3 H4]. split; [eapply pool_ext_trans; eauto|eapply bsm_ext_trans; eauto]. Qed.

Definition wmono {A} (m : W A) : Prop := forall s a s', m s = WOK (a, s') -> st_ext s s'.

Lemma wmono_ret {A} (a : A) : wmono (ret a). Proof. intros s x s' H. apply ret_ok in H as [_ ->]. apply st_ext_refl. Qed.
Lemma wmono_bind {A B} (m : W A) (f : A -> W B) : wmono m -> (forall a, wmono (f a)) -> wmono (bind m f).
Proof. intros H1 H2 s b s' H. apply bind_ok in H as (a & s1 & Hm & Hf). eapply st_ext_trans; [apply (H1 _ _ _ Hm)|apply (H2 _ _ _ _ Hf)]. Qed.
Lemma wmono_lift_res {A} c (x : res A) : wmono (lift_res c x). Proof. intros s a s' H. apply lift_res_ok in H as [_ ->]. apply st_ext_refl. Qed.
Lemma wmono_lift_out {A} c (x : out A) : wmono (lift_out c x). Proof. intros s a s' H. apply lift_out_ok in H as [_ ->]. apply st_ext_refl. Qed.
Lemma wmono_err {A} c : wmono (@werr A c). Proof. intros s a s' H. discriminate. Qed.
Lemma wmono_panic {A} : wmono (fun _ : wst => @WPANIC (A * wst)). Proof. intros s a s' H. discriminate. Qed.

(* PoolWrite::put: found, or appended at the end *)
Lemma pool_put_ext p e p' i : pool_put p e = Ok (p', i) -> pool_ext p p'.
Proof.
  unfold pool_put. destruct (pfind (p_map p) e); [intros [= <- _]; apply pool_ext_refl|].
  destruct (u16max <? _); [discriminate|]. intros [= <- _] j x. rewrite !pool_resolve_slots. unfold slots. cbn [p_inner rev].
  rewrite slots_of_app. destruct (find _ (slots_of (rev (p_inner p)) 1)) as [y|] eqn:Ef; [|discriminate].
  intros H. rewrite (find_app_l _ _ _ _ Ef). exact H.
Qed.
Lemma wmono_put c : wmono (put c).
Proof.
  intros s i s'. unfold put. destruct (pool_put (w_pool s) (mk c)) as [[p' j]|] eqn:E; [|discriminate].
  intros [= _ <-]. split; cbn [w_pool w_bsm]; [apply (pool_put_ext _ _ _ _ E)|apply bsm_ext_refl].
Qed.
(* put_bootstrap_method: found, or appended at the end *)
Lemma wmono_put_bsm_entry e : wmono (put_bsm_entry e).
Proof.
  intros s i s'. unfold put_bsm_entry. destruct (bsm_index (w_bsm s) e 0); [intros [= _ <-]; apply st_ext_refl|].
  destruct (u16max <? _); [discriminate|]. intros [= _ <-]. split; cbn [w_pool w_bsm]; [apply pool_ext_refl|exists [e]; reflexivity].
Qed.
Lemma wmono_mapW {A B} (f : A -> W B) l : (forall x, In x l -> wmono (f x)) -> wmono (mapW f l).
Proof.
  induction l as [|x l IH]; intros H; cbn [mapW]; [apply wmono_ret|].
  apply wmono_bind; [apply H; left; reflexivity|]. intros y. apply wmono_bind; [apply IH; intros z Hz; apply H; right; exact Hz|]. intros ys. apply wmono_ret.
Qed.
Lemma wmono_seqW {A} (l : list (W A)) : (forall m, In m l -> wmono m) -> wmono (seqW l).
Proof.
  induction l as [|x l IH]; intros H; cbn [seqW]; [apply wmono_ret|].
  apply wmono_bind; [apply H; left; reflexivity|]. intros y. apply wmono_bind; [apply IH; intros z Hz; apply H; right; exact Hz|]. intros ys. apply wmono_ret.
Qed.

Create HintDb wmono.
Ltac mo1 := match goal with
  | |- wmono (ret _) => apply wmono_ret
  | |- wmono (put _) => apply wmono_put
  | |- wmono (lift_res _ _) => apply wmono_lift_res
  | |- wmono (lift_out _ _) => apply wmono_lift_out
  | |- wmono (bind _ _) => apply wmono_bind; [|intros ?]
  | |- wmono (werr _) => apply wmono_err
  | |- wmono (fun _ => WPANIC) => apply wmono_panic
  | |- wmono (match ?o with Some _ => _ | None => _ end) => destruct o
  | |- wmono (if ?b then _ else _) => destruct b
  | |- wmono (w_u16len _) => apply wmono_lift_res
  | |- wmono (w_u8len _) => apply wmono_lift_res
  end.
Ltac mo := repeat mo1; auto with wmono.

Lemma wmono_put_utf8 s : wmono (put_utf8 s). Proof. unfold put_utf8. mo. Qed.
#[global] Hint Resolve wmono_put_utf8 wmono_put_bsm_entry : wmono.
Lemma wmono_put_class n : wmono (put_class n). Proof. unfold put_class. mo. Qed.
Lemma wmono_put_package n : wmono (put_package n). Proof. unfold put_package. mo. Qed.
Lemma wmono_put_module n : wmono (put_module n). Proof. unfold put_module. mo. Qed.
Lemma wmono_put_string n : wmono (put_string n). Proof. unfold put_string. mo. Qed.
Lemma wmono_put_nat n d : wmono (put_nat n d). Proof. unfold put_nat. mo. Qed.
#[global] Hint Resolve wmono_put_class wmono_put_package wmono_put_module wmono_put_string wmono_put_nat : wmono.
Lemma wmono_put_fieldref r : wmono (put_fieldref r). Proof. unfold put_fieldref. mo. Qed.
Lemma wmono_put_methodref r : wmono (put_methodref r). Proof. unfold put_methodref. mo. Qed.
Lemma wmono_put_imethodref r : wmono (put_imethodref r). Proof. unfold put_imethodref. mo. Qed.
#[global] Hint Resolve wmono_put_fieldref wmono_put_methodref wmono_put_imethodref : wmono.
Lemma wmono_put_handle h : wmono (put_handle h). Proof. unfold put_handle, put_method_or_imethod. mo. Qed.
#[global] Hint Resolve wmono_put_handle : wmono.
Lemma wmono_put_opt {A} (f : A -> W Z) o : (forall a, wmono (f a)) -> wmono (put_opt f o).
Proof. intros H. destruct o; cbn [put_opt]; [apply H|apply wmono_ret]. Qed.
Lemma wmono_put_loadable l : wmono (put_loadable l).
Proof.
  induction l as [v|v|v|v|n|s|h|d|n d h args IH] using loadable_ind2; cbn [put_loadable]; try (mo; fail).
  rewrite go_is_mapW. mo. apply wmono_mapW. intros x Hx. rewrite Forall_forall in IH. apply IH, Hx.
Qed.
#[global] Hint Resolve wmono_put_loadable : wmono.
Lemma wmono_put_invoke_dynamic n d h a : wmono (put_invoke_dynamic n d h a).
Proof. unfold put_invoke_dynamic. mo. apply wmono_mapW. intros; apply wmono_put_loadable. Qed.
#[global] Hint Resolve wmono_put_invoke_dynamic : wmono.
Lemma wmono_put_iconst k : wmono (put_iconst k). Proof. destruct k; cbn [put_iconst]; auto with wmono. Qed.
Lemma wmono_put_econst k : wmono (put_econst k). Proof. destruct k; cbn [put_econst]; mo. Qed.
Lemma wmono_put_constant_value k : wmono (put_constant_value k). Proof. destruct k; cbn [put_constant_value]; mo. Qed.
#[global] Hint Resolve wmono_put_iconst wmono_put_econst wmono_put_constant_value : wmono.
Lemma wmono_lower_insn i : wmono (lower_insn i). Proof. destruct i; cbn [lower_insn]; mo. Qed.
#[global] Hint Resolve wmono_lower_insn : wmono.

Lemma wmono_wslice16 {A} (f : A -> W bytes) l : (forall x, In x l -> wmono (f x)) -> wmono (wslice16 f l).
Proof. intros H. unfold wslice16. mo. apply wmono_mapW, H. Qed.
Lemma wmono_wslice8 {A} (f : A -> W bytes) l : (forall x, In x l -> wmono (f x)) -> wmono (wslice8 f l).
Proof. intros H. unfold wslice8. mo. apply wmono_mapW, H. Qed.
Lemma wmono_wattr name body : wmono body -> wmono (wattr name body).
Proof. intros H. unfold wattr. mo. Qed.
Lemma wmono_wattr_fix name len body : wmono body -> wmono (wattr_fix name len body).
Proof. intros H. unfold wattr_fix. mo. Qed.
Lemma wmono_wattr_raw name content : wmono (wattr_raw name content).
Proof. unfold wattr_raw. mo. Qed.
Lemma wmono_wattrs l : (forall m, In m l -> wmono m) -> wmono (wattrs l).
Proof. intros H. unfold wattrs. mo. apply wmono_seqW, H. Qed.
Lemma wmono_idx16 m : wmono m -> wmono (idx16 m).
Proof. intros H. unfold idx16. mo. Qed.
#[global] Hint Resolve wmono_wattr_raw : wmono.

Lemma wmono_write_elem e : wmono (write_elem e).
Proof.
  induction e as [t k|a b|d|ty ps IH|vs IH] using elem_ind2; cbn [write_elem]; try (mo; fail).
  - apply wmono_bind; [auto with wmono|intros a]. apply wmono_bind; [mo|intros c]. apply wmono_bind; [|intros; apply wmono_ret].
    clear -IH. induction ps as [|[n v] r IHr]; [apply wmono_ret|]. inversion IH as [|? ? Hv Hr]; subst. cbn [snd] in Hv.
    apply wmono_bind; [auto with wmono|intros i]. apply wmono_bind; [exact Hv|intros b]. apply wmono_bind; [apply IHr, Hr|intros; apply wmono_ret].
  - apply wmono_bind; [mo|intros c]. apply wmono_bind; [|intros; apply wmono_ret].
    clear -IH. induction vs as [|v r IHr]; [apply wmono_ret|]. inversion IH as [|? ? Hv Hr]; subst.
    apply wmono_bind; [exact Hv|intros b]. apply wmono_bind; [apply IHr, Hr|intros; apply wmono_ret].
Qed.
#[global] Hint Resolve wmono_write_elem : wmono.
Lemma wmono_write_pairs ps : wmono (write_pairs ps).
Proof. unfold write_pairs. apply wmono_wslice16. intros x _. mo. Qed.
#[global] Hint Resolve wmono_write_pairs : wmono.
Lemma wmono_write_annotations l : wmono (write_annotations l).
Proof. unfold write_annotations. apply wmono_wslice16. intros x _. mo. Qed.
#[global] Hint Resolve wmono_write_annotations : wmono.
Lemma wmono_write_target labs t : wmono (write_target labs t).
Proof. destruct t; cbn [write_target]; mo. apply wmono_mapW. intros e _. mo. Qed.
Lemma wmono_write_type_path p : wmono (write_type_path p).
Proof. unfold write_type_path. apply wmono_wslice8. intros x _. mo. Qed.
#[global] Hint Resolve wmono_write_type_path wmono_write_target : wmono.
Lemma wmono_write_type_annotations labs l : wmono (write_type_annotations labs l).
Proof. unfold write_type_annotations. apply wmono_wslice16. intros a _. mo. Qed.
#[global] Hint Resolve wmono_write_type_annotations : wmono.

Lemma in_app_P {A} (P : A -> Prop) a b : (forall m, In m a -> P m) -> (forall m, In m b -> P m) -> forall m, In m (a ++ b) -> P m.
Proof. intros H1 H2 m Hin. apply in_app_or in Hin as [H|H]; auto. Qed.
Lemma wmono_battr b m0 : wmono m0 -> forall m, In m (battr b m0) -> wmono m.
Proof. intros H m. destruct b; cbn [battr In]; [intros [<-|[]]; exact H|contradiction]. Qed.
Lemma wmono_oattr {A} (o : option A) f : (forall a, wmono (f a)) -> forall m, In m (oattr o f) -> wmono m.
Proof. intros H m. destruct o; cbn [oattr In]; [intros [<-|[]]; apply H|contradiction]. Qed.
Lemma wmono_nattr {A} (l : list A) f : (forall a, wmono (f a)) -> forall m, In m (nattr l f) -> wmono m.
Proof. intros H m. destruct l; cbn [nattr In]; [contradiction|intros [<-|[]]; apply H]. Qed.
Lemma wmono_w_annots labs a : forall m, In m (w_annots labs a) -> wmono m.
Proof. unfold w_annots. repeat apply in_app_P; apply wmono_nattr; intros l; apply wmono_wattr; auto with wmono. Qed.
Lemma wmono_w_signature o : forall m, In m (w_signature o) -> wmono m.
Proof. unfold w_signature. apply wmono_oattr. intros s. apply wmono_wattr_fix, wmono_idx16. auto with wmono. Qed.
Lemma wmono_wunknowns u : forall m, In m (map wunknown u) -> wmono m.
Proof. intros m Hin. apply in_map_iff in Hin as (a & <- & _). unfold wunknown. auto with wmono. Qed.

Ltac mfin := first
  [ apply wmono_w_signature | apply wmono_wunknowns | apply wmono_w_annots
  | apply wmono_battr, wmono_wattr_fix, wmono_ret
  | apply wmono_nattr; intros; apply wmono_wattr; solve [auto with wmono] ].
Lemma wmono_write_field f : wmono (write_field f).
Proof.
  unfold write_field. apply wmono_bind; [auto with wmono|intros n]. apply wmono_bind; [auto with wmono|intros d].
  apply wmono_bind; [|intros a; apply wmono_ret]. apply wmono_wattrs.
  repeat apply in_app_P; try mfin.
  apply wmono_oattr. intros c. apply wmono_wattr_fix, wmono_idx16. auto with wmono.
Qed.
Lemma wmono_write_record_component r : wmono (write_record_component r).
Proof.
  unfold write_record_component. apply wmono_bind; [auto with wmono|intros n]. apply wmono_bind; [auto with wmono|intros d].
  apply wmono_bind; [|intros a; apply wmono_ret]. apply wmono_wattrs.
  repeat apply in_app_P; mfin.
Qed.
Lemma wmono_write_module m : wmono (write_module m).
Proof.
  unfold write_module. mo; try (apply wmono_put_opt; auto with wmono);
  apply wmono_wslice16; intros x _; mo; try (apply wmono_put_opt; auto with wmono); try (apply wmono_wslice16; intros y _; apply wmono_idx16; auto with wmono); try (apply wmono_idx16; auto with wmono).
Qed.
#[global] Hint Resolve wmono_write_field wmono_write_record_component wmono_write_module : wmono.

(* ---- the Code attribute ---- *)
Lemma wmono_lower_vti v : wmono (lower_vti v). Proof. destruct v; cbn [lower_vti]; mo. Qed.
#[global] Hint Resolve wmono_lower_vti : wmono.
Lemma wmono_lower_frame f : wmono (lower_frame f).
Proof. destruct f; cbn [lower_frame]; mo; apply wmono_mapW; intros; auto with wmono. Qed.
#[global] Hint Resolve wmono_lower_frame : wmono.
Lemma wmono_w_frames labs : forall frs prev, wmono (w_frames labs prev frs).
Proof. induction frs as [|[off f] frs IH]; intros prev; cbn [w_frames]; [apply wmono_ret|]. mo; try apply IH. Qed.
Lemma wmono_w_lv labs v d : wmono (w_lv labs v d). Proof. unfold w_lv. mo. Qed.
#[global] Hint Resolve wmono_w_frames wmono_w_lv : wmono.

(* what write_code_attr does after the instructions have been lowered and the loop has run *)
Definition code_tail (c : ccode) (max_stack max_locals : Z) (es : body) (w : bytes) (labs : labmap) (Wd : list N)
  : W (bytes * (bytes * labmap * list Z)) :=
  exc <- wslice16 (fun x =>
           t <- lift_out (ELabel labs [x_start x; x_end x; x_handler x]) (try_get3 labs (x_start x, x_end x, x_handler x)) ;;
           ct <- put_opt put_class (x_catch x) ;;
           ret (be16 (fst (fst t)) ++ be16 (snd (fst t)) ++ be16 (snd t) ++ be16 ct)) (c_exceptions c) ;;
  let frs := cframes_at (run_pos Wd 0%N init es) (c_insns c) in
  attrs <- wattrs (
    nattr frs (fun frs => wattr s_StackMapTable (
                 n <- w_u16len (zlen frs) ;; fb <- w_frames labs None frs ;; ret (n ++ concat fb))) ++
    oattr (c_lines c) (fun l => wattr s_LineNumberTable (
                 wslice16 (fun e => p <- lift_out (ELabel labs [fst e]) (try_get labs (fst e)) ;; ret (be16 p ++ be16 (snd e))) l)) ++
    match c_locals c with
    | None => []
    | Some lvs =>
        (if 0 <? opt_count lv_desc lvs then
           [wattr s_LocalVariableTable (
              n <- w_u16len (opt_count lv_desc lvs) ;;
              es <- mapW (fun v => match lv_desc v with Some d => w_lv labs v d | None => ret [] end) lvs ;;
              ret (n ++ concat es))] else []) ++
        (if 0 <? opt_count lv_sig lvs then
           [wattr s_LocalVariableTypeTable (
              n <- w_u16len (opt_count lv_sig lvs) ;;
              es <- mapW (fun v => match lv_sig v with Some d => w_lv labs v d | None => ret [] end) lvs ;;
              ret (n ++ concat es))] else [])
    end ++
    nattr (c_tvis c) (fun l => wattr s_RVTAnn (write_type_annotations labs l)) ++
    nattr (c_tinvis c) (fun l => wattr s_RITAnn (write_type_annotations labs l)) ++
    map wunknown (c_unknown c)) ;;
  ret (be16 max_stack ++ be16 max_locals ++ frame_code w ++ exc ++ attrs, (w, labs, run_pos Wd 0%N init es)).

Lemma write_code_attr_unfold c s :
  write_code_attr c s =
  match c_max c with
  | None => WERR ENoMax
  | Some (ms, ml) =>
      match mapW (fun i => e <- lower_insn (snd i) ;; ret (fst (fst i), e)) (c_insns c) s with
      | WOK (es, s1) =>
          match wc_loop (S (length es)) [] es (c_last c) with
          | Some (OK (w, labs, Wd)) => code_tail c ms ml es w labs Wd s1
          | Some PANIC => WPANIC
          | Some ERR => WERR (ECode es (c_last c))
          | None => WERR EFuel
          end
      | WERR e => WERR e
      | WPANIC => WPANIC
      end
  end.
Proof.
  unfold write_code_attr. destruct (c_max c) as [[ms ml]|]; [|reflexivity]. unfold bind at 1.
  destruct (mapW _ (c_insns c) s) as [[es s1]|?c|]; try reflexivity.
  destruct (wc_loop _ _ es (c_last c)) as [[[[w labs] Wd]| |]|]; reflexivity.
Qed.

Lemma wmono_code_tail c ms ml es w labs Wd : wmono (code_tail c ms ml es w labs Wd).
Proof.
  unfold code_tail. apply wmono_bind.
  { apply wmono_wslice16. intros x _. mo. apply wmono_put_opt. auto with wmono. }
  intros exc. apply wmono_bind; [|intros; apply wmono_ret]. apply wmono_wattrs.
  repeat apply in_app_P.
  - apply wmono_nattr. intros frs. apply wmono_wattr. mo.
  - apply wmono_oattr. intros l. apply wmono_wattr, wmono_wslice16. intros e _. mo.
  - destruct (c_locals c) as [lvs|]; [|intros m []]. apply in_app_P.
    + destruct (0 <? opt_count lv_desc lvs); [|intros m []]. intros m [<-|[]]. apply wmono_wattr. mo. apply wmono_mapW. intros v _. destruct (lv_desc v); mo.
    + destruct (0 <? opt_count lv_sig lvs); [|intros m []]. intros m [<-|[]]. apply wmono_wattr. mo. apply wmono_mapW. intros v _. destruct (lv_sig v); mo.
  - apply wmono_nattr. intros l. apply wmono_wattr. auto with wmono.
  - apply wmono_nattr. intros l. apply wmono_wattr. auto with wmono.
  - apply wmono_wunknowns.
Qed.
Lemma wmono_write_code_attr c : wmono (write_code_attr c).
Proof.
  intros s r s'. rewrite write_code_attr_unfold. destruct (c_max c) as [[ms ml]|]; [|discriminate].
  destruct (mapW _ (c_insns c) s) as [[es s1]|?c|] eqn:El; try discriminate.
  assert (H1 : st_ext s s1). { revert El. apply wmono_mapW. intros i _. mo. }
  destruct (wc_loop _ _ es (c_last c)) as [[[[w labs] Wd]| |]|]; try discriminate.
  intros H. eapply st_ext_trans; [exact H1|]. exact (wmono_code_tail _ _ _ _ _ _ _ _ _ _ H).
Qed.
#[global] Hint Resolve wmono_write_code_attr : wmono.

(* ---- methods ---- *)
Lemma wmono_write_method m : wmono (write_method m).
Proof.
  unfold write_method.
  apply wmono_bind; [auto with wmono|intros n]. apply wmono_bind; [auto with wmono|intros d].
  apply wmono_bind.
  { apply wmono_seqW. apply in_app_P; apply wmono_battr, wmono_wattr_fix, wmono_ret. }
  intros dep. apply wmono_bind.
  { destruct (md_code m) as [c|]; [|apply wmono_ret]. mo. }
  intros code. apply wmono_bind.
  { apply wmono_seqW. repeat apply in_app_P; try mfin.
    - apply wmono_oattr. intros l. apply wmono_wattr, wmono_wslice16. intros x _. apply wmono_idx16. auto with wmono.
    - apply wmono_oattr. intros e. apply wmono_wattr. auto with wmono.
    - apply wmono_oattr. intros l. apply wmono_wattr, wmono_wslice8. intros x _. mo. apply wmono_put_opt. auto with wmono. }
  intros rest. mo.
Qed.
#[global] Hint Resolve wmono_write_method : wmono.

(* the attributes of the class that are written before the table is taken *)
Lemma wmono_class_pre t : forall m, In m (
      battr (k_deprecated t) (wattr_fix s_Deprecated 0 (ret [])) ++
      battr (k_synthetic t) (wattr_fix s_Synthetic 0 (ret [])) ++
      oattr (k_inner t) (fun l => wattr s_InnerClasses (
              wslice16 (fun ic => a <- put_class (ic_inner ic) ;; b <- put_opt put_class (ic_outer ic) ;;
                                  c <- put_opt put_utf8 (ic_name ic) ;;
                                  ret (be16 a ++ be16 b ++ be16 c ++ be16 (ic_flags ic))) l)) ++
      oattr (k_enclosing t) (fun e => wattr_fix s_EnclosingMethod 4 (
              a <- put_class (fst e) ;; b <- put_opt (fun nd => put_nat (fst nd) (snd nd)) (snd e) ;; ret (be16 a ++ be16 b))) ++
      w_signature (k_signature t) ++
      oattr (k_source_file t) (fun s => wattr_fix s_SourceFile 2 (idx16 (put_utf8 s))) ++
      oattr (k_source_debug t) (fun s => wattr_raw s_SourceDebugExtension s) ++
      w_annots [] (k_annots t) ++
      oattr (k_module t) (fun m => wattr s_Module (write_module m)) ++
      oattr (k_module_packages t) (fun l => wattr s_ModulePackages (wslice16 (fun x => idx16 (put_package x)) l)) ++
      oattr (k_module_main t) (fun c => wattr_fix s_ModuleMainClass 2 (idx16 (put_class c))) ++
      oattr (k_nest_host t) (fun c => wattr_fix s_NestHost 2 (idx16 (put_class c))) ++
      oattr (k_nest_members t) (fun l => wattr s_NestMembers (wslice16 (fun x => idx16 (put_class x)) l)) ++
      oattr (k_permitted t) (fun l => wattr s_PermittedSubclasses (wslice16 (fun x => idx16 (put_class x)) l)) ++
      nattr (k_record t) (fun l => wattr s_Record (wslice16 write_record_component l))) -> wmono m.
Proof.
  repeat apply in_app_P; try mfin.
  - apply wmono_oattr. intros l. apply wmono_wattr, wmono_wslice16. intros ic _. mo; apply wmono_put_opt; auto with wmono.
  - apply wmono_oattr. intros e. apply wmono_wattr_fix. mo. apply wmono_put_opt. intros nd. auto with wmono.
  - apply wmono_oattr. intros s. apply wmono_wattr_fix, wmono_idx16. auto with wmono.
  - apply wmono_oattr. intros s. auto with wmono.
  - apply wmono_oattr. intros m. apply wmono_wattr. auto with wmono.
  - apply wmono_oattr. intros l. apply wmono_wattr, wmono_wslice16. intros x _. apply wmono_idx16. auto with wmono.
  - apply wmono_oattr. intros s. apply wmono_wattr_fix, wmono_idx16. auto with wmono.
  - apply wmono_oattr. intros s. apply wmono_wattr_fix, wmono_idx16. auto with wmono.
  - apply wmono_oattr. intros l. apply wmono_wattr, wmono_wslice16. intros x _. apply wmono_idx16. auto with wmono.
  - apply wmono_oattr. intros l. apply wmono_wattr, wmono_wslice16. intros x _. apply wmono_idx16. auto with wmono.
  - apply wmono_nattr. intros l. apply wmono_wattr, wmono_wslice16. intros x _. auto with wmono.
Qed.
Lemma wmono_w_bootstrap : forall m, In m w_bootstrap -> wmono m.
Proof.
  intros m [<-|[]] s a s'. destruct (w_bsm s) as [|e tb]; [intros [= _ <-]; apply st_ext_refl|].
  apply wmono_wattr. mo. apply wmono_mapW. intros x _. mo.
Qed.
