(* C02 — whole-class theorems, part 11: the writer never panics.  The only places of the model
   that can answer PANIC are the i32 arithmetic of a tableswitch span and `end - start` on u16 in
   Labels::try_get_range; both are excluded by decidable conditions on the tree that every tree
   read by duke satisfies (spans fit i32; a range's start label is not after its end label). *)
From FB Require Import C02.Model C02.Encode C02.Theory1 C02.Theory2 C02.Theory3 C02.Theory4 C02.Theory5 C02.Theory6 C02.Theory7 C02.Theory8 C02.Frames C02.TheoryF
  C02.Class C02.Decode C02.Facts C02.TheoryC1 C02.TheoryC2 C02.TheoryC3 C02.TheoryC4 C02.TheoryC5 C02.TheoryC6 C02.TheoryC7 C02.TheoryC8 C02.TheoryC10.
Local Open Scope Z_scope.

Definition wnp {A} (m : W A) : Prop := forall s, m s <> WPANIC.
Lemma wnp_ret {A} (a : A) : wnp (ret a). Proof. intros s. discriminate. Qed.
Lemma wnp_bind {A B} (m : W A) (f : A -> W B) : wnp m -> (forall a, wnp (f a)) -> wnp (bind m f).
Proof. intros H1 H2 s. unfold bind. specialize (H1 s). destruct (m s) as [[a s1]|c|]; [apply H2|discriminate|congruence]. Qed.
Lemma wnp_lift_res {A} c (x : res A) : wnp (lift_res c x). Proof. intros s. unfold lift_res. destruct x; discriminate. Qed.
Lemma wnp_lift_out {A} c (x : out A) : x <> PANIC -> wnp (lift_out c x).
Proof. intros H s. unfold lift_out. destruct x; [discriminate|discriminate|congruence]. Qed.
Lemma wnp_put c : wnp (put c). Proof. intros s. unfold put. destruct (pool_put _ _) as [[p i]|]; discriminate. Qed.
Lemma wnp_mapW {A B} (f : A -> W B) l : (forall x, In x l -> wnp (f x)) -> wnp (mapW f l).
Proof.
  induction l as [|x l IH]; intros H; cbn [mapW]; [apply wnp_ret|].
  apply wnp_bind; [apply H; left; reflexivity|]. intros y. apply wnp_bind; [apply IH; intros z Hz; apply H; right; exact Hz|]. intros ys. apply wnp_ret.
Qed.
Lemma wnp_seqW {A} (l : list (W A)) : (forall m, In m l -> wnp m) -> wnp (seqW l).
Proof.
  induction l as [|x l IH]; intros H; cbn [seqW]; [apply wnp_ret|].
  apply wnp_bind; [apply H; left; reflexivity|]. intros y. apply wnp_bind; [apply IH; intros z Hz; apply H; right; exact Hz|]. intros ys. apply wnp_ret.
Qed.
Lemma wnp_err {A} c : wnp (@werr A c). Proof. intros s. discriminate. Qed.

(* a tactic for writers built from the combinators *)
Create HintDb wnp.
Ltac np1 := match goal with
  | |- wnp (ret _) => apply wnp_ret
  | |- wnp (put _) => apply wnp_put
  | |- wnp (lift_res _ _) => apply wnp_lift_res
  | |- wnp (bind _ _) => apply wnp_bind; [|intros ?]
  | |- wnp (werr _) => apply wnp_err
  | |- wnp (match ?o with Some _ => _ | None => _ end) => destruct o
  | |- wnp (if ?b then _ else _) => destruct b
  | |- wnp (w_u16len _) => apply wnp_lift_res
  | |- wnp (w_u8len _) => apply wnp_lift_res
  end.
Ltac np := repeat np1; auto with wnp.

Lemma wnp_put_utf8 s : wnp (put_utf8 s). Proof. unfold put_utf8. np. Qed.
#[global] Hint Resolve wnp_put_utf8 : wnp.
Lemma wnp_put_class n : wnp (put_class n). Proof. unfold put_class. np. Qed.
Lemma wnp_put_package n : wnp (put_package n). Proof. unfold put_package. np. Qed.
Lemma wnp_put_module n : wnp (put_module n). Proof. unfold put_module. np. Qed.
Lemma wnp_put_string n : wnp (put_string n). Proof. unfold put_string. np. Qed.
Lemma wnp_put_nat n d : wnp (put_nat n d). Proof. unfold put_nat. np. Qed.
#[global] Hint Resolve wnp_put_class wnp_put_package wnp_put_module wnp_put_string wnp_put_nat : wnp.
Lemma wnp_put_fieldref r : wnp (put_fieldref r). Proof. unfold put_fieldref. np. Qed.
Lemma wnp_put_methodref r : wnp (put_methodref r). Proof. unfold put_methodref. np. Qed.
Lemma wnp_put_imethodref r : wnp (put_imethodref r). Proof. unfold put_imethodref. np. Qed.
#[global] Hint Resolve wnp_put_fieldref wnp_put_methodref wnp_put_imethodref : wnp.
Lemma wnp_put_handle h : wnp (put_handle h).
Proof. unfold put_handle, put_method_or_imethod. np. Qed.
#[global] Hint Resolve wnp_put_handle : wnp.
Lemma wnp_put_opt {A} (f : A -> W Z) o : (forall a, wnp (f a)) -> wnp (put_opt f o).
Proof. intros H. destruct o; cbn [put_opt]; [apply H|apply wnp_ret]. Qed.
Lemma wnp_put_bsm_entry e : wnp (put_bsm_entry e).
Proof. intros s. unfold put_bsm_entry. destruct (bsm_index _ _ _); [discriminate|]. destruct (_ <? _); discriminate. Qed.
#[global] Hint Resolve wnp_put_bsm_entry : wnp.
Lemma go_is_mapW' : forall a,
  (fix go (a : list loadable) : W (list Z) :=
     match a with [] => ret [] | x :: r => i <- put_loadable x ;; is <- go r ;; ret (i :: is) end) a = mapW put_loadable a.
Proof. induction a as [|x r IH]; cbn [mapW]; [reflexivity|]. rewrite IH. reflexivity. Qed.
Lemma wnp_put_loadable l : wnp (put_loadable l).
Proof.
  induction l as [v|v|v|v|n|s|h|d|n d h args IH] using loadable_ind2; cbn [put_loadable]; try (np; fail).
  rewrite go_is_mapW. np. apply wnp_mapW. intros x Hx. rewrite Forall_forall in IH. apply IH, Hx.
Qed.
#[global] Hint Resolve wnp_put_loadable : wnp.

Lemma wnp_put_invoke_dynamic n d h a : wnp (put_invoke_dynamic n d h a).
Proof. unfold put_invoke_dynamic. np. apply wnp_mapW. intros; apply wnp_put_loadable. Qed.
#[global] Hint Resolve wnp_put_invoke_dynamic : wnp.
Lemma wnp_put_iconst k : wnp (put_iconst k). Proof. destruct k; cbn [put_iconst]; auto with wnp. Qed.
Lemma wnp_put_econst k : wnp (put_econst k). Proof. destruct k; cbn [put_econst]; np. Qed.
Lemma wnp_put_constant_value k : wnp (put_constant_value k). Proof. destruct k; cbn [put_constant_value]; np. Qed.
#[global] Hint Resolve wnp_put_iconst wnp_put_econst wnp_put_constant_value : wnp.
Lemma wnp_lower_insn i : wnp (lower_insn i). Proof. destruct i; cbn [lower_insn]; np. Qed.
#[global] Hint Resolve wnp_lower_insn : wnp.

Lemma wnp_wslice16 {A} (f : A -> W bytes) l : (forall x, In x l -> wnp (f x)) -> wnp (wslice16 f l).
Proof. intros H. unfold wslice16. np. apply wnp_mapW, H. Qed.
Lemma wnp_wslice8 {A} (f : A -> W bytes) l : (forall x, In x l -> wnp (f x)) -> wnp (wslice8 f l).
Proof. intros H. unfold wslice8. np. apply wnp_mapW, H. Qed.
Lemma wnp_wattr name body : wnp body -> wnp (wattr name body).
Proof. intros H. unfold wattr. np. Qed.
Lemma wnp_wattr_fix name len body : wnp body -> wnp (wattr_fix name len body).
Proof. intros H. unfold wattr_fix. np. Qed.
Lemma wnp_wattr_raw name content : wnp (wattr_raw name content).
Proof. unfold wattr_raw. np. Qed.
Lemma wnp_wattrs l : (forall m, In m l -> wnp m) -> wnp (wattrs l).
Proof. intros H. unfold wattrs. np. apply wnp_seqW, H. Qed.
Lemma wnp_idx16 m : wnp m -> wnp (idx16 m).
Proof. intros H. unfold idx16. np. Qed.
#[global] Hint Resolve wnp_wattr_raw : wnp.

Lemma wnp_write_elem e : wnp (write_elem e).
Proof.
  induction e as [t k|a b|d|ty ps IH|vs IH] using elem_ind2; cbn [write_elem]; try (np; fail).
  - apply wnp_bind; [auto with wnp|intros a]. apply wnp_bind; [np|intros c]. apply wnp_bind; [|intros; apply wnp_ret].
    clear -IH. induction ps as [|[n v] r IHr]; [apply wnp_ret|]. inversion IH as [|? ? Hv Hr]; subst. cbn [snd] in Hv.
    apply wnp_bind; [auto with wnp|intros i]. apply wnp_bind; [exact Hv|intros b]. apply wnp_bind; [apply IHr, Hr|intros; apply wnp_ret].
  - apply wnp_bind; [np|intros c]. apply wnp_bind; [|intros; apply wnp_ret].
    clear -IH. induction vs as [|v r IHr]; [apply wnp_ret|]. inversion IH as [|? ? Hv Hr]; subst.
    apply wnp_bind; [exact Hv|intros b]. apply wnp_bind; [apply IHr, Hr|intros; apply wnp_ret].
Qed.
#[global] Hint Resolve wnp_write_elem : wnp.
Lemma wnp_write_pairs ps : wnp (write_pairs ps).
Proof. unfold write_pairs. apply wnp_wslice16. intros x _. np. Qed.
#[global] Hint Resolve wnp_write_pairs : wnp.
Lemma wnp_write_annotations l : wnp (write_annotations l).
Proof. unfold write_annotations. apply wnp_wslice16. intros x _. np. Qed.
#[global] Hint Resolve wnp_write_annotations : wnp.

(* ranges: the start is not after the end *)
Definition rng_ok (labs : labmap) (s e : label) : Prop := forall a c, lget labs s = Some a -> lget labs e = Some c -> a <= c.
Lemma rng_ok_nil s e : rng_ok [] s e. Proof. intros a c H. discriminate. Qed.
Lemma try_get_range_np labs s e : rng_ok labs s e -> try_get_range labs (s, e) <> PANIC.
Proof. intros H. apply try_get_range_no_panic. cbn [fst snd]. exact H. Qed.
Lemma try_get_np labs l : try_get labs l <> PANIC.
Proof. unfold try_get. destruct (lget labs l); discriminate. Qed.
Lemma try_get3_np labs x : try_get3 labs x <> PANIC.
Proof. unfold try_get3, try_get. destruct (lget labs _); [|discriminate]. destruct (lget labs _); [|discriminate]. destruct (lget labs _); discriminate. Qed.

Definition target_rng_ok (labs : labmap) (t : target label) : Prop :=
  match t with TLocalVar _ tb => Forall (fun e => rng_ok labs (fst (fst e)) (snd (fst e))) tb | _ => True end.
Lemma wnp_write_target labs t : target_rng_ok labs t -> wnp (write_target labs t).
Proof.
  destruct t; cbn [write_target target_rng_ok]; intros H; np; try (apply wnp_lift_out, try_get_np).
  apply wnp_mapW. intros [[s e] i] Hin. rewrite Forall_forall in H. specialize (H _ Hin). cbn [fst snd] in *. np.
  apply wnp_lift_out, try_get_range_np, H.
Qed.
Lemma wnp_write_type_path p : wnp (write_type_path p).
Proof. unfold write_type_path. apply wnp_wslice8. intros x _. np. Qed.
#[global] Hint Resolve wnp_write_type_path : wnp.
Lemma wnp_write_type_annotations labs l : Forall (fun a => target_rng_ok labs (ta_target a)) l -> wnp (write_type_annotations labs l).
Proof.
  intros H. unfold write_type_annotations. apply wnp_wslice16. intros a Hin. rewrite Forall_forall in H. np. apply wnp_write_target, H, Hin.
Qed.
Lemma target_rng_nil t : target_rng_ok [] t.
Proof. destruct t; cbn [target_rng_ok]; auto. apply Forall_forall. intros; apply rng_ok_nil. Qed.
Lemma wnp_w_annots_nil a : forall m, In m (w_annots [] a) -> wnp m.
Proof.
  unfold w_annots. intros m Hin. repeat (apply in_app_or in Hin as [Hin|Hin]).
  all: match type of Hin with In _ (nattr ?l _) => destruct l; cbn [nattr In] in Hin; [contradiction|destruct Hin as [<-|[]]] end.
  1,2: apply wnp_wattr; auto with wnp.
  all: apply wnp_wattr, wnp_write_type_annotations, Forall_forall; intros; apply target_rng_nil.
Qed.
Lemma wnp_w_signature o : forall m, In m (w_signature o) -> wnp m.
Proof. destruct o; cbn [w_signature oattr In]; [|contradiction]. intros m [<-|[]]. apply wnp_wattr_fix, wnp_idx16. auto with wnp. Qed.
Lemma wnp_wunknowns u : forall m, In m (map wunknown u) -> wnp m.
Proof. intros m Hin. apply in_map_iff in Hin as (a & <- & _). unfold wunknown. auto with wnp. Qed.
Lemma wnp_battr b m0 : wnp m0 -> forall m, In m (battr b m0) -> wnp m.
Proof. intros H m. destruct b; cbn [battr In]; [intros [<-|[]]; exact H|contradiction]. Qed.
Lemma wnp_oattr {A} (o : option A) f : (forall a, wnp (f a)) -> forall m, In m (oattr o f) -> wnp m.
Proof. intros H m. destruct o; cbn [oattr In]; [intros [<-|[]]; apply H|contradiction]. Qed.
Lemma wnp_nattr {A} (l : list A) f : (forall a, wnp (f a)) -> forall m, In m (nattr l f) -> wnp m.
Proof. intros H m. destruct l; cbn [nattr In]; [contradiction|intros [<-|[]]; apply H]. Qed.
Lemma wnp_nattr' {A} (l : list A) f : wnp (f l) -> forall m, In m (nattr l f) -> wnp m.
Proof. intros H m. destruct l; cbn [nattr In]; [contradiction|intros [<-|[]]; exact H]. Qed.
Lemma in_app_wnp {A} (P : A -> Prop) a b : (forall m, In m a -> P m) -> (forall m, In m b -> P m) -> forall m, In m (a ++ b) -> P m.
Proof. intros H1 H2 m Hin. apply in_app_or in Hin as [H|H]; auto. Qed.

Ltac fin := first
  [ apply wnp_w_signature | apply wnp_wunknowns | apply wnp_w_annots_nil
  | apply wnp_battr, wnp_wattr_fix, wnp_ret
  | apply wnp_nattr; intros; apply wnp_wattr;
    first [ solve [auto with wnp] | apply wnp_write_type_annotations, Forall_forall; intros; apply target_rng_nil ] ].
Lemma wnp_write_field f : wnp (write_field f).
Proof.
  unfold write_field. apply wnp_bind; [auto with wnp|intros n]. apply wnp_bind; [auto with wnp|intros d].
  apply wnp_bind; [|intros a; apply wnp_ret]. apply wnp_wattrs.
  repeat apply in_app_wnp; try fin.
  apply wnp_oattr. intros c. apply wnp_wattr_fix, wnp_idx16. auto with wnp.
Qed.
Lemma wnp_write_record_component r : wnp (write_record_component r).
Proof.
  unfold write_record_component. apply wnp_bind; [auto with wnp|intros n]. apply wnp_bind; [auto with wnp|intros d].
  apply wnp_bind; [|intros a; apply wnp_ret]. apply wnp_wattrs.
  repeat apply in_app_wnp; fin.
Qed.
Lemma wnp_write_module m : wnp (write_module m).
Proof.
  unfold write_module. np; try (apply wnp_put_opt; auto with wnp);
  apply wnp_wslice16; intros x _; np; try (apply wnp_put_opt; auto with wnp); try (apply wnp_wslice16; intros y _; apply wnp_idx16; auto with wnp); try (apply wnp_idx16; auto with wnp).
Qed.
#[global] Hint Resolve wnp_write_field wnp_write_record_component wnp_write_module : wnp.

(* ---- the Code attribute ---- *)
Lemma wnp_lower_vti v : wnp (lower_vti v). Proof. destruct v; cbn [lower_vti]; np. Qed.
#[global] Hint Resolve wnp_lower_vti : wnp.
Lemma wnp_lower_frame f : wnp (lower_frame f).
Proof. destruct f; cbn [lower_frame]; np; apply wnp_mapW; intros; auto with wnp. Qed.
#[global] Hint Resolve wnp_lower_frame : wnp.
Lemma delta_of_np prev off : delta_of prev off <> PANIC.
Proof. destruct prev as [p|]; cbn [delta_of]; [destruct (_ <? _)|]; discriminate. Qed.
Lemma wnp_w_frames labs : forall frs prev, wnp (w_frames labs prev frs).
Proof.
  induction frs as [|[off f] frs IH]; intros prev; cbn [w_frames]; [apply wnp_ret|].
  apply wnp_bind; [apply wnp_lift_out, delta_of_np|intros d]. apply wnp_bind; [auto with wnp|intros sf].
  apply wnp_bind; [apply wnp_lift_out, emit_frame_no_panic|intros b]. apply wnp_bind; [apply IH|intros; apply wnp_ret].
Qed.
Lemma wnp_w_lv labs v d : rng_ok labs (lv_start v) (lv_end v) -> wnp (w_lv labs v d).
Proof. intros H. unfold w_lv. apply wnp_bind; [apply wnp_lift_out, try_get_range_np, H|intros r]. np. Qed.

(* decidable conditions on the tree *)
Definition cspans_ok (c : ccode) : bool :=
  forallb (fun i => match snd i with ITSwitch d low high ts => switch_span_ok (TSwitch d low high ts) | _ => true end) (c_insns c).
Definition code_ranges (c : ccode) : list (label * label) :=
  match c_locals c with Some lvs => map (fun v => (lv_start v, lv_end v)) lvs | None => [] end ++
  flat_map (fun a => match ta_target a with TLocalVar _ tb => map (fun e => (fst (fst e), snd (fst e))) tb | _ => [] end) (c_tvis c ++ c_tinvis c).
Definition skel (c : ccode) : body := map (fun i => (fst (fst i), Plain [])) (c_insns c).
Definition cranges_ok (c : ccode) : bool :=
  ranges_ok (skel c) (c_last c) {| t_exc := []; t_offs := []; t_ranges := code_ranges c |}.

Lemma labidx_labels : forall (b b' : body) last l k, map fst b = map fst b' -> labidx b last l k = labidx b' last l k.
Proof.
  induction b as [|[lb e] r IH]; intros [|[lb' e'] r'] last l k H; cbn [map] in H; try discriminate; cbn [labidx]; [reflexivity|].
  injection H as -> H. destruct (olabel_is lb' l); [reflexivity|]. apply IH, H.
Qed.
Lemma spans_lowered (is : list (option label * option cframe * cinsn)) (es : body) p :
  Forall2 (fun i le => lowered p (snd i) (snd le)) is es ->
  forallb (fun i => match snd i with ITSwitch d low high ts => switch_span_ok (TSwitch d low high ts) | _ => true end) is = true ->
  spans_ok es = true.
Proof.
  unfold spans_ok. induction 1 as [|i le is es Hl F IH]; cbn [forallb]; [reflexivity|]. intros H. apply andb_true_iff in H as [A B].
  rewrite (IH B), andb_true_r. destruct (snd i); cbn [lowered] in Hl.
  - rewrite Hl. reflexivity.
  - destruct Hl as (x & -> & _). reflexivity.
  - destruct Hl as (x & n & -> & _). reflexivity.
  - destruct Hl as (x & -> & _). reflexivity.
  - rewrite Hl. reflexivity.
  - rewrite Hl. exact A.
  - rewrite Hl. reflexivity.
Qed.

Lemma rng_ok_of es last w labs W tb r :
  unique_labels es last -> wc_loop (S (length es)) [] es last = Some (OK (w, labs, W)) ->
  ranges_ok es last tb = true -> In r (t_ranges tb) -> rng_ok labs (fst r) (snd r).
Proof.
  intros Hu E Hr Hin a c Ha Hc.
  pose proof (write_is_encode _ _ _ _ _ Hu E) as (_ & _ & _ & HL & _ & _). cbv zeta in HL.
  unfold ranges_ok in Hr. rewrite forallb_forall in Hr. specialize (Hr _ Hin).
  rewrite HL in Ha, Hc.
  destruct (labpos_idx _ _ _ _ _ _ O (chs_run_length W es 0%N 0 []) Ha) as [i Hi].
  destruct (labpos_idx _ _ _ _ _ _ O (chs_run_length W es 0%N 0 []) Hc) as [j Hj].
  rewrite Hi, Hj in Hr. apply Nat.leb_le in Hr. exact (labpos_mono _ _ _ _ _ _ _ _ _ _ _ Hi Hj Hr Ha Hc).
Qed.
Lemma ranges_ok_labels (b b' : body) last tb : map fst b = map fst b' -> ranges_ok b last tb = ranges_ok b' last tb.
Proof.
  intros H. unfold ranges_ok. apply forallb_ext'. intros r. rewrite (labidx_labels b b' last (fst r) 0 H), (labidx_labels b b' last (snd r) 0 H). reflexivity.
Qed.

(* the entry of an instruction keeps its switch *)
Definition shape (i : cinsn) (e : entry) : Prop :=
  match i with
  | ITSwitch d low high ts => e = TSwitch d low high ts
  | ILSwitch d ps => e = LSwitch d ps
  | IBr k l => e = Br k l
  | _ => exists bs, e = Plain bs
  end.
Lemma lower_insn_shape i s e s' : lower_insn i s = WOK (e, s') -> shape i e.
Proof.
  destruct i; cbn [lower_insn shape]; intros H.
  - apply ret_ok in H as [-> _]. eexists. reflexivity.
  - apply bind_ok in H as (x & s1 & _ & H). apply ret_ok in H as [-> _]. eexists. reflexivity.
  - apply bind_ok in H as (x & s1 & _ & H). apply bind_ok in H as (n & s2 & _ & H). apply ret_ok in H as [-> _]. eexists. reflexivity.
  - apply bind_ok in H as (x & s1 & _ & H). apply ret_ok in H as [-> _]. eexists. reflexivity.
  - apply ret_ok in H as [-> _]. reflexivity.
  - apply ret_ok in H as [-> _]. reflexivity.
  - apply ret_ok in H as [-> _]. reflexivity.
Qed.
Lemma lower_all_shape : forall (is : list (option label * option cframe * cinsn)) s es s',
  mapW (fun i => e <- lower_insn (snd i) ;; ret (fst (fst i), e)) is s = WOK (es, s') ->
  map fst es = map (fun i => fst (fst i)) is /\ Forall2 (fun i le => shape (snd i) (snd le)) is es.
Proof.
  induction is as [|i is IH]; intros s es s'; cbn [mapW map].
  - intros H. apply ret_ok in H as [-> _]. split; [reflexivity|constructor].
  - intros H. apply bind_ok in H as (le & s1 & H1 & H). apply bind_ok in H as (les & s2 & H2 & H). apply ret_ok in H as [-> _].
    apply bind_ok in H1 as (e & s0 & He & H1). apply ret_ok in H1 as [-> _]. apply lower_insn_shape in He.
    destruct (IH _ _ _ H2) as [Hl Hs]. split; [cbn [map fst]; rewrite Hl; reflexivity|constructor; [exact He|exact Hs]].
Qed.
Lemma spans_shape (is : list (option label * option cframe * cinsn)) (es : body) :
  Forall2 (fun i le => shape (snd i) (snd le)) is es ->
  forallb (fun i => match snd i with ITSwitch d low high ts => switch_span_ok (TSwitch d low high ts) | _ => true end) is = true ->
  spans_ok es = true.
Proof.
  unfold spans_ok. induction 1 as [|i le is es Hl F IH]; cbn [forallb]; [reflexivity|]. intros H. apply andb_true_iff in H as [A B].
  rewrite (IH B), andb_true_r. destruct (snd i); cbn [shape] in Hl; try (destruct Hl as (bb & Hl)); rewrite Hl; try reflexivity. exact A.
Qed.

Lemma wnp_write_code_attr c : ccode_ok c = true -> cspans_ok c = true -> cranges_ok c = true -> wnp (write_code_attr c).
Proof.
  intros Hok Hsp Hrg s. unfold ccode_ok in Hok. bsplit. unfold write_code_attr.
  destruct (c_max c) as [[ms ml]|]; [|discriminate].
  unfold bind at 1.
  destruct (mapW (fun i => e <- lower_insn (snd i) ;; ret (fst (fst i), e)) (c_insns c) s) as [[es s1]|?c|] eqn:Elow; [|discriminate|].
  2:{ exfalso. revert Elow. apply wnp_mapW. intros i _. np. }
  destruct (lower_all_shape _ _ _ _ Elow) as [Hes Hsh].
  assert (Hspans : spans_ok es = true) by (apply (spans_shape _ _ Hsh), Hsp).
  destruct (wc_loop (S (length es)) [] es (c_last c)) as [[[[w labs] Wd]| |]|] eqn:Ew; try discriminate.
  2:{ exfalso. exact (wc_loop_no_panic _ _ Hspans _ _ Ew). }
  assert (Hu : unique_labels es (c_last c)).
  { unfold unique_labels. rewrite body_labels_map, Hes, <- insn_labels_map. apply nodupN_spec. assumption. }
  assert (Hrng : forall r, In r (code_ranges c) -> rng_ok labs (fst r) (snd r)).
  { intros r Hin. apply (rng_ok_of es (c_last c) w labs Wd {| t_exc := []; t_offs := []; t_ranges := code_ranges c |} r Hu Ew); [|exact Hin].
    unfold cranges_ok in Hrg. rewrite <- Hrg. apply ranges_ok_labels. unfold skel. rewrite map_map. cbn [fst]. exact Hes. }
  assert (Hnp : wnp (
    exc <- wslice16 (fun x =>
                   t <- lift_out (ELabel labs [x_start x; x_end x; x_handler x]) (try_get3 labs (x_start x, x_end x, x_handler x)) ;;
                   ct <- put_opt put_class (x_catch x) ;;
                   ret (be16 (fst (fst t)) ++ be16 (snd (fst t)) ++ be16 (snd t) ++ be16 ct)) (c_exceptions c) ;;
    attrs <- wattrs (
            nattr (cframes_at (run_pos Wd 0%N init es) (c_insns c)) (fun frs => wattr s_StackMapTable (
                         n <- w_u16len (zlen frs) ;; fb <- w_frames labs None frs ;; ret (n ++ concat fb))) ++
            oattr (c_lines c) (fun l => wattr s_LineNumberTable (
                         wslice16 (fun e => p <- lift_out (ELabel labs [fst e]) (try_get labs (fst e)) ;; ret (be16 p ++ be16 (snd e))) l)) ++
            match c_locals c with
            | None => []
            | Some lvs =>
                (if 0 <? opt_count lv_desc lvs then
                   [wattr s_LocalVariableTable (
                      n <- w_u16len (opt_count lv_desc lvs) ;;
                      es <- mapW (fun v => match lv_desc v with Some d => w_lv labs v d | None => ret [] end) lvs ;;
                      ret (n ++ concat es))] else []) ++
                (if 0 <? opt_count lv_sig lvs then
                   [wattr s_LocalVariableTypeTable (
                      n <- w_u16len (opt_count lv_sig lvs) ;;
                      es <- mapW (fun v => match lv_sig v with Some d => w_lv labs v d | None => ret [] end) lvs ;;
                      ret (n ++ concat es))] else [])
            end ++
            nattr (c_tvis c) (fun l => wattr s_RVTAnn (write_type_annotations labs l)) ++
            nattr (c_tinvis c) (fun l => wattr s_RITAnn (write_type_annotations labs l)) ++
            map wunknown (c_unknown c)) ;;
    ret (be16 ms ++ be16 ml ++ frame_code w ++ exc ++ attrs, (w, labs, run_pos Wd 0%N init es)))).
  { apply wnp_bind.
    { apply wnp_wslice16. intros x _. apply wnp_bind; [apply wnp_lift_out, try_get3_np|intros t]. apply wnp_bind; [apply wnp_put_opt; auto with wnp|intros; apply wnp_ret]. }
    intros exc. apply wnp_bind; [|intros; apply wnp_ret]. apply wnp_wattrs.
    assert (Hlv : forall sel lvs, c_locals c = Some lvs ->
              wnp (mapW (fun v => match sel v with Some d => w_lv labs v d | None => ret [] end) lvs)).
    { intros sel lvs El. apply wnp_mapW. intros v Hv. destruct (sel v); [|apply wnp_ret]. apply wnp_w_lv.
      apply (Hrng (lv_start v, lv_end v)). unfold code_ranges. rewrite El. apply in_or_app. left. apply in_map_iff. exists v. split; [reflexivity|exact Hv]. }
    assert (Hta : forall l, (forall a, In a l -> In a (c_tvis c ++ c_tinvis c)) -> wnp (write_type_annotations labs l)).
    { intros l Hl. apply wnp_write_type_annotations, Forall_forall. intros a Ha. destruct (ta_target a) as [| | | | | |ty tb| | |] eqn:Et; cbn [target_rng_ok]; auto.
      apply Forall_forall. intros e He. apply (Hrng (fst (fst e), snd (fst e))). unfold code_ranges. apply in_or_app. right.
      apply in_flat_map. exists a. split; [apply Hl, Ha|]. rewrite Et. apply in_map_iff. exists e. split; [reflexivity|exact He]. }
    repeat apply in_app_wnp.
    - apply wnp_nattr. intros frs. apply wnp_wattr. np. apply wnp_w_frames.
    - apply wnp_oattr. intros l. apply wnp_wattr, wnp_wslice16. intros e _. apply wnp_bind; [apply wnp_lift_out, try_get_np|intros; apply wnp_ret].
    - destruct (c_locals c) as [lvs|] eqn:El; [|intros m []]. apply in_app_wnp.
      + destruct (0 <? opt_count lv_desc lvs); [|intros m []]. intros m [<-|[]]. apply wnp_wattr. np; try apply (Hlv lv_desc lvs eq_refl).
      + destruct (0 <? opt_count lv_sig lvs); [|intros m []]. intros m [<-|[]]. apply wnp_wattr. np; try apply (Hlv lv_sig lvs eq_refl).
    - apply wnp_nattr'. apply wnp_wattr, Hta. intros a Ha. apply in_or_app. left. exact Ha.
    - apply wnp_nattr'. apply wnp_wattr, Hta. intros a Ha. apply in_or_app. right. exact Ha.
    - apply wnp_wunknowns. }
  apply Hnp.
Qed.

(* ---- methods and the class ---- *)
Definition cmethod_np (m : cmethod) : bool := match md_code m with Some c => cspans_ok c && cranges_ok c | None => true end.
Lemma wnp_write_method m : cmethod_ok m = true -> cmethod_np m = true -> wnp (write_method m).
Proof.
  intros Hok Hnp. unfold cmethod_ok in Hok. bsplit. unfold cmethod_np in Hnp. unfold write_method.
  apply wnp_bind; [auto with wnp|intros n]. apply wnp_bind; [auto with wnp|intros d].
  apply wnp_bind.
  { apply wnp_seqW. apply in_app_wnp; apply wnp_battr, wnp_wattr_fix, wnp_ret. }
  intros dep. apply wnp_bind.
  { destruct (md_code m) as [c|]; [|apply wnp_ret]. apply andb_true_iff in Hnp as [A B].
    apply wnp_bind; [apply wnp_write_code_attr; assumption|intros r]. np. }
  intros code. apply wnp_bind.
  { apply wnp_seqW. repeat apply in_app_wnp; try fin.
    - apply wnp_oattr. intros l. apply wnp_wattr, wnp_wslice16. intros x _. apply wnp_idx16. auto with wnp.
    - apply wnp_oattr. intros e. apply wnp_wattr. auto with wnp.
    - apply wnp_oattr. intros l. apply wnp_wattr, wnp_wslice8. intros x _. apply wnp_bind; [apply wnp_put_opt; auto with wnp|intros; apply wnp_ret]. }
  intros rest. np.
Qed.

Definition cclass_np (t : cclass) : bool := forallb cmethod_np (k_methods t).

Lemma wnp_w_bootstrap : forall m, In m w_bootstrap -> wnp m.
Proof.
  intros m [<-|[]] s. destruct (w_bsm s) as [|e tb]; [discriminate|].
  apply wnp_wattr. apply wnp_bind; [np|intros n]. apply wnp_bind; [|intros; apply wnp_ret].
  apply wnp_mapW. intros x _. np.
Qed.

Theorem write_class_no_panic t : cclass_ok t = true -> cclass_np t = true -> write_class t <> PANIC.
Proof.
  intros Hok Hnp. unfold cclass_ok in Hok. bsplit. unfold cclass_np in Hnp.
  unfold write_class, write_class_aux.
  match goal with |- match (match ?body wst_new with _ => _ end) with _ => _ end <> _ =>
    assert (Hb : wnp body); [|specialize (Hb wst_new); destruct (body wst_new) as [[[[rest codes] tbl] sF]|?c|]; [destruct (pool_bytes (w_pool sF)); discriminate|discriminate|congruence]] end.
  apply wnp_bind; [auto with wnp|intros this]. apply wnp_bind; [apply wnp_put_opt; auto with wnp|intros super].
  apply wnp_bind; [apply wnp_wslice16; intros x _; apply wnp_idx16; auto with wnp|intros ifs].
  apply wnp_bind; [apply wnp_wslice16; intros x _; auto with wnp|intros fields].
  apply wnp_bind; [np|intros nm].
  apply wnp_bind.
  { apply wnp_mapW. intros m Hin. rewrite forallb_forall in Hnp.
    match goal with H : forallb cmethod_ok _ = true |- _ => rewrite forallb_forall in H; apply wnp_write_method; [apply H, Hin|apply Hnp, Hin] end. }
  intros methods. apply wnp_bind.
  { apply wnp_seqW. repeat apply in_app_wnp; try fin.
    - apply wnp_oattr. intros l. apply wnp_wattr, wnp_wslice16. intros ic _. np; apply wnp_put_opt; auto with wnp.
    - apply wnp_oattr. intros e. apply wnp_wattr_fix. np. apply wnp_put_opt. intros nd. auto with wnp.
    - apply wnp_oattr. intros s. apply wnp_wattr_fix, wnp_idx16. auto with wnp.
    - apply wnp_oattr. intros s. auto with wnp.
    - apply wnp_oattr. intros m. apply wnp_wattr. auto with wnp.
    - apply wnp_oattr. intros l. apply wnp_wattr, wnp_wslice16. intros x _. apply wnp_idx16. auto with wnp.
    - apply wnp_oattr. intros s. apply wnp_wattr_fix, wnp_idx16. auto with wnp.
    - apply wnp_oattr. intros s. apply wnp_wattr_fix, wnp_idx16. auto with wnp.
    - apply wnp_oattr. intros l. apply wnp_wattr, wnp_wslice16. intros x _. apply wnp_idx16. auto with wnp.
    - apply wnp_oattr. intros l. apply wnp_wattr, wnp_wslice16. intros x _. apply wnp_idx16. auto with wnp.
    - apply wnp_nattr. intros l. apply wnp_wattr, wnp_wslice16. intros x _. auto with wnp. }
  intros pre. apply wnp_bind; [intros s; discriminate|intros tbl].
  apply wnp_bind; [apply wnp_seqW, wnp_w_bootstrap|intros bsm].
  apply wnp_bind; [apply wnp_mapW; intros a _; unfold wunknown; auto with wnp|intros unk].
  np.
Qed.
