(* C02 correspondence cases: what the implementation answered, to be compared with the model *)
From FB Require Export C02.Model C02.Encode C02.Frames C02.Class Base.Run.
From Coq Require Export Uint63.
Local Open Scope Z_scope.

(* run-length encoded bodies and byte strings, so that 65535-byte methods stay small as text;
   they are expanded here, the model runs on the real instruction list *)
Inductive rle := One (le : option label * entry) | Rep (n : N) (le : option label * entry).
Fixpoint expand_body (rb : list rle) : body :=
  match rb with
  | [] => []
  | One le :: r => le :: expand_body r
  | Rep n le :: r => repeat le (N.to_nat n) ++ expand_body r
  end.
Fixpoint expand_bytes (rb : list (N * N)) : list N :=
  match rb with
  | [] => []
  | (n, x) :: r => repeat x (N.to_nat n) ++ expand_bytes r
  end.


(* byte strings of whole-class cases are packed 7 bytes per primitive integer literal (coqc spends its
   time parsing numerals); they are unpacked here, the model runs on lists of bytes *)
Definition byte_of_word (w : int) (k : nat) : N :=
  Z.to_N (Uint63.to_Z (Uint63.land (Uint63.lsr w (Uint63.of_Z (Z.of_nat (8 * k)))) 255%uint63)).
Fixpoint bytes_of_word (w : int) (n : nat) : list N :=
  match n with
  | O => []
  | S n' => byte_of_word w n' :: bytes_of_word w n'
  end.
Fixpoint unpack (total : nat) (ws : list int) : list N :=
  match ws with
  | [] => []
  | w :: ws' =>
      match ws' with
      | [] => bytes_of_word w total
      | _ => bytes_of_word w 7 ++ unpack (total - 7) ws'
      end
  end.
Definition packed := (N * list int)%type.
Definition unpacked (p : packed) : list N := unpack (N.to_nat (fst p)) (snd p).
Definition lookup (tbl : list (list N)) (k : N) : list N := nth (N.to_nat k) tbl [].
Inductive kanswer := KOk (bs : packed) | KErr | KPanic.

(* positions in the implementation's answer are printed as naturals (N) *)
Record itables := { i_exc : list (N * N * N); i_offs : list N; i_ranges : list (N * N) }.
Inductive ianswer := IOk (code : list (N * N)) (t : itables) | IErr | IPanic.

Inductive case :=
| CWrite (hasmax : bool) (b : list rle) (last : option label) (tb : tables) (r : ianswer)
    (* Code::{instructions,last_label,exception_table,…} abstracted to the layout level, and
       what duke::write_class produced for that method (code array and the tables) *)
| CPool (entries : list pentry) (count : N)
    (* the constant pool of a written class, in file order, and its constant_pool_count *)
| CLdc (is2 : bool) (index : N) (form : N)
    (* an ldc instruction in the written code: loadable is long/double, pool index, opcode *)
| CWriteF (hasmax : bool) (b : list rle) (last : option label) (tb : tables) (fs : list (N * sframe))
    (r : ianswer) (sm : option (list N))
    (* a method whose instructions carry stack map frames: fs = (instruction index, frame) in
       instruction order, Object types with the pool index of their class in the written file;
       sm = the body of the StackMapTable attribute of the written method, if there is one *)
| CBsm (entries : list (list N))
    (* the BootstrapMethods table of a written class, in file order (method_ref, arguments) *)
| CClass (strings : list packed) (t : (N -> list N) -> cclass) (r : kanswer).
    (* a whole tree (strings by index into the table) and the class file duke::write_class produced *)

(* (instruction index, frame) pairs, ascending -> one optional frame per instruction *)
Fixpoint dense (n : nat) (k : N) (fs : list (N * sframe)) : list (option sframe) :=
  match n with
  | O => []
  | S n' =>
      match fs with
      | (j, f) :: r => if N.eqb j k then Some f :: dense n' (N.succ k) r else None :: dense n' (N.succ k) fs
      | [] => None :: dense n' (N.succ k) []
      end
  end.
Definition obytes_eqb (a b : option (list N)) : bool :=
  match a, b with
  | Some x, Some y => list_eqb N.eqb x y
  | None, None => true
  | _, _ => false
  end.

Definition zeqN (z : Z) (n : N) : bool := z =? Z.of_N n.
Definition exc_eqb (a : Z * Z * Z) (b : N * N * N) : bool :=
  zeqN (fst (fst a)) (fst (fst b)) && zeqN (snd (fst a)) (snd (fst b)) && zeqN (snd a) (snd b).
Definition rng_eqb (a : Z * Z) (b : N * N) : bool := zeqN (fst a) (fst b) && zeqN (snd a) (snd b).
Fixpoint list_eqb2 {A B} (eqb : A -> B -> bool) (a : list A) (b : list B) : bool :=
  match a, b with
  | [], [] => true
  | x :: a', y :: b' => eqb x y && list_eqb2 eqb a' b'
  | _, _ => false
  end.
Definition tables_eqb (a : rtables) (b : itables) : bool :=
  list_eqb2 exc_eqb (r_exc a) (i_exc b) && list_eqb2 zeqN (r_offs a) (i_offs b)
  && list_eqb2 rng_eqb (r_ranges a) (i_ranges b).

(* all puts of the entries (each one new), then all again (each one found): indices and count *)
Fixpoint put_all (p : pool) (es : list pentry) : res (pool * list Z) :=
  match es with
  | [] => Ok (p, [])
  | e :: r => match pool_put p e with
              | Ok (p', i) => match put_all p' r with Ok (p'', is) => Ok (p'', i :: is) | Err => Err end
              | Err => Err
              end
  end.
Definition check_pool (es : list pentry) (count : N) : bool :=
  match put_all pool_new es with
  | Ok (p, is) =>
      (p_count p =? Z.of_N count)
      && list_eqb Z.eqb is (map fst (slots_of es 1))
      && match put_all p es with
         | Ok (p', is') => list_eqb Z.eqb is is' && (p_count p' =? p_count p)
         | Err => false
         end
      && forallb (fun ie => match pool_resolve p (fst ie) with Some e => pentry_eqb e (snd ie) | None => false end)
           (slots_of es 1)
  | Err => false
  end.

Fixpoint bput_all (t : bsm) (es : list (list N)) : res (bsm * list Z) :=
  match es with
  | [] => Ok (t, [])
  | e :: r => match bsm_put t e with
              | Ok (t', i) => match bput_all t' r with Ok (t'', is) => Ok (t'', i :: is) | Err => Err end
              | Err => Err
              end
  end.
Fixpoint zseq (i : Z) (n : nat) : list Z := match n with O => [] | S n' => i :: zseq (i + 1) n' end.
Definition check_bsm (es : list (list N)) : bool :=
  match bput_all bsm_new es with
  | Ok (t, is) =>
      list_eqb Z.eqb is (zseq 0 (length es))
      && match bput_all t es with Ok (t', is') => list_eqb Z.eqb is is' && (zlen (b_inner t') =? zlen es) | Err => false end
      && forallb (fun ie => match bsm_get t (fst ie) with Some e => str_eqb e (snd ie) | None => false end) (combine is es)
  | Err => false
  end.

Definition check (c : case) : bool :=
  match c with
  | CWrite hasmax rb last tb r =>
      match write_code hasmax (expand_body rb) last tb, r with
      | Some (OK (w, _, rt)), IOk code it => list_eqb N.eqb w (expand_bytes code) && tables_eqb rt it
      | Some ERR, IErr => true
      | Some PANIC, IPanic => true
      | _, _ => false
      end
  | CPool es count => check_pool es count
  | CLdc is2 index form =>
      match ldc_choose is2 (Z.of_N index) with
      | LDC _ => (form =? 18)%N
      | LDC_W _ => (form =? 19)%N
      | LDC2_W _ => (form =? 20)%N
      end
  | CBsm es => check_bsm es
  | CClass strings t r =>
      let tbl := map unpacked strings in
      match write_class (t (lookup tbl)), r with
      | OK bs, KOk p => list_eqb N.eqb bs (unpacked p)
      | ERR, KErr => true
      | PANIC, KPanic => true
      | _, _ => false
      end
  | CWriteF hasmax rb last tb fs r sm =>
      let b := expand_body rb in
      match write_code_f hasmax b last tb (dense (length b) 0%N fs), r with
      | Some (OK (w, _, rt, sm')), IOk code it =>
          list_eqb N.eqb w (expand_bytes code) && tables_eqb rt it && obytes_eqb sm' sm
      | Some ERR, IErr => true
      | Some PANIC, IPanic => true
      | _, _ => false
      end
  end.
