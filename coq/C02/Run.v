(* C02 correspondence cases: what the implementation answered, to be compared with the model *)
From FB Require Export C02.Model C02.Encode C02.Frames C02.Class C02.Decode C02.Facts Base.Run.
From FB Require Import C02.TheoryC8 C02.TheoryC11.
From Coq Require Export Uint63.
Local Open Scope Z_scope.

(* run-length encoded bodies and byte strings, so that 65535-byte methods stay small as text;
   they are expanded here, the model runs on the real instruction list *)
Inductive rle := One (le : option label * entry) | Rep (n : N) (le : option label * entry).
Fixpoint expand_body (rb : list rle) : body :=
  match rb with
  | [] => []
  | One le :: r => le :: expand_body r
  | Rep n le :: r => repeat le (N.to_nat n) ++ expand_body r
  end.
Fixpoint expand_bytes (rb : list (N * N)) : list N :=
  match rb with
  | [] => []
  | (n, x) :: r => repeat x (N.to_nat n) ++ expand_bytes r
  end.


(* byte strings of whole-class cases are packed 7 bytes per primitive integer literal (coqc spends its
   time parsing numerals); they are unpacked here, the model runs on lists of bytes *)
Definition byte_of_word (w : int) (k : nat) : N :=
  Z.to_N (Uint63.to_Z (Uint63.land (Uint63.lsr w (Uint63.of_Z (Z.of_nat (8 * k)))) 255%uint63)).
Fixpoint bytes_of_word (w : int) (n : nat) : list N :=
  match n with
  | O => []
  | S n' => byte_of_word w n' :: bytes_of_word w n'
  end.
Fixpoint unpack (total : nat) (ws : list int) : list N :=
  match ws with
  | [] => []
  | w :: ws' =>
      match ws' with
      | [] => bytes_of_word w total
      | _ => bytes_of_word w 7 ++ unpack (total - 7) ws'
      end
  end.
Definition packed := (N * list int)%type.
Definition unpacked (p : packed) : list N := unpack (N.to_nat (fst p)) (snd p).
Definition lookup (tbl : list (list N)) (k : N) : list N := nth (N.to_nat k) tbl [].
Inductive kanswer := KOk (bs : packed) | KErr | KPanic.
(* a run of equal list elements in a printed tree (tables of 65535 / 65536 equal entries) *)
Definition rep {A} (n : N) (x : A) : list A := repeat x (N.to_nat n).


(* ---- decidable equality of decoded classes (for the comparison decode(written) = facts(tree)) ---- *)
Definition beq := str_eqb.
Definition oeq {A} (e : A -> A -> bool) (a b : option A) : bool := opt_eqb e a b.
Definition leq {A} (e : A -> A -> bool) (a b : list A) : bool := list_eqb e a b.
Definition peq {A B} (ea : A -> A -> bool) (eb : B -> B -> bool) (a b : A * B) : bool := ea (fst a) (fst b) && eb (snd a) (snd b).
Definition econst_eqb (a b : econst) : bool :=
  match a, b with
  | ECInt x, ECInt y | ECFloat x, ECFloat y | ECLong x, ECLong y | ECDouble x, ECDouble y => x =? y
  | ECUtf8 x, ECUtf8 y => beq x y
  | _, _ => false
  end.
Fixpoint elem_eqb (a b : elem) : bool :=
  match a, b with
  | EConst t c, EConst t' c' => N.eqb t t' && econst_eqb c c'
  | EEnum x y, EEnum x' y' => beq x x' && beq y y'
  | EClass x, EClass x' => beq x x'
  | EAnnot t ps, EAnnot t' ps' =>
      beq t t' && (fix go (l l' : list (bytes * elem)) : bool :=
                     match l, l' with
                     | [], [] => true
                     | (n, v) :: r, (n', v') :: r' => beq n n' && elem_eqb v v' && go r r'
                     | _, _ => false
                     end) ps ps'
  | EArray vs, EArray vs' =>
      (fix go (l l' : list elem) : bool :=
         match l, l' with
         | [], [] => true
         | v :: r, v' :: r' => elem_eqb v v' && go r r'
         | _, _ => false
         end) vs vs'
  | _, _ => false
  end.
Definition pairs_eqb := leq (peq beq elem_eqb).
Definition annotation_eqb : annotation -> annotation -> bool := peq beq pairs_eqb.
Definition target_eqb (a b : target Z) : bool :=
  match a, b with
  | TTypeParameter t i, TTypeParameter t' i' | TSupertype t i, TSupertype t' i' | TFormalParameter t i, TFormalParameter t' i'
  | TThrows t i, TThrows t' i' | TCatch t i, TCatch t' i' | TOffset t i, TOffset t' i' => N.eqb t t' && (i =? i')
  | TTypeParameterBound t p q, TTypeParameterBound t' p' q' | TTypeArgument t p q, TTypeArgument t' p' q' => N.eqb t t' && (p =? p') && (q =? q')
  | TEmpty t, TEmpty t' => N.eqb t t'
  | TLocalVar t tb, TLocalVar t' tb' => N.eqb t t' && leq (peq (peq Z.eqb Z.eqb) Z.eqb) tb tb'
  | _, _ => false
  end.
Definition ta_eqb (a b : type_annotation Z) : bool :=
  target_eqb (ta_target a) (ta_target b) && leq (peq Z.eqb Z.eqb) (ta_path a) (ta_path b) && beq (ta_type a) (ta_type b) && pairs_eqb (ta_pairs a) (ta_pairs b).
Definition fvti_eqb (a b : fvti) : bool :=
  match a, b with
  | FVSimple x, FVSimple y | FVUninit x, FVUninit y => x =? y
  | FVObject x, FVObject y => beq x y
  | _, _ => false
  end.
Definition fframe_eqb (a b : fframe) : bool :=
  match a, b with
  | FrSame, FrSame => true
  | FrSame1 x, FrSame1 y => fvti_eqb x y
  | FrChop x, FrChop y => x =? y
  | FrAppend x, FrAppend y => leq fvti_eqb x y
  | FrFull x y, FrFull x' y' => leq fvti_eqb x x' && leq fvti_eqb y y'
  | _, _ => false
  end.
Definition lv_eqb (a b : Z * Z * bytes * bytes * Z) : bool := peq (peq (peq (peq Z.eqb Z.eqb) beq) beq) Z.eqb a b.
Definition dattr0_eqb (a b : dattr0) : bool :=
  match a, b with
  | ADeprecated, ADeprecated | ASynthetic, ASynthetic => true
  | ASignature x, ASignature y => beq x y
  | AAnnotations v l, AAnnotations v' l' => Bool.eqb v v' && leq annotation_eqb l l'
  | ATypeAnnotations v l, ATypeAnnotations v' l' => Bool.eqb v v' && leq ta_eqb l l'
  | AStackMapTable l, AStackMapTable l' => leq (peq Z.eqb fframe_eqb) l l'
  | ALineNumberTable l, ALineNumberTable l' => leq (peq Z.eqb Z.eqb) l l'
  | ALocalVariableTable l, ALocalVariableTable l' | ALocalVariableTypeTable l, ALocalVariableTypeTable l' => leq lv_eqb l l'
  | AUnknown n c, AUnknown n' c' => beq n n' && beq c c'
  | _, _ => false
  end.
Definition cinner_eqb (a b : cinner) : bool :=
  beq (ic_inner a) (ic_inner b) && oeq beq (ic_outer a) (ic_outer b) && oeq beq (ic_name a) (ic_name b) && (ic_flags a =? ic_flags b).
Definition cmodule_eqb (a b : cmodule) : bool :=
  beq (m_name a) (m_name b) && (m_flags a =? m_flags b) && oeq beq (m_version a) (m_version b)
  && leq (fun x y => beq (rq_name x) (rq_name y) && (rq_flags x =? rq_flags y) && oeq beq (rq_version x) (rq_version y)) (m_requires a) (m_requires b)
  && leq (fun x y => beq (ex_name x) (ex_name y) && (ex_flags x =? ex_flags y) && leq beq (ex_to x) (ex_to y)) (m_exports a) (m_exports b)
  && leq (fun x y => beq (ex_name x) (ex_name y) && (ex_flags x =? ex_flags y) && leq beq (ex_to x) (ex_to y)) (m_opens a) (m_opens b)
  && leq beq (m_uses a) (m_uses b)
  && leq (fun x y => beq (pv_name x) (pv_name y) && leq beq (pv_with x) (pv_with y)) (m_provides a) (m_provides b).
Definition cvalue_eqb (a b : cvalue) : bool :=
  match a, b with
  | CVInt x, CVInt y | CVFloat x, CVFloat y | CVLong x, CVLong y | CVDouble x, CVDouble y => x =? y
  | CVString x, CVString y => beq x y
  | _, _ => false
  end.
Definition dcode_eqb (a b : dcode) : bool :=
  (dc_max_stack a =? dc_max_stack b) && (dc_max_locals a =? dc_max_locals b) && beq (dc_code a) (dc_code b)
  && leq (peq (peq (peq Z.eqb Z.eqb) Z.eqb) (oeq beq)) (dc_exceptions a) (dc_exceptions b) && leq dattr0_eqb (dc_attrs a) (dc_attrs b).
Definition dattr_eqb (a b : dattr) : bool :=
  match a, b with
  | ALeaf x, ALeaf y => dattr0_eqb x y
  | AInnerClasses l, AInnerClasses l' => leq cinner_eqb l l'
  | AEnclosingMethod c m, AEnclosingMethod c' m' => beq c c' && oeq (peq beq beq) m m'
  | ASourceFile x, ASourceFile y | ASourceDebugExtension x, ASourceDebugExtension y | AModuleMainClass x, AModuleMainClass y | ANestHost x, ANestHost y => beq x y
  | AModule x, AModule y => cmodule_eqb x y
  | AModulePackages l, AModulePackages l' | ANestMembers l, ANestMembers l' | APermittedSubclasses l, APermittedSubclasses l' | AExceptions l, AExceptions l' => leq beq l l'
  | ARecord l, ARecord l' => leq (fun x y => beq (dr_name x) (dr_name y) && beq (dr_desc x) (dr_desc y) && leq dattr0_eqb (dr_attrs x) (dr_attrs y)) l l'
  | ABootstrapMethods l, ABootstrapMethods l' => leq (peq handle_eqb (leq Z.eqb)) l l'
  | AConstantValue x, AConstantValue y => cvalue_eqb x y
  | ACode x, ACode y => dcode_eqb x y
  | AAnnotationDefault x, AAnnotationDefault y => elem_eqb x y
  | AMethodParameters l, AMethodParameters l' => leq (peq (oeq beq) Z.eqb) l l'
  | _, _ => false
  end.
Definition dmember_eqb (a b : dmember) : bool :=
  (dm_access a =? dm_access b) && beq (dm_name a) (dm_name b) && beq (dm_desc a) (dm_desc b) && leq dattr_eqb (dm_attrs a) (dm_attrs b).
Definition dclass_eqb (a b : dclass) : bool :=
  (d_minor a =? d_minor b) && (d_major a =? d_major b) && (d_access a =? d_access b) && beq (d_name a) (d_name b)
  && oeq beq (d_super a) (d_super b) && leq beq (d_interfaces a) (d_interfaces b)
  && leq dmember_eqb (d_fields a) (d_fields b) && leq dmember_eqb (d_methods a) (d_methods b) && leq dattr_eqb (d_attrs a) (d_attrs b).

(* positions in the implementation's answer are printed as naturals (N) *)
Record itables := { i_exc : list (N * N * N); i_offs : list N; i_ranges : list (N * N) }.
Inductive ianswer := IOk (code : list (N * N)) (t : itables) | IErr | IPanic.

Inductive case :=
| CWrite (hasmax : bool) (b : list rle) (last : option label) (tb : tables) (r : ianswer)
    (* Code::{instructions,last_label,exception_table,…} abstracted to the layout level, and
       what duke::write_class produced for that method (code array and the tables) *)
| CPool (entries : list pentry) (count : N)
    (* the constant pool of a written class, in file order, and its constant_pool_count *)
| CLdc (is2 : bool) (index : N) (form : N)
    (* an ldc instruction in the written code: loadable is long/double, pool index, opcode *)
| CWriteF (hasmax : bool) (b : list rle) (last : option label) (tb : tables) (fs : list (N * sframe))
    (r : ianswer) (sm : option (list N))
    (* a method whose instructions carry stack map frames: fs = (instruction index, frame) in
       instruction order, Object types with the pool index of their class in the written file;
       sm = the body of the StackMapTable attribute of the written method, if there is one *)
| CBsm (entries : list (list N))
    (* the BootstrapMethods table of a written class, in file order (method_ref, arguments) *)
| CClass (strings : list packed) (uni : list (N * option (list N))) (t : (N -> list N) -> cclass) (r : kanswer) (dec : bool).
    (* a whole tree (strings by index into the table) and the class file duke::write_class produced;
       uni: for the table entry k that is a string with a character outside 1..127, (k, Some code points); for an
       entry that is not a string (attribute content), (k, None); every other entry is a string of characters 1..127;
       dec: the tree was read by duke: it must satisfy the hypothesis cclass_ok of C02_write_class_decodes, and
       the decoder of C02/Decode.v applied to the bytes must give the facts of the tree *)

(* (instruction index, frame) pairs, ascending -> one optional frame per instruction *)
Fixpoint dense (n : nat) (k : N) (fs : list (N * sframe)) : list (option sframe) :=
  match n with
  | O => []
  | S n' =>
      match fs with
      | (j, f) :: r => if N.eqb j k then Some f :: dense n' (N.succ k) r else None :: dense n' (N.succ k) fs
      | [] => None :: dense n' (N.succ k) []
      end
  end.
Definition obytes_eqb (a b : option (list N)) : bool :=
  match a, b with
  | Some x, Some y => list_eqb N.eqb x y
  | None, None => true
  | _, _ => false
  end.

Definition zeqN (z : Z) (n : N) : bool := z =? Z.of_N n.
Definition exc_eqb (a : Z * Z * Z) (b : N * N * N) : bool :=
  zeqN (fst (fst a)) (fst (fst b)) && zeqN (snd (fst a)) (snd (fst b)) && zeqN (snd a) (snd b).
Definition rng_eqb (a : Z * Z) (b : N * N) : bool := zeqN (fst a) (fst b) && zeqN (snd a) (snd b).
Fixpoint list_eqb2 {A B} (eqb : A -> B -> bool) (a : list A) (b : list B) : bool :=
  match a, b with
  | [], [] => true
  | x :: a', y :: b' => eqb x y && list_eqb2 eqb a' b'
  | _, _ => false
  end.
Definition tables_eqb (a : rtables) (b : itables) : bool :=
  list_eqb2 exc_eqb (r_exc a) (i_exc b) && list_eqb2 zeqN (r_offs a) (i_offs b)
  && list_eqb2 rng_eqb (r_ranges a) (i_ranges b).

(* all puts of the entries (each one new), then all again (each one found): indices and count *)
Fixpoint put_all (p : pool) (es : list pentry) : res (pool * list Z) :=
  match es with
  | [] => Ok (p, [])
  | e :: r => match pool_put p e with
              | Ok (p', i) => match put_all p' r with Ok (p'', is) => Ok (p'', i :: is) | Err => Err end
              | Err => Err
              end
  end.
Definition check_pool (es : list pentry) (count : N) : bool :=
  match put_all pool_new es with
  | Ok (p, is) =>
      (p_count p =? Z.of_N count)
      && list_eqb Z.eqb is (map fst (slots_of es 1))
      && match put_all p es with
         | Ok (p', is') => list_eqb Z.eqb is is' && (p_count p' =? p_count p)
         | Err => false
         end
      && forallb (fun ie => match pool_resolve p (fst ie) with Some e => pentry_eqb e (snd ie) | None => false end)
           (slots_of es 1)
  | Err => false
  end.

Fixpoint bput_all (t : bsm) (es : list (list N)) : res (bsm * list Z) :=
  match es with
  | [] => Ok (t, [])
  | e :: r => match bsm_put t e with
              | Ok (t', i) => match bput_all t' r with Ok (t'', is) => Ok (t'', i :: is) | Err => Err end
              | Err => Err
              end
  end.
Fixpoint zseq (i : Z) (n : nat) : list Z := match n with O => [] | S n' => i :: zseq (i + 1) n' end.
Definition check_bsm (es : list (list N)) : bool :=
  match bput_all bsm_new es with
  | Ok (t, is) =>
      list_eqb Z.eqb is (zseq 0 (length es))
      && match bput_all t es with Ok (t', is') => list_eqb Z.eqb is is' && (zlen (b_inner t') =? zlen es) | Err => false end
      && forallb (fun ie => match bsm_get t (fst ie) with Some e => str_eqb e (snd ie) | None => false end) (combine is es)
  | Err => false
  end.

(* the strings of a whole-class case are the modified UTF-8 (C02/Class.v mutf8, from JVMS 4.4.7) of their characters *)
Fixpoint uni_find (uni : list (N * option (list N))) (k : N) : option (option (list N)) :=
  match uni with
  | [] => None
  | (j, v) :: r => if N.eqb j k then Some v else uni_find r k
  end.
Fixpoint check_strings (tbl : list (list N)) (uni : list (N * option (list N))) (k : N) : bool :=
  match tbl with
  | [] => true
  | b :: r =>
      match uni_find uni k with
      | Some (Some cps) => list_eqb N.eqb (mutf8 cps) b
      | Some None => true
      | None => forallb (fun x => (0 <? x)%N && (x <? 128)%N) b
      end && check_strings r uni (N.succ k)
  end.

Definition check (c : case) : bool :=
  match c with
  | CWrite hasmax rb last tb r =>
      match write_code hasmax (expand_body rb) last tb, r with
      | Some (OK (w, _, rt)), IOk code it => list_eqb N.eqb w (expand_bytes code) && tables_eqb rt it
      | Some ERR, IErr => true
      | Some PANIC, IPanic => true
      | _, _ => false
      end
  | CPool es count => check_pool es count
  | CLdc is2 index form =>
      match ldc_choose is2 (Z.of_N index) with
      | LDC _ => (form =? 18)%N
      | LDC_W _ => (form =? 19)%N
      | LDC2_W _ => (form =? 20)%N
      end
  | CBsm es => check_bsm es
  | CClass strings uni t r dec =>
      let tbl := map unpacked strings in
      let tree := t (lookup tbl) in
      check_strings tbl uni 0%N &&
      match write_class_aux tree, r with
      | WOK (bs, aux), KOk p =>
          list_eqb N.eqb bs (unpacked p)
          && (negb dec || (cclass_ok tree && cclass_np tree && match facts_of tree aux, parse_class bs with Some d, Some d' => dclass_eqb d d' | _, _ => false end))
      | WERR _, KErr => true
      | WPANIC, KPanic => true
      | _, _ => false
      end
  | CWriteF hasmax rb last tb fs r sm =>
      let b := expand_body rb in
      match write_code_f hasmax b last tb (dense (length b) 0%N fs), r with
      | Some (OK (w, _, rt, sm')), IOk code it =>
          list_eqb N.eqb w (expand_bytes code) && tables_eqb rt it && obytes_eqb sm' sm
      | Some ERR, IErr => true
      | Some PANIC, IPanic => true
      | _, _ => false
      end
  end.
