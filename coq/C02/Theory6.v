(* C02 — targets_preserved: decoding the written bytes at the position of every instruction
   (with a decoder that only looks at bytes) yields exactly the positions of the instructions
   that carry the target labels. *)
From FB Require Import C02.Model C02.Encode C02.Theory1 C02.Theory2 C02.Theory3 C02.Theory4.
Local Open Scope Z_scope.

(* ---- bytes ---- *)
Lemma byte_of_Z z : Z.of_N (byte_of z) = z mod 256.
Proof. unfold byte_of. rewrite Z2N.id; [reflexivity|]. apply Z.mod_pos_bound. lia. Qed.

Lemma nthb_app pre l k : 0 <= k -> nthb (pre ++ l) (zlen pre + k) = nthb l k.
Proof.
  intros Hk. unfold nthb, zlen. f_equal.
  rewrite Z2Nat.inj_add by lia. rewrite Nat2Z.id. apply app_nth2_plus.
Qed.
Lemma nthb_app0 pre l : nthb (pre ++ l) (zlen pre) = nthb l 0.
Proof. rewrite <- (Z.add_0_r (zlen pre)) at 1. apply nthb_app. lia. Qed.

Lemma u16_be16 z rest : u16_at (be16 z ++ rest) 0 = ((z / 256) mod 256) * 256 + z mod 256.
Proof.
  unfold u16_at, nthb, be16. change (Z.to_nat 0) with 0%nat. change (Z.to_nat (0 + 1)) with 1%nat.
  cbn [app nth]. rewrite !byte_of_Z. reflexivity.
Qed.
Lemma u32_be32 z rest :
  u32_at (be32 z ++ rest) 0 =
  ((z / 16777216) mod 256) * 16777216 + ((z / 65536) mod 256) * 65536 + ((z / 256) mod 256) * 256 + z mod 256.
Proof.
  unfold u32_at, nthb, be32. change (Z.to_nat 0) with 0%nat. change (Z.to_nat (0 + 1)) with 1%nat.
  change (Z.to_nat (0 + 2)) with 2%nat. change (Z.to_nat (0 + 3)) with 3%nat.
  cbn [app nth]. rewrite !byte_of_Z. reflexivity.
Qed.

Lemma s16_be16 z rest : fits16 z = true -> s16_at (be16 z ++ rest) 0 = z.
Proof.
  intros H. unfold fits16 in H. apply andb_true_iff in H as [H1 H2]. apply Z.leb_le in H1, H2.
  unfold s16_at. rewrite u16_be16.
  destruct (_ <? _) eqn:E; [apply Z.ltb_lt in E|apply Z.ltb_ge in E]; Z.div_mod_to_equations; lia.
Qed.
Lemma s32_be32 z rest : fits32 z = true -> s32_at (be32 z ++ rest) 0 = z.
Proof.
  intros H. unfold fits32 in H. apply andb_true_iff in H as [H1 H2]. apply Z.leb_le in H1, H2.
  unfold s32_at. rewrite u32_be32.
  destruct (_ <? _) eqn:E; [apply Z.ltb_lt in E|apply Z.ltb_ge in E]; Z.div_mod_to_equations; lia.
Qed.

Lemma u16_at_app pre l k : 0 <= k -> u16_at (pre ++ l) (zlen pre + k) = u16_at l k.
Proof. intros. unfold u16_at. rewrite <- Z.add_assoc, !nthb_app by lia. reflexivity. Qed.
Lemma u32_at_app pre l k : 0 <= k -> u32_at (pre ++ l) (zlen pre + k) = u32_at l k.
Proof. intros. unfold u32_at. rewrite <- !Z.add_assoc, !nthb_app by lia. reflexivity. Qed.
Lemma s16_at_app pre l k : 0 <= k -> s16_at (pre ++ l) (zlen pre + k) = s16_at l k.
Proof. intros. unfold s16_at. rewrite u16_at_app by lia. reflexivity. Qed.
Lemma s32_at_app pre l k : 0 <= k -> s32_at (pre ++ l) (zlen pre + k) = s32_at l k.
Proof. intros. unfold s32_at. rewrite u32_at_app by lia. reflexivity. Qed.

(* reading a 16/32-bit operand that sits behind [a] bytes *)
Lemma s16_behind a z rest : fits16 z = true -> s16_at (a ++ be16 z ++ rest) (zlen a) = z.
Proof. intros H. rewrite <- (Z.add_0_r (zlen a)), s16_at_app by lia. apply s16_be16, H. Qed.
Lemma s32_behind a z rest : fits32 z = true -> s32_at (a ++ be32 z ++ rest) (zlen a) = z.
Proof. intros H. rewrite <- (Z.add_0_r (zlen a)), s32_at_app by lia. apply s32_be32, H. Qed.

(* ---- what the decoder must see for an entry: its label-free meaning ---- *)
Definition expected (c : bool) (L : label -> option Z) (p : Z) (e : entry) : option (list (Z * dinsn)) :=
  match e with
  | Plain _ => Some []
  | Br (KCond op inv) l =>
      match L l with
      | Some t => Some (if c then [(p, DCond (Z.of_N inv) (p + 8)); (p + 3, DJump 200 t)]
                        else [(p, DCond (Z.of_N op) t)])
      | None => None
      end
  | Br (KJump op wop) l =>
      match L l with
      | Some t => Some [(p, DJump (Z.of_N (if c then wop else op)) t)]
      | None => None
      end
  | TSwitch d low high ts =>
      match L d, mapO L ts with
      | Some td, Some tts => Some [(p, DTable td low high tts)]
      | _, _ => None
      end
  | LSwitch d ps =>
      match L d, mapO (fun kp => match L (snd kp) with Some t => Some (fst kp, t) | None => None end) ps with
      | Some td, Some kts => Some [(p, DLookup td kts)]
      | _, _ => None
      end
  end.

(* operands are 32-bit integers *)
Definition entry_i32 (e : entry) : bool :=
  match e with
  | TSwitch _ low high _ => fits32 low && fits32 high
  | LSwitch _ ps => forallb (fun kp => fits32 (fst kp)) ps
  | _ => true
  end.

Lemma cond_ops o : is_cond_op o = true ->
  o = 153 \/ o = 154 \/ o = 155 \/ o = 156 \/ o = 157 \/ o = 158 \/ o = 159 \/ o = 160 \/ o = 161 \/ o = 162
  \/ o = 163 \/ o = 164 \/ o = 165 \/ o = 166 \/ o = 198 \/ o = 199.
Proof.
  unfold is_cond_op. rewrite !orb_true_iff, andb_true_iff, !Z.leb_le, !Z.eqb_eq. lia.
Qed.
Lemma cond_op_opposite o : is_cond_op o = true -> is_cond_op (jvms_opposite o) = true /\ jvms_opposite (jvms_opposite o) = o.
Proof.
  intros H. apply cond_ops in H.
  repeat (destruct H as [->|H]; [vm_compute; split; reflexivity|]). subst. vm_compute. split; reflexivity.
Qed.
Lemma cond_not_jump o : is_cond_op o = true -> True.
Proof. trivial. Qed.

Lemma N_byte_id x : (x < 256)%N -> Z.of_N x mod 256 = Z.of_N x.
Proof. intros. apply Z.mod_small. lia. Qed.

Lemma nthb_cons0 x l : nthb (x :: l) 0 = Z.of_N x.
Proof. reflexivity. Qed.
Lemma nthb_consS x l k : 0 <= k -> nthb (x :: l) (k + 1) = nthb l k.
Proof.
  intros. unfold nthb. f_equal. rewrite Z2Nat.inj_add by lia. rewrite Nat.add_comm. reflexivity.
Qed.

(* a cons is an append of a singleton *)
Lemma zlen1 {A} (x : A) : zlen [x] = 1. Proof. reflexivity. Qed.

Lemma dec_targets_flat p : forall tts A post,
  forallb (fun t => fits32 (t - p)) tts = true ->
  dec_targets (A ++ flat_map (fun t => be32 (t - p)) tts ++ post) p (zlen A) (length tts) = tts.
Proof.
  induction tts as [|t tts IH]; intros A post H; cbn [dec_targets length flat_map forallb] in *; [reflexivity|].
  apply andb_true_iff in H as [H1 H2].
  rewrite <- app_assoc. rewrite s32_behind by exact H1. f_equal; [lia|].
  replace (zlen A + 4) with (zlen (A ++ be32 (t - p))) by (rewrite zlen_app; reflexivity).
  rewrite (app_assoc A). apply IH. exact H2.
Qed.

Lemma dec_pairs_flat p : forall (kts : list (Z * Z)) A post,
  forallb (fun kt => fits32 (fst kt) && fits32 (snd kt - p)) kts = true ->
  dec_pairs (A ++ flat_map (fun kt => be32 (fst kt) ++ be32 (snd kt - p)) kts ++ post) p (zlen A) (length kts) = kts.
Proof.
  induction kts as [|[k t] kts IH]; intros A post H; cbn [dec_pairs length flat_map forallb fst snd] in *; [reflexivity|].
  apply andb_true_iff in H as [H1 H2]. apply andb_true_iff in H1 as [H0 H1].
  rewrite <- !app_assoc. rewrite s32_behind by exact H0.
  replace (zlen A + 4) with (zlen (A ++ be32 k)) by (rewrite zlen_app; reflexivity).
  rewrite (app_assoc A (be32 k)). rewrite s32_behind by exact H1.
  f_equal; [f_equal; lia|].
  replace (zlen A + 8) with (zlen ((A ++ be32 k) ++ be32 (t - p))) by (rewrite !zlen_app; cbn [zlen length Z.of_nat be32]; lia).
  rewrite (app_assoc (A ++ be32 k)). apply IH. exact H2.
Qed.

Lemma mapO_length {A B} (f : A -> option B) : forall l r, mapO f l = Some r -> length r = length l.
Proof.
  induction l as [|a l IH]; intros r; cbn [mapO]; [intros [= <-]; reflexivity|].
  destruct (f a); [|discriminate]. destruct (mapO f l) eqn:E; [|discriminate]. intros [= <-].
  cbn [length]. rewrite (IH _ eq_refl). reflexivity.
Qed.

Lemma forallb_fits_targets L p : forall ts tts,
  mapO L ts = Some tts -> forallb (tgt_ok fits32 L p) ts = true -> forallb (fun t => fits32 (t - p)) tts = true.
Proof.
  induction ts as [|t ts IH]; intros tts; cbn [mapO forallb]; [intros [= <-]; reflexivity|].
  unfold tgt_ok at 1. destruct (L t) as [tt|]; [|discriminate]. destruct (mapO L ts) eqn:E; [|discriminate].
  intros [= <-] H. apply andb_true_iff in H as [H1 H2]. cbn [forallb]. rewrite H1. cbn [andb]. apply IH; [reflexivity|exact H2].
Qed.
Lemma forallb_fits_pairs L p : forall (ps : list (Z * label)) kts,
  mapO (fun kp => match L (snd kp) with Some t => Some (fst kp, t) | None => None end) ps = Some kts ->
  forallb (fun kp => tgt_ok fits32 L p (snd kp)) ps = true ->
  forallb (fun kp => fits32 (fst kp)) ps = true ->
  forallb (fun kt => fits32 (fst kt) && fits32 (snd kt - p)) kts = true.
Proof.
  induction ps as [|[k l] ps IH]; intros kts; cbn [mapO forallb fst snd]; [intros [= <-]; reflexivity|].
  unfold tgt_ok at 1. destruct (L l) as [tt|]; [|discriminate]. destruct (mapO _ ps) eqn:E; [|discriminate].
  intros [= <-] H H'. apply andb_true_iff in H as [H1 H2]. apply andb_true_iff in H' as [H3 H4].
  cbn [forallb fst snd]. rewrite H1, H3. cbn [andb]. apply IH; [reflexivity|exact H2|exact H4].
Qed.

(* ---- reading inside pre ++ chunk ++ post ---- *)
Lemma rd_op pre x r post : nthb (pre ++ (x :: r) ++ post) (zlen pre) = Z.of_N x.
Proof. rewrite nthb_app0. reflexivity. Qed.
Lemma rd_s16 pre x z post : fits16 z = true -> s16_at (pre ++ (x :: be16 z) ++ post) (zlen pre + 1) = z.
Proof.
  intros H. replace (pre ++ (x :: be16 z) ++ post) with ((pre ++ [x]) ++ be16 z ++ post) by (rewrite <- app_assoc; reflexivity).
  replace (zlen pre + 1) with (zlen (pre ++ [x])) by (rewrite zlen_app; reflexivity).
  apply s16_behind, H.
Qed.
Lemma rd_s32 pre x z post : fits32 z = true -> s32_at (pre ++ (x :: be32 z) ++ post) (zlen pre + 1) = z.
Proof.
  intros H. replace (pre ++ (x :: be32 z) ++ post) with ((pre ++ [x]) ++ be32 z ++ post) by (rewrite <- app_assoc; reflexivity).
  replace (zlen pre + 1) with (zlen (pre ++ [x])) by (rewrite zlen_app; reflexivity).
  apply s32_behind, H.
Qed.
Lemma rd_tramp pre inv z post :
  let bs := pre ++ ([inv; 0; 8; GOTO_W]%N ++ be32 z) ++ post in
  nthb bs (zlen pre) = Z.of_N inv /\ s16_at bs (zlen pre + 1) = 8 /\ nthb bs (zlen pre + 3) = 200
  /\ (fits32 z = true -> s32_at bs (zlen pre + 3 + 1) = z).
Proof.
  intros bs. subst bs. split; [|split; [|split]].
  - rewrite nthb_app0. reflexivity.
  - rewrite s16_at_app by lia. reflexivity.
  - rewrite nthb_app by lia. reflexivity.
  - intros H.
    replace (pre ++ ([inv; 0; 8; GOTO_W]%N ++ be32 z) ++ post) with ((pre ++ [inv; 0; 8; GOTO_W]%N) ++ be32 z ++ post)
      by (rewrite <- !app_assoc; reflexivity).
    replace (zlen pre + 3 + 1) with (zlen (pre ++ [inv; 0; 8; GOTO_W]%N)) by (rewrite zlen_app; cbn [zlen length Z.of_nat]; lia).
    apply s32_behind, H.
Qed.
Lemma zlen_zeros n : 0 <= n -> zlen (zeros n) = n.
Proof. intros. unfold zeros, zlen. rewrite repeat_length, Z2Nat.id by lia. reflexivity. Qed.
Lemma rd_switch pre op p rest post :
  zlen pre = p ->
  pre ++ ([op] ++ zeros (pad p) ++ rest) ++ post = (pre ++ [op] ++ zeros (pad p)) ++ rest ++ post
  /\ zlen (pre ++ [op] ++ zeros (pad p)) = p + 1 + pad p.
Proof.
  intros Hp. split.
  - rewrite <- !app_assoc. reflexivity.
  - pose proof (pad_bounds p). rewrite !zlen_app, zlen_zeros, Hp by lia. cbn [zlen length Z.of_nat]. lia.
Qed.

Ltac some_inj H :=
  apply (f_equal (fun o => match o with Some x => x | None => @nil N end)) in H; cbv beta iota in H; subst.

(* ---- one entry ---- *)
Lemma decode_entry c L p e chunk pre post :
  zlen pre = p ->
  enc_entry c L p e = Some chunk -> adm_entry c L p e = true ->
  entry_ok e = true -> entry_i32 e = true ->
  exists ex, expected c L p e = Some ex /\
             forall q d, In (q, d) ex -> decode_at (pre ++ chunk ++ post) q = d.
Proof.
  intros Hp He Ha Hok Hi.
  destruct e as [bs|[op inv|op wop] l|d low high ts|d ps]; cbn [enc_entry adm_entry expected entry_ok entry_i32 kind_ok] in *.
  - exists []. split; [reflexivity|intros q d' []].
  - (* conditional *)
    destruct (L l) as [t|] eqn:El; [|discriminate]. eexists. split; [reflexivity|].
    apply andb_true_iff in Hok as [Hc Hinv]. apply Z.eqb_eq in Hinv.
    destruct (cond_op_opposite _ Hc) as [Hc' _]. rewrite <- Hinv in Hc'.
    unfold tgt_ok in Ha. rewrite El in Ha. subst p.
    destruct c; some_inj He; intros q dd Hin.
    + destruct (rd_tramp pre inv (t - (zlen pre + 3)) post) as (R1 & R2 & R3 & R4).
      destruct Hin as [[= <- <-]|[[= <- <-]|[]]]; unfold decode_at.
      * rewrite R1, Hc', R2. reflexivity.
      * rewrite R3. cbn [is_cond_op is_jump_op is_wjump_op Z.leb Z.eqb Pos.eqb Z.compare Pos.compare Pos.compare_cont andb orb].
        rewrite (R4 Ha). f_equal. lia.
    + destruct Hin as [[= <- <-]|[]]. unfold decode_at.
      rewrite rd_op, Hc, (rd_s16 _ _ _ _ Ha). f_equal. lia.
  - (* goto / jsr *)
    destruct (L l) as [t|] eqn:El; [|discriminate]. eexists. split; [reflexivity|].
    unfold tgt_ok in Ha. rewrite El in Ha. subst p.
    assert (Hk : (op = 167 /\ wop = 200)%N \/ (op = 168 /\ wop = 201)%N).
    { apply orb_true_iff in Hok as [H|H]; apply andb_true_iff in H as [H1 H2]; apply N.eqb_eq in H1, H2; auto. }
    destruct c; some_inj He; intros q dd [[= <- <-]|[]]; unfold decode_at; rewrite rd_op.
    + assert (Hw : is_cond_op (Z.of_N wop) = false /\ is_jump_op (Z.of_N wop) = false /\ is_wjump_op (Z.of_N wop) = true)
        by (destruct Hk as [[_ ->]|[_ ->]]; vm_compute; auto).
      destruct Hw as (W1 & W2 & W3). rewrite W1, W2, W3, (rd_s32 _ _ _ _ Ha). f_equal. lia.
    + assert (Hw : is_cond_op (Z.of_N op) = false /\ is_jump_op (Z.of_N op) = true)
        by (destruct Hk as [[-> _]|[-> _]]; vm_compute; auto).
      destruct Hw as (W1 & W2). rewrite W1, W2, (rd_s16 _ _ _ _ Ha). f_equal. lia.
  - (* tableswitch *)
    destruct (L d) as [td|] eqn:Ed; [|discriminate]. destruct (mapO L ts) as [tts|] eqn:Em; [|discriminate].
    eexists. split; [reflexivity|]. apply (f_equal (fun o => match o with Some x => x | None => @nil N end)) in He; cbv beta iota in He; subst chunk.
    intros q dd [[= <- <-]|[]].
    apply andb_true_iff in Ha as [Ha Hn]. apply andb_true_iff in Ha as [Ha Hlh].
    apply andb_true_iff in Ha as [Ha Hts]. destruct c; [discriminate|]. cbn [negb andb] in Ha.
    unfold tgt_ok in Ha. rewrite Ed in Ha.
    apply andb_true_iff in Hi as [Hlo Hhi]. apply Z.eqb_eq in Hn. apply Z.leb_le in Hlh.
    unfold decode_at.
    match goal with |- context [nthb ?bs p] => assert (Hop : nthb bs p = 170) by (rewrite <- Hp; rewrite nthb_app0; reflexivity); rewrite Hop end.
    cbn [is_cond_op is_jump_op is_wjump_op Z.leb Z.eqb Pos.eqb Z.compare Pos.compare Pos.compare_cont andb orb].
    destruct (rd_switch pre TABLESWITCH p (be32 (td - p) ++ be32 low ++ be32 high ++ flat_map (fun t => be32 (t - p)) tts) post Hp) as [Hbs HA0].
    rewrite Hbs. set (A0 := pre ++ [TABLESWITCH] ++ zeros (pad p)) in *. rewrite <- HA0.
    rewrite <- !app_assoc.
    rewrite s32_behind by exact Ha.
    rewrite (app_assoc A0 (be32 (td - p))).
    replace (zlen A0 + 4) with (zlen (A0 ++ be32 (td - p))) by (rewrite zlen_app; reflexivity).
    rewrite s32_behind by exact Hlo.
    rewrite (app_assoc (A0 ++ be32 (td - p)) (be32 low)).
    replace (zlen A0 + 8) with (zlen ((A0 ++ be32 (td - p)) ++ be32 low)) by (rewrite !zlen_app; cbn [zlen length Z.of_nat be32]; lia).
    rewrite s32_behind by exact Hhi.
    rewrite (app_assoc ((A0 ++ be32 (td - p)) ++ be32 low) (be32 high)).
    replace (zlen A0 + 12) with (zlen (((A0 ++ be32 (td - p)) ++ be32 low) ++ be32 high)) by (rewrite !zlen_app; cbn [zlen length Z.of_nat be32]; lia).
    replace (Z.to_nat (high - low + 1)) with (length tts).
    2:{ rewrite (mapO_length _ _ _ Em). rewrite <- Hn. unfold zlen. rewrite Nat2Z.id. reflexivity. }
    rewrite dec_targets_flat by (eapply forallb_fits_targets; eassumption).
    f_equal. lia.
  - (* lookupswitch *)
    destruct (L d) as [td|] eqn:Ed; [|discriminate].
    destruct (mapO _ ps) as [kts|] eqn:Em; [|discriminate].
    eexists. split; [reflexivity|]. apply (f_equal (fun o => match o with Some x => x | None => @nil N end)) in He; cbv beta iota in He; subst chunk.
    intros q dd [[= <- <-]|[]].
    apply andb_true_iff in Ha as [Ha Hn]. apply andb_true_iff in Ha as [Ha Hsorted].
    apply andb_true_iff in Ha as [Ha Hts]. destruct c; [discriminate|]. cbn [negb andb] in Ha.
    unfold tgt_ok in Ha. rewrite Ed in Ha. apply Z.leb_le in Hn. unfold i32max in Hn.
    unfold decode_at.
    match goal with |- context [nthb ?bs p] => assert (Hop : nthb bs p = 171) by (rewrite <- Hp; rewrite nthb_app0; reflexivity); rewrite Hop end.
    cbn [is_cond_op is_jump_op is_wjump_op Z.leb Z.eqb Pos.eqb Z.compare Pos.compare Pos.compare_cont andb orb].
    destruct (rd_switch pre LOOKUPSWITCH p (be32 (td - p) ++ be32 (zlen ps) ++ flat_map (fun kt => be32 (fst kt) ++ be32 (snd kt - p)) kts) post Hp) as [Hbs HA0].
    rewrite Hbs. set (A0 := pre ++ [LOOKUPSWITCH] ++ zeros (pad p)) in *. rewrite <- HA0.
    rewrite <- !app_assoc.
    rewrite s32_behind by exact Ha.
    rewrite (app_assoc A0 (be32 (td - p))).
    replace (zlen A0 + 4) with (zlen (A0 ++ be32 (td - p))) by (rewrite zlen_app; reflexivity).
    assert (Hf : fits32 (zlen ps) = true).
    { unfold fits32. pose proof (zlen_nonneg ps). apply andb_true_iff. split; apply Z.leb_le; lia. }
    rewrite s32_behind by exact Hf.
    rewrite (app_assoc (A0 ++ be32 (td - p)) (be32 (zlen ps))).
    replace (zlen A0 + 8) with (zlen ((A0 ++ be32 (td - p)) ++ be32 (zlen ps))) by (rewrite !zlen_app; cbn [zlen length Z.of_nat be32]; lia).
    replace (Z.to_nat (zlen ps)) with (length kts).
    2:{ rewrite (mapO_length _ _ _ Em). unfold zlen. rewrite Nat2Z.id. reflexivity. }
    rewrite dec_pairs_flat by (eapply forallb_fits_pairs; eassumption).
    f_equal. lia.
Qed.
