(* C02 — a successful write is an admissible encoding of the body under the layout that the
   chosen forms induce (write_is_encode). *)
From FB Require Import C02.Model C02.Encode C02.Theory1 C02.Theory2.
Local Open Scope Z_scope.

Lemma nodup_app_r {A} (a b : list A) : NoDup (a ++ b) -> NoDup b.
Proof. induction a as [|x a IH]; cbn [app]; [auto|]. intros H. inversion H. auto. Qed.
Lemma nodup_app_l {A} (a b : list A) : NoDup (a ++ b) -> NoDup a.
Proof.
  induction a as [|x a IH]; cbn [app]; [constructor|]. intros H. inversion H as [|? ? Hn Hd]. subst.
  constructor; [|auto]. intros Hin. apply Hn, in_or_app. left. exact Hin.
Qed.
Lemma nodup_app_disj {A} (a b : list A) x : NoDup (a ++ b) -> In x a -> ~ In x b.
Proof.
  induction a as [|y a IH]; cbn [app]; [intros _ []|]. intros H [->|Hin] Hb; inversion H as [|? ? Hn Hd]; subst.
  - apply Hn, in_or_app. right. exact Hb.
  - exact (IH Hd Hin Hb).
Qed.

Definition bind_lab (lb : option label) (p : Z) (labs : labmap) : labmap :=
  match lb with Some l => (l, p) :: labs | None => labs end.

(* the whole fold, symbolically: items, chosen forms, labels *)
Fixpoint items_run (W : list N) (i : N) (p : Z) (labs : labmap) (b : body) : list item :=
  match b with
  | [] => []
  | (lb, e) :: r =>
      let labs' := bind_lab lb p labs in
      let c := is_wide W labs' p i e in
      sym_items labs' c p i e ++ items_run W (N.succ i) (p + esize c p e) labs' r
  end.
Fixpoint chs_run (W : list N) (i : N) (p : Z) (labs : labmap) (b : body) : list bool :=
  match b with
  | [] => []
  | (lb, e) :: r =>
      let labs' := bind_lab lb p labs in
      let c := is_wide W labs' p i e in
      c :: chs_run W (N.succ i) (p + esize c p e) labs' r
  end.
Fixpoint labs_run (W : list N) (i : N) (p : Z) (labs : labmap) (b : body) : labmap :=
  match b with
  | [] => labs
  | (lb, e) :: r =>
      let labs' := bind_lab lb p labs in
      let c := is_wide W labs' p i e in
      labs_run W (N.succ i) (p + esize c p e) labs' r
  end.

Lemma chs_run_length W : forall b i p labs, length (chs_run W i p labs b) = length b.
Proof. induction b as [|[lb e] r IH]; intros; cbn [chs_run length]; [reflexivity|]. rewrite IH. reflexivity. Qed.

Lemma isize_items_run W : forall b i p labs,
  p + isize (items_run W i p labs b) = endpos (chs_run W i p labs b) p b.
Proof.
  induction b as [|[lb e] r IH]; intros i p labs; cbn [items_run chs_run endpos isize]; [lia|].
  rewrite isize_app, isize_sym_items. rewrite <- IH. lia.
Qed.

Lemma with_label_labs le s : s_labs (with_label le s) = bind_lab (fst le) (s_len s) (s_labs s).
Proof. unfold with_label, bind_lab. destruct (fst le); reflexivity. Qed.
Lemma with_label_w le s : s_w (with_label le s) = s_w s.
Proof. unfold with_label. destruct (fst le); reflexivity. Qed.
Lemma with_label_unw le s : s_unw (with_label le s) = s_unw s.
Proof. unfold with_label. destruct (fst le); reflexivity. Qed.

Lemma run_extends W : forall b i s s',
  run W i s b = OK s' ->
  rev (s_w s') = rev (s_w s) ++ render_ph (items_run W i (s_len s) (s_labs s) b) /\
  rev (s_unw s') = rev (s_unw s) ++ pendings (s_len s) (items_run W i (s_len s) (s_labs s) b) /\
  s_len s' = s_len s + isize (items_run W i (s_len s) (s_labs s) b) /\
  s_labs s' = labs_run W i (s_len s) (s_labs s) b.
Proof.
  induction b as [|[lb e] r IH]; intros i s s'; cbn [run items_run labs_run].
  - intros [= <-]. cbn [render_ph pendings isize]. rewrite !app_nil_r. repeat split; lia.
  - destruct (step W s i (lb, e)) as [s1| |] eqn:E; try discriminate. intros Hr.
    apply step_extends in E. cbn [snd] in E. rewrite with_label_labs in E. cbn [fst] in E.
    destruct E as (E1 & E2 & E3 & E4).
    rewrite with_label_w in E1. rewrite with_label_unw in E2. rewrite with_label_len in E2, E3.
    rewrite with_label_labs in E4. cbn [fst] in E4.
    apply IH in Hr. destruct Hr as (R1 & R2 & R3 & R4).
    rewrite isize_sym_items in E3. rewrite E3, E4 in R1, R2, R3, R4.
    rewrite render_ph_app, pendings_app, isize_app, isize_sym_items.
    repeat split.
    + rewrite R1, E1, app_assoc. reflexivity.
    + rewrite R2, E2, app_assoc. reflexivity.
    + lia.
    + exact R4.
Qed.

Definition finish_map (last : option label) (len : Z) (labs : labmap) : labmap :=
  match last with Some l => (l, len mod 65536) :: labs | None => labs end.

Lemma attempt_done W b last w labs :
  attempt W b last = ADone w labs ->
  let its := items_run W 0%N 0 [] b in
  resolve labs its = RDone w /\
  labs = finish_map last (isize its) (labs_run W 0%N 0 [] b) /\
  0 < isize its <= 65535 /\
  run W 0%N init b <> ERR /\ (exists s, run W 0%N init b = OK s).
Proof.
  unfold attempt. destruct (run W 0%N init b) as [s| |] eqn:E; try discriminate.
  pose proof (run_extends _ _ _ _ _ E) as (R1 & R2 & R3 & R4).
  cbn [init s_w s_unw s_len s_labs rev app] in R1, R2, R3, R4.
  unfold frev. rewrite <- !rev_alt. rewrite R1, R2.
  rewrite patch_items0. unfold finish_labels. rewrite R3, R4. cbn [Z.add].
  set (its := items_run W 0%N 0 [] b).
  set (labsF := match last with Some l => _ | None => _ end).
  destruct (resolve labsF its) as [bs|j|] eqn:Er; try discriminate.
  destruct ((isize its =? 0) || (u16max <? isize its)) eqn:Es; [discriminate|].
  intros [= <- <-]. apply orb_false_iff in Es as [Es1 Es2].
  apply Z.eqb_neq in Es1. apply Z.ltb_ge in Es2. unfold u16max in Es2.
  pose proof (isize_nonneg its).
  repeat split; try assumption; try lia; try discriminate.
  exists s. reflexivity.
Qed.

(* ---- labels ---- *)
Definition olist (o : option label) : list label := match o with Some l => [l] | None => [] end.
Definition body_labels (b : body) : list label := flat_map (fun le => olist (fst le)) b.
Definition fresh (labs : labmap) (b : body) : Prop := forall l, In l (body_labels b) -> lget labs l = None.
(* the hypothesis under which reading produces trees: every label on at most one instruction,
   the last label on none *)
Definition unique_labels (b : body) (last : option label) : Prop := NoDup (body_labels b ++ olist last).

Lemma lget_bind_other lb p labs l :
  ~ In l (olist lb) -> lget (bind_lab lb p labs) l = lget labs l.
Proof.
  destruct lb as [k|]; cbn [bind_lab olist lget]; [|reflexivity].
  intros H. destruct (N.eqb_spec k l); [|reflexivity]. exfalso. apply H. left. exact e.
Qed.

Lemma labs_run_mono W : forall b i p labs l t,
  NoDup (body_labels b) -> fresh labs b -> lget labs l = Some t ->
  lget (labs_run W i p labs b) l = Some t.
Proof.
  induction b as [|[lb e] r IH]; intros i p labs l t Hnd Hf Hl; cbn [labs_run]; [exact Hl|].
  cbn [body_labels flat_map fst] in Hnd, Hf. fold (body_labels r) in Hnd, Hf.
  pose proof (nodup_app_r _ _ Hnd) as Hnd2.
  apply IH; [exact Hnd2| |].
  - intros l2 H2. rewrite lget_bind_other.
    + apply Hf. apply in_or_app. right. exact H2.
    + intros H3. destruct lb as [k|]; cbn [olist] in *; [|exact H3].
      destruct H3 as [<-|[]]. inversion Hnd as [|? ? Hn _]. apply Hn, H2.
  - rewrite lget_bind_other; [exact Hl|].
    intros H3. assert (lget labs l = None) by (apply Hf, in_or_app; left; exact H3). congruence.
Qed.

Lemma fresh_tail lb e r p labs :
  NoDup (body_labels ((lb, e) :: r)) -> fresh labs ((lb, e) :: r) -> fresh (bind_lab lb p labs) r.
Proof.
  intros Hnd Hf l2 H2. cbn [body_labels flat_map fst] in Hnd, Hf. fold (body_labels r) in Hnd, Hf.
  rewrite lget_bind_other.
  - apply Hf. apply in_or_app. right. exact H2.
  - intros H3. destruct lb as [k|]; cbn [olist] in *; [|exact H3].
    destruct H3 as [<-|[]]. inversion Hnd as [|? ? Hn _]. apply Hn, H2.
Qed.

(* ---- one entry: resolving its items gives its encoding ---- *)
Definition agree (labs labsF : labmap) : Prop := forall l t, lget labs l = Some t -> lget labsF l = Some t.

Lemma resolve_mkref labs labsF w o i l r x :
  agree labs labsF ->
  resolve labsF (mkref labs w o i l :: r) = RDone x ->
  exists t y, lget labsF l = Some t /\ x = bev w (t - o) ++ y /\ resolve labsF r = RDone y
              /\ (w = false -> lget labs l = None -> fits16 (t - o) = true).
Proof.
  intros Ha. unfold mkref. destruct (lget labs l) as [t|] eqn:E; cbn [resolve].
  - destruct (resolve labsF r) as [y| |] eqn:Er; cbn [rmap]; try discriminate. intros [= <-].
    exists t, y. repeat split; [apply Ha, E|]. intros; discriminate.
  - destruct (lget labsF l) as [t|]; [|discriminate]. destruct w.
    + destruct (resolve labsF r) as [y| |] eqn:Er; cbn [rmap]; try discriminate. intros [= <-].
      exists t, y. repeat split. intros; discriminate.
    + destruct (fits16 (t - o)) eqn:F; [|discriminate].
      destruct (resolve labsF r) as [y| |] eqn:Er; cbn [rmap]; try discriminate. intros [= <-].
      exists t, y. repeat split. intros; exact F.
Qed.

Lemma resolve_lit labsF bs r x :
  resolve labsF (ILit bs :: r) = RDone x -> exists y, x = bs ++ y /\ resolve labsF r = RDone y.
Proof.
  cbn [resolve]. destruct (resolve labsF r) as [y| |]; cbn [rmap]; try discriminate.
  intros [= <-]. exists y. split; reflexivity.
Qed.

Lemma resolve_map_mkref labs labsF p i : forall ts rest x,
  agree labs labsF ->
  resolve labsF (map (mkref labs true p i) ts ++ rest) = RDone x ->
  exists tts y, mapO (lget labsF) ts = Some tts /\ x = flat_map (fun t => be32 (t - p)) tts ++ y
                /\ resolve labsF rest = RDone y.
Proof.
  induction ts as [|t ts IH]; intros rest x Ha; cbn [map app mapO flat_map].
  - intros H. exists [], x. repeat split. exact H.
  - intros H. apply (resolve_mkref _ _ _ _ _ _ _ _ Ha) in H as (tt & y & H1 & -> & H3 & _).
    apply (IH _ _ Ha) in H3 as (tts & y2 & H4 & -> & H6).
    exists (tt :: tts), y2. rewrite H1, H4. cbn [flat_map bev]. rewrite <- app_assoc. repeat split. exact H6.
Qed.

Lemma resolve_flat_mkref labs labsF p i : forall (ps : list (Z * label)) rest x,
  agree labs labsF ->
  resolve labsF (flat_map (fun kp => [ILit (be32 (fst kp)); mkref labs true p i (snd kp)]) ps ++ rest) = RDone x ->
  exists kts y,
    mapO (fun kp => match lget labsF (snd kp) with Some t => Some (fst kp, t) | None => None end) ps = Some kts
    /\ x = flat_map (fun kt => be32 (fst kt) ++ be32 (snd kt - p)) kts ++ y
    /\ resolve labsF rest = RDone y.
Proof.
  induction ps as [|[k l] ps IH]; intros rest x Ha; cbn [flat_map app mapO fst snd].
  - intros H. exists [], x. repeat split. exact H.
  - intros H. apply resolve_lit in H as (y0 & -> & H).
    apply (resolve_mkref _ _ _ _ _ _ _ _ Ha) in H as (tt & y & H1 & -> & H3 & _).
    apply (IH _ _ Ha) in H3 as (kts & y2 & H4 & -> & H6).
    exists ((k, tt) :: kts), y2. rewrite H1, H4. cbn [flat_map bev fst snd]. rewrite <- !app_assoc.
    repeat split. exact H6.
Qed.

Lemma pad_of_zeros p : pad_of (p + 1) = zeros (pad p).
Proof.
  unfold pad_of, pad, zeros.
  pose proof (Z.mod_pos_bound (p + 1) 4 ltac:(lia)) as H1.
  pose proof (Z.mod_pos_bound p 4 ltac:(lia)) as H2.
  pose proof (Z.div_mod (p + 1) 4 ltac:(lia)) as E1.
  pose proof (Z.div_mod p 4 ltac:(lia)) as E2.
  destruct ((p + 1) mod 4) as [|q|q] eqn:E.
  - replace (3 - p mod 4) with 0 by lia. reflexivity.
  - destruct q as [[|[]|]|[|[]|]|].
    all: try lia.
    + replace (3 - p mod 4) with 1 by lia. reflexivity.
    + replace (3 - p mod 4) with 2 by lia. reflexivity.
    + replace (3 - p mod 4) with 3 by lia. reflexivity.
  - lia.
Qed.

Lemma entry_resolve labs labsF c p i e rest x :
  agree labs labsF ->
  resolve labsF (sym_items labs c p i e ++ rest) = RDone x ->
  exists bs y, enc_entry c (lget labsF) p e = Some bs /\ x = bs ++ y /\ resolve labsF rest = RDone y.
Proof.
  intros Ha. destruct e as [bs|[op inv|op wop] l|d low high ts|d ps]; cbn [sym_items enc_entry].
  - cbn [app]. intros H. apply resolve_lit in H as (y & -> & H). exists bs, y. repeat split. exact H.
  - destruct c; cbn [app]; intros H; apply resolve_lit in H as (y0 & -> & H);
      apply (resolve_mkref _ _ _ _ _ _ _ _ Ha) in H as (t & y & H1 & -> & H3 & _); rewrite H1.
    + exists ([inv; 0; 8; GOTO_W]%N ++ be32 (t - (p + 3))), y. cbn [bev]. rewrite <- app_assoc. repeat split. exact H3.
    + exists (op :: be16 (t - p)), y. cbn [bev app]. repeat split. exact H3.
  - destruct c; cbn [app]; intros H; apply resolve_lit in H as (y0 & -> & H);
      apply (resolve_mkref _ _ _ _ _ _ _ _ Ha) in H as (t & y & H1 & -> & H3 & _); rewrite H1.
    + exists (wop :: be32 (t - p)), y. cbn [bev app]. repeat split. exact H3.
    + exists (op :: be16 (t - p)), y. cbn [bev app]. repeat split. exact H3.
  - cbn [app]. intros H. apply resolve_lit in H as (y0 & -> & H).
    apply (resolve_mkref _ _ _ _ _ _ _ _ Ha) in H as (td & y & H1 & -> & H3 & _).
    apply resolve_lit in H3 as (y1 & -> & H3).
    apply (resolve_map_mkref _ _ _ _ _ _ _ Ha) in H3 as (tts & y2 & H4 & -> & H6).
    rewrite H1, H4. eexists. exists y2. split; [reflexivity|]. split; [|exact H6].
    rewrite pad_of_zeros. cbn [bev app]. rewrite <- !app_assoc. reflexivity.
  - cbn [app]. intros H. apply resolve_lit in H as (y0 & -> & H).
    apply (resolve_mkref _ _ _ _ _ _ _ _ Ha) in H as (td & y & H1 & -> & H3 & _).
    apply resolve_lit in H3 as (y1 & -> & H3).
    apply (resolve_flat_mkref _ _ _ _ _ _ _ Ha) in H3 as (kts & y2 & H4 & -> & H6).
    rewrite H1, H4. eexists. exists y2. split; [reflexivity|]. split; [|exact H6].
    rewrite pad_of_zeros. cbn [bev app]. rewrite <- !app_assoc. reflexivity.
Qed.

(* ---- the whole body ---- *)
Lemma encode_run W : forall b i p labs labsF bs,
  NoDup (body_labels b) -> fresh labs b ->
  agree (labs_run W i p labs b) labsF ->
  resolve labsF (items_run W i p labs b) = RDone bs ->
  encode (chs_run W i p labs b) (lget labsF) p b = Some bs.
Proof.
  induction b as [|[lb e] r IH]; intros i p labs labsF bs Hnd Hf Ha; cbn [items_run chs_run encode labs_run] in *.
  - cbn [resolve]. intros [= <-]. reflexivity.
  - intros H.
    assert (Hnd2 : NoDup (body_labels r)).
    { cbn [body_labels flat_map fst] in Hnd. apply nodup_app_r in Hnd. exact Hnd. }
    pose proof (fresh_tail _ _ _ p _ Hnd Hf) as Hf2.
    assert (Ha1 : agree (bind_lab lb p labs) labsF).
    { intros l t Hl. apply Ha. apply labs_run_mono; assumption. }
    apply (entry_resolve _ _ _ _ _ _ _ _ Ha1) in H as (x & y & H1 & -> & H3).
    rewrite H1. rewrite (IH _ _ _ _ _ Hnd2 Hf2 Ha H3). reflexivity.
Qed.

(* ---- label map of the attempt = label positions of the layout ---- *)
Lemma labpos_none_notin chs : forall b p l, ~ In l (body_labels b) -> labpos chs p b None l = None.
Proof.
  intros b; revert chs. induction b as [|[lb e] r IH]; intros chs p l H; destruct chs as [|c cs]; cbn [labpos olabel_is]; try reflexivity.
  cbn [body_labels flat_map fst] in H. fold (body_labels r) in H.
  destruct lb as [k|]; cbn [olabel_is olist] in *.
  - destruct (N.eqb_spec k l) as [->|Hn]; [exfalso; apply H; left; reflexivity|].
    apply IH. intros H2. apply H. right. exact H2.
  - apply IH. exact H.
Qed.

Lemma labpos_last chs : forall b p last l, length chs = length b ->
  labpos chs p b last l = match labpos chs p b None l with
                          | Some t => Some t
                          | None => if olabel_is last l then Some (endpos chs p b) else None
                          end.
Proof.
  intros b; revert chs. induction b as [|[lb e] r IH]; intros chs p last l Hl; destruct chs as [|c cs]; cbn [length] in Hl; try discriminate; cbn [labpos endpos].
  - cbn [olabel_is]. reflexivity.
  - destruct (olabel_is lb l); [reflexivity|]. apply IH. lia.
Qed.

Lemma labs_run_labpos W : forall b i p labs l,
  NoDup (body_labels b) -> fresh labs b ->
  lget (labs_run W i p labs b) l =
  match labpos (chs_run W i p labs b) p b None l with Some t => Some t | None => lget labs l end.
Proof.
  induction b as [|[lb e] r IH]; intros i p labs l Hnd Hf; cbn [labs_run chs_run labpos olabel_is]; [reflexivity|].
  assert (Hnd2 : NoDup (body_labels r)).
  { cbn [body_labels flat_map fst] in Hnd. apply nodup_app_r in Hnd. exact Hnd. }
  pose proof (fresh_tail _ _ _ p _ Hnd Hf) as Hf2.
  rewrite IH by assumption.
  destruct lb as [k|]; cbn [olabel_is bind_lab lget].
  - destruct (N.eqb_spec k l) as [->|Hn].
    + rewrite labpos_none_notin; [reflexivity|].
      cbn [body_labels flat_map fst olist app] in Hnd. inversion Hnd. assumption.
    + reflexivity.
  - reflexivity.
Qed.

Lemma olabel_is_spec o l : olabel_is o l = true <-> o = Some l.
Proof.
  destruct o as [k|]; cbn [olabel_is]; [|split; discriminate].
  rewrite N.eqb_eq. split; [intros ->; reflexivity|intros [= ->]; reflexivity].
Qed.

Lemma final_labels W b last l :
  unique_labels b last ->
  let chs := chs_run W 0%N 0 [] b in
  0 <= endpos chs 0 b <= 65535 ->
  lget (finish_map last (endpos chs 0 b) (labs_run W 0%N 0 [] b)) l = labpos chs 0 b last l.
Proof.
  intros Hu chs Hb. unfold unique_labels in Hu.
  assert (Hnd : NoDup (body_labels b)) by (apply nodup_app_l in Hu; exact Hu).
  assert (Hf : fresh [] b) by (intros k _; reflexivity).
  rewrite labpos_last by (apply chs_run_length).
  pose proof (labs_run_labpos W b 0%N 0 [] l Hnd Hf) as E. cbn [lget] in E. fold chs in E.
  destruct last as [ll|]; cbn [finish_map lget olabel_is].
  - destruct (N.eqb_spec ll l) as [->|Hn].
    + rewrite labpos_none_notin.
      * rewrite Z.mod_small by lia. reflexivity.
      * intros Hin. cbn [olist] in Hu. apply NoDup_remove_2 in Hu. rewrite app_nil_r in Hu. apply Hu, Hin.
    + rewrite E. destruct (labpos chs 0 b None l); reflexivity.
  - rewrite E. destruct (labpos chs 0 b None l); reflexivity.
Qed.

(* ---- encode only looks at the label positions it uses ---- *)
Lemma mapO_ext {A B} (f g : A -> option B) l : (forall x, f x = g x) -> mapO f l = mapO g l.
Proof. intros H. induction l as [|x l IH]; cbn [mapO]; [reflexivity|]. rewrite H, IH. reflexivity. Qed.

Lemma enc_entry_ext c L1 L2 p e : (forall l, L1 l = L2 l) -> enc_entry c L1 p e = enc_entry c L2 p e.
Proof.
  intros H. destruct e as [bs|[op inv|op wop] l|d low high ts|d ps]; cbn [enc_entry]; rewrite ?H; try reflexivity.
  - rewrite (mapO_ext L1 L2 ts H). reflexivity.
  - erewrite (mapO_ext _ _ ps); [reflexivity|]. intros kp. cbn. rewrite H. reflexivity.
Qed.

Lemma encode_ext L1 L2 : (forall l, L1 l = L2 l) -> forall b chs p, encode chs L1 p b = encode chs L2 p b.
Proof.
  intros H. induction b as [|[lb e] r IH]; intros [|c cs] p; cbn [encode]; try reflexivity.
  rewrite (enc_entry_ext c L1 L2 p e H), IH. reflexivity.
Qed.
