(* C02 — expand_encode: the written code array is also the encoding of the expanded body, in which no
   conditional has a long form. *)
From FB Require Import C02.Model C02.Encode C02.Theory1 C02.Theory2 C02.Theory3 C02.Theory4 C02.Expand.
Local Open Scope Z_scope.

(* where the fresh labels of a suffix must point: behind the pair that uses them *)
Fixpoint fresh_pos (chs : list bool) (b : body) (p : Z) (fresh : N) (L' : label -> option Z) : Prop :=
  match b, chs with
  | (lb, Br (KCond op inv) l) :: r, true :: cs => L' fresh = Some (p + 8) /\ fresh_pos cs r (p + 8) (N.succ fresh) L'
  | (lb, e) :: r, c :: cs => fresh_pos cs r (p + esize c p e) fresh L'
  | _, _ => True
  end.

Lemma mapO_agree (L L' : label -> option Z) : forall ts, (forall l, In l ts -> L' l = L l) -> mapO L' ts = mapO L ts.
Proof. induction ts as [|t ts IH]; intros H; cbn [mapO]; [reflexivity|]. rewrite (H t) by (left; reflexivity). rewrite IH; [reflexivity|]. intros l Hl. apply H. right. exact Hl. Qed.
Lemma enc_entry_agree c (L L' : label -> option Z) p e : (forall l, In l (refs_of e) -> L' l = L l) -> enc_entry c L' p e = enc_entry c L p e.
Proof.
  intros H. destruct e as [bs|k l|d low high ts|d ps]; cbn [enc_entry refs_of] in *.
  - reflexivity.
  - destruct k; rewrite (H l) by (left; reflexivity); reflexivity.
  - rewrite (H d) by (left; reflexivity). rewrite (mapO_agree L L' ts) by (intros l Hl; apply H; right; exact Hl). reflexivity.
  - rewrite (H d) by (left; reflexivity).
    replace (mapO (fun kp => match L' (snd kp) with Some t => Some (fst kp, t) | None => None end) ps)
      with (mapO (fun kp => match L (snd kp) with Some t => Some (fst kp, t) | None => None end) ps); [reflexivity|].
    assert (Hp : forall kp, In kp ps -> L' (snd kp) = L (snd kp)) by (intros kp Hk; apply H; right; apply in_map; exact Hk).
    clear H. induction ps as [|kp ps IH]; cbn [mapO]; [reflexivity|]. rewrite (Hp kp) by (left; reflexivity). rewrite IH; [reflexivity|]. intros x Hx. apply Hp. right. exact Hx.
Qed.

Lemma expand_encode : forall b chs p fresh (L L' : label -> option Z) w,
  encode chs L p b = Some w ->
  (forall l, In l (flat_map (fun le => refs_of (snd le)) b) -> L' l = L l) ->
  fresh_pos chs b p fresh L' ->
  encode (snd (expand chs b fresh)) L' p (fst (expand chs b fresh)) = Some w.
Proof.
  induction b as [|[lb e] r IH]; intros chs p fresh L L' w He Hag Hf.
  - destruct chs; cbn [encode expand fst snd] in *; [exact He|discriminate].
  - destruct chs as [|c cs]; [cbn [encode] in He; discriminate|].
    cbn [encode] in He. destruct (enc_entry c L p e) as [x|] eqn:Ex; [|discriminate].
    destruct (encode cs L (p + esize c p e) r) as [rest|] eqn:Er; [|discriminate]. injection He as <-.
    assert (Hagr : forall l, In l (flat_map (fun le => refs_of (snd le)) r) -> L' l = L l).
    { intros l Hl. apply Hag. cbn [flat_map snd]. apply in_or_app. right. exact Hl. }
    assert (Hage : forall l, In l (refs_of e) -> L' l = L l).
    { intros l Hl. apply Hag. cbn [flat_map snd]. apply in_or_app. left. exact Hl. }
    assert (Hother : forall (Hf' : fresh_pos cs r (p + esize c p e) fresh L'),
              encode (snd (let (b', c') := expand cs r fresh in ((lb, e) :: b', c :: c'))) L' p
                     (fst (let (b', c') := expand cs r fresh in ((lb, e) :: b', c :: c'))) = Some (x ++ rest)).
    { intros Hf'. specialize (IH cs (p + esize c p e) fresh L L' rest Er Hagr Hf').
      destruct (expand cs r fresh) as [b' c']. cbn [fst snd encode] in *. rewrite (enc_entry_agree c L L' p e Hage), Ex, IH. reflexivity. }
    destruct e as [bs|[op inv|op wop] l|d low high ts|d ps]; cbn [expand]; try (apply Hother; exact Hf).
    destruct c; [|apply Hother; exact Hf].
    cbn [fresh_pos] in Hf. destruct Hf as [Hfr Hf'].
    cbn [esize] in Er. specialize (IH cs (p + 8) (N.succ fresh) L L' rest Er Hagr Hf').
    destruct (expand cs r (N.succ fresh)) as [b' c']. cbn [fst snd encode enc_entry esize] in *.
    rewrite Hfr. rewrite (Hage l) by (left; reflexivity).
    destruct (L l) as [t|]; [|discriminate]. injection Ex as <-.
    replace (p + 3 + 5 + zlen (@nil N)) with (p + 8) by (unfold zlen; cbn [length]; lia).
    replace (p + 3 + 5) with (p + 8) by lia. rewrite IH.
    replace (p + 8 - p) with 8 by lia. reflexivity.
Qed.

Lemma olabel_is_neq o l : (forall k, o = Some k -> k <> l) -> olabel_is o l = false.
Proof. intros H. destruct o as [k|]; cbn [olabel_is]; [|reflexivity]. apply N.eqb_neq. apply H. reflexivity. Qed.

Definition carried_below (fresh : N) (b : body) : Prop := forall lb e k, In (lb, e) b -> lb = Some k -> (k < fresh)%N.

(* labels of the tree keep their positions *)
Lemma labpos_expand_old : forall b chs p fresh last l,
  (l < fresh)%N ->
  labpos (snd (expand chs b fresh)) p (fst (expand chs b fresh)) last l = labpos chs p b last l.
Proof.
  induction b as [|[lb e] r IH]; intros chs p fresh last l Hl.
  - destruct chs; reflexivity.
  - destruct chs as [|c cs]; [destruct e as [|[]| |]; reflexivity|].
    assert (Hother : labpos (snd (let (b', c') := expand cs r fresh in ((lb, e) :: b', c :: c'))) p
                            (fst (let (b', c') := expand cs r fresh in ((lb, e) :: b', c :: c'))) last l = labpos (c :: cs) p ((lb, e) :: r) last l).
    { specialize (IH cs (p + esize c p e) fresh last l Hl). destruct (expand cs r fresh) as [b' c']. cbn [fst snd labpos] in *. rewrite IH. reflexivity. }
    destruct e as [bs|[op inv|op wop] t|d low high ts|d ps]; cbn [expand]; try exact Hother.
    destruct c; [|exact Hother].
    specialize (IH cs (p + 8) (N.succ fresh) last l ltac:(lia)). destruct (expand cs r (N.succ fresh)) as [b' c'].
    cbn [fst snd labpos esize olabel_is] in *. destruct (olabel_is lb l); [reflexivity|].
    assert (Hne : (fresh =? l)%N = false) by (apply N.eqb_neq; lia). rewrite Hne.
    replace (p + 3 + 5 + zlen (@nil N)) with (p + 8) by (unfold zlen; cbn [length]; lia). exact IH.
Qed.

(* the fresh labels sit behind their pairs *)
Lemma fresh_pos_labpos : forall b chs p fresh last (L' : label -> option Z),
  carried_below fresh b ->
  (forall f, (fresh <= f)%N -> L' f = labpos (snd (expand chs b fresh)) p (fst (expand chs b fresh)) last f) ->
  fresh_pos chs b p fresh L'.
Proof.
  induction b as [|[lb e] r IH]; intros chs p fresh last L' Hc HL; [destruct chs; exact I|].
  destruct chs as [|c cs]; [destruct e as [|[]| |]; exact I|].
  assert (Hcr : forall fr, (fresh <= fr)%N -> carried_below fr r).
  { intros fr Hfr lb0 e0 k Hin Hk. specialize (Hc lb0 e0 k (or_intror Hin) Hk). lia. }
  assert (Hlb : forall f, (fresh <= f)%N -> olabel_is lb f = false).
  { intros f Hf. apply olabel_is_neq. intros k Hk. specialize (Hc lb e k (or_introl eq_refl) Hk). lia. }
  assert (Hother : (forall f, (fresh <= f)%N ->
              L' f = labpos (snd (let (b', c') := expand cs r fresh in ((lb, e) :: b', c :: c'))) p
                            (fst (let (b', c') := expand cs r fresh in ((lb, e) :: b', c :: c'))) last f) ->
            fresh_pos cs r (p + esize c p e) fresh L').
  { intros HL'. apply (IH cs (p + esize c p e) fresh last L' (Hcr fresh ltac:(lia))). intros f Hf. rewrite (HL' f Hf).
    destruct (expand cs r fresh) as [b' c']. cbn [fst snd labpos]. rewrite (Hlb f Hf). reflexivity. }
  destruct e as [bs|[op inv|op wop] t|d low high ts|d ps]; cbn [fresh_pos expand] in *; try (apply Hother; exact HL).
  destruct c; [|apply Hother; exact HL].
  split.
  - rewrite (HL fresh ltac:(lia)). destruct (expand cs r (N.succ fresh)) as [b' c']. cbn [fst snd labpos esize olabel_is].
    rewrite (Hlb fresh ltac:(lia)), N.eqb_refl. f_equal. unfold zlen; cbn [length]; lia.
  - apply (IH cs (p + 8) (N.succ fresh) last L' (Hcr (N.succ fresh) ltac:(lia))). intros f Hf. rewrite (HL f ltac:(lia)).
    destruct (expand cs r (N.succ fresh)) as [b' c']. cbn [fst snd labpos esize olabel_is].
    rewrite (Hlb f ltac:(lia)). assert (Hne : (fresh =? f)%N = false) by (apply N.eqb_neq; lia). rewrite Hne.
    replace (p + 3 + 5 + zlen (@nil N)) with (p + 8) by (unfold zlen; cbn [length]; lia). reflexivity.
Qed.

(* no conditional of the expanded body has a long form *)
Lemma expand_no_wide_cond : forall b chs fresh k lb op inv l,
  nth_error (fst (expand chs b fresh)) k = Some (lb, Br (KCond op inv) l) -> nth_error (snd (expand chs b fresh)) k = Some false.
Proof.
  induction b as [|[lb0 e] r IH]; intros chs fresh k lb op inv l; [intros H; destruct chs; destruct k; discriminate H|].
  destruct chs as [|c cs]; [intros H; destruct e as [|[]| |]; destruct k; discriminate H|].
  assert (Hother : (match e with Br (KCond _ _) _ => c = false | _ => True end) ->
            nth_error (fst (let (b', c') := expand cs r fresh in ((lb0, e) :: b', c :: c'))) k = Some (lb, Br (KCond op inv) l) ->
            nth_error (snd (let (b', c') := expand cs r fresh in ((lb0, e) :: b', c :: c'))) k = Some false).
  { intros Hc. specialize (IH cs fresh). destruct (expand cs r fresh) as [b' c']. cbn [fst snd] in *. destruct k as [|k]; cbn [nth_error].
    - intros [= -> ->]. rewrite Hc. reflexivity.
    - apply IH. }
  destruct e as [bs|[op0 inv0|op0 wop0] t|d low high ts|d ps]; cbn [expand]; try (apply Hother; exact I).
  destruct c; [|apply Hother; reflexivity].
  specialize (IH cs (N.succ fresh)). destruct (expand cs r (N.succ fresh)) as [b' c']. cbn [fst snd] in *.
  destruct k as [|[|[|k]]]; cbn [nth_error]; try discriminate; [intros _; reflexivity|apply IH].
Qed.

Theorem expand_is_encode b last chs fresh w :
  below fresh b last = true ->
  encode chs (labpos chs 0 b last) 0 b = Some w ->
  let b' := fst (expand chs b fresh) in
  let c' := snd (expand chs b fresh) in
  let L' := labpos c' 0 b' last in
  encode c' L' 0 b' = Some w /\
  (forall l, (l < fresh)%N -> L' l = labpos chs 0 b last l) /\
  (forall k lb op inv l, nth_error b' k = Some (lb, Br (KCond op inv) l) -> nth_error c' k = Some false).
Proof.
  intros Hb He b' c' L'. unfold below in Hb. rewrite forallb_forall in Hb.
  assert (Hold : forall l, (l < fresh)%N -> L' l = labpos chs 0 b last l) by (intros l Hl; apply labpos_expand_old, Hl).
  split; [|split; [exact Hold|apply expand_no_wide_cond]].
  apply (expand_encode b chs 0 fresh (labpos chs 0 b last) L' w He).
  - intros l Hl. apply Hold. apply N.ltb_lt, Hb. unfold all_labels. apply in_or_app. left.
    apply in_flat_map in Hl as (le & Hin & Hl). apply in_flat_map. exists le. split; [exact Hin|apply in_or_app; right; exact Hl].
  - apply (fresh_pos_labpos b chs 0 fresh last L'); [|intros f _; reflexivity].
    intros lb e k Hin ->. apply N.ltb_lt, Hb. unfold all_labels. apply in_or_app. left.
    apply in_flat_map. exists (Some k, e). split; [exact Hin|apply in_or_app; left; left; reflexivity].
Qed.

(* for the writer: the code array it emits is the encoding of the expanded body under the forms it chose *)
Theorem write_is_encode_expanded b last w labs W fresh :
  unique_labels b last -> below fresh b last = true ->
  wc_loop (S (length b)) [] b last = Some (OK (w, labs, W)) ->
  let chs := chs_run W 0%N 0 [] b in
  let b' := fst (expand chs b fresh) in
  let c' := snd (expand chs b fresh) in
  let L' := labpos c' 0 b' last in
  encode c' L' 0 b' = Some w /\
  (forall l, (l < fresh)%N -> L' l = lget labs l) /\
  (forall k lb op inv l, nth_error b' k = Some (lb, Br (KCond op inv) l) -> nth_error c' k = Some false).
Proof.
  intros Hu Hb Hw chs b' c' L'.
  pose proof (write_is_encode _ _ _ _ _ Hu Hw) as (_ & Henc & _ & HL & _). fold chs in Henc, HL.
  destruct (expand_is_encode b last chs fresh w Hb Henc) as (H1 & H2 & H3).
  split; [exact H1|split; [|exact H3]]. intros l Hl. rewrite HL. apply H2, Hl.
Qed.

(* non-vacuity: a conditional in its long form, expanded *)
Definition exe_body : body := [(Some 1%N, Br (KCond 153 154) 2%N); (None, Plain [0]%N); (Some 2%N, Plain [177]%N)].
Theorem expand_example :
  below 10%N exe_body None = true /\
  expand [true; false; false] exe_body 10%N =
    ([(Some 1%N, Br (KCond 154 153) 10%N); (None, Br (KJump 167 200) 2%N); (Some 10%N, Plain []); (None, Plain [0]%N); (Some 2%N, Plain [177]%N)],
     [false; true; false; false; false]) /\
  encode [true; false; false] (labpos [true; false; false] 0 exe_body None) 0 exe_body = Some [154; 0; 8; 200; 0; 0; 0; 6; 0; 177]%N /\
  encode [false; true; false; false; false]
    (labpos [false; true; false; false; false] 0 (fst (expand [true; false; false] exe_body 10%N)) None) 0
    (fst (expand [true; false; false] exe_body 10%N)) = Some [154; 0; 8; 200; 0; 0; 0; 6; 0; 177]%N.
Proof. repeat split; vm_compute; reflexivity. Qed.
