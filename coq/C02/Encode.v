(* C02 — the specification side: a general position-dependent encoder of method bodies
   (per instruction a choice narrow/wide; switch padding forced by the position; every offset
   computed from the layout the choices induce), and an independent decoder of branch and
   switch operands that looks only at the bytes.  Executable definitions only. *)
From FB Require Export C02.Model.
Local Open Scope Z_scope.

(* number of padding bytes after a switch opcode at position p *)
Definition pad (p : Z) : Z := 3 - p mod 4.

(* size of an entry at position p under choice [wide] *)
Definition esize (wide : bool) (p : Z) (e : entry) : Z :=
  match e with
  | Plain bs => zlen bs
  | Br (KCond _ _) _ => if wide then 8 else 3
  | Br (KJump _ _) _ => if wide then 5 else 3
  | TSwitch _ _ _ ts => 1 + pad p + 12 + 4 * zlen ts
  | LSwitch _ ps => 1 + pad p + 8 + 8 * zlen ps
  end.

(* layout induced by a list of choices (one per entry) *)
Fixpoint positions (chs : list bool) (p : Z) (b : body) : list Z :=
  match b, chs with
  | (_, e) :: r, c :: cs => p :: positions cs (p + esize c p e) r
  | _, _ => []
  end.
Fixpoint endpos (chs : list bool) (p : Z) (b : body) : Z :=
  match b, chs with
  | (_, e) :: r, c :: cs => endpos cs (p + esize c p e) r
  | _, _ => p
  end.
Definition olabel_is (o : option label) (l : label) : bool :=
  match o with Some k => N.eqb k l | None => false end.
(* position of the entry carrying label l; the last label designates the end of the code *)
Fixpoint labpos (chs : list bool) (p : Z) (b : body) (last : option label) (l : label) : option Z :=
  match b, chs with
  | (lb, e) :: r, c :: cs => if olabel_is lb l then Some p else labpos cs (p + esize c p e) r last l
  | _, _ => if olabel_is last l then Some p else None
  end.

Definition zeros (n : Z) : list N := repeat 0%N (Z.to_nat n).

Fixpoint mapO {A B} (f : A -> option B) (l : list A) : option (list B) :=
  match l with
  | [] => Some []
  | x :: r => match f x, mapO f r with Some y, Some ys => Some (y :: ys) | _, _ => None end
  end.

(* bytes of one entry at position p, label positions given by L *)
Definition enc_entry (wide : bool) (L : label -> option Z) (p : Z) (e : entry) : option (list N) :=
  match e with
  | Plain bs => Some bs
  | Br (KCond op inv) l =>
      match L l with
      | Some t => Some (if wide then [inv; 0; 8; GOTO_W]%N ++ be32 (t - (p + 3)) else op :: be16 (t - p))
      | None => None
      end
  | Br (KJump op wop) l =>
      match L l with
      | Some t => Some (if wide then wop :: be32 (t - p) else op :: be16 (t - p))
      | None => None
      end
  | TSwitch d low high ts =>
      match L d, mapO L ts with
      | Some td, Some tts =>
          Some ([TABLESWITCH] ++ zeros (pad p) ++ be32 (td - p) ++ be32 low ++ be32 high
                ++ flat_map (fun t => be32 (t - p)) tts)
      | _, _ => None
      end
  | LSwitch d ps =>
      match L d, mapO (fun kp => match L (snd kp) with Some t => Some (fst kp, t) | None => None end) ps with
      | Some td, Some kts =>
          Some ([LOOKUPSWITCH] ++ zeros (pad p) ++ be32 (td - p) ++ be32 (zlen ps)
                ++ flat_map (fun kt => be32 (fst kt) ++ be32 (snd kt - p)) kts)
      | _, _ => None
      end
  end.

Fixpoint encode (chs : list bool) (L : label -> option Z) (p : Z) (b : body) : option (list N) :=
  match b, chs with
  | [], [] => Some []
  | (_, e) :: r, c :: cs =>
      match enc_entry c L p e, encode cs L (p + esize c p e) r with
      | Some bs, Some rest => Some (bs ++ rest)
      | _, _ => None
      end
  | _, _ => None
  end.

(* admissibility of a choice: a narrow form is only chosen when the offset fits 16 bits;
   every 32-bit operand fits 32 bits; switches are well formed *)
Definition fits32 (z : Z) : bool := (-2147483648 <=? z) && (z <=? 2147483647).
Definition tgt_ok (f : Z -> bool) (L : label -> option Z) (from : Z) (l : label) : bool :=
  match L l with Some t => f (t - from) | None => false end.
Definition adm_entry (wide : bool) (L : label -> option Z) (p : Z) (e : entry) : bool :=
  match e with
  | Plain _ => negb wide
  | Br (KCond _ _) l => if wide then tgt_ok fits32 L (p + 3) l else tgt_ok fits16 L p l
  | Br (KJump _ _) l => if wide then tgt_ok fits32 L p l else tgt_ok fits16 L p l
  | TSwitch d low high ts =>
      negb wide && tgt_ok fits32 L p d && forallb (tgt_ok fits32 L p) ts
      && (low <=? high) && (zlen ts =? high - low + 1)
  | LSwitch d ps =>
      negb wide && tgt_ok fits32 L p d && forallb (fun kp => tgt_ok fits32 L p (snd kp)) ps
      && keys_sorted ps && (zlen ps <=? i32max)
  end.
Fixpoint admissible (chs : list bool) (L : label -> option Z) (p : Z) (b : body) : bool :=
  match b, chs with
  | [], [] => true
  | (_, e) :: r, c :: cs => adm_entry c L p e && admissible cs L (p + esize c p e) r
  | _, _ => false
  end.

(* ---------------- independent decoder (bytes only) ---------------- *)
Definition nthb (bs : list N) (p : Z) : Z := Z.of_N (nth (Z.to_nat p) bs 0%N).
Definition u16_at (bs : list N) (p : Z) : Z := nthb bs p * 256 + nthb bs (p + 1).
Definition s16_at (bs : list N) (p : Z) : Z := let u := u16_at bs p in if u <? 32768 then u else u - 65536.
Definition u32_at (bs : list N) (p : Z) : Z :=
  nthb bs p * 16777216 + nthb bs (p + 1) * 65536 + nthb bs (p + 2) * 256 + nthb bs (p + 3).
Definition s32_at (bs : list N) (p : Z) : Z := let u := u32_at bs p in if u <? 2147483648 then u else u - 4294967296.

(* JVMS opcode classes (6.5): if<cond> 153..158, if_icmp<cond> 159..164, if_acmp<cond> 165..166,
   goto 167, jsr 168, ifnull 198, ifnonnull 199, goto_w 200, jsr_w 201 *)
Definition is_cond_op (o : Z) : bool := ((153 <=? o) && (o <=? 166)) || (o =? 198) || (o =? 199).
Definition is_jump_op (o : Z) : bool := (o =? 167) || (o =? 168).
Definition is_wjump_op (o : Z) : bool := (o =? 200) || (o =? 201).
(* the opposite condition (JVMS 6.5 if<cond>: eq/ne, lt/ge, gt/le; ifnull/ifnonnull) *)
Definition jvms_opposite (o : Z) : Z :=
  if (o =? 198) then 199 else if (o =? 199) then 198
  else if Z.odd o then o + 1 else o - 1.

Inductive dinsn :=
| DCond (op : Z) (target : Z)      (* conditional jump with 16-bit offset *)
| DJump (op : Z) (target : Z)      (* goto / jsr / goto_w / jsr_w *)
| DTable (default : Z) (low high : Z) (targets : list Z)
| DLookup (default : Z) (pairs : list (Z * Z))
| DOther.

Fixpoint dec_targets (bs : list N) (base at_ : Z) (n : nat) : list Z :=
  match n with O => [] | S n' => (base + s32_at bs at_) :: dec_targets bs base (at_ + 4) n' end.
Fixpoint dec_pairs (bs : list N) (base at_ : Z) (n : nat) : list (Z * Z) :=
  match n with O => [] | S n' => (s32_at bs at_, base + s32_at bs (at_ + 4)) :: dec_pairs bs base (at_ + 8) n' end.

(* decode the instruction at byte position p *)
Definition decode_at (bs : list N) (p : Z) : dinsn :=
  let o := nthb bs p in
  if is_cond_op o then DCond o (p + s16_at bs (p + 1))
  else if is_jump_op o then DJump o (p + s16_at bs (p + 1))
  else if is_wjump_op o then DJump o (p + s32_at bs (p + 1))
  else if o =? 170 then
    let q := p + 1 + pad p in
    let low := s32_at bs (q + 4) in
    let high := s32_at bs (q + 8) in
    DTable (p + s32_at bs q) low high (dec_targets bs p (q + 12) (Z.to_nat (high - low + 1)))
  else if o =? 171 then
    let q := p + 1 + pad p in
    DLookup (p + s32_at bs q) (dec_pairs bs p (q + 8) (Z.to_nat (s32_at bs (q + 4))))
  else DOther.

(* the kinds the writer is called with: a JVMS conditional with its JVMS opposite;
   goto/goto_w; jsr/jsr_w *)
Definition kind_ok (k : kind) : bool :=
  match k with
  | KCond op inv => is_cond_op (Z.of_N op) && (Z.of_N inv =? jvms_opposite (Z.of_N op))
  | KJump op wop => ((op =? 167) && (wop =? 200))%N || ((op =? 168) && (wop =? 201))%N
  end.
Definition entry_ok (e : entry) : bool :=
  match e with
  | Br k _ => kind_ok k
  | Plain bs => forallb (fun x => (x <? 256)%N) bs
  | _ => true
  end.
