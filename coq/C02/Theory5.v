(* C02 — the writer never panics (on bodies whose tableswitch spans fit i32) and fails only
   for a stated cause: malformed switch, unresolved label, empty or too large code. *)
From FB Require Import C02.Model C02.Encode C02.Theory1 C02.Theory2 C02.Theory3 C02.Theory4.
Local Open Scope Z_scope.

(* `high - low + 1` is computed on i32 before the table length is compared *)
Definition switch_span_ok (e : entry) : bool :=
  match e with TSwitch _ low high _ => (high <? low) || (high - low + 1 <=? i32max) | _ => true end.
Definition spans_ok (b : body) : bool := forallb (fun le => switch_span_ok (snd le)) b.

Lemma step_no_panic W s i le : switch_span_ok (snd le) = true -> step W s i le <> PANIC.
Proof.
  intros Hs. unfold step. destruct (u16max <? s_len s); [discriminate|].
  destruct (snd le) as [bs|[op inv|op wop] l|d low high ts|d ps]; cbn [switch_span_ok] in Hs.
  - discriminate.
  - unfold if_helper, plus3. destruct (lget _ l).
    + destruct (fits16 _); [discriminate|]. destruct (u16max <? _); discriminate.
    + destruct (memN i W); [|discriminate]. destruct (u16max <? _); discriminate.
  - unfold goto_helper. destruct (lget _ l).
    + destruct (fits16 _); discriminate.
    + destruct (memN i W); discriminate.
  - destruct (high <? low) eqn:E; [discriminate|]. cbn [orb] in Hs. apply Z.leb_le in Hs.
    destruct (i32max <? high - low + 1) eqn:E2; [apply Z.ltb_lt in E2; lia|].
    destruct (negb _); discriminate.
  - destruct (negb _); [discriminate|]. destruct (i32max <? _); discriminate.
Qed.

Lemma run_no_panic W : forall b i s, spans_ok b = true -> run W i s b <> PANIC.
Proof.
  induction b as [|le r IH]; intros i s H; cbn [run]; [discriminate|].
  cbn [spans_ok forallb] in H. apply andb_true_iff in H as [H1 H2].
  destruct (step W s i le) as [s1| |] eqn:E; [apply IH, H2|discriminate|].
  exfalso. exact (step_no_panic _ _ _ _ H1 E).
Qed.

Lemma attempt_no_panic W b last : spans_ok b = true -> attempt W b last <> APanic.
Proof.
  intros H. unfold attempt. destruct (run W 0%N init b) as [s| |] eqn:E; [|discriminate|].
  - pose proof (run_extends _ _ _ _ _ E) as (R1 & R2 & _ & _).
    cbn [init s_w s_unw s_len s_labs rev app] in R1, R2.
    unfold frev. rewrite <- !rev_alt. rewrite R1, R2, patch_items0.
    destruct (resolve _ _); try discriminate. destruct (_ || _); discriminate.
  - exfalso. exact (run_no_panic _ _ _ _ H E).
Qed.

Lemma wc_loop_no_panic b last : spans_ok b = true -> forall fuel W, wc_loop fuel W b last <> Some PANIC.
Proof.
  intros H. induction fuel as [|f IH]; intros W; cbn [wc_loop]; [discriminate|].
  destruct (attempt W b last) eqn:E; try discriminate; [apply IH|].
  exfalso. exact (attempt_no_panic _ _ _ H E).
Qed.

(* ---- causes of failure ---- *)
Definition refs_of (e : entry) : list label :=
  match e with
  | Plain _ => []
  | Br _ l => [l]
  | TSwitch d _ _ ts => d :: ts
  | LSwitch d ps => d :: map snd ps
  end.
Definition refs (b : body) : list label := flat_map (fun le => refs_of (snd le)) b.

Definition cause (W : list N) (b : body) (last : option label) : Prop :=
  let chs := chs_run W 0%N 0 [] b in
  (exists le, In le b /\ ~ entry_wf (snd le))                       (* malformed switch *)
  \/ (exists l, In l (refs b) /\ labpos chs 0 b last l = None)      (* label on no instruction *)
  \/ endpos chs 0 b = 0                                             (* no code *)
  \/ endpos chs 0 b > 65535.                                        (* code too large *)

Lemma step_err_cause W s i lb e :
  step W s i (lb, e) = ERR -> 0 <= s_len s ->
  ~ entry_wf e \/
  s_len s + esize (is_wide W (bind_lab lb (s_len s) (s_labs s)) (s_len s) i e) (s_len s) e > 65535.
Proof.
  unfold step. cbn [fst snd]. intros H Hp.
  destruct (u16max <? s_len s) eqn:E0.
  { apply Z.ltb_lt in E0. unfold u16max in E0. right.
    pose proof (esize_nonneg (is_wide W (bind_lab lb (s_len s) (s_labs s)) (s_len s) i e) (s_len s) e). lia. }
  replace (s_labs match lb with Some l => add_lab l (s_len s) s | None => s end)
    with (bind_lab lb (s_len s) (s_labs s)) in * by (destruct lb; reflexivity).
  set (labs := bind_lab lb (s_len s) (s_labs s)) in *.
  assert (Hl : forall l, lget (s_labs match lb with Some l0 => add_lab l0 (s_len s) s | None => s end) l = lget labs l)
    by (intros l; destruct lb; reflexivity).
  destruct e as [bs|[op inv|op wop] l|d low high ts|d ps]; cbn [is_wide esize entry_wf].
  - discriminate.
  - unfold if_helper, plus3 in H. rewrite Hl in H. destruct (lget labs l) as [t|].
    + destruct (fits16 (t - s_len s)); [discriminate|]. cbn [negb].
      destruct (u16max <? s_len s + 3) eqn:E1; [|discriminate]. apply Z.ltb_lt in E1. unfold u16max in E1. right. lia.
    + destruct (memN i W); [|discriminate].
      destruct (u16max <? s_len s + 3) eqn:E1; [|discriminate]. apply Z.ltb_lt in E1. unfold u16max in E1. right. lia.
  - unfold goto_helper in H. rewrite Hl in H. destruct (lget labs l).
    + destruct (fits16 _); discriminate.
    + destruct (memN i W); discriminate.
  - left. intros [W1 W2]. destruct (high <? low) eqn:E1; [apply Z.ltb_lt in E1; lia|].
    destruct (i32max <? _); [discriminate|].
    destruct (zlen ts =? high - low + 1) eqn:E3; cbn [negb] in H; [discriminate|]. apply Z.eqb_neq in E3. lia.
  - left. intros [W1 W2]. rewrite W1 in H. cbn [negb] in H.
    destruct (i32max <? zlen ps) eqn:E2; [|discriminate]. apply Z.ltb_lt in E2. lia.
Qed.

Lemma run_err_cause W : forall b i s,
  run W i s b = ERR -> 0 <= s_len s ->
  (exists le, In le b /\ ~ entry_wf (snd le)) \/
  endpos (chs_run W i (s_len s) (s_labs s) b) (s_len s) b > 65535.
Proof.
  induction b as [|[lb e] r IH]; intros i s; cbn [run chs_run endpos]; [discriminate|].
  destruct (step W s i (lb, e)) as [s1| |] eqn:E; try discriminate.
  - intros Hr Hp.
    pose proof (step_extends _ _ _ _ _ E) as (_ & _ & E3 & E4).
    rewrite with_label_labs in E3, E4. cbn [fst snd] in E3, E4. rewrite with_label_len in E3.
    rewrite isize_sym_items in E3.
    assert (Hp1 : 0 <= s_len s1).
    { rewrite E3. pose proof (esize_nonneg (is_wide W (bind_lab lb (s_len s) (s_labs s)) (s_len s) i e) (s_len s) e). lia. }
    destruct (IH _ _ Hr Hp1) as [(le & Hin & Hw)|Hbig].
    + left. exists le. split; [right; exact Hin|exact Hw].
    + right. rewrite E3, E4 in Hbig. exact Hbig.
  - intros _ Hp. destruct (step_err_cause _ _ _ _ _ E Hp) as [Hw|Hbig].
    + left. exists (lb, e). split; [left; reflexivity|exact Hw].
    + right. pose proof (endpos_ge r (chs_run W (N.succ i)
          (s_len s + esize (is_wide W (bind_lab lb (s_len s) (s_labs s)) (s_len s) i e) (s_len s) e)
          (bind_lab lb (s_len s) (s_labs s)) r)
          (s_len s + esize (is_wide W (bind_lab lb (s_len s) (s_labs s)) (s_len s) i e) (s_len s) e)). lia.
Qed.

Lemma resolve_err labs : forall its, resolve labs its = RErr ->
  exists w o i l, In (IRef w o i l) its /\ lget labs l = None.
Proof.
  induction its as [|[bs|w o i l] its IH]; cbn [resolve]; [discriminate| |].
  - destruct (resolve labs its); cbn [rmap]; try discriminate. intros _.
    destruct (IH eq_refl) as (w & o & i & l & Hin & Hl). exists w, o, i, l. split; [right; exact Hin|exact Hl].
  - destruct (lget labs l) as [t|] eqn:E.
    + intros H. assert (Hr : resolve labs its = RErr).
      { destruct w; [|destruct (fits16 _); [|discriminate]]; destruct (resolve labs its); cbn [rmap] in H; congruence. }
      destruct (IH Hr) as (w' & o' & i' & l' & Hin & Hl). exists w', o', i', l'. split; [right; exact Hin|exact Hl].
    + intros _. exists w, o, i, l. split; [left; reflexivity|exact E].
Qed.

Lemma mkref_ref labs w o i l w' o' i' l' : mkref labs w o i l = IRef w' o' i' l' -> l' = l.
Proof. unfold mkref. destruct (lget labs l); [discriminate|]. intros [= _ _ _ ->]. reflexivity. Qed.

Lemma sym_items_refs labs c p i e w o j l : In (IRef w o j l) (sym_items labs c p i e) -> In l (refs_of e).
Proof.
  destruct e as [bs|[op inv|op wop] l0|d low high ts|d ps]; cbn [sym_items refs_of].
  - intros [H|[]]. discriminate.
  - destruct c; intros [H|[H|[]]]; try discriminate; left; symmetry; eapply mkref_ref; exact H.
  - destruct c; intros [H|[H|[]]]; try discriminate; left; symmetry; eapply mkref_ref; exact H.
  - intros [H|[H|[H|H]]]; try discriminate.
    + left. symmetry. eapply mkref_ref. exact H.
    + right. apply in_map_iff in H as (t & H & Hin). apply mkref_ref in H. subst. exact Hin.
  - intros [H|[H|[H|H]]]; try discriminate.
    + left. symmetry. eapply mkref_ref. exact H.
    + right. apply in_flat_map in H as (kp & Hin & [H|[H|[]]]); [discriminate|].
      apply mkref_ref in H. subst. apply in_map. exact Hin.
Qed.

Lemma items_run_refs W : forall b i p labs w o j l,
  In (IRef w o j l) (items_run W i p labs b) -> In l (refs b).
Proof.
  induction b as [|[lb e] r IH]; intros i p labs w o j l; cbn [items_run refs flat_map snd]; [intros []|].
  intros H. apply in_app_or in H as [H|H]; apply in_or_app.
  - left. eapply sym_items_refs. exact H.
  - right. eapply IH. exact H.
Qed.

Theorem attempt_err_cause W b last :
  unique_labels b last -> attempt W b last = AErr -> cause W b last.
Proof.
  intros Hu. unfold attempt, cause.
  pose proof (isize_items_run W b 0%N 0 []) as Hend. rewrite Z.add_0_l in Hend.
  destruct (run W 0%N init b) as [s| |] eqn:E; try discriminate.
  - pose proof (run_extends _ _ _ _ _ E) as (R1 & R2 & R3 & R4).
    cbn [init s_w s_unw s_len s_labs rev app] in R1, R2, R3, R4.
    unfold frev. rewrite <- !rev_alt. rewrite R1, R2, patch_items0.
    unfold finish_labels. rewrite R3, R4, Z.add_0_l, Hend.
    destruct (Z_gt_le_dec (endpos (chs_run W 0%N 0 [] b) 0 b) 65535) as [Hbig|Hsm]; [intros _; right; right; right; exact Hbig|].
    destruct (resolve _ _) as [bs|j|] eqn:Er; try discriminate.
    + destruct (_ =? 0) eqn:E0; cbn [orb].
      * intros _. right. right. left. apply Z.eqb_eq in E0. exact E0.
      * destruct (u16max <? _) eqn:E1; [|discriminate]. apply Z.ltb_lt in E1. unfold u16max in E1. lia.
    + intros _. right. left.
      apply resolve_err in Er as (w & o & i & l & Hin & Hl).
      exists l. split; [eapply items_run_refs; exact Hin|].
      pose proof (endpos_ge b (chs_run W 0%N 0 [] b) 0) as Hge.
      rewrite <- (final_labels W b last l Hu); [exact Hl|lia].
  - intros _. destruct (run_err_cause _ _ _ _ E ltac:(cbn; lia)) as [H|H].
    + left. exact H.
    + right. right. right. exact H.
Qed.

(* a successful attempt has no cause of failure *)
Lemma admissible_wf L : forall b chs p le, admissible chs L p b = true -> In le b -> entry_wf (snd le).
Proof.
  induction b as [|[lb e] r IH]; intros [|c cs] p le; cbn [admissible]; try discriminate; [intros _ []|].
  intros H [<-|Hin]; apply andb_true_iff in H as [H1 H2]; [|eapply IH; eassumption].
  cbn [snd]. destruct e as [bs|k l|d low high ts|d ps]; cbn [entry_wf adm_entry] in *; try exact I.
  - apply andb_true_iff in H1 as [H1 H4]. apply andb_true_iff in H1 as [H1 H3].
    apply Z.leb_le in H3. apply Z.eqb_eq in H4. split; assumption.
  - apply andb_true_iff in H1 as [H1 H4]. apply andb_true_iff in H1 as [H1 H3].
    apply Z.leb_le in H4. split; assumption.
Qed.

Lemma mapO_some {A B} (f : A -> option B) : forall l r x, mapO f l = Some r -> In x l -> f x <> None.
Proof.
  induction l as [|a l IH]; intros r x; cbn [mapO]; [intros _ []|].
  destruct (f a) eqn:E; [|discriminate]. destruct (mapO f l) eqn:E2; [|discriminate].
  intros _ [<-|Hin]; [congruence|eapply IH; [reflexivity|exact Hin]].
Qed.

Lemma encode_refs L : forall b chs p w l, encode chs L p b = Some w -> In l (refs b) -> L l <> None.
Proof.
  induction b as [|[lb e] r IH]; intros [|c cs] p w l; cbn [encode refs flat_map snd]; try discriminate; [intros _ []|].
  destruct (enc_entry c L p e) as [bs|] eqn:E1; [|discriminate].
  destruct (encode cs L _ r) as [rest|] eqn:E2; [|discriminate].
  intros _ H. apply in_app_or in H as [H|H]; [|eapply IH; eassumption].
  destruct e as [bs0|[op inv|op wop] l0|d low high ts|d ps]; cbn [enc_entry refs_of] in *.
  - destruct H.
  - destruct H as [<-|[]]. destruct (L l0); [discriminate|discriminate].
  - destruct H as [<-|[]]. destruct (L l0); [discriminate|discriminate].
  - destruct (L d) eqn:Ed; [|discriminate]. destruct (mapO L ts) eqn:Em; [|discriminate].
    destruct H as [<-|H]; [congruence|]. eapply mapO_some; eassumption.
  - destruct (L d) eqn:Ed; [|discriminate].
    destruct (mapO _ ps) eqn:Em; [|discriminate].
    destruct H as [<-|H]; [congruence|].
    apply in_map_iff in H as ([k l'] & <- & Hin). cbn [snd].
    pose proof (mapO_some _ _ _ _ Em Hin) as Hn. cbn [snd fst] in Hn. destruct (L l'); [discriminate|congruence].
Qed.

Theorem attempt_done_no_cause W b last w labs :
  unique_labels b last -> attempt W b last = ADone w labs -> ~ cause W b last.
Proof.
  intros Hu Hd. pose proof (attempt_is_encode _ _ _ _ _ Hu Hd) as (_ & He & Ha & _ & _ & Hs).
  unfold cause. intros [(le & Hin & Hw)|[(l & Hin & Hl)|[H0|Hbig]]].
  - apply Hw. eapply admissible_wf; eassumption.
  - exact (encode_refs _ _ _ _ _ _ He Hin Hl).
  - lia.
  - lia.
Qed.

(* ================= write_fails_cleanly ================= *)
Lemma wc_loop_final b last : forall fuel W r,
  wc_loop fuel W b last = Some r ->
  exists W', (exists ext, W' = ext ++ W) /\
    match r with
    | OK (w, labs, W'') => W'' = W' /\ attempt W' b last = ADone w labs
    | ERR => attempt W' b last = AErr
    | PANIC => attempt W' b last = APanic
    end.
Proof.
  induction fuel as [|f IH]; intros W r; cbn [wc_loop]; [discriminate|].
  destruct (attempt W b last) as [w labs|i| |] eqn:E.
  - intros [= <-]. exists W. split; [exists []; reflexivity|split; [reflexivity|exact E]].
  - intros H. apply IH in H as (W' & (ext & ->) & H). exists (ext ++ i :: W). split; [|exact H].
    exists (ext ++ [i]). rewrite <- app_assoc. reflexivity.
  - intros [= <-]. exists W. split; [exists []; reflexivity|exact E].
  - intros [= <-]. exists W. split; [exists []; reflexivity|exact E].
Qed.

Theorem write_fails_cleanly b last :
  unique_labels b last -> spans_ok b = true ->
  match wc_loop (S (length b)) [] b last with
  | Some (OK (w, labs, W)) => ~ cause W b last
  | Some ERR => exists W, attempt W b last = AErr /\ cause W b last
  | Some PANIC => False
  | None => False
  end.
Proof.
  intros Hu Hs. destruct (wc_loop (S (length b)) [] b last) as [[[[w labs] W]| |]|] eqn:E.
  - apply wc_loop_final in E as (W' & _ & -> & Hd). eapply attempt_done_no_cause; eassumption.
  - apply wc_loop_final in E as (W' & _ & He). exists W'. split; [exact He|apply attempt_err_cause; assumption].
  - exact (wc_loop_no_panic _ _ Hs _ _ E).
  - exact (write_terminates _ _ E).
Qed.
