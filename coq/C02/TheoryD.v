(* C02 — the count operand of invokeinterface.  args_size (C02/Class.v) is the model of
   MethodDescriptorSlice::get_arguments_size.  For every method descriptor of the JVMS grammar (the
   grammar model of C18: parse_method s = Ok (ps, rt)) the value computed from the modified-UTF-8 bytes
   of the descriptor is 1 + the number of argument slots: long and double take two, everything else
   (including arrays of long / double) one; more than 255 is an error.  Fuel suffices. *)
From FB Require Import C18.Model C18.Theory.
From FB Require Import C02.Model C02.Class C02.Decode C02.TheoryC2 C02.TheoryC7 C02.TheoryC10.
Local Open Scope Z_scope.
Local Arguments Z.add : simpl never.
Local Arguments N.add : simpl never.
Local Arguments N.eqb : simpl never.
Local Arguments N.ltb : simpl never.
Local Arguments N.leb : simpl never.

(* modified UTF-8 of a string of code points (JVMS 4.4.7): enc_char / mutf8 of C02/Class.v *)

(* argument slots (JVMS 6.5 invokeinterface: count) *)
Definition slot (t : ty) : Z := match t with TD | TJ => 2 | _ => 1 end.
Definition slots (ps : list ty) : Z := fold_right (fun t a => slot t + a) 0 ps.
Definition count_spec (ps : list ty) : res Z := if 255 <? 1 + slots ps then Err else Ok (1 + slots ps).

(* ---- fuel ---- *)
Lemma skip_brackets_len s : (length (skip_brackets s) <= length s)%nat.
Proof. induction s as [|c r IH]; cbn [skip_brackets length]; [lia|]. destruct (c =? 91)%N; cbn [length]; lia. Qed.
Lemma skip_semi_len : forall s r, skip_semi s = Some r -> (length r < length s)%nat.
Proof.
  induction s as [|c s IH]; intros r; cbn [skip_semi length]; [discriminate|].
  destruct (c =? 59)%N; [intros [= <-]; lia|]. intros H. apply IH in H. lia.
Qed.
Lemma next_char_len s r : next_char s = Some r -> (length r < length s)%nat.
Proof.
  destruct s as [|c s]; cbn [next_char]; [discriminate|].
  destruct (c <? 128)%N; [intros [= <-]; cbn [length]; lia|].
  destruct (c <? 224)%N; [intros [= <-]; destruct s; cbn [skipn length]; lia|].
  destruct s as [|c1 [|c2 r']]; try (intros [= <-]; cbn [length]; lia).
  destruct ((c =? 237)%N && (160 <=? c1)%N && (c1 <=? 175)%N); [|intros [= <-]; cbn [length]; lia].
  destruct r' as [|d0 [|d1 [|d2 r'']]]; try (intros [= <-]; cbn [length]; lia).
  destruct ((d0 =? 237)%N && (176 <=? d1)%N); intros [= <-]; cbn [length]; lia.
Qed.

(* every iteration consumes at least one byte: any fuel above the length gives the same answer *)
Theorem args_loop_fuel : forall f1 f2 s z, (length s < f1)%nat -> (length s < f2)%nat -> args_loop f1 s z = args_loop f2 s z.
Proof.
  induction f1 as [|f1 IH]; intros f2 s z H1 H2; [lia|]. destruct f2 as [|f2]; [lia|].
  cbn [args_loop]. destruct s as [|c r]; [reflexivity|]. cbn [length] in H1, H2.
  destruct (c =? 41)%N; [reflexivity|].
  destruct ((c =? 68)%N || (c =? 74)%N).
  { destruct (add_u8 z 2); [|reflexivity]. apply IH; lia. }
  pose proof (skip_brackets_len (c :: r)) as Hb. cbn [length] in Hb.
  destruct (skip_brackets (c :: r)) as [|c1 r1]; [reflexivity|]. cbn [length] in Hb.
  destruct (if (c1 =? 76)%N then skip_semi r1 else next_char (c1 :: r1)) as [r2|] eqn:E; [|reflexivity].
  assert (Hr2 : (length r2 < S (length r1))%nat).
  { destruct (c1 =? 76)%N; [apply skip_semi_len in E; lia|apply next_char_len in E; cbn [length] in E; lia]. }
  destruct (add_u8 z 1); [|reflexivity]. apply IH; lia.
Qed.

(* ---- bytes of the encoding ---- *)
Lemma enc_char_ascii c : (0 < c)%N -> (c < 128)%N -> enc_char c = [c].
Proof.
  intros H0 H1. unfold enc_char. destruct (N.eqb_spec c 0); [lia|]. destruct (N.ltb_spec c 128); [reflexivity|lia].
Qed.
Lemma enc3_high c b : In b (enc3 c) -> (128 <= b)%N.
Proof. unfold enc3. cbn [In]. intros [<-|[<-|[<-|[]]]]; [generalize (c / 4096)%N|generalize ((c / 64) mod 64)%N|generalize (c mod 64)%N]; intros ?x; lia. Qed.
Lemma enc_char_high c b : In b (enc_char c) -> (b < 128)%N -> b = c.
Proof.
  unfold enc_char. destruct (N.eqb_spec c 0).
  { cbn [In]. intros [<-|[<-|[]]]; lia. }
  destruct (N.ltb_spec c 128). { cbn [In]. intros [<-|[]] _. reflexivity. }
  destruct (N.ltb_spec c 2048). { cbn [In]. intros [<-|[<-|[]]]; [generalize (c / 64)%N|generalize (c mod 64)%N]; intros ?x; lia. }
  destruct (N.ltb_spec c 65536). { intros Hin Hb. apply enc3_high in Hin. lia. }
  intros Hin Hb. apply in_app_or in Hin as [Hin|Hin]; apply enc3_high in Hin; lia.
Qed.
Lemma mutf8_app a b : mutf8 (a ++ b) = mutf8 a ++ mutf8 b.
Proof. unfold mutf8. apply flat_map_app. Qed.
Lemma mutf8_cons_ascii c s : (0 < c)%N -> (c < 128)%N -> mutf8 (c :: s) = c :: mutf8 s.
Proof. intros H0 H1. unfold mutf8. cbn [flat_map]. rewrite (enc_char_ascii c H0 H1). reflexivity. Qed.
Lemma mutf8_no_low b s : (b < 128)%N -> ~ In b s -> ~ In b (mutf8 s).
Proof.
  intros Hb Hn Hin. unfold mutf8 in Hin. apply in_flat_map in Hin as (c & Hc & Hbc).
  apply (enc_char_high c b Hbc) in Hb. subst c. exact (Hn Hc).
Qed.
Lemma mutf8_repeat_bracket n : mutf8 (repeat cLBRACK n) = repeat 91%N n.
Proof. induction n as [|n IH]; cbn [repeat]; [reflexivity|]. rewrite mutf8_cons_ascii by (unfold cLBRACK; lia). rewrite IH. reflexivity. Qed.

Lemma skip_semi_app n rest : ~ In 59%N n -> skip_semi (n ++ 59%N :: rest) = Some rest.
Proof.
  induction n as [|c n IH]; intros H; cbn [app skip_semi].
  - rewrite N.eqb_refl. reflexivity.
  - destruct (N.eqb_spec c 59) as [->|_]; [exfalso; apply H; left; reflexivity|]. apply IH. intros Hin. apply H. right. exact Hin.
Qed.
Lemma skip_brackets_repeat n s : (match s with c :: _ => (c =? 91)%N = false | [] => True end) -> skip_brackets (repeat 91%N n ++ s) = s.
Proof.
  intros Hs. induction n as [|n IH]; cbn [repeat app skip_brackets].
  - destruct s as [|c r]; cbn [skip_brackets]; [reflexivity|]. rewrite Hs. reflexivity.
  - rewrite N.eqb_refl. exact IH.
Qed.

(* ---- one parameter ---- *)
(* the base type after the array dimensions (or alone, when it is not D / J): one slot *)
Lemma base_step a rest :
  wf_aty a -> exists c1 r1, mutf8 (print_aty a) ++ rest = c1 :: r1 /\ (c1 =? 91)%N = false /\ (c1 =? 41)%N = false /\
    (if (c1 =? 76)%N then skip_semi r1 else next_char (c1 :: r1)) = Some rest /\
    (((c1 =? 68)%N || (c1 =? 74)%N) = match a with AD | AJ => true | _ => false end).
Proof.
  intros Hwf. destruct a as [| | | | | | | |n]; cbn [print_aty];
    try (rewrite mutf8_cons_ascii by (cbv; split; reflexivity || lia || discriminate); cbn [mutf8 flat_map app];
         eexists _, _; split; [reflexivity|]; repeat split; reflexivity).
  cbn [wf_aty] in Hwf. unfold cL. rewrite mutf8_cons_ascii by lia. rewrite mutf8_app.
  unfold cSEMI. rewrite (mutf8_cons_ascii 59 []) by lia. cbn [mutf8 flat_map]. cbn [app]. rewrite <- app_assoc. cbn [app].
  eexists _, _. split; [reflexivity|]. repeat split; try reflexivity.
  change (76 =? 76)%N with true. cbv iota. apply skip_semi_app. apply mutf8_no_low; [lia|]. apply (ClassNameG_no_semi _ Hwf).
Qed.

Lemma ty_step t rest f z :
  wf_ty t ->
  args_loop (S f) (mutf8 (print_ty t) ++ rest) z = match add_u8 z (slot t) with Ok z' => args_loop f rest z' | Err => Err end.
Proof.
  intros Hwf.
  assert (Hbase : forall a, wf_aty a -> match a with AD | AJ => False | _ => True end ->
            args_loop (S f) (mutf8 (print_aty a) ++ rest) z = match add_u8 z 1 with Ok z' => args_loop f rest z' | Err => Err end).
  { intros a Ha Hnd. destruct (base_step a rest Ha) as (c1 & r1 & E & Hb & Hp & Hn & Hdj). rewrite E. cbn [args_loop].
    rewrite Hp. rewrite Hdj. destruct a; try contradiction; cbv iota; cbn [skip_brackets]; rewrite Hb, Hn; reflexivity. }
  destruct t as [| | | | | | | |n|d a]; cbn [slot].
  1,2,4,5,7,8: (match goal with |- context [print_ty ?t] => change (print_ty t) with (print_aty (match t with TB => AB | TC => AC | TF => AF | TI => AI | TS => AS | TZ => AZ | _ => AB end)) end;
                apply Hbase; exact I).
  - (* D *) cbn [print_ty]. unfold cD. rewrite mutf8_cons_ascii by lia. cbn [mutf8 flat_map app args_loop].
    change (68 =? 41)%N with false. change ((68 =? 68)%N || (68 =? 74)%N) with true. cbv iota. reflexivity.
  - (* J *) cbn [print_ty]. unfold cJ. rewrite mutf8_cons_ascii by lia. cbn [mutf8 flat_map app args_loop].
    change (74 =? 41)%N with false. change ((74 =? 68)%N || (74 =? 74)%N) with true. cbv iota. reflexivity.
  - (* object *) change (print_ty (TObj n)) with (print_aty (AObj n)). apply Hbase; [exact Hwf|exact I].
  - (* array *) cbn [wf_ty] in Hwf. destruct Hwf as [Hd Ha]. cbn [print_ty]. rewrite mutf8_app, mutf8_repeat_bracket, <- app_assoc.
    destruct (base_step a rest Ha) as (c1 & r1 & E & Hb & Hp & Hn & _).
    destruct (N.to_nat d) as [|k] eqn:Ek; [lia|]. cbn [repeat app args_loop].
    change (91 =? 41)%N with false. change ((91 =? 68)%N || (91 =? 74)%N) with false. cbv iota.
    change (91%N :: repeat 91%N k ++ mutf8 (print_aty a) ++ rest) with (repeat 91%N (S k) ++ mutf8 (print_aty a) ++ rest).
    rewrite skip_brackets_repeat by (rewrite E; exact Hb). rewrite E, Hn. reflexivity.
Qed.

Lemma add_u8_ok z n z' : add_u8 z n = Ok z' -> z' = z + n /\ z + n <= 255.
Proof. unfold add_u8. destruct (255 <? z + n) eqn:E; [discriminate|]. apply Z.ltb_ge in E. intros [= <-]. split; [reflexivity|exact E]. Qed.
Lemma slot_pos t : 1 <= slot t <= 2. Proof. destruct t; cbn [slot]; lia. Qed.
Lemma slots_nonneg ps : 0 <= slots ps.
Proof. induction ps as [|t ps IH]; cbn [slots fold_right]; [lia|]. fold (slots ps). pose proof (slot_pos t). lia. Qed.
Lemma print_ty_nonempty t : wf_ty t -> (1 <= length (mutf8 (print_ty t)))%nat.
Proof.
  intros Hwf. assert (exists c s, print_ty t = c :: s) as (c & s & ->).
  { destruct t as [| | | | | | | |n|d a]; cbn [print_ty]; try (eexists _, _; reflexivity).
    destruct Hwf as [Hd _]. destruct (N.to_nat d) eqn:E; [lia|]. cbn [repeat app]. eexists _, _; reflexivity. }
  unfold mutf8. cbn [flat_map]. rewrite app_length.
  assert (1 <= length (enc_char c))%nat; [|lia]. unfold enc_char, enc3.
  destruct (c =? 0)%N; [cbn; lia|]. destruct (c <? 128)%N; [cbn; lia|]. destruct (c <? 2048)%N; [cbn; lia|]. destruct (c <? 65536)%N; cbn; lia.
Qed.

(* ---- the parameter list ---- *)
Lemma params_loop : forall ps rest f z,
  Forall wf_ty ps -> (length (mutf8 (concat (map print_ty ps)) ++ 41%N :: rest) < f)%nat -> z <= 255 ->
  args_loop f (mutf8 (concat (map print_ty ps)) ++ 41%N :: rest) z = if 255 <? z + slots ps then Err else Ok (z + slots ps).
Proof.
  induction ps as [|t ps IH]; intros rest f z Hwf Hf Hz.
  - cbn [map concat mutf8 flat_map app slots fold_right] in *. destruct f as [|f]; [lia|]. cbn [args_loop].
    change (41 =? 41)%N with true. cbv iota. rewrite Z.add_0_r.
    destruct (255 <? z) eqn:E; [apply Z.ltb_lt in E; lia|reflexivity].
  - inversion Hwf as [|? ? Ht Hps]; subst. cbn [map concat] in *. rewrite mutf8_app, <- app_assoc in *.
    destruct f as [|f]; [lia|]. rewrite (ty_step t _ f z Ht).
    cbn [slots fold_right]. fold (slots ps). pose proof (slot_pos t) as Hs. pose proof (slots_nonneg ps) as Hn.
    unfold add_u8. destruct (255 <? z + slot t) eqn:E.
    + apply Z.ltb_lt in E. destruct (255 <? z + (slot t + slots ps)) eqn:E2; [reflexivity|apply Z.ltb_ge in E2; lia].
    + apply Z.ltb_ge in E. rewrite IH; [rewrite Z.add_assoc; reflexivity|exact Hps| |exact E].
      rewrite app_length in Hf. pose proof (print_ty_nonempty t Ht). lia.
Qed.

(* ---- the theorem ---- *)
Theorem invokeinterface_count s ps rt :
  parse_method s = Ok (ps, rt) -> args_size (mutf8 s) = count_spec ps.
Proof.
  intros Hp. apply print_parse_method in Hp as [<- [Hwf _]]. cbn [fst snd] in *. unfold print_method. cbn [fst snd].
  unfold cLPAR. rewrite mutf8_cons_ascii by lia. rewrite mutf8_app.
  unfold cRPAR. rewrite (mutf8_cons_ascii 41) by lia. unfold args_size. change (40 =? 40)%N with true. cbv iota.
  rewrite params_loop; [unfold count_spec; reflexivity|exact Hwf|lia|lia].
Qed.

(* what the count can be *)
Theorem args_size_range desc n : args_size desc = Ok n -> 1 <= n <= 255.
Proof.
  unfold args_size. destruct desc as [|c r]; [discriminate|]. destruct (c =? 40)%N; [|discriminate].
  assert (H : forall f s z n, 1 <= z <= 255 -> args_loop f s z = Ok n -> 1 <= n <= 255).
  { induction f as [|f IH]; intros s z m Hz; cbn [args_loop]; [discriminate|]. destruct s as [|c0 r0]; [discriminate|].
    destruct (c0 =? 41)%N; [intros [= <-]; exact Hz|].
    destruct ((c0 =? 68)%N || (c0 =? 74)%N).
    { destruct (add_u8 z 2) as [z'|] eqn:E; [|discriminate]. apply add_u8_ok in E as [-> E]. apply IH. lia. }
    destruct (skip_brackets (c0 :: r0)) as [|c1 r1]; [discriminate|].
    destruct (if (c1 =? 76)%N then skip_semi r1 else next_char (c1 :: r1)) as [r2|]; [|discriminate].
    destruct (add_u8 z 1) as [z'|] eqn:E; [|discriminate]. apply add_u8_ok in E as [-> E]. apply IH. lia. }
  apply H. lia.
Qed.

(* ---- examples: the descriptors of the seed, of the repository's unit test, and the boundary ---- *)
Definition d_arrJ : str := [40; 91; 74; 41; 86]%N.                                   (* ([J)V *)
Definition d_mixed : str := [40; 91; 91; 68; 73; 91; 76; 97; 47; 98; 59; 74; 41; 86]%N.   (* ([[DI[La/b;J)V *)
Definition d_test : str := [40; 73; 68; 76; 106; 47; 84; 59; 41; 76; 106; 47; 79; 59]%N.  (* (IDLj/T;)Lj/O; *)
Definition d_n (n : nat) (c : N) : str := 40%N :: repeat c n ++ [41; 86]%N.
Theorem args_size_examples :
  args_size (mutf8 d_arrJ) = Ok 2 /\ parse_method d_arrJ = Ok ([TArr 1 AJ], None) /\
  args_size (mutf8 d_mixed) = Ok 6 /\
  args_size (mutf8 d_test) = Ok 5 /\ parse_method d_test = Ok ([TI; TD; TObj [106; 47; 84]%N], Some (TObj [106; 47; 79]%N)) /\
  args_size (mutf8 (d_n 254 73%N)) = Ok 255 /\ args_size (mutf8 (d_n 255 73%N)) = Err /\
  args_size (mutf8 (d_n 127 74%N)) = Ok 255 /\ args_size (mutf8 (d_n 128 68%N)) = Err /\
  args_size [40; 41]%N = Ok 1 /\ args_size [] = Err /\ args_size [40; 73]%N = Err /\ args_size [40; 76; 97]%N = Err /\
  (* one char of the JavaStr = one slot: e-acute (2 bytes), a CJK character (3 bytes), a surrogate pair (6 bytes) *)
  args_size [40; 195; 169; 41]%N = Ok 2 /\ args_size [40; 228; 184; 173; 41]%N = Ok 2 /\
  args_size [40; 237; 160; 189; 237; 184; 128; 41]%N = Ok 2.
Proof. vm_compute. repeat split; reflexivity. Qed.

(* ---- in the code array ---- *)
Theorem invokeinterface_written c : ccode_ok c = true ->
  wspec (write_code_attr c) (fun p r => Forall2 (fun i q =>
    match snd i with
    | IIface mr => exists x n, bytes_at (fst (fst (snd r))) q (185%N :: be16 x ++ [byte_of n; 0%N]) /\
                               refers get_imethodref mr p x /\ args_size (mr_desc mr) = Ok n
    | _ => True
    end) (c_insns c) (snd (snd r))).
Proof.
  intros Hok. eapply wspec_weaken; [apply code_operands_resolve, Hok|]. intros p r F.
  eapply Forall2_impl'; [|exact F]. intros i q H. cbv beta in H. destruct (snd i); try exact I. exact H.
Qed.
