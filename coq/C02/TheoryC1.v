(* C02 — whole-class theorems, part 1: byte-level parsers invert the big-endian writers; the
   constant pool the writer emits is parsed back entry by entry, and the decoder's view of the
   pool agrees with the writer's (index -> entry). *)
From FB Require Import C02.Model C02.Encode C02.Theory2 C02.Theory6 C02.Theory8 C02.Frames C02.TheoryF C02.Class C02.Decode.
Local Open Scope Z_scope.
Local Arguments Z.add : simpl never.
Local Arguments Z.sub : simpl never.
Local Arguments Z.mul : simpl never.
Local Arguments Z.opp : simpl never.
Local Arguments Z.div : simpl never.
Local Arguments Z.modulo : simpl never.

(* ---- integers ---- *)
Lemma p_u8_byte z r : 0 <= z <= 255 -> p_u8 (byte_of z :: r) = Some (z, r).
Proof. intros H. apply rd_u8_byte. lia. Qed.
Lemma p_u8_u8 z r : 0 <= z <= 255 -> p_u8 (u8 z ++ r) = Some (z, r).
Proof. intros H. unfold u8. cbn [app]. apply p_u8_byte, H. Qed.
Lemma p_u8_N (t : N) r : p_u8 (t :: r) = Some (Z.of_N t, r).
Proof. reflexivity. Qed.
Lemma p_u16_be16 z r : 0 <= z <= 65535 -> p_u16 (be16 z ++ r) = Some (z, r).
Proof. apply rd_u16_be16. Qed.

Lemma be32_mod z :
  ((z / 16777216) mod 256) * 16777216 + ((z / 65536) mod 256) * 65536 + ((z / 256) mod 256) * 256 + z mod 256 = z mod 4294967296.
Proof.
  assert (D2 : z / 65536 = z / 256 / 256) by (rewrite Z.div_div by lia; reflexivity).
  assert (D3 : z / 16777216 = z / 256 / 256 / 256) by (rewrite !Z.div_div by lia; reflexivity).
  assert (D4 : z / 4294967296 = z / 256 / 256 / 256 / 256) by (rewrite !Z.div_div by lia; reflexivity).
  pose proof (Z.div_mod z 256 ltac:(lia)) as E1.
  pose proof (Z.div_mod (z / 256) 256 ltac:(lia)) as E2.
  pose proof (Z.div_mod (z / 256 / 256) 256 ltac:(lia)) as E3.
  pose proof (Z.div_mod (z / 256 / 256 / 256) 256 ltac:(lia)) as E4.
  pose proof (Z.div_mod z 4294967296 ltac:(lia)) as E5.
  pose proof (Z.mod_pos_bound (z / 256 / 256 / 256) 256 ltac:(lia)).
  rewrite D2, D3. rewrite D4 in E5. lia.
Qed.
Lemma p_u32_be32_mod z r : p_u32 (be32 z ++ r) = Some (z mod 4294967296, r).
Proof. unfold be32, p_u32. cbn [app]. rewrite !byte_of_Z. rewrite be32_mod. reflexivity. Qed.
Lemma p_u32_be32 z r : 0 <= z < 4294967296 -> p_u32 (be32 z ++ r) = Some (z, r).
Proof. intros H. rewrite p_u32_be32_mod, Z.mod_small by lia. reflexivity. Qed.
Lemma p_s32_be32 z r : -2147483648 <= z <= 2147483647 -> p_s32 (be32 z ++ r) = Some (z, r).
Proof.
  intros H. unfold p_s32, pbind. rewrite p_u32_be32_mod. unfold pret.
  destruct (Z_lt_le_dec z 0) as [Hn|Hp].
  - replace (z mod 4294967296) with (z + 4294967296).
    + destruct (z + 4294967296 <? 2147483648) eqn:E; [apply Z.ltb_lt in E; lia|]. f_equal. f_equal. lia.
    + apply Z.mod_unique with (q := -1); lia.
  - rewrite Z.mod_small by lia. destruct (z <? 2147483648) eqn:E; [reflexivity|apply Z.ltb_ge in E; lia].
Qed.
Lemma p_u64_be64_mod z r : p_u64 (be64 z ++ r) = Some (z mod 18446744073709551616, r).
Proof.
  unfold p_u64, be64, pbind. rewrite <- app_assoc, p_u32_be32_mod, p_u32_be32_mod. unfold pret. f_equal. f_equal.
  assert (D : z / 18446744073709551616 = z / 4294967296 / 4294967296) by (rewrite Z.div_div by lia; reflexivity).
  pose proof (Z.div_mod z 4294967296 ltac:(lia)) as E1.
  pose proof (Z.div_mod (z / 4294967296) 4294967296 ltac:(lia)) as E2.
  pose proof (Z.div_mod z 18446744073709551616 ltac:(lia)) as E3.
  rewrite D in E3. lia.
Qed.
Lemma p_u64_be64 z r : 0 <= z < 18446744073709551616 -> p_u64 (be64 z ++ r) = Some (z, r).
Proof. intros H. rewrite p_u64_be64_mod, Z.mod_small by lia. reflexivity. Qed.
Lemma p_s64_be64 z r : -9223372036854775808 <= z <= 9223372036854775807 -> p_s64 (be64 z ++ r) = Some (z, r).
Proof.
  intros H. unfold p_s64, pbind. rewrite p_u64_be64_mod. unfold pret.
  destruct (Z_lt_le_dec z 0) as [Hn|Hp].
  - replace (z mod 18446744073709551616) with (z + 18446744073709551616).
    + destruct (z + 18446744073709551616 <? 9223372036854775808) eqn:E; [apply Z.ltb_lt in E; lia|]. f_equal. f_equal. lia.
    + apply Z.mod_unique with (q := -1); lia.
  - rewrite Z.mod_small by lia. destruct (z <? 9223372036854775808) eqn:E; [reflexivity|apply Z.ltb_ge in E; lia].
Qed.

Lemma p_take_app l r : p_take (length l) (l ++ r) = Some (l, r).
Proof. induction l as [|x l IH]; cbn [p_take length app]; [reflexivity|]. rewrite IH. reflexivity. Qed.
Lemma p_take_zlen l r : p_take (Z.to_nat (zlen l)) (l ++ r) = Some (l, r).
Proof. unfold zlen. rewrite Nat2Z.id. apply p_take_app. Qed.

Lemma zlen_be64 z : zlen (be64 z) = 8. Proof. reflexivity. Qed.

Lemma skipn3_be16 (t : N) z (s : list N) : skipn 3 (t :: be16 z ++ s) = s.
Proof. reflexivity. Qed.

Local Opaque be16 be32 be64.

(* ---- pool entries ---- *)
Definition idx_ok (i : Z) : Prop := 0 <= i <= 65535.
Definition centry_ok (c : centry) : Prop :=
  match c with
  | CUtf8 s => zlen s <= 65535
  | CInteger v => -2147483648 <= v <= 2147483647
  | CFloat b => 0 <= b < 4294967296
  | CLong v => -9223372036854775808 <= v <= 9223372036854775807
  | CDouble b => 0 <= b < 18446744073709551616
  | CClass n | CString n | CMethodType n | CModule n | CPackage n => idx_ok n
  | CFieldRef a b | CMethodRef a b | CIMethodRef a b | CNameAndType a b | CDynamic a b | CInvokeDynamic a b => idx_ok a /\ idx_ok b
  | CMethodHandle k r => 0 <= k <= 255 /\ idx_ok r
  end.

(* the same without the bound on the length of a Utf8 (PoolWrite::write checks it at the end) *)
Definition centry_wf (c : centry) : Prop := match c with CUtf8 _ => True | _ => centry_ok c end.

Ltac pstep :=
  repeat first
    [ rewrite p_u8_N
    | rewrite p_u16_be16 by (unfold idx_ok in *; lia)
    | rewrite <- app_assoc
    | progress cbn [app Z.of_N Z.eqb Pos.eqb] ].

Lemma parse_centry_ok c r : centry_ok c -> parse_centry (centry_bytes c ++ r) = Some (c, r).
Proof.
  intros H. unfold parse_centry, pbind.
  destruct c; cbn [centry_bytes centry_ok] in *; rewrite <- ?app_comm_cons, p_u8_N; cbn [Z.of_N Z.eqb Pos.eqb];
    try destruct H as [H1 H2]; unfold idx_ok in *; rewrite <- ?app_assoc.
  - pose proof (zlen_nonneg s). rewrite p_u16_be16 by lia. rewrite p_take_zlen. reflexivity.
  - rewrite p_s32_be32 by lia. reflexivity.
  - rewrite p_u32_be32 by lia. reflexivity.
  - rewrite p_s64_be64 by lia. reflexivity.
  - rewrite p_u64_be64 by lia. reflexivity.
  - rewrite p_u16_be16 by lia. reflexivity.
  - rewrite p_u16_be16 by lia. reflexivity.
  - rewrite !p_u16_be16 by lia. reflexivity.
  - rewrite !p_u16_be16 by lia. reflexivity.
  - rewrite !p_u16_be16 by lia. reflexivity.
  - rewrite !p_u16_be16 by lia. reflexivity.
  - rewrite p_u8_byte by lia. rewrite p_u16_be16 by lia. reflexivity.
  - rewrite p_u16_be16 by lia. reflexivity.
  - rewrite !p_u16_be16 by lia. reflexivity.
  - rewrite !p_u16_be16 by lia. reflexivity.
  - rewrite p_u16_be16 by lia. reflexivity.
  - rewrite p_u16_be16 by lia. reflexivity.
Qed.

(* ---- the whole pool ---- *)
(* every entry of the writer's pool was made from an entry description that can be written *)
Definition made (e : pentry) : Prop := exists c, e = mk c /\ centry_wf c.
Definition cslots (es : list centry) (i : Z) : cpool :=
  (fix go (es : list centry) (i : Z) : cpool :=
     match es with [] => [] | e :: r => (i, e) :: go r (i + (if centry_two e then 2 else 1)) end) es i.
Fixpoint ctotal (es : list centry) : Z := match es with [] => 0 | e :: r => (if centry_two e then 2 else 1) + ctotal r end.
Lemma ctotal_nonneg es : 0 <= ctotal es.
Proof. induction es as [|e r IH]; cbn [ctotal]; [lia|]. destruct (centry_two e); lia. Qed.

Lemma parse_entries_ok : forall es fuel idx rest,
  Forall centry_ok es -> (length es <= fuel)%nat ->
  parse_entries fuel idx (idx + ctotal es) (flat_map centry_bytes es ++ rest) = Some (cslots es idx, rest).
Proof.
  induction es as [|e es IH]; intros fuel idx rest Hok Hf; cbn [ctotal flat_map cslots app].
  - rewrite Z.add_0_r. destruct fuel; cbn [parse_entries]; rewrite Z.leb_refl, Z.eqb_refl; reflexivity.
  - inversion Hok as [|? ? He Hes]; subst. destruct fuel as [|f]; cbn [length] in Hf; [lia|].
    cbn [parse_entries]. pose proof (ctotal_nonneg es).
    assert (Hlt : idx + ((if centry_two e then 2 else 1) + ctotal es) <=? idx = false) by (apply Z.leb_gt; destruct (centry_two e); lia).
    rewrite Hlt. rewrite <- app_assoc, (parse_centry_ok e _ He).
    replace (idx + ((if centry_two e then 2 else 1) + ctotal es)) with (idx + (if centry_two e then 2 else 1) + ctotal es) by lia.
    rewrite IH by (auto; lia). reflexivity.
Qed.

Lemma cp_get_cslots : forall es i k, cp_get (cslots es i) k = option_map snd (find (fun ie => fst ie =? k) (cslots es i)).
Proof.
  induction es as [|e es IH]; intros i k; cbn [cslots cp_get find fst snd]; [reflexivity|].
  destruct (i =? k); [reflexivity|]. apply IH.
Qed.

Lemma slots_of_mk : forall es i, slots_of (map mk es) i = map (fun ie => (fst ie, mk (snd ie))) (cslots es i).
Proof.
  induction es as [|e es IH]; intros i; cbn [map slots_of cslots fst snd]; [reflexivity|].
  f_equal. cbn [mk pe_two]. apply IH.
Qed.
Lemma find_map_mk k : forall (l : cpool),
  find (fun ie : Z * pentry => fst ie =? k) (map (fun ie => (fst ie, mk (snd ie))) l)
  = option_map (fun ie => (fst ie, mk (snd ie))) (find (fun ie => fst ie =? k) l).
Proof.
  induction l as [|[i e] l IH]; cbn [map find fst snd option_map]; [reflexivity|].
  destruct (i =? k); [reflexivity|]. exact IH.
Qed.

(* injectivity of the entry bytes on writable entries *)
Lemma mk_inj_ok a b : centry_ok a -> centry_ok b -> mk a = mk b -> a = b.
Proof.
  intros Ha Hb H. assert (E : centry_bytes a = centry_bytes b) by (injection H; auto).
  pose proof (parse_centry_ok a [] Ha) as Pa. pose proof (parse_centry_ok b [] Hb) as Pb.
  rewrite E in Pa. rewrite Pa in Pb. congruence.
Qed.
Lemma mk_inj a b : centry_wf a -> centry_wf b -> mk a = mk b -> a = b.
Proof.
  intros Ha Hb H. assert (E : centry_bytes a = centry_bytes b) by (injection H; auto).
  destruct a, b; cbn [centry_bytes] in E; try discriminate E; try (apply (mk_inj_ok _ _ Ha Hb H)).
  apply (f_equal (@skipn N 3)) in E. rewrite !skipn3_be16 in E. subst. reflexivity.
Qed.

Definition agrees (p : pool) (c : cpool) : Prop :=
  forall i e, centry_wf e -> pool_resolve p i = Some (mk e) -> cp_get c i = Some e.

Lemma made_list : forall es, Forall made es -> exists cs, es = map mk cs /\ Forall centry_wf cs.
Proof.
  induction es as [|e es IH]; intros H; [exists []; split; [reflexivity|constructor]|].
  inversion H as [|? ? (c & -> & Hc) Hes]; subst. destruct (IH Hes) as (cs & -> & Hcs).
  exists (c :: cs). split; [reflexivity|constructor; assumption].
Qed.

Lemma total_ctotal cs : total (map mk cs) = ctotal cs.
Proof. induction cs as [|c cs IH]; cbn [map total ctotal]; [reflexivity|]. unfold slot. cbn [mk pe_two]. rewrite IH. reflexivity. Qed.

Lemma not_too_long cs :
  existsb (fun e => match pe_key e with 1%N :: r => 65537 <? zlen r | _ => false end) (map mk cs) = false ->
  Forall centry_wf cs -> Forall centry_ok cs.
Proof.
  induction cs as [|c cs IH]; cbn [map existsb]; intros H Hw; [constructor|].
  apply orb_false_iff in H as [H1 H2]. inversion Hw as [|? ? Hc Hcs]; subst. constructor; [|apply IH; assumption].
  destruct c; try exact Hc. cbn [mk pe_key centry_bytes centry_ok] in *. apply Z.ltb_ge in H1.
  rewrite zlen_app in H1. change (zlen (be16 (zlen s))) with 2 in H1. lia.
Qed.

Lemma pool_bytes_ok p pb :
  PInv p -> Forall made (p_inner p) -> pool_bytes p = Ok pb ->
  exists c, agrees p c /\ forall rest, parse_pool (pb ++ rest) = Some (c, rest).
Proof.
  intros Hinv Hmade. unfold pool_bytes. unfold frev. rewrite <- rev_alt.
  destruct (existsb _ (rev (p_inner p))) eqn:Elong; [discriminate|]. intros [= <-].
  assert (Hm : Forall made (rev (p_inner p))) by (apply Forall_rev, Hmade).
  destruct (made_list _ Hm) as (cs & Ecs & Hwf).
  assert (Hcs : Forall centry_ok cs) by (apply not_too_long; [rewrite <- Ecs; exact Elong|exact Hwf]).
  exists (cslots cs 1). split.
  - intros i e He Hr. unfold pool_resolve in Hr. unfold frev in Hr. rewrite <- rev_alt, Ecs, slots_of_mk, find_map_mk in Hr.
    rewrite cp_get_cslots. destruct (find _ (cslots cs 1)) as [[j x]|] eqn:Ef; cbn [option_map snd fst] in *; [|discriminate].
    assert (Hx : mk x = mk e) by congruence. clear Hr. f_equal. apply mk_inj; [|exact He|exact Hx].
    apply find_some in Ef as [Hin _]. clear -Hin Hwf. revert Hin. generalize 1. induction cs as [|c cs IH]; intros k; cbn [cslots]; [intros []|].
    inversion Hwf; subst. intros [[= _ <-]|Hin]; [assumption|]. eapply IH; eauto.
  - intros rest. unfold parse_pool, pbind.
    pose proof (pool_count p Hinv) as Hc. rewrite Ecs, total_ctotal in Hc. pose proof (ctotal_nonneg cs).
    destruct Hinv as [_ _ _ Hb].
    rewrite <- app_assoc, p_u16_be16 by lia.
    destruct (p_count p <? 1) eqn:E1; [apply Z.ltb_lt in E1; lia|].
    rewrite Ecs, flat_map_concat_map, map_map. rewrite <- flat_map_concat_map.
    replace (flat_map (fun x => pe_key (mk x)) cs) with (flat_map centry_bytes cs) by reflexivity.
    rewrite Hc. apply parse_entries_ok; [exact Hcs|].
    assert (Hl : Z.of_nat (length cs) <= ctotal cs).
    { clear. induction cs as [|c cs IH]; cbn [length ctotal]; [lia|]. destruct (centry_two c); lia. }
    lia.
Qed.
