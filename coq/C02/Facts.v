(* C02 — what a tree says, in the vocabulary of the decoder (C02/Decode.v): the class header, the
   members and, per location, the list of attributes the writer emits for the tree, with every
   reference spelled out.  Positions inside a method are taken from the label map and the
   instruction positions of the write (class_aux); the code array itself is the one the
   layout-level theorems speak about.  Executable definitions only. *)
From FB Require Export C02.Class C02.Decode.
Local Open Scope Z_scope.

Definition omap {A B} (f : A -> B) (o : option A) : option B := match o with Some a => Some (f a) | None => None end.
Definition obind {A B} (o : option A) (f : A -> option B) : option B := match o with Some a => f a | None => None end.

Definition range_of (labs : labmap) (s e : label) : option (Z * Z) :=
  match lget labs s, lget labs e with Some a, Some b => Some (a, b - a) | _, _ => None end.
Definition fa_target (labs : labmap) (t : target label) : option (target Z) :=
  match t with
  | TTypeParameter ty i => Some (TTypeParameter ty i)
  | TSupertype ty i => Some (TSupertype ty i)
  | TTypeParameterBound ty p b => Some (TTypeParameterBound ty p b)
  | TEmpty ty => Some (TEmpty ty)
  | TFormalParameter ty i => Some (TFormalParameter ty i)
  | TThrows ty i => Some (TThrows ty i)
  | TLocalVar ty tb =>
      omap (TLocalVar ty) (mapO (fun e => omap (fun r => (fst r, snd r, snd e)) (range_of labs (fst (fst e)) (snd (fst e)))) tb)
  | TCatch ty i => Some (TCatch ty i)
  | TOffset ty l => omap (TOffset ty) (lget labs l)
  | TTypeArgument ty l i => omap (fun p => TTypeArgument ty p i) (lget labs l)
  end.
Definition fa_type_annotation (labs : labmap) (a : type_annotation label) : option (type_annotation Z) :=
  omap (fun t => {| ta_target := t; ta_path := ta_path a; ta_type := ta_type a; ta_pairs := ta_pairs a |}) (fa_target labs (ta_target a)).
Definition fa_tas (visible : bool) (labs : labmap) (l : list (type_annotation label)) : option (list dattr0) :=
  match l with [] => Some [] | _ => omap (fun x => [ATypeAnnotations visible x]) (mapO (fa_type_annotation labs) l) end.
Definition fa_anns (visible : bool) (l : list annotation) : list dattr0 :=
  match l with [] => [] | _ => [AAnnotations visible l] end.
Definition oapp {A} (a b : option (list A)) : option (list A) :=
  match a, b with Some x, Some y => Some (x ++ y) | _, _ => None end.
Definition fa_annots (labs : labmap) (a : annots) : option (list dattr0) :=
  oapp (Some (fa_anns true (an_vis a) ++ fa_anns false (an_invis a))) (oapp (fa_tas true labs (an_tvis a)) (fa_tas false labs (an_tinvis a))).
Definition fa_unknown (l : list raw_attr) : list dattr0 := map (fun a => AUnknown (fst a) (snd a)) l.
Definition fa_sig (o : option bytes) : list dattr0 := match o with Some s => [ASignature s] | None => [] end.
Definition fa_flag (b : bool) (a : dattr0) : list dattr0 := if b then [a] else [].
Definition leafs (l : list dattr0) : list dattr := map ALeaf l.

Definition fa_field (f : cfield) : option dmember :=
  omap (fun an => {| dm_access := f_access f; dm_name := f_name f; dm_desc := f_desc f;
                     dm_attrs := leafs (fa_flag (f_deprecated f) ADeprecated ++ fa_flag (f_synthetic f) ASynthetic) ++
                                 match f_constant f with Some v => [AConstantValue v] | None => [] end ++
                                 leafs (fa_sig (f_signature f) ++ an ++ fa_unknown (f_unknown f)) |})
       (fa_annots [] (f_annots f)).
Definition fa_record (r : crecord) : option drecord :=
  omap (fun an => {| dr_name := rc_name r; dr_desc := rc_desc r; dr_attrs := fa_sig (rc_signature r) ++ an ++ fa_unknown (rc_unknown r) |})
       (fa_annots [] (rc_annots r)).

Definition fa_vti (labs : labmap) (v : cvti) : option fvti :=
  match v with
  | CVSimple t => Some (FVSimple (Z.of_N t))
  | CVObject n => Some (FVObject n)
  | CVUninit l => omap FVUninit (lget labs l)
  end.
Definition fa_frame (labs : labmap) (f : cframe) : option fframe :=
  match f with
  | CFSame => Some FrSame
  | CFSame1 s => omap FrSame1 (fa_vti labs s)
  | CFChop k => Some (FrChop k)
  | CFAppend ls => omap FrAppend (mapO (fa_vti labs) ls)
  | CFFull ls ss => match mapO (fa_vti labs) ls, mapO (fa_vti labs) ss with Some a, Some b => Some (FrFull a b) | _, _ => None end
  end.
Definition fa_lvs (labs : labmap) (sel : clocalvar -> option bytes) (lvs : list clocalvar) : option (list (Z * Z * bytes * bytes * Z)) :=
  mapO (fun x => x)
    (flat_map (fun v => match sel v with
                        | Some d => [omap (fun r => (fst r, snd r, lv_name v, d, lv_index v)) (range_of labs (lv_start v) (lv_end v))]
                        | None => []
                        end) lvs).
Definition fa_code (c : ccode) (aux : bytes * labmap * list Z) : option dcode :=
  let '(w, labs, pos) := aux in
  match c_max c with
  | None => None
  | Some (ms, ml) =>
      obind (mapO (fun x => match lget labs (x_start x), lget labs (x_end x), lget labs (x_handler x) with
                            | Some a, Some b, Some h => Some (a, b, h, x_catch x)
                            | _, _, _ => None
                            end) (c_exceptions c)) (fun ex =>
      obind (match cframes_at pos (c_insns c) with
             | [] => Some []
             | frs => omap (fun x => [AStackMapTable x])
                        (mapO (fun pf => omap (fun f => (fst pf, f)) (fa_frame labs (snd pf))) frs)
             end) (fun sm =>
      obind (match c_lines c with
             | None => Some []
             | Some l => omap (fun x => [ALineNumberTable x]) (mapO (fun e => omap (fun p => (p, snd e)) (lget labs (fst e))) l)
             end) (fun ln =>
      obind (match c_locals c with
             | None => Some []
             | Some lvs =>
                 oapp (if 0 <? opt_count lv_desc lvs then omap (fun x => [ALocalVariableTable x]) (fa_lvs labs lv_desc lvs) else Some [])
                      (if 0 <? opt_count lv_sig lvs then omap (fun x => [ALocalVariableTypeTable x]) (fa_lvs labs lv_sig lvs) else Some [])
             end) (fun lv =>
      obind (oapp (fa_tas true labs (c_tvis c)) (fa_tas false labs (c_tinvis c))) (fun ta =>
      Some {| dc_max_stack := ms; dc_max_locals := ml; dc_code := w; dc_exceptions := ex;
              dc_attrs := sm ++ ln ++ lv ++ ta ++ fa_unknown (c_unknown c) |})))))
  end.
Definition fa_method (m : cmethod) (aux : code_aux) : option dmember :=
  obind (match md_code m, aux with
         | None, None => Some []
         | Some c, Some a => omap (fun k => [ACode k]) (fa_code c a)
         | _, _ => None
         end) (fun code =>
  omap (fun an => {| dm_access := md_access m; dm_name := md_name m; dm_desc := md_desc m;
                     dm_attrs := leafs (fa_flag (md_deprecated m) ADeprecated ++ fa_flag (md_synthetic m) ASynthetic) ++ code ++
                                 match md_exceptions m with Some l => [AExceptions l] | None => [] end ++
                                 leafs (fa_sig (md_signature m) ++ an) ++
                                 match md_default m with Some e => [AAnnotationDefault e] | None => [] end ++
                                 match md_parameters m with Some l => [AMethodParameters l] | None => [] end ++
                                 leafs (fa_unknown (md_unknown m)) |})
       (fa_annots [] (md_annots m))).
Fixpoint mapO2 {A B C} (f : A -> B -> option C) (a : list A) (b : list B) : option (list C) :=
  match a, b with
  | [], [] => Some []
  | x :: a', y :: b' => match f x y, mapO2 f a' b' with Some z, Some zs => Some (z :: zs) | _, _ => None end
  | _, _ => None
  end.
Definition oattrs {A} (o : option A) (f : A -> dattr) : list dattr := match o with Some a => [f a] | None => [] end.

Definition facts_of (t : cclass) (aux : class_aux) : option dclass :=
  obind (mapO fa_field (k_fields t)) (fun fs =>
  obind (mapO2 fa_method (k_methods t) (a_codes aux)) (fun ms =>
  obind (fa_annots [] (k_annots t)) (fun an =>
  obind (mapO fa_record (k_record t)) (fun rc =>
  Some {| d_minor := k_minor t; d_major := k_major t; d_access := k_access t; d_name := k_name t; d_super := k_super t;
          d_interfaces := k_interfaces t; d_fields := fs; d_methods := ms;
          d_attrs :=
            leafs (fa_flag (k_deprecated t) ADeprecated ++ fa_flag (k_synthetic t) ASynthetic) ++
            oattrs (k_inner t) AInnerClasses ++
            oattrs (k_enclosing t) (fun e => AEnclosingMethod (fst e) (snd e)) ++
            leafs (fa_sig (k_signature t)) ++
            oattrs (k_source_file t) ASourceFile ++
            oattrs (k_source_debug t) ASourceDebugExtension ++
            leafs an ++
            oattrs (k_module t) AModule ++
            oattrs (k_module_packages t) AModulePackages ++
            oattrs (k_module_main t) AModuleMainClass ++
            oattrs (k_nest_host t) ANestHost ++
            oattrs (k_nest_members t) ANestMembers ++
            oattrs (k_permitted t) APermittedSubclasses ++
            match rc with [] => [] | _ => [ARecord rc] end ++
            match a_bsm aux with [] => [] | tbl => [ABootstrapMethods tbl] end ++
            leafs (fa_unknown (k_unknown t)) |})))).
