(* C02 — the model of the whole class writer against the tables regenerated from the source
   (translate/c02_sites.py -> C02/Gen.v): the attribute names, their order and framing per writer
   function, the constant-pool tags, the magic number, and the pool puts of the writer functions
   in source order.  A change of the source changes Gen.v and these theorems fail. *)
From FB Require Import C02.Model C02.Encode C02.Class C02.Gen.
Local Open Scope Z_scope.

Definition sites_of {A} (fn : list N) (l : list (list N * A)) : list A := map snd (filter (fun s => str_eqb (fst s) fn) l).
Definition attr_sites_of (fn : list N) : list (list N * N) :=
  map (fun s => (snd (fst s), snd s)) (filter (fun s => str_eqb (fst (fst s)) fn) attr_use_sites).

(* the attribute uses of each writer function as the model has them: name constant, framing
   (0 = wattr_fix, 1 = wattr, 2 = wattr_raw) *)
Definition model_attrs_write : list (list N * N) := [(s_Deprecated, 0%N); (s_Synthetic, 0%N); (s_InnerClasses, 1%N); (s_EnclosingMethod, 0%N); (s_Signature, 0%N); (s_SourceFile, 0%N); (s_SourceDebugExtension, 2%N); (s_RVAnn, 1%N); (s_RIAnn, 1%N); (s_RVTAnn, 1%N); (s_RITAnn, 1%N); (s_Module, 1%N); (s_ModulePackages, 1%N); (s_ModuleMainClass, 0%N); (s_NestHost, 0%N); (s_NestMembers, 1%N); (s_PermittedSubclasses, 1%N); (s_Record, 1%N); (s_BootstrapMethods, 1%N)].
Definition model_attrs_write_field : list (list N * N) := [(s_Deprecated, 0%N); (s_Synthetic, 0%N); (s_ConstantValue, 0%N); (s_Signature, 0%N); (s_RVAnn, 1%N); (s_RIAnn, 1%N); (s_RVTAnn, 1%N); (s_RITAnn, 1%N)].
Definition model_attrs_write_method : list (list N * N) := [(s_Deprecated, 0%N); (s_Synthetic, 0%N); (s_Code, 1%N); (s_Exceptions, 1%N); (s_Signature, 0%N); (s_RVAnn, 1%N); (s_RIAnn, 1%N); (s_RVTAnn, 1%N); (s_RITAnn, 1%N); (s_AnnotationDefault, 1%N); (s_MethodParameters, 1%N)].
Definition model_attrs_write_code : list (list N * N) := [(s_StackMapTable, 1%N); (s_LineNumberTable, 1%N); (s_LocalVariableTable, 1%N); (s_LocalVariableTypeTable, 1%N); (s_RVTAnn, 1%N); (s_RITAnn, 1%N)].
Definition model_attrs_write_record_component : list (list N * N) := [(s_Signature, 0%N); (s_RVAnn, 1%N); (s_RIAnn, 1%N); (s_RVTAnn, 1%N); (s_RITAnn, 1%N)].

Theorem attr_sites_match :
  attr_sites_of [119;114;105;116;101]%N = model_attrs_write /\
  attr_sites_of [119;114;105;116;101;95;102;105;101;108;100]%N = model_attrs_write_field /\
  attr_sites_of [119;114;105;116;101;95;109;101;116;104;111;100]%N = model_attrs_write_method /\
  attr_sites_of [119;114;105;116;101;95;99;111;100;101]%N = model_attrs_write_code /\
  attr_sites_of [119;114;105;116;101;95;114;101;99;111;114;100;95;99;111;109;112;111;110;101;110;116]%N = model_attrs_write_record_component.
Proof. repeat split; reflexivity. Qed.

(* every attribute use of the source is in one of these five functions *)
Theorem attr_sites_covered :
  length attr_use_sites = (length model_attrs_write + length model_attrs_write_field + length model_attrs_write_method + length model_attrs_write_code + length model_attrs_write_record_component)%nat.
Proof. reflexivity. Qed.

(* constant-pool tags and the magic number *)
Theorem pool_tags_match :
  map (fun c => hd 0%N (centry_bytes c))
    [CUtf8 []; CInteger 0; CFloat 0; CLong 0; CDouble 0; CClass 0; CString 0; CFieldRef 0 0; CMethodRef 0 0; CIMethodRef 0 0;
     CNameAndType 0 0; CMethodHandle 0 0; CMethodType 0; CDynamic 0 0; CInvokeDynamic 0 0; CModule 0; CPackage 0] = src_pool_tags
  /\ MAGIC = be32 src_MAGIC.
Proof. split; reflexivity. Qed.

(* the pool puts of the writer functions, in source order, as the model performs them *)
Definition n_put_boolean_as_integer : list N := [112;117;116;95;98;111;111;108;101;97;110;95;97;115;95;105;110;116;101;103;101;114]%N.
Definition n_put_byte_as_integer : list N := [112;117;116;95;98;121;116;101;95;97;115;95;105;110;116;101;103;101;114]%N.
Definition n_put_char_as_integer : list N := [112;117;116;95;99;104;97;114;95;97;115;95;105;110;116;101;103;101;114]%N.
Definition n_put_class : list N := [112;117;116;95;99;108;97;115;115]%N.
Definition n_put_constant_value : list N := [112;117;116;95;99;111;110;115;116;97;110;116;95;118;97;108;117;101]%N.
Definition n_put_double : list N := [112;117;116;95;100;111;117;98;108;101]%N.
Definition n_put_float : list N := [112;117;116;95;102;108;111;97;116]%N.
Definition n_put_integer : list N := [112;117;116;95;105;110;116;101;103;101;114]%N.
Definition n_put_long : list N := [112;117;116;95;108;111;110;103]%N.
Definition n_put_method_handle : list N := [112;117;116;95;109;101;116;104;111;100;95;104;97;110;100;108;101]%N.
Definition n_put_module : list N := [112;117;116;95;109;111;100;117;108;101]%N.
Definition n_put_name_and_type : list N := [112;117;116;95;110;97;109;101;95;97;110;100;95;116;121;112;101]%N.
Definition n_put_optional : list N := [112;117;116;95;111;112;116;105;111;110;97;108]%N.
Definition n_put_package : list N := [112;117;116;95;112;97;99;107;97;103;101]%N.
Definition n_put_short_as_integer : list N := [112;117;116;95;115;104;111;114;116;95;97;115;95;105;110;116;101;103;101;114]%N.
Definition n_put_utf8 : list N := [112;117;116;95;117;116;102;56]%N.
Definition model_puts_write : list (list N) := [n_put_class; n_put_optional; n_put_class; n_put_class; n_put_class; n_put_optional; n_put_class; n_put_optional; n_put_utf8; n_put_class; n_put_optional; n_put_name_and_type; n_put_utf8; n_put_utf8; n_put_utf8; n_put_package; n_put_class; n_put_class; n_put_class; n_put_class; n_put_method_handle; n_put_utf8].
Definition model_puts_write_field : list (list N) := [n_put_utf8; n_put_utf8; n_put_constant_value; n_put_utf8; n_put_utf8].
Definition model_puts_write_method : list (list N) := [n_put_utf8; n_put_utf8; n_put_class; n_put_utf8; n_put_optional; n_put_utf8; n_put_utf8].
Definition model_puts_write_record_component : list (list N) := [n_put_utf8; n_put_utf8; n_put_utf8; n_put_utf8].
Definition model_puts_write_module : list (list N) := [n_put_module; n_put_optional; n_put_utf8; n_put_module; n_put_optional; n_put_utf8; n_put_package; n_put_module; n_put_package; n_put_module; n_put_class; n_put_class; n_put_class].
Definition model_puts_write_element_value_unnamed : list (list N) := [n_put_byte_as_integer; n_put_char_as_integer; n_put_double; n_put_float; n_put_integer; n_put_long; n_put_short_as_integer; n_put_boolean_as_integer; n_put_utf8; n_put_utf8; n_put_utf8; n_put_utf8; n_put_utf8].
Definition model_puts_write_verification_type_info : list (list N) := [n_put_class].
Definition model_puts_write_attribute : list (list N) := [n_put_utf8].
Definition model_puts_write_attribute_fix_length : list (list N) := [n_put_utf8].
Definition model_puts_write_annotations_attribute : list (list N) := [n_put_utf8].
Definition model_puts_write_element_values_named : list (list N) := [n_put_utf8].
Definition model_puts_write_type_annotations_attribute : list (list N) := [n_put_utf8].
Definition model_puts_write_type_annotations_attribute_code : list (list N) := [n_put_utf8].

Theorem put_sites_match :
  sites_of [119;114;105;116;101]%N put_sites = model_puts_write /\
  sites_of [119;114;105;116;101;95;102;105;101;108;100]%N put_sites = model_puts_write_field /\
  sites_of [119;114;105;116;101;95;109;101;116;104;111;100]%N put_sites = model_puts_write_method /\
  sites_of [119;114;105;116;101;95;114;101;99;111;114;100;95;99;111;109;112;111;110;101;110;116]%N put_sites = model_puts_write_record_component /\
  sites_of [119;114;105;116;101;95;109;111;100;117;108;101]%N put_sites = model_puts_write_module /\
  sites_of [119;114;105;116;101;95;101;108;101;109;101;110;116;95;118;97;108;117;101;95;117;110;110;97;109;101;100]%N put_sites = model_puts_write_element_value_unnamed /\
  sites_of [119;114;105;116;101;95;118;101;114;105;102;105;99;97;116;105;111;110;95;116;121;112;101;95;105;110;102;111]%N put_sites = model_puts_write_verification_type_info /\
  sites_of [119;114;105;116;101;95;97;116;116;114;105;98;117;116;101]%N put_sites = model_puts_write_attribute /\
  sites_of [119;114;105;116;101;95;97;116;116;114;105;98;117;116;101;95;102;105;120;95;108;101;110;103;116;104]%N put_sites = model_puts_write_attribute_fix_length /\
  sites_of [119;114;105;116;101;95;97;110;110;111;116;97;116;105;111;110;115;95;97;116;116;114;105;98;117;116;101]%N put_sites = model_puts_write_annotations_attribute /\
  sites_of [119;114;105;116;101;95;101;108;101;109;101;110;116;95;118;97;108;117;101;115;95;110;97;109;101;100]%N put_sites = model_puts_write_element_values_named /\
  sites_of [119;114;105;116;101;95;116;121;112;101;95;97;110;110;111;116;97;116;105;111;110;115;95;97;116;116;114;105;98;117;116;101]%N put_sites = model_puts_write_type_annotations_attribute /\
  sites_of [119;114;105;116;101;95;116;121;112;101;95;97;110;110;111;116;97;116;105;111;110;115;95;97;116;116;114;105;98;117;116;101;95;99;111;100;101]%N put_sites = model_puts_write_type_annotations_attribute_code.
Proof. repeat split; reflexivity. Qed.
