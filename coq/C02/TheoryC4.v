(* C02 — whole-class theorems, part 4: element values, annotations, type annotations. *)
From FB Require Import C02.Model C02.Encode C02.Theory2 C02.Theory6 C02.Theory8 C02.Frames C02.TheoryF C02.Class C02.Decode C02.Facts
  C02.TheoryC1 C02.TheoryC2 C02.TheoryC3.
Local Open Scope Z_scope.
Local Arguments Z.add : simpl never.
Local Arguments Z.sub : simpl never.
Local Arguments Z.mul : simpl never.
Local Opaque be16 be32 be64.

(* induction over element values (nested in lists) *)
Fixpoint elem_ind2 (P : elem -> Prop)
  (HC : forall t k, P (EConst t k)) (HE : forall a b, P (EEnum a b)) (HK : forall d, P (EClass d))
  (HA : forall ty ps, Forall (fun nv => P (snd nv)) ps -> P (EAnnot ty ps))
  (HR : forall vs, Forall P vs -> P (EArray vs)) (e : elem) : P e :=
  match e with
  | EConst t k => HC t k
  | EEnum a b => HE a b
  | EClass d => HK d
  | EAnnot ty ps =>
      HA ty ps ((fix go (l : list (bytes * elem)) : Forall (fun nv => P (snd nv)) l :=
                   match l with
                   | [] => Forall_nil _
                   | nv :: r => Forall_cons nv (elem_ind2 P HC HE HK HA HR (snd nv)) (go r)
                   end) ps)
  | EArray vs =>
      HR vs ((fix go (l : list elem) : Forall P l :=
                match l with
                | [] => Forall_nil _
                | v :: r => Forall_cons v (elem_ind2 P HC HE HK HA HR v) (go r)
                end) vs)
  end.

Fixpoint elem_ok (e : elem) : bool :=
  match e with
  | EConst t k => econst_ok t k
  | EEnum _ _ | EClass _ => true
  | EAnnot _ ps => (fix go (l : list (bytes * elem)) : bool := match l with [] => true | nv :: r => elem_ok (snd nv) && go r end) ps
  | EArray vs => (fix go (l : list elem) : bool := match l with [] => true | v :: r => elem_ok v && go r end) vs
  end.
Definition pairs_ok (ps : list (bytes * elem)) : bool := forallb (fun nv => elem_ok (snd nv)) ps.
Lemma elem_ok_annot ty ps : elem_ok (EAnnot ty ps) = pairs_ok ps.
Proof. cbn [elem_ok]. unfold pairs_ok. induction ps as [|nv r IH]; cbn [forallb]; [reflexivity|]. rewrite IH. reflexivity. Qed.
Lemma elem_ok_array vs : elem_ok (EArray vs) = forallb elem_ok vs.
Proof. cbn [elem_ok]. induction vs as [|v r IH]; cbn [forallb]; [reflexivity|]. rewrite IH. reflexivity. Qed.

(* the bytes of an element value decode with every fuel that is at least their number *)
Definition elem_dec (e : elem) (p : pool) (bs : bytes) : Prop :=
  (1 <= length bs)%nat /\ forall f, (length bs <= f)%nat -> decodes (parse_elem f) e p bs.
Lemma elem_dec_mono e p p' bs : pool_ext p p' -> elem_dec e p bs -> elem_dec e p' bs.
Proof. intros He [H1 H2]. split; [exact H1|]. intros f Hf. eapply decodes_mono; [exact He|apply H2, Hf]. Qed.

Lemma tag_const (t : Z) :
  (t =? 66) || (t =? 67) || (t =? 68) || (t =? 70) || (t =? 73) || (t =? 74) || (t =? 83) || (t =? 90) || (t =? 115) = true ->
  t = 66 \/ t = 67 \/ t = 68 \/ t = 70 \/ t = 73 \/ t = 74 \/ t = 83 \/ t = 90 \/ t = 115.
Proof. intros H. repeat (apply orb_true_iff in H as [H|H]); apply Z.eqb_eq in H; lia. Qed.
Lemma econst_tag t k : econst_ok t k = true ->
  (Z.of_N t =? 66) || (Z.of_N t =? 67) || (Z.of_N t =? 68) || (Z.of_N t =? 70) || (Z.of_N t =? 73) || (Z.of_N t =? 74)
  || (Z.of_N t =? 83) || (Z.of_N t =? 90) || (Z.of_N t =? 115) = true.
Proof.
  unfold econst_ok. generalize (Z.of_N t). intros z H.
  destruct k; boolsplit; repeat match goal with H : _ || _ = true |- _ => apply orb_true_iff in H as [H|H] end; boolsplit;
    subst z; reflexivity.
Qed.

Lemma concat_length_le {A} (l : list (list A)) x : In x l -> (length x <= length (concat l))%nat.
Proof. induction l as [|y l IH]; [intros []|]. cbn [concat]. rewrite app_length. intros [->|H]; [lia|]. specialize (IH H). lia. Qed.

Lemma Forall2_impl_in {A B} (P Q : A -> B -> Prop) l l' :
  (forall a b, In b l' -> P a b -> Q a b) -> Forall2 P l l' -> Forall2 Q l l'.
Proof.
  intros H F. induction F as [|a b l l' Hab F IH]; constructor.
  - apply H; [left; reflexivity|exact Hab].
  - apply IH. intros x y Hy. apply H. right. exact Hy.
Qed.

Lemma write_elem_spec e : elem_ok e = true -> wspec (write_elem e) (elem_dec e).
Proof.
  induction e as [t k|a b|d|ty ps IH|vs IH] using elem_ind2; intros Hok.
  - (* const *)
    cbn [write_elem elem_ok] in *. eapply wspec_bind; [apply (put_econst_spec t k Hok)|]. intros i p0 Hi.
    apply wspec_ret. intros p He. split; [cbn [length]; lia|]. intros f Hf. destruct f as [|f]; [cbn [length] in Hf; lia|].
    intros p' c rest He' Ha. cbn [parse_elem]. rewrite <- app_comm_cons, pb_u8N. rewrite (econst_tag t k Hok).
    rewrite (pb_idx _ _ k p0 i p' c) by (try apply Hi; eauto with pext). unfold pret. rewrite N2Z.id. reflexivity.
  - (* enum *)
    cbn [write_elem]. eapply wspec_bind; [apply put_utf8_spec|]. intros i p0 Hi.
    eapply wspec_bind; [apply put_utf8_spec|]. intros j p1 Hj.
    apply wspec_ret. intros p He1 He0. split; [cbn [length]; lia|]. intros f Hf. destruct f as [|f]; [cbn [length] in Hf; lia|].
    intros p' c rest He' Ha. cbn [parse_elem]. rewrite <- app_comm_cons, pb_u8N. cbn [Z.of_N Z.eqb Pos.eqb orb].
    rewrite <- app_assoc. rewrite (pb_idx _ _ a p0 i p' c) by (try apply Hi; eauto with pext).
    rewrite (pb_idx _ _ b p1 j p' c) by (try apply Hj; eauto with pext). reflexivity.
  - (* class *)
    cbn [write_elem]. eapply wspec_bind; [apply put_utf8_spec|]. intros i p0 Hi.
    apply wspec_ret. intros p He0. split; [cbn [length]; lia|]. intros f Hf. destruct f as [|f]; [cbn [length] in Hf; lia|].
    intros p' c rest He' Ha. cbn [parse_elem]. rewrite <- app_comm_cons, pb_u8N. cbn [Z.of_N Z.eqb Pos.eqb orb].
    rewrite (pb_idx _ _ d p0 i p' c) by (try apply Hi; eauto with pext). reflexivity.
  - (* annotation *)
    rewrite elem_ok_annot in Hok. cbn [write_elem].
    eapply wspec_bind; [apply put_utf8_spec|]. intros i p0 Hi.
    eapply wspec_bind; [apply w_u16len_spec|]. intros cnt p1 [-> Hn].
    set (go := fix go (l : list (bytes * elem)) : W (list bytes) := match l with [] => ret [] | (n, v) :: r => _ end).
    assert (Hgo : forall l, Forall (fun nv => elem_ok (snd nv) = true -> wspec (write_elem (snd nv)) (elem_dec (snd nv))) l ->
                  pairs_ok l = true ->
                  wspec (go l) (fun p bss => Forall2 (fun nv b =>
                     forall f, (length b <= f)%nat -> decodes (fun c => n <~ p_idx get_utf8 c ;; v <~ parse_elem f c ;; pret (n, v)) nv p b) l bss)).
    { induction l as [|[n v] r IHl]; intros Hall Hl; cbn [go].
      - apply wspec_ret. intros p. constructor.
      - inversion Hall as [|? ? Hv Hr]; subst. cbn [pairs_ok forallb snd] in Hl. apply andb_true_iff in Hl as [Hl1 Hl2].
        eapply wspec_bind; [apply put_utf8_spec|]. intros k q0 Hk.
        eapply wspec_bind; [apply (Hv Hl1)|]. intros b q1 Hb. cbn [snd] in Hb.
        eapply wspec_bind; [apply (IHl Hr Hl2)|]. intros rest q2 Hrest.
        apply wspec_ret. intros q He2 He1 He0. constructor.
        + destruct Hb as [Hb1 Hb2].
          intros f Hf q' c rs He' Ha. rewrite <- app_assoc.
          rewrite (pb_idx _ _ n q0 k q' c) by (try apply Hk; eauto with pext).
          rewrite app_length in Hf. change (length (be16 k)) with 2%nat in Hf.
          rewrite (pb_dec (parse_elem f) _ v q1 b q' c) by (try apply Hb2; try lia; eauto with pext). reflexivity.
        + eapply Forall2_impl'; [|exact Hrest]. intros nv bb H2 f Hf.
          eapply decodes_mono; [|apply H2, Hf]. eauto with pext. }
    eapply wspec_bind; [apply (Hgo ps IH Hok)|]. intros bss p2 Hbss.
    apply wspec_ret. intros p He2 He1 He0. split; [cbn [length]; lia|]. intros f Hf. destruct f as [|f]; [cbn [length] in Hf; lia|].
    intros p' c rest He' Ha. cbn [parse_elem]. rewrite <- app_comm_cons, pb_u8N. cbn [Z.of_N Z.eqb Pos.eqb orb].
    rewrite <- !app_assoc. rewrite (pb_idx _ _ ty p0 i p' c) by (try apply Hi; eauto with pext).
    assert (Hl : decodes (fun c => p_list16 (n <~ p_idx get_utf8 c ;; v <~ parse_elem f c ;; pret (n, v))) ps p2 (be16 (zlen ps) ++ concat bss)).
    { apply decodes_list16; [exact Hn|]. eapply Forall2_impl_in; [|exact Hbss]. intros nv b' Hin H2. apply H2.
      cbn [length] in Hf. rewrite !app_length in Hf. pose proof (concat_length_le _ _ Hin). lia. }
    rewrite app_assoc. rewrite (pb_dec _ _ _ _ _ p' c _ Hl) by eauto with pext. reflexivity.
  - (* array *)
    rewrite elem_ok_array in Hok. cbn [write_elem].
    eapply wspec_bind; [apply w_u16len_spec|]. intros cnt p1 [-> Hn].
    set (go := fix go (l : list elem) : W (list bytes) := match l with [] => ret [] | v :: r => _ end).
    assert (Hgo : forall l, Forall (fun v => elem_ok v = true -> wspec (write_elem v) (elem_dec v)) l ->
                  forallb elem_ok l = true ->
                  wspec (go l) (fun p bss => Forall2 (fun v b => elem_dec v p b) l bss)).
    { induction l as [|v r IHl]; intros Hall Hl; cbn [go].
      - apply wspec_ret. intros p. constructor.
      - inversion Hall as [|? ? Hv Hr]; subst. cbn [forallb] in Hl. apply andb_true_iff in Hl as [Hl1 Hl2].
        eapply wspec_bind; [apply (Hv Hl1)|]. intros b q1 Hb.
        eapply wspec_bind; [apply (IHl Hr Hl2)|]. intros rest q2 Hrest.
        apply wspec_ret. intros q He1 He0. constructor.
        + eapply elem_dec_mono; [|exact Hb]. eauto with pext.
        + eapply Forall2_impl'; [|exact Hrest]. intros nv bb H2. eapply elem_dec_mono; [|exact H2]. eauto with pext. }
    eapply wspec_bind; [apply (Hgo vs IH Hok)|]. intros bss p2 Hbss.
    apply wspec_ret. intros p He1 He0. split; [cbn [length]; lia|]. intros f Hf. destruct f as [|f]; [cbn [length] in Hf; lia|].
    intros p' c rest He' Ha. cbn [parse_elem]. rewrite <- app_comm_cons, pb_u8N. cbn [Z.of_N Z.eqb Pos.eqb orb].
    assert (Hl : decodes (fun c => p_list16 (parse_elem f c)) vs p2 (be16 (zlen vs) ++ concat bss)).
    { apply decodes_list16; [exact Hn|]. eapply Forall2_impl_in; [|exact Hbss]. intros v b' Hin [_ H2]. apply H2.
      cbn [length] in Hf. rewrite !app_length in Hf. pose proof (concat_length_le _ _ Hin). lia. }
    rewrite (pb_dec _ _ _ _ _ p' c _ Hl) by eauto with pext. reflexivity.
Qed.

Lemma elem_dec_p_elem e p bs : elem_dec e p bs -> decodes p_elem e p bs.
Proof.
  intros [H1 H2] p' c rest He Ha. unfold p_elem, elem_fuel.
  apply (H2 (S (length (bs ++ rest))) ltac:(rewrite app_length; lia) p' c rest He Ha).
Qed.
Lemma write_elem_dec e : elem_ok e = true -> wspec (write_elem e) (decodes p_elem e).
Proof. intros H. eapply wspec_weaken; [apply write_elem_spec, H|]. intros p a. apply elem_dec_p_elem. Qed.

Lemma write_pairs_spec ps : pairs_ok ps = true -> wspec (write_pairs ps) (decodes p_pairs ps).
Proof.
  intros Hok. unfold write_pairs, p_pairs. apply wslice16_spec. intros [n v] Hin. cbn [fst snd].
  assert (Hv : elem_ok v = true) by (unfold pairs_ok in Hok; rewrite forallb_forall in Hok; apply (Hok _ Hin)).
  eapply wspec_bind; [apply put_utf8_spec|]. intros i p0 Hi.
  eapply wspec_bind; [apply (write_elem_dec v Hv)|]. intros b p1 Hb.
  apply wspec_ret. intros p He1 He0 p' c rest He Ha. rewrite <- app_assoc.
  rewrite (pb_idx _ _ n p0 i p' c) by (try apply Hi; eauto with pext).
  rewrite (pb_dec _ _ _ _ _ p' c _ Hb) by eauto with pext. reflexivity.
Qed.
Definition annotation_ok (a : annotation) : bool := pairs_ok (snd a).
Lemma write_annotations_spec l : forallb annotation_ok l = true -> wspec (write_annotations l) (decodes p_annotations l).
Proof.
  intros Hok. unfold write_annotations, p_annotations. apply wslice16_spec. intros [ty ps] Hin. cbn [fst snd].
  assert (Hp : pairs_ok ps = true) by (rewrite forallb_forall in Hok; apply (Hok _ Hin)).
  eapply wspec_bind; [apply put_utf8_spec|]. intros i p0 Hi.
  eapply wspec_bind; [apply (write_pairs_spec ps Hp)|]. intros b p1 Hb.
  apply wspec_ret. intros p He1 He0 p' c rest He Ha. rewrite <- app_assoc. unfold p_annotation.
  rewrite (pb_idx _ _ ty p0 i p' c) by (try apply Hi; eauto with pext).
  rewrite (pb_dec _ _ _ _ _ p' c _ Hb) by eauto with pext. reflexivity.
Qed.

(* ---- lists whose elements change type when decoded ---- *)
Lemma mapO_Forall2 {A B} (g : A -> option B) (R : B -> bytes -> Prop) : forall l bs,
  Forall2 (fun x b => exists y, g x = Some y /\ R y b) l bs -> exists ys, mapO g l = Some ys /\ Forall2 R ys bs.
Proof.
  induction l as [|x l IH]; intros bs H; inversion H as [|? b ? bs' (y & Hy & Hr) Hl]; subst; cbn [mapO].
  - exists []. split; [reflexivity|constructor].
  - destruct (IH _ Hl) as (ys & -> & Hys). rewrite Hy. exists (y :: ys). split; [reflexivity|constructor; assumption].
Qed.
Lemma mapO_len {A B} (g : A -> option B) : forall l ys, mapO g l = Some ys -> length ys = length l.
Proof.
  induction l as [|x l IH]; intros ys; cbn [mapO]; [intros [= <-]; reflexivity|].
  destruct (g x); [|discriminate]. destruct (mapO g l) eqn:E; [|discriminate]. intros [= <-]. cbn [length]. rewrite (IH _ eq_refl). reflexivity.
Qed.
Lemma wslice16_spec_gen {A B} (f : A -> W bytes) (P : cpool -> parser B) (g : A -> option B) l :
  (forall x, In x l -> wspec (f x) (fun p b => exists y, g x = Some y /\ decodes P y p b)) ->
  wspec (wslice16 f l) (fun p bs => exists ys, mapO g l = Some ys /\ decodes (fun c => p_list16 (P c)) ys p bs).
Proof.
  intros Hf. unfold wslice16. eapply wspec_bind; [apply w_u16len_spec|]. intros cnt p0 [-> Hn].
  eapply wspec_bind.
  - apply (wspec_mapW f (fun x p b => exists y, g x = Some y /\ decodes P y p b)); [|exact Hf].
    intros x p p' b He (y & Hy & Hd). exists y. split; [exact Hy|exact (decodes_mono P y p p' b He Hd)].
  - intros bs p1 Hbs. apply wspec_ret. intros p He1 He0.
    destruct (mapO_Forall2 g (fun y b => decodes P y p1 b) l bs Hbs) as (ys & Hys & Hd).
    exists ys. split; [exact Hys|].
    replace (zlen l) with (zlen ys) in * by (unfold zlen; rewrite (mapO_len _ _ _ Hys); reflexivity).
    apply decodes_list16; [exact Hn|]. eapply Forall2_impl'; [|exact Hd]. intros y b Hyb. exact (decodes_mono P y p1 p b He1 Hyb).
Qed.

(* ---- type annotations ---- *)
Definition u8ok (z : Z) : bool := (0 <=? z) && (z <=? 255).
Definition u16ok (z : Z) : bool := (0 <=? z) && (z <=? 65535).
Definition target_ok (in_code : bool) (t : target label) : bool :=
  match t with
  | TTypeParameter ty i => negb in_code && ((ty =? 0) || (ty =? 1))%N && u8ok i
  | TSupertype ty i => negb in_code && (ty =? 16)%N && u16ok i
  | TTypeParameterBound ty p b => negb in_code && ((ty =? 17) || (ty =? 18))%N && u8ok p && u8ok b
  | TEmpty ty => negb in_code && ((19 <=? ty) && (ty <=? 21))%N
  | TFormalParameter ty i => negb in_code && (ty =? 22)%N && u8ok i
  | TThrows ty i => negb in_code && (ty =? 23)%N && u16ok i
  | TLocalVar ty tb => in_code && ((ty =? 64) || (ty =? 65))%N && forallb (fun e => u16ok (snd e)) tb
  | TCatch ty i => in_code && (ty =? 66)%N && u16ok i
  | TOffset ty _ => in_code && ((67 <=? ty) && (ty <=? 70))%N
  | TTypeArgument ty _ i => in_code && ((71 <=? ty) && (ty <=? 75))%N && u8ok i
  end.
Definition path_ok (path : list (Z * Z)) : bool :=
  forallb (fun s => (0 <=? fst s) && (fst s <=? 3) && ((fst s =? 3) || (snd s =? 0)) && u8ok (snd s)) path.
Definition type_annotation_ok (in_code : bool) (a : type_annotation label) : bool :=
  target_ok in_code (ta_target a) && path_ok (ta_path a) && pairs_ok (ta_pairs a).

Ltac bsplit := repeat match goal with
  | H : _ && _ = true |- _ => apply andb_true_iff in H as [? ?]
  | H : negb _ = true |- _ => apply negb_true_iff in H
  end.
Ltac nsolve := repeat match goal with
  | H : (_ || _)%bool = true |- _ => apply orb_true_iff in H as [H|H]
  | H : (_ =? _)%N = true |- _ => apply N.eqb_eq in H; subst
  | H : (_ <=? _)%N = true |- _ => apply N.leb_le in H
  end.
Lemma u8ok_spec z : u8ok z = true -> 0 <= z <= 255.
Proof. unfold u8ok. intros H. apply andb_true_iff in H as [A B]. apply Z.leb_le in A, B. lia. Qed.
Lemma u16ok_spec z : u16ok z = true -> idx_ok z.
Proof. unfold u16ok, idx_ok. intros H. apply andb_true_iff in H as [A B]. apply Z.leb_le in A, B. lia. Qed.

Ltac okfacts := repeat match goal with
  | H : u8ok ?z = true |- _ => apply u8ok_spec in H
  | H : u16ok ?z = true |- _ => apply u16ok_spec in H
  end.

Lemma try_get_ok labs l a : try_get labs l = OK a -> lget labs l = Some a.
Proof. unfold try_get. destruct (lget labs l); [intros [= <-]; reflexivity|discriminate]. Qed.
Lemma try_get_range_ok labs s e r : try_get_range labs (s, e) = OK r ->
  exists a b, lget labs s = Some a /\ lget labs e = Some b /\ a <= b /\ r = (a, b - a).
Proof.
  unfold try_get_range, try_get. cbn [fst snd]. destruct (lget labs s) as [a|]; [|discriminate].
  destruct (lget labs e) as [b|]; [|discriminate]. destruct (b <? a) eqn:E; [discriminate|]. apply Z.ltb_ge in E.
  intros [= <-]. exists a, b. repeat split; auto.
Qed.

Lemma byte_cases_N (P : N -> Prop) (lo hi : N) : (forall n, (lo <= n <= hi)%N -> P n) -> forall t, (lo <= t)%N -> (t <= hi)%N -> P t.
Proof. intros H t A B. apply H. lia. Qed.

Lemma write_target_spec labs ic t :
  lbounded labs -> target_ok ic t = true ->
  wspec (write_target labs t) (fun p bs => exists ft, fa_target labs t = Some ft /\ decodes (fun _ => p_target ic) ft p bs).
Proof.
  intros Hlb Hok. destruct t as [ty i|ty i|ty a b|ty|ty i|ty i|ty tb|ty i|ty l|ty l i]; cbn [target_ok write_target fa_target] in *; bsplit; subst ic.
  - apply wspec_ret. intros p. eexists. split; [reflexivity|]. intros p' c rest _ _.
    okfacts. nsolve; cbn [app]; unfold p_target; rewrite pb_u8N; cbn [Z.of_N Z.eqb Pos.eqb orb];
      rewrite pb_u8 by lia; reflexivity.
  - apply wspec_ret. intros p. eexists. split; [reflexivity|]. intros p' c rest _ _.
    okfacts. nsolve. rewrite <- app_comm_cons. unfold p_target. rewrite pb_u8N. cbn [Z.of_N Z.eqb Pos.eqb orb].
    rewrite pb_u16 by assumption. reflexivity.
  - apply wspec_ret. intros p. eexists. split; [reflexivity|]. intros p' c rest _ _.
    okfacts.
    nsolve; rewrite <- app_comm_cons; unfold p_target; rewrite pb_u8N; cbn [Z.of_N Z.eqb Pos.eqb orb];
      rewrite <- app_assoc; rewrite !pb_u8 by lia; reflexivity.
  - apply wspec_ret. intros p. eexists. split; [reflexivity|]. intros p' c rest _ _.
    nsolve. cbn [app]. unfold p_target. rewrite pb_u8N.
    assert (Hc : ty = 19%N \/ ty = 20%N \/ ty = 21%N) by lia. destruct Hc as [->|[->| ->]]; reflexivity.
  - apply wspec_ret. intros p. eexists. split; [reflexivity|]. intros p' c rest _ _.
    okfacts. nsolve. cbn [app]. unfold p_target. rewrite pb_u8N. cbn [Z.of_N Z.eqb Pos.eqb orb Z.leb Z.compare Pos.compare Pos.compare_cont andb].
    rewrite pb_u8 by lia. reflexivity.
  - apply wspec_ret. intros p. eexists. split; [reflexivity|]. intros p' c rest _ _.
    okfacts. nsolve. rewrite <- app_comm_cons. unfold p_target. rewrite pb_u8N. cbn [Z.of_N Z.eqb Pos.eqb orb Z.leb Z.compare Pos.compare Pos.compare_cont andb].
    rewrite pb_u16 by assumption. reflexivity.
  - (* local variable table *)
    eapply wspec_bind; [apply w_u16len_spec|]. intros cnt p0 [-> Hn].
    eapply wspec_bind.
    { apply (wspec_mapW _ (fun e (_ : pool) b => exists r, range_of labs (fst (fst e)) (snd (fst e)) = Some r /\ idx_ok (fst r) /\ idx_ok (snd r)
                                              /\ b = be16 (fst r) ++ be16 (snd r) ++ be16 (snd e))).
      - intros x p p' b _ Hx. exact Hx.
      - intros [[s e] ix] Hin. cbn [fst snd]. eapply wspec_bind.
        + apply wspec_lift_out. intros r p Hr. exact Hr.
        + intros r p1 Hr. cbn beta in Hr. apply wspec_ret. intros p _.
          apply try_get_range_ok in Hr as (a & b & Ha & Hb & Hab & ->). exists (a, b - a). cbn [fst snd].
          pose proof (Hlb _ _ Ha). pose proof (Hlb _ _ Hb). unfold range_of. rewrite Ha, Hb. unfold idx_ok. repeat split; try lia. }
    intros es p1 Hes. apply wspec_ret. intros p _ _.
    assert (Hm : exists ftb, mapO (fun e => omap (fun r => (fst r, snd r, snd e)) (range_of labs (fst (fst e)) (snd (fst e)))) tb = Some ftb /\
                 Forall2 (fun (x : Z * Z * Z) b => b = be16 (fst (fst x)) ++ be16 (snd (fst x)) ++ be16 (snd x) /\ idx_ok (fst (fst x)) /\ idx_ok (snd (fst x)) /\ idx_ok (snd x)) ftb es).
    { clear -Hes H0. revert es Hes. induction tb as [|e tb IH]; intros es Hes; inversion Hes as [|? b ? es' (r & Hr & H1 & H2 & ->) Hrest]; subst; cbn [mapO].
      - exists []. split; [reflexivity|constructor].
      - cbn [forallb] in H0. apply andb_true_iff in H0 as [He Htb]. destruct (IH Htb _ Hrest) as (ftb & -> & Hf). rewrite Hr. cbn [omap].
        eexists. split; [reflexivity|]. constructor; [|exact Hf]. cbn [fst snd]. split; [reflexivity|split; [exact H1|split; [exact H2|apply u16ok_spec, He]]]. }
    destruct Hm as (ftb & Hftb & Hf2). rewrite Hftb. cbn [omap]. eexists. split; [reflexivity|].
    intros p' c rest He' Ha'. rewrite <- app_comm_cons. unfold p_target. rewrite pb_u8N.
    assert (Hty : (Z.of_N ty =? 64) || (Z.of_N ty =? 65) = true) by (nsolve; reflexivity). rewrite Hty.
    assert (Hl : decodes (fun _ : cpool => p_list16 (s <~ p_u16 ;; l <~ p_u16 ;; i <~ p_u16 ;; pret (s, l, i))) ftb p (be16 (zlen ftb) ++ concat es)).
    { apply decodes_list16; [unfold zlen in *; rewrite (mapO_len _ _ _ Hftb); exact Hn|].
      eapply Forall2_impl'; [|exact Hf2]. intros [[s l] i] b (-> & A & B & C). cbn [fst snd] in *. intros q' c' r' _ _.
      rewrite <- !app_assoc. rewrite !pb_u16 by assumption. reflexivity. }
    replace (zlen tb) with (zlen ftb) by (unfold zlen; rewrite (mapO_len _ _ _ Hftb); reflexivity).
    rewrite <- app_assoc. rewrite app_assoc. rewrite (pb_dec _ _ _ _ _ p' c _ Hl) by assumption.
    rewrite N2Z.id. reflexivity.
  - apply wspec_ret. intros p. eexists. split; [reflexivity|]. intros p' c rest _ _.
    okfacts. nsolve. rewrite <- app_comm_cons. unfold p_target. rewrite pb_u8N. cbn [Z.of_N Z.eqb Pos.eqb orb].
    rewrite pb_u16 by assumption. reflexivity.
  - eapply wspec_bind; [apply wspec_lift_out; intros a p Ha; exact Ha|]. intros a p0 Ha. cbn beta in Ha. apply try_get_ok in Ha.
    apply wspec_ret. intros p _. rewrite Ha. cbn [omap]. eexists. split; [reflexivity|]. intros p' c rest _ _.
    pose proof (Hlb _ _ Ha). nsolve. rewrite <- app_comm_cons. unfold p_target. rewrite pb_u8N.
    assert (Hc : ty = 67%N \/ ty = 68%N \/ ty = 69%N \/ ty = 70%N) by lia.
    destruct Hc as [->|[->|[->| ->]]]; cbn [Z.of_N Z.eqb Pos.eqb orb Z.leb Z.compare Pos.compare Pos.compare_cont andb]; rewrite pb_u16 by assumption; reflexivity.
  - eapply wspec_bind; [apply wspec_lift_out; intros a p Ha; exact Ha|]. intros a p0 Ha. cbn beta in Ha. apply try_get_ok in Ha.
    apply wspec_ret. intros p _. rewrite Ha. cbn [omap]. eexists. split; [reflexivity|]. intros p' c rest _ _.
    pose proof (Hlb _ _ Ha). okfacts. nsolve. rewrite <- app_comm_cons. unfold p_target. rewrite pb_u8N.
    assert (Hc : ty = 71%N \/ ty = 72%N \/ ty = 73%N \/ ty = 74%N \/ ty = 75%N) by lia.
    destruct Hc as [->|[->|[->|[->| ->]]]]; cbn [Z.of_N Z.eqb Pos.eqb orb Z.leb Z.compare Pos.compare Pos.compare_cont andb];
      rewrite <- app_assoc; rewrite pb_u16 by assumption; rewrite pb_u8 by lia; reflexivity.
Qed.

Lemma write_type_path_spec path : path_ok path = true -> wspec (write_type_path path) (decodes (fun _ => p_type_path) path).
Proof.
  intros Hok. unfold write_type_path, p_type_path. apply (wslice8_spec _ (fun _ : cpool => _)). intros [k i] Hin. cbn [fst snd].
  unfold path_ok in Hok. rewrite forallb_forall in Hok. specialize (Hok _ Hin). cbn [fst snd] in Hok. bsplit. okfacts.
  match goal with H : (0 <=? k) = true |- _ => apply Z.leb_le in H end.
  match goal with H : (k <=? 3) = true |- _ => pose proof H as Hk3; apply Z.leb_le in H end.
  apply wspec_ret. intros p p' c rest _ _. rewrite <- app_assoc. rewrite !pb_u8 by lia.
  rewrite Hk3. match goal with H : _ || _ = true |- _ => rewrite H end. reflexivity.
Qed.

Lemma write_type_annotation_spec labs ic a :
  lbounded labs -> type_annotation_ok ic a = true ->
  wspec (t <- write_target labs (ta_target a) ;; p <- write_type_path (ta_path a) ;;
         i <- put_utf8 (ta_type a) ;; ps <- write_pairs (ta_pairs a) ;; ret (t ++ p ++ be16 i ++ ps))
        (fun p b => exists y, fa_type_annotation labs a = Some y /\ decodes (p_type_annotation ic) y p b).
Proof.
  intros Hlb Hok. unfold type_annotation_ok in Hok. bsplit.
  eapply wspec_bind; [apply (write_target_spec labs ic); eassumption|]. intros tb p0 (ft & Hft & Ht).
  eapply wspec_bind; [apply write_type_path_spec; eassumption|]. intros pb p1 Hp.
  eapply wspec_bind; [apply put_utf8_spec|]. intros i p2 Hi.
  eapply wspec_bind; [apply write_pairs_spec; eassumption|]. intros psb p3 Hps.
  apply wspec_ret. intros p He3 He2 He1 He0. unfold fa_type_annotation. rewrite Hft. cbn [omap]. eexists. split; [reflexivity|].
  intros p' c rest He Ha. unfold p_type_annotation. rewrite <- !app_assoc.
  rewrite (pb_dec _ _ _ _ _ p' c _ Ht) by eauto with pext.
  rewrite (pb_dec _ _ _ _ _ p' c _ Hp) by eauto with pext.
  rewrite (pb_idx _ _ (ta_type a) p2 i p' c) by (try apply Hi; eauto with pext).
  rewrite (pb_dec _ _ _ _ _ p' c _ Hps) by eauto with pext. reflexivity.
Qed.

Lemma write_type_annotations_spec labs ic l :
  lbounded labs -> forallb (type_annotation_ok ic) l = true ->
  wspec (write_type_annotations labs l)
        (fun p b => exists ys, mapO (fa_type_annotation labs) l = Some ys /\ decodes (p_type_annotations ic) ys p b).
Proof.
  intros Hlb Hok. unfold write_type_annotations, p_type_annotations. apply wslice16_spec_gen. intros a Hin.
  rewrite forallb_forall in Hok. apply write_type_annotation_spec; auto.
Qed.

Lemma lbounded_nil : lbounded [].
Proof. intros l t H. discriminate. Qed.
