(* C02 — whole-class theorems, part 7: the Code attribute. *)
From FB Require Import C02.Model C02.Encode C02.Theory1 C02.Theory2 C02.Theory3 C02.Theory4 C02.Theory5 C02.Theory6 C02.Theory8 C02.Frames C02.TheoryF
  C02.Class C02.Decode C02.Facts C02.TheoryC1 C02.TheoryC2 C02.TheoryC3 C02.TheoryC4 C02.TheoryC5 C02.TheoryC6.
Local Open Scope Z_scope.
Local Arguments Z.add : simpl never.
Local Arguments Z.sub : simpl never.
Local Arguments Z.mul : simpl never.
Local Opaque be16 be32 be64.

(* ---- what the loop guarantees ---- *)
Lemma wc_loop_facts b last w labs W :
  unique_labels b last -> wc_loop (S (length b)) [] b last = Some (OK (w, labs, W)) ->
  lbounded labs /\ Forall (fun p => 0 <= p <= 65535) (run_pos W 0%N init b) /\ 0 < zlen w <= 65535 /\
  length (run_pos W 0%N init b) = length b.
Proof.
  intros Hu Ew.
  pose proof (write_is_encode _ _ _ _ _ Hu Ew) as (Hcl & _ & _ & HL & Hzw & Hend).
  destruct (wc_loop_W b last _ _ _ _ _ (NoDup_nil _) ltac:(intros i []) Ew) as (_ & _ & _ & Hat).
  apply attempt_done in Hat as (_ & _ & _ & _ & (s & Hrun)).
  destruct (run_pos_positions _ _ _ _ _ Hrun) as [Hpos Hbnd]. cbn [init s_len s_labs] in Hpos, Hbnd.
  split; [|split; [|split]].
  - intros l t Hl. rewrite HL in Hl. apply labpos_bounds in Hl. lia.
  - eapply Forall_impl; [|exact Hbnd]. cbn. intros; lia.
  - lia.
  - rewrite Hpos. apply positions_length. exact Hcl.
Qed.

(* decidable uniqueness of labels *)
Fixpoint nodupN (l : list N) : bool := match l with [] => true | x :: r => negb (existsb (N.eqb x) r) && nodupN r end.
Lemma nodupN_spec l : nodupN l = true -> NoDup l.
Proof.
  induction l as [|x r IH]; cbn [nodupN]; intros H; [constructor|]. apply andb_true_iff in H as [H1 H2]. constructor; [|apply IH, H2].
  intros Hin. apply negb_true_iff in H1. assert (existsb (N.eqb x) r = true) by (apply existsb_exists; exists x; split; [exact Hin|apply N.eqb_refl]). congruence.
Qed.

(* ---- attribute lists in which an attribute may fail to be written (a label without position) ---- *)
Definition lspec {D} (Pa : cpool -> parser D) (ws : list (W bytes)) (o : option (list D)) : Prop :=
  wspec (seqW ws) (fun p bs => exists ds, o = Some ds /\ Forall2 (fun d b => decodes Pa d p b) ds bs).

Lemma seqW_app_run {A} (l1 l2 : list (W A)) : forall s,
  seqW (l1 ++ l2) s = match seqW l1 s with
                      | WOK (b1, s1) => match seqW l2 s1 with WOK (b2, s2) => WOK (b1 ++ b2, s2) | WERR c => WERR c | WPANIC => WPANIC end
                      | WERR c => WERR c | WPANIC => WPANIC
                      end.
Proof.
  induction l1 as [|m l1 IH]; intros s; cbn [app seqW].
  - unfold ret. destruct (seqW l2 s) as [[b2 s2]|?c|]; reflexivity.
  - unfold bind, ret. destruct (m s) as [[y s0]|?c|]; try reflexivity. rewrite IH.
    destruct (seqW l1 s0) as [[b1 s1]|?c|]; try reflexivity. destruct (seqW l2 s1) as [[b2 s2]|?c|]; reflexivity.
Qed.
Lemma lspec_app {D} (Pa : cpool -> parser D) ws1 ws2 o1 o2 : lspec Pa ws1 o1 -> lspec Pa ws2 o2 -> lspec Pa (ws1 ++ ws2) (oapp o1 o2).
Proof.
  intros H1 H2 s bs s' Hi. rewrite seqW_app_run.
  destruct (seqW ws1 s) as [[b1 s1]|?c|] eqn:E1; try discriminate. destruct (seqW ws2 s1) as [[b2 s2]|?c|] eqn:E2; try discriminate.
  intros [= <- <-]. destruct (H1 _ _ _ Hi E1) as (Hi1 & He1 & d1 & -> & F1). destruct (H2 _ _ _ Hi1 E2) as (Hi2 & He2 & d2 & -> & F2).
  split; [exact Hi2|split; [eauto with pext|]]. exists (d1 ++ d2). split; [reflexivity|].
  apply Forall2_app'; [|exact F2]. eapply Forall2_impl'; [|exact F1]. intros d b Hd. exact (decodes_mono Pa d _ _ b He2 Hd).
Qed.
Lemma lspec_Forall2 {D} (Pa : cpool -> parser D) ws ds : Forall2 (fun w d => wspec w (decodes Pa d)) ws ds -> lspec Pa ws (Some ds).
Proof.
  intros H. unfold lspec. eapply wspec_weaken.
  - apply (wspec_seqW2 (fun d p b => decodes Pa d p b)); [intros d p p' b He Hd; exact (decodes_mono Pa d p p' b He Hd)|exact H].
  - intros p bs F. exists ds. split; [reflexivity|exact F].
Qed.
Lemma lspec_one {A D} (Pa : cpool -> parser D) w (o : option A) (f : A -> D) :
  wspec w (fun p b => exists x, o = Some x /\ decodes Pa (f x) p b) -> lspec Pa [w] (omap (fun x => [f x]) o).
Proof.
  intros H. unfold lspec. cbn [seqW]. eapply wspec_bind; [exact H|]. intros b p0 (x & -> & Hd).
  apply wspec_ret. intros p He. exists [f x]. split; [reflexivity|]. constructor; [exact (decodes_mono Pa (f x) p0 p b He Hd)|constructor].
Qed.
Lemma seqW_length {A} (ws : list (W A)) : forall s bs s', seqW ws s = WOK (bs, s') -> length bs = length ws.
Proof.
  induction ws as [|m ws IH]; intros s bs s'; cbn [seqW].
  - unfold ret. intros [= <- _]. reflexivity.
  - unfold bind, ret. destruct (m s) as [[y s0]|?c|]; try discriminate. destruct (seqW ws s0) as [[ys s1]|?c|] eqn:E; try discriminate.
    intros [= <- _]. cbn [length]. rewrite (IH _ _ _ E). reflexivity.
Qed.
Lemma wattrs_lspec {D} (Pa : cpool -> parser D) ws o : lspec Pa ws o ->
  wspec (wattrs ws) (fun p b => exists ds, o = Some ds /\ decodes (fun c => p_list16 (Pa c)) ds p b).
Proof.
  intros H s b s' Hi Hr. unfold wattrs in Hr. apply bind_ok in Hr as (bs & s1 & Hseq & Hr).
  destruct (H _ _ _ Hi Hseq) as (Hi1 & He1 & ds & -> & F).
  apply bind_ok in Hr as (cnt & s2 & Hc & Hr). destruct (w_u16len_spec _ _ _ _ Hi1 Hc) as (Hi2 & He2 & -> & Hn).
  apply ret_ok in Hr as [-> ->]. split; [exact Hi2|split; [eauto with pext|]]. exists ds. split; [reflexivity|].
  assert (Hl : zlen ws = zlen ds).
  { unfold zlen. rewrite <- (seqW_length _ _ _ _ Hseq). rewrite (Forall2_len _ _ _ F). reflexivity. }
  rewrite Hl in *. apply decodes_list16; [exact Hn|].
  eapply Forall2_impl'; [|exact F]. intros d bb Hd. exact (decodes_mono Pa d _ _ bb He2 Hd).
Qed.

(* write_attribute around a body whose content is only known to exist after the write *)
Lemma wattr_gen_ex {A D} name (body : W bytes) (P : cpool -> parser A) (o : option A)
  (bodyf : cpool -> bytes -> option (parser D)) unk (mkd : A -> D) :
  (forall c b x, P c b = Some (x, []) -> exists Pb, bodyf c name = Some Pb /\ Pb b = Some (mkd x, [])) ->
  wspec body (fun p b => exists x, o = Some x /\ decodes P x p b) ->
  wspec (wattr name body) (fun p b => exists x, o = Some x /\ decodes (fun c => p_attr_with c (bodyf c) unk) (mkd x) p b).
Proof.
  intros Hb Hbody. unfold wattr. eapply wspec_bind; [exact Hbody|]. intros b p0 (x & Hx & Hd).
  eapply wspec_bind; [apply put_utf8_spec|]. intros i p1 Hi.
  apply wspec_lift_res. intros bs p Hw He1 He0. apply write_attribute_ok in Hw as [-> Hl]. exists x. split; [exact Hx|].
  intros p' c rest He Ha. rewrite <- !app_assoc.
  assert (Hpb : P c b = Some (x, [])).
  { specialize (Hd p' c [] ltac:(eauto with pext) Ha). rewrite app_nil_r in Hd. exact Hd. }
  destruct (Hb c b x Hpb) as (Pb & Hf & Hr).
  eapply p_attr_with_known; eauto.
  - apply (refers_get _ _ _ _ p' c Hi); eauto with pext.
  - apply (refers_idx _ _ _ _ Hi).
Qed.
Ltac shape2 HP := intros ?c ?b ?x HP; eexists; split; [reflexivity|]; unfold pbind at 1; rewrite HP; reflexivity.

Definition fa_lines (labs : labmap) (l : list (label * Z)) : option (list (Z * Z)) :=
  mapO (fun e => omap (fun p => (p, snd e)) (lget labs (fst e))) l.
Lemma lnt_spec labs l : lbounded labs -> forallb (fun e => u16ok (snd e)) l = true ->
  wspec (wattr s_LineNumberTable (wslice16 (fun e => p <- lift_out (ELabel labs [fst e]) (try_get labs (fst e)) ;; ret (be16 p ++ be16 (snd e))) l))
        (fun p b => exists x, fa_lines labs l = Some x /\ decodes (p_attr0 AtCode) (ALineNumberTable x) p b).
Proof.
  intros Hlb Hok. rewrite p_attr0_eq.
  apply (wattr_gen_ex _ _ (fun _ : cpool => p_list16 (s <~ p_u16 ;; n <~ p_u16 ;; pret (s, n))) (fa_lines labs l) (bodyf0 AtCode) AUnknown ALineNumberTable); [shape2 HP|].
  apply (wslice16_spec_gen _ (fun _ : cpool => s <~ p_u16 ;; n <~ p_u16 ;; pret (s, n)) (fun e => omap (fun p => (p, snd e)) (lget labs (fst e)))).
  intros [lb ln] Hin. cbn [fst snd]. rewrite forallb_forall in Hok. specialize (Hok _ Hin). cbn [snd] in Hok. okfacts.
  eapply wspec_bind; [apply wspec_lift_out; intros a p Ha; exact Ha|]. intros a p0 Ha. cbn beta in Ha. apply try_get_ok in Ha.
  apply wspec_ret. intros p _. rewrite Ha. cbn [omap]. eexists. split; [reflexivity|]. intros p' c rest _ _.
  pose proof (Hlb _ _ Ha). rewrite <- app_assoc. rewrite !pb_u16 by assumption. reflexivity.
Qed.

Lemma code_tas_spec labs (vis : bool) l : lbounded labs -> forallb (type_annotation_ok true) l = true ->
  lspec (p_attr0 AtCode) (nattr l (fun x => wattr (if vis then s_RVTAnn else s_RITAnn) (write_type_annotations labs x))) (fa_tas vis labs l).
Proof.
  intros Hlb Hok. destruct l as [|a l]; [apply (lspec_Forall2 _ [] []); constructor|]. cbn [nattr]. unfold fa_tas.
  apply lspec_one. rewrite p_attr0_eq.
  apply (wattr_gen_ex _ _ (p_type_annotations true) (mapO (fa_type_annotation labs) (a :: l)) (bodyf0 AtCode) AUnknown (ATypeAnnotations vis)).
  - destruct vis; shape2 HP.
  - apply (write_type_annotations_spec labs true); assumption.
Qed.

(* ---- local variable (type) tables: the entries that have a descriptor (signature) ---- *)
Lemma range_of_ok labs s e r : lbounded labs -> try_get_range labs (s, e) = OK r ->
  range_of labs s e = Some r /\ idx_ok (fst r) /\ idx_ok (snd r).
Proof.
  intros Hlb Hr. apply try_get_range_ok in Hr as (a & b & Ha & Hb & Hab & ->). unfold range_of. rewrite Ha, Hb.
  pose proof (Hlb _ _ Ha). pose proof (Hlb _ _ Hb). cbn [fst snd]. unfold idx_ok. repeat split; lia.
Qed.
Lemma w_lv_spec labs v d : lbounded labs -> u16ok (lv_index v) = true ->
  wspec (w_lv labs v d) (fun p b => exists y, omap (fun r => (fst r, snd r, lv_name v, d, lv_index v)) (range_of labs (lv_start v) (lv_end v)) = Some y
                                   /\ decodes p_lv y p b).
Proof.
  intros Hlb Hi. okfacts. unfold w_lv.
  eapply wspec_bind; [apply wspec_lift_out; intros a p Ha; exact Ha|]. intros r p0 Hr. cbn beta in Hr.
  destruct (range_of_ok _ _ _ _ Hlb Hr) as (Hro & H1 & H2).
  eapply wspec_bind; [apply put_utf8_spec|]. intros n p1 Hn.
  eapply wspec_bind; [apply put_utf8_spec|]. intros x p2 Hx.
  apply wspec_ret. intros p He2 He1 He0. rewrite Hro. cbn [omap]. eexists. split; [reflexivity|].
  intros p' c rest He Ha. unfold p_lv. rewrite <- !app_assoc. rewrite !pb_u16 by assumption.
  rewrite (pb_idx _ _ (lv_name v) p1 n p' c) by (try apply Hn; eauto with pext).
  rewrite (pb_idx _ _ d p2 x p' c) by (try apply Hx; eauto with pext).
  rewrite pb_u16 by assumption. reflexivity.
Qed.
Lemma lv_entries_spec labs (sel : clocalvar -> option bytes) : lbounded labs -> forall lvs,
  forallb (fun v => u16ok (lv_index v)) lvs = true ->
  wspec (mapW (fun v => match sel v with Some d => w_lv labs v d | None => ret [] end) lvs)
        (fun p bs => exists ys bs', fa_lvs labs sel lvs = Some ys /\ Forall2 (fun y b => decodes p_lv y p b) ys bs' /\
                                    concat bs = concat bs' /\ zlen ys = opt_count sel lvs).
Proof.
  intros Hlb. induction lvs as [|v lvs IH]; intros Hok; cbn [mapW].
  - apply wspec_ret. intros p. exists [], []. repeat split; constructor.
  - cbn [forallb] in Hok. apply andb_true_iff in Hok as [Hv Hl].
    unfold fa_lvs, opt_count. cbn [flat_map filter]. fold (fa_lvs labs sel lvs). destruct (sel v) as [d|] eqn:Es.
    + eapply wspec_bind; [apply (w_lv_spec labs v d Hlb Hv)|]. intros b p0 (y & Hy & Hd).
      eapply wspec_bind; [apply (IH Hl)|]. intros bs p1 (ys & bs' & Hys & F & Hc & Hn).
      apply wspec_ret. intros p He1 He0. exists (y :: ys), (b :: bs'). cbn [app mapO]. rewrite Hy.
      unfold fa_lvs in Hys. rewrite Hys. split; [reflexivity|]. split; [|split].
      * constructor; [exact (decodes_mono p_lv y p0 p b He0 Hd)|]. eapply Forall2_impl'; [|exact F]. intros yy bb H. exact (decodes_mono p_lv yy p1 p bb He1 H).
      * cbn [concat]. rewrite Hc. reflexivity.
      * rewrite !zlen_cons. unfold opt_count in Hn. rewrite Hn. reflexivity.
    + eapply wspec_bind; [apply (wspec_ret [] (fun _ b => b = [])); intros; reflexivity|]. intros b p0 ->.
      eapply wspec_bind; [apply (IH Hl)|]. intros bs p1 (ys & bs' & Hys & F & Hc & Hn).
      apply wspec_ret. intros p He1 He0. exists ys, bs'. cbn [app]. unfold fa_lvs in Hys. split; [exact Hys|]. split; [|split].
      * eapply Forall2_impl'; [|exact F]. intros yy bb H. exact (decodes_mono p_lv yy p1 p bb He1 H).
      * cbn [concat app]. exact Hc.
      * exact Hn.
Qed.

Lemma lv_attr_spec labs (sel : clocalvar -> option bytes) lvs name (mkd : list (Z * Z * bytes * bytes * Z) -> dattr0) :
  lbounded labs -> forallb (fun v => u16ok (lv_index v)) lvs = true ->
  (forall c, leaf_body AtCode c name = Some (t <~ p_list16 (p_lv c) ;; pret (mkd t))) ->
  wspec (wattr name (n <- w_u16len (opt_count sel lvs) ;;
                     es <- mapW (fun v => match sel v with Some d => w_lv labs v d | None => ret [] end) lvs ;;
                     ret (n ++ concat es)))
        (fun p b => exists x, fa_lvs labs sel lvs = Some x /\ decodes (p_attr0 AtCode) (mkd x) p b).
Proof.
  intros Hlb Hok Hbody. rewrite p_attr0_eq.
  apply (wattr_gen_ex _ _ (fun c => p_list16 (p_lv c)) (fa_lvs labs sel lvs) (bodyf0 AtCode) AUnknown mkd).
  - intros c b x HP. eexists. split; [apply Hbody|]. unfold pbind at 1. rewrite HP. reflexivity.
  - eapply wspec_bind; [apply w_u16len_spec|]. intros cnt p0 [-> Hn].
    eapply wspec_bind; [apply (lv_entries_spec labs sel Hlb lvs Hok)|]. intros bs p1 (ys & bs' & Hys & F & Hc & Hcnt).
    apply wspec_ret. intros p He1 He0. exists ys. split; [exact Hys|]. rewrite Hc, <- Hcnt.
    apply decodes_list16; [lia|]. eapply Forall2_impl'; [|exact F]. intros y b H. exact (decodes_mono p_lv y p1 p b He1 H).
Qed.

(* ---- StackMapTable ---- *)
Definition lowers_vti (p : pool) (cv : cvti) (v : vti) : Prop :=
  match cv, v with
  | CVSimple t, VSimple t' => t = t'
  | CVObject n, VObject i => refers get_class n p i
  | CVUninit l, VUninit l' => l = l'
  | _, _ => False
  end.
Definition lowers (p : pool) (f : cframe) (sf : sframe) : Prop :=
  match f, sf with
  | CFSame, FSame => True
  | CFSame1 s, FSame1 v => lowers_vti p s v
  | CFChop k, FChop k' => k = k'
  | CFAppend ls, FAppend vs => Forall2 (lowers_vti p) ls vs
  | CFFull ls ss, FFull a b => Forall2 (lowers_vti p) ls a /\ Forall2 (lowers_vti p) ss b
  | _, _ => False
  end.
Lemma lowers_vti_mono p p' cv v : pool_ext p p' -> lowers_vti p cv v -> lowers_vti p' cv v.
Proof. intros He. destruct cv, v; cbn [lowers_vti]; auto. intros H. eapply refers_mono; eauto. Qed.
Lemma lowers_mono p p' f sf : pool_ext p p' -> lowers p f sf -> lowers p' f sf.
Proof.
  intros He. destruct f, sf; cbn [lowers]; auto.
  - apply lowers_vti_mono, He.
  - intros H. eapply Forall2_impl'; [|exact H]. intros a b. apply lowers_vti_mono, He.
  - intros [H1 H2]. split; (eapply Forall2_impl'; [|eassumption]; intros a b; apply lowers_vti_mono, He).
Qed.
Lemma lower_vti_spec v : wspec (lower_vti v) (fun p sv => lowers_vti p v sv).
Proof.
  destruct v as [t|n|l]; cbn [lower_vti].
  - apply wspec_ret. intros p. reflexivity.
  - eapply wspec_bind; [apply put_class_spec|]. intros i p0 Hi. apply wspec_ret. intros p He. cbn [lowers_vti]. eapply refers_mono; eauto.
  - apply wspec_ret. intros p. reflexivity.
Qed.
Lemma lower_vtis_spec vs : wspec (mapW lower_vti vs) (fun p svs => Forall2 (lowers_vti p) vs svs).
Proof.
  apply (wspec_mapW lower_vti (fun v p sv => lowers_vti p v sv)).
  - intros x p p' b He H. eapply lowers_vti_mono; eauto.
  - intros x _. apply lower_vti_spec.
Qed.
Lemma lower_frame_spec f : wspec (lower_frame f) (fun p sf => lowers p f sf).
Proof.
  destruct f as [|s|k|ls|ls ss]; cbn [lower_frame].
  - apply wspec_ret. intros p. exact I.
  - eapply wspec_bind; [apply lower_vti_spec|]. intros v p0 Hv. apply wspec_ret. intros p He. cbn [lowers]. eapply lowers_vti_mono; eauto.
  - apply wspec_ret. intros p. reflexivity.
  - eapply wspec_bind; [apply lower_vtis_spec|]. intros vs p0 Hv. apply wspec_ret. intros p He. cbn [lowers].
    eapply Forall2_impl'; [|exact Hv]. intros a b. apply lowers_vti_mono, He.
  - eapply wspec_bind; [apply lower_vtis_spec|]. intros a p0 Ha. eapply wspec_bind; [apply lower_vtis_spec|]. intros b p1 Hb.
    apply wspec_ret. intros p He1 He0. cbn [lowers]. split.
    + eapply Forall2_impl'; [|exact Ha]. intros x y. apply lowers_vti_mono, He0.
    + eapply Forall2_impl'; [|exact Hb]. intros x y. apply lowers_vti_mono, He1.
Qed.

Definition lowers_at (p : pool) (a : Z * cframe) (b : Z * sframe) : Prop := fst a = fst b /\ lowers p (snd a) (snd b).
Lemma w_frames_spec labs : forall frs prev,
  wspec (w_frames labs prev frs) (fun p bss => exists sfs, Forall2 (lowers_at p) frs sfs /\ emit_frames labs prev sfs = OK (concat bss)).
Proof.
  induction frs as [|[off f] frs IH]; intros prev; cbn [w_frames].
  - apply wspec_ret. intros p. exists []. split; [constructor|reflexivity].
  - eapply wspec_bind; [apply wspec_lift_out; intros a p Ha; exact Ha|]. intros d p0 Hd. cbn beta in Hd.
    eapply wspec_bind; [apply lower_frame_spec|]. intros sf p1 Hsf.
    eapply wspec_bind; [apply wspec_lift_out; intros a p Ha; exact Ha|]. intros b p2 Hb. cbn beta in Hb.
    eapply wspec_bind; [apply IH|]. intros rest p3 (sfs & F & Hr).
    apply wspec_ret. intros p He3 He2 He1 He0. exists ((off, sf) :: sfs). split.
    + constructor.
      * split; [reflexivity|]. cbn [snd]. exact (lowers_mono p1 p f sf He1 Hsf).
      * eapply Forall2_impl'; [|exact F]. intros x y [H1 H2]. split; [exact H1|exact (lowers_mono p3 p _ _ He3 H2)].
    + cbn [emit_frames concat]. rewrite Hd, Hb, Hr. reflexivity.
Qed.

(* frames of the tree are well formed: tags of the simple types *)
Definition cvti_ok (v : cvti) : bool := match v with CVSimple t => (t <? 7)%N | _ => true end.
Definition cframe_ok (f : cframe) : bool :=
  match f with
  | CFSame | CFChop _ => true
  | CFSame1 s => cvti_ok s
  | CFAppend ls => forallb cvti_ok ls
  | CFFull ls ss => forallb cvti_ok ls && forallb cvti_ok ss
  end.
Lemma lowers_vti_ok p cv v : cvti_ok cv = true -> lowers_vti p cv v -> vti_ok v = true.
Proof.
  destruct cv, v; cbn [cvti_ok lowers_vti vti_ok]; try contradiction; auto.
  - intros H <-. exact H.
  - intros _ H. apply refers_idx in H. unfold idx_ok in H. apply andb_true_iff. split; apply Z.leb_le; lia.
Qed.
Lemma lowers_vtis_ok p : forall cvs vs, forallb cvti_ok cvs = true -> Forall2 (lowers_vti p) cvs vs -> forallb vti_ok vs = true.
Proof.
  induction cvs as [|cv cvs IH]; intros vs Hok F; inversion F as [|? v ? vs' Hv Hvs]; subst; cbn [forallb] in *; [reflexivity|].
  apply andb_true_iff in Hok as [A B]. rewrite (lowers_vti_ok p cv v A Hv). apply IH; assumption.
Qed.
Lemma lowers_ok p f sf : cframe_ok f = true -> lowers p f sf -> sframe_ok sf = true.
Proof.
  destruct f, sf; cbn [cframe_ok lowers sframe_ok]; try contradiction; auto.
  - apply lowers_vti_ok.
  - apply lowers_vtis_ok.
  - intros H [H1 H2]. apply andb_true_iff in H as [A B]. rewrite (lowers_vtis_ok p _ _ A H1), (lowers_vtis_ok p _ _ B H2). reflexivity.
Qed.

(* the decoder's resolution of a written frame gives the frame of the tree *)
Definition later (p : pool) (Q : cpool -> Prop) : Prop := forall p' c, pool_ext p p' -> agrees p' c -> Q c.
Lemma resolve_vti_ok labs p cv v dv :
  lowers_vti p cv v -> tvti (lget labs) v = Some dv ->
  exists fv, fa_vti labs cv = Some fv /\ later p (fun c => resolve_vti c dv = Some fv).
Proof.
  destruct cv as [t|n|l], v as [t'|i|l']; cbn [lowers_vti tvti fa_vti]; try contradiction.
  - intros <- [= <-]. eexists. split; [reflexivity|]. intros p' c _ _. reflexivity.
  - intros Hr [= <-]. eexists. split; [reflexivity|]. intros p' c He Ha. cbn [resolve_vti]. rewrite (refers_get _ _ _ _ p' c Hr He Ha). reflexivity.
  - intros <-. destruct (lget labs l) as [q|]; [|discriminate]. intros [= <-]. cbn [omap]. eexists. split; [reflexivity|]. intros p' c _ _. reflexivity.
Qed.
Lemma resolve_vtis_ok labs p : forall cvs vs dvs,
  Forall2 (lowers_vti p) cvs vs -> mapO (fun v => tvti (lget labs) v) vs = Some dvs ->
  exists fvs, mapO (fa_vti labs) cvs = Some fvs /\ later p (fun c => mapO (resolve_vti c) dvs = Some fvs).
Proof.
  induction cvs as [|cv cvs IH]; intros vs dvs F Hm; inversion F as [|? v ? vs' Hv Hvs]; subst; cbn [mapO] in *.
  - injection Hm as <-. exists []. split; [reflexivity|]. intros p' c _ _. reflexivity.
  - destruct (tvti (lget labs) v) as [dv|] eqn:Ev; [|discriminate]. destruct (mapO _ vs') as [dvs'|] eqn:Em; [|discriminate].
    injection Hm as <-. destruct (resolve_vti_ok labs p cv v dv Hv Ev) as (fv & -> & Hr).
    destruct (IH _ _ Hvs Em) as (fvs & -> & Hrs). eexists. split; [reflexivity|]. intros p' c He Ha. cbn [mapO].
    rewrite (Hr p' c He Ha), (Hrs p' c He Ha). reflexivity.
Qed.
Lemma resolve_frame_ok labs p f sf df :
  lowers p f sf -> tframe (lget labs) sf = Some df ->
  exists ff, fa_frame labs f = Some ff /\ later p (fun c => resolve_frame c df = Some ff).
Proof.
  intros Hl Ht. destruct f as [|s|k|ls|ls ss], sf as [|v|k'|vs|a b]; cbn [lowers tframe fa_frame] in *; try contradiction.
  - injection Ht as <-. eexists. split; [reflexivity|]. intros p' c _ _. reflexivity.
  - destruct (tvti (lget labs) v) as [dv|] eqn:Ev; [|discriminate]. injection Ht as <-.
    destruct (resolve_vti_ok labs p s v dv Hl Ev) as (fv & -> & Hr). cbn [omap]. eexists. split; [reflexivity|].
    intros p' c He Ha. cbn [resolve_frame]. rewrite (Hr p' c He Ha). reflexivity.
  - subst. injection Ht as <-. eexists. split; [reflexivity|]. intros p' c _ _. reflexivity.
  - destruct (mapO _ vs) as [dvs|] eqn:Em; [|discriminate]. injection Ht as <-.
    destruct (resolve_vtis_ok labs p _ _ _ Hl Em) as (fvs & -> & Hr). cbn [omap]. eexists. split; [reflexivity|].
    intros p' c He Ha. cbn [resolve_frame]. rewrite (Hr p' c He Ha). reflexivity.
  - destruct Hl as [H1 H2]. destruct (mapO _ a) as [da|] eqn:E1; [|discriminate]. destruct (mapO _ b) as [db|] eqn:E2; [|discriminate]. injection Ht as <-.
    destruct (resolve_vtis_ok labs p _ _ _ H1 E1) as (f1 & -> & R1).
    destruct (resolve_vtis_ok labs p _ _ _ H2 E2) as (f2 & -> & R2). eexists. split; [reflexivity|].
    intros p' c He Ha. cbn [resolve_frame]. rewrite (R1 p' c He Ha), (R2 p' c He Ha). reflexivity.
Qed.
Definition fa_frames (labs : labmap) (frs : list (Z * cframe)) : option (list (Z * fframe)) :=
  mapO (fun pf => omap (fun f => (fst pf, f)) (fa_frame labs (snd pf))) frs.
Lemma resolve_frames_ok labs p : forall frs sfs ds,
  Forall2 (lowers_at p) frs sfs -> tframes (lget labs) sfs = Some ds ->
  exists x, fa_frames labs frs = Some x /\
            later p (fun c => mapO (fun of => match resolve_frame c (snd of) with Some f => Some (fst of, f) | None => None end) ds = Some x).
Proof.
  induction frs as [|[o f] frs IH]; intros sfs ds F Ht; inversion F as [|? [o' sf] ? sfs' [Ho Hl] Hrest]; subst; cbn [tframes fa_frames mapO fst snd] in *.
  - injection Ht as <-. exists []. split; [reflexivity|]. intros p' c _ _. reflexivity.
  - destruct (tframe (lget labs) sf) as [df|] eqn:Ef; [|discriminate]. destruct (tframes (lget labs) sfs') as [ds'|] eqn:Es; [|discriminate].
    injection Ht as <-. destruct (resolve_frame_ok labs p f sf df Hl Ef) as (ff & -> & Hr).
    destruct (IH _ _ Hrest Es) as (x & Hx & Hm). unfold fa_frames in Hx. rewrite Hx. cbn [omap]. subst o'.
    eexists. split; [reflexivity|]. intros p' c He Ha. cbn [mapO fst snd]. rewrite (Hr p' c He Ha), (Hm p' c He Ha). reflexivity.
Qed.

Definition decodes_exact {A} (P : cpool -> parser A) (x : A) (p : pool) (bs : bytes) : Prop :=
  forall p' c, pool_ext p p' -> agrees p' c -> P c bs = Some (x, []).
Lemma wattr_gen_exact {A D} name (body : W bytes) (P : cpool -> parser A) (o : option A)
  (bodyf : cpool -> bytes -> option (parser D)) unk (mkd : A -> D) :
  (forall c b x, P c b = Some (x, []) -> exists Pb, bodyf c name = Some Pb /\ Pb b = Some (mkd x, [])) ->
  wspec body (fun p b => exists x, o = Some x /\ decodes_exact P x p b) ->
  wspec (wattr name body) (fun p b => exists x, o = Some x /\ decodes (fun c => p_attr_with c (bodyf c) unk) (mkd x) p b).
Proof.
  intros Hb Hbody. unfold wattr. eapply wspec_bind; [exact Hbody|]. intros b p0 (x & Hx & Hd).
  eapply wspec_bind; [apply put_utf8_spec|]. intros i p1 Hi.
  apply wspec_lift_res. intros bs p Hw He1 He0. apply write_attribute_ok in Hw as [-> Hl]. exists x. split; [exact Hx|].
  intros p' c rest He Ha. rewrite <- !app_assoc.
  assert (Hpb : P c b = Some (x, [])) by (apply (Hd p' c); eauto with pext).
  destruct (Hb c b x Hpb) as (Pb & Hf & Hr).
  eapply p_attr_with_known; eauto.
  - apply (refers_get _ _ _ _ p' c Hi); eauto with pext.
  - apply (refers_idx _ _ _ _ Hi).
Qed.

Lemma smt_spec labs frs :
  lbounded labs -> forallb (fun pf => cframe_ok (snd pf)) frs = true -> Forall (fun pf => 0 <= fst pf <= 65535) frs ->
  wspec (wattr s_StackMapTable (n <- w_u16len (zlen frs) ;; fb <- w_frames labs None frs ;; ret (n ++ concat fb)))
        (fun p b => exists x, fa_frames labs frs = Some x /\ decodes (p_attr0 AtCode) (AStackMapTable x) p b).
Proof.
  intros Hlb Hok Hpos. rewrite p_attr0_eq.
  apply (wattr_gen_exact _ _ p_stack_map (fa_frames labs frs) (bodyf0 AtCode) AUnknown AStackMapTable); [shape2 HP|].
  eapply wspec_bind; [apply w_u16len_spec|]. intros cnt p0 [-> Hn].
  eapply wspec_bind; [apply (w_frames_spec labs frs None)|]. intros fb p1 (sfs & F & Hem).
  apply wspec_ret. intros p He1 He0.
  assert (Hlen : zlen sfs = zlen frs) by (unfold zlen; rewrite (Forall2_len _ _ _ F); reflexivity).
  assert (Hsm : emit_stack_map labs sfs = OK (be16 (zlen frs) ++ concat fb)).
  { unfold emit_stack_map. rewrite Hlen. destruct (65535 <? zlen frs) eqn:E; [apply Z.ltb_lt in E; lia|]. rewrite Hem. reflexivity. }
  assert (Hsf : forallb (fun pf => sframe_ok (snd pf)) sfs = true).
  { clear -F Hok. revert sfs F. induction frs as [|x frs IH]; intros sfs F; inversion F as [|? y ? sfs' [_ Hl] Hr]; subst; cbn [forallb] in *; [reflexivity|].
    apply andb_true_iff in Hok as [A B]. rewrite (lowers_ok p1 _ _ A Hl). apply IH; assumption. }
  assert (Hp : Forall (fun pf => 0 <= fst pf <= 65535) sfs).
  { clear -F Hpos. revert sfs F. induction frs as [|x frs IH]; intros sfs F; inversion F as [|? y ? sfs' [Hf _] Hr]; subst; constructor.
    - inversion Hpos; subst. rewrite <- Hf. assumption.
    - inversion Hpos; subst. apply IH; assumption. }
  destruct (emit_stack_map_dec labs sfs _ Hlb Hsf Hp Hsm) as (ds & Hds & Hdec).
  destruct (resolve_frames_ok labs p1 frs sfs ds F Hds) as (x & Hx & Hres).
  exists x. split; [exact Hx|]. intros p' c He Ha. unfold p_stack_map. rewrite Hdec.
  rewrite (Hres p' c) by eauto with pext. reflexivity.
Qed.

(* ---- the Code attribute ---- *)
Definition iconst_ok (k : iconst) : bool :=
  match k with KIndy _ _ h args => handle_ok h && forallb loadable_ok args | _ => true end.
Definition cinsn_ok (i : cinsn) : bool :=
  match i with ICp _ k _ => iconst_ok k | ILdc l => loadable_ok l | _ => true end.
Definition insn_labels (is : list (option label * option cframe * cinsn)) : list label := flat_map (fun i => olist (fst (fst i))) is.
Definition ccode_ok (c : ccode) : bool :=
  (match c_max c with Some (ms, ml) => u16ok ms && u16ok ml | None => true end) &&
  forallb (fun i => cinsn_ok (snd i) && match snd (fst i) with Some f => cframe_ok f | None => true end) (c_insns c) &&
  nodupN (insn_labels (c_insns c) ++ olist (c_last c)) &&
  (match c_lines c with Some l => forallb (fun e => u16ok (snd e)) l | None => true end) &&
  (match c_locals c with Some l => forallb (fun v => u16ok (lv_index v)) l | None => true end) &&
  forallb (type_annotation_ok true) (c_tvis c) && forallb (type_annotation_ok true) (c_tinvis c) &&
  unknown_ok0 AtCode (c_unknown c).

Lemma put_iconst_spec k : iconst_ok k = true -> wspec (put_iconst k) isidx.
Proof.
  destruct k as [n|r|r|r|n d h args]; cbn [put_iconst iconst_ok]; intros Hok.
  - apply (weaken_idx get_class n), put_class_spec.
  - apply (weaken_idx get_fieldref r), put_fieldref_spec.
  - apply (weaken_idx get_methodref r), put_methodref_spec.
  - apply (weaken_idx get_imethodref r), put_imethodref_spec.
  - apply andb_true_iff in Hok as [A B]. apply put_invoke_dynamic_spec; assumption.
Qed.
Lemma lower_insn_spec i : cinsn_ok i = true -> wspec (lower_insn i) (fun _ _ => True).
Proof.
  destruct i; cbn [lower_insn cinsn_ok]; intros Hok; try (apply wspec_ret; intros; exact I).
  - eapply wspec_bind; [apply put_iconst_spec, Hok|]. intros x p0 _. apply wspec_ret. intros; exact I.
  - eapply wspec_bind; [apply put_imethodref_spec|]. intros x p0 _.
    eapply wspec_bind; [apply wspec_lift_res; intros; exact I|]. intros n p1 _. apply wspec_ret. intros; exact I.
  - eapply wspec_bind; [apply put_loadable_spec, Hok|]. intros x p0 _. apply wspec_ret. intros; exact I.
Qed.
Lemma lower_all_spec (is : list (option label * option cframe * cinsn)) :
  forallb (fun i => cinsn_ok (snd i)) is = true ->
  wspec (mapW (fun i => e <- lower_insn (snd i) ;; ret (fst (fst i), e)) is)
        (fun _ es => map fst es = map (fun i => fst (fst i)) is).
Proof.
  induction is as [|i is IH]; cbn [forallb mapW map]; intros Hok.
  - apply wspec_ret. intros p. reflexivity.
  - apply andb_true_iff in Hok as [A B].
    eapply (wspec_bind _ _ (fun _ le => fst le = fst (fst i))).
    { eapply wspec_bind; [apply lower_insn_spec, A|]. intros e p0 _. apply wspec_ret. intros p _. reflexivity. }
    intros le p0 Hle. eapply wspec_bind; [apply IH, B|]. intros es p1 Hes.
    apply wspec_ret. intros p _ _. cbn [map]. rewrite Hle, Hes. reflexivity.
Qed.

Lemma body_labels_map (es : body) : body_labels es = flat_map olist (map fst es).
Proof. unfold body_labels. induction es as [|e es IH]; cbn [flat_map map]; [reflexivity|]. rewrite IH. reflexivity. Qed.
Lemma insn_labels_map is : insn_labels is = flat_map olist (map (fun i : option label * option cframe * cinsn => fst (fst i)) is).
Proof. unfold insn_labels. induction is as [|e es IH]; cbn [flat_map map]; [reflexivity|]. rewrite IH. reflexivity. Qed.

Lemma cframes_at_pos (P : Z -> Prop) : forall pos is, Forall P pos -> Forall (fun pf => P (fst pf)) (cframes_at pos is).
Proof.
  induction pos as [|p pos IH]; intros [|[[lb [f|]] i] is] H; cbn [cframes_at]; try constructor; inversion H; subst; auto.
Qed.
Lemma cframes_at_ok : forall pos is,
  forallb (fun i : option label * option cframe * cinsn => match snd (fst i) with Some f => cframe_ok f | None => true end) is = true ->
  forallb (fun pf => cframe_ok (snd pf)) (cframes_at pos is) = true.
Proof.
  induction pos as [|p pos IH]; intros [|[[lb [f|]] i] is]; cbn [cframes_at forallb fst snd]; try reflexivity.
  - intros H. apply andb_true_iff in H as [A B]. rewrite A. apply IH, B.
  - intros H. apply IH, H.
Qed.

Definition fa_exc (labs : labmap) (x : cexception) : option (Z * Z * Z * option bytes) :=
  match lget labs (x_start x), lget labs (x_end x), lget labs (x_handler x) with
  | Some a, Some b, Some h => Some (a, b, h, x_catch x)
  | _, _, _ => None
  end.
Definition pe_exc (c : cpool) : parser (Z * Z * Z * option bytes) :=
  s <~ p_u16 ;; e <~ p_u16 ;; h <~ p_u16 ;; ct <~ p_idx (get_opt get_class) c ;; pret (s, e, h, ct).
Lemma exc_spec labs x : lbounded labs ->
  wspec (t <- lift_out (ELabel labs [x_start x; x_end x; x_handler x]) (try_get3 labs (x_start x, x_end x, x_handler x)) ;; ct <- put_opt put_class (x_catch x) ;;
         ret (be16 (fst (fst t)) ++ be16 (snd (fst t)) ++ be16 (snd t) ++ be16 ct))
        (fun p b => exists y, fa_exc labs x = Some y /\ decodes pe_exc y p b).
Proof.
  intros Hlb. eapply wspec_bind; [apply wspec_lift_out; intros a p Ha; exact Ha|]. intros t p0 Ht. cbn beta in Ht.
  unfold try_get3, try_get in Ht. cbn [fst snd] in Ht.
  destruct (lget labs (x_start x)) as [a|] eqn:Ea; [|discriminate]. destruct (lget labs (x_end x)) as [b|] eqn:Eb; [|discriminate].
  destruct (lget labs (x_handler x)) as [h|] eqn:Eh; [|discriminate]. injection Ht as <-. cbn [fst snd].
  eapply wspec_bind; [apply put_opt_spec; intros y; apply put_class_spec|]. intros ct p1 Hct.
  apply wspec_ret. intros p He1 He0. unfold fa_exc. rewrite Ea, Eb, Eh. eexists. split; [reflexivity|].
  pose proof (Hlb _ _ Ea). pose proof (Hlb _ _ Eb). pose proof (Hlb _ _ Eh).
  intros p' c rest He Ha. unfold pe_exc. rewrite <- !app_assoc. rewrite !pb_u16 by assumption.
  rewrite (pb_idx _ _ (x_catch x) p1 ct p' c) by (try apply Hct; eauto with pext). reflexivity.
Qed.

Lemma lspec_nil {D} (Pa : cpool -> parser D) : lspec Pa [] (Some []).
Proof. apply (lspec_Forall2 Pa [] []). constructor. Qed.

Lemma code_attrs_spec c labs pos :
  lbounded labs -> Forall (fun p => 0 <= p <= 65535) pos -> ccode_ok c = true ->
  lspec (p_attr0 AtCode)
    (nattr (cframes_at pos (c_insns c)) (fun frs => wattr s_StackMapTable (
                         n <- w_u16len (zlen frs) ;; fb <- w_frames labs None frs ;; ret (n ++ concat fb))) ++
     oattr (c_lines c) (fun l => wattr s_LineNumberTable (
                         wslice16 (fun e => p <- lift_out (ELabel labs [fst e]) (try_get labs (fst e)) ;; ret (be16 p ++ be16 (snd e))) l)) ++
     match c_locals c with
     | None => []
     | Some lvs =>
         (if 0 <? opt_count lv_desc lvs then
            [wattr s_LocalVariableTable (
               n <- w_u16len (opt_count lv_desc lvs) ;;
               es <- mapW (fun v => match lv_desc v with Some d => w_lv labs v d | None => ret [] end) lvs ;;
               ret (n ++ concat es))] else []) ++
         (if 0 <? opt_count lv_sig lvs then
            [wattr s_LocalVariableTypeTable (
               n <- w_u16len (opt_count lv_sig lvs) ;;
               es <- mapW (fun v => match lv_sig v with Some d => w_lv labs v d | None => ret [] end) lvs ;;
               ret (n ++ concat es))] else [])
     end ++
     nattr (c_tvis c) (fun l => wattr s_RVTAnn (write_type_annotations labs l)) ++
     nattr (c_tinvis c) (fun l => wattr s_RITAnn (write_type_annotations labs l)) ++
     map wunknown (c_unknown c))
    (oapp (match cframes_at pos (c_insns c) with
           | [] => Some []
           | frs => omap (fun x => [AStackMapTable x]) (fa_frames labs frs)
           end)
    (oapp (match c_lines c with
           | None => Some []
           | Some l => omap (fun x => [ALineNumberTable x]) (fa_lines labs l)
           end)
    (oapp (match c_locals c with
           | None => Some []
           | Some lvs =>
               oapp (if 0 <? opt_count lv_desc lvs then omap (fun x => [ALocalVariableTable x]) (fa_lvs labs lv_desc lvs) else Some [])
                    (if 0 <? opt_count lv_sig lvs then omap (fun x => [ALocalVariableTypeTable x]) (fa_lvs labs lv_sig lvs) else Some [])
           end)
    (oapp (fa_tas true labs (c_tvis c)) (oapp (fa_tas false labs (c_tinvis c)) (Some (fa_unknown (c_unknown c)))))))).
Proof.
  intros Hlb Hpos Hok. unfold ccode_ok in Hok. bsplit.
  apply lspec_app.
  { destruct (cframes_at pos (c_insns c)) as [|pf frs] eqn:Ef; [apply lspec_nil|]. cbn [nattr]. apply lspec_one. rewrite <- Ef. apply smt_spec; [exact Hlb| |].
    - apply cframes_at_ok. match goal with H : forallb _ (c_insns c) = true |- _ => rewrite forallb_forall in H end.
      apply forallb_forall. intros i Hin. match goal with H : forall x, In x (c_insns c) -> _ |- _ => specialize (H i Hin) end. bsplit. assumption.
    - apply (cframes_at_pos (fun p => 0 <= p <= 65535)), Hpos. }
  apply lspec_app.
  { destruct (c_lines c) as [l|]; cbn [oattr]; [|apply lspec_nil]. apply lspec_one. apply lnt_spec; assumption. }
  apply lspec_app.
  { destruct (c_locals c) as [lvs|]; [|apply lspec_nil]. apply lspec_app.
    - destruct (0 <? opt_count lv_desc lvs); [|apply lspec_nil]. apply lspec_one.
      apply (lv_attr_spec labs lv_desc lvs s_LocalVariableTable ALocalVariableTable); [exact Hlb|assumption|reflexivity].
    - destruct (0 <? opt_count lv_sig lvs); [|apply lspec_nil]. apply lspec_one.
      apply (lv_attr_spec labs lv_sig lvs s_LocalVariableTypeTable ALocalVariableTypeTable); [exact Hlb|assumption|reflexivity]. }
  apply lspec_app; [apply (code_tas_spec labs true); assumption|].
  apply lspec_app; [apply (code_tas_spec labs false); assumption|].
  apply lspec_Forall2. apply wunknowns_spec0. assumption.
Qed.

Lemma wspec_err {A} c (Q : pool -> A -> Prop) : wspec (@werr A c) Q.
Proof. intros s a s' _ H. discriminate. Qed.
Lemma wspec_panic {A} (Q : pool -> A -> Prop) : wspec (fun _ : wst => @WPANIC (A * wst)) Q.
Proof. intros s a s' _ H. discriminate. Qed.

Lemma oapp_some {A} (a b : option (list A)) r : oapp a b = Some r -> exists x y, a = Some x /\ b = Some y /\ r = x ++ y.
Proof. destruct a as [x|], b as [y|]; cbn [oapp]; try discriminate. intros [= <-]. exists x, y. repeat split. Qed.

Lemma write_code_attr_spec c : ccode_ok c = true ->
  wspec (write_code_attr c) (fun p r => exists d, fa_code c (snd r) = Some d /\ decodes p_code d p (fst r)).
Proof.
  intros Hok. pose proof Hok as Hok0. unfold ccode_ok in Hok. bsplit. unfold write_code_attr.
  destruct (c_max c) as [[ms ml]|] eqn:Emax; [|apply wspec_err]. bsplit. okfacts.
  eapply wspec_bind.
  { apply lower_all_spec. match goal with H : forallb _ (c_insns c) = true |- _ => rewrite forallb_forall in H; apply forallb_forall; intros i Hin; specialize (H i Hin) end.
    bsplit. assumption. }
  intros es p0 Hes.
  destruct (wc_loop (S (length es)) [] es (c_last c)) as [[[[w labs] Wd]| |]|] eqn:Ew; try apply wspec_err; try apply wspec_panic.
  assert (Hu : unique_labels es (c_last c)).
  { unfold unique_labels. rewrite body_labels_map, Hes, <- insn_labels_map. apply nodupN_spec. assumption. }
  destruct (wc_loop_facts _ _ _ _ _ Hu Ew) as (Hlb & Hpos & Hlen & Hposlen).
  eapply wspec_bind; [apply (wslice16_spec_gen _ pe_exc (fa_exc labs)); intros x _; apply exc_spec, Hlb|]. intros exc p1 (exs & Hexs & Hexc).
  eapply wspec_bind; [apply (wattrs_lspec (p_attr0 AtCode) _ _ (code_attrs_spec c labs (run_pos Wd 0%N init es) Hlb Hpos Hok0))|]. intros ab p2 (ds & Hds & Hab).
  apply wspec_ret. intros p He2 He1 He0. cbn [fst snd].
  apply oapp_some in Hds as (sm & r1 & Hsm & Hr1 & ->). apply oapp_some in Hr1 as (ln & r2 & Hln & Hr2 & ->).
  apply oapp_some in Hr2 as (lv & r3 & Hlv & Hr3 & ->). apply oapp_some in Hr3 as (tv & r4 & Htv & Hr4 & ->).
  apply oapp_some in Hr4 as (ti & r5 & Hti & Hr5 & ->). injection Hr5 as <-.
  unfold fa_code. rewrite Emax. unfold fa_exc in Hexs. rewrite Hexs. cbn [obind].
  unfold fa_frames in Hsm. rewrite Hsm. cbn [obind]. unfold fa_lines in Hln. rewrite Hln. cbn [obind]. rewrite Hlv. cbn [obind].
  rewrite Htv, Hti. cbn [oapp obind]. eexists. split; [reflexivity|].
  intros p' c0 rest He Ha. unfold p_code. rewrite <- !app_assoc. rewrite !pb_u16 by assumption.
  unfold frame_code. rewrite <- app_assoc. rewrite pb_u32 by lia.
  destruct ((zlen w <? 1) || (65535 <? zlen w)) eqn:El; [apply orb_true_iff in El as [E|E]; apply Z.ltb_lt in E; lia|].
  rewrite pb_take. unfold pe_exc in Hexc. rewrite (pb_dec _ _ _ _ _ p' c0 _ Hexc) by eauto with pext.
  unfold p_attrs0. rewrite (pb_dec _ _ _ _ _ p' c0 _ Hab) by eauto with pext. unfold pret. rewrite <- ?app_assoc. reflexivity.
Qed.
