(* C02 — invariants of the writer state that every writer of the whole-class model preserves, proved once
   for an arbitrary invariant I that the primitives preserve (prim_ok), and instantiated twice:
   (1) the bootstrap-method table never holds an entry twice (put_bootstrap_method de-duplicates);
   (2) every CONSTANT_Dynamic / CONSTANT_InvokeDynamic entry of the pool has a bootstrap index inside the table
       (the decoder of C02/Decode.v does not check this; here it is a theorem about what the writer produces). *)
From FB Require Import C02.Model C02.Encode C02.Theory2 C02.Theory8 C02.Frames C02.Class C02.TheoryC2 C02.TheoryC4 C02.TheoryC6 C02.TheoryC10 C02.TheoryB1 C02.TheoryB2.
Local Open Scope Z_scope.

Definition wpres (I : wst -> Prop) {A} (m : W A) : Prop := forall s a s', I s -> m s = WOK (a, s') -> I s'.

Definition nondyn (c : centry) : Prop := match c with CDynamic _ _ | CInvokeDynamic _ _ => False | _ => True end.
Record prim_ok (I : wst -> Prop) : Prop := {
  po_put : forall c, nondyn c -> wpres I (put c);
  po_dyn : forall e nt, wpres I (b <- put_bsm_entry e ;; put (CDynamic b nt));
  po_indy : forall e nt, wpres I (b <- put_bsm_entry e ;; put (CInvokeDynamic b nt)) }.

Lemma wpres_ret I {A} (a : A) : wpres I (ret a). Proof. intros s x s' Hi H. apply ret_ok in H as [_ ->]. exact Hi. Qed.
Lemma wpres_bind I {A B} (m : W A) (f : A -> W B) : wpres I m -> (forall a, wpres I (f a)) -> wpres I (bind m f).
Proof. intros H1 H2 s b s' Hi H. apply bind_ok in H as (a & s1 & Hm & Hf). exact (H2 _ _ _ _ (H1 _ _ _ Hi Hm) Hf). Qed.
Lemma wpres_lift_res I {A} c (x : res A) : wpres I (lift_res c x). Proof. intros s a s' Hi H. apply lift_res_ok in H as [_ ->]. exact Hi. Qed.
Lemma wpres_lift_out I {A} c (x : out A) : wpres I (lift_out c x). Proof. intros s a s' Hi H. apply lift_out_ok in H as [_ ->]. exact Hi. Qed.
Lemma wpres_err I {A} c : wpres I (@werr A c). Proof. intros s a s' Hi H. discriminate. Qed.
Lemma wpres_panic I {A} : wpres I (fun _ : wst => @WPANIC (A * wst)). Proof. intros s a s' Hi H. discriminate. Qed.
Lemma wpres_mapW I {A B} (f : A -> W B) l : (forall x, In x l -> wpres I (f x)) -> wpres I (mapW f l).
Proof.
  induction l as [|x l IH]; intros H; cbn [mapW]; [apply wpres_ret|].
  apply wpres_bind; [apply H; left; reflexivity|]. intros y. apply wpres_bind; [apply IH; intros z Hz; apply H; right; exact Hz|]. intros ys. apply wpres_ret.
Qed.
Lemma wpres_seqW I {A} (l : list (W A)) : (forall m, In m l -> wpres I m) -> wpres I (seqW l).
Proof.
  induction l as [|x l IH]; intros H; cbn [seqW]; [apply wpres_ret|].
  apply wpres_bind; [apply H; left; reflexivity|]. intros y. apply wpres_bind; [apply IH; intros z Hz; apply H; right; exact Hz|]. intros ys. apply wpres_ret.
Qed.

Create HintDb wpres.
Ltac pr1 HI := match goal with
  | |- wpres _ (ret _) => apply wpres_ret
  | |- wpres _ (put _) => apply (po_put _ HI); exact I
  | |- wpres _ (bind (put_bsm_entry _) (fun b => put (CDynamic b _))) => apply (po_dyn _ HI)
  | |- wpres _ (bind (put_bsm_entry _) (fun b => put (CInvokeDynamic b _))) => apply (po_indy _ HI)
  | |- wpres _ (lift_res _ _) => apply wpres_lift_res
  | |- wpres _ (lift_out _ _) => apply wpres_lift_out
  | |- wpres _ (bind _ _) => apply wpres_bind; [|intros ?]
  | |- wpres _ (werr _) => apply wpres_err
  | |- wpres _ (fun _ => WPANIC) => apply wpres_panic
  | |- wpres _ (match ?o with Some _ => _ | None => _ end) => destruct o
  | |- wpres _ (if ?b then _ else _) => destruct b
  | |- wpres _ (w_u16len _) => apply wpres_lift_res
  | |- wpres _ (w_u8len _) => apply wpres_lift_res
  end.
Ltac pr HI := repeat pr1 HI; auto with wpres.

Lemma wpres_put_utf8 I s : prim_ok I -> wpres I (put_utf8 s). Proof. intros HI. unfold put_utf8. pr HI. Qed.
#[global] Hint Resolve wpres_put_utf8 : wpres.
Lemma wpres_put_class I n : prim_ok I -> wpres I (put_class n). Proof. intros HI. unfold put_class. pr HI. Qed.
Lemma wpres_put_package I n : prim_ok I -> wpres I (put_package n). Proof. intros HI. unfold put_package. pr HI. Qed.
Lemma wpres_put_module I n : prim_ok I -> wpres I (put_module n). Proof. intros HI. unfold put_module. pr HI. Qed.
Lemma wpres_put_string I n : prim_ok I -> wpres I (put_string n). Proof. intros HI. unfold put_string. pr HI. Qed.
Lemma wpres_put_nat I n d : prim_ok I -> wpres I (put_nat n d). Proof. intros HI. unfold put_nat. pr HI. Qed.
#[global] Hint Resolve wpres_put_class wpres_put_package wpres_put_module wpres_put_string wpres_put_nat : wpres.
Lemma wpres_put_fieldref I r : prim_ok I -> wpres I (put_fieldref r). Proof. intros HI. unfold put_fieldref. pr HI. Qed.
Lemma wpres_put_methodref I r : prim_ok I -> wpres I (put_methodref r). Proof. intros HI. unfold put_methodref. pr HI. Qed.
Lemma wpres_put_imethodref I r : prim_ok I -> wpres I (put_imethodref r). Proof. intros HI. unfold put_imethodref. pr HI. Qed.
#[global] Hint Resolve wpres_put_fieldref wpres_put_methodref wpres_put_imethodref : wpres.
Lemma wpres_put_handle I h : prim_ok I -> wpres I (put_handle h). Proof. intros HI. unfold put_handle, put_method_or_imethod. pr HI. Qed.
#[global] Hint Resolve wpres_put_handle : wpres.
Lemma wpres_put_opt I {A} (f : A -> W Z) o : (forall a, wpres I (f a)) -> wpres I (put_opt f o).
Proof. intros H. destruct o; cbn [put_opt]; [apply H|apply wpres_ret]. Qed.
Lemma wpres_put_loadable I l : prim_ok I -> wpres I (put_loadable l).
Proof.
  intros HI. induction l as [v|v|v|v|n|s|h|d|n d h args IH] using loadable_ind2; cbn [put_loadable]; try (pr HI; fail).
  rewrite go_is_mapW. apply wpres_bind; [auto with wpres|intros nt]. apply wpres_bind; [|intros idxs; apply (po_dyn _ HI)].
  apply wpres_mapW. intros x Hx. rewrite Forall_forall in IH. apply IH, Hx.
Qed.
#[global] Hint Resolve wpres_put_loadable : wpres.
Lemma wpres_put_invoke_dynamic I n d h a : prim_ok I -> wpres I (put_invoke_dynamic n d h a).
Proof.
  intros HI. unfold put_invoke_dynamic. apply wpres_bind; [auto with wpres|intros nt]. apply wpres_bind; [|intros idxs; apply (po_indy _ HI)].
  apply wpres_mapW. intros; apply wpres_put_loadable, HI.
Qed.
#[global] Hint Resolve wpres_put_invoke_dynamic : wpres.
Lemma wpres_put_iconst I k : prim_ok I -> wpres I (put_iconst k). Proof. intros HI. destruct k; cbn [put_iconst]; auto with wpres. Qed.
Lemma wpres_put_econst I k : prim_ok I -> wpres I (put_econst k). Proof. intros HI. destruct k; cbn [put_econst]; pr HI. Qed.
Lemma wpres_put_constant_value I k : prim_ok I -> wpres I (put_constant_value k). Proof. intros HI. destruct k; cbn [put_constant_value]; pr HI. Qed.
#[global] Hint Resolve wpres_put_iconst wpres_put_econst wpres_put_constant_value : wpres.
Lemma wpres_lower_insn I i : prim_ok I -> wpres I (lower_insn i). Proof. intros HI. destruct i; cbn [lower_insn]; pr HI. Qed.
#[global] Hint Resolve wpres_lower_insn : wpres.

Lemma wpres_wslice16 I {A} (f : A -> W bytes) l : (forall x, In x l -> wpres I (f x)) -> wpres I (wslice16 f l).
Proof. intros H. unfold wslice16. apply wpres_bind; [apply wpres_lift_res|intros c]. apply wpres_bind; [apply wpres_mapW, H|intros; apply wpres_ret]. Qed.
Lemma wpres_wslice8 I {A} (f : A -> W bytes) l : (forall x, In x l -> wpres I (f x)) -> wpres I (wslice8 f l).
Proof. intros H. unfold wslice8. apply wpres_bind; [apply wpres_lift_res|intros c]. apply wpres_bind; [apply wpres_mapW, H|intros; apply wpres_ret]. Qed.
Lemma wpres_wattr I name body : prim_ok I -> wpres I body -> wpres I (wattr name body).
Proof. intros HI H. unfold wattr. pr HI. Qed.
Lemma wpres_wattr_fix I name len body : prim_ok I -> wpres I body -> wpres I (wattr_fix name len body).
Proof. intros HI H. unfold wattr_fix. pr HI. Qed.
Lemma wpres_wattr_raw I name content : prim_ok I -> wpres I (wattr_raw name content).
Proof. intros HI. unfold wattr_raw. pr HI. Qed.
Lemma wpres_wattrs I l : (forall m, In m l -> wpres I m) -> wpres I (wattrs l).
Proof. intros H. unfold wattrs. apply wpres_bind; [apply wpres_seqW, H|intros bs]. apply wpres_bind; [apply wpres_lift_res|intros; apply wpres_ret]. Qed.
Lemma wpres_idx16 I m : wpres I m -> wpres I (idx16 m).
Proof. intros H. unfold idx16. apply wpres_bind; [exact H|intros; apply wpres_ret]. Qed.
#[global] Hint Resolve wpres_wattr_raw : wpres.

Lemma wpres_write_elem I e : prim_ok I -> wpres I (write_elem e).
Proof.
  intros HI. induction e as [t k|a b|d|ty ps IH|vs IH] using elem_ind2; cbn [write_elem]; try (pr HI; fail).
  - apply wpres_bind; [auto with wpres|intros a]. apply wpres_bind; [apply wpres_lift_res|intros c]. apply wpres_bind; [|intros; apply wpres_ret].
    clear -IH HI. induction ps as [|[n v] r IHr]; [apply wpres_ret|]. inversion IH as [|? ? Hv Hr]; subst. cbn [snd] in Hv.
    apply wpres_bind; [auto with wpres|intros i]. apply wpres_bind; [exact Hv|intros b]. apply wpres_bind; [apply IHr, Hr|intros; apply wpres_ret].
  - apply wpres_bind; [apply wpres_lift_res|intros c]. apply wpres_bind; [|intros; apply wpres_ret].
    clear -IH. induction vs as [|v r IHr]; [apply wpres_ret|]. inversion IH as [|? ? Hv Hr]; subst.
    apply wpres_bind; [exact Hv|intros b]. apply wpres_bind; [apply IHr, Hr|intros; apply wpres_ret].
Qed.
#[global] Hint Resolve wpres_write_elem : wpres.
Lemma wpres_write_pairs I ps : prim_ok I -> wpres I (write_pairs ps).
Proof. intros HI. unfold write_pairs. apply wpres_wslice16. intros x _. pr HI. Qed.
#[global] Hint Resolve wpres_write_pairs : wpres.
Lemma wpres_write_annotations I l : prim_ok I -> wpres I (write_annotations l).
Proof. intros HI. unfold write_annotations. apply wpres_wslice16. intros x _. pr HI. Qed.
#[global] Hint Resolve wpres_write_annotations : wpres.
Lemma wpres_write_target I labs t : prim_ok I -> wpres I (write_target labs t).
Proof. intros HI. destruct t; cbn [write_target]; pr HI. apply wpres_mapW. intros e _. pr HI. Qed.
Lemma wpres_write_type_path I p : prim_ok I -> wpres I (write_type_path p).
Proof. intros HI. unfold write_type_path. apply wpres_wslice8. intros x _. pr HI. Qed.
#[global] Hint Resolve wpres_write_type_path wpres_write_target : wpres.
Lemma wpres_write_type_annotations I labs l : prim_ok I -> wpres I (write_type_annotations labs l).
Proof. intros HI. unfold write_type_annotations. apply wpres_wslice16. intros a _. pr HI. Qed.
#[global] Hint Resolve wpres_write_type_annotations : wpres.

Lemma wpres_battr I b m0 : wpres I m0 -> forall m, In m (battr b m0) -> wpres I m.
Proof. intros H m. destruct b; cbn [battr In]; [intros [<-|[]]; exact H|contradiction]. Qed.
Lemma wpres_oattr I {A} (o : option A) f : (forall a, wpres I (f a)) -> forall m, In m (oattr o f) -> wpres I m.
Proof. intros H m. destruct o; cbn [oattr In]; [intros [<-|[]]; apply H|contradiction]. Qed.
Lemma wpres_nattr I {A} (l : list A) f : (forall a, wpres I (f a)) -> forall m, In m (nattr l f) -> wpres I m.
Proof. intros H m. destruct l; cbn [nattr In]; [contradiction|intros [<-|[]]; apply H]. Qed.
Lemma wpres_w_annots I labs a : prim_ok I -> forall m, In m (w_annots labs a) -> wpres I m.
Proof. intros HI. unfold w_annots. repeat apply in_app_P; apply wpres_nattr; intros l; apply wpres_wattr; auto with wpres. Qed.
Lemma wpres_w_signature I o : prim_ok I -> forall m, In m (w_signature o) -> wpres I m.
Proof. intros HI. unfold w_signature. apply wpres_oattr. intros s. apply wpres_wattr_fix; [exact HI|]. apply wpres_idx16. auto with wpres. Qed.
Lemma wpres_wunknowns I u : prim_ok I -> forall m, In m (map wunknown u) -> wpres I m.
Proof. intros HI m Hin. apply in_map_iff in Hin as (a & <- & _). unfold wunknown. auto with wpres. Qed.

Lemma wpres_flag I b name : prim_ok I -> forall m, In m (battr b (wattr_fix name 0 (ret []))) -> wpres I m.
Proof. intros HI. apply wpres_battr, wpres_wattr_fix; [exact HI|apply wpres_ret]. Qed.

Lemma wpres_write_field I f : prim_ok I -> wpres I (write_field f).
Proof.
  intros HI. unfold write_field. apply wpres_bind; [auto with wpres|intros n]. apply wpres_bind; [auto with wpres|intros d].
  apply wpres_bind; [|intros a; apply wpres_ret]. apply wpres_wattrs.
  apply in_app_P; [apply wpres_flag, HI|]. apply in_app_P; [apply wpres_flag, HI|].
  apply in_app_P; [apply wpres_oattr; intros c; apply wpres_wattr_fix; [exact HI|]; apply wpres_idx16; auto with wpres|].
  apply in_app_P; [apply wpres_w_signature, HI|]. apply in_app_P; [apply wpres_w_annots, HI|apply wpres_wunknowns, HI].
Qed.
Lemma wpres_write_record_component I r : prim_ok I -> wpres I (write_record_component r).
Proof.
  intros HI. unfold write_record_component. apply wpres_bind; [auto with wpres|intros n]. apply wpres_bind; [auto with wpres|intros d].
  apply wpres_bind; [|intros a; apply wpres_ret]. apply wpres_wattrs.
  apply in_app_P; [apply wpres_w_signature, HI|]. apply in_app_P; [apply wpres_w_annots, HI|apply wpres_wunknowns, HI].
Qed.
Lemma wpres_write_module I m : prim_ok I -> wpres I (write_module m).
Proof.
  intros HI. unfold write_module. pr HI; try (apply wpres_put_opt; auto with wpres);
  apply wpres_wslice16; intros x _; pr HI; try (apply wpres_put_opt; auto with wpres); try (apply wpres_wslice16; intros y _; apply wpres_idx16; auto with wpres); try (apply wpres_idx16; auto with wpres).
Qed.
#[global] Hint Resolve wpres_write_field wpres_write_record_component wpres_write_module : wpres.

(* ---- the Code attribute ---- *)
Lemma wpres_lower_vti I v : prim_ok I -> wpres I (lower_vti v). Proof. intros HI. destruct v; cbn [lower_vti]; pr HI. Qed.
#[global] Hint Resolve wpres_lower_vti : wpres.
Lemma wpres_lower_frame I f : prim_ok I -> wpres I (lower_frame f).
Proof. intros HI. destruct f; cbn [lower_frame]; pr HI; apply wpres_mapW; intros; auto with wpres. Qed.
#[global] Hint Resolve wpres_lower_frame : wpres.
Lemma wpres_w_frames I labs : prim_ok I -> forall frs prev, wpres I (w_frames labs prev frs).
Proof. intros HI. induction frs as [|[off f] frs IH]; intros prev; cbn [w_frames]; [apply wpres_ret|]. pr HI; try apply IH. Qed.
Lemma wpres_w_lv I labs v d : prim_ok I -> wpres I (w_lv labs v d). Proof. intros HI. unfold w_lv. pr HI. Qed.
#[global] Hint Resolve wpres_w_frames wpres_w_lv : wpres.

Lemma wpres_code_tail I c ms ml es w labs Wd : prim_ok I -> wpres I (code_tail c ms ml es w labs Wd).
Proof.
  intros HI. unfold code_tail. apply wpres_bind.
  { apply wpres_wslice16. intros x _. pr HI. apply wpres_put_opt. auto with wpres. }
  intros exc. apply wpres_bind; [|intros; apply wpres_ret]. apply wpres_wattrs.
  repeat apply in_app_P.
  - apply wpres_nattr. intros frs. apply wpres_wattr; [exact HI|]. pr HI.
  - apply wpres_oattr. intros l. apply wpres_wattr; [exact HI|]. apply wpres_wslice16. intros e _. pr HI.
  - destruct (c_locals c) as [lvs|]; [|intros m []]. apply in_app_P.
    + destruct (0 <? opt_count lv_desc lvs); [|intros m []]. intros m [<-|[]]. apply wpres_wattr; [exact HI|]. pr HI. apply wpres_mapW. intros v _. destruct (lv_desc v); pr HI.
    + destruct (0 <? opt_count lv_sig lvs); [|intros m []]. intros m [<-|[]]. apply wpres_wattr; [exact HI|]. pr HI. apply wpres_mapW. intros v _. destruct (lv_sig v); pr HI.
  - apply wpres_nattr. intros l. apply wpres_wattr; [exact HI|]. auto with wpres.
  - apply wpres_nattr. intros l. apply wpres_wattr; [exact HI|]. auto with wpres.
  - apply wpres_wunknowns, HI.
Qed.
Lemma wpres_write_code_attr I c : prim_ok I -> wpres I (write_code_attr c).
Proof.
  intros HI s r s' Hi. rewrite write_code_attr_unfold. destruct (c_max c) as [[ms ml]|]; [|discriminate].
  destruct (mapW _ (c_insns c) s) as [[es s1]|?c|] eqn:El; try discriminate.
  assert (H1 : I s1). { revert El. apply wpres_mapW; [|exact Hi]. intros i _. pr HI. }
  destruct (wc_loop _ _ es (c_last c)) as [[[[w labs] Wd]| |]|]; try discriminate.
  intros H. exact (wpres_code_tail I _ _ _ _ _ _ _ HI _ _ _ H1 H).
Qed.
#[global] Hint Resolve wpres_write_code_attr : wpres.

Lemma wpres_write_method I m : prim_ok I -> wpres I (write_method m).
Proof.
  intros HI. unfold write_method.
  apply wpres_bind; [auto with wpres|intros n]. apply wpres_bind; [auto with wpres|intros d].
  apply wpres_bind.
  { apply wpres_seqW. apply in_app_P; apply wpres_flag, HI. }
  intros dep. apply wpres_bind.
  { destruct (md_code m) as [c|]; [|apply wpres_ret]. pr HI. }
  intros code. apply wpres_bind.
  { apply wpres_seqW.
    apply in_app_P; [apply wpres_oattr; intros l; apply wpres_wattr; [exact HI|]; apply wpres_wslice16; intros x _; apply wpres_idx16; auto with wpres|].
    apply in_app_P; [apply wpres_w_signature, HI|]. apply in_app_P; [apply wpres_w_annots, HI|].
    apply in_app_P; [apply wpres_oattr; intros e; apply wpres_wattr; [exact HI|]; auto with wpres|].
    apply in_app_P; [apply wpres_oattr; intros l; apply wpres_wattr; [exact HI|]; apply wpres_wslice8; intros x _; pr HI; apply wpres_put_opt; auto with wpres|].
    apply wpres_wunknowns, HI. }
  intros rest. pr HI.
Qed.
#[global] Hint Resolve wpres_write_method : wpres.

(* the body of write_class_aux up to the point where the table is taken *)
Definition class_head (t : cclass) : W (list (bytes * code_aux) * list bytes) :=
  this <- put_class (k_name t) ;;
  super <- put_opt put_class (k_super t) ;;
  ifs <- wslice16 (fun x => idx16 (put_class x)) (k_interfaces t) ;;
  fields <- wslice16 write_field (k_fields t) ;;
  nm <- w_u16len (zlen (k_methods t)) ;;
  methods <- mapW write_method (k_methods t) ;;
  pre <- seqW (
      battr (k_deprecated t) (wattr_fix s_Deprecated 0 (ret [])) ++
      battr (k_synthetic t) (wattr_fix s_Synthetic 0 (ret [])) ++
      oattr (k_inner t) (fun l => wattr s_InnerClasses (
              wslice16 (fun ic => a <- put_class (ic_inner ic) ;; b <- put_opt put_class (ic_outer ic) ;;
                                  c <- put_opt put_utf8 (ic_name ic) ;;
                                  ret (be16 a ++ be16 b ++ be16 c ++ be16 (ic_flags ic))) l)) ++
      oattr (k_enclosing t) (fun e => wattr_fix s_EnclosingMethod 4 (
              a <- put_class (fst e) ;; b <- put_opt (fun nd => put_nat (fst nd) (snd nd)) (snd e) ;; ret (be16 a ++ be16 b))) ++
      w_signature (k_signature t) ++
      oattr (k_source_file t) (fun s => wattr_fix s_SourceFile 2 (idx16 (put_utf8 s))) ++
      oattr (k_source_debug t) (fun s => wattr_raw s_SourceDebugExtension s) ++
      w_annots [] (k_annots t) ++
      oattr (k_module t) (fun m => wattr s_Module (write_module m)) ++
      oattr (k_module_packages t) (fun l => wattr s_ModulePackages (wslice16 (fun x => idx16 (put_package x)) l)) ++
      oattr (k_module_main t) (fun c => wattr_fix s_ModuleMainClass 2 (idx16 (put_class c))) ++
      oattr (k_nest_host t) (fun c => wattr_fix s_NestHost 2 (idx16 (put_class c))) ++
      oattr (k_nest_members t) (fun l => wattr s_NestMembers (wslice16 (fun x => idx16 (put_class x)) l)) ++
      oattr (k_permitted t) (fun l => wattr s_PermittedSubclasses (wslice16 (fun x => idx16 (put_class x)) l)) ++
      nattr (k_record t) (fun l => wattr s_Record (wslice16 write_record_component l))) ;;
  ret (methods, pre).

Lemma wpres_class_head I t : prim_ok I -> wpres I (class_head t).
Proof.
  intros HI. unfold class_head.
  apply wpres_bind; [auto with wpres|intros this]. apply wpres_bind; [apply wpres_put_opt; auto with wpres|intros super].
  apply wpres_bind; [apply wpres_wslice16; intros x _; apply wpres_idx16; auto with wpres|intros ifs].
  apply wpres_bind; [apply wpres_wslice16; intros x _; auto with wpres|intros fields].
  apply wpres_bind; [apply wpres_lift_res|intros nm].
  apply wpres_bind; [apply wpres_mapW; intros m _; auto with wpres|intros methods].
  apply wpres_bind; [|intros; apply wpres_ret]. apply wpres_seqW.
  apply in_app_P; [apply wpres_flag, HI|]. apply in_app_P; [apply wpres_flag, HI|].
  apply in_app_P; [apply wpres_oattr; intros l; apply wpres_wattr; [exact HI|]; apply wpres_wslice16; intros ic _; pr HI; apply wpres_put_opt; auto with wpres|].
  apply in_app_P; [apply wpres_oattr; intros e; apply wpres_wattr_fix; [exact HI|]; pr HI; apply wpres_put_opt; intros nd; auto with wpres|].
  apply in_app_P; [apply wpres_w_signature, HI|].
  apply in_app_P; [apply wpres_oattr; intros s; apply wpres_wattr_fix; [exact HI|]; apply wpres_idx16; auto with wpres|].
  apply in_app_P; [apply wpres_oattr; intros s; auto with wpres|].
  apply in_app_P; [apply wpres_w_annots, HI|].
  apply in_app_P; [apply wpres_oattr; intros m; apply wpres_wattr; [exact HI|]; auto with wpres|].
  apply in_app_P; [apply wpres_oattr; intros l; apply wpres_wattr; [exact HI|]; apply wpres_wslice16; intros x _; apply wpres_idx16; auto with wpres|].
  apply in_app_P; [apply wpres_oattr; intros s; apply wpres_wattr_fix; [exact HI|]; apply wpres_idx16; auto with wpres|].
  apply in_app_P; [apply wpres_oattr; intros s; apply wpres_wattr_fix; [exact HI|]; apply wpres_idx16; auto with wpres|].
  apply in_app_P; [apply wpres_oattr; intros l; apply wpres_wattr; [exact HI|]; apply wpres_wslice16; intros x _; apply wpres_idx16; auto with wpres|].
  apply in_app_P; [apply wpres_oattr; intros l; apply wpres_wattr; [exact HI|]; apply wpres_wslice16; intros x _; apply wpres_idx16; auto with wpres|].
  apply wpres_nattr. intros l. apply wpres_wattr; [exact HI|]. apply wpres_wslice16. intros x _. auto with wpres.
Qed.
Lemma wpres_w_bootstrap I : prim_ok I -> forall m, In m w_bootstrap -> wpres I m.
Proof.
  intros HI m [<-|[]] s a s' Hi. destruct (w_bsm s) as [|e tb]; [intros [= _ <-]; exact Hi|].
  revert Hi. apply wpres_wattr; [exact HI|]. pr HI. apply wpres_mapW. intros x _. pr HI.
Qed.

(* writers that never reach put_bootstrap_method keep the table as it is: everything after the table was taken *)
Definition wkeep {A} (m : W A) : Prop := forall s a s', m s = WOK (a, s') -> w_bsm s' = w_bsm s.
Lemma wkeep_ret {A} (a : A) : wkeep (ret a). Proof. intros s x s' H. apply ret_ok in H as [_ ->]. reflexivity. Qed.
Lemma wkeep_bind {A B} (m : W A) (f : A -> W B) : wkeep m -> (forall a, wkeep (f a)) -> wkeep (bind m f).
Proof. intros H1 H2 s b s' H. apply bind_ok in H as (a & s1 & Hm & Hf). rewrite (H2 _ _ _ _ Hf). exact (H1 _ _ _ Hm). Qed.
Lemma wkeep_lift_res {A} c (x : res A) : wkeep (lift_res c x). Proof. intros s a s' H. apply lift_res_ok in H as [_ ->]. reflexivity. Qed.
Lemma wkeep_put c : wkeep (put c). Proof. intros s a s' H. exact (put_keeps_bsm _ _ _ _ H). Qed.
Lemma wkeep_mapW {A B} (f : A -> W B) l : (forall x, In x l -> wkeep (f x)) -> wkeep (mapW f l).
Proof.
  induction l as [|x l IH]; intros H; cbn [mapW]; [apply wkeep_ret|].
  apply wkeep_bind; [apply H; left; reflexivity|]. intros y. apply wkeep_bind; [apply IH; intros z Hz; apply H; right; exact Hz|]. intros ys. apply wkeep_ret.
Qed.
Ltac kp1 := match goal with
  | |- wkeep (ret _) => apply wkeep_ret
  | |- wkeep (put _) => apply wkeep_put
  | |- wkeep (lift_res _ _) => apply wkeep_lift_res
  | |- wkeep (w_u16len _) => apply wkeep_lift_res
  | |- wkeep (bind _ _) => apply wkeep_bind; [|intros ?]
  | |- wkeep (if ?b then _ else _) => destruct b
  end.
Ltac kp := repeat kp1.
Lemma wkeep_put_utf8 s : wkeep (put_utf8 s). Proof. unfold put_utf8. kp. Qed.
Lemma wkeep_put_class n : wkeep (put_class n). Proof. unfold put_class. kp. apply wkeep_put_utf8. Qed.
Lemma wkeep_put_nat n d : wkeep (put_nat n d). Proof. unfold put_nat. kp; apply wkeep_put_utf8. Qed.
Lemma wkeep_put_handle h : wkeep (put_handle h).
Proof. unfold put_handle, put_method_or_imethod, put_fieldref, put_methodref, put_imethodref. kp; first [apply wkeep_put_class|apply wkeep_put_nat]. Qed.
Lemma wkeep_wattr name body : wkeep body -> wkeep (wattr name body).
Proof. intros H. unfold wattr. kp; [exact H|apply wkeep_put_utf8]. Qed.
Lemma wkeep_wattr_raw name content : wkeep (wattr_raw name content).
Proof. unfold wattr_raw. kp. apply wkeep_put_utf8. Qed.
Lemma wkeep_w_bootstrap : forall m, In m w_bootstrap -> wkeep m.
Proof.
  intros m [<-|[]] s a s'. cbv beta. destruct (w_bsm s) as [|e tb] eqn:E; [intros [= _ <-]; exact E|].
  intros H. rewrite <- E. revert H. apply wkeep_wattr. kp. apply wkeep_mapW. intros x _. kp. apply wkeep_put_handle.
Qed.

Lemma bind_run {A B} (m : W A) (f : A -> W B) s a s1 : m s = WOK (a, s1) -> bind m f s = f a s1.
Proof. unfold bind. intros ->. reflexivity. Qed.

(* the whole body: the state s7 at which the table is taken (a_bsm aux), and the final state sF whose pool is written
   (a_pool aux); nothing after s7 touches the table; every invariant of the primitives that holds at s7 holds at sF *)
Lemma class_states t bs aux : write_class_aux t = WOK (bs, aux) ->
  exists s7 sF r7, class_head t wst_new = WOK (r7, s7) /\ a_bsm aux = w_bsm s7 /\ a_pool aux = w_pool sF /\
    w_bsm sF = w_bsm s7 /\ forall I, prim_ok I -> I s7 -> I sF.
Proof.
  unfold write_class_aux.
  match goal with |- match ?body wst_new with _ => _ end = _ -> _ => destruct (body wst_new) as [[[[rest codes] tbl] sF]|?c|] eqn:Hbody; try discriminate end.
  destruct (pool_bytes (w_pool sF)) as [pb|]; [|discriminate]. intros [= <- <-]. cbn [a_bsm a_pool].
  apply bind_ok in Hbody as (this & s1 & R1 & Hbody). apply bind_ok in Hbody as (super & s2 & R2 & Hbody).
  apply bind_ok in Hbody as (ifs & s3 & R3 & Hbody). apply bind_ok in Hbody as (fields & s4 & R4 & Hbody).
  apply bind_ok in Hbody as (nm & s5 & R5 & Hbody). apply bind_ok in Hbody as (methods & s6 & R6 & Hbody).
  apply bind_ok in Hbody as (pre & s7 & R7 & Hbody).
  apply bind_ok in Hbody as (tbl' & s8 & R8 & Hbody). injection R8 as <- <-.
  apply bind_ok in Hbody as (bsm & s9 & R9 & Hbody). apply bind_ok in Hbody as (unk & s10 & R10 & Hbody).
  apply bind_ok in Hbody as (cnt & s11 & R11 & Hbody). apply ret_ok in Hbody as [Hret Hs]. subst s11. injection Hret as _ _ ->.
  apply lift_res_ok in R11 as [_ ->].
  exists s7, s10, (methods, pre). split.
  { unfold class_head.
    rewrite (bind_run _ _ _ _ _ R1); cbv beta. rewrite (bind_run _ _ _ _ _ R2); cbv beta. rewrite (bind_run _ _ _ _ _ R3); cbv beta.
    rewrite (bind_run _ _ _ _ _ R4); cbv beta. rewrite (bind_run _ _ _ _ _ R5); cbv beta. rewrite (bind_run _ _ _ _ _ R6); cbv beta.
    rewrite (bind_run _ _ _ _ _ R7); cbv beta. reflexivity. }
  split; [reflexivity|]. split; [reflexivity|]. split.
  - assert (K9 : w_bsm s9 = w_bsm s7).
    { revert R9. unfold w_bootstrap. cbn [seqW]. intros R9. apply bind_ok in R9 as (y & sy & Ry & R9). apply bind_ok in R9 as (ys & sz & Rz & R9).
      apply ret_ok in Rz as [_ ->]. apply ret_ok in R9 as [_ ->]. exact (wkeep_w_bootstrap _ (or_introl eq_refl) _ _ _ Ry). }
    rewrite <- K9. revert R10. apply wkeep_mapW. intros a _. unfold wunknown. apply wkeep_wattr_raw.
  - intros I HI Hi. assert (I9 : I s9) by (revert R9; apply wpres_seqW; [apply wpres_w_bootstrap, HI|exact Hi]).
    revert R10. apply wpres_mapW; [|exact I9]. intros a _. unfold wunknown. auto with wpres.
Qed.

(* ================= (1) the table holds no entry twice ================= *)
Lemma bsment_eqb_refl (e : bsment) : bsment_eqb e e = true.
Proof.
  destruct e as [[k [c n d] i] is]. unfold bsment_eqb, handle_eqb, memberref_eqb, bytes_eqb. cbn [fst snd h_kind h_ref h_iface mr_class mr_name mr_desc].
  rewrite Z.eqb_refl, !str_eqb_refl, eqb_reflx. cbn [andb]. induction is as [|x is IH]; cbn [zlist_eqb]; [reflexivity|]. rewrite Z.eqb_refl. exact IH.
Qed.
Lemma bsm_index_none e : forall l k, bsm_index l e k = None -> ~ In e l.
Proof.
  induction l as [|x l IH]; intros k H; [intros []|]. cbn [bsm_index] in H. destruct (bsment_eqb x e) eqn:E; [discriminate|].
  intros [->|Hin]; [rewrite bsment_eqb_refl in E; discriminate|exact (IH _ H Hin)].
Qed.
Lemma NoDup_app_one {A} (l : list A) x : NoDup l -> ~ In x l -> NoDup (l ++ [x]).
Proof.
  induction l as [|y l IH]; intros Hn Hx; cbn [app]; [constructor; [intros []|constructor]|].
  inversion Hn as [|? ? Hy Hl]; subst. constructor.
  - intros Hin. apply in_app_or in Hin as [Hin|[->|[]]]; [exact (Hy Hin)|apply Hx; left; reflexivity].
  - apply IH; [exact Hl|]. intros Hin. apply Hx. right. exact Hin.
Qed.
Definition Inodup (s : wst) : Prop := NoDup (w_bsm s).
Lemma put_bsm_entry_nodup e s b s' : Inodup s -> put_bsm_entry e s = WOK (b, s') -> Inodup s'.
Proof.
  unfold Inodup, put_bsm_entry. intros Hn. destruct (bsm_index (w_bsm s) e 0) eqn:E; [intros [= _ <-]; exact Hn|].
  destruct (u16max <? _); [discriminate|]. intros [= _ <-]. cbn [w_bsm].
  apply NoDup_app_one; [exact Hn|exact (bsm_index_none _ _ _ E)].
Qed.
Lemma prim_ok_nodup : prim_ok Inodup.
Proof.
  constructor.
  - intros c _ s a s' Hi H. unfold Inodup. rewrite (put_keeps_bsm _ _ _ _ H). exact Hi.
  - intros e nt s a s' Hi H. apply bind_ok in H as (b & s1 & Hb & H). unfold Inodup. rewrite (put_keeps_bsm _ _ _ _ H). exact (put_bsm_entry_nodup _ _ _ _ Hi Hb).
  - intros e nt s a s' Hi H. apply bind_ok in H as (b & s1 & Hb & H). unfold Inodup. rewrite (put_keeps_bsm _ _ _ _ H). exact (put_bsm_entry_nodup _ _ _ _ Hi Hb).
Qed.
Theorem bootstrap_table_nodup t bs aux : write_class_aux t = WOK (bs, aux) -> NoDup (a_bsm aux).
Proof.
  intros H. destruct (class_states _ _ _ H) as (s7 & sF & r7 & Hh & -> & _ & _ & _).
  assert (I0 : Inodup wst_new) by (unfold Inodup; cbn [wst_new w_bsm]; constructor).
  exact (wpres_class_head Inodup t prim_ok_nodup _ _ _ I0 Hh).
Qed.

(* ================= (2) every bootstrap index in the pool is inside the table ================= *)
(* stated on the bytes the pool holds: an entry with tag 17 (Dynamic) or 18 (InvokeDynamic) has, as its first u16,
   an index below the length of the table *)
Definition dyn_in_range (n : Z) (e : pentry) : Prop :=
  forall tag b nt, (tag = 17%N \/ tag = 18%N) -> pe_key e = tag :: be16 b ++ be16 nt -> 0 <= b <= 65535 -> b < n.
Definition Irange (s : wst) : Prop := zlen (w_bsm s) <= 65536 /\ Forall (dyn_in_range (zlen (w_bsm s))) (p_inner (w_pool s)).

Lemma dyn_in_range_mono n n' e : n <= n' -> dyn_in_range n e -> dyn_in_range n' e.
Proof. intros Hn H tag b nt Ht Hk Hb. specialize (H tag b nt Ht Hk Hb). lia. Qed.
Lemma put_range c s i s' : Irange s -> dyn_in_range (zlen (w_bsm s)) (mk c) -> put c s = WOK (i, s') -> Irange s'.
Proof.
  unfold Irange, put. intros [Hl Hi] Hc. destruct (pool_put (w_pool s) (mk c)) as [[p' j]|] eqn:E; [|discriminate]. intros [= _ <-]. cbn [w_pool w_bsm].
  split; [exact Hl|]. unfold pool_put in E. destruct (pfind _ _); [injection E as <- _; exact Hi|]. destruct (u16max <? _); [discriminate|]. injection E as <- _.
  cbn [p_inner]. constructor; assumption.
Qed.
Lemma nondyn_in_range n c : nondyn c -> dyn_in_range n (mk c).
Proof.
  intros Hc tag b nt [->| ->] Hk _; destruct c; cbn [nondyn] in Hc; try contradiction; cbn [mk pe_key centry_bytes] in Hk; discriminate.
Qed.
Lemma byte_of_small z : 0 <= z < 256 -> Z.of_N (byte_of z) = z.
Proof. intros H. unfold byte_of. rewrite Z.mod_small by lia. apply Z2N.id. lia. Qed.
Lemma be16_app_inj a b (r r' : list N) : 0 <= a <= 65535 -> 0 <= b <= 65535 -> be16 a ++ r = be16 b ++ r' -> a = b.
Proof.
  intros Ha Hb H. unfold be16 in H. cbn [app] in H. injection H as H1 H2 _.
  apply (f_equal Z.of_N) in H1, H2. unfold byte_of in H1, H2.
  rewrite !Z2N.id in H1, H2 by (apply Z.mod_pos_bound; lia).
  rewrite (Z.mod_small (a / 256)), (Z.mod_small (b / 256)) in H1 by (split; [apply Z.div_pos; lia|apply Z.div_lt_upper_bound; lia]).
  rewrite (Z.div_mod a 256), (Z.div_mod b 256) by lia. rewrite H1, H2. reflexivity.
Qed.

Local Opaque be16.
Lemma dyn_step (dynamic : bool) e nt s a s' :
  Irange s ->
  (b <- put_bsm_entry e ;; put (if dynamic then CDynamic b nt else CInvokeDynamic b nt)) s = WOK (a, s') -> Irange s'.
Proof.
  intros [Hl Hi] H. apply bind_ok in H as (b & s1 & Hb & H).
  destruct (put_bsm_entry_nth _ _ _ _ Hb) as (Hb0 & Hnth & Hpool). pose proof (wmono_put_bsm_entry _ _ _ _ Hb) as [_ [r Hr]].
  assert (Hlt : b < zlen (w_bsm s1)).
  { assert (Z.to_nat b < length (w_bsm s1))%nat by (apply nth_error_Some; congruence). unfold zlen. lia. }
  assert (Hl1 : zlen (w_bsm s1) <= 65536).
  { unfold put_bsm_entry in Hb. destruct (bsm_index (w_bsm s) e 0); [injection Hb as _ <-; exact Hl|].
    destruct (u16max <? zlen (w_bsm s)) eqn:Eo; [discriminate|]. injection Hb as _ <-. cbn [w_bsm]. apply Z.ltb_ge in Eo. unfold u16max in Eo.
    rewrite zlen_app. change (zlen [e]) with 1. lia. }
  assert (I1 : Irange s1).
  { split; [exact Hl1|]. rewrite Hpool. eapply Forall_impl; [|exact Hi]. intros x. apply dyn_in_range_mono. rewrite Hr, zlen_app. pose proof (zlen_nonneg r). lia. }
  revert H. apply put_range; [exact I1|].
  intros tag b' nt' Ht Hk Hb'. assert (b' = b); [|lia].
  assert (Hbr : 0 <= b <= 65535) by lia.
  destruct dynamic; cbn [mk pe_key centry_bytes] in Hk; apply (f_equal (@tl N)) in Hk; cbn [tl] in Hk; symmetry; exact (be16_app_inj _ _ _ _ Hbr Hb' Hk).
Qed.
Lemma prim_ok_range : prim_ok Irange.
Proof.
  constructor.
  - intros c Hc s a s' Hi H. exact (put_range _ _ _ _ Hi (nondyn_in_range _ _ Hc) H).
  - intros e nt s a s' Hi H. exact (dyn_step true e nt s a s' Hi H).
  - intros e nt s a s' Hi H. exact (dyn_step false e nt s a s' Hi H).
Qed.
Lemma Irange_new : Irange wst_new. Proof. split; [cbn; lia|constructor]. Qed.

Theorem bootstrap_indices_in_table t bs aux : write_class_aux t = WOK (bs, aux) ->
  zlen (a_bsm aux) <= 65536 /\ Forall (dyn_in_range (zlen (a_bsm aux))) (p_inner (a_pool aux)).
Proof.
  intros H. destruct (class_states _ _ _ H) as (s7 & sF & r7 & Hh & -> & -> & Hk & Hp).
  pose proof (wpres_class_head Irange t prim_ok_range _ _ _ Irange_new Hh) as I7.
  destruct (Hp Irange prim_ok_range I7) as [HlF HF]. rewrite Hk in HlF, HF. split; assumption.
Qed.
