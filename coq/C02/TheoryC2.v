(* C02 — whole-class theorems, part 2: the specification framework for the writer monad and the
   constant-pool puts: every put returns a u16 index that, in every later state of the pool and
   every decoder view that agrees with it, resolves through the decoder's kind-checked getter to
   the content that was put. *)
From FB Require Import C02.Model C02.Encode C02.Theory2 C02.Theory6 C02.Theory8 C02.Frames C02.TheoryF C02.Class C02.Decode C02.TheoryC1.
Local Open Scope Z_scope.
Local Arguments Z.add : simpl never.
Local Arguments Z.sub : simpl never.
Local Arguments Z.mul : simpl never.

Definition pool_ext (p p' : pool) : Prop := forall j x, pool_resolve p j = Some x -> pool_resolve p' j = Some x.
Lemma pool_ext_refl p : pool_ext p p. Proof. intros j x H. exact H. Qed.
Lemma pool_ext_trans p q r : pool_ext p q -> pool_ext q r -> pool_ext p r.
Proof. intros H1 H2 j x H. apply H2, H1, H. Qed.
#[global] Hint Resolve pool_ext_refl pool_ext_trans : pext.

Definition handle_ok (h : handle) : bool :=
  let k := h_kind h in
  (1 <=? k) && (k <=? 9) && (if (k =? 6) || (k =? 7) then true else negb (h_iface h)).

Record winv (s : wst) : Prop := {
  wi_pool : PInv (w_pool s);
  wi_made : Forall made (p_inner (w_pool s));
  wi_bsm : Forall (fun e => handle_ok (fst e) = true /\ Forall idx_ok (snd e)) (w_bsm s);
  wi_bsm_len : zlen (w_bsm s) <= 65536 }.

Definition wspec {A} (m : W A) (Q : pool -> A -> Prop) : Prop :=
  forall s a s', winv s -> m s = WOK (a, s') -> winv s' /\ pool_ext (w_pool s) (w_pool s') /\ Q (w_pool s') a.

(* index i designates, through getter g, the content x — now and in every later pool *)
Definition refers0 {A} (g : cpool -> Z -> option A) (x : A) (p : pool) (i : Z) : Prop :=
  idx_ok i /\ forall p' c, pool_ext p p' -> agrees p' c -> g c i = Some x.
(* the same for an index that a put returned: never 0 *)
Definition refers {A} (g : cpool -> Z -> option A) (x : A) (p : pool) (i : Z) : Prop := 1 <= i /\ refers0 g x p i.
(* the bytes decode, through parser P, to x — now and in every later pool, whatever follows *)
Definition decodes {A} (P : cpool -> parser A) (x : A) (p : pool) (bs : bytes) : Prop :=
  forall p' c rest, pool_ext p p' -> agrees p' c -> P c (bs ++ rest) = Some (x, rest).
Definition resolves (p : pool) (i : Z) (e : centry) : Prop := (1 <= i /\ idx_ok i) /\ centry_wf e /\ pool_resolve p i = Some (mk e).

Lemma refers0_mono {A} (g : cpool -> Z -> option A) x p p' i : pool_ext p p' -> refers0 g x p i -> refers0 g x p' i.
Proof. intros He [Hi H]. split; [exact Hi|]. intros p'' c He' Ha. apply (H p'' c); eauto with pext. Qed.
Lemma refers_mono {A} (g : cpool -> Z -> option A) x p p' i : pool_ext p p' -> refers g x p i -> refers g x p' i.
Proof. intros He [H1 H]. split; [exact H1|]. eapply refers0_mono; eauto. Qed.
Lemma refers_idx {A} (g : cpool -> Z -> option A) x p i : refers g x p i -> idx_ok i.
Proof. intros [_ [H _]]. exact H. Qed.
Lemma refers_get {A} (g : cpool -> Z -> option A) x p i p' c : refers g x p i -> pool_ext p p' -> agrees p' c -> g c i = Some x.
Proof. intros [_ [_ H]]. apply H. Qed.
Lemma refers0_get {A} (g : cpool -> Z -> option A) x p i p' c : refers0 g x p i -> pool_ext p p' -> agrees p' c -> g c i = Some x.
Proof. intros [_ H]. apply H. Qed.
Lemma decodes_mono {A} (P : cpool -> parser A) x p p' bs : pool_ext p p' -> decodes P x p bs -> decodes P x p' bs.
Proof. intros He H p'' c rest He' Ha. apply (H p'' c); eauto with pext. Qed.
Lemma resolves_mono p p' i e : pool_ext p p' -> resolves p i e -> resolves p' i e.
Proof. intros He (Hi & Hw & H). split; [exact Hi|split; [exact Hw|apply He, H]]. Qed.
Lemma resolves_get p p' c i e : resolves p i e -> pool_ext p p' -> agrees p' c -> cp_get c i = Some e.
Proof. intros (Hi & Hw & H) He Ha. apply Ha; auto. Qed.

(* ---- running a writer ---- *)
Lemma bind_ok {A B} (m : W A) (f : A -> W B) s r s' :
  bind m f s = WOK (r, s') -> exists a s1, m s = WOK (a, s1) /\ f a s1 = WOK (r, s').
Proof. unfold bind. destruct (m s) as [[a s1]|c|]; try discriminate. intros H. exists a, s1. split; [reflexivity|exact H]. Qed.
Lemma ret_ok {A} (a : A) s r s' : ret a s = WOK (r, s') -> r = a /\ s' = s.
Proof. unfold ret. intros [= <- <-]. split; reflexivity. Qed.
Lemma lift_res_ok {A} c (x : res A) s r s' : lift_res c x s = WOK (r, s') -> x = Ok r /\ s' = s.
Proof. unfold lift_res. destruct x; [|discriminate]. intros [= <- <-]. split; reflexivity. Qed.
Lemma lift_out_ok {A} c (x : out A) s r s' : lift_out c x s = WOK (r, s') -> x = OK r /\ s' = s.
Proof. unfold lift_out. destruct x; try discriminate. intros [= <- <-]. split; reflexivity. Qed.

Lemma wspec_ret {A} (a : A) (Q : pool -> A -> Prop) : (forall p, Q p a) -> wspec (ret a) Q.
Proof. intros H s r s' Hi Hr. apply ret_ok in Hr as [-> ->]. split; [exact Hi|split; [apply pool_ext_refl|apply H]]. Qed.
Lemma wspec_weaken {A} (m : W A) (Q Q' : pool -> A -> Prop) : wspec m Q -> (forall p a, Q p a -> Q' p a) -> wspec m Q'.
Proof. intros H HQ s a s' Hi Hr. destruct (H s a s' Hi Hr) as (H1 & H2 & H3). auto. Qed.
Lemma wspec_bind {A B} (m : W A) (f : A -> W B) (Q1 : pool -> A -> Prop) (Q2 : pool -> B -> Prop) :
  wspec m Q1 ->
  (forall a p0, Q1 p0 a -> wspec (f a) (fun p b => pool_ext p0 p -> Q2 p b)) ->
  wspec (bind m f) Q2.
Proof.
  intros H1 H2 s r s' Hi Hr. apply bind_ok in Hr as (a & s1 & Hm & Hf).
  destruct (H1 _ _ _ Hi Hm) as (Hi1 & He1 & HQ1).
  destruct (H2 a (w_pool s1) HQ1 _ _ _ Hi1 Hf) as (Hi2 & He2 & HQ2).
  split; [exact Hi2|split; [eauto with pext|apply HQ2, He2]].
Qed.
Lemma wspec_lift_res {A} c (x : res A) (Q : pool -> A -> Prop) : (forall a p, x = Ok a -> Q p a) -> wspec (lift_res c x) Q.
Proof. intros H s r s' Hi Hr. apply lift_res_ok in Hr as [-> ->]. split; [exact Hi|split; [apply pool_ext_refl|apply H; reflexivity]]. Qed.
Lemma wspec_lift_out {A} c (x : out A) (Q : pool -> A -> Prop) : (forall a p, x = OK a -> Q p a) -> wspec (lift_out c x) Q.
Proof. intros H s r s' Hi Hr. apply lift_out_ok in Hr as [-> ->]. split; [exact Hi|split; [apply pool_ext_refl|apply H; reflexivity]]. Qed.

(* lists *)
Lemma Forall2_impl' {A B} (P Q : A -> B -> Prop) l l' : (forall a b, P a b -> Q a b) -> Forall2 P l l' -> Forall2 Q l l'.
Proof. intros H F. induction F; constructor; auto. Qed.
Lemma wspec_mapW {A B} (f : A -> W B) (R : A -> pool -> B -> Prop) :
  (forall x p p' b, pool_ext p p' -> R x p b -> R x p' b) ->
  forall l, (forall x, In x l -> wspec (f x) (R x)) ->
  wspec (mapW f l) (fun p bs => Forall2 (fun x b => R x p b) l bs).
Proof.
  intros Hmono. induction l as [|x l IH]; intros Hf; cbn [mapW].
  - apply wspec_ret. intros p. constructor.
  - eapply wspec_bind; [apply Hf; left; reflexivity|]. intros b p0 Hb.
    eapply wspec_bind; [apply IH; intros y Hy; apply Hf; right; exact Hy|]. intros bs p1 Hbs.
    apply wspec_ret. intros p He1 He0. constructor.
    + eapply Hmono; [|exact Hb]. exact He0.
    + eapply Forall2_impl'; [|exact Hbs]. intros y c Hyc. eapply Hmono; [|exact Hyc]. exact He1.
Qed.
Lemma wspec_seqW {A} (R : W A -> pool -> A -> Prop) :
  (forall m p p' b, pool_ext p p' -> R m p b -> R m p' b) ->
  forall l, (forall m, In m l -> wspec m (R m)) ->
  wspec (seqW l) (fun p bs => Forall2 (fun m b => R m p b) l bs).
Proof.
  intros Hmono. induction l as [|x l IH]; intros Hf; cbn [seqW].
  - apply wspec_ret. intros p. constructor.
  - eapply wspec_bind; [apply Hf; left; reflexivity|]. intros b p0 Hb.
    eapply wspec_bind; [apply IH; intros y Hy; apply Hf; right; exact Hy|]. intros bs p1 Hbs.
    apply wspec_ret. intros p He1 He0. constructor.
    + eapply Hmono; [|exact Hb]. exact He0.
    + eapply Forall2_impl'; [|exact Hbs]. intros y c Hyc. eapply Hmono; [|exact Hyc]. exact He1.
Qed.

(* ---- put ---- *)
Lemma put_spec c : centry_wf c -> wspec (put c) (fun p i => resolves p i c).
Proof.
  intros Hc s i s' [Hp Hm Hb Hbl]. unfold put. destruct (pool_put (w_pool s) (mk c)) as [[p' j]|] eqn:E; [|discriminate].
  intros [= <- <-]. destruct (pool_put_spec _ _ _ _ Hp E) as (Hp' & Hr & Hmono & Hi & Hcnt). cbn [w_pool w_bsm].
  split; [constructor; cbn [w_pool w_bsm]; auto|split; [exact Hmono|]].
  - unfold pool_put in E. destruct (pfind (p_map (w_pool s)) (mk c)); [injection E as <- _; exact Hm|].
    destruct (u16max <? _); [discriminate|]. injection E as <- _. cbn [p_inner]. constructor; [exists c; split; auto|exact Hm].
  - repeat split; auto; unfold idx_ok; lia.
Qed.
Lemma resolves_idx p i e : resolves p i e -> idx_ok i.
Proof. intros [[_ H] _]. exact H. Qed.

Ltac wgo := first [ eapply wspec_bind; [|intros ? ? ?] | apply wspec_ret; intros ? ].

Lemma get_utf8_of p c i s : resolves p i (CUtf8 s) -> forall p', pool_ext p p' -> agrees p' c -> get_utf8 c i = Some s.
Proof. intros H p' He Ha. unfold get_utf8. rewrite (resolves_get _ _ _ _ _ H He Ha). reflexivity. Qed.

Lemma put_utf8_spec s : wspec (put_utf8 s) (refers get_utf8 s).
Proof.
  eapply wspec_weaken; [apply put_spec; exact I|]. intros p i H. pose proof H as ((H1 & H2) & _).
  split; [exact H1|split; [exact H2|]].
  intros p' c He Ha. exact (get_utf8_of _ _ _ _ H p' He Ha).
Qed.

Lemma put_named_spec (mkc : Z -> centry) (sel : centry -> option Z) name :
  (forall n, sel (mkc n) = Some n) -> (forall n, idx_ok n -> centry_wf (mkc n)) ->
  wspec (n <- put_utf8 name ;; put (mkc n)) (refers (get_named sel) name).
Proof.
  intros Hsel Hwf. eapply wspec_bind; [apply put_spec; exact I|]. intros n p0 Hn.
  eapply wspec_weaken; [apply put_spec; apply Hwf, (resolves_idx _ _ _ Hn)|]. intros p i Hi He0. pose proof Hi as ((H1 & H2) & _). split; [exact H1|split; [exact H2|]].
  intros p' c He Ha. unfold get_named. rewrite (resolves_get _ _ _ _ _ Hi He Ha), Hsel.
  eapply get_utf8_of; [exact Hn| |exact Ha]. eauto with pext.
Qed.
Lemma put_class_spec n : wspec (put_class n) (refers get_class n).
Proof. apply (put_named_spec CClass); [reflexivity|intros; assumption]. Qed.
Lemma put_package_spec n : wspec (put_package n) (refers get_package n).
Proof. apply (put_named_spec CPackage); [reflexivity|intros; assumption]. Qed.
Lemma put_module_spec n : wspec (put_module n) (refers get_module n).
Proof. apply (put_named_spec CModule); [reflexivity|intros; assumption]. Qed.
Lemma put_string_spec n : wspec (put_string n) (refers get_string n).
Proof. apply (put_named_spec CString); [reflexivity|intros; assumption]. Qed.

Lemma put_nat_spec n d : wspec (put_nat n d) (refers get_nat (n, d)).
Proof.
  unfold put_nat. eapply wspec_bind; [apply put_spec; exact I|]. intros a p0 Ha.
  eapply wspec_bind; [apply put_spec; exact I|]. intros b p1 Hb.
  eapply wspec_weaken; [apply put_spec; split; [apply (resolves_idx _ _ _ Ha)|apply (resolves_idx _ _ _ Hb)]|]. intros p i Hi He1 He0. pose proof Hi as ((H1 & H2) & _). split; [exact H1|split; [exact H2|]].
  intros p' c He Hag. unfold get_nat. rewrite (resolves_get _ _ _ _ _ Hi He Hag).
  rewrite (get_utf8_of _ c _ _ Ha p') by eauto with pext. rewrite (get_utf8_of _ c _ _ Hb p') by eauto with pext. reflexivity.
Qed.

Lemma put_member_spec (mkc : Z -> Z -> centry) (sel : centry -> option (Z * Z)) r :
  (forall a b, sel (mkc a b) = Some (a, b)) -> (forall a b, idx_ok a -> idx_ok b -> centry_wf (mkc a b)) ->
  wspec (c <- put_class (mr_class r) ;; nt <- put_nat (mr_name r) (mr_desc r) ;; put (mkc c nt)) (refers (get_member sel) r).
Proof.
  intros Hsel Hwf. eapply wspec_bind; [apply put_class_spec|]. intros a p0 Ha.
  eapply wspec_bind; [apply put_nat_spec|]. intros b p1 Hb.
  eapply wspec_weaken; [apply put_spec; apply Hwf; [apply (refers_idx _ _ _ _ Ha)|apply (refers_idx _ _ _ _ Hb)]|]. intros p i Hi He1 He0. pose proof Hi as ((H1 & H2) & _). split; [exact H1|split; [exact H2|]].
  intros p' c He Hag. unfold get_member. rewrite (resolves_get _ _ _ _ _ Hi He Hag), Hsel.
  rewrite (refers_get _ _ _ _ p' c Ha) by eauto with pext. rewrite (refers_get _ _ _ _ p' c Hb) by eauto with pext. destruct r; reflexivity.
Qed.
Lemma put_fieldref_spec r : wspec (put_fieldref r) (refers get_fieldref r).
Proof. apply (put_member_spec CFieldRef); [reflexivity|intros; split; assumption]. Qed.
Lemma put_methodref_spec r : wspec (put_methodref r) (refers get_methodref r).
Proof. apply (put_member_spec CMethodRef); [reflexivity|intros; split; assumption]. Qed.
Lemma put_imethodref_spec r : wspec (put_imethodref r) (refers get_imethodref r).
Proof. apply (put_member_spec CIMethodRef); [reflexivity|intros; split; assumption]. Qed.

Lemma put_opt_spec {A} (f : A -> W Z) (g : cpool -> Z -> option A) o :
  (forall a, wspec (f a) (refers g a)) -> wspec (put_opt f o) (refers0 (get_opt g) o).
Proof.
  intros H. destruct o as [a|]; cbn [put_opt].
  - eapply wspec_weaken; [apply H|]. intros p i [Hn [Hi Hr]]. split; [exact Hi|]. intros p' c He Ha.
    unfold get_opt. destruct (i =? 0) eqn:E; [apply Z.eqb_eq in E; lia|]. rewrite (Hr p' c He Ha). reflexivity.
  - apply wspec_ret. intros p. split; [unfold idx_ok; lia|]. intros p' c _ _. reflexivity.
Qed.

(* ---- handles, constants of element values and fields ---- *)
Lemma put_handle_spec h : handle_ok h = true -> wspec (put_handle h) (refers get_handle h).
Proof.
  intros Hok. unfold handle_ok in Hok. apply andb_true_iff in Hok as [Hk Hif]. apply andb_true_iff in Hk as [K1 K2].
  apply Z.leb_le in K1, K2. unfold put_handle.
  set (k := h_kind h) in *.
  assert (Hfin : forall (m : W Z) (g : cpool -> Z -> option memberref),
            wspec m (refers g (h_ref h)) ->
            (forall c r, g c r = Some (h_ref h) ->
               (if (1 <=? k) && (k <=? 4) then match get_fieldref c r with Some m => Some {| h_kind := k; h_ref := m; h_iface := false |} | None => None end
                else if (k =? 5) || (k =? 8) then match get_methodref c r with Some m => Some {| h_kind := k; h_ref := m; h_iface := false |} | None => None end
                else if (k =? 6) || (k =? 7) then
                  match get_methodref c r with
                  | Some m => Some {| h_kind := k; h_ref := m; h_iface := false |}
                  | None => match get_imethodref c r with Some m => Some {| h_kind := k; h_ref := m; h_iface := true |} | None => None end
                  end
                else if k =? 9 then match get_imethodref c r with Some m => Some {| h_kind := k; h_ref := m; h_iface := false |} | None => None end
                else None) = Some h) ->
            wspec (r <- m ;; put (CMethodHandle k r)) (refers get_handle h)).
  { intros m g Hm Hg. eapply wspec_bind; [exact Hm|]. intros r p0 Hr.
    eapply wspec_weaken; [apply put_spec; split; [lia|apply (refers_idx _ _ _ _ Hr)]|]. intros p i Hi He0.
    pose proof Hi as ((H1 & H2) & _). split; [exact H1|split; [exact H2|]].
    intros p' c He Ha. unfold get_handle. rewrite (resolves_get _ _ _ _ _ Hi He Ha). apply Hg.
    apply (refers_get _ _ _ _ p' c Hr); eauto with pext. }
  destruct h as [k0 r0 if0]. cbn [h_kind h_ref h_iface] in *. subst k.
  assert (Hk : k0 = 1 \/ k0 = 2 \/ k0 = 3 \/ k0 = 4 \/ k0 = 5 \/ k0 = 6 \/ k0 = 7 \/ k0 = 8 \/ k0 = 9) by lia.
  assert (Hnm : forall c r, get_imethodref c r = Some r0 -> get_methodref c r = None).
  { intros c r. unfold get_imethodref, get_methodref, get_member. destruct (cp_get c r) as [[]|]; try discriminate; reflexivity. }
  destruct Hk as [->|[->|[->|[->|[->|[->|[->|[->| ->]]]]]]]]; cbn [Z.leb Z.eqb Z.compare Pos.compare Pos.compare_cont Pos.eqb andb orb negb] in *;
    try (destruct if0; [discriminate Hif|]).
  1-4: apply (Hfin _ get_fieldref); [apply put_fieldref_spec|]; intros c r Hg; rewrite Hg; reflexivity.
  - apply (Hfin _ get_methodref); [apply put_methodref_spec|]; intros c r Hg; rewrite Hg; reflexivity.
  - unfold put_method_or_imethod. destruct if0.
    + apply (Hfin _ get_imethodref); [apply put_imethodref_spec|]; intros c r Hg. rewrite (Hnm _ _ Hg), Hg. reflexivity.
    + apply (Hfin _ get_methodref); [apply put_methodref_spec|]; intros c r Hg; rewrite Hg; reflexivity.
  - unfold put_method_or_imethod. destruct if0.
    + apply (Hfin _ get_imethodref); [apply put_imethodref_spec|]; intros c r Hg. rewrite (Hnm _ _ Hg), Hg. reflexivity.
    + apply (Hfin _ get_methodref); [apply put_methodref_spec|]; intros c r Hg; rewrite Hg; reflexivity.
  - apply (Hfin _ get_methodref); [apply put_methodref_spec|]; intros c r Hg; rewrite Hg; reflexivity.
  - apply (Hfin _ get_imethodref); [apply put_imethodref_spec|]; intros c r Hg; rewrite Hg; reflexivity.
Qed.

Definition econst_ok (tag : N) (k : econst) : bool :=
  let t := Z.of_N tag in
  match k with
  | ECInt v => ((t =? 66) || (t =? 67) || (t =? 73) || (t =? 83) || (t =? 90)) && (-2147483648 <=? v) && (v <=? 2147483647)
  | ECFloat b => (t =? 70) && (0 <=? b) && (b <? 4294967296)
  | ECLong v => (t =? 74) && (-9223372036854775808 <=? v) && (v <=? 9223372036854775807)
  | ECDouble b => (t =? 68) && (0 <=? b) && (b <? 18446744073709551616)
  | ECUtf8 _ => t =? 115
  end.
Ltac boolsplit := repeat match goal with
  | H : _ && _ = true |- _ => apply andb_true_iff in H as [? ?]
  | H : (_ <=? _) = true |- _ => apply Z.leb_le in H
  | H : (_ <? _) = true |- _ => apply Z.ltb_lt in H
  | H : (_ =? _) = true |- _ => apply Z.eqb_eq in H
  end.
Lemma put_econst_spec tag k : econst_ok tag k = true -> wspec (put_econst k) (refers (get_econst (Z.of_N tag)) k).
Proof.
  intros Hok. unfold econst_ok in Hok.
  destruct k as [v|b|v|b|s]; cbn [put_econst]; boolsplit.
  all: (eapply wspec_weaken; [apply put_spec; cbn [centry_wf centry_ok]; try exact I; lia|]);
    intros p i Hi; pose proof Hi as ((H1' & H2') & _); (split; [exact H1'|split; [exact H2'|]]);
    intros p' c He Ha; unfold get_econst; rewrite (resolves_get _ _ _ _ _ Hi He Ha).
  all: try match goal with H : _ || _ = true |- _ => rewrite H end;
       try match goal with H : Z.of_N _ = _ |- _ => rewrite H end; reflexivity.
Qed.

Definition cvalue_ok (v : cvalue) : bool :=
  match v with
  | CVInt v => (-2147483648 <=? v) && (v <=? 2147483647)
  | CVFloat b => (0 <=? b) && (b <? 4294967296)
  | CVLong v => (-9223372036854775808 <=? v) && (v <=? 9223372036854775807)
  | CVDouble b => (0 <=? b) && (b <? 18446744073709551616)
  | CVString _ => true
  end.
Lemma put_constant_value_spec v : cvalue_ok v = true -> wspec (put_constant_value v) (refers get_cvalue v).
Proof.
  intros Hok. destruct v as [v|b|v|b|s]; cbn [put_constant_value cvalue_ok] in *; boolsplit.
  1-4: (eapply wspec_weaken; [apply put_spec; cbn [centry_wf centry_ok]; lia|]);
    intros p i Hi; pose proof Hi as ((H1' & H2') & _); (split; [exact H1'|split; [exact H2'|]]);
    intros p' c He Ha; unfold get_cvalue; rewrite (resolves_get _ _ _ _ _ Hi He Ha); reflexivity.
  unfold put_string. eapply wspec_bind; [apply put_spec; exact I|]. intros n p0 Hn.
  eapply wspec_weaken; [apply put_spec; apply (resolves_idx _ _ _ Hn)|]. intros p i Hi He0.
  pose proof Hi as ((H1' & H2') & _). split; [exact H1'|split; [exact H2'|]].
  intros p' c He Ha. unfold get_cvalue. rewrite (resolves_get _ _ _ _ _ Hi He Ha).
  rewrite (get_utf8_of _ c _ _ Hn p') by eauto with pext. reflexivity.
Qed.

