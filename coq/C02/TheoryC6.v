(* C02 — whole-class theorems, part 6: the bootstrap-method table and loadable constants keep the
   invariant; the attributes of the class (inner classes, enclosing method, source file, module,
   nest, permitted subclasses, record, bootstrap methods). *)
From FB Require Import C02.Model C02.Encode C02.Theory2 C02.Theory6 C02.Theory8 C02.Frames C02.TheoryF C02.Class C02.Decode C02.Facts
  C02.TheoryC1 C02.TheoryC2 C02.TheoryC3 C02.TheoryC4 C02.TheoryC5.
Local Open Scope Z_scope.
Local Arguments Z.add : simpl never.
Local Arguments Z.sub : simpl never.
Local Arguments Z.mul : simpl never.
Local Opaque be16 be32 be64.

Lemma bsm_index_bound e : forall l k j, bsm_index l e k = Some j -> k <= j < k + zlen l.
Proof.
  induction l as [|x l IH]; intros k j; cbn [bsm_index]; [discriminate|]. rewrite zlen_cons. pose proof (zlen_nonneg l).
  destruct (bsment_eqb x e); [intros [= <-]; lia|]. intros H0. apply IH in H0. lia.
Qed.
Lemma put_bsm_entry_spec h idxs :
  handle_ok h = true -> Forall idx_ok idxs -> wspec (put_bsm_entry (h, idxs)) (fun _ i => idx_ok i).
Proof.
  intros Hh Hi s i s' [Hp Hm Hb Hbl]. unfold put_bsm_entry.
  destruct (bsm_index (w_bsm s) (h, idxs) 0) as [j|] eqn:E.
  - intros [= <- <-]. split; [constructor; assumption|split; [apply pool_ext_refl|]].
    apply bsm_index_bound in E. unfold idx_ok. lia.
  - destruct (u16max <? zlen (w_bsm s)) eqn:Eo; [discriminate|]. apply Z.ltb_ge in Eo. unfold u16max in Eo.
    intros [= <- <-]. cbn [w_pool w_bsm]. split; [constructor; cbn [w_pool w_bsm]; auto|split; [apply pool_ext_refl|]].
    + apply Forall_app. split; [exact Hb|constructor; [split; assumption|constructor]].
    + rewrite zlen_app. change (zlen [(h, idxs)]) with 1. lia.
    + pose proof (zlen_nonneg (w_bsm s)). unfold idx_ok. lia.
Qed.

(* induction over loadable constants (arguments of dynamic constants nest) *)
Fixpoint loadable_ind2 (P : loadable -> Prop)
  (H1 : forall v, P (LInt v)) (H2 : forall v, P (LFloat v)) (H3 : forall v, P (LLong v)) (H4 : forall v, P (LDouble v))
  (H5 : forall n, P (LClass n)) (H6 : forall s, P (LString s)) (H7 : forall h, P (LHandle h)) (H8 : forall d, P (LMethodType d))
  (H9 : forall n d h args, Forall P args -> P (LDynamic n d h args)) (l : loadable) : P l :=
  match l with
  | LInt v => H1 v | LFloat v => H2 v | LLong v => H3 v | LDouble v => H4 v
  | LClass n => H5 n | LString s => H6 s | LHandle h => H7 h | LMethodType d => H8 d
  | LDynamic n d h args =>
      H9 n d h args ((fix go (a : list loadable) : Forall P a :=
                        match a with
                        | [] => Forall_nil _
                        | x :: r => Forall_cons x (loadable_ind2 P H1 H2 H3 H4 H5 H6 H7 H8 H9 x) (go r)
                        end) args)
  end.
Fixpoint loadable_ok (l : loadable) : bool :=
  match l with
  | LInt v => (-2147483648 <=? v) && (v <=? 2147483647)
  | LFloat b => (0 <=? b) && (b <? 4294967296)
  | LLong v => (-9223372036854775808 <=? v) && (v <=? 9223372036854775807)
  | LDouble b => (0 <=? b) && (b <? 18446744073709551616)
  | LClass _ | LString _ | LMethodType _ => true
  | LHandle h => handle_ok h
  | LDynamic _ _ h args => handle_ok h && (fix go (a : list loadable) : bool := match a with [] => true | x :: r => loadable_ok x && go r end) args
  end.
Lemma loadable_ok_dyn n d h args : loadable_ok (LDynamic n d h args) = handle_ok h && forallb loadable_ok args.
Proof. reflexivity. Qed.

Definition isidx (_ : pool) (i : Z) : Prop := idx_ok i.
Lemma weaken_idx {A} (g : cpool -> Z -> option A) x m : wspec m (refers g x) -> wspec m isidx.
Proof. intros H. eapply wspec_weaken; [exact H|]. intros p i Hr. apply (refers_idx _ _ _ _ Hr). Qed.
Lemma put_idx c : centry_wf c -> wspec (put c) isidx.
Proof. intros H. eapply wspec_weaken; [apply put_spec, H|]. intros p i Hr. apply (resolves_idx _ _ _ Hr). Qed.

Lemma put_loadable_spec l : loadable_ok l = true -> wspec (put_loadable l) isidx.
Proof.
  induction l as [v|v|v|v|n|s|h|d|n d h args IH] using loadable_ind2; intros Hok.
  1-4: cbn [put_loadable loadable_ok] in *; boolsplit; apply put_idx; cbn [centry_wf centry_ok]; lia.
  - apply (weaken_idx get_class n), put_class_spec.
  - apply (weaken_idx get_string s), put_string_spec.
  - apply (weaken_idx get_handle h), put_handle_spec, Hok.
  - cbn [put_loadable]. eapply wspec_bind; [apply put_utf8_spec|]. intros i p0 Hi. eapply wspec_weaken; [apply put_idx; apply (refers_idx _ _ _ _ Hi)|]. auto.
  - rewrite loadable_ok_dyn in Hok. apply andb_true_iff in Hok as [Hh Ha]. cbn [put_loadable].
    eapply wspec_bind; [apply put_nat_spec|]. intros nt p0 Hnt.
    set (go := fix go (a : list loadable) : W (list Z) := match a with [] => ret [] | x :: r => _ end).
    assert (Hgo : forall a, Forall (fun x => loadable_ok x = true -> wspec (put_loadable x) isidx) a -> forallb loadable_ok a = true ->
                  wspec (go a) (fun _ is => Forall idx_ok is)).
    { induction a as [|x r IHa]; intros Hall Hf; cbn [go].
      - apply wspec_ret. intros p. constructor.
      - inversion Hall as [|? ? Hx Hr]; subst. cbn [forallb] in Hf. apply andb_true_iff in Hf as [Hf1 Hf2].
        eapply wspec_bind; [apply (Hx Hf1)|]. intros i q0 Hi.
        eapply wspec_bind; [apply (IHa Hr Hf2)|]. intros is q1 His.
        apply wspec_ret. intros q _ _. constructor; assumption. }
    eapply wspec_bind; [apply (Hgo args IH Ha)|]. intros idxs p1 Hidxs.
    eapply wspec_bind; [apply (put_bsm_entry_spec h idxs Hh Hidxs)|]. intros b p2 Hb.
    eapply wspec_weaken; [apply put_idx; split; [exact Hb|apply (refers_idx _ _ _ _ Hnt)]|]. auto.
Qed.
Lemma mapW_idx {A} (f : A -> W Z) l : (forall x, In x l -> wspec (f x) isidx) -> wspec (mapW f l) (fun _ is => Forall idx_ok is).
Proof.
  induction l as [|x l IH]; intros H; cbn [mapW].
  - apply wspec_ret. intros p. constructor.
  - eapply wspec_bind; [apply H; left; reflexivity|]. intros i p0 Hi.
    eapply wspec_bind; [apply IH; intros y Hy; apply H; right; exact Hy|]. intros is p1 His.
    apply wspec_ret. intros p _ _. constructor; assumption.
Qed.
Lemma put_invoke_dynamic_spec n d h args :
  handle_ok h = true -> forallb loadable_ok args = true -> wspec (put_invoke_dynamic n d h args) isidx.
Proof.
  intros Hh Ha. unfold put_invoke_dynamic.
  eapply wspec_bind; [apply put_nat_spec|]. intros nt p0 Hnt.
  eapply wspec_bind; [apply mapW_idx; intros x Hx; apply put_loadable_spec; rewrite forallb_forall in Ha; apply Ha, Hx|]. intros idxs p1 Hidxs.
  eapply wspec_bind; [apply (put_bsm_entry_spec h idxs Hh Hidxs)|]. intros b p2 Hb.
  eapply wspec_weaken; [apply put_idx; split; [exact Hb|apply (refers_idx _ _ _ _ Hnt)]|]. auto.
Qed.

(* ---- attributes of the class ---- *)
Ltac shape1 HP := intros ?c ?b HP; eexists; split; [reflexivity|exact HP].

Definition cinner_ok (ic : cinner) : bool := u16ok (ic_flags ic).
Definition pe_inner (c : cpool) : parser cinner :=
  a <~ p_idx get_class c ;; b <~ p_idx (get_opt get_class) c ;; n <~ p_idx (get_opt get_utf8) c ;; f <~ p_u16 ;;
  pret {| ic_inner := a; ic_outer := b; ic_name := n; ic_flags := f |}.
Definition pb_inner (c : cpool) : parser dattr := t <~ p_list16 (pe_inner c) ;; pret (AInnerClasses t).
Lemma inner_spec l : forallb cinner_ok l = true ->
  aspec AtClass (wattr s_InnerClasses (wslice16 (fun ic => a <- put_class (ic_inner ic) ;; b <- put_opt put_class (ic_outer ic) ;;
                                  c <- put_opt put_utf8 (ic_name ic) ;;
                                  ret (be16 a ++ be16 b ++ be16 c ++ be16 (ic_flags ic))) l)) (AInnerClasses l).
Proof.
  intros Hok. unfold aspec. rewrite p_attr_eq. eapply (wattr_gen _ _ pb_inner (AInnerClasses l)); [shape1 HP|].
  eapply wspec_weaken.
  - apply (wslice16_spec _ pe_inner). intros ic Hin. rewrite forallb_forall in Hok. specialize (Hok _ Hin). unfold cinner_ok in Hok. okfacts.
    eapply wspec_bind; [apply put_class_spec|]. intros a p0 Ha.
    eapply wspec_bind; [apply put_opt_spec; intros x; apply put_class_spec|]. intros b p1 Hb.
    eapply wspec_bind; [apply put_opt_spec; intros x; apply put_utf8_spec|]. intros n p2 Hn.
    apply wspec_ret. intros p He2 He1 He0 p' c rest He Hag. unfold pe_inner. rewrite <- !app_assoc.
    rewrite (pb_idx _ _ (ic_inner ic) p0 a p' c) by (try apply Ha; eauto with pext).
    rewrite (pb_idx _ _ (ic_outer ic) p1 b p' c) by (try apply Hb; eauto with pext).
    rewrite (pb_idx _ _ (ic_name ic) p2 n p' c) by (try apply Hn; eauto with pext).
    rewrite pb_u16 by assumption. destruct ic; reflexivity.
  - intros p b Hd p' c rest He Ha. unfold pb_inner. rewrite (pb_dec _ _ _ _ _ p' c _ Hd) by eauto with pext. reflexivity.
Qed.

Definition pb_enclosing (c : cpool) : parser dattr :=
  a <~ p_idx get_class c ;; m <~ p_idx (get_opt get_nat) c ;; pret (AEnclosingMethod a m).
Lemma enclosing_spec e :
  aspec AtClass (wattr_fix s_EnclosingMethod 4 (a <- put_class (fst e) ;; b <- put_opt (fun nd => put_nat (fst nd) (snd nd)) (snd e) ;; ret (be16 a ++ be16 b)))
        (AEnclosingMethod (fst e) (snd e)).
Proof.
  unfold aspec. rewrite p_attr_eq. eapply (wattr_fix_gen _ _ _ pb_enclosing (AEnclosingMethod (fst e) (snd e))); [shape1 HP|].
  eapply wspec_bind; [apply put_class_spec|]. intros a p0 Ha.
  eapply wspec_bind; [apply (put_opt_spec _ get_nat); intros [n d]; apply put_nat_spec|]. intros b p1 Hb.
  apply wspec_ret. intros p He1 He0. split; [|reflexivity]. intros p' c rest He Hag. unfold pb_enclosing. rewrite <- !app_assoc.
  rewrite (pb_idx _ _ (fst e) p0 a p' c) by (try apply Ha; eauto with pext).
  rewrite (pb_idx _ _ (snd e) p1 b p' c) by (try apply Hb; eauto with pext). reflexivity.
Qed.

(* an attribute whose body is one u16 index *)
Lemma one_idx_spec {A} l name (put_x : A -> W Z) (g : cpool -> Z -> option A) (mkd : A -> dattr) x :
  (forall c, attr_body l c name = Some (a <~ p_idx g c ;; pret (mkd a))) ->
  (forall y, wspec (put_x y) (refers g y)) ->
  aspec l (wattr_fix name 2 (idx16 (put_x x))) (mkd x).
Proof.
  intros Hb Hp. unfold aspec. rewrite p_attr_eq. eapply (wattr_fix_gen _ _ _ (fun c => a <~ p_idx g c ;; pret (mkd a)) (mkd x)).
  - intros c b HP. exists (a <~ p_idx g c ;; pret (mkd a)). split; [apply Hb|exact HP].
  - eapply wspec_weaken; [apply (idx16_len (put_x x) g x), Hp|]. intros p b [Hd Hl]. split; [|exact Hl].
    intros p' c rest He Ha. rewrite (pb_dec _ _ _ _ _ p' c _ Hd) by eauto with pext. reflexivity.
Qed.
(* an attribute whose body is a counted list of u16 indices *)
Lemma idx_list_attr_spec {A} l name (put_x : A -> W Z) (g : cpool -> Z -> option A) (mkd : list A -> dattr) xs :
  (forall c, attr_body l c name = Some (t <~ p_list16 (p_idx g c) ;; pret (mkd t))) ->
  (forall y, wspec (put_x y) (refers g y)) ->
  aspec l (wattr name (wslice16 (fun x => idx16 (put_x x)) xs)) (mkd xs).
Proof.
  intros Hb Hp. unfold aspec. rewrite p_attr_eq. eapply (wattr_gen _ _ (fun c => t <~ p_list16 (p_idx g c) ;; pret (mkd t)) (mkd xs)).
  - intros c b HP. exists (t <~ p_list16 (p_idx g c) ;; pret (mkd t)). split; [apply Hb|exact HP].
  - eapply wspec_weaken; [apply idx_list_spec, Hp|]. intros p b Hd p' c rest He Ha.
    rewrite (pb_dec _ _ _ _ _ p' c _ Hd) by eauto with pext. reflexivity.
Qed.

(* SourceDebugExtension: the bytes of the string are the body *)
Lemma sde_spec s : aspec AtClass (wattr_raw s_SourceDebugExtension s) (ASourceDebugExtension s).
Proof.
  unfold aspec, wattr_raw. eapply wspec_bind; [apply put_utf8_spec|]. intros i p0 Hi.
  eapply wspec_bind; [apply wspec_lift_res; intros a p Ha; exact Ha|]. intros l p1 Hl. cbn beta in Hl.
  apply wspec_ret. intros p He1 He0.
  unfold write_usize_as_u32 in Hl. destruct (4294967295 <? zlen s) eqn:E; [discriminate|]. apply Z.ltb_ge in E. injection Hl as <-.
  intros p' c rest He Ha. rewrite <- !app_assoc. rewrite p_attr_eq.
  eapply p_attr_with_known; [apply (refers_get _ _ _ _ p' c Hi); eauto with pext|apply (refers_idx _ _ _ _ Hi)|reflexivity|lia|reflexivity].
Qed.

(* ---- Module ---- *)
Definition cmodule_ok (m : cmodule) : bool :=
  u16ok (m_flags m) && forallb (fun r => u16ok (rq_flags r)) (m_requires m) &&
  forallb (fun e => u16ok (ex_flags e)) (m_exports m) && forallb (fun e => u16ok (ex_flags e)) (m_opens m).
Lemma exports_spec e : u16ok (ex_flags e) = true ->
  wspec (a <- put_package (ex_name e) ;; t <- wslice16 (fun x => idx16 (put_module x)) (ex_to e) ;; ret (be16 a ++ be16 (ex_flags e) ++ t))
        (decodes (fun c => a <~ p_idx get_package c ;; f <~ p_u16 ;; t <~ p_list16 (p_idx get_module c) ;;
                           pret {| ex_name := a; ex_flags := f; ex_to := t |}) e).
Proof.
  intros Hf. okfacts.
  eapply wspec_bind; [apply put_package_spec|]. intros a p0 Ha.
  eapply wspec_bind; [apply idx_list_spec, put_module_spec|]. intros t p1 Ht.
  apply wspec_ret. intros p He1 He0 p' c rest He Hag. rewrite <- !app_assoc.
  rewrite (pb_idx _ _ (ex_name e) p0 a p' c) by (try apply Ha; eauto with pext).
  rewrite pb_u16 by assumption. rewrite (pb_dec _ _ _ _ _ p' c _ Ht) by eauto with pext. destruct e; reflexivity.
Qed.
Lemma write_module_spec m : cmodule_ok m = true -> wspec (write_module m) (decodes p_module m).
Proof.
  intros Hok. unfold cmodule_ok in Hok. bsplit. okfacts. unfold write_module.
  eapply wspec_bind; [apply put_module_spec|]. intros n p0 Hn.
  eapply wspec_bind; [apply put_opt_spec; intros x; apply put_utf8_spec|]. intros v p1 Hv.
  eapply wspec_bind.
  { apply (wslice16_spec _ (fun c => a <~ p_idx get_module c ;; f <~ p_u16 ;; b <~ p_idx (get_opt get_utf8) c ;;
                                     pret {| rq_name := a; rq_flags := f; rq_version := b |})).
    intros r Hin. match goal with H : forallb _ (m_requires m) = true |- _ => rewrite forallb_forall in H; specialize (H _ Hin) end. okfacts.
    eapply wspec_bind; [apply put_module_spec|]. intros a q0 Ha.
    eapply wspec_bind; [apply put_opt_spec; intros x; apply put_utf8_spec|]. intros b q1 Hb.
    apply wspec_ret. intros q He1 He0 p' c rest He Hag. rewrite <- !app_assoc.
    rewrite (pb_idx _ _ (rq_name r) q0 a p' c) by (try apply Ha; eauto with pext).
    rewrite pb_u16 by assumption.
    rewrite (pb_idx _ _ (rq_version r) q1 b p' c) by (try apply Hb; eauto with pext). destruct r; reflexivity. }
  intros rq p2 Hrq.
  eapply wspec_bind.
  { apply (wslice16_spec _ (fun c => a <~ p_idx get_package c ;; f <~ p_u16 ;; t <~ p_list16 (p_idx get_module c) ;;
                                     pret {| ex_name := a; ex_flags := f; ex_to := t |})).
    intros e Hin. apply exports_spec. match goal with H : forallb _ (m_exports m) = true |- _ => rewrite forallb_forall in H; apply (H _ Hin) end. }
  intros ex p3 Hex.
  eapply wspec_bind.
  { apply (wslice16_spec _ (fun c => a <~ p_idx get_package c ;; f <~ p_u16 ;; t <~ p_list16 (p_idx get_module c) ;;
                                     pret {| ex_name := a; ex_flags := f; ex_to := t |})).
    intros e Hin. apply exports_spec. match goal with H : forallb _ (m_opens m) = true |- _ => rewrite forallb_forall in H; apply (H _ Hin) end. }
  intros op p4 Hop.
  eapply wspec_bind; [apply idx_list_spec, put_class_spec|]. intros us p5 Hus.
  eapply wspec_bind.
  { apply (wslice16_spec _ (fun c => a <~ p_idx get_class c ;; t <~ p_list16 (p_idx get_class c) ;; pret {| pv_name := a; pv_with := t |})).
    intros pv Hin.
    eapply wspec_bind; [apply put_class_spec|]. intros a q0 Ha.
    eapply wspec_bind; [apply idx_list_spec, put_class_spec|]. intros t q1 Ht.
    apply wspec_ret. intros q He1 He0 p' c rest He Hag. rewrite <- !app_assoc.
    rewrite (pb_idx _ _ (pv_name pv) q0 a p' c) by (try apply Ha; eauto with pext).
    rewrite (pb_dec _ _ _ _ _ p' c _ Ht) by eauto with pext. destruct pv; reflexivity. }
  intros pv p6 Hpv.
  apply wspec_ret. intros p He6 He5 He4 He3 He2 He1 He0 p' c rest He Hag. unfold p_module. rewrite <- !app_assoc.
  rewrite (pb_idx _ _ (m_name m) p0 n p' c) by (try apply Hn; eauto with pext).
  rewrite pb_u16 by assumption.
  rewrite (pb_idx _ _ (m_version m) p1 v p' c) by (try apply Hv; eauto with pext).
  rewrite (pb_dec _ _ _ _ _ p' c _ Hrq) by eauto 10 with pext.
  rewrite (pb_dec _ _ _ _ _ p' c _ Hex) by eauto 10 with pext.
  rewrite (pb_dec _ _ _ _ _ p' c _ Hop) by eauto 10 with pext.
  rewrite (pb_dec _ _ _ _ _ p' c _ Hus) by eauto 10 with pext.
  rewrite (pb_dec _ _ _ _ _ p' c _ Hpv) by eauto 10 with pext. destruct m; reflexivity.
Qed.
Lemma module_spec m : cmodule_ok m = true -> aspec AtClass (wattr s_Module (write_module m)) (AModule m).
Proof.
  intros Hok. unfold aspec. rewrite p_attr_eq. eapply (wattr_gen _ _ (fun c => x <~ p_module c ;; pret (AModule x)) (AModule m)); [shape1 HP|].
  eapply wspec_weaken; [apply write_module_spec, Hok|]. intros p b Hd p' c rest He Ha.
  rewrite (pb_dec _ _ _ _ _ p' c _ Hd) by eauto with pext. reflexivity.
Qed.

(* ---- Record ---- *)
Lemma records_nocode l : forallb crecord_ok l = true -> exists ds, mapO fa_record l = Some ds.
Proof.
  induction l as [|r l IH]; cbn [forallb mapO]; intros H; [exists []; reflexivity|].
  apply andb_true_iff in H as [Hr Hl]. destruct (IH Hl) as (ds & ->). destruct (write_record_component_spec r Hr) as (d & -> & _).
  eexists. reflexivity.
Qed.
Lemma record_spec l ds : forallb crecord_ok l = true -> mapO fa_record l = Some ds ->
  aspec AtClass (wattr s_Record (wslice16 write_record_component l)) (ARecord ds).
Proof.
  intros Hok Hds. unfold aspec. rewrite p_attr_eq.
  eapply (wattr_gen _ _ (fun c => t <~ p_list16 (p_record_component c) ;; pret (ARecord t)) (ARecord ds)); [shape1 HP|].
  eapply wspec_weaken.
  - apply (wslice16_spec_gen _ p_record_component fa_record). intros r Hin. rewrite forallb_forall in Hok.
    destruct (write_record_component_spec r (Hok _ Hin)) as (d & Hd & Hw).
    eapply wspec_weaken; [exact Hw|]. intros p b Hdec. exists d. split; assumption.
  - intros p b (ys & Hys & Hd). rewrite Hds in Hys. injection Hys as <-. intros p' c rest He Ha.
    rewrite (pb_dec _ _ _ _ _ p' c _ Hd) by eauto with pext. reflexivity.
Qed.

(* ---- BootstrapMethods: for every table that satisfies the invariant ---- *)
Lemma bootstrap_spec (tbl : list bsment) :
  Forall (fun e => handle_ok (fst e) = true /\ Forall idx_ok (snd e)) tbl ->
  aspec AtClass (wattr s_BootstrapMethods (
                   n <- w_u16len (zlen tbl) ;;
                   es <- mapW (fun e => h <- put_handle (fst e) ;; c <- w_u16len (zlen (snd e)) ;;
                                        ret (be16 h ++ c ++ flat_map be16 (snd e))) tbl ;;
                   ret (n ++ concat es))) (ABootstrapMethods tbl).
Proof.
  intros Hinv. unfold aspec. rewrite p_attr_eq.
  eapply (wattr_gen _ _ (fun c => t <~ p_list16 (h <~ p_idx get_handle c ;; a <~ p_list16 p_u16 ;; pret (h, a)) ;; pret (ABootstrapMethods t)) (ABootstrapMethods tbl)); [shape1 HP|].
  eapply wspec_weaken.
  - apply (wslice16_spec (fun e => h <- put_handle (fst e) ;; c <- w_u16len (zlen (snd e)) ;; ret (be16 h ++ c ++ flat_map be16 (snd e)))
             (fun c => h <~ p_idx get_handle c ;; a <~ p_list16 p_u16 ;; pret (h, a))).
    intros [h args] Hin. rewrite Forall_forall in Hinv. destruct (Hinv _ Hin) as [Hh Hargs]. cbn [fst snd] in *.
    eapply wspec_bind; [apply put_handle_spec, Hh|]. intros i p0 Hi.
    eapply wspec_bind; [apply w_u16len_spec|]. intros cnt p1 [-> Hn].
    apply wspec_ret. intros p He1 He0 p' c rest He Hag. rewrite <- !app_assoc.
    rewrite (pb_idx _ _ h p0 i p' c) by (try apply Hi; eauto with pext).
    assert (Hl : forall r, p_list16 p_u16 (be16 (zlen args) ++ flat_map be16 args ++ r) = Some (args, r)).
    { intros r. unfold p_list16. rewrite pb_u16 by (unfold idx_ok; pose proof (zlen_nonneg args); lia).
      replace (Z.to_nat (zlen args)) with (length args) by (unfold zlen; lia).
      clear -Hargs. induction args as [|x args IH]; cbn [flat_map p_rep length app]; [reflexivity|].
      inversion Hargs; subst. rewrite <- app_assoc. rewrite pb_u16 by assumption. unfold pbind. rewrite IH by assumption. reflexivity. }
    unfold pbind at 1. rewrite Hl. reflexivity.
  - intros p b Hd p' c rest He Ha. rewrite (pb_dec _ _ _ _ _ p' c _ Hd) by eauto with pext. reflexivity.
Qed.
