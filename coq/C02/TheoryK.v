(* C02 — the converse of C02_write_class_errors for the causes that can be read off the tree: a tree that holds a
   count above the width of its field (u16 / u8), a method with code but without max_stack / max_locals, or an
   invokeinterface whose descriptor get_arguments_size refuses, is never written: write_class_aux does not answer
   WOK.  Stated as: a successful write implies [class_fits] — every list the writer prefixes with a u16 count has
   at most 65535 elements (interfaces, fields, methods, inner classes, declared exceptions, exception table, line
   numbers, local variables with a descriptor / with a signature, annotations, element-value pairs, array values,
   type annotations, localvar target tables, module requires / exports / opens / uses / provides and their inner
   lists, module packages, nest members, permitted subclasses, record components), every u8-counted list at most 255
   (method parameters, type paths), every Code has its maxima and every invokeinterface descriptor its argument size.
   Together with C02_write_class_no_panic: such a tree is answered with ERR.  Not covered here (their counts are
   not lists of the tree): the number of attributes of a member, of stack map frames and of bootstrap methods and
   arguments; strings: see ok_utf8_fit (every Utf8 of the written pool has at most 65535 bytes). *)
From FB Require Import C02.Model C02.Encode C02.Theory1 C02.Theory2 C02.Frames C02.Class C02.Decode C02.Facts
  C02.TheoryC1 C02.TheoryC2 C02.TheoryC4 C02.TheoryC8 C02.TheoryC11 C02.TheoryB1.
Local Open Scope Z_scope.

(* ---- what a successful writer implies ---- *)
Definition wk {A} (m : W A) (Q : Prop) : Prop := forall s r, m s = WOK r -> Q.
Lemma wk_true {A} (m : W A) : wk m True. Proof. intros s r _. exact I. Qed.
Lemma wk_weaken {A} (m : W A) (Q Q' : Prop) : wk m Q -> (Q -> Q') -> wk m Q'.
Proof. intros H HQ s r E. apply HQ, (H s r E). Qed.
Lemma wk_bind {A B} (m : W A) (f : A -> W B) (Q1 Q2 : Prop) : wk m Q1 -> (forall a, wk (f a) Q2) -> wk (bind m f) (Q1 /\ Q2).
Proof.
  intros H1 H2 s r E. unfold bind in E. destruct (m s) as [[a s1]|c|] eqn:Em; try discriminate.
  split; [exact (H1 _ _ Em)|exact (H2 a _ _ E)].
Qed.
Lemma wk_bind_l {A B} (m : W A) (f : A -> W B) (Q : Prop) : wk m Q -> wk (bind m f) Q.
Proof. intros H. eapply wk_weaken; [apply (wk_bind m f Q True H); intros; apply wk_true|tauto]. Qed.
Lemma wk_bind_r {A B} (m : W A) (f : A -> W B) (Q : Prop) : (forall a, wk (f a) Q) -> wk (bind m f) Q.
Proof. intros H. eapply wk_weaken; [apply (wk_bind m f True Q (wk_true m) H)|tauto]. Qed.
Lemma wk_mapW {A B} (f : A -> W B) (Q : A -> Prop) l : (forall x, In x l -> wk (f x) (Q x)) -> wk (mapW f l) (Forall Q l).
Proof.
  induction l as [|x l IH]; intros H s r E; [constructor|]. cbn [mapW] in E. unfold bind in E.
  destruct (f x s) as [[y s1]|c|] eqn:E1; try discriminate.
  destruct (mapW f l s1) as [[ys s2]|c|] eqn:E2; try discriminate.
  constructor; [exact (H x (or_introl eq_refl) _ _ E1)|]. refine (IH _ _ _ E2). intros z Hz. apply H. right. exact Hz.
Qed.
Lemma seqW_app_ok {A} (l1 l2 : list (W A)) : forall s r, seqW (l1 ++ l2) s = WOK r ->
  exists r1 r2, seqW l1 s = WOK r1 /\ seqW l2 (snd r1) = WOK r2.
Proof.
  induction l1 as [|m l1 IH]; intros s r E.
  - exists ([], s), r. split; [reflexivity|exact E].
  - cbn [app seqW] in E. unfold bind in E. destruct (m s) as [[y s1]|c|] eqn:E1; try discriminate.
    destruct (seqW (l1 ++ l2) s1) as [[ys s2]|c|] eqn:E2; try discriminate.
    destruct (IH _ _ E2) as ([a1 t1] & r2 & Ha & Hb). exists (y :: a1, t1), r2. split; [|exact Hb].
    cbn [seqW]. unfold bind. rewrite E1, Ha. reflexivity.
Qed.
Lemma wks_app {A} (l1 l2 : list (W A)) (Q1 Q2 : Prop) : wk (seqW l1) Q1 -> wk (seqW l2) Q2 -> wk (seqW (l1 ++ l2)) (Q1 /\ Q2).
Proof. intros H1 H2 s r E. destruct (seqW_app_ok _ _ _ _ E) as (r1 & r2 & Ea & Eb). split; [exact (H1 _ _ Ea)|exact (H2 _ _ Eb)]. Qed.
Lemma wks_one {A} (m : W A) (Q : Prop) : wk m Q -> wk (seqW [m]) Q.
Proof. intros H. cbn [seqW]. apply wk_bind_l, H. Qed.
Lemma wks_oattr {A} (o : option A) (f : A -> W bytes) (Q : A -> Prop) :
  (forall a, wk (f a) (Q a)) -> wk (seqW (oattr o f)) (match o with Some a => Q a | None => True end).
Proof. intros H. destruct o as [a|]; cbn [oattr]; [apply wks_one, H|apply wk_true]. Qed.
Lemma wks_nattr {A} (l : list A) (f : list A -> W bytes) (Q : list A -> Prop) :
  Q [] -> (forall l, wk (f l) (Q l)) -> wk (seqW (nattr l f)) (Q l).
Proof. intros H0 H. destruct l as [|a l]; cbn [nattr]; [intros s r _; exact H0|apply wks_one, H]. Qed.

Lemma wk_u16len n : wk (w_u16len n) (n <= 65535).
Proof.
  intros s r E. unfold w_u16len, lift_res, write_usize_as_u16 in E. destruct (65535 <? n) eqn:L; [discriminate|].
  apply Z.ltb_ge in L. exact L.
Qed.
Lemma wk_u8len n : wk (w_u8len n) (n <= 255).
Proof.
  intros s r E. unfold w_u8len, lift_res, write_usize_as_u8 in E. destruct (255 <? n) eqn:L; [discriminate|].
  apply Z.ltb_ge in L. exact L.
Qed.
Lemma wk_wslice16 {A} (f : A -> W bytes) (Q : A -> Prop) l :
  (forall x, In x l -> wk (f x) (Q x)) -> wk (wslice16 f l) (zlen l <= 65535 /\ Forall Q l).
Proof. intros H. unfold wslice16. apply wk_bind; [apply wk_u16len|intros c]. apply wk_bind_l, wk_mapW, H. Qed.
Lemma wk_wslice16_len {A} (f : A -> W bytes) l : wk (wslice16 f l) (zlen l <= 65535).
Proof. unfold wslice16. apply wk_bind_l, wk_u16len. Qed.
Lemma wk_wslice8_len {A} (f : A -> W bytes) l : wk (wslice8 f l) (zlen l <= 255).
Proof. unfold wslice8. apply wk_bind_l, wk_u8len. Qed.
Lemma wk_wattr name body (Q : Prop) : wk body Q -> wk (wattr name body) Q.
Proof. intros H. unfold wattr. apply wk_bind_l, H. Qed.
Lemma wk_wattr_fix name len body (Q : Prop) : wk body Q -> wk (wattr_fix name len body) Q.
Proof. intros H. unfold wattr_fix. apply wk_bind_r. intros i. apply wk_bind_r. intros l. apply wk_bind_l, H. Qed.
Lemma wk_wattrs l (Q : Prop) : wk (seqW l) Q -> wk (wattrs l) Q.
Proof. intros H. unfold wattrs. apply wk_bind_l, H. Qed.

(* ---- what fits ---- *)
Fixpoint elem_fits (e : elem) : Prop :=
  match e with
  | EAnnot _ ps => zlen ps <= 65535 /\
      (fix go (l : list (bytes * elem)) : Prop := match l with [] => True | (_, v) :: r => elem_fits v /\ go r end) ps
  | EArray vs => zlen vs <= 65535 /\
      (fix go (l : list elem) : Prop := match l with [] => True | v :: r => elem_fits v /\ go r end) vs
  | _ => True
  end.
Definition pairs_fit (ps : list (bytes * elem)) : Prop := zlen ps <= 65535 /\ Forall (fun p => elem_fits (snd p)) ps.
Definition annotations_fit (l : list annotation) : Prop := zlen l <= 65535 /\ Forall (fun a => pairs_fit (snd a)) l.
Definition target_fits (t : target label) : Prop := match t with TLocalVar _ tb => zlen tb <= 65535 | _ => True end.
Definition ta_fits (a : type_annotation label) : Prop :=
  target_fits (ta_target a) /\ zlen (ta_path a) <= 255 /\ pairs_fit (ta_pairs a).
Definition tas_fit (l : list (type_annotation label)) : Prop := zlen l <= 65535 /\ Forall ta_fits l.
Definition annots_fit (a : annots) : Prop :=
  annotations_fit (an_vis a) /\ annotations_fit (an_invis a) /\ tas_fit (an_tvis a) /\ tas_fit (an_tinvis a).
Definition field_fits (f : cfield) : Prop := annots_fit (f_annots f).
Definition record_fits (r : crecord) : Prop := annots_fit (rc_annots r).
Definition module_fits (m : cmodule) : Prop :=
  zlen (m_requires m) <= 65535 /\
  (zlen (m_exports m) <= 65535 /\ Forall (fun e => zlen (ex_to e) <= 65535) (m_exports m)) /\
  (zlen (m_opens m) <= 65535 /\ Forall (fun e => zlen (ex_to e) <= 65535) (m_opens m)) /\
  zlen (m_uses m) <= 65535 /\
  (zlen (m_provides m) <= 65535 /\ Forall (fun p => zlen (pv_with p) <= 65535) (m_provides m)).
Definition insn_fits (i : option label * option cframe * cinsn) : Prop :=
  match snd i with IIface r => exists n, args_size (mr_desc r) = Ok n | _ => True end.
Definition code_fits (c : ccode) : Prop :=
  c_max c <> None /\
  Forall insn_fits (c_insns c) /\
  zlen (c_exceptions c) <= 65535 /\
  match c_lines c with Some l => zlen l <= 65535 | None => True end /\
  match c_locals c with Some lvs => opt_count lv_desc lvs <= 65535 /\ opt_count lv_sig lvs <= 65535 | None => True end /\
  tas_fit (c_tvis c) /\ tas_fit (c_tinvis c).
Definition method_fits (m : cmethod) : Prop :=
  match md_code m with Some c => code_fits c | None => True end /\
  match md_exceptions m with Some l => zlen l <= 65535 | None => True end /\
  annots_fit (md_annots m) /\
  match md_default m with Some e => elem_fits e | None => True end /\
  match md_parameters m with Some l => zlen l <= 255 | None => True end.
Definition class_fits (t : cclass) : Prop :=
  zlen (k_interfaces t) <= 65535 /\
  (zlen (k_fields t) <= 65535 /\ Forall field_fits (k_fields t)) /\
  (zlen (k_methods t) <= 65535 /\ Forall method_fits (k_methods t)) /\
  match k_inner t with Some l => zlen l <= 65535 | None => True end /\
  annots_fit (k_annots t) /\
  match k_module t with Some m => module_fits m | None => True end /\
  match k_module_packages t with Some l => zlen l <= 65535 | None => True end /\
  match k_nest_members t with Some l => zlen l <= 65535 | None => True end /\
  match k_permitted t with Some l => zlen l <= 65535 | None => True end /\
  (zlen (k_record t) <= 65535 /\ Forall record_fits (k_record t)).

Lemma nil_fit16 {A} : zlen (@nil A) <= 65535. Proof. cbn. lia. Qed.
Lemma annotations_fit_nil : annotations_fit []. Proof. split; [apply nil_fit16|constructor]. Qed.
Lemma tas_fit_nil : tas_fit []. Proof. split; [apply nil_fit16|constructor]. Qed.

(* ---- annotations ---- *)
Lemma wk_write_elem e : wk (write_elem e) (elem_fits e).
Proof.
  induction e as [t k|a b|d|ty ps IH|vs IH] using elem_ind2; cbn [write_elem elem_fits]; try apply wk_true.
  - apply wk_bind_r. intros a. apply wk_bind; [apply wk_u16len|intros c]. apply wk_bind_l.
    clear -IH. induction ps as [|[n v] r IHr]; [apply wk_true|]. inversion IH as [|? ? Hv Hr]; subst. cbn [snd] in Hv.
    apply wk_bind_r. intros i. apply wk_bind; [exact Hv|intros b]. apply wk_bind_l, IHr, Hr.
  - apply wk_bind; [apply wk_u16len|intros c]. apply wk_bind_l.
    clear -IH. induction vs as [|v r IHr]; [apply wk_true|]. inversion IH as [|? ? Hv Hr]; subst.
    apply wk_bind; [exact Hv|intros b]. apply wk_bind_l, IHr, Hr.
Qed.
Lemma wk_write_pairs ps : wk (write_pairs ps) (pairs_fit ps).
Proof.
  unfold write_pairs, pairs_fit. apply wk_wslice16. intros p _. apply wk_bind_r. intros i. apply wk_bind_l, wk_write_elem.
Qed.
Lemma wk_write_annotations l : wk (write_annotations l) (annotations_fit l).
Proof.
  unfold write_annotations, annotations_fit. apply wk_wslice16. intros a _. apply wk_bind_r. intros i. apply wk_bind_l, wk_write_pairs.
Qed.
Lemma wk_write_target labs t : wk (write_target labs t) (target_fits t).
Proof. destruct t; cbn [write_target target_fits]; try apply wk_true. apply wk_bind_l, wk_u16len. Qed.
Lemma wk_write_type_annotations labs l : wk (write_type_annotations labs l) (tas_fit l).
Proof.
  unfold write_type_annotations, tas_fit. apply wk_wslice16. intros a _. unfold ta_fits.
  apply wk_bind; [apply wk_write_target|intros t]. apply wk_bind; [apply wk_wslice8_len|intros p].
  apply wk_bind_r. intros i. apply wk_bind_l, wk_write_pairs.
Qed.
Lemma wks_w_annots labs a : wk (seqW (w_annots labs a)) (annots_fit a).
Proof.
  unfold w_annots, annots_fit.
  apply wks_app; [apply wks_nattr; [apply annotations_fit_nil|intros l; apply wk_wattr, wk_write_annotations]|].
  apply wks_app; [apply wks_nattr; [apply annotations_fit_nil|intros l; apply wk_wattr, wk_write_annotations]|].
  apply wks_app; apply wks_nattr; try apply tas_fit_nil; intros l; apply wk_wattr, wk_write_type_annotations.
Qed.

(* ---- fields, record components, module ---- *)
Lemma wk_write_field f : wk (write_field f) (field_fits f).
Proof.
  unfold write_field, field_fits. apply wk_bind_r. intros n. apply wk_bind_r. intros d. apply wk_bind_l, wk_wattrs.
  eapply wk_weaken.
  { apply wks_app; [apply wk_true|]. apply wks_app; [apply wk_true|]. apply wks_app; [apply wk_true|]. apply wks_app; [apply wk_true|].
    apply wks_app; [apply wks_w_annots|apply wk_true]. }
  tauto.
Qed.
Lemma wk_write_record_component r : wk (write_record_component r) (record_fits r).
Proof.
  unfold write_record_component, record_fits. apply wk_bind_r. intros n. apply wk_bind_r. intros d. apply wk_bind_l, wk_wattrs.
  eapply wk_weaken.
  { apply wks_app; [apply wk_true|]. apply wks_app; [apply wks_w_annots|apply wk_true]. }
  tauto.
Qed.
Lemma wk_write_module m : wk (write_module m) (module_fits m).
Proof.
  unfold write_module, module_fits. apply wk_bind_r. intros n. apply wk_bind_r. intros v.
  apply wk_bind; [apply wk_wslice16_len|intros rq].
  apply wk_bind.
  { apply wk_wslice16. intros e _. apply wk_bind_r. intros a. apply wk_bind_l, wk_wslice16_len. }
  intros ex. apply wk_bind.
  { apply wk_wslice16. intros e _. apply wk_bind_r. intros a. apply wk_bind_l, wk_wslice16_len. }
  intros op. apply wk_bind; [apply wk_wslice16_len|intros us]. apply wk_bind_l.
  apply wk_wslice16. intros p _. apply wk_bind_r. intros a. apply wk_bind_l, wk_wslice16_len.
Qed.

(* ---- the Code attribute ---- *)
Lemma wk_lower_insn i : wk (lower_insn (snd i)) (insn_fits i).
Proof.
  unfold insn_fits. destruct (snd i) as [bs|pre k post|r|l|kd l|d lo hi ts|d ps]; cbn [lower_insn]; try apply wk_true.
  apply wk_bind_r. intros x. apply wk_bind_l. intros s r0 E. destruct r0 as [n s']. apply lift_res_ok in E as [E _]. exists n. exact E.
Qed.
Lemma wks_locals labs (o : option (list clocalvar)) :
  wk (seqW (match o with
            | None => []
            | Some lvs =>
                (if 0 <? opt_count lv_desc lvs then
                   [wattr s_LocalVariableTable (
                      n <- w_u16len (opt_count lv_desc lvs) ;;
                      es <- mapW (fun v => match lv_desc v with Some d => w_lv labs v d | None => ret [] end) lvs ;;
                      ret (n ++ concat es))] else []) ++
                (if 0 <? opt_count lv_sig lvs then
                   [wattr s_LocalVariableTypeTable (
                      n <- w_u16len (opt_count lv_sig lvs) ;;
                      es <- mapW (fun v => match lv_sig v with Some d => w_lv labs v d | None => ret [] end) lvs ;;
                      ret (n ++ concat es))] else [])
            end))
     (match o with Some lvs => opt_count lv_desc lvs <= 65535 /\ opt_count lv_sig lvs <= 65535 | None => True end).
Proof.
  destruct o as [lvs|]; [|apply wk_true]. apply wks_app.
  - destruct (0 <? opt_count lv_desc lvs) eqn:E; [apply wks_one, wk_wattr, wk_bind_l, wk_u16len|].
    intros s r _. apply Z.ltb_ge in E. lia.
  - destruct (0 <? opt_count lv_sig lvs) eqn:E; [apply wks_one, wk_wattr, wk_bind_l, wk_u16len|].
    intros s r _. apply Z.ltb_ge in E. lia.
Qed.
Lemma wk_code_tail c ms ml es w labs Wd :
  wk (code_tail c ms ml es w labs Wd)
     (zlen (c_exceptions c) <= 65535 /\
      match c_lines c with Some l => zlen l <= 65535 | None => True end /\
      match c_locals c with Some lvs => opt_count lv_desc lvs <= 65535 /\ opt_count lv_sig lvs <= 65535 | None => True end /\
      tas_fit (c_tvis c) /\ tas_fit (c_tinvis c)).
Proof.
  unfold code_tail. apply wk_bind; [apply wk_wslice16_len|intros exc]. cbv zeta. apply wk_bind_l, wk_wattrs.
  eapply wk_weaken.
  { apply wks_app; [apply wk_true|].
    apply wks_app; [apply (wks_oattr (c_lines c) _ (fun l => zlen l <= 65535)); intros l; apply wk_wattr, wk_wslice16_len|].
    apply wks_app; [apply wks_locals|].
    apply wks_app; [apply wks_nattr; [apply tas_fit_nil|intros l; apply wk_wattr, wk_write_type_annotations]|].
    apply wks_app; [apply wks_nattr; [apply tas_fit_nil|intros l; apply wk_wattr, wk_write_type_annotations]|apply wk_true]. }
  tauto.
Qed.
Lemma wk_write_code_attr c : wk (write_code_attr c) (code_fits c).
Proof.
  intros s r E. rewrite write_code_attr_unfold in E. unfold code_fits.
  destruct (c_max c) as [[ms ml]|] eqn:Em; [|discriminate]. split; [discriminate|].
  destruct (mapW _ (c_insns c) s) as [[es s1]|c1|] eqn:El; try discriminate.
  split.
  { revert El. generalize s (es, s1). apply (wk_mapW _ insn_fits). intros i _. apply wk_bind_l, wk_lower_insn. }
  destruct (wc_loop _ _ es (c_last c)) as [[[[w labs] Wd]| |]|]; try discriminate.
  exact (wk_code_tail _ _ _ _ _ _ _ _ _ E).
Qed.

(* ---- methods ---- *)
Lemma wk_write_method m : wk (write_method m) (method_fits m).
Proof.
  unfold write_method, method_fits. apply wk_bind_r. intros n. apply wk_bind_r. intros d. apply wk_bind_r. intros dep.
  apply wk_bind.
  { destruct (md_code m) as [c|]; [|apply wk_true]. apply wk_bind_l, wk_write_code_attr. }
  intros code. apply wk_bind_l. eapply wk_weaken.
  { apply wks_app; [apply (wks_oattr (md_exceptions m) _ (fun l => zlen l <= 65535)); intros l; apply wk_wattr, wk_wslice16_len|].
    apply wks_app; [apply wk_true|].
    apply wks_app; [apply wks_w_annots|].
    apply wks_app; [apply (wks_oattr (md_default m) _ elem_fits); intros e; apply wk_wattr, wk_write_elem|].
    apply wks_app; [apply (wks_oattr (md_parameters m) _ (fun l => zlen l <= 255)); intros l; apply wk_wattr, wk_wslice8_len|apply wk_true]. }
  tauto.
Qed.

(* ---- the class ---- *)
Theorem write_class_ok_fits t r : write_class_aux t = WOK r -> class_fits t.
Proof.
  unfold write_class_aux.
  match goal with |- match ?body wst_new with _ => _ end = _ -> _ =>
    assert (Hb : wk body (class_fits t)); [|destruct (body wst_new) as [[[[rest codes] tbl] sF]|c0|] eqn:E; try discriminate] end.
  2:{ intros _. exact (Hb _ _ E). }
  unfold class_fits.
  apply wk_bind_r. intros this. apply wk_bind_r. intros super.
  apply wk_bind; [apply wk_wslice16_len|intros ifs].
  apply wk_bind; [apply wk_wslice16; intros f _; apply wk_write_field|intros fields].
  eapply wk_weaken.
  { apply wk_bind; [apply wk_u16len|intros nm].
    apply wk_bind; [apply (wk_mapW _ method_fits); intros m _; apply wk_write_method|intros methods].
    apply wk_bind_l.
    apply wks_app; [apply wk_true|]. apply wks_app; [apply wk_true|].
    apply wks_app; [apply (wks_oattr (k_inner t) _ (fun l => zlen l <= 65535)); intros l; apply wk_wattr, wk_wslice16_len|].
    apply wks_app; [apply wk_true|]. apply wks_app; [apply wk_true|]. apply wks_app; [apply wk_true|]. apply wks_app; [apply wk_true|].
    apply wks_app; [apply wks_w_annots|].
    apply wks_app; [apply (wks_oattr (k_module t) _ module_fits); intros m; apply wk_wattr, wk_write_module|].
    apply wks_app; [apply (wks_oattr (k_module_packages t) _ (fun l => zlen l <= 65535)); intros l; apply wk_wattr, wk_wslice16_len|].
    apply wks_app; [apply wk_true|]. apply wks_app; [apply wk_true|].
    apply wks_app; [apply (wks_oattr (k_nest_members t) _ (fun l => zlen l <= 65535)); intros l; apply wk_wattr, wk_wslice16_len|].
    apply wks_app; [apply (wks_oattr (k_permitted t) _ (fun l => zlen l <= 65535)); intros l; apply wk_wattr, wk_wslice16_len|].
    apply (wks_nattr (k_record t) _ (fun l => zlen l <= 65535 /\ Forall record_fits l)); [split; [apply nil_fit16|constructor]|].
    intros l. apply wk_wattr, wk_wslice16. intros x _. apply wk_write_record_component. }
  tauto.
Qed.

(* every Utf8 entry of the pool that is written has at most 65535 bytes (its key is the tag, the u16 length and the bytes) *)
Theorem ok_utf8_fit t bs aux : write_class_aux t = WOK (bs, aux) ->
  forall e r, In e (p_inner (a_pool aux)) -> pe_key e = 1%N :: r -> zlen r <= 65537.
Proof.
  unfold write_class_aux.
  match goal with |- match ?body wst_new with _ => _ end = _ -> _ => destruct (body wst_new) as [[[[rest codes] tbl] sF]|c0|]; try discriminate end.
  destruct (pool_bytes (w_pool sF)) as [pb|] eqn:Ep; [|discriminate]. intros [= _ <-]. cbn [a_pool].
  intros e r Hin Hk. unfold pool_bytes in Ep. destruct (existsb _ _) eqn:Ex; [discriminate|].
  destruct (Z_le_gt_dec (zlen r) 65537) as [L|G]; [exact L|]. exfalso.
  assert (existsb (fun e => match pe_key e with 1%N :: r => 65537 <? zlen r | _ => false end) (frev (p_inner (w_pool sF))) = true) as Hx.
  { apply existsb_exists. exists e. split; [unfold frev; rewrite <- rev_alt; apply in_rev; rewrite rev_involutive; exact Hin|].
    rewrite Hk. apply Z.ltb_lt. lia. }
  rewrite Hx in Ex. discriminate.
Qed.

(* the converse of the error theorem: a tree that does not fit is answered with an error (never written, never a panic) *)
Theorem write_class_cause_errs t : write_class t <> PANIC -> ~ class_fits t -> write_class t = ERR.
Proof.
  unfold write_class. intros Hp Hn. destruct (write_class_aux t) as [[bs aux]|c|] eqn:E; [|reflexivity|contradiction].
  exfalso. apply Hn. exact (write_class_ok_fits _ _ E).
Qed.

Theorem write_class_unfit_is_error t : cclass_ok t = true -> cclass_np t = true -> ~ class_fits t -> write_class t = ERR.
Proof. intros Hok Hnp. apply write_class_cause_errs. apply write_class_no_panic; assumption. Qed.

(* the causes are the first thing the writer meets where nothing can fail before them *)
Lemma put_small c s : p_count (w_pool s) <= 100 ->
  exists i s', put c s = WOK (i, s') /\ p_count (w_pool s') <= p_count (w_pool s) + 2.
Proof.
  intros H. unfold put, pool_put. destruct (pfind (p_map (w_pool s)) (mk c)) as [i|].
  { eexists _, _. split; [reflexivity|cbn [w_pool]; lia]. }
  unfold u16max. destruct (65535 <? p_count (w_pool s) + (if pe_two (mk c) then 2 else 1)) eqn:L.
  { apply Z.ltb_lt in L. destruct (pe_two (mk c)); lia. }
  eexists _, _. split; [reflexivity|]. cbn [w_pool p_count]. destruct (pe_two (mk c)); lia.
Qed.
Lemma put_class_small n s : p_count (w_pool s) <= 50 ->
  exists i s', put_class n s = WOK (i, s') /\ p_count (w_pool s') <= p_count (w_pool s) + 4.
Proof.
  intros H. unfold put_class, put_utf8, bind. destruct (put_small (CUtf8 n) s) as (i & s1 & E1 & L1); [lia|]. rewrite E1.
  destruct (put_small (CClass i) s1) as (j & s2 & E2 & L2); [lia|]. rewrite E2. exists j, s2. split; [reflexivity|lia].
Qed.
Theorem too_many_interfaces t : 65535 < zlen (k_interfaces t) -> write_class_aux t = WERR (ECount16 (zlen (k_interfaces t))).
Proof.
  intros H. unfold write_class_aux.
  destruct (put_class_small (k_name t) wst_new) as (this & s1 & E1 & L1); [cbn; lia|]. cbn [wst_new w_pool pool_new p_count] in L1.
  unfold bind at 1. rewrite E1.
  assert (exists sup s2, put_opt put_class (k_super t) s1 = WOK (sup, s2)) as (sup & s2 & E2).
  { destruct (k_super t) as [n|]; cbn [put_opt]; [|eexists _, _; reflexivity]. destruct (put_class_small n s1) as (i & s' & E & _); [lia|]. eexists _, _. exact E. }
  unfold bind at 1. rewrite E2. unfold bind at 1. unfold wslice16 at 1. unfold bind at 1.
  unfold w_u16len, lift_res, write_usize_as_u16. destruct (65535 <? zlen (k_interfaces t)) eqn:L; [reflexivity|]. apply Z.ltb_ge in L. lia.
Qed.

(* ---- non-vacuity: a class whose method declares 65536 exceptions; one with 256 parameters ---- *)
Definition exk_annots : annots := {| an_vis := []; an_invis := []; an_tvis := []; an_tinvis := [] |}.
Definition exk_method (exc : option (list bytes)) (ps : option (list (option bytes * Z))) : cmethod :=
  {| md_access := 1025; md_name := [109]%N; md_desc := [40; 41; 86]%N; md_deprecated := false; md_synthetic := false;
     md_code := None; md_exceptions := exc; md_signature := None; md_annots := exk_annots;
     md_default := None; md_parameters := ps; md_unknown := [] |}.
Definition exk_class (m : cmethod) : cclass :=
  {| k_minor := 0; k_major := 52; k_access := 1057; k_name := [65]%N; k_super := None; k_interfaces := []; k_fields := []; k_methods := [m];
     k_deprecated := false; k_synthetic := false; k_inner := None; k_enclosing := None; k_signature := None; k_source_file := None;
     k_source_debug := None; k_annots := exk_annots; k_module := None;
     k_module_packages := None; k_module_main := None; k_nest_host := None; k_nest_members := None; k_permitted := None;
     k_record := []; k_unknown := [] |}.
Definition is_wok {A} (r : wout A) : bool := match r with WOK _ => true | _ => false end.
Theorem fits_examples :
  write_class_aux (exk_class (exk_method (Some (repeat [69]%N (N.to_nat 65536))) None)) = WERR (ECount16 65536) /\
  write_class_aux (exk_class (exk_method None (Some (repeat (None, 0) 256)))) = WERR (ECount8 256) /\
  is_wok (write_class_aux (exk_class (exk_method None (Some (repeat (None, 0) 255))))) = true.
Proof. repeat split; vm_compute; reflexivity. Qed.
