(* C02 — an independent decoder of the class-file format (JVMS ch. 4 layout), written against the
   specification and not against the writer: it parses the constant pool, then the class skeleton,
   members and attributes, resolving every constant-pool index it meets to the content it
   designates and failing when the index is out of range or designates an entry of another kind,
   when a length field does not match the bytes that follow (an attribute body must be consumed
   exactly; nothing may follow the class), or when a tag is unknown.  Executable definitions only.

   The result is a description of the class in which nothing refers to the constant pool any more
   (strings are the modified-UTF-8 bytes of the Utf8 entries).  Code arrays are kept as bytes (their
   content is the subject of the layout-level theorems); positions inside code are offsets. *)
From FB Require Export C02.Class.
Local Open Scope Z_scope.

Definition parser (A : Type) : Type := bytes -> option (A * bytes).
Definition pret {A} (a : A) : parser A := fun bs => Some (a, bs).
Definition pbind {A B} (p : parser A) (f : A -> parser B) : parser B :=
  fun bs => match p bs with Some (a, r) => f a r | None => None end.
Definition pfail {A} : parser A := fun _ => None.
Definition plift {A} (o : option A) : parser A := fun bs => match o with Some a => Some (a, bs) | None => None end.
Notation "x <~ p ;; f" := (pbind p (fun x => f)) (at level 61, p at next level, right associativity).

Definition p_u8 : parser Z := rd_u8.
Definition p_u16 : parser Z := rd_u16.
Definition p_u32 : parser Z :=
  fun bs => match bs with a :: b :: c :: d :: r => Some (Z.of_N a * 16777216 + Z.of_N b * 65536 + Z.of_N c * 256 + Z.of_N d, r) | _ => None end.
Definition p_s32 : parser Z := v <~ p_u32 ;; pret (if v <? 2147483648 then v else v - 4294967296).
Definition p_u64 : parser Z := h <~ p_u32 ;; l <~ p_u32 ;; pret (h * 4294967296 + l).
Definition p_s64 : parser Z := v <~ p_u64 ;; pret (if v <? 9223372036854775808 then v else v - 18446744073709551616).
Fixpoint p_take (n : nat) : parser bytes :=
  match n with
  | O => pret []
  | S n' => fun bs => match bs with x :: r => match p_take n' r with Some (l, r') => Some (x :: l, r') | None => None end | [] => None end
  end.
Fixpoint p_rep {A} (n : nat) (p : parser A) : parser (list A) :=
  match n with
  | O => pret []
  | S n' => x <~ p ;; xs <~ p_rep n' p ;; pret (x :: xs)
  end.
Definition p_list16 {A} (p : parser A) : parser (list A) := n <~ p_u16 ;; p_rep (Z.to_nat n) p.
Definition p_list8 {A} (p : parser A) : parser (list A) := n <~ p_u8 ;; p_rep (Z.to_nat n) p.
(* a block of exactly n bytes, decoded by p, which must consume all of it *)
Definition p_block {A} (n : Z) (p : parser A) : parser A :=
  b <~ p_take (Z.to_nat n) ;; match p b with Some (a, []) => pret a | _ => pfail end.

(* ---------------- the constant pool ---------------- *)
Definition parse_centry : parser centry :=
  t <~ p_u8 ;;
  if t =? 1 then n <~ p_u16 ;; s <~ p_take (Z.to_nat n) ;; pret (CUtf8 s)
  else if t =? 3 then v <~ p_s32 ;; pret (CInteger v)
  else if t =? 4 then v <~ p_u32 ;; pret (CFloat v)
  else if t =? 5 then v <~ p_s64 ;; pret (CLong v)
  else if t =? 6 then v <~ p_u64 ;; pret (CDouble v)
  else if t =? 7 then n <~ p_u16 ;; pret (CClass n)
  else if t =? 8 then n <~ p_u16 ;; pret (CString n)
  else if t =? 9 then a <~ p_u16 ;; b <~ p_u16 ;; pret (CFieldRef a b)
  else if t =? 10 then a <~ p_u16 ;; b <~ p_u16 ;; pret (CMethodRef a b)
  else if t =? 11 then a <~ p_u16 ;; b <~ p_u16 ;; pret (CIMethodRef a b)
  else if t =? 12 then a <~ p_u16 ;; b <~ p_u16 ;; pret (CNameAndType a b)
  else if t =? 15 then k <~ p_u8 ;; r <~ p_u16 ;; pret (CMethodHandle k r)
  else if t =? 16 then n <~ p_u16 ;; pret (CMethodType n)
  else if t =? 17 then a <~ p_u16 ;; b <~ p_u16 ;; pret (CDynamic a b)
  else if t =? 18 then a <~ p_u16 ;; b <~ p_u16 ;; pret (CInvokeDynamic a b)
  else if t =? 19 then n <~ p_u16 ;; pret (CModule n)
  else if t =? 20 then n <~ p_u16 ;; pret (CPackage n)
  else pfail.
(* the decoder's view of the pool: usable index -> entry; Long and Double take two indices *)
Definition cpool := list (Z * centry).
Fixpoint parse_entries (fuel : nat) (idx count : Z) : parser cpool :=
  fun bs =>
  if count <=? idx then (if count =? idx then Some ([], bs) else None)
  else match fuel with
       | O => None
       | S f => match parse_centry bs with
                | Some (e, r) =>
                    match parse_entries f (idx + (if centry_two e then 2 else 1)) count r with
                    | Some (l, r') => Some ((idx, e) :: l, r')
                    | None => None
                    end
                | None => None
                end
       end.
Definition parse_pool : parser cpool :=
  count <~ p_u16 ;; if count <? 1 then pfail else parse_entries (Z.to_nat count) 1 count.
Fixpoint cp_get (c : cpool) (i : Z) : option centry :=
  match c with
  | [] => None
  | (k, e) :: r => if k =? i then Some e else cp_get r i
  end.

(* kind-checked resolution *)
Definition get_utf8 (c : cpool) (i : Z) : option bytes := match cp_get c i with Some (CUtf8 s) => Some s | _ => None end.
Definition get_named (sel : centry -> option Z) (c : cpool) (i : Z) : option bytes :=
  match cp_get c i with Some e => match sel e with Some n => get_utf8 c n | None => None end | None => None end.
Definition get_class : cpool -> Z -> option bytes := get_named (fun e => match e with CClass n => Some n | _ => None end).
Definition get_string : cpool -> Z -> option bytes := get_named (fun e => match e with CString n => Some n | _ => None end).
Definition get_module : cpool -> Z -> option bytes := get_named (fun e => match e with CModule n => Some n | _ => None end).
Definition get_package : cpool -> Z -> option bytes := get_named (fun e => match e with CPackage n => Some n | _ => None end).
Definition get_method_type : cpool -> Z -> option bytes := get_named (fun e => match e with CMethodType n => Some n | _ => None end).
(* index 0 = absent *)
Definition get_opt {A} (g : cpool -> Z -> option A) (c : cpool) (i : Z) : option (option A) :=
  if i =? 0 then Some None else match g c i with Some a => Some (Some a) | None => None end.
Definition get_nat (c : cpool) (i : Z) : option (bytes * bytes) :=
  match cp_get c i with
  | Some (CNameAndType n d) => match get_utf8 c n, get_utf8 c d with Some a, Some b => Some (a, b) | _, _ => None end
  | _ => None
  end.
Definition get_member (sel : centry -> option (Z * Z)) (c : cpool) (i : Z) : option memberref :=
  match cp_get c i with
  | Some e => match sel e with
              | Some (k, nt) => match get_class c k, get_nat c nt with
                                | Some cl, Some (n, d) => Some {| mr_class := cl; mr_name := n; mr_desc := d |}
                                | _, _ => None
                                end
              | None => None
              end
  | None => None
  end.
Definition get_fieldref := get_member (fun e => match e with CFieldRef a b => Some (a, b) | _ => None end).
Definition get_methodref := get_member (fun e => match e with CMethodRef a b => Some (a, b) | _ => None end).
Definition get_imethodref := get_member (fun e => match e with CIMethodRef a b => Some (a, b) | _ => None end).
(* CONSTANT_MethodHandle: the kind decides what the reference must be (JVMS 4.4.8); for kinds 6 and 7
   it may be a Methodref or an InterfaceMethodref, and which one it is is part of the result *)
Definition get_handle (c : cpool) (i : Z) : option handle :=
  match cp_get c i with
  | Some (CMethodHandle k r) =>
      if (1 <=? k) && (k <=? 4) then
        match get_fieldref c r with Some m => Some {| h_kind := k; h_ref := m; h_iface := false |} | None => None end
      else if (k =? 5) || (k =? 8) then
        match get_methodref c r with Some m => Some {| h_kind := k; h_ref := m; h_iface := false |} | None => None end
      else if (k =? 6) || (k =? 7) then
        match get_methodref c r with
        | Some m => Some {| h_kind := k; h_ref := m; h_iface := false |}
        | None => match get_imethodref c r with Some m => Some {| h_kind := k; h_ref := m; h_iface := true |} | None => None end
        end
      else if k =? 9 then
        match get_imethodref c r with Some m => Some {| h_kind := k; h_ref := m; h_iface := false |} | None => None end
      else None
  | _ => None
  end.
Definition get_cvalue (c : cpool) (i : Z) : option cvalue :=
  match cp_get c i with
  | Some (CInteger v) => Some (CVInt v) | Some (CFloat b) => Some (CVFloat b)
  | Some (CLong v) => Some (CVLong v) | Some (CDouble b) => Some (CVDouble b)
  | Some (CString n) => match get_utf8 c n with Some s => Some (CVString s) | None => None end
  | _ => None
  end.
(* const_value_index of an element_value: the tag decides the kind of the entry (JVMS 4.7.16.1) *)
Definition get_econst (tag : Z) (c : cpool) (i : Z) : option econst :=
  match cp_get c i with
  | Some (CInteger v) => if (tag =? 66) || (tag =? 67) || (tag =? 73) || (tag =? 83) || (tag =? 90) then Some (ECInt v) else None
  | Some (CFloat b) => if tag =? 70 then Some (ECFloat b) else None
  | Some (CLong v) => if tag =? 74 then Some (ECLong v) else None
  | Some (CDouble b) => if tag =? 68 then Some (ECDouble b) else None
  | Some (CUtf8 s) => if tag =? 115 then Some (ECUtf8 s) else None
  | _ => None
  end.
Definition p_idx {A} (g : cpool -> Z -> option A) (c : cpool) : parser A := i <~ p_u16 ;; plift (g c i).

(* ---------------- annotations ---------------- *)
(* element_value (JVMS 4.7.16.1); fuel bounds the nesting *)
Fixpoint parse_elem (fuel : nat) (c : cpool) : parser elem :=
  match fuel with
  | O => pfail
  | S f =>
      t <~ p_u8 ;;
      if (t =? 66) || (t =? 67) || (t =? 68) || (t =? 70) || (t =? 73) || (t =? 74) || (t =? 83) || (t =? 90) || (t =? 115) then
        k <~ p_idx (get_econst t) c ;; pret (EConst (Z.to_N t) k)
      else if t =? 101 then a <~ p_idx get_utf8 c ;; b <~ p_idx get_utf8 c ;; pret (EEnum a b)
      else if t =? 99 then a <~ p_idx get_utf8 c ;; pret (EClass a)
      else if t =? 64 then
        a <~ p_idx get_utf8 c ;;
        ps <~ p_list16 (n <~ p_idx get_utf8 c ;; v <~ parse_elem f c ;; pret (n, v)) ;;
        pret (EAnnot a ps)
      else if t =? 91 then vs <~ p_list16 (parse_elem f c) ;; pret (EArray vs)
      else pfail
  end.
Definition elem_fuel (bs : bytes) : nat := S (length bs).
Definition p_elem (c : cpool) : parser elem := fun bs => parse_elem (elem_fuel bs) c bs.
Definition p_pairs (c : cpool) : parser (list (bytes * elem)) :=
  p_list16 (n <~ p_idx get_utf8 c ;; v <~ p_elem c ;; pret (n, v)).
Definition p_annotation (c : cpool) : parser annotation := t <~ p_idx get_utf8 c ;; ps <~ p_pairs c ;; pret (t, ps).
Definition p_annotations (c : cpool) : parser (list annotation) := p_list16 (p_annotation c).

(* target_info (JVMS 4.7.20.1, Tables 4.7.20-A/B): in_code selects the targets that may appear in
   a Code attribute (0x40..0x4B) or outside it (0x00..0x17); positions are bytecode offsets, a
   local-variable range is (start_pc, length) *)
Definition p_target (in_code : bool) : parser (target Z) :=
  t <~ p_u8 ;;
  let ty := Z.to_N t in
  if in_code then
    if (t =? 64) || (t =? 65) then
      tb <~ p_list16 (s <~ p_u16 ;; l <~ p_u16 ;; i <~ p_u16 ;; pret (s, l, i)) ;; pret (TLocalVar ty tb)
    else if t =? 66 then i <~ p_u16 ;; pret (TCatch ty i)
    else if (67 <=? t) && (t <=? 70) then o <~ p_u16 ;; pret (TOffset ty o)
    else if (71 <=? t) && (t <=? 75) then o <~ p_u16 ;; i <~ p_u8 ;; pret (TTypeArgument ty o i)
    else pfail
  else
    if (t =? 0) || (t =? 1) then i <~ p_u8 ;; pret (TTypeParameter ty i)
    else if t =? 16 then i <~ p_u16 ;; pret (TSupertype ty i)
    else if (t =? 17) || (t =? 18) then p <~ p_u8 ;; b <~ p_u8 ;; pret (TTypeParameterBound ty p b)
    else if (19 <=? t) && (t <=? 21) then pret (TEmpty ty)
    else if t =? 22 then i <~ p_u8 ;; pret (TFormalParameter ty i)
    else if t =? 23 then i <~ p_u16 ;; pret (TThrows ty i)
    else pfail.
(* type_path: kind 0..3, argument index only for kind 3 *)
Definition p_type_path : parser (list (Z * Z)) :=
  p_list8 (k <~ p_u8 ;; i <~ p_u8 ;; if (k <=? 3) && ((k =? 3) || (i =? 0)) then pret (k, i) else pfail).
Definition p_type_annotation (in_code : bool) (c : cpool) : parser (type_annotation Z) :=
  t <~ p_target in_code ;; p <~ p_type_path ;; ty <~ p_idx get_utf8 c ;; ps <~ p_pairs c ;;
  pret {| ta_target := t; ta_path := p; ta_type := ty; ta_pairs := ps |}.
Definition p_type_annotations (in_code : bool) (c : cpool) : parser (list (type_annotation Z)) :=
  p_list16 (p_type_annotation in_code c).

(* ---------------- module ---------------- *)
Definition p_module (c : cpool) : parser cmodule :=
  n <~ p_idx get_module c ;; fl <~ p_u16 ;; v <~ p_idx (get_opt get_utf8) c ;;
  rq <~ p_list16 (a <~ p_idx get_module c ;; f <~ p_u16 ;; b <~ p_idx (get_opt get_utf8) c ;;
                  pret {| rq_name := a; rq_flags := f; rq_version := b |}) ;;
  ex <~ p_list16 (a <~ p_idx get_package c ;; f <~ p_u16 ;; t <~ p_list16 (p_idx get_module c) ;;
                  pret {| ex_name := a; ex_flags := f; ex_to := t |}) ;;
  op <~ p_list16 (a <~ p_idx get_package c ;; f <~ p_u16 ;; t <~ p_list16 (p_idx get_module c) ;;
                  pret {| ex_name := a; ex_flags := f; ex_to := t |}) ;;
  us <~ p_list16 (p_idx get_class c) ;;
  pv <~ p_list16 (a <~ p_idx get_class c ;; t <~ p_list16 (p_idx get_class c) ;; pret {| pv_name := a; pv_with := t |}) ;;
  pret {| m_name := n; m_flags := fl; m_version := v; m_requires := rq; m_exports := ex; m_opens := op; m_uses := us; m_provides := pv |}.

(* ---------------- attributes ---------------- *)
(* verification types and frames with the class of an Object type resolved *)
Inductive fvti := FVSimple (tag : Z) | FVObject (name : bytes) | FVUninit (off : Z).
Inductive fframe := FrSame | FrSame1 (s : fvti) | FrChop (k : Z) | FrAppend (ls : list fvti) | FrFull (ls ss : list fvti).
Definition resolve_vti (c : cpool) (v : dvti) : option fvti :=
  match v with
  | DSimple t => Some (FVSimple t)
  | DObject i => match get_class c i with Some n => Some (FVObject n) | None => None end
  | DUninit o => Some (FVUninit o)
  end.
Definition resolve_frame (c : cpool) (f : dframe) : option fframe :=
  match f with
  | DSame => Some FrSame
  | DSame1 s => match resolve_vti c s with Some v => Some (FrSame1 v) | None => None end
  | DChop k => Some (FrChop k)
  | DAppend ls => match mapO (resolve_vti c) ls with Some vs => Some (FrAppend vs) | None => None end
  | DFull ls ss => match mapO (resolve_vti c) ls, mapO (resolve_vti c) ss with Some a, Some b => Some (FrFull a b) | _, _ => None end
  end.

(* attributes that contain no further attributes *)
Inductive dattr0 :=
| ADeprecated | ASynthetic
| ASignature (s : bytes)
| AAnnotations (visible : bool) (l : list annotation)
| ATypeAnnotations (visible : bool) (l : list (type_annotation Z))
| AStackMapTable (l : list (Z * fframe))
| ALineNumberTable (l : list (Z * Z))                                  (* start_pc, line *)
| ALocalVariableTable (l : list (Z * Z * bytes * bytes * Z))           (* start_pc, length, name, descriptor, index *)
| ALocalVariableTypeTable (l : list (Z * Z * bytes * bytes * Z))       (* …, signature, index *)
| AUnknown (name : bytes) (content : bytes).

(* where an attribute sits decides which names are predefined there (JVMS 4.7, Table 4.7-C) *)
Inductive loc := AtClass | AtField | AtMethod | AtCode | AtRecord.

Definition is (a b : bytes) : bool := bytes_eqb a b.
Definition p_lv (c : cpool) : parser (Z * Z * bytes * bytes * Z) :=
  s <~ p_u16 ;; l <~ p_u16 ;; n <~ p_idx get_utf8 c ;; d <~ p_idx get_utf8 c ;; i <~ p_u16 ;; pret (s, l, n, d, i).
Definition p_stack_map (c : cpool) : parser (list (Z * fframe)) :=
  fun bs => match dec_stack_map bs with
            | Some l => match mapO (fun of => match resolve_frame c (snd of) with Some f => Some (fst of, f) | None => None end) l with
                        | Some r => Some (r, [])
                        | None => None
                        end
            | None => None
            end.
(* the body of a leaf attribute by name and location; None = the name is not predefined there *)
Definition leaf_body (l : loc) (c : cpool) (name : bytes) : option (parser dattr0) :=
  let anyloc := true in
  let member := match l with AtCode => false | _ => true end in
  if is name s_Deprecated && (match l with AtClass | AtField | AtMethod => true | _ => false end) then Some (pret ADeprecated)
  else if is name s_Synthetic && (match l with AtClass | AtField | AtMethod => true | _ => false end) then Some (pret ASynthetic)
  else if is name s_Signature && member then Some (s <~ p_idx get_utf8 c ;; pret (ASignature s))
  else if is name s_RVAnn && member then Some (a <~ p_annotations c ;; pret (AAnnotations true a))
  else if is name s_RIAnn && member then Some (a <~ p_annotations c ;; pret (AAnnotations false a))
  else if is name s_RVTAnn && anyloc then
    Some (a <~ p_type_annotations (match l with AtCode => true | _ => false end) c ;; pret (ATypeAnnotations true a))
  else if is name s_RITAnn && anyloc then
    Some (a <~ p_type_annotations (match l with AtCode => true | _ => false end) c ;; pret (ATypeAnnotations false a))
  else match l with
       | AtCode =>
           if is name s_StackMapTable then Some (f <~ p_stack_map c ;; pret (AStackMapTable f))
           else if is name s_LineNumberTable then Some (t <~ p_list16 (s <~ p_u16 ;; n <~ p_u16 ;; pret (s, n)) ;; pret (ALineNumberTable t))
           else if is name s_LocalVariableTable then Some (t <~ p_list16 (p_lv c) ;; pret (ALocalVariableTable t))
           else if is name s_LocalVariableTypeTable then Some (t <~ p_list16 (p_lv c) ;; pret (ALocalVariableTypeTable t))
           else None
       | _ => None
       end.
(* attribute_info: name, length, body; the body must be exactly `length` bytes *)
Definition p_attr_with {A} (c : cpool) (body : bytes -> option (parser A)) (unknown : bytes -> bytes -> A) : parser A :=
  name <~ p_idx get_utf8 c ;; len <~ p_u32 ;;
  match body name with
  | Some p => p_block len p
  | None => b <~ p_take (Z.to_nat len) ;; pret (unknown name b)
  end.
Definition p_attr0 (l : loc) (c : cpool) : parser dattr0 := p_attr_with c (leaf_body l c) AUnknown.
Definition p_attrs0 (l : loc) (c : cpool) : parser (list dattr0) := p_list16 (p_attr0 l c).

Record drecord := { dr_name : bytes; dr_desc : bytes; dr_attrs : list dattr0 }.
Record dcode := { dc_max_stack : Z; dc_max_locals : Z; dc_code : bytes;
                  dc_exceptions : list (Z * Z * Z * option bytes); dc_attrs : list dattr0 }.
Inductive dattr :=
| ALeaf (a : dattr0)
| AInnerClasses (l : list cinner)
| AEnclosingMethod (class : bytes) (method : option (bytes * bytes))
| ASourceFile (s : bytes)
| ASourceDebugExtension (b : bytes)
| AModule (m : cmodule)
| AModulePackages (l : list bytes)
| AModuleMainClass (c : bytes)
| ANestHost (c : bytes)
| ANestMembers (l : list bytes)
| APermittedSubclasses (l : list bytes)
| ARecord (l : list drecord)
| ABootstrapMethods (l : list (handle * list Z))
| AConstantValue (v : cvalue)
| ACode (c : dcode)
| AExceptions (l : list bytes)
| AAnnotationDefault (e : elem)
| AMethodParameters (l : list (option bytes * Z)).

Definition p_code (c : cpool) : parser dcode :=
  ms <~ p_u16 ;; ml <~ p_u16 ;; len <~ p_u32 ;;
  if (len <? 1) || (65535 <? len) then pfail else
  code <~ p_take (Z.to_nat len) ;;
  ex <~ p_list16 (s <~ p_u16 ;; e <~ p_u16 ;; h <~ p_u16 ;; ct <~ p_idx (get_opt get_class) c ;; pret (s, e, h, ct)) ;;
  at_ <~ p_attrs0 AtCode c ;;
  pret {| dc_max_stack := ms; dc_max_locals := ml; dc_code := code; dc_exceptions := ex; dc_attrs := at_ |}.
Definition p_record_component (c : cpool) : parser drecord :=
  n <~ p_idx get_utf8 c ;; d <~ p_idx get_utf8 c ;; a <~ p_attrs0 AtRecord c ;; pret {| dr_name := n; dr_desc := d; dr_attrs := a |}.

Definition attr_body (l : loc) (c : cpool) (name : bytes) : option (parser dattr) :=
  match leaf_body l c name with
  | Some p => Some (a <~ p ;; pret (ALeaf a))
  | None =>
      match l with
      | AtClass =>
          if is name s_InnerClasses then
            Some (t <~ p_list16 (a <~ p_idx get_class c ;; b <~ p_idx (get_opt get_class) c ;; n <~ p_idx (get_opt get_utf8) c ;; f <~ p_u16 ;;
                                 pret {| ic_inner := a; ic_outer := b; ic_name := n; ic_flags := f |}) ;; pret (AInnerClasses t))
          else if is name s_EnclosingMethod then Some (a <~ p_idx get_class c ;; m <~ p_idx (get_opt get_nat) c ;; pret (AEnclosingMethod a m))
          else if is name s_SourceFile then Some (s <~ p_idx get_utf8 c ;; pret (ASourceFile s))
          else if is name s_SourceDebugExtension then Some (fun bs => Some (ASourceDebugExtension bs, []))
          else if is name s_Module then Some (m <~ p_module c ;; pret (AModule m))
          else if is name s_ModulePackages then Some (t <~ p_list16 (p_idx get_package c) ;; pret (AModulePackages t))
          else if is name s_ModuleMainClass then Some (a <~ p_idx get_class c ;; pret (AModuleMainClass a))
          else if is name s_NestHost then Some (a <~ p_idx get_class c ;; pret (ANestHost a))
          else if is name s_NestMembers then Some (t <~ p_list16 (p_idx get_class c) ;; pret (ANestMembers t))
          else if is name s_PermittedSubclasses then Some (t <~ p_list16 (p_idx get_class c) ;; pret (APermittedSubclasses t))
          else if is name s_Record then Some (t <~ p_list16 (p_record_component c) ;; pret (ARecord t))
          else if is name s_BootstrapMethods then
            Some (t <~ p_list16 (h <~ p_idx get_handle c ;; a <~ p_list16 p_u16 ;; pret (h, a)) ;; pret (ABootstrapMethods t))
          else None
      | AtField => if is name s_ConstantValue then Some (v <~ p_idx get_cvalue c ;; pret (AConstantValue v)) else None
      | AtMethod =>
          if is name s_Code then Some (k <~ p_code c ;; pret (ACode k))
          else if is name s_Exceptions then Some (t <~ p_list16 (p_idx get_class c) ;; pret (AExceptions t))
          else if is name s_AnnotationDefault then Some (e <~ p_elem c ;; pret (AAnnotationDefault e))
          else if is name s_MethodParameters then
            Some (t <~ p_list8 (n <~ p_idx (get_opt get_utf8) c ;; f <~ p_u16 ;; pret (n, f)) ;; pret (AMethodParameters t))
          else None
      | _ => None
      end
  end.
Definition p_attr (l : loc) (c : cpool) : parser dattr := p_attr_with c (attr_body l c) (fun n b => ALeaf (AUnknown n b)).
Definition p_attrs (l : loc) (c : cpool) : parser (list dattr) := p_list16 (p_attr l c).

Record dmember := { dm_access : Z; dm_name : bytes; dm_desc : bytes; dm_attrs : list dattr }.
Definition p_member (l : loc) (c : cpool) : parser dmember :=
  a <~ p_u16 ;; n <~ p_idx get_utf8 c ;; d <~ p_idx get_utf8 c ;; at_ <~ p_attrs l c ;;
  pret {| dm_access := a; dm_name := n; dm_desc := d; dm_attrs := at_ |}.

Record dclass := {
  d_minor : Z; d_major : Z; d_access : Z; d_name : bytes; d_super : option bytes; d_interfaces : list bytes;
  d_fields : list dmember; d_methods : list dmember; d_attrs : list dattr }.

(* ClassFile (JVMS 4.1); nothing may follow *)
Definition parse_class (bs : bytes) : option dclass :=
  let p : parser dclass :=
    magic <~ p_u32 ;;
    if negb (magic =? 3405691582) then pfail else
    minor <~ p_u16 ;; major <~ p_u16 ;;
    c <~ parse_pool ;;
    acc <~ p_u16 ;; this <~ p_idx get_class c ;; super <~ p_idx (get_opt get_class) c ;;
    ifs <~ p_list16 (p_idx get_class c) ;;
    fs <~ p_list16 (p_member AtField c) ;;
    ms <~ p_list16 (p_member AtMethod c) ;;
    at_ <~ p_attrs AtClass c ;;
    pret {| d_minor := minor; d_major := major; d_access := acc; d_name := this; d_super := super; d_interfaces := ifs;
            d_fields := fs; d_methods := ms; d_attrs := at_ |} in
  match p bs with Some (d, []) => Some d | _ => None end.
