(* C02 — frames_written: the StackMapTable the writer emits decodes, with the reader-side frame
   decoding, to the frames of the tree at the positions of their instructions. *)
From FB Require Import C02.Model C02.Encode C02.Theory1 C02.Theory2 C02.Theory3 C02.Theory4 C02.Theory5 C02.Theory6 C02.Theory7 C02.Frames.
Local Open Scope Z_scope.
Local Arguments Z.add : simpl never.
Local Arguments Z.sub : simpl never.
Local Arguments Z.mul : simpl never.
Local Arguments Z.opp : simpl never.

(* ---- bytes ---- *)
Lemma rd_u8_byte z r : 0 <= z < 256 -> rd_u8 (byte_of z :: r) = Some (z, r).
Proof. intros H. unfold rd_u8. rewrite byte_of_Z, Z.mod_small by lia. reflexivity. Qed.

Lemma rd_u16_be16 z r : 0 <= z <= 65535 -> rd_u16 (be16 z ++ r) = Some (z, r).
Proof.
  intros H. unfold be16, rd_u16. cbn [app]. rewrite !byte_of_Z.
  rewrite (Z.mod_small (z / 256)) by (split; [apply Z.div_pos; lia|apply Z.div_lt_upper_bound; lia]).
  f_equal. f_equal. pose proof (Z.div_mod z 256 ltac:(lia)). lia.
Qed.

Lemma rd_u8_N t r : rd_u8 (t :: r) = Some (Z.of_N t, r).
Proof. reflexivity. Qed.

Local Opaque be16.

(* ---- mapM_out ---- *)
Lemma mapM_out_ok {A B} (f : A -> out B) : forall l r,
  mapM_out f l = OK r -> length r = length l /\ forall k x, nth_error l k = Some x -> exists y, nth_error r k = Some y /\ f x = OK y.
Proof.
  induction l as [|a l IH]; intros r; cbn [mapM_out].
  - intros [= <-]. split; [reflexivity|]. intros [|k] x; discriminate.
  - destruct (f a) as [y| |] eqn:E; try discriminate.
    destruct (mapM_out f l) as [ys| |] eqn:E2; try discriminate. intros [= <-].
    destruct (IH _ eq_refl) as [Hl Hn]. split; [cbn [length]; lia|].
    intros [|k] x; cbn [nth_error].
    + intros [= <-]. exists y. split; [reflexivity|exact E].
    + apply Hn.
Qed.

(* ---- labels are u16 positions ---- *)
Definition lbounded (labs : labmap) : Prop := forall l t, lget labs l = Some t -> 0 <= t <= 65535.

(* ---- one verification type ---- *)
Lemma emit_vti_dec labs v bs :
  lbounded labs -> vti_ok v = true -> emit_vti labs v = OK bs ->
  exists d, tvti (lget labs) v = Some d /\ forall r, dec_vti (bs ++ r) = Some (d, r).
Proof.
  intros Hb Hok. destruct v as [t|i|l]; cbn [emit_vti vti_ok tvti] in *.
  - intros [= <-]. exists (DSimple (Z.of_N t)). split; [reflexivity|]. intros r. cbn [app].
    unfold dec_vti. rewrite rd_u8_N. apply N.ltb_lt in Hok.
    destruct (Z.of_N t <? 7) eqn:E; [reflexivity|]. apply Z.ltb_ge in E. lia.
  - intros [= <-]. exists (DObject i). split; [reflexivity|]. intros r.
    apply andb_true_iff in Hok as [H1 H2]. apply Z.leb_le in H1, H2.
    unfold dec_vti. cbn [app]. rewrite rd_u8_N. cbn [Z.of_N Z.ltb Z.compare Pos.compare Pos.compare_cont Z.eqb Pos.eqb].
    rewrite rd_u16_be16 by lia. reflexivity.
  - unfold try_get. destruct (lget labs l) as [p|] eqn:E; [|discriminate]. intros [= <-].
    exists (DUninit p). split; [reflexivity|]. intros r. pose proof (Hb _ _ E).
    unfold dec_vti. cbn [app]. rewrite rd_u8_N. cbn [Z.of_N Z.ltb Z.compare Pos.compare Pos.compare_cont Z.eqb Pos.eqb].
    rewrite rd_u16_be16 by lia. reflexivity.
Qed.

Lemma emit_vtis_dec labs : forall vs bs,
  lbounded labs -> forallb vti_ok vs = true -> emit_vtis labs vs = OK bs ->
  exists ds, mapO (fun v => tvti (lget labs) v) vs = Some ds /\
             forall r, dec_vtis (length vs) (bs ++ r) = Some (ds, r).
Proof.
  unfold emit_vtis. induction vs as [|v vs IH]; intros bs Hb Hok; cbn [mapM_out forallb mapO length dec_vtis] in *.
  - intros [= <-]. exists []. split; reflexivity.
  - apply andb_true_iff in Hok as [Hv Hvs].
    destruct (emit_vti labs v) as [x| |] eqn:Ev; try discriminate.
    destruct (mapM_out (emit_vti labs) vs) as [xs| |] eqn:Es; try discriminate.
    intros [= <-]. destruct (emit_vti_dec _ _ _ Hb Hv Ev) as (d & Hd & Hdec).
    destruct (IH (concat xs) Hb Hvs eq_refl) as (ds & Hds & Hdecs).
    exists (d :: ds). rewrite Hd, Hds. split; [reflexivity|]. intros r.
    cbn [concat]. rewrite <- app_assoc, Hdec, Hdecs. reflexivity.
Qed.

(* ---- one frame ---- *)
Lemma frame_head_short base ext d r :
  0 <= d < 64 -> 0 <= base -> base + 64 <= 256 -> rd_u8 (frame_head base ext d ++ r) = Some (base + d, r).
Proof.
  intros Hd Hb1 Hb2. unfold frame_head. destruct (d <? 64) eqn:E; [|apply Z.ltb_ge in E; lia].
  cbn [app]. apply rd_u8_byte. lia.
Qed.
Lemma frame_head_ext base ext d r :
  64 <= d <= 65535 -> 0 <= ext < 256 ->
  frame_head base ext d ++ r = byte_of ext :: be16 d ++ r.
Proof.
  intros Hd He. unfold frame_head. destruct (d <? 64) eqn:E; [apply Z.ltb_lt in E; lia|]. reflexivity.
Qed.

Ltac zcmp := repeat match goal with
  | |- context [?a <? ?b] => let E := fresh "E" in destruct (a <? b) eqn:E; [apply Z.ltb_lt in E|apply Z.ltb_ge in E]; try lia
  | |- context [?a =? ?b] => let E := fresh "E" in destruct (a =? b) eqn:E; [apply Z.eqb_eq in E|apply Z.eqb_neq in E]; try lia
  end.

Lemma emit_frame_dec labs d f bs :
  lbounded labs -> sframe_ok f = true -> 0 <= d <= 65535 -> emit_frame labs d f = OK bs ->
  exists df, tframe (lget labs) f = Some df /\ forall r, dec_frame (bs ++ r) = Some (d, df, r).
Proof.
  intros Hb Hok Hd. destruct f as [|s|k|ls|ls ss]; cbn [emit_frame sframe_ok tframe] in *.
  - (* same *)
    intros [= <-]. exists DSame. split; [reflexivity|]. intros r. unfold dec_frame.
    destruct (Z_lt_le_dec d 64) as [Hs|Hl].
    + rewrite (frame_head_short 0 251 d r) by lia. rewrite Z.add_0_l. zcmp. reflexivity.
    + rewrite frame_head_ext by lia. rewrite rd_u8_byte by lia. rewrite rd_u16_be16 by lia. zcmp. reflexivity.
  - (* same locals 1 stack item *)
    destruct (emit_vti labs s) as [v| |] eqn:Ev; try discriminate. intros [= <-].
    destruct (emit_vti_dec _ _ _ Hb Hok Ev) as (dv & Hdv & Hdec). rewrite Hdv.
    exists (DSame1 dv). split; [reflexivity|]. intros r. unfold dec_frame. rewrite <- app_assoc.
    destruct (Z_lt_le_dec d 64) as [Hs|Hl].
    + rewrite (frame_head_short 64 247 d (v ++ r)) by lia. zcmp. rewrite Hdec. f_equal. f_equal. f_equal. lia.
    + rewrite frame_head_ext by lia. rewrite rd_u8_byte by lia. rewrite rd_u16_be16 by lia. zcmp. rewrite Hdec. reflexivity.
  - (* chop *)
    destruct ((1 <=? k) && (k <=? 3)) eqn:Ek; [|discriminate]. apply andb_true_iff in Ek as [K1 K2].
    apply Z.leb_le in K1, K2. intros [= <-]. exists (DChop k). split; [reflexivity|]. intros r.
    unfold dec_frame. rewrite <- app_comm_cons. rewrite rd_u8_byte by lia. rewrite rd_u16_be16 by lia. zcmp.
    f_equal. f_equal. f_equal. f_equal. lia.
  - (* append *)
    destruct ((1 <=? zlen ls) && (zlen ls <=? 3)) eqn:Ek; [|discriminate]. apply andb_true_iff in Ek as [K1 K2].
    apply Z.leb_le in K1, K2.
    destruct (emit_vtis labs ls) as [v| |] eqn:Ev; try discriminate. intros [= <-].
    destruct (emit_vtis_dec _ _ _ Hb Hok Ev) as (ds & Hds & Hdec). rewrite Hds.
    exists (DAppend ds). split; [reflexivity|]. intros r.
    unfold dec_frame. rewrite <- app_comm_cons. rewrite rd_u8_byte by lia. rewrite <- app_assoc. rewrite rd_u16_be16 by lia. zcmp.
    replace (Z.to_nat (251 + zlen ls - 251)) with (length ls) by (unfold zlen; lia).
    rewrite Hdec. reflexivity.
  - (* full *)
    apply andb_true_iff in Hok as [Ho1 Ho2].
    destruct (65535 <? zlen ls) eqn:E1; [discriminate|]. apply Z.ltb_ge in E1.
    destruct (emit_vtis labs ls) as [v1| |] eqn:Ev1; try discriminate.
    destruct (65535 <? zlen ss) eqn:E2; [discriminate|]. apply Z.ltb_ge in E2.
    destruct (emit_vtis labs ss) as [v2| |] eqn:Ev2; try discriminate. intros [= <-].
    destruct (emit_vtis_dec _ _ _ Hb Ho1 Ev1) as (d1 & Hd1 & Hdec1).
    destruct (emit_vtis_dec _ _ _ Hb Ho2 Ev2) as (d2 & Hd2 & Hdec2). rewrite Hd1, Hd2.
    exists (DFull d1 d2). split; [reflexivity|]. intros r.
    unfold dec_frame. cbn [app]. rewrite rd_u8_N. cbn [Z.of_N]. rewrite <- !app_assoc.
    rewrite rd_u16_be16 by lia. zcmp.
    pose proof (zlen_nonneg ls). pose proof (zlen_nonneg ss).
    rewrite rd_u16_be16 by lia. replace (Z.to_nat (zlen ls)) with (length ls) by (unfold zlen; lia).
    rewrite Hdec1. rewrite rd_u16_be16 by lia. replace (Z.to_nat (zlen ss)) with (length ss) by (unfold zlen; lia).
    rewrite Hdec2. reflexivity.
Qed.

(* ---- the table ---- *)
Fixpoint tframes (L : label -> option Z) (frs : list (Z * sframe)) : option (list (Z * dframe)) :=
  match frs with
  | [] => Some []
  | (p, f) :: r => match tframe L f, tframes L r with
                   | Some d, Some ds => Some ((p, d) :: ds)
                   | _, _ => None
                   end
  end.

Definition prev_off (prev : option Z) : Z := match prev with Some p => p | None => 0 end.
Definition is_first (prev : option Z) : bool := match prev with Some _ => false | None => true end.

Lemma emit_frames_dec labs : forall frs prev bs,
  lbounded labs ->
  forallb (fun pf => sframe_ok (snd pf)) frs = true ->
  Forall (fun pf => 0 <= fst pf <= 65535) frs ->
  0 <= prev_off prev ->
  emit_frames labs prev frs = OK bs ->
  exists ds, tframes (lget labs) frs = Some ds /\
             forall r, dec_frames (length frs) (is_first prev) (prev_off prev) (bs ++ r) = Some (ds, r).
Proof.
  induction frs as [|[off f] frs IH]; intros prev bs Hb Hok Hpos Hprev; cbn [emit_frames forallb tframes length dec_frames snd] in *.
  - intros [= <-]. exists []. split; reflexivity.
  - apply andb_true_iff in Hok as [Hf Hfs]. inversion Hpos as [|? ? Ho Hpos']. subst. cbn [fst] in Ho.
    destruct (delta_of prev off) as [d| |] eqn:Ed; try discriminate.
    destruct (emit_frame labs d f) as [x| |] eqn:Ef; try discriminate.
    destruct (emit_frames labs (Some off) frs) as [xs| |] eqn:Es; try discriminate. intros [= <-].
    assert (Hd : 0 <= d <= 65535 /\ prev_off prev + d + (if is_first prev then 0 else 1) = off).
    { destruct prev as [p|]; cbn [delta_of prev_off is_first] in *.
      - destruct (off - p - 1 <? 0) eqn:E; [discriminate|]. apply Z.ltb_ge in E. injection Ed as <-. lia.
      - injection Ed as <-. lia. }
    destruct Hd as [Hd Hoff].
    destruct (emit_frame_dec _ _ _ _ Hb Hf Hd Ef) as (df & Hdf & Hdec).
    destruct (IH (Some off) xs Hb Hfs Hpos' ltac:(cbn [prev_off]; lia) Es) as (ds & Hds & Hdecs).
    exists ((off, df) :: ds). rewrite Hdf, Hds. split; [reflexivity|]. intros r.
    rewrite <- app_assoc, Hdec, Hoff. destruct (65535 <? off) eqn:E; [apply Z.ltb_lt in E; lia|].
    cbn [is_first prev_off] in Hdecs. rewrite Hdecs. reflexivity.
Qed.

Theorem emit_stack_map_dec labs frs bs :
  lbounded labs ->
  forallb (fun pf => sframe_ok (snd pf)) frs = true ->
  Forall (fun pf => 0 <= fst pf <= 65535) frs ->
  emit_stack_map labs frs = OK bs ->
  exists ds, tframes (lget labs) frs = Some ds /\ dec_stack_map bs = Some ds.
Proof.
  intros Hb Hok Hpos. unfold emit_stack_map. destruct (65535 <? zlen frs) eqn:E; [discriminate|]. apply Z.ltb_ge in E.
  destruct (emit_frames labs None frs) as [x| |] eqn:Ef; try discriminate. intros [= <-].
  destruct (emit_frames_dec labs frs None _ Hb Hok Hpos (Z.le_refl 0) Ef) as (ds & Hds & Hdec).
  exists ds. split; [exact Hds|]. unfold dec_stack_map. pose proof (zlen_nonneg frs).
  rewrite rd_u16_be16 by lia. replace (Z.to_nat (zlen frs)) with (length frs) by (unfold zlen; lia).
  specialize (Hdec []). rewrite app_nil_r in Hdec. cbn [is_first prev_off] in Hdec. rewrite Hdec. reflexivity.
Qed.

(* ---- positions of the attempt = positions of the layout ---- *)
Lemma run_pos_positions W : forall b i s s',
  run W i s b = OK s' ->
  run_pos W i s b = positions (chs_run W i (s_len s) (s_labs s) b) (s_len s) b /\
  Forall (fun p => s_len s <= p <= 65535) (run_pos W i s b).
Proof.
  induction b as [|[lb e] r IH]; intros i s s'; cbn [run run_pos chs_run positions].
  - intros _. split; [reflexivity|constructor].
  - destruct (step W s i (lb, e)) as [s1| |] eqn:E; try discriminate. intros Hr.
    pose proof (step_ok_facts _ _ _ _ _ E) as [Hle _].
    apply step_extends in E. cbn [snd] in E. rewrite with_label_labs in E. cbn [fst] in E.
    destruct E as (_ & _ & E3 & E4). rewrite with_label_len in E3. rewrite with_label_labs in E4. cbn [fst] in E4.
    rewrite isize_sym_items in E3.
    destruct (IH _ _ _ Hr) as [IH1 IH2]. rewrite E3, E4 in IH1. rewrite E3 in IH2. split.
    + rewrite IH1. reflexivity.
    + constructor; [lia|].
      pose proof (esize_nonneg (is_wide W (bind_lab lb (s_len s) (s_labs s)) (s_len s) i e) (s_len s) e).
      eapply Forall_impl; [|exact IH2]. cbn beta. intros p Hp. lia.
Qed.

Lemma frames_at_tree L : forall pos fs,
  tframes L (frames_at pos fs) = tree_frames L pos fs.
Proof.
  induction pos as [|p pos IH]; intros [|[f|] fs]; cbn [frames_at tframes tree_frames]; try reflexivity.
  - rewrite IH. reflexivity.
  - apply IH.
Qed.
Lemma frames_at_ok : forall pos fs, frames_ok fs = true -> forallb (fun pf => sframe_ok (snd pf)) (frames_at pos fs) = true.
Proof.
  unfold frames_ok. induction pos as [|p pos IH]; intros [|[f|] fs]; cbn [frames_at forallb snd]; try reflexivity.
  - intros H. apply andb_true_iff in H as [H1 H2]. rewrite H1. apply IH, H2.
  - intros H. apply IH, H.
Qed.
Lemma frames_at_pos (P : Z -> Prop) : forall pos fs, Forall P pos -> Forall (fun pf => P (fst pf)) (frames_at pos fs).
Proof.
  induction pos as [|p pos IH]; intros [|[f|] fs] H; cbn [frames_at]; try constructor; inversion H; subst; auto.
Qed.
Lemma frames_at_nil : forall pos fs, length pos = length fs -> frames_at pos fs = [] -> has_frames fs = false.
Proof.
  unfold has_frames. induction pos as [|p pos IH]; intros [|[f|] fs]; cbn [frames_at length existsb]; try discriminate; try reflexivity.
  intros Hl H. apply IH; [lia|exact H].
Qed.
Lemma tree_frames_ext L1 L2 : (forall l, L1 l = L2 l) -> forall pos fs, tree_frames L1 pos fs = tree_frames L2 pos fs.
Proof.
  intros H.
  assert (Hv : forall v, tvti L1 v = tvti L2 v) by (intros [t|i|l]; cbn [tvti]; rewrite ?H; reflexivity).
  assert (Hm : forall vs, mapO (fun v => tvti L1 v) vs = mapO (fun v => tvti L2 v) vs) by (intros vs; apply mapO_ext, Hv).
  assert (Hf : forall f, tframe L1 f = tframe L2 f) by (intros [|s|k|ls|ls ss]; cbn [tframe]; rewrite ?Hv, ?Hm; reflexivity).
  induction pos as [|p pos IH]; intros [|[f|] fs]; cbn [tree_frames]; try reflexivity.
  - rewrite Hf, IH. reflexivity.
  - apply IH.
Qed.

Lemma positions_length : forall b chs p, length chs = length b -> length (positions chs p b) = length b.
Proof.
  induction b as [|[lb e] r IH]; intros [|c cs] p; cbn [positions length]; try discriminate; try reflexivity.
  intros H. rewrite IH by lia. reflexivity.
Qed.

(* ---- the theorem ---- *)
Theorem frames_written hasmax b last tb fs w W rt sm :
  unique_labels b last -> frames_ok fs = true -> length fs = length b ->
  write_code_f hasmax b last tb fs = Some (OK (w, W, rt, sm)) ->
  let chs := chs_run W 0%N 0 [] b in
  let L := labpos chs 0 b last in
  write_code hasmax b last tb = Some (OK (w, W, rt)) /\
  match sm with
  | None => has_frames fs = false
  | Some bs => has_frames fs = true /\ exists ds, tree_frames L (positions chs 0 b) fs = Some ds /\ dec_stack_map bs = Some ds
  end.
Proof.
  intros Hu Hok Hlen. unfold write_code_f, write_code. destruct (negb hasmax); [discriminate|].
  destruct (wc_loop (S (length b)) [] b last) as [[[[w0 labs] W0]| |]|] eqn:Ew; try discriminate.
  destruct (mapM_out (try_get3 labs) (t_exc tb)) as [ex| |] eqn:Eex; try discriminate.
  destruct (write_frames labs (frames_at (run_pos W0 0%N init b) fs)) as [sm0| |] eqn:Ef; try discriminate.
  destruct (resolve_tables labs tb) as [r| |] eqn:Er; try discriminate.
  intros [= <- <- <- <-]. set (chs := chs_run W0 0%N 0 [] b). set (L := labpos chs 0 b last). split; [reflexivity|].
  pose proof (write_is_encode _ _ _ _ _ Hu Ew) as (Hcl & _ & _ & HL & _ & Hend). fold chs in Hcl, HL, Hend. fold L in HL.
  destruct (wc_loop_W b last _ _ _ _ _ (NoDup_nil _) ltac:(intros i []) Ew) as (_ & _ & _ & Hat).
  apply attempt_done in Hat as (_ & _ & _ & _ & (s & Hrun)).
  destruct (run_pos_positions _ _ _ _ _ Hrun) as [Hpos Hbnd]. cbn [init s_len s_labs] in Hpos, Hbnd. fold chs in Hpos.
  assert (Hlb : lbounded labs).
  { intros l t Hl. rewrite HL in Hl. apply labpos_bounds in Hl. lia. }
  unfold write_frames in Ef. destruct (frames_at (run_pos W0 0%N init b) fs) as [|pf frs] eqn:Efr.
  - injection Ef as <-. apply (frames_at_nil (run_pos W0 0%N init b)); [|exact Efr].
    rewrite Hpos, positions_length by exact Hcl. symmetry. exact Hlen.
  - destruct (emit_stack_map labs (pf :: frs)) as [bs| |] eqn:Es; try discriminate. injection Ef as <-.
    rewrite <- Efr in Es. split.
    + unfold has_frames. destruct (existsb _ fs) eqn:Ex; [reflexivity|]. exfalso.
      assert (Hn : forall pos, frames_at pos fs = []).
      { clear -Ex. induction fs as [|[f|] fs IH]; intros [|p pos]; cbn [frames_at existsb] in *; try reflexivity; try discriminate. apply IH, Ex. }
      rewrite Hn in Efr. discriminate.
    + destruct (emit_stack_map_dec labs _ _ Hlb (frames_at_ok _ _ Hok)
                  (frames_at_pos (fun p => 0 <= p <= 65535) _ fs ltac:(eapply Forall_impl; [|exact Hbnd]; cbn; intros; lia)) Es)
        as (ds & Hds & Hdec).
      exists ds. split; [|exact Hdec]. rewrite frames_at_tree in Hds. rewrite Hpos in Hds.
      rewrite <- Hds. apply tree_frames_ext. intros l. symmetry. apply HL.
Qed.

(* the writer never panics on the frames and always terminates *)
Lemma mapM_out_no_panic {A B} (f : A -> out B) : forall l, (forall x, f x <> PANIC) -> mapM_out f l <> PANIC.
Proof.
  intros l H. induction l as [|a l IH]; cbn [mapM_out]; [discriminate|].
  specialize (H a). destruct (f a); [|discriminate|congruence]. destruct (mapM_out f l); [discriminate|discriminate|congruence].
Qed.
Lemma emit_vti_no_panic labs v : emit_vti labs v <> PANIC.
Proof. destruct v; cbn [emit_vti]; try discriminate. unfold try_get. destruct (lget labs l); discriminate. Qed.
Lemma emit_vtis_no_panic labs vs : emit_vtis labs vs <> PANIC.
Proof.
  unfold emit_vtis. pose proof (mapM_out_no_panic (emit_vti labs) vs (emit_vti_no_panic labs)).
  destruct (mapM_out (emit_vti labs) vs); [discriminate|discriminate|congruence].
Qed.
Lemma emit_frame_no_panic labs d f : emit_frame labs d f <> PANIC.
Proof.
  destruct f as [|s|k|ls|ls ss]; cbn [emit_frame]; try discriminate.
  - pose proof (emit_vti_no_panic labs s). destruct (emit_vti labs s); [discriminate|discriminate|congruence].
  - destruct (_ && _); discriminate.
  - destruct (_ && _); [|discriminate]. pose proof (emit_vtis_no_panic labs ls). destruct (emit_vtis labs ls); [discriminate|discriminate|congruence].
  - destruct (65535 <? zlen ls); [discriminate|].
    pose proof (emit_vtis_no_panic labs ls). destruct (emit_vtis labs ls); [|discriminate|congruence].
    destruct (65535 <? zlen ss); [discriminate|].
    pose proof (emit_vtis_no_panic labs ss). destruct (emit_vtis labs ss); [discriminate|discriminate|congruence].
Qed.
Lemma emit_frames_no_panic labs : forall frs prev, emit_frames labs prev frs <> PANIC.
Proof.
  induction frs as [|[off f] frs IH]; intros prev; cbn [emit_frames]; [discriminate|].
  destruct (delta_of prev off) as [d| |] eqn:Ed; [|discriminate|].
  - pose proof (emit_frame_no_panic labs d f). destruct (emit_frame labs d f); [|discriminate|congruence].
    specialize (IH (Some off)). destruct (emit_frames labs (Some off) frs); [discriminate|discriminate|congruence].
  - destruct prev as [p|]; cbn [delta_of] in Ed; [destruct (off - p - 1 <? 0)|]; discriminate.
Qed.
Lemma write_frames_no_panic labs frs : write_frames labs frs <> PANIC.
Proof.
  unfold write_frames. destruct frs as [|pf frs]; [discriminate|]. unfold emit_stack_map.
  destruct (65535 <? zlen (pf :: frs)); [discriminate|].
  pose proof (emit_frames_no_panic labs (pf :: frs) None). destruct (emit_frames labs None (pf :: frs)); [discriminate|discriminate|congruence].
Qed.

Theorem write_code_f_terminates hasmax b last tb fs : write_code_f hasmax b last tb fs <> None.
Proof.
  unfold write_code_f. destruct (negb hasmax); [discriminate|].
  pose proof (write_terminates b last). destruct (wc_loop (S (length b)) [] b last) as [[[[w labs] W]| |]|]; try discriminate; [|congruence].
  destruct (mapM_out _ _); try discriminate. destruct (write_frames _ _); try discriminate. destruct (resolve_tables _ _); discriminate.
Qed.

Theorem write_code_f_no_panic hasmax b last tb fs :
  unique_labels b last -> spans_ok b = true -> ranges_ok b last tb = true ->
  write_code_f hasmax b last tb fs <> Some PANIC.
Proof.
  intros Hu Hs Hr. pose proof (write_code_no_panic hasmax b last tb Hu Hs Hr) as Hnp.
  unfold write_code_f, write_code in *. destruct (negb hasmax); [discriminate|].
  destruct (wc_loop (S (length b)) [] b last) as [[[[w labs] W]| |]|]; try discriminate; try congruence.
  assert (He : mapM_out (try_get3 labs) (t_exc tb) <> PANIC).
  { apply mapM_out_no_panic. intros [[a c] d]. unfold try_get3, try_get. cbn [fst snd].
    destruct (lget labs a); [|discriminate]. destruct (lget labs c); [|discriminate]. destruct (lget labs d); discriminate. }
  destruct (mapM_out (try_get3 labs) (t_exc tb)); [|discriminate|congruence].
  pose proof (write_frames_no_panic labs (frames_at (run_pos W 0%N init b) fs)).
  destruct (write_frames _ _); [|discriminate|congruence].
  destruct (resolve_tables labs tb); [discriminate|discriminate|]. intros _. apply Hnp. reflexivity.
Qed.

(* non-vacuity: a method with three frames (a short same frame, an append frame with an object and
   an uninitialized local at the label of the `new`, a full frame) whose table is written and read back *)
Definition exf_body : body :=
  [(Some 1%N, Plain [187; 0; 9]%N); (None, Br (KCond 153 154) 2%N); (Some 2%N, Plain [0]%N); (None, Plain [177]%N)].
Definition exf_frames : list (option sframe) :=
  [Some FSame; None; Some (FAppend [VObject 9; VUninit 1%N]); Some (FFull [VSimple 1] [VSimple 4; VObject 12])].
Definition exf_tables : tables := {| t_exc := []; t_offs := []; t_ranges := [] |}.
Theorem frames_example :
  unique_labels exf_body None /\ frames_ok exf_frames = true /\
  exists w W rt bs, write_code_f true exf_body None exf_tables exf_frames = Some (OK (w, W, rt, Some bs)) /\
    bs = [0; 3;  0;  253; 0; 5; 7; 0; 9; 8; 0; 0;  255; 0; 0; 0; 1; 1; 0; 2; 4; 7; 0; 12]%N /\
    dec_stack_map bs = Some [(0, DSame); (6, DAppend [DObject 9; DUninit 0]); (7, DFull [DSimple 1] [DSimple 4; DObject 12])].
Proof.
  split; [|split; [reflexivity|]].
  - unfold unique_labels. cbn. repeat constructor; cbn; intuition discriminate.
  - do 4 eexists. split; [vm_compute; reflexivity|]. split; reflexivity.
Qed.
