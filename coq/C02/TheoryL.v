(* C02 — converse of the ELabel cause: a table of a Code attribute (exception table, line numbers, local variables that
   have a descriptor or a signature, code type-annotation targets) that names a label which no instruction of the method
   carries (and which is not the last label) is never written. *)
From FB Require Import C02.Model C02.Encode C02.Theory1 C02.Theory2 C02.Theory3 C02.Theory4 C02.Theory6 C02.Theory7 C02.Frames C02.Class C02.Decode C02.Facts
  C02.TheoryC1 C02.TheoryC2 C02.TheoryC4 C02.TheoryC7 C02.TheoryC8 C02.TheoryC11 C02.TheoryB1 C02.TheoryK.
Local Open Scope Z_scope.

Definition known (labs : labmap) (l : label) : Prop := lget labs l <> None.
Definition ta_labels (a : type_annotation label) : list label :=
  match ta_target a with
  | TLocalVar _ tb => flat_map (fun e => [fst (fst e); snd (fst e)]) tb
  | TOffset _ l => [l]
  | TTypeArgument _ l _ => [l]
  | _ => []
  end.
Definition lv_labels (v : clocalvar) : list label :=
  match lv_desc v, lv_sig v with None, None => [] | _, _ => [lv_start v; lv_end v] end.
Definition code_table_labels (c : ccode) : list label :=
  flat_map (fun x => [x_start x; x_end x; x_handler x]) (c_exceptions c) ++
  match c_lines c with Some l => map fst l | None => [] end ++
  match c_locals c with Some lvs => flat_map lv_labels lvs | None => [] end ++
  flat_map ta_labels (c_tvis c) ++ flat_map ta_labels (c_tinvis c).
Definition code_labels (c : ccode) : list label := insn_labels (c_insns c) ++ olist (c_last c).

Lemma wk_try_get labs c l : wk (lift_out c (try_get labs l)) (known labs l).
Proof.
  intros s [r s'] E. apply lift_out_ok in E as [E _]. unfold try_get in E. unfold known. destruct (lget labs l); [discriminate|discriminate E].
Qed.
Lemma wk_try_get_range labs c a b : wk (lift_out c (try_get_range labs (a, b))) (known labs a /\ known labs b).
Proof.
  intros s [r s'] E. apply lift_out_ok in E as [E _]. unfold try_get_range, try_get in E. cbn [fst snd] in E. unfold known.
  destruct (lget labs a); [|discriminate E]. destruct (lget labs b); [|discriminate E]. split; discriminate.
Qed.
Lemma wk_try_get3 labs c x y z : wk (lift_out c (try_get3 labs (x, y, z))) (known labs x /\ known labs y /\ known labs z).
Proof.
  intros s [r s'] E. apply lift_out_ok in E as [E _]. unfold try_get3, try_get in E. cbn [fst snd] in E. unfold known.
  destruct (lget labs x); [|discriminate E]. destruct (lget labs y); [|discriminate E]. destruct (lget labs z); [|discriminate E].
  repeat split; discriminate.
Qed.

Lemma wk_write_target_labs labs t : wk (write_target labs t)
  (match t with
   | TLocalVar _ tb => Forall (fun e => known labs (fst (fst e)) /\ known labs (snd (fst e))) tb
   | TOffset _ l => known labs l
   | TTypeArgument _ l _ => known labs l
   | _ => True
   end).
Proof.
  destruct t; cbn [write_target]; try apply wk_true.
  - apply wk_bind_r. intros c. apply wk_bind_l. apply wk_mapW. intros [[a b] i] _. cbn [fst snd]. apply wk_bind_l, wk_try_get_range.
  - apply wk_bind_l, wk_try_get.
  - apply wk_bind_l, wk_try_get.
Qed.
Lemma wk_tas_labs labs l : wk (write_type_annotations labs l) (Forall (known labs) (flat_map ta_labels l)).
Proof.
  eapply wk_weaken.
  { unfold write_type_annotations. apply wk_wslice16. intros a _. apply wk_bind_l. apply wk_write_target_labs. }
  intros [_ H]. apply Forall_flat_map. eapply Forall_impl; [|exact H]. intros a Ha. cbv beta in Ha. unfold ta_labels.
  revert Ha. destruct (ta_target a); intros Ha; try constructor; auto.
  apply Forall_flat_map. eapply Forall_impl; [|exact Ha]. intros e [H1 H2]. repeat constructor; assumption.
Qed.

Lemma wk_code_tail_labs c ms ml es w labs Wd :
  wk (code_tail c ms ml es w labs Wd) (Forall (known labs) (code_table_labels c)).
Proof.
  unfold code_tail. eapply wk_weaken.
  { apply wk_bind.
    { apply wk_wslice16. intros x _. apply wk_bind_l. apply wk_try_get3. }
    intros exc. cbv zeta. apply wk_bind_l, wk_wattrs.
    apply wks_app; [apply wk_true|].
    apply wks_app.
    { apply (wks_oattr (c_lines c) _ (fun l => Forall (fun e => known labs (fst e)) l)). intros l. apply wk_wattr.
      eapply wk_weaken; [apply wk_wslice16; intros e _; apply wk_bind_l, wk_try_get|tauto]. }
    apply wks_app.
    { instantiate (1 := match c_locals c with Some lvs => Forall (fun v => Forall (known labs) (lv_labels v)) lvs | None => True end).
      destruct (c_locals c) as [lvs|]; [|apply wk_true].
      eapply wk_weaken.
      { apply wks_app.
        - instantiate (1 := Forall (fun v => lv_desc v <> None -> known labs (lv_start v) /\ known labs (lv_end v)) lvs).
          destruct (0 <? opt_count lv_desc lvs) eqn:E.
          + apply wks_one, wk_wattr, wk_bind_r. intros n. apply wk_bind_l. apply wk_mapW. intros v _.
            destruct (lv_desc v) as [d|]; [|intros s r _ H; congruence].
            eapply wk_weaken; [unfold w_lv; apply wk_bind_l, wk_try_get_range|tauto].
          + intros s r _. apply Z.ltb_ge in E. unfold opt_count in E. apply Forall_forall. intros v Hv Hd. exfalso.
            assert (In v (filter (fun x => match lv_desc x with Some _ => true | None => false end) lvs)) as Hin.
            { apply filter_In. split; [exact Hv|]. destruct (lv_desc v); [reflexivity|congruence]. }
            destruct (filter _ lvs); [contradiction|]. unfold zlen in E. cbn [length] in E. lia.
        - instantiate (1 := Forall (fun v => lv_sig v <> None -> known labs (lv_start v) /\ known labs (lv_end v)) lvs).
          destruct (0 <? opt_count lv_sig lvs) eqn:E.
          + apply wks_one, wk_wattr, wk_bind_r. intros n. apply wk_bind_l. apply wk_mapW. intros v _.
            destruct (lv_sig v) as [d|]; [|intros s r _ H; congruence].
            eapply wk_weaken; [unfold w_lv; apply wk_bind_l, wk_try_get_range|tauto].
          + intros s r _. apply Z.ltb_ge in E. unfold opt_count in E. apply Forall_forall. intros v Hv Hd. exfalso.
            assert (In v (filter (fun x => match lv_sig x with Some _ => true | None => false end) lvs)) as Hin.
            { apply filter_In. split; [exact Hv|]. destruct (lv_sig v); [reflexivity|congruence]. }
            destruct (filter _ lvs); [contradiction|]. unfold zlen in E. cbn [length] in E. lia. }
      intros [H1 H2]. rewrite Forall_forall in *. intros v Hv. unfold lv_labels.
      destruct (lv_desc v) eqn:Ed; [destruct (H1 v Hv) as [A B]; [congruence|repeat constructor; assumption]|].
      destruct (lv_sig v) eqn:Es; [destruct (H2 v Hv) as [A B]; [congruence|repeat constructor; assumption]|constructor]. }
    apply wks_app; [apply (wks_nattr (c_tvis c) _ (fun l => Forall (known labs) (flat_map ta_labels l))); [constructor|intros l; apply wk_wattr, wk_tas_labs]|].
    apply wks_app; [apply (wks_nattr (c_tinvis c) _ (fun l => Forall (known labs) (flat_map ta_labels l))); [constructor|intros l; apply wk_wattr, wk_tas_labs]|apply wk_true]. }
  intros ([_ Hx] & _ & Hl & Hv & Ht1 & Ht2 & _). unfold code_table_labels.
  apply Forall_app. split.
  { apply Forall_flat_map. eapply Forall_impl; [|exact Hx]. intros x (A & B & C). repeat constructor; assumption. }
  apply Forall_app. split.
  { destruct (c_lines c) as [l|]; [|constructor]. apply Forall_map. exact Hl. }
  apply Forall_app. split.
  { destruct (c_locals c) as [lvs|]; [|constructor]. apply Forall_flat_map. exact Hv. }
  apply Forall_app. split; assumption.
Qed.

(* the final label map binds only labels of the body and the last label *)
Lemma labs_dom b last w labs W l :
  unique_labels b last -> wc_loop (S (length b)) [] b last = Some (OK (w, labs, W)) ->
  known labs l -> In l (body_labels b ++ olist last).
Proof.
  intros Hu Hw Hk. destruct (write_is_encode b last w labs W Hu Hw) as (Hlen & _ & _ & HL & _).
  unfold known in Hk. rewrite HL in Hk.
  destruct (labpos (chs_run W 0%N 0 [] b) 0 b last l) as [t|] eqn:E; [|contradiction].
  destruct (labpos_positions b _ 0 last l t Hlen E) as [(k & e & Hn & _)|[-> _]].
  - apply in_or_app. left. apply nth_error_In in Hn. unfold body_labels. apply in_flat_map. exists (Some l, e). split; [exact Hn|left; reflexivity].
  - apply in_or_app. right. left. reflexivity.
Qed.

Theorem write_code_labels_carried c : ccode_ok c = true -> wk (write_code_attr c) (incl (code_table_labels c) (code_labels c)).
Proof.
  intros Hok s r E. rewrite write_code_attr_unfold in E.
  destruct (c_max c) as [[ms ml]|]; [|discriminate].
  destruct (mapW _ (c_insns c) s) as [[es s1]|c1|] eqn:El; try discriminate.
  destruct (lower_all_shape _ _ _ _ El) as [Hes _].
  destruct (wc_loop _ _ es (c_last c)) as [[[[w labs] Wd]| |]|] eqn:Ew; try discriminate.
  pose proof (wk_code_tail_labs _ _ _ _ _ _ _ _ _ E) as Hall.
  unfold ccode_ok in Hok. repeat (apply andb_true_iff in Hok as [Hok ?]).
  assert (Hu : unique_labels es (c_last c)).
  { unfold unique_labels. rewrite body_labels_map, Hes, <- insn_labels_map. apply nodupN_spec. assumption. }
  intros l Hin. rewrite Forall_forall in Hall. specialize (Hall l Hin).
  pose proof (labs_dom _ _ _ _ _ l Hu Ew Hall) as Hd. unfold code_labels.
  rewrite body_labels_map, Hes, <- insn_labels_map in Hd. exact Hd.
Qed.

Definition method_labels_carried (m : cmethod) : Prop :=
  match md_code m with Some c => incl (code_table_labels c) (code_labels c) | None => True end.
Lemma wk_write_method_labels m : cmethod_ok m = true -> wk (write_method m) (method_labels_carried m).
Proof.
  intros Hok. unfold write_method, method_labels_carried. apply wk_bind_r. intros n. apply wk_bind_r. intros d. apply wk_bind_r. intros dep.
  apply wk_bind_l. unfold cmethod_ok in Hok. repeat (apply andb_true_iff in Hok as [Hok ?]).
  destruct (md_code m) as [c|]; [|apply wk_true]. apply wk_bind_l, write_code_labels_carried. assumption.
Qed.
Theorem write_class_labels_carried t r : cclass_ok t = true -> write_class_aux t = WOK r -> Forall method_labels_carried (k_methods t).
Proof.
  intros Hok. unfold write_class_aux.
  match goal with |- match ?body wst_new with _ => _ end = _ -> _ =>
    assert (Hb : wk body (Forall method_labels_carried (k_methods t))); [|destruct (body wst_new) as [[[[rest codes] tbl] sF]|c0|] eqn:E; try discriminate] end.
  2:{ intros _. exact (Hb _ _ E). }
  unfold cclass_ok in Hok. repeat (apply andb_true_iff in Hok as [Hok ?]).
  apply wk_bind_r. intros this. apply wk_bind_r. intros super. apply wk_bind_r. intros ifs. apply wk_bind_r. intros fields.
  apply wk_bind_r. intros nm. apply wk_bind_l. apply wk_mapW. intros m Hin. apply wk_write_method_labels.
  match goal with H : forallb cmethod_ok (k_methods t) = true |- _ => rewrite forallb_forall in H; apply H, Hin end.
Qed.

(* non-vacuity: a line number on a label that no instruction carries is the ELabel error of C02_error_examples; with the
   label on the instruction the class is written *)
Definition exl_code (lab : label) : ccode :=
  {| c_max := Some (1, 1); c_insns := [(Some lab, None, IRaw [177]%N)]; c_last := None; c_exceptions := []; c_lines := Some [(7%N, 3)];
     c_locals := None; c_tvis := []; c_tinvis := []; c_unknown := [] |}.
Theorem labels_examples :
  ccode_ok (exl_code 7%N) = true /\ ccode_ok (exl_code 1%N) = true /\
  incl (code_table_labels (exl_code 7%N)) (code_labels (exl_code 7%N)) /\
  ~ incl (code_table_labels (exl_code 1%N)) (code_labels (exl_code 1%N)).
Proof.
  split; [reflexivity|]. split; [reflexivity|]. split.
  - intros l [<-|[]]. left. reflexivity.
  - intros H. specialize (H 7%N (or_introl eq_refl)). cbn in H. destruct H as [H|[]]. discriminate.
Qed.
