(* C02 — far conditionals in both directions and the code_length limit after growth.
   (1) A conditional whose target is an EARLIER label more than 32768 bytes back takes the resolved path of
       if_helper: no restart, the inverted condition over 8 bytes and a goto_w whose offset is relative to the
       goto_w opcode (opcode_pos + 3); the general theorems C02_write_is_encode / C02_targets_preserved cover this
       path (chs_run chooses the long form of a resolved reference by its true offset); here a concrete instance.
   (2) Whatever the pool does to the instruction sizes (ldc -> ldc_w when the index passes 255), the code array of
       a written Code attribute is the output of the loop on the lowered body: 0 < code_length <= 65535. *)
From FB Require Import Base.Run C02.Model C02.Encode C02.Theory1 C02.Theory2 C02.Theory3 C02.Theory4 C02.Theory5 C02.Theory6 C02.Theory7 C02.Theory8 C02.Frames C02.TheoryF
  C02.Class C02.Decode C02.Facts C02.TheoryC1 C02.TheoryC2 C02.TheoryC3 C02.TheoryC4 C02.TheoryC5 C02.TheoryC6 C02.TheoryC7 C02.TheoryC8 C02.TheoryC10 C02.TheoryC11 C02.TheoryB1.
Local Open Scope Z_scope.

Definition ex_far_back : body :=
  (Some 7%N, Plain [0%N]) :: repeat (None, Plain [0%N]) (N.to_nat 32768) ++ [(None, Br (KCond 153 154) 7%N); (None, Plain [177%N])].
(* first attempt succeeds (wide set stays empty); at 32769: ifne +8; goto_w -(32769 + 3) = 0xFFFF7FFC; the decoder of
   Encode.v, looking only at the bytes, finds the trampoline with target 0 *)
Definition far_back_check : bool :=
  match attempt [] ex_far_back None, wc_loop (S (length ex_far_back)) [] ex_far_back None with
  | ADone _ _, Some (OK (w, _, [])) =>
      list_eqb N.eqb (firstn 9 (skipn (N.to_nat 32769) w)) [154; 0; 8; 200; 255; 255; 127; 252; 177]%N && (zlen w =? 32778)
      && match decode_at w 32769 with DCond 154 t => t =? 32777 | _ => false end
      && match decode_at w 32772 with DJump 200 t => t =? 0 | _ => false end
  | _, _ => false
  end.
Theorem far_backward_conditional : far_back_check = true.
Proof. vm_compute. reflexivity. Qed.

(* exactly -32768 still fits the short form *)
Definition ex_near_back : body :=
  (Some 7%N, Plain [0%N]) :: repeat (None, Plain [0%N]) (N.to_nat 32767) ++ [(None, Br (KCond 153 154) 7%N); (None, Plain [177%N])].
Definition near_back_check : bool :=
  match wc_loop (S (length ex_near_back)) [] ex_near_back None with
  | Some (OK (w, _, [])) => list_eqb N.eqb (firstn 4 (skipn (N.to_nat 32768) w)) [153; 128; 0; 177]%N && (zlen w =? 32772)
  | _ => false
  end.
Theorem near_backward_conditional : near_back_check = true.
Proof. vm_compute. reflexivity. Qed.

(* the code array of a written Code attribute: what the loop produced for the lowered body; within the limit *)
Theorem code_length_limit c : ccode_ok c = true ->
  forall s r s', write_code_attr c s = WOK (r, s') ->
  exists es Wd labs s1, mapW (fun i => e <- lower_insn (snd i) ;; ret (fst (fst i), e)) (c_insns c) s = WOK (es, s1) /\
    wc_loop (S (length es)) [] es (c_last c) = Some (OK (fst (fst (snd r)), labs, Wd)) /\
    0 < zlen (fst (fst (snd r))) <= 65535.
Proof.
  intros Hok s r s' H. unfold ccode_ok in Hok. bsplit. rewrite write_code_attr_unfold in H.
  destruct (c_max c) as [[ms ml]|]; [|discriminate].
  destruct (mapW _ (c_insns c) s) as [[es s1]|?c|] eqn:El; try discriminate.
  destruct (lower_all_shape _ _ _ _ El) as [Hes _].
  destruct (wc_loop _ _ es (c_last c)) as [[[[w labs] Wd]| |]|] eqn:Ew; try discriminate.
  assert (Hu : unique_labels es (c_last c)).
  { unfold unique_labels. rewrite body_labels_map, Hes, <- insn_labels_map. apply nodupN_spec. assumption. }
  pose proof (write_is_encode _ _ _ _ _ Hu Ew) as (_ & _ & _ & _ & Hl & Hb).
  unfold code_tail in H. apply bind_ok in H as (exc & s2 & _ & H). apply bind_ok in H as (attrs & s3 & _ & H). apply ret_ok in H as [-> _].
  cbn [fst snd]. exists es, Wd, labs, s1. split; [reflexivity|]. split; [exact Ew|]. rewrite Hl. exact Hb.
Qed.
