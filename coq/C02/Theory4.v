(* C02 — admissibility of the chosen forms, and the theorem write_is_encode. *)
From FB Require Import C02.Model C02.Encode C02.Theory1 C02.Theory2 C02.Theory3.
Local Open Scope Z_scope.

Definition entry_wf (e : entry) : Prop :=
  match e with
  | TSwitch _ low high ts => low <= high /\ zlen ts = high - low + 1
  | LSwitch _ ps => keys_sorted ps = true /\ zlen ps <= i32max
  | _ => True
  end.

Lemma step_ok_facts W s i le s' : step W s i le = OK s' -> s_len s <= 65535 /\ entry_wf (snd le).
Proof.
  unfold step. destruct (u16max <? s_len s) eqn:E; [discriminate|].
  apply Z.ltb_ge in E. unfold u16max in E. intros H. split; [exact E|].
  destruct (snd le) as [bs|k l|d low high ts|d ps]; cbn [entry_wf]; try exact I.
  - destruct (high <? low) eqn:E1; [discriminate|]. destruct (i32max <? _); [discriminate|].
    destruct (zlen ts =? high - low + 1) eqn:E3; cbn [negb] in H; [|discriminate].
    apply Z.ltb_ge in E1. apply Z.eqb_eq in E3. split; assumption.
  - destruct (keys_sorted ps) eqn:E1; cbn [negb] in H; [|discriminate].
    destruct (i32max <? zlen ps) eqn:E2; [discriminate|]. apply Z.ltb_ge in E2. split; [reflexivity|exact E2].
Qed.

Definition bounded (L : label -> option Z) : Prop := forall l t, L l = Some t -> 0 <= t <= 65535.

Lemma fits32_small z : -65538 <= z <= 65535 -> fits32 z = true.
Proof. intros H. unfold fits32. apply andb_true_iff. split; apply Z.leb_le; lia. Qed.

Lemma tgt_ok32 L from l t : bounded L -> L l = Some t -> 0 <= from <= 65538 -> tgt_ok fits32 L from l = true.
Proof. intros Hb Hl Hf. unfold tgt_ok. rewrite Hl. apply fits32_small. specialize (Hb _ _ Hl). lia. Qed.

Lemma forallb_tgt_ok L p ts tts :
  bounded L -> 0 <= p <= 65535 -> mapO L ts = Some tts -> forallb (tgt_ok fits32 L p) ts = true.
Proof.
  intros Hb Hp. revert tts. induction ts as [|t ts IH]; intros tts; cbn [mapO forallb]; [reflexivity|].
  destruct (L t) as [tt|] eqn:E; [|discriminate]. destruct (mapO L ts) as [r|] eqn:E2; [|discriminate].
  intros _. rewrite (tgt_ok32 L p t tt Hb E) by lia. cbn [andb]. eapply IH. reflexivity.
Qed.

Lemma forallb_tgt_ok_pairs L p (ps : list (Z * label)) kts :
  bounded L -> 0 <= p <= 65535 ->
  mapO (fun kp => match L (snd kp) with Some t => Some (fst kp, t) | None => None end) ps = Some kts ->
  forallb (fun kp => tgt_ok fits32 L p (snd kp)) ps = true.
Proof.
  intros Hb Hp. revert kts. induction ps as [|[k l] ps IH]; intros kts; cbn [mapO forallb fst snd]; [reflexivity|].
  destruct (L l) as [tt|] eqn:E; [|discriminate].
  destruct (mapO _ ps) as [r|] eqn:E2; [|discriminate].
  intros _. rewrite (tgt_ok32 L p l tt Hb E) by lia. cbn [andb]. eapply IH. reflexivity.
Qed.

Lemma adm_entry_ok W labs labsF p i e rest x :
  0 <= p <= 65535 -> entry_wf e ->
  agree labs labsF -> bounded (lget labsF) ->
  resolve labsF (sym_items labs (is_wide W labs p i e) p i e ++ rest) = RDone x ->
  adm_entry (is_wide W labs p i e) (lget labsF) p e = true.
Proof.
  intros Hp Hwf Ha Hb.
  destruct e as [bs|[op inv|op wop] l|d low high ts|d ps]; cbn [sym_items adm_entry is_wide entry_wf] in *.
  - reflexivity.
  - destruct (lget labs l) as [t'|] eqn:E.
    + destruct (fits16 (t' - p)) eqn:F; cbn [negb app]; intros _.
      * unfold tgt_ok. rewrite (Ha _ _ E). exact F.
      * apply (tgt_ok32 _ _ _ t' Hb (Ha _ _ E)). lia.
    + destruct (memN i W); cbn [app]; intros H; apply resolve_lit in H as (y0 & -> & H);
        apply (resolve_mkref _ _ _ _ _ _ _ _ Ha) in H as (t & y & H1 & -> & H3 & H4).
      * apply (tgt_ok32 _ _ _ t Hb H1). lia.
      * unfold tgt_ok. rewrite H1. apply H4; [reflexivity|exact E].
  - destruct (lget labs l) as [t'|] eqn:E.
    + destruct (fits16 (t' - p)) eqn:F; cbn [negb app]; intros _.
      * unfold tgt_ok. rewrite (Ha _ _ E). exact F.
      * apply (tgt_ok32 _ _ _ t' Hb (Ha _ _ E)). lia.
    + destruct (memN i W); cbn [app]; intros H; apply resolve_lit in H as (y0 & -> & H);
        apply (resolve_mkref _ _ _ _ _ _ _ _ Ha) in H as (t & y & H1 & -> & H3 & H4).
      * apply (tgt_ok32 _ _ _ t Hb H1). lia.
      * unfold tgt_ok. rewrite H1. apply H4; [reflexivity|exact E].
  - cbn [app]. intros H. apply resolve_lit in H as (y0 & -> & H).
    apply (resolve_mkref _ _ _ _ _ _ _ _ Ha) in H as (td & y & H1 & -> & H3 & _).
    apply resolve_lit in H3 as (y1 & -> & H3).
    apply (resolve_map_mkref _ _ _ _ _ _ _ Ha) in H3 as (tts & y2 & H4 & -> & H6).
    destruct Hwf as [W1 W2].
    rewrite (tgt_ok32 _ p d td Hb H1) by lia.
    rewrite (forallb_tgt_ok _ p ts tts Hb Hp H4).
    cbn [negb andb]. apply andb_true_iff. split; [apply Z.leb_le; exact W1|apply Z.eqb_eq; exact W2].
  - cbn [app]. intros H. apply resolve_lit in H as (y0 & -> & H).
    apply (resolve_mkref _ _ _ _ _ _ _ _ Ha) in H as (td & y & H1 & -> & H3 & _).
    apply resolve_lit in H3 as (y1 & -> & H3).
    apply (resolve_flat_mkref _ _ _ _ _ _ _ Ha) in H3 as (kts & y2 & H4 & -> & H6).
    destruct Hwf as [W1 W2].
    rewrite (tgt_ok32 _ p d td Hb H1) by lia.
    rewrite (forallb_tgt_ok_pairs _ p ps kts Hb Hp H4).
    cbn [negb andb]. rewrite W1. cbn [andb]. apply Z.leb_le. exact W2.
Qed.

Lemma adm_run W : forall b i s s' labsF bs,
  run W i s b = OK s' -> 0 <= s_len s ->
  NoDup (body_labels b) -> fresh (s_labs s) b ->
  agree (labs_run W i (s_len s) (s_labs s) b) labsF -> bounded (lget labsF) ->
  resolve labsF (items_run W i (s_len s) (s_labs s) b) = RDone bs ->
  admissible (chs_run W i (s_len s) (s_labs s) b) (lget labsF) (s_len s) b = true.
Proof.
  induction b as [|[lb e] r IH]; intros i s s' labsF bs; cbn [run items_run chs_run admissible labs_run].
  - reflexivity.
  - destruct (step W s i (lb, e)) as [s1| |] eqn:E; try discriminate.
    intros Hr Hp Hnd Hf Ha Hb H.
    pose proof (step_ok_facts _ _ _ _ _ E) as [Hle Hwf]. cbn [snd] in Hwf.
    pose proof (step_extends _ _ _ _ _ E) as (_ & _ & E3 & E4).
    rewrite with_label_labs in E3, E4. cbn [fst snd] in E3, E4. rewrite with_label_len in E3.
    rewrite isize_sym_items in E3.
    assert (Hnd2 : NoDup (body_labels r)).
    { cbn [body_labels flat_map fst] in Hnd. apply nodup_app_r in Hnd. exact Hnd. }
    pose proof (fresh_tail _ _ _ (s_len s) _ Hnd Hf) as Hf2.
    assert (Ha1 : agree (bind_lab lb (s_len s) (s_labs s)) labsF).
    { intros l t Hl. apply Ha. apply labs_run_mono; assumption. }
    rewrite (adm_entry_ok W _ labsF (s_len s) i e _ bs (conj Hp Hle) Hwf Ha1 Hb H). cbn [andb].
    apply (entry_resolve _ _ _ _ _ _ _ _ Ha1) in H as (x & y & H1 & -> & H3).
    specialize (IH (N.succ i) s1 s' labsF y Hr). rewrite E3, E4 in IH.
    apply IH; try assumption.
    pose proof (esize_nonneg (is_wide W (bind_lab lb (s_len s) (s_labs s)) (s_len s) i e) (s_len s) e). lia.
Qed.

Lemma endpos_ge : forall b chs p, p <= endpos chs p b.
Proof.
  induction b as [|[lb e] r IH]; intros [|c cs] p; cbn [endpos]; try lia.
  pose proof (esize_nonneg c p e). specialize (IH cs (p + esize c p e)). lia.
Qed.

Lemma labpos_bounds : forall b chs p last l t,
  labpos chs p b last l = Some t -> p <= t <= endpos chs p b.
Proof.
  induction b as [|[lb e] r IH]; intros chs p last l t; destruct chs as [|c cs]; cbn [labpos endpos].
  1-3: destruct (olabel_is last l); [intros [= <-]; lia|discriminate].
  pose proof (esize_nonneg c p e) as Hs.
  pose proof (endpos_ge r cs (p + esize c p e)) as He.
  destruct (olabel_is lb l).
  - intros [= <-]. lia.
  - intros H. apply IH in H. lia.
Qed.

Lemma forallb_ext' {A} (f g : A -> bool) l : (forall x, f x = g x) -> forallb f l = forallb g l.
Proof. intros H. induction l as [|x l IH]; cbn [forallb]; [reflexivity|]. rewrite H, IH. reflexivity. Qed.
Lemma adm_entry_ext c L1 L2 p e : (forall l, L1 l = L2 l) -> adm_entry c L1 p e = adm_entry c L2 p e.
Proof.
  intros H. destruct e as [bs|[op inv|op wop] l|d low high ts|d ps]; cbn [adm_entry]; unfold tgt_ok; rewrite ?H; try reflexivity.
  - do 3 f_equal. apply forallb_ext'. intros x. rewrite H. reflexivity.
  - do 3 f_equal. apply forallb_ext'. intros x. rewrite H. reflexivity.
Qed.
Lemma admissible_ext L1 L2 : (forall l, L1 l = L2 l) -> forall b chs p, admissible chs L1 p b = admissible chs L2 p b.
Proof.
  intros H. induction b as [|[lb e] r IH]; intros [|c cs] p; cbn [admissible]; try reflexivity.
  rewrite (adm_entry_ext c L1 L2 p e H), IH. reflexivity.
Qed.

Lemma resolve_len labs : forall its w, resolve labs its = RDone w -> zlen w = isize its.
Proof.
  induction its as [|[bs|wd o i l] its IH]; intros w; cbn [resolve isize iwidth].
  - intros [= <-]. reflexivity.
  - destruct (resolve labs its) as [y| |]; cbn [rmap]; try discriminate. intros [= <-].
    rewrite zlen_app, (IH y eq_refl). reflexivity.
  - destruct (lget labs l) as [z|]; [|discriminate]. destruct wd.
    + destruct (resolve labs its) as [y| |]; cbn [rmap]; try discriminate. intros E.
      replace w with (be32 (z - o) ++ y) by congruence.
      rewrite zlen_app, (IH y eq_refl), zlen_be32. reflexivity.
    + destruct (fits16 _); [|discriminate].
      destruct (resolve labs its) as [y| |]; cbn [rmap]; try discriminate. intros E.
      replace w with (be16 (z - o) ++ y) by congruence.
      rewrite zlen_app, (IH y eq_refl), zlen_be16. reflexivity.
Qed.

(* ================= write_is_encode ================= *)
Theorem attempt_is_encode W b last w labs :
  unique_labels b last ->
  attempt W b last = ADone w labs ->
  let chs := chs_run W 0%N 0 [] b in
  let L := labpos chs 0 b last in
  length chs = length b /\
  encode chs L 0 b = Some w /\
  admissible chs L 0 b = true /\
  (forall l, lget labs l = L l) /\
  zlen w = endpos chs 0 b /\ 0 < endpos chs 0 b <= 65535.
Proof.
  intros Hu Hd chs L.
  pose proof (attempt_done _ _ _ _ _ Hd) as (Hr & Hl & Hs & _ & (s & Hrun)).
  pose proof (isize_items_run W b 0%N 0 []) as Hend. fold chs in Hend. rewrite Z.add_0_l in Hend.
  rewrite Hend in Hl, Hs.
  assert (Hnd : NoDup (body_labels b)) by (apply nodup_app_l in Hu; exact Hu).
  assert (Hf : fresh [] b) by (intros k _; reflexivity).
  assert (HL : forall l, lget labs l = L l).
  { intros l. rewrite Hl. apply final_labels; [exact Hu|fold chs; lia]. }
  assert (Hag : agree (labs_run W 0%N 0 [] b) labs).
  { intros l t Hlt. rewrite HL. unfold L. rewrite labpos_last by apply chs_run_length.
    pose proof (labs_run_labpos W b 0%N 0 [] l Hnd Hf) as E. cbn [lget] in E. fold chs in E.
    rewrite Hlt in E. destruct (labpos chs 0 b None l); [congruence|discriminate]. }
  assert (Hbd : bounded (lget labs)).
  { intros l t Hlt. rewrite HL in Hlt. apply labpos_bounds in Hlt. lia. }
  split; [apply chs_run_length|].
  split.
  { rewrite <- (encode_ext (lget labs) L HL). apply encode_run; assumption. }
  split.
  { pose proof (adm_run W b 0%N init s labs w Hrun ltac:(cbn; lia) Hnd Hf Hag Hbd Hr) as Ha.
    cbn [init s_len s_labs] in Ha. fold chs in Ha.
    rewrite <- (admissible_ext (lget labs) L HL). exact Ha. }
  split; [exact HL|].
  split; [|lia].
  rewrite (resolve_len _ _ _ Hr). exact Hend.
Qed.

Theorem write_is_encode b last w labs W :
  unique_labels b last ->
  wc_loop (S (length b)) [] b last = Some (OK (w, labs, W)) ->
  let chs := chs_run W 0%N 0 [] b in
  let L := labpos chs 0 b last in
  length chs = length b /\
  encode chs L 0 b = Some w /\
  admissible chs L 0 b = true /\
  (forall l, lget labs l = L l) /\
  zlen w = endpos chs 0 b /\ 0 < endpos chs 0 b <= 65535.
Proof.
  intros Hu H. apply wc_loop_W in H; [|constructor|intros i []].
  destruct H as (_ & _ & _ & Hd). apply attempt_is_encode; assumption.
Qed.
