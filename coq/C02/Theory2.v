(* C02 — one attempt, symbolically: what the fold over the instructions emits is a list of
   items (literal bytes, or a reserved hole for a forward reference); patching the holes is
   [resolve]; the loop of the model computes exactly this. *)
From FB Require Import C02.Model C02.Encode C02.Theory1.
Local Open Scope Z_scope.

Inductive item := ILit (bs : list N) | IRef (wide : bool) (opos : Z) (idx : N) (l : label).

Definition ph (w : bool) : list N := if w then ph32 else ph16.
Definition bev (w : bool) (z : Z) : list N := if w then be32 z else be16 z.
Definition rwidth (w : bool) : Z := if w then 4 else 2.
Definition iwidth (it : item) : Z := match it with ILit bs => zlen bs | IRef w _ _ _ => rwidth w end.
Fixpoint isize (its : list item) : Z := match its with [] => 0 | it :: r => iwidth it + isize r end.
Fixpoint render_ph (its : list item) : list N :=
  match its with
  | [] => []
  | ILit bs :: r => bs ++ render_ph r
  | IRef w _ _ _ :: r => ph w ++ render_ph r
  end.
Fixpoint pendings (base : Z) (its : list item) : list unw :=
  match its with
  | [] => []
  | ILit bs :: r => pendings (base + zlen bs) r
  | IRef w opos idx l :: r =>
      {| u_opos := opos; u_idx := idx; u_lab := l; u_wpos := base; u_wide := w |} :: pendings (base + rwidth w) r
  end.

Inductive rres := RDone (bs : list N) | RRestart (i : N) | RErr.
Definition rmap (f : list N -> list N) (r : rres) : rres := match r with RDone bs => RDone (f bs) | x => x end.
Fixpoint resolve (labs : labmap) (its : list item) : rres :=
  match its with
  | [] => RDone []
  | ILit bs :: r => rmap (app bs) (resolve labs r)
  | IRef w opos idx l :: r =>
      match lget labs l with
      | None => RErr
      | Some t => if w then rmap (app (be32 (t - opos))) (resolve labs r)
                  else if fits16 (t - opos) then rmap (app (be16 (t - opos))) (resolve labs r)
                  else RRestart idx
      end
  end.

Lemma zlen_app {A} (a b : list A) : zlen (a ++ b) = zlen a + zlen b.
Proof. unfold zlen. rewrite app_length. lia. Qed.
Lemma zlen_nonneg {A} (a : list A) : 0 <= zlen a.
Proof. unfold zlen. lia. Qed.
Lemma zlen_cons {A} (x : A) (a : list A) : zlen (x :: a) = 1 + zlen a.
Proof. unfold zlen. cbn [length]. lia. Qed.
Lemma zlen_be16 z : zlen (be16 z) = 2. Proof. reflexivity. Qed.
Lemma zlen_be32 z : zlen (be32 z) = 4. Proof. reflexivity. Qed.
Lemma zlen_bev w z : zlen (bev w z) = rwidth w. Proof. destruct w; reflexivity. Qed.
Lemma zlen_ph w : zlen (ph w) = rwidth w. Proof. destruct w; reflexivity. Qed.
Lemma rwidth_pos w : 0 < rwidth w. Proof. destruct w; cbn; lia. Qed.

Lemma isize_app a b : isize (a ++ b) = isize a + isize b.
Proof. induction a as [|x a IH]; cbn [isize app]; lia. Qed.
Lemma isize_nonneg a : 0 <= isize a.
Proof.
  induction a as [|[bs|w o i l] a IH]; cbn [isize iwidth]; [lia| |].
  - pose proof (zlen_nonneg bs). lia.
  - pose proof (rwidth_pos w). lia.
Qed.
Lemma render_ph_app a b : render_ph (a ++ b) = render_ph a ++ render_ph b.
Proof. induction a as [|[bs|w o i l] a IH]; cbn [render_ph app]; rewrite ?IH, ?app_assoc; reflexivity. Qed.
Lemma pendings_app a : forall base b, pendings base (a ++ b) = pendings base a ++ pendings (base + isize a) b.
Proof.
  induction a as [|[bs|w o i l] a IH]; intros base b; cbn [pendings app isize iwidth].
  - f_equal. lia.
  - rewrite IH. do 2 f_equal. lia.
  - rewrite IH. cbn [app]. do 3 f_equal. lia.
Qed.
Lemma zlen_render_ph a : zlen (render_ph a) = isize a.
Proof.
  induction a as [|[bs|w o i l] a IH]; cbn [render_ph isize iwidth]; [reflexivity| |];
    rewrite zlen_app, IH, ?zlen_ph; reflexivity.
Qed.

Lemma resolve_app labs a b :
  resolve labs (a ++ b) = match resolve labs a with
                          | RDone x => rmap (app x) (resolve labs b)
                          | o => o
                          end.
Proof.
  induction a as [|[bs|w o i l] a IH]; cbn [resolve app].
  - destruct (resolve labs b); reflexivity.
  - rewrite IH. destruct (resolve labs a); cbn [rmap]; try reflexivity.
    destruct (resolve labs b); cbn [rmap]; rewrite ?app_assoc; reflexivity.
  - destruct (lget labs l); [|reflexivity]. destruct w.
    + rewrite IH. destruct (resolve labs a); cbn [rmap]; try reflexivity.
      destruct (resolve labs b); cbn [rmap]; rewrite ?app_assoc; reflexivity.
    + destruct (fits16 _); [|reflexivity].
      rewrite IH. destruct (resolve labs a); cbn [rmap]; try reflexivity.
      destruct (resolve labs b); cbn [rmap]; rewrite ?app_assoc; reflexivity.
Qed.

(* ---- put_at on a reserved region ---- *)
Lemma overwrite_same : forall v old rest, length v = length old -> overwrite v (old ++ rest) = Some (v ++ rest).
Proof.
  induction v as [|a v IH]; intros [|o old] rest H; cbn in H; try discriminate; cbn [overwrite app].
  - reflexivity.
  - rewrite IH by lia. reflexivity.
Qed.
Lemma put_at_app : forall pre v old rest, length v = length old ->
  put_at (length pre) v (pre ++ old ++ rest) = Some (pre ++ v ++ rest).
Proof.
  induction pre as [|x pre IH]; intros v old rest H; cbn [put_at length app].
  - destruct (old ++ rest) eqn:E; rewrite <- E; apply overwrite_same, H.
  - rewrite IH by exact H. reflexivity.
Qed.
Lemma put_at_O v w : put_at O v w = overwrite v w.
Proof. destruct w; reflexivity. Qed.

Lemma zlen_to_nat {A} (l : list A) : Z.to_nat (zlen l) = length l.
Proof. unfold zlen. apply Nat2Z.id. Qed.

(* the patch loop over the holes of an item list, in place *)
Lemma patch_items labs : forall its pre post us,
  patch labs (pendings (zlen pre) its ++ us) (pre ++ render_ph its ++ post) =
  match resolve labs its with
  | RDone bs => patch labs us (pre ++ bs ++ post)
  | RRestart i => PRestart i
  | RErr => PErr
  end.
Proof.
  induction its as [|[bs|w o i l] its IH]; intros pre post us; cbn [pendings render_ph resolve app].
  - reflexivity.
  - rewrite <- zlen_app. rewrite <- (app_assoc bs), (app_assoc pre bs). rewrite IH.
    destruct (resolve labs its); cbn [rmap]; rewrite <- ?app_assoc; reflexivity.
  - cbn [patch u_lab u_opos u_wide u_wpos u_idx]. destruct (lget labs l) as [t|]; [|reflexivity].
    rewrite zlen_to_nat.
    destruct w; cbn [ph rwidth].
    + rewrite <- (app_assoc ph32). rewrite put_at_app by reflexivity.
      replace (zlen pre + 4) with (zlen (pre ++ be32 (t - o))) by (rewrite zlen_app, zlen_be32; reflexivity).
      rewrite (app_assoc pre (be32 _)). rewrite IH.
      destruct (resolve labs its); cbn [rmap]; rewrite <- ?app_assoc; reflexivity.
    + destruct (fits16 (t - o)); [|reflexivity].
      rewrite <- (app_assoc ph16). rewrite put_at_app by reflexivity.
      replace (zlen pre + 2) with (zlen (pre ++ be16 (t - o))) by (rewrite zlen_app, zlen_be16; reflexivity).
      rewrite (app_assoc pre (be16 _)). rewrite IH.
      destruct (resolve labs its); cbn [rmap]; rewrite <- ?app_assoc; reflexivity.
Qed.

Lemma patch_items0 labs its :
  patch labs (pendings 0 its) (render_ph its) =
  match resolve labs its with RDone bs => PDone bs | RRestart i => PRestart i | RErr => PErr end.
Proof.
  pose proof (patch_items labs its [] [] []) as H. cbn [app zlen length Z.of_nat] in H.
  rewrite !app_nil_r in H. rewrite H. destruct (resolve labs its); cbn [patch]; rewrite ?app_nil_r; reflexivity.
Qed.

(* ---- what one instruction emits, given the labels known so far and the form chosen ---- *)
Definition mkref (labs : labmap) (w : bool) (opos : Z) (i : N) (l : label) : item :=
  match lget labs l with Some t => ILit (bev w (t - opos)) | None => IRef w opos i l end.

(* the form the code chooses: a resolved (backward) reference is decided by the true offset,
   an unresolved one by membership in the wide set *)
Definition is_wide (W : list N) (labs : labmap) (p : Z) (i : N) (e : entry) : bool :=
  match e with
  | Br _ l => match lget labs l with Some t => negb (fits16 (t - p)) | None => memN i W end
  | _ => false
  end.

Definition sym_items (labs : labmap) (wide : bool) (p : Z) (i : N) (e : entry) : list item :=
  match e with
  | Plain bs => [ILit bs]
  | Br (KCond op inv) l =>
      if wide then [ILit [inv; 0; 8; GOTO_W]%N; mkref labs true (p + 3) i l]
      else [ILit [op]; mkref labs false p i l]
  | Br (KJump op wop) l =>
      if wide then [ILit [wop]; mkref labs true p i l] else [ILit [op]; mkref labs false p i l]
  | TSwitch d low high ts =>
      ILit (TABLESWITCH :: pad_of (p + 1)) :: mkref labs true p i d :: ILit (be32 low ++ be32 high)
      :: map (mkref labs true p i) ts
  | LSwitch d ps =>
      ILit (LOOKUPSWITCH :: pad_of (p + 1)) :: mkref labs true p i d :: ILit (be32 (zlen ps))
      :: flat_map (fun kp => [ILit (be32 (fst kp)); mkref labs true p i (snd kp)]) ps
  end.

Lemma iwidth_mkref labs w o i l : iwidth (mkref labs w o i l) = rwidth w.
Proof. unfold mkref. destruct (lget labs l); cbn [iwidth]; [apply zlen_bev|reflexivity]. Qed.

Lemma zlen_pad_of p : zlen (pad_of (p + 1)) = pad p.
Proof.
  unfold pad_of, pad.
  pose proof (Z.mod_pos_bound (p + 1) 4 ltac:(lia)) as H1.
  pose proof (Z.mod_pos_bound p 4 ltac:(lia)) as H2.
  pose proof (Z.div_mod (p + 1) 4 ltac:(lia)) as E1.
  pose proof (Z.div_mod p 4 ltac:(lia)) as E2.
  destruct ((p + 1) mod 4) as [|q|q] eqn:E; [|destruct q as [[|[]|]|[|[]|]|]|]; cbn [zlen length Z.of_nat]; lia.
Qed.
Lemma pad_bounds p : 0 <= pad p <= 3.
Proof. unfold pad. pose proof (Z.mod_pos_bound p 4 ltac:(lia)). lia. Qed.

Lemma isize_map_mkref labs p i ts : isize (map (mkref labs true p i) ts) = 4 * zlen ts.
Proof.
  induction ts as [|t ts IH]; cbn [map isize]; [reflexivity|].
  rewrite iwidth_mkref, IH, zlen_cons. cbn [rwidth]. lia.
Qed.
Lemma isize_flat_mkref labs p i (ps : list (Z * label)) :
  isize (flat_map (fun kp => [ILit (be32 (fst kp)); mkref labs true p i (snd kp)]) ps) = 8 * zlen ps.
Proof.
  induction ps as [|t ts IH]; cbn [flat_map isize app iwidth]; [reflexivity|].
  rewrite iwidth_mkref, IH, zlen_cons, zlen_be32. cbn [rwidth]. lia.
Qed.

Lemma isize_sym_items labs c p i e : isize (sym_items labs c p i e) = esize c p e.
Proof.
  destruct e as [bs|[op inv|op wop] l|d low high ts|d ps]; cbn [sym_items esize].
  - cbn [isize iwidth]. lia.
  - destruct c; cbn [isize iwidth]; rewrite iwidth_mkref; reflexivity.
  - destruct c; cbn [isize iwidth]; rewrite iwidth_mkref; reflexivity.
  - cbn [isize iwidth]. rewrite iwidth_mkref, isize_map_mkref, zlen_cons, zlen_pad_of, zlen_app, !zlen_be32.
    cbn [rwidth]. lia.
  - cbn [isize iwidth]. rewrite iwidth_mkref, isize_flat_mkref, zlen_cons, zlen_pad_of, zlen_be32.
    cbn [rwidth]. lia.
Qed.

Lemma esize_nonneg c p e : 0 <= esize c p e.
Proof. rewrite <- (isize_sym_items [] c p 0%N e). apply isize_nonneg. Qed.

(* ---- the state after emitting items ---- *)
Definition extends (s s' : st) (its : list item) : Prop :=
  rev (s_w s') = rev (s_w s) ++ render_ph its /\
  rev (s_unw s') = rev (s_unw s) ++ pendings (s_len s) its /\
  s_len s' = s_len s + isize its /\
  s_labs s' = s_labs s.

Lemma extends_nil s : extends s s [].
Proof. unfold extends. cbn [render_ph pendings isize]. rewrite !app_nil_r. repeat split; lia. Qed.

Lemma extends_trans s s1 s2 a b : extends s s1 a -> extends s1 s2 b -> extends s s2 (a ++ b).
Proof.
  intros (A1 & A2 & A3 & A4) (B1 & B2 & B3 & B4). unfold extends.
  rewrite render_ph_app, pendings_app, isize_app. repeat split.
  - rewrite B1, A1, app_assoc. reflexivity.
  - rewrite B2, A2, A3, app_assoc. reflexivity.
  - lia.
  - congruence.
Qed.

Lemma rev_rev_append {A} (bs w : list A) : rev (rev_append bs w) = rev w ++ bs.
Proof. rewrite rev_append_rev, rev_app_distr, rev_involutive. reflexivity. Qed.

Lemma extends_push s bs : extends s (push bs s) [ILit bs].
Proof.
  unfold extends, push. cbn [s_w s_len s_labs s_unw render_ph pendings isize iwidth].
  rewrite rev_rev_append, !app_nil_r. repeat split; lia.
Qed.

Lemma extends_push_ref s w opos i l :
  extends s (push (ph w) (add_unw {| u_opos := opos; u_idx := i; u_lab := l; u_wpos := s_len s; u_wide := w |} s))
    [IRef w opos i l].
Proof.
  unfold extends, push, add_unw. cbn [s_w s_len s_labs s_unw render_ph pendings isize iwidth rev].
  rewrite rev_rev_append, !app_nil_r, zlen_ph. repeat split; lia.
Qed.

Lemma extends_switch_ref s pos i l : extends s (switch_ref pos i s l) [mkref (s_labs s) true pos i l].
Proof.
  unfold switch_ref, mkref. destruct (lget (s_labs s) l).
  - apply extends_push.
  - apply (extends_push_ref s true).
Qed.

Lemma switch_ref_labs s pos i l : s_labs (switch_ref pos i s l) = s_labs s.
Proof. unfold switch_ref. destruct (lget _ _); reflexivity. Qed.

Lemma extends_fold_switch_ref pos i : forall ts s,
  extends s (fold_left (switch_ref pos i) ts s) (map (mkref (s_labs s) true pos i) ts).
Proof.
  induction ts as [|t ts IH]; intros s; cbn [fold_left map]; [apply extends_nil|].
  change (mkref (s_labs s) true pos i t :: map (mkref (s_labs s) true pos i) ts)
    with ([mkref (s_labs s) true pos i t] ++ map (mkref (s_labs s) true pos i) ts).
  eapply extends_trans; [apply extends_switch_ref|].
  rewrite <- (switch_ref_labs s pos i t). apply IH.
Qed.

Lemma extends_fold_lookup pos i : forall (ps : list (Z * label)) s,
  extends s (fold_left (fun s kp => switch_ref pos i (push (be32 (fst kp)) s) (snd kp)) ps s)
    (flat_map (fun kp => [ILit (be32 (fst kp)); mkref (s_labs s) true pos i (snd kp)]) ps).
Proof.
  induction ps as [|kp ps IH]; intros s; cbn [fold_left flat_map]; [apply extends_nil|].
  eapply extends_trans.
  - change [ILit (be32 (fst kp)); mkref (s_labs s) true pos i (snd kp)]
      with ([ILit (be32 (fst kp))] ++ [mkref (s_labs s) true pos i (snd kp)]).
    eapply extends_trans; [apply extends_push|]. apply (extends_switch_ref (push (be32 (fst kp)) s)).
  - replace (s_labs s) with (s_labs (switch_ref pos i (push (be32 (fst kp)) s) (snd kp)))
      by (rewrite switch_ref_labs; reflexivity).
    apply IH.
Qed.

(* rendering does not see how literals are grouped *)
Lemma extends_same s s' a b :
  render_ph a = render_ph b -> (forall base, pendings base a = pendings base b) -> isize a = isize b ->
  extends s s' a -> extends s s' b.
Proof. intros H1 H2 H3 (A1 & A2 & A3 & A4). unfold extends. rewrite <- H1, <- H2, <- H3. auto. Qed.

(* ---- one instruction ---- *)
Definition with_label (le : option label * entry) (s : st) : st :=
  match fst le with Some l => add_lab l (s_len s) s | None => s end.

Lemma with_label_len le s : s_len (with_label le s) = s_len s.
Proof. unfold with_label. destruct (fst le); reflexivity. Qed.

Lemma extends_lit_ref s bs w opos i l wpos :
  wpos = s_len s + zlen bs ->
  extends s (push (bs ++ ph w) (add_unw {| u_opos := opos; u_idx := i; u_lab := l; u_wpos := wpos; u_wide := w |} s))
    [ILit bs; IRef w opos i l].
Proof.
  intros ->. unfold extends, push, add_unw.
  cbn [s_w s_len s_labs s_unw render_ph pendings isize iwidth rev].
  rewrite rev_rev_append, !app_nil_r, zlen_app, zlen_ph. repeat split; lia.
Qed.

Lemma step_extends W s i le s' :
  step W s i le = OK s' ->
  extends (with_label le s) s'
    (sym_items (s_labs (with_label le s)) (is_wide W (s_labs (with_label le s)) (s_len s) i (snd le)) (s_len s) i (snd le)).
Proof.
  unfold step. destruct (u16max <? s_len s); [discriminate|].
  fold (with_label le s). set (s0 := with_label le s).
  assert (Hlen : s_len s0 = s_len s) by apply with_label_len.
  clearbody s0. set (p := s_len s) in *.
  destruct (snd le) as [bs|[op inv|op wop] l|d low high ts|d ps]; cbn [sym_items is_wide].
  - intros [= <-]. apply extends_push.
  - unfold if_helper, mkref. destruct (lget (s_labs s0) l) as [t|] eqn:E.
    + destruct (fits16 (t - p)) eqn:F; cbn [negb].
      * intros [= <-]. apply (extends_same _ _ [ILit (op :: be16 (t - p))]); [reflexivity|intros; reflexivity|reflexivity|apply extends_push].
      * unfold plus3. destruct (u16max <? p + 3); [discriminate|]. intros [= <-].
        apply (extends_same _ _ [ILit ([inv; 0; 8; GOTO_W]%N ++ be32 (t - (p + 3)))]); [reflexivity|intros; reflexivity|reflexivity|apply extends_push].
    + destruct (memN i W).
      * unfold plus3. destruct (u16max <? p + 3); [discriminate|]. intros [= <-].
        apply (extends_lit_ref s0 [inv; 0; 8; GOTO_W]%N true). rewrite Hlen. cbn [zlen length Z.of_nat]. lia.
      * intros [= <-].
        apply (extends_lit_ref s0 [op] false). rewrite Hlen. reflexivity.
  - unfold goto_helper, mkref. destruct (lget (s_labs s0) l) as [t|] eqn:E.
    + destruct (fits16 (t - p)) eqn:F; cbn [negb]; intros [= <-].
      * apply (extends_same _ _ [ILit (op :: be16 (t - p))]); [reflexivity|intros; reflexivity|reflexivity|apply extends_push].
      * apply (extends_same _ _ [ILit (wop :: be32 (t - p))]); [reflexivity|intros; reflexivity|reflexivity|apply extends_push].
    + destruct (memN i W); intros [= <-].
      * apply (extends_lit_ref s0 [wop] true). rewrite Hlen. reflexivity.
      * apply (extends_lit_ref s0 [op] false). rewrite Hlen. reflexivity.
  - destruct (high <? low); [discriminate|]. destruct (i32max <? _); [discriminate|].
    destruct (negb _); [discriminate|]. intros [= <-].
    set (s1 := push [TABLESWITCH] s0). set (s2 := push (pad_of (s_len s1)) s1).
    set (s3 := switch_ref p i s2 d). set (s4 := push (be32 low ++ be32 high) s3).
    assert (L2 : s_labs s2 = s_labs s0) by reflexivity.
    assert (L4 : s_labs s4 = s_labs s0) by (unfold s4, s3; cbn [push s_labs]; rewrite switch_ref_labs; exact L2).
    assert (E2 : extends s0 s2 [ILit (TABLESWITCH :: pad_of (p + 1))]).
    { assert (Hs1 : s_len s1 = p + 1) by (unfold s1; cbn [push s_len]; rewrite Hlen; reflexivity).
      apply (extends_same _ _ ([ILit [TABLESWITCH]] ++ [ILit (pad_of (s_len s1))])).
      - rewrite Hs1. reflexivity.
      - intros base. reflexivity.
      - rewrite Hs1. cbn [isize iwidth app]. rewrite !zlen_cons. change (zlen (@nil N)) with 0. lia.
      - eapply extends_trans; apply extends_push. }
    change (ILit (TABLESWITCH :: pad_of (p + 1)) :: mkref (s_labs s0) true p i d :: ILit (be32 low ++ be32 high) :: map (mkref (s_labs s0) true p i) ts)
      with ([ILit (TABLESWITCH :: pad_of (p + 1))] ++ [mkref (s_labs s0) true p i d] ++ [ILit (be32 low ++ be32 high)] ++ map (mkref (s_labs s0) true p i) ts).
    eapply extends_trans; [exact E2|].
    eapply extends_trans; [rewrite <- L2; apply extends_switch_ref|].
    eapply extends_trans; [apply extends_push|].
    rewrite <- L4. apply extends_fold_switch_ref.
  - destruct (negb _); [discriminate|]. destruct (i32max <? _); [discriminate|]. intros [= <-].
    set (s1 := push [LOOKUPSWITCH] s0). set (s2 := push (pad_of (s_len s1)) s1).
    set (s3 := switch_ref p i s2 d). set (s4 := push (be32 (zlen ps)) s3).
    assert (L2 : s_labs s2 = s_labs s0) by reflexivity.
    assert (L4 : s_labs s4 = s_labs s0) by (unfold s4, s3; cbn [push s_labs]; rewrite switch_ref_labs; exact L2).
    assert (E2 : extends s0 s2 [ILit (LOOKUPSWITCH :: pad_of (p + 1))]).
    { assert (Hs1 : s_len s1 = p + 1) by (unfold s1; cbn [push s_len]; rewrite Hlen; reflexivity).
      apply (extends_same _ _ ([ILit [LOOKUPSWITCH]] ++ [ILit (pad_of (s_len s1))])).
      - rewrite Hs1. reflexivity.
      - intros base. reflexivity.
      - rewrite Hs1. cbn [isize iwidth app]. rewrite !zlen_cons. change (zlen (@nil N)) with 0. lia.
      - eapply extends_trans; apply extends_push. }
    change (ILit (LOOKUPSWITCH :: pad_of (p + 1)) :: mkref (s_labs s0) true p i d :: ILit (be32 (zlen ps))
            :: flat_map (fun kp => [ILit (be32 (fst kp)); mkref (s_labs s0) true p i (snd kp)]) ps)
      with ([ILit (LOOKUPSWITCH :: pad_of (p + 1))] ++ [mkref (s_labs s0) true p i d] ++ [ILit (be32 (zlen ps))]
            ++ flat_map (fun kp => [ILit (be32 (fst kp)); mkref (s_labs s0) true p i (snd kp)]) ps).
    eapply extends_trans; [exact E2|].
    eapply extends_trans; [rewrite <- L2; apply extends_switch_ref|].
    eapply extends_trans; [apply extends_push|].
    rewrite <- L4. apply extends_fold_lookup.
Qed.
