(* C02 — the writer's constant pool: hash-consing put, two-slot accounting, ldc threshold;
   attribute framing. *)
From FB Require Import C02.Model.
Local Open Scope Z_scope.

Lemma find_app_l {A} (f : A -> bool) a b x : find f a = Some x -> find f (a ++ b) = Some x.
Proof. induction a as [|y a IH]; cbn [find app]; [discriminate|]. destruct (f y); auto. Qed.
Lemma find_app_r {A} (f : A -> bool) a b : find f a = None -> find f (a ++ b) = find f b.
Proof. induction a as [|y a IH]; cbn [find app]; [reflexivity|]. destruct (f y); [discriminate|auto]. Qed.

Lemma zlen_nonneg' {A} (a : list A) : 0 <= zlen a.
Proof. unfold zlen. lia. Qed.

Definition slot (e : pentry) : Z := if pe_two e then 2 else 1.
Fixpoint total (es : list pentry) : Z := match es with [] => 0 | e :: r => slot e + total r end.

Lemma slot_pos e : 1 <= slot e <= 2. Proof. unfold slot. destruct (pe_two e); lia. Qed.
Lemma total_nonneg es : 0 <= total es.
Proof. induction es as [|e r IH]; cbn [total]; [lia|]. pose proof (slot_pos e). lia. Qed.
Lemma total_app a b : total (a ++ b) = total a + total b.
Proof. induction a as [|e r IH]; cbn [total app]; lia. Qed.

Lemma slots_of_app a : forall b i, slots_of (a ++ b) i = slots_of a i ++ slots_of b (i + total a).
Proof.
  induction a as [|e r IH]; intros b i; cbn [slots_of app total].
  - f_equal. lia.
  - rewrite IH. fold (slot e). do 3 f_equal. lia.
Qed.
Lemma slots_bounds es : forall i j x, In (j, x) (slots_of es i) -> i <= j < i + total es.
Proof.
  induction es as [|e r IH]; intros i j x; cbn [slots_of total]; [intros []|].
  fold (slot e). pose proof (slot_pos e). pose proof (total_nonneg r).
  intros [Hh|Ht]; [injection Hh as <- <-; lia|]. apply IH in Ht. lia.
Qed.
Lemma find_slots es : forall i j x,
  In (j, x) (slots_of es i) -> find (fun ie => fst ie =? j) (slots_of es i) = Some (j, x).
Proof.
  induction es as [|e r IH]; intros i j x; cbn [slots_of find fst]; [intros []|].
  fold (slot e). intros [[= <- <-]|H].
  - rewrite Z.eqb_refl. reflexivity.
  - pose proof (slots_bounds _ _ _ _ H). pose proof (slot_pos e).
    destruct (i =? j) eqn:E; [apply Z.eqb_eq in E; lia|]. apply IH, H.
Qed.
Lemma find_slots_none es : forall i j, (j < i \/ i + total es <= j) -> find (fun ie => fst ie =? j) (slots_of es i) = None.
Proof.
  induction es as [|e r IH]; intros i j H; cbn [slots_of find fst total] in *; [reflexivity|].
  fold (slot e) in *. pose proof (slot_pos e). pose proof (total_nonneg r).
  destruct (i =? j) eqn:E; [apply Z.eqb_eq in E; lia|]. apply IH. lia.
Qed.

Lemma pentry_eqb_eq a b : pentry_eqb a b = true <-> a = b.
Proof.
  unfold pentry_eqb. rewrite andb_true_iff, Bool.eqb_true_iff, str_eqb_eq.
  destruct a, b; cbn. split; [intros [-> ->]; reflexivity|intros [= -> ->]; auto].
Qed.

Lemma pfind_some m : forall e i, pfind m e = Some i -> In (e, i) m.
Proof.
  induction m as [|[k v] m IH]; intros e i; cbn [pfind]; [discriminate|].
  destruct (pentry_eqb k e) eqn:E; [apply pentry_eqb_eq in E; subst; intros [= <-]; left; reflexivity|].
  intros H. right. apply IH, H.
Qed.
Lemma pfind_none m : forall e, pfind m e = None -> ~ In e (map fst m).
Proof.
  induction m as [|[k v] m IH]; intros e; cbn [pfind map fst]; [intros _ []|].
  destruct (pentry_eqb k e) eqn:E; [discriminate|]. intros H [->|Hin].
  - assert (pentry_eqb e e = true) by (apply pentry_eqb_eq; reflexivity). congruence.
  - exact (IH _ H Hin).
Qed.
Lemma pfind_in m : forall e i, NoDup (map fst m) -> In (e, i) m -> pfind m e = Some i.
Proof.
  induction m as [|[k v] m IH]; intros e i Hnd; cbn [pfind map fst] in *; [intros []|].
  inversion Hnd as [|? ? Hn Hd]; subst.
  intros [[= -> ->]|Hin].
  - assert (H : pentry_eqb e e = true) by (apply pentry_eqb_eq; reflexivity). rewrite H. reflexivity.
  - destruct (pentry_eqb k e) eqn:E; [|apply IH; assumption].
    apply pentry_eqb_eq in E. subst. exfalso. apply Hn. apply in_map_iff. exists (e, i). split; [reflexivity|exact Hin].
Qed.

(* invariant of the writer pool *)
Definition slots (p : pool) : list (Z * pentry) := slots_of (rev (p_inner p)) 1.
Record PInv (p : pool) : Prop := {
  inv_count : p_count p = 1 + total (rev (p_inner p));
  inv_map : forall e i, In (e, i) (p_map p) <-> In (i, e) (slots p);
  inv_nodup : NoDup (map fst (p_map p));
  inv_bound : p_count p <= 65535
}.

Lemma pool_resolve_slots p i : pool_resolve p i = option_map snd (find (fun ie => fst ie =? i) (slots p)).
Proof. unfold pool_resolve, slots, frev. rewrite <- rev_alt. destruct (find _ _); reflexivity. Qed.

Theorem pool_new_inv : PInv pool_new.
Proof.
  constructor.
  - reflexivity.
  - intros e i. cbn. split; intros [].
  - constructor.
  - cbn. lia.
Qed.

Theorem pool_put_spec p e p' i :
  PInv p -> pool_put p e = Ok (p', i) ->
  PInv p' /\ pool_resolve p' i = Some e /\
  (forall j x, pool_resolve p j = Some x -> pool_resolve p' j = Some x) /\
  1 <= i < p_count p' /\ p_count p' <= 65535.
Proof.
  intros [Hc Hm Hnd Hb]. unfold pool_put.
  destruct (pfind (p_map p) e) as [i0|] eqn:E.
  - intros [= <- <-]. apply pfind_some in E. apply Hm in E.
    split; [split; assumption|]. split; [|split; [auto|]].
    + rewrite pool_resolve_slots. unfold slots in *. rewrite (find_slots _ _ _ _ E). reflexivity.
    + unfold slots in E. apply slots_bounds in E. lia.
  - destruct (u16max <? p_count p + (if pe_two e then 2 else 1)) eqn:Eo; [discriminate|].
    apply Z.ltb_ge in Eo. unfold u16max in Eo. fold (slot e) in *. intros [= <- <-].
    pose proof (slot_pos e) as Hs.
    assert (Hsl : slots {| p_count := p_count p + slot e; p_inner := e :: p_inner p; p_map := (e, p_count p) :: p_map p |}
                  = slots p ++ [(p_count p, e)]).
    { unfold slots. cbn [p_inner rev]. rewrite slots_of_app. cbn [slots_of]. rewrite Hc. reflexivity. }
    split; [split|split; [|split]].
    + cbn [p_count p_inner rev]. rewrite total_app. cbn [total]. lia.
    + intros e' i'. rewrite Hsl. cbn [p_map]. rewrite in_app_iff. cbn [In]. rewrite <- Hm.
      split; [intros [[= <- <-]|H]; auto|intros [H|[[= <- <-]|[]]]; auto].
    + cbn [p_map map fst]. constructor; [apply pfind_none, E|exact Hnd].
    + cbn [p_count]. lia.
    + rewrite pool_resolve_slots, Hsl.
      rewrite find_app_r. 2:{ apply find_slots_none. right. unfold slots in *. lia. }
      cbn [find fst]. rewrite Z.eqb_refl. reflexivity.
    + intros j x. rewrite !pool_resolve_slots, Hsl.
      destruct (find _ (slots p)) as [[j' x']|] eqn:Ef; [|discriminate].
      intros H. rewrite (find_app_l _ _ _ _ Ef). exact H.
    + cbn [p_count]. pose proof (total_nonneg (rev (p_inner p))). lia.
Qed.

Theorem pool_count p : PInv p -> p_count p = 1 + total (rev (p_inner p)).
Proof. intros H. apply H. Qed.

Lemma pool_resolve_in p i e : pool_resolve p i = Some e -> In (i, e) (slots p).
Proof.
  rewrite pool_resolve_slots. destruct (find _ _) as [[j x]|] eqn:E; [|discriminate].
  cbn [option_map snd]. intros [= <-]. apply find_some in E as [Hin Hj]. cbn [fst] in Hj.
  apply Z.eqb_eq in Hj. subst. exact Hin.
Qed.

(* hash-consing: an entry occupies one index only, and putting it again changes nothing *)
Theorem pool_no_dup p i j e : PInv p -> pool_resolve p i = Some e -> pool_resolve p j = Some e -> i = j.
Proof.
  intros [Hc Hm Hnd Hb] Hi Hj. apply pool_resolve_in in Hi, Hj. apply Hm in Hi, Hj.
  pose proof (pfind_in _ _ _ Hnd Hi). pose proof (pfind_in _ _ _ Hnd Hj). congruence.
Qed.

Theorem pool_put_idem p e p' i : PInv p -> pool_put p e = Ok (p', i) -> pool_put p' e = Ok (p', i).
Proof.
  intros Hp H. destruct (pool_put_spec _ _ _ _ Hp H) as ([Hc Hm Hnd Hb] & Hr & _).
  apply pool_resolve_in in Hr. apply Hm in Hr. unfold pool_put. rewrite (pfind_in _ _ _ Hnd Hr). reflexivity.
Qed.

(* index <= 255 <=> ldc *)
Theorem ldc_threshold idx : (ldc_choose false idx = LDC idx <-> idx <= 255) /\ ldc_choose true idx = LDC2_W idx.
Proof.
  unfold ldc_choose. split; [|reflexivity]. destruct (idx <=? 255) eqn:E.
  - apply Z.leb_le in E. split; auto.
  - apply Z.leb_gt in E. split; [discriminate|lia].
Qed.

(* ---- the BootstrapMethods table ---- *)
Lemma bfind_some m : forall e i, bfind m e = Some i -> In (e, i) m.
Proof.
  induction m as [|[k v] m IH]; intros e i; cbn [bfind]; [discriminate|].
  destruct (str_eqb k e) eqn:E; [apply str_eqb_eq in E; subst; intros [= <-]; left; reflexivity|].
  intros H. right. apply IH, H.
Qed.
Lemma bfind_none m : forall e, bfind m e = None -> ~ In e (map fst m).
Proof.
  induction m as [|[k v] m IH]; intros e; cbn [bfind map fst]; [intros _ []|].
  destruct (str_eqb k e) eqn:E; [discriminate|]. intros H [->|Hin].
  - rewrite str_eqb_refl in E. discriminate.
  - exact (IH _ H Hin).
Qed.
Lemma bfind_in m : forall e i, NoDup (map fst m) -> In (e, i) m -> bfind m e = Some i.
Proof.
  induction m as [|[k v] m IH]; intros e i Hnd; cbn [bfind map fst] in *; [intros []|].
  inversion Hnd as [|? ? Hn Hd]; subst.
  intros [[= -> ->]|Hin].
  - rewrite str_eqb_refl. reflexivity.
  - destruct (str_eqb k e) eqn:E; [|apply IH; assumption].
    apply str_eqb_eq in E. subst. exfalso. apply Hn. apply in_map_iff. exists (e, i). split; [reflexivity|exact Hin].
Qed.

Record BInv (t : bsm) : Prop := {
  binv_map : forall e i, In (e, i) (b_map t) <-> (0 <= i /\ nth_error (rev (b_inner t)) (Z.to_nat i) = Some e);
  binv_nodup : NoDup (map fst (b_map t));
  binv_bound : forall e i, In (e, i) (b_map t) -> i <= 65535
}.

Lemma bsm_get_rev t i : bsm_get t i = if i <? 0 then None else nth_error (rev (b_inner t)) (Z.to_nat i).
Proof. unfold bsm_get, frev. rewrite <- rev_alt. reflexivity. Qed.

Theorem bsm_new_inv : BInv bsm_new.
Proof.
  constructor.
  - intros e i. cbn. split; [intros []|]. intros [_ H]. destruct (Z.to_nat i); discriminate.
  - constructor.
  - intros e i [].
Qed.

Theorem bsm_put_spec t e t' i :
  BInv t -> bsm_put t e = Ok (t', i) ->
  BInv t' /\ bsm_get t' i = Some e /\
  (forall j x, bsm_get t j = Some x -> bsm_get t' j = Some x) /\
  0 <= i < zlen (b_inner t') /\ i <= 65535.
Proof.
  intros [Hm Hnd Hbd]. unfold bsm_put. destruct (bfind (b_map t) e) as [i0|] eqn:E.
  - intros [= <- <-]. apply bfind_some in E. pose proof (Hbd _ _ E) as Hle. apply Hm in E as [H0 Hn].
    split; [split; assumption|]. split; [|split; [auto|]].
    + rewrite bsm_get_rev. destruct (i0 <? 0) eqn:El; [apply Z.ltb_lt in El; lia|exact Hn].
    + assert (Hlt : (Z.to_nat i0 < length (rev (b_inner t)))%nat) by (apply nth_error_Some; congruence).
      rewrite rev_length in Hlt. unfold zlen. split; [lia|exact Hle].
  - destruct (u16max <? zlen (b_inner t)) eqn:Eo; [discriminate|]. apply Z.ltb_ge in Eo. unfold u16max in Eo.
    intros [= <- <-]. cbn [b_inner b_map].
    assert (Hnth : forall j, nth_error (rev (e :: b_inner t)) j =
                             if (j <? length (b_inner t))%nat then nth_error (rev (b_inner t)) j
                             else if (j =? length (b_inner t))%nat then Some e else None).
    { intros j. cbn [rev]. destruct (j <? length (b_inner t))%nat eqn:Ej.
      - apply Nat.ltb_lt in Ej. rewrite nth_error_app1 by (rewrite rev_length; exact Ej). reflexivity.
      - apply Nat.ltb_ge in Ej. rewrite nth_error_app2 by (rewrite rev_length; exact Ej). rewrite rev_length.
        destruct (j =? length (b_inner t))%nat eqn:Ee.
        + apply Nat.eqb_eq in Ee. subst. rewrite Nat.sub_diag. reflexivity.
        + apply Nat.eqb_neq in Ee. destruct (j - length (b_inner t))%nat eqn:Ed; [lia|]. destruct n; reflexivity. }
    split; [split|split; [|split]].
    + intros e' i'. cbn [In]. split.
      * intros [Heq|Hin].
        -- injection Heq as <- <-. split; [apply zlen_nonneg'|]. rewrite Hnth.
           unfold zlen. rewrite Nat2Z.id, Nat.ltb_irrefl, Nat.eqb_refl. reflexivity.
        -- apply Hm in Hin as [H0 Hn]. split; [exact H0|]. rewrite Hnth.
           assert (Hlt : (Z.to_nat i' < length (rev (b_inner t)))%nat) by (apply nth_error_Some; congruence).
           rewrite rev_length in Hlt. apply Nat.ltb_lt in Hlt. rewrite Hlt. exact Hn.
      * intros [H0 Hn]. rewrite Hnth in Hn.
        destruct (Z.to_nat i' <? length (b_inner t))%nat eqn:Ej; [right; apply Hm; split; assumption|].
        destruct (Z.to_nat i' =? length (b_inner t))%nat eqn:Ee; [|discriminate].
        apply Nat.eqb_eq in Ee. injection Hn as <-. left. f_equal. unfold zlen. rewrite <- Ee. rewrite Z2Nat.id by lia. reflexivity.
    + cbn [map fst]. constructor; [apply bfind_none, E|exact Hnd].
    + intros e' i' [[= <- <-]|Hin]; [exact Eo|exact (Hbd _ _ Hin)].
    + rewrite bsm_get_rev. cbn [b_inner]. pose proof (zlen_nonneg' (b_inner t)).
      destruct (zlen (b_inner t) <? 0) eqn:El; [apply Z.ltb_lt in El; lia|].
      rewrite Hnth. unfold zlen. rewrite Nat2Z.id, Nat.ltb_irrefl, Nat.eqb_refl. reflexivity.
    + intros j x. rewrite !bsm_get_rev. cbn [b_inner]. destruct (j <? 0); [discriminate|]. intros H.
      assert (Hlt : (Z.to_nat j < length (rev (b_inner t)))%nat) by (apply nth_error_Some; congruence).
      rewrite rev_length in Hlt. rewrite Hnth. apply Nat.ltb_lt in Hlt. rewrite Hlt. exact H.
    + pose proof (zlen_nonneg' (b_inner t)). unfold zlen in *. cbn [length]. lia.
Qed.
