(* C02 — whole-class theorems, part 5: the attributes of classes, fields, methods and record
   components (everything except Code), and how the attribute lists line up with the facts. *)
From FB Require Import C02.Model C02.Encode C02.Theory2 C02.Theory6 C02.Theory8 C02.Frames C02.TheoryF C02.Class C02.Decode C02.Facts
  C02.TheoryC1 C02.TheoryC2 C02.TheoryC3 C02.TheoryC4.
Local Open Scope Z_scope.
Local Arguments Z.add : simpl never.
Local Arguments Z.sub : simpl never.
Local Arguments Z.mul : simpl never.
Local Opaque be16 be32 be64.

(* the two attribute parsers as instances of p_attr_with *)
Definition bodyf0 (l : loc) : cpool -> bytes -> option (parser dattr0) := fun c => leaf_body l c.
Definition bodyf1 (l : loc) : cpool -> bytes -> option (parser dattr) := fun c => attr_body l c.
Definition unk1 : bytes -> bytes -> dattr := fun n b => ALeaf (AUnknown n b).
Lemma p_attr0_eq l : p_attr0 l = fun c => p_attr_with c (bodyf0 l c) AUnknown. Proof. reflexivity. Qed.
Lemma p_attr_eq l : p_attr l = fun c => p_attr_with c (bodyf1 l c) unk1. Proof. reflexivity. Qed.

(* a writer of one attribute, at leaf level (record components, Code) and at member/class level *)
Definition aspec0 (l : loc) (w : W bytes) (d : dattr0) : Prop := wspec w (decodes (p_attr0 l) d).
Definition aspec (l : loc) (w : W bytes) (d : dattr) : Prop := wspec w (decodes (p_attr l) d).

Ltac shape HP := intros ?c ?b HP; eexists; split; [reflexivity|]; unfold pbind; rewrite HP; reflexivity.

(* is the name predefined at the location? (does not depend on the pool) *)
Definition leaf_known (l : loc) (name : bytes) : bool := match leaf_body l [] name with Some _ => true | None => false end.
Definition attr_known (l : loc) (name : bytes) : bool := match attr_body l [] name with Some _ => true | None => false end.
Lemma leaf_known_none l name c : leaf_known l name = false -> leaf_body l c name = None.
Proof.
  unfold leaf_known, leaf_body. cbv zeta. destruct l;
  repeat match goal with |- context [if ?b then Some _ else _] => destruct b; [intros; discriminate|] end; reflexivity.
Qed.
Lemma attr_known_none l name c : attr_known l name = false -> attr_body l c name = None.
Proof.
  unfold attr_known, attr_body. intros H.
  destruct (leaf_body l [] name) eqn:E; [discriminate|].
  rewrite (leaf_known_none l name c) by (unfold leaf_known; rewrite E; reflexivity).
  destruct l; try reflexivity; revert H;
  repeat match goal with |- context [if ?b then Some _ else _] => destruct b; [intros; discriminate|] end; reflexivity.
Qed.

Definition unknown_ok0 (l : loc) (u : list raw_attr) : bool := forallb (fun a => negb (leaf_known l (fst a))) u.
Definition unknown_ok (l : loc) (u : list raw_attr) : bool := forallb (fun a => negb (attr_known l (fst a))) u.

Lemma wunknown_spec0 l a : leaf_known l (fst a) = false -> aspec0 l (wunknown a) (AUnknown (fst a) (snd a)).
Proof. intros H. unfold aspec0, wunknown. rewrite p_attr0_eq. apply wattr_raw_unknown. intros c. apply leaf_known_none, H. Qed.
Lemma wunknown_spec l a : attr_known l (fst a) = false -> aspec l (wunknown a) (ALeaf (AUnknown (fst a) (snd a))).
Proof. intros H. unfold aspec, wunknown. rewrite p_attr_eq. apply (wattr_raw_unknown _ _ (bodyf1 l) unk1). intros c. apply attr_known_none, H. Qed.
Lemma wunknowns_spec0 l u : unknown_ok0 l u = true -> Forall2 (aspec0 l) (map wunknown u) (fa_unknown u).
Proof.
  unfold unknown_ok0, fa_unknown. induction u as [|a u IH]; cbn [forallb map]; intros H; [constructor|].
  apply andb_true_iff in H as [H1 H2]. apply negb_true_iff in H1. constructor; [apply wunknown_spec0, H1|apply IH, H2].
Qed.
Lemma wunknowns_spec l u : unknown_ok l u = true -> Forall2 (aspec l) (map wunknown u) (leafs (fa_unknown u)).
Proof.
  unfold unknown_ok, fa_unknown, leafs. induction u as [|a u IH]; cbn [forallb map]; intros H; [constructor|].
  apply andb_true_iff in H as [H1 H2]. apply negb_true_iff in H1. constructor; [apply wunknown_spec, H1|apply IH, H2].
Qed.

(* Signature *)
Lemma decodes_len {A} (P : cpool -> parser A) x p b n : decodes P x p b -> zlen b = n -> decodes P x p b /\ zlen b = n.
Proof. auto. Qed.
Lemma idx16_len {A} (m : W Z) (g : cpool -> Z -> option A) x :
  wspec m (refers g x) -> wspec (idx16 m) (fun p b => decodes (p_idx g) x p b /\ zlen b = 2).
Proof.
  intros H. unfold idx16. eapply wspec_bind; [exact H|]. intros i p0 Hi. apply wspec_ret. intros p He. split; [|reflexivity].
  apply decodes_idx. eapply refers0_mono; [exact He|apply Hi].
Qed.
Definition member_loc (l : loc) : bool := match l with AtCode => false | _ => true end.
Lemma w_signature_spec0 l o : member_loc l = true -> Forall2 (aspec0 l) (w_signature o) (fa_sig o).
Proof.
  intros Hl. destruct o as [s|]; cbn [w_signature oattr fa_sig]; constructor; [|constructor].
  unfold aspec0. rewrite p_attr0_eq. eapply (wattr_fix_gen _ _ _ (p_idx get_utf8) s); [|apply idx16_len, put_utf8_spec].
  destruct l; try discriminate Hl; shape HP.
Qed.
Lemma w_signature_spec l o : member_loc l = true -> Forall2 (aspec l) (w_signature o) (leafs (fa_sig o)).
Proof.
  intros Hl. destruct o as [s|]; cbn [w_signature oattr fa_sig leafs map]; constructor; [|constructor].
  unfold aspec. rewrite p_attr_eq. eapply (wattr_fix_gen _ _ _ (p_idx get_utf8) s); [|apply idx16_len, put_utf8_spec].
  destruct l; try discriminate Hl; shape HP.
Qed.

(* Deprecated, Synthetic *)
Definition flag_loc (l : loc) : bool := match l with AtClass | AtField | AtMethod => true | _ => false end.
Lemma w_flag_spec l (b : bool) name d :
  flag_loc l = true -> (name = s_Deprecated /\ d = ADeprecated) \/ (name = s_Synthetic /\ d = ASynthetic) ->
  Forall2 (aspec l) (battr b (wattr_fix name 0 (ret []))) (leafs (fa_flag b d)).
Proof.
  intros Hl Hn. destruct b; cbn [battr fa_flag leafs map]; constructor; [|constructor].
  unfold aspec. rewrite p_attr_eq.
  eapply (wattr_fix_gen _ _ _ (fun _ : cpool => pret tt) tt).
  - destruct Hn as [[-> ->]|[-> ->]]; destruct l; try discriminate Hl;
      intros c b HP; unfold pret in HP; injection HP as ->; eexists; (split; reflexivity).
  - apply wspec_ret. intros p. split; [|reflexivity]. intros p' c rest _ _. reflexivity.
Qed.

(* ---- the four annotation attributes outside Code ---- *)
Definition annots_ok (a : annots) : bool :=
  forallb annotation_ok (an_vis a) && forallb annotation_ok (an_invis a) &&
  forallb (type_annotation_ok false) (an_tvis a) && forallb (type_annotation_ok false) (an_tinvis a).

Lemma fa_target_nocode t : target_ok false t = true -> exists ft, fa_target [] t = Some ft.
Proof. destruct t; cbn [target_ok fa_target andb]; try discriminate; intros _; eexists; reflexivity. Qed.
Lemma tas_nocode l : forallb (type_annotation_ok false) l = true -> exists ys, mapO (fa_type_annotation []) l = Some ys.
Proof.
  induction l as [|a l IH]; cbn [forallb mapO]; intros H; [exists []; reflexivity|].
  apply andb_true_iff in H as [Ha Hl]. destruct (IH Hl) as (ys & ->).
  unfold type_annotation_ok in Ha. bsplit. destruct (fa_target_nocode _ H) as (ft & Hft).
  unfold fa_type_annotation. rewrite Hft. cbn [omap]. eexists. reflexivity.
Qed.

Lemma anns_spec0 l (vis : bool) anns :
  member_loc l = true -> forallb annotation_ok anns = true ->
  Forall2 (aspec0 l) (nattr anns (fun x => wattr (if vis then s_RVAnn else s_RIAnn) (write_annotations x))) (fa_anns vis anns).
Proof.
  intros Hl Hok. destruct anns as [|a anns]; [constructor|]. cbn [nattr fa_anns]. constructor; [|constructor].
  unfold aspec0. rewrite p_attr0_eq. eapply (wattr_gen _ _ p_annotations (a :: anns)); [|apply write_annotations_spec, Hok].
  destruct vis; destruct l; try discriminate Hl; shape HP.
Qed.
Lemma anns_spec l (vis : bool) anns :
  member_loc l = true -> forallb annotation_ok anns = true ->
  Forall2 (aspec l) (nattr anns (fun x => wattr (if vis then s_RVAnn else s_RIAnn) (write_annotations x))) (leafs (fa_anns vis anns)).
Proof.
  intros Hl Hok. destruct anns as [|a anns]; [constructor|]. cbn [nattr fa_anns leafs map]. constructor; [|constructor].
  unfold aspec. rewrite p_attr_eq. eapply (wattr_gen _ _ p_annotations (a :: anns)); [|apply write_annotations_spec, Hok].
  destruct vis; destruct l; try discriminate Hl; shape HP.
Qed.
Lemma tas_spec0 l (vis : bool) tas ys :
  member_loc l = true -> forallb (type_annotation_ok false) tas = true -> mapO (fa_type_annotation []) tas = Some ys ->
  exists ds, fa_tas vis [] tas = Some ds /\
  Forall2 (aspec0 l) (nattr tas (fun x => wattr (if vis then s_RVTAnn else s_RITAnn) (write_type_annotations [] x))) ds.
Proof.
  intros Hl Hok Hys. destruct tas as [|a tas]; [exists []; split; [reflexivity|constructor]|]. cbn [nattr]. unfold fa_tas. rewrite Hys. cbn [omap].
  eexists. split; [reflexivity|]. constructor; [|constructor].
  unfold aspec0. rewrite p_attr0_eq. eapply (wattr_gen _ _ (p_type_annotations false) ys).
  - destruct vis; destruct l; try discriminate Hl; shape HP.
  - eapply wspec_weaken; [apply (write_type_annotations_spec [] false); [apply lbounded_nil|exact Hok]|].
    intros p b (ys' & Hys' & Hd). rewrite Hys in Hys'. injection Hys' as <-. exact Hd.
Qed.
Lemma tas_spec l (vis : bool) tas ys :
  member_loc l = true -> forallb (type_annotation_ok false) tas = true -> mapO (fa_type_annotation []) tas = Some ys ->
  exists ds, fa_tas vis [] tas = Some ds /\
  Forall2 (aspec l) (nattr tas (fun x => wattr (if vis then s_RVTAnn else s_RITAnn) (write_type_annotations [] x))) (leafs ds).
Proof.
  intros Hl Hok Hys. destruct tas as [|a tas]; [exists []; split; [reflexivity|constructor]|]. cbn [nattr]. unfold fa_tas. rewrite Hys. cbn [omap].
  eexists. split; [reflexivity|]. cbn [leafs map]. constructor; [|constructor].
  unfold aspec. rewrite p_attr_eq. eapply (wattr_gen _ _ (p_type_annotations false) ys).
  - destruct vis; destruct l; try discriminate Hl; shape HP.
  - eapply wspec_weaken; [apply (write_type_annotations_spec [] false); [apply lbounded_nil|exact Hok]|].
    intros p b (ys' & Hys' & Hd). rewrite Hys in Hys'. injection Hys' as <-. exact Hd.
Qed.

Lemma Forall2_app' {A B} (R : A -> B -> Prop) a a' b b' : Forall2 R a b -> Forall2 R a' b' -> Forall2 R (a ++ a') (b ++ b').
Proof. intros H H'. induction H; cbn [app]; [exact H'|constructor; assumption]. Qed.
Lemma leafs_app a b : leafs (a ++ b) = leafs a ++ leafs b.
Proof. unfold leafs. apply map_app. Qed.

Lemma w_annots_spec0 l a : member_loc l = true -> annots_ok a = true ->
  exists ds, fa_annots [] a = Some ds /\ Forall2 (aspec0 l) (w_annots [] a) ds.
Proof.
  intros Hl Hok. unfold annots_ok in Hok. bsplit.
  destruct (tas_nocode (an_tvis a)) as (y1 & Hy1); [assumption|]. destruct (tas_nocode (an_tinvis a)) as (y2 & Hy2); [assumption|].
  destruct (tas_spec0 l true (an_tvis a) _ Hl ltac:(assumption) Hy1) as (d1 & Hd1 & F1).
  destruct (tas_spec0 l false (an_tinvis a) _ Hl ltac:(assumption) Hy2) as (d2 & Hd2 & F2).
  unfold fa_annots. rewrite Hd1, Hd2. cbn [oapp]. eexists. split; [reflexivity|].
  unfold w_annots. rewrite <- !app_assoc.
  apply Forall2_app'; [apply (anns_spec0 l true); assumption|].
  apply Forall2_app'; [apply (anns_spec0 l false); assumption|].
  apply Forall2_app'; [exact F1|exact F2].
Qed.
Lemma w_annots_spec l a : member_loc l = true -> annots_ok a = true ->
  exists ds, fa_annots [] a = Some ds /\ Forall2 (aspec l) (w_annots [] a) (leafs ds).
Proof.
  intros Hl Hok. unfold annots_ok in Hok. bsplit.
  destruct (tas_nocode (an_tvis a)) as (y1 & Hy1); [assumption|]. destruct (tas_nocode (an_tinvis a)) as (y2 & Hy2); [assumption|].
  destruct (tas_spec l true (an_tvis a) _ Hl ltac:(assumption) Hy1) as (d1 & Hd1 & F1).
  destruct (tas_spec l false (an_tinvis a) _ Hl ltac:(assumption) Hy2) as (d2 & Hd2 & F2).
  unfold fa_annots. rewrite Hd1, Hd2. cbn [oapp]. eexists. split; [reflexivity|].
  unfold w_annots. rewrite <- !app_assoc, !leafs_app.
  apply Forall2_app'; [apply (anns_spec l true); assumption|].
  apply Forall2_app'; [apply (anns_spec l false); assumption|].
  apply Forall2_app'; [exact F1|exact F2].
Qed.

(* ---- record components ---- *)
Definition crecord_ok (r : crecord) : bool := annots_ok (rc_annots r) && unknown_ok0 AtRecord (rc_unknown r).
Lemma write_record_component_spec r : crecord_ok r = true ->
  exists d, fa_record r = Some d /\ wspec (write_record_component r) (decodes p_record_component d).
Proof.
  intros Hok. unfold crecord_ok in Hok. bsplit.
  destruct (w_annots_spec0 AtRecord (rc_annots r) eq_refl ltac:(assumption)) as (an & Han & Fan).
  unfold fa_record. rewrite Han. cbn [omap]. eexists. split; [reflexivity|].
  unfold write_record_component.
  eapply wspec_bind; [apply put_utf8_spec|]. intros n p0 Hn.
  eapply wspec_bind; [apply put_utf8_spec|]. intros d p1 Hd.
  eapply wspec_bind.
  { apply (wattrs_spec (p_attr0 AtRecord)).
    apply Forall2_app'; [apply (w_signature_spec0 AtRecord); reflexivity|].
    apply Forall2_app'; [exact Fan|apply wunknowns_spec0; assumption]. }
  intros ab p2 Hab. apply wspec_ret. intros p He2 He1 He0 p' c rest He Ha. unfold p_record_component. rewrite <- !app_assoc.
  rewrite (pb_idx _ _ (rc_name r) p0 n p' c) by (try apply Hn; eauto with pext).
  rewrite (pb_idx _ _ (rc_desc r) p1 d p' c) by (try apply Hd; eauto with pext).
  unfold p_attrs0. rewrite (pb_dec _ _ _ _ _ p' c _ Hab) by eauto with pext. reflexivity.
Qed.

(* ---- fields ---- *)
Definition cfield_ok (f : cfield) : bool :=
  u16ok (f_access f) && (match f_constant f with Some v => cvalue_ok v | None => true end) &&
  annots_ok (f_annots f) && unknown_ok AtField (f_unknown f).
Lemma write_field_spec f : cfield_ok f = true ->
  exists d, fa_field f = Some d /\ wspec (write_field f) (decodes (p_member AtField) d).
Proof.
  intros Hok. unfold cfield_ok in Hok. bsplit. okfacts.
  destruct (w_annots_spec AtField (f_annots f) eq_refl ltac:(assumption)) as (an & Han & Fan).
  unfold fa_field. rewrite Han. cbn [omap]. eexists. split; [reflexivity|].
  unfold write_field.
  eapply wspec_bind; [apply put_utf8_spec|]. intros n p0 Hn.
  eapply wspec_bind; [apply put_utf8_spec|]. intros d p1 Hd.
  eapply wspec_bind.
  { apply (wattrs_spec (p_attr AtField)).
    apply Forall2_app'; [apply (w_flag_spec AtField); [reflexivity|left; split; reflexivity]|].
    apply Forall2_app'; [apply (w_flag_spec AtField); [reflexivity|right; split; reflexivity]|].
    apply (Forall2_app' _ _ _ (match f_constant f with Some v => [AConstantValue v] | None => [] end)).
    { destruct (f_constant f) as [v|]; cbn [oattr]; [constructor; [|constructor]|constructor].
      unfold aspec. rewrite p_attr_eq. eapply (wattr_fix_gen _ _ _ (p_idx get_cvalue) v); [shape HP|].
      apply idx16_len, put_constant_value_spec. assumption. }
    apply Forall2_app'; [apply (w_signature_spec AtField); reflexivity|].
    apply Forall2_app'; [exact Fan|apply wunknowns_spec; assumption]. }
  intros ab p2 Hab. apply wspec_ret. intros p He2 He1 He0 p' c rest He Ha. unfold p_member. rewrite <- !app_assoc.
  rewrite pb_u16 by assumption.
  rewrite (pb_idx _ _ (f_name f) p0 n p' c) by (try apply Hn; eauto with pext).
  rewrite (pb_idx _ _ (f_desc f) p1 d p' c) by (try apply Hd; eauto with pext).
  unfold p_attrs. rewrite (pb_dec _ _ _ _ _ p' c _ Hab) by eauto with pext.
  unfold pret. rewrite !leafs_app, <- !app_assoc. reflexivity.
Qed.
