(* C02 — modified UTF-8 (JVMS 4.4.7).  mutf8 (C02/Class.v) is the encoder the whole-class model and the
   correspondence use for every string of a tree.  Here: a decoder that looks only at bytes and accepts only
   the forms of JVMS 4.4.7 (one byte 01..7F; two bytes for NUL and 0080..07FF; three bytes for 0800..FFFF; no
   other lead byte), the UTF-16 code units of a string of code points, and the joining of surrogate pairs.
   decode (mutf8 s) = the UTF-16 units of s for EVERY list of code points below 0x110000 — NUL, unpaired
   surrogates and supplementary characters included — and = s itself unless s holds a high-surrogate code
   point immediately followed by a low-surrogate code point (such a list and the list with the one
   supplementary character have the same UTF-16 form, hence the same bytes: the format cannot tell them apart,
   and duke's reader never produces the split form). *)
From FB Require Import C02.Model C02.Class.
From Coq Require Import Lia.
Local Open Scope N_scope.
Local Arguments N.add : simpl never.
Local Arguments N.sub : simpl never.
Local Arguments N.mul : simpl never.
Local Arguments N.div : simpl never.
Local Arguments N.modulo : simpl never.
Local Arguments N.eqb : simpl never.
Local Arguments N.ltb : simpl never.
Local Arguments N.leb : simpl never.

Ltac dlia := zify; Z.to_euclidean_division_equations; lia.

(* ---- UTF-16 ---- *)
Definition units_of (c : N) : list N :=
  if c <? 65536 then [c] else [55296 + (c - 65536) / 1024; 56320 + (c - 65536) mod 1024].
Definition utf16 (s : list N) : list N := flat_map units_of s.
Definition is_hi (u : N) : bool := (55296 <=? u) && (u <? 56320).
Definition is_lo (u : N) : bool := (56320 <=? u) && (u <? 57344).
(* a pair of surrogates becomes the supplementary character; everything else stays *)
Fixpoint join (us : list N) : list N :=
  match us with
  | [] => []
  | h :: r =>
      match r with
      | l :: r' => if is_hi h && is_lo l then (65536 + (h - 55296) * 1024 + (l - 56320)) :: join r' else h :: join r
      | [] => [h]
      end
  end.
(* no high-surrogate code point immediately before a low-surrogate code point *)
Fixpoint nsp (s : list N) : bool :=
  match s with
  | [] => true
  | h :: r => match r with l :: _ => negb (is_hi h && is_lo l) | [] => true end && nsp r
  end.
Definition cps_ok (s : list N) : Prop := Forall (fun c => c < 1114112) s.

(* ---- one 16-bit unit (the table of JVMS 4.4.7) ---- *)
Definition enc_unit (u : N) : bytes :=
  if u =? 0 then [192; 128]
  else if u <? 128 then [u]
  else if u <? 2048 then [192 + u / 64; 128 + u mod 64]
  else enc3 u.

(* ---- the decoder: bytes only ---- *)
Definition cont (y : N) : bool := (128 <=? y) && (y <? 192).
Fixpoint dec_units (b : bytes) : option (list N) :=
  match b with
  | [] => Some []
  | x :: r =>
      if x <? 128 then (if x =? 0 then None else option_map (cons x) (dec_units r))
      else if x <? 192 then None
      else if x <? 224 then
        match r with
        | y :: r' =>
            if cont y && (((x - 192) * 64 + (y - 128) =? 0) || (128 <=? (x - 192) * 64 + (y - 128)))
            then option_map (cons ((x - 192) * 64 + (y - 128))) (dec_units r') else None
        | [] => None
        end
      else if x <? 240 then
        match r with
        | y :: z :: r' =>
            if cont y && cont z && (2048 <=? (x - 224) * 4096 + (y - 128) * 64 + (z - 128))
            then option_map (cons ((x - 224) * 4096 + (y - 128) * 64 + (z - 128))) (dec_units r') else None
        | _ => None
        end
      else None
  end.
Definition dec_mutf8 (b : bytes) : option (list N) := option_map join (dec_units b).

(* ---- the encoder factors through UTF-16 ---- *)
Lemma enc_char_units c : enc_char c = flat_map enc_unit (units_of c).
Proof.
  unfold enc_char, units_of. destruct (N.ltb_spec c 65536) as [H|H].
  - cbn [flat_map]. rewrite app_nil_r. unfold enc_unit.
    destruct (c =? 0); [reflexivity|]. destruct (c <? 128); [reflexivity|]. destruct (c <? 2048); reflexivity.
  - destruct (N.eqb_spec c 0); [lia|]. destruct (N.ltb_spec c 128); [lia|]. destruct (N.ltb_spec c 2048); [lia|].
    cbn [flat_map]. rewrite app_nil_r. unfold enc_unit.
    set (a := (c - 65536) / 1024). set (b := (c - 65536) mod 1024).
    destruct (N.eqb_spec (55296 + a) 0); [lia|]. destruct (N.ltb_spec (55296 + a) 128); [lia|]. destruct (N.ltb_spec (55296 + a) 2048); [lia|].
    destruct (N.eqb_spec (56320 + b) 0); [lia|]. destruct (N.ltb_spec (56320 + b) 128); [lia|]. destruct (N.ltb_spec (56320 + b) 2048); [lia|].
    reflexivity.
Qed.
Lemma mutf8_units s : mutf8 s = flat_map enc_unit (utf16 s).
Proof.
  unfold mutf8, utf16. induction s as [|c s IH]; [reflexivity|].
  cbn [flat_map]. rewrite flat_map_app, <- enc_char_units, IH. reflexivity.
Qed.

(* ---- decoding one encoded unit ---- *)
Lemma dec1 x r : 0 < x -> x < 128 -> dec_units (x :: r) = option_map (cons x) (dec_units r).
Proof.
  intros H0 H1. cbn [dec_units]. destruct (N.ltb_spec x 128); [|lia]. destruct (N.eqb_spec x 0); [lia|reflexivity].
Qed.
Lemma dec2 x y r u : 192 <= x -> x < 224 -> 128 <= y -> y < 192 -> u = (x - 192) * 64 + (y - 128) -> (u = 0 \/ 128 <= u) ->
  dec_units (x :: y :: r) = option_map (cons u) (dec_units r).
Proof.
  intros Hx1 Hx2 Hy1 Hy2 -> Hu. cbn [dec_units].
  destruct (N.ltb_spec x 128); [lia|]. destruct (N.ltb_spec x 192); [lia|]. destruct (N.ltb_spec x 224); [|lia].
  unfold cont. destruct (N.leb_spec 128 y); [|lia]. destruct (N.ltb_spec y 192); [|lia]. cbn [andb].
  destruct (N.eqb_spec ((x - 192) * 64 + (y - 128)) 0); cbn [orb]; [reflexivity|].
  destruct (N.leb_spec 128 ((x - 192) * 64 + (y - 128))); [reflexivity|lia].
Qed.
Lemma dec3 x y z r u : 224 <= x -> x < 240 -> 128 <= y -> y < 192 -> 128 <= z -> z < 192 ->
  u = (x - 224) * 4096 + (y - 128) * 64 + (z - 128) -> 2048 <= u ->
  dec_units (x :: y :: z :: r) = option_map (cons u) (dec_units r).
Proof.
  intros Hx1 Hx2 Hy1 Hy2 Hz1 Hz2 -> Hu. cbn [dec_units].
  destruct (N.ltb_spec x 128); [lia|]. destruct (N.ltb_spec x 192); [lia|]. destruct (N.ltb_spec x 224); [lia|].
  destruct (N.ltb_spec x 240); [|lia].
  unfold cont. destruct (N.leb_spec 128 y); [|lia]. destruct (N.ltb_spec y 192); [|lia].
  destruct (N.leb_spec 128 z); [|lia]. destruct (N.ltb_spec z 192); [|lia]. cbn [andb].
  destruct (N.leb_spec 2048 ((x - 224) * 4096 + (y - 128) * 64 + (z - 128))); [reflexivity|lia].
Qed.
Lemma dec_enc_unit u rest : u < 65536 -> dec_units (enc_unit u ++ rest) = option_map (cons u) (dec_units rest).
Proof.
  intros Hu. unfold enc_unit.
  destruct (N.eqb_spec u 0) as [->|H0].
  { cbn [app]. apply dec2; try lia; try reflexivity; left; reflexivity. }
  destruct (N.ltb_spec u 128) as [H1|H1].
  { cbn [app]. apply dec1; lia. }
  destruct (N.ltb_spec u 2048) as [H2|H2].
  { cbn [app]. apply dec2; try dlia. }
  unfold enc3. cbn [app]. apply dec3; try dlia.
Qed.
Lemma dec_units_enc us : Forall (fun u => u < 65536) us -> dec_units (flat_map enc_unit us) = Some us.
Proof.
  induction 1 as [|u us Hu _ IH]; [reflexivity|].
  cbn [flat_map]. rewrite dec_enc_unit by exact Hu. rewrite IH. reflexivity.
Qed.
Lemma utf16_units s : cps_ok s -> Forall (fun u => u < 65536) (utf16 s).
Proof.
  unfold utf16. induction 1 as [|c s Hc _ IH]; [constructor|].
  cbn [flat_map]. apply Forall_app. split; [|exact IH].
  unfold units_of. destruct (N.ltb_spec c 65536).
  - constructor; [assumption|constructor].
  - constructor; [dlia|]. constructor; [dlia|constructor].
Qed.

(* decoding the encoding gives the UTF-16 form, for every list of code points *)
Theorem mutf8_decodes_utf16 s : cps_ok s -> dec_units (mutf8 s) = Some (utf16 s).
Proof. intros H. rewrite mutf8_units. apply dec_units_enc, utf16_units, H. Qed.

(* ---- joining gives the code points back ---- *)
Lemma join_single c us : (forall l r, us = l :: r -> is_hi c && is_lo l = false) -> join (c :: us) = c :: join us.
Proof.
  intros H. destruct us as [|l r]; [reflexivity|]. cbn [join]. rewrite (H l r eq_refl). reflexivity.
Qed.
Lemma join_pair h l us : is_hi h = true -> is_lo l = true ->
  join (h :: l :: us) = (65536 + (h - 55296) * 1024 + (l - 56320)) :: join us.
Proof. intros Hh Hl. cbn [join]. rewrite Hh, Hl. reflexivity. Qed.
Lemma units_head c r : c < 1114112 -> forall l r', units_of c ++ r = l :: r' -> (c < 65536 /\ l = c) \/ is_lo l = false.
Proof.
  intros Hc l r'. unfold units_of. destruct (N.ltb_spec c 65536) as [H|H]; cbn [app]; intros [= <- _].
  - left. split; [assumption|reflexivity].
  - right. unfold is_lo. destruct (N.leb_spec 56320 (55296 + (c - 65536) / 1024)); [dlia|reflexivity].
Qed.
Theorem join_utf16 s : cps_ok s -> nsp s = true -> join (utf16 s) = s.
Proof.
  unfold utf16. induction 1 as [|c s Hc Hs IH]; intros Hn; [reflexivity|].
  cbn [nsp] in Hn. apply andb_prop in Hn. destruct Hn as [Hh Hn]. specialize (IH Hn).
  cbn [flat_map]. unfold units_of at 1. destruct (N.ltb_spec c 65536) as [H|H].
  - cbn [app]. rewrite join_single; [rewrite IH; reflexivity|].
    intros l r E. destruct s as [|c' s']; [discriminate|].
    cbn [flat_map] in E. inversion Hs as [|? ? Hc' _]; subst.
    destruct (units_head c' _ Hc' l r E) as [[_ ->]|Hl].
    + apply negb_true_iff in Hh. exact Hh.
    + rewrite Hl. apply andb_false_r.
  - cbn [app]. rewrite join_pair.
    + rewrite IH. f_equal. dlia.
    + unfold is_hi. destruct (N.leb_spec 55296 (55296 + (c - 65536) / 1024)); [|dlia].
      destruct (N.ltb_spec (55296 + (c - 65536) / 1024) 56320); [reflexivity|dlia].
    + unfold is_lo. destruct (N.leb_spec 56320 (56320 + (c - 65536) mod 1024)); [|dlia].
      destruct (N.ltb_spec (56320 + (c - 65536) mod 1024) 57344); [reflexivity|dlia].
Qed.

(* decode . encode = id *)
Theorem mutf8_roundtrip s : cps_ok s -> nsp s = true -> dec_mutf8 (mutf8 s) = Some s.
Proof. intros H Hn. unfold dec_mutf8. rewrite mutf8_decodes_utf16 by exact H. cbn [option_map]. rewrite join_utf16; auto. Qed.
(* in general: the UTF-16 form, pairs joined *)
Theorem mutf8_roundtrip_general s : cps_ok s -> dec_mutf8 (mutf8 s) = Some (join (utf16 s)).
Proof. intros H. unfold dec_mutf8. rewrite mutf8_decodes_utf16 by exact H. reflexivity. Qed.

Theorem mutf8_injective s s' : cps_ok s -> cps_ok s' -> nsp s = true -> nsp s' = true -> mutf8 s = mutf8 s' -> s = s'.
Proof.
  intros H H' Hn Hn' E. pose proof (mutf8_roundtrip s H Hn) as R. rewrite E, (mutf8_roundtrip s' H' Hn') in R.
  injection R as ->. reflexivity.
Qed.
(* two strings have the same bytes exactly when they have the same UTF-16 form *)
Theorem mutf8_eq_iff_utf16 s s' : cps_ok s -> cps_ok s' -> (mutf8 s = mutf8 s' <-> utf16 s = utf16 s').
Proof.
  intros H H'. split; intros E.
  - pose proof (mutf8_decodes_utf16 s H) as R. rewrite E, (mutf8_decodes_utf16 s' H') in R. injection R as ->. reflexivity.
  - rewrite !mutf8_units, E. reflexivity.
Qed.

(* ---- lengths and bytes ---- *)
Lemma enc_char_len c : (1 <= length (enc_char c) <= 6)%nat.
Proof.
  unfold enc_char, enc3. destruct (c =? 0); [cbn [length]; lia|]. destruct (c <? 128); [cbn [length]; lia|].
  destruct (c <? 2048); [cbn [length]; lia|]. destruct (c <? 65536); cbn [length app]; lia.
Qed.
Lemma enc_unit_len u : (1 <= length (enc_unit u) <= 3)%nat.
Proof.
  unfold enc_unit, enc3. destruct (u =? 0); [cbn [length]; lia|]. destruct (u <? 128); [cbn [length]; lia|].
  destruct (u <? 2048); cbn [length]; lia.
Qed.
Theorem mutf8_length s :
  (length s <= length (mutf8 s) <= 6 * length s)%nat /\
  (length (utf16 s) <= length (mutf8 s) <= 3 * length (utf16 s))%nat.
Proof.
  split.
  - unfold mutf8. induction s as [|c s IH]; [cbn; lia|]. cbn [flat_map]. rewrite app_length. cbn [length].
    pose proof (enc_char_len c). lia.
  - rewrite mutf8_units. induction (utf16 s) as [|u us IH]; [cbn; lia|]. cbn [flat_map]. rewrite app_length. cbn [length].
    pose proof (enc_unit_len u). lia.
Qed.
(* a string of ASCII characters other than NUL takes one byte per character *)
Theorem mutf8_ascii s : Forall (fun c => 0 < c /\ c < 128) s -> mutf8 s = s.
Proof.
  unfold mutf8. induction 1 as [|c s [H0 H1] _ IH]; [reflexivity|]. cbn [flat_map]. rewrite IH. unfold enc_char.
  destruct (N.eqb_spec c 0); [lia|]. destruct (N.ltb_spec c 128); [reflexivity|lia].
Qed.
(* no byte is zero, none is F0..FF: no embedded NUL, no four-byte form *)
Theorem mutf8_bytes s : cps_ok s -> Forall (fun b => 0 < b /\ b < 240) (mutf8 s).
Proof.
  intros H. rewrite mutf8_units. pose proof (utf16_units s H) as Hu. induction Hu as [|u us Hu _ IH]; [constructor|].
  cbn [flat_map]. apply Forall_app. split; [|exact IH]. unfold enc_unit, enc3.
  destruct (N.eqb_spec u 0). { repeat constructor; lia. }
  destruct (N.ltb_spec u 128). { repeat constructor; lia. }
  destruct (N.ltb_spec u 2048); repeat constructor; dlia.
Qed.

(* ---- examples: NUL, two- and three-byte characters, an unpaired surrogate of each kind next to a supplementary
   character; and the one ambiguity of the format ---- *)
Definition exu : list N := [0; 65; 233; 20013; 55357; 128512; 56832; 1114111; 56832; 55357].
Theorem mutf8_examples :
  nsp exu = true /\ cps_ok exu /\
  mutf8 exu = [192;128; 65; 195;169; 228;184;173; 237;160;189; 237;160;189;237;184;128; 237;184;128;
               237;175;191;237;191;191; 237;184;128; 237;160;189] /\
  dec_mutf8 (mutf8 exu) = Some exu /\
  nsp [55357; 56832] = false /\ mutf8 [55357; 56832] = mutf8 [128512] /\ dec_mutf8 (mutf8 [55357; 56832]) = Some [128512] /\
  dec_units [0] = None /\ dec_units [192; 129] = None /\ dec_units [224; 128; 128] = None /\ dec_units [240; 159; 152; 128] = None /\
  dec_units [193; 191] = None /\ dec_units [194] = None.
Proof.
  split; [reflexivity|]. split; [unfold cps_ok, exu; repeat constructor|].
  repeat split; reflexivity.
Qed.
