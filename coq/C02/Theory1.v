(* C02 — termination of the attempt loop: every restart adds a fresh instruction index. *)
From Coq Require Import FinFun.
From FB Require Import C02.Model.
Local Open Scope Z_scope.

(* invariant of the unwritten list: indices below the running index; narrow only outside W *)
Definition unw_ok (W : list N) (hi : N) (u : unw) : Prop :=
  (u_idx u < hi)%N /\ (u_wide u = false -> memN (u_idx u) W = false).

Lemma unw_ok_mono W hi hi' u : (hi <= hi')%N -> unw_ok W hi u -> unw_ok W hi' u.
Proof. intros H [H1 H2]. split; [lia|exact H2]. Qed.

Definition st_ok (W : list N) (hi : N) (s : st) : Prop := Forall (unw_ok W hi) (s_unw s).

Lemma st_ok_push W hi bs s : st_ok W hi s -> st_ok W hi (push bs s).
Proof. exact (fun H => H). Qed.
Lemma st_ok_add_lab W hi l p s : st_ok W hi s -> st_ok W hi (add_lab l p s).
Proof. exact (fun H => H). Qed.
Lemma st_ok_add_unw W hi u s : unw_ok W hi u -> st_ok W hi s -> st_ok W hi (add_unw u s).
Proof. intros Hu Hs. constructor; assumption. Qed.

Lemma st_ok_switch_ref W hi pos i s l :
  (i < hi)%N -> st_ok W hi s -> st_ok W hi (switch_ref pos i s l).
Proof.
  intros Hi Hs. unfold switch_ref. destruct (lget (s_labs s) l).
  - apply st_ok_push, Hs.
  - apply st_ok_push, st_ok_add_unw; [|exact Hs]. split; cbn; [exact Hi|discriminate].
Qed.

Lemma st_ok_fold_switch_ref W hi pos i ts : forall s,
  (i < hi)%N -> st_ok W hi s -> st_ok W hi (fold_left (switch_ref pos i) ts s).
Proof.
  induction ts as [|t ts IH]; intros s Hi Hs; cbn [fold_left]; [exact Hs|].
  apply IH; [exact Hi|]. apply st_ok_switch_ref; assumption.
Qed.

Lemma st_ok_fold_lookup W hi pos i (ps : list (Z * label)) : forall s,
  (i < hi)%N -> st_ok W hi s ->
  st_ok W hi (fold_left (fun s kp => switch_ref pos i (push (be32 (fst kp)) s) (snd kp)) ps s).
Proof.
  induction ps as [|t ts IH]; intros s Hi Hs; cbn [fold_left]; [exact Hs|].
  apply IH; [exact Hi|]. apply st_ok_switch_ref; [exact Hi|]. apply st_ok_push, Hs.
Qed.

Lemma step_ok W s i le s' :
  st_ok W i s -> step W s i le = OK s' -> st_ok W (N.succ i) s'.
Proof.
  intros Hs. unfold step.
  destruct (u16max <? s_len s); [discriminate|].
  set (s0 := match fst le with Some l => add_lab l (s_len s) s | None => s end).
  assert (H0 : st_ok W (N.succ i) s0).
  { assert (Hm : st_ok W (N.succ i) s).
    { unfold st_ok in *. eapply Forall_impl; [|exact Hs]. intros u. apply unw_ok_mono. lia. }
    subst s0. destruct (fst le); [apply st_ok_add_lab|]; exact Hm. }
  clearbody s0. assert (Hi : (i < N.succ i)%N) by lia.
  destruct (snd le) as [bs|[op inv|op wop] l|d low high ts|d ps].
  - intros [= <-]. apply st_ok_push, H0.
  - unfold if_helper. destruct (lget (s_labs s0) l).
    + destruct (fits16 _); [intros [= <-]; apply st_ok_push, H0|].
      destruct (plus3 _); try discriminate. intros [= <-]. apply st_ok_push, H0.
    + destruct (memN i W) eqn:Hm.
      * destruct (plus3 _); try discriminate. intros [= <-].
        apply st_ok_push, st_ok_add_unw; [|exact H0]. split; cbn; [exact Hi|discriminate].
      * intros [= <-]. apply st_ok_push, st_ok_add_unw; [|exact H0]. split; cbn; [exact Hi|intros _; exact Hm].
  - unfold goto_helper. destruct (lget (s_labs s0) l).
    + destruct (fits16 _); intros [= <-]; apply st_ok_push, H0.
    + destruct (memN i W) eqn:Hm; intros [= <-]; apply st_ok_push, st_ok_add_unw; try exact H0;
        split; cbn; try exact Hi; try discriminate. intros _; exact Hm.
  - destruct (high <? low); [discriminate|]. destruct (i32max <? _); [discriminate|].
    destruct (negb _); [discriminate|]. intros [= <-].
    apply st_ok_fold_switch_ref; [exact Hi|]. apply st_ok_push, st_ok_switch_ref; [exact Hi|].
    apply st_ok_push, st_ok_push, H0.
  - destruct (negb _); [discriminate|]. destruct (i32max <? _); [discriminate|]. intros [= <-].
    apply st_ok_fold_lookup; [exact Hi|]. apply st_ok_push, st_ok_switch_ref; [exact Hi|].
    apply st_ok_push, st_ok_push, H0.
Qed.

Lemma run_ok W : forall b i s s',
  st_ok W i s -> run W i s b = OK s' -> st_ok W (i + N.of_nat (length b))%N s'.
Proof.
  induction b as [|le r IH]; intros i s s' Hs; cbn [run length].
  - intros [= <-]. replace (i + N.of_nat 0)%N with i by lia. exact Hs.
  - destruct (step W s i le) as [s1| |] eqn:E; try discriminate. intros Hr.
    apply (step_ok _ _ _ _ _ Hs) in E. apply (IH _ _ _ E) in Hr.
    replace (i + N.of_nat (S (length r)))%N with (N.succ i + N.of_nat (length r))%N by lia. exact Hr.
Qed.

Lemma patch_restart labs : forall us w i,
  patch labs us w = PRestart i -> exists u, In u us /\ u_idx u = i /\ u_wide u = false.
Proof.
  induction us as [|u r IH]; intros w i; cbn [patch]; [discriminate|].
  destruct (lget labs (u_lab u)); [|discriminate].
  destruct (u_wide u) eqn:Ew.
  - destruct (put_at _ _ _); [|discriminate]. intros H. apply IH in H as (u' & Hin & H1 & H2).
    exists u'. split; [right; exact Hin|split; assumption].
  - destruct (fits16 _).
    + destruct (put_at _ _ _); [|discriminate]. intros H. apply IH in H as (u' & Hin & H1 & H2).
      exists u'. split; [right; exact Hin|split; assumption].
    + intros [= <-]. exists u. split; [left; reflexivity|split; [reflexivity|exact Ew]].
Qed.

Lemma attempt_restart W b last i :
  attempt W b last = ARestart i -> memN i W = false /\ (i < N.of_nat (length b))%N.
Proof.
  unfold attempt. destruct (run W 0%N init b) as [s| |] eqn:E; try discriminate.
  destruct (patch _ _ _) as [w|j| |] eqn:P; try discriminate.
  - destruct (_ || _); discriminate.
  - intros [= <-]. apply patch_restart in P as (u & Hin & <- & Hw).
    assert (Hs : st_ok W (0 + N.of_nat (length b))%N s).
    { eapply run_ok; [|exact E]. constructor. }
    unfold st_ok in Hs. rewrite Forall_forall in Hs. unfold frev in Hin. rewrite <- rev_alt in Hin. apply in_rev in Hin.
    destruct (Hs _ Hin) as [H1 H2]. split; [apply H2, Hw|lia].
Qed.

Lemma memN_In i W : memN i W = true <-> In i W.
Proof.
  unfold memN. rewrite existsb_exists. split.
  - intros (x & Hx & E). apply N.eqb_eq in E. subst. exact Hx.
  - intros H. exists i. split; [exact H|apply N.eqb_refl].
Qed.

(* pigeonhole: a duplicate-free list of indices below n has at most n elements *)
Lemma bounded_nodup_length (W : list N) (n : nat) :
  NoDup W -> (forall i, In i W -> (i < N.of_nat n)%N) -> (length W <= n)%nat.
Proof.
  intros Hnd Hb.
  assert (H : (length (map N.to_nat W) <= length (seq 0 n))%nat).
  { apply NoDup_incl_length.
    - apply Injective_map_NoDup; [|exact Hnd]. intros x y. apply N2Nat.inj.
    - intros k Hk. apply in_map_iff in Hk as (i & <- & Hi). apply in_seq. specialize (Hb _ Hi). lia. }
  rewrite map_length, seq_length in H. exact H.
Qed.

Lemma wc_loop_terminates b last : forall fuel W,
  NoDup W -> (forall i, In i W -> (i < N.of_nat (length b))%N) ->
  (length b < length W + fuel)%nat ->
  wc_loop fuel W b last <> None.
Proof.
  induction fuel as [|f IH]; intros W Hnd Hb Hf.
  - pose proof (bounded_nodup_length _ _ Hnd Hb). lia.
  - cbn [wc_loop]. destruct (attempt W b last) as [w labs|i| |] eqn:E; try discriminate.
    apply attempt_restart in E as [Hm Hi]. apply IH.
    + constructor; [|exact Hnd]. intros Hin. apply memN_In in Hin. congruence.
    + intros j [<-|Hj]; [exact Hi|apply Hb, Hj].
    + cbn [length]. lia.
Qed.

Theorem write_terminates b last : wc_loop (S (length b)) [] b last <> None.
Proof.
  apply wc_loop_terminates; [constructor|intros i []|cbn [length]; lia].
Qed.

Theorem write_code_terminates hasmax b last tb : write_code hasmax b last tb <> None.
Proof.
  unfold write_code. destruct (negb hasmax); [discriminate|].
  pose proof (write_terminates b last) as H.
  destruct (wc_loop _ _ _ _) as [[[[w labs] W]| |]|]; try discriminate; [|congruence].
  destruct (resolve_tables _ _); discriminate.
Qed.

(* the returned W: duplicate-free, within the index range — the set only ever grows *)
Lemma wc_loop_W b last : forall fuel W w labs W',
  NoDup W -> (forall i, In i W -> (i < N.of_nat (length b))%N) ->
  wc_loop fuel W b last = Some (OK (w, labs, W')) ->
  NoDup W' /\ (forall i, In i W' -> (i < N.of_nat (length b))%N) /\ (exists ext, W' = ext ++ W)
  /\ attempt W' b last = ADone w labs.
Proof.
  induction fuel as [|f IH]; intros W w labs W' Hnd Hb; cbn [wc_loop]; [discriminate|].
  destruct (attempt W b last) as [w0 labs0|i| |] eqn:E; try discriminate.
  - intros [= <- <- <-]. repeat split; try assumption. exists []. reflexivity.
  - intros H. apply attempt_restart in E as [Hm Hi]. apply IH in H.
    + destruct H as (H1 & H2 & (ext & ->) & H4). repeat split; try assumption.
      exists (ext ++ [i]). rewrite <- app_assoc. reflexivity.
    + constructor; [|exact Hnd]. intros Hin. apply memN_In in Hin. congruence.
    + intros j [<-|Hj]; [exact Hi|apply Hb, Hj].
Qed.
