(* C02 — whole-class theorems, part 8: methods, the class, and the theorem: what the writer emits
   for a well-formed tree is decoded, by the independent decoder, to the facts of the tree. *)
From FB Require Import C02.Model C02.Encode C02.Theory1 C02.Theory2 C02.Theory3 C02.Theory4 C02.Theory5 C02.Theory6 C02.Theory8 C02.Frames C02.TheoryF
  C02.Class C02.Decode C02.Facts C02.TheoryC1 C02.TheoryC2 C02.TheoryC3 C02.TheoryC4 C02.TheoryC5 C02.TheoryC6 C02.TheoryC7.
Local Open Scope Z_scope.
Local Arguments Z.add : simpl never.
Local Arguments Z.sub : simpl never.
Local Arguments Z.mul : simpl never.
Lemma be16_app_nonempty z (r : list N) : match be16 z ++ r with [] => true | _ => false end = false.
Proof. reflexivity. Qed.
Lemma pb_magic {B} (K : Z -> parser B) r : pbind p_u32 K (202%N :: 254%N :: 186%N :: 190%N :: r) = K 3405691582 r.
Proof. reflexivity. Qed.
Local Opaque be16 be32 be64.

Definition lseq (l : loc) (ws : list (W bytes)) (ds : list dattr) : Prop :=
  wspec (seqW ws) (fun p bs => Forall2 (fun d b => decodes (p_attr l) d p b) ds bs).
Lemma lseq_of l ws ds : Forall2 (aspec l) ws ds -> lseq l ws ds.
Proof.
  intros H. unfold lseq. apply (wspec_seqW2 (fun d p b => decodes (p_attr l) d p b)); [|exact H].
  intros d p p' b He Hd. exact (decodes_mono (p_attr l) d p p' b He Hd).
Qed.
Lemma Forall2_dec_mono l p p' ds bs : pool_ext p p' ->
  Forall2 (fun d b => decodes (p_attr l) d p b) ds bs -> Forall2 (fun d b => decodes (p_attr l) d p' b) ds bs.
Proof. intros He F. eapply Forall2_impl'; [|exact F]. intros d b Hd. exact (decodes_mono (p_attr l) d p p' b He Hd). Qed.

(* ---- methods ---- *)
Definition cmethod_ok (m : cmethod) : bool :=
  u16ok (md_access m) && (match md_code m with Some c => ccode_ok c | None => true end) &&
  annots_ok (md_annots m) && (match md_default m with Some e => elem_ok e | None => true end) &&
  (match md_parameters m with Some l => forallb (fun p => u16ok (snd p)) l | None => true end) &&
  unknown_ok AtMethod (md_unknown m).

Definition pe_param (c : cpool) : parser (option bytes * Z) := n <~ p_idx (get_opt get_utf8) c ;; f <~ p_u16 ;; pret (n, f).

Lemma write_method_spec m : cmethod_ok m = true ->
  wspec (write_method m) (fun p r => exists d, fa_method m (snd r) = Some d /\ decodes (p_member AtMethod) d p (fst r)).
Proof.
  intros Hok. unfold cmethod_ok in Hok. bsplit. okfacts.
  destruct (w_annots_spec AtMethod (md_annots m) eq_refl ltac:(assumption)) as (an & Han & Fan).
  unfold write_method.
  eapply wspec_bind; [apply put_utf8_spec|]. intros n p0 Hn.
  eapply wspec_bind; [apply put_utf8_spec|]. intros d p1 Hd.
  eapply wspec_bind.
  { apply (lseq_of AtMethod). apply Forall2_app'.
    - apply (w_flag_spec AtMethod); [reflexivity|left; split; reflexivity].
    - apply (w_flag_spec AtMethod); [reflexivity|right; split; reflexivity]. }
  intros dep p2 Hdep.
  eapply (wspec_bind _ _ (fun p r => exists ds, match md_code m, snd r with
                                                | None, None => Some []
                                                | Some c, Some a => omap (fun k => [ACode k]) (fa_code c a)
                                                | _, _ => None
                                                end = Some ds /\ Forall2 (fun d b => decodes (p_attr AtMethod) d p b) ds (fst r))).
  { destruct (md_code m) as [c|].
    - eapply wspec_bind; [apply write_code_attr_spec; assumption|]. intros r q0 (k & Hk & Hdk).
      eapply wspec_bind; [apply put_utf8_spec|]. intros i q1 Hi.
      eapply wspec_bind; [apply wspec_lift_res; intros a p Ha; exact Ha|]. intros a q2 Ha. cbn beta in Ha.
      apply wspec_ret. intros q He2 He1 He0. cbn [fst snd]. rewrite Hk. cbn [omap]. eexists. split; [reflexivity|].
      constructor; [|constructor]. apply write_attribute_ok in Ha as [-> Hl].
      intros p' c0 rest He Hag. rewrite <- !app_assoc. rewrite p_attr_eq.
      eapply p_attr_with_known.
      + apply (refers_get _ _ _ _ p' c0 Hi); eauto with pext.
      + apply (refers_idx _ _ _ _ Hi).
      + reflexivity.
      + exact Hl.
      + unfold pbind at 1. specialize (Hdk p' c0 [] ltac:(eauto with pext) Hag). rewrite app_nil_r in Hdk. rewrite Hdk. reflexivity.
    - apply wspec_ret. intros q. cbn [fst snd]. eexists. split; [reflexivity|constructor]. }
  intros code p3 (dsc & Hcode & Fcode).
  eapply wspec_bind.
  { apply (lseq_of AtMethod).
    apply (Forall2_app' _ _ _ (match md_exceptions m with Some l => [AExceptions l] | None => [] end)).
    { destruct (md_exceptions m) as [l|]; cbn [oattr]; [constructor; [|constructor]|constructor].
      apply (idx_list_attr_spec AtMethod s_Exceptions put_class get_class AExceptions l); [reflexivity|apply put_class_spec]. }
    apply Forall2_app'; [apply (w_signature_spec AtMethod); reflexivity|].
    apply Forall2_app'; [exact Fan|].
    apply (Forall2_app' _ _ _ (match md_default m with Some e => [AAnnotationDefault e] | None => [] end)).
    { destruct (md_default m) as [e|]; cbn [oattr]; [constructor; [|constructor]|constructor].
      unfold aspec. rewrite p_attr_eq. eapply (wattr_gen _ _ (fun c => x <~ p_elem c ;; pret (AAnnotationDefault x)) (AAnnotationDefault e)); [shape1 HP|].
      eapply wspec_weaken; [apply write_elem_dec; assumption|]. intros p b Hb p' c rest He Ha.
      rewrite (pb_dec _ _ _ _ _ p' c _ Hb) by eauto with pext. reflexivity. }
    apply (Forall2_app' _ _ _ (match md_parameters m with Some l => [AMethodParameters l] | None => [] end)).
    { destruct (md_parameters m) as [l|]; cbn [oattr]; [constructor; [|constructor]|constructor].
      unfold aspec. rewrite p_attr_eq. eapply (wattr_gen _ _ (fun c => t <~ p_list8 (pe_param c) ;; pret (AMethodParameters t)) (AMethodParameters l)); [shape1 HP|].
      eapply wspec_weaken.
      - apply (wslice8_spec _ pe_param). intros [nm fl] Hin. cbn [fst snd].
        match goal with H : forallb _ l = true |- _ => rewrite forallb_forall in H; specialize (H _ Hin); cbn [snd] in H end. okfacts.
        eapply wspec_bind; [apply put_opt_spec; intros x; apply put_utf8_spec|]. intros i q0 Hi.
        apply wspec_ret. intros q He0 p' c rest He Ha. unfold pe_param. rewrite <- app_assoc.
        rewrite (pb_idx _ _ nm q0 i p' c) by (try apply Hi; eauto with pext). rewrite pb_u16 by assumption. reflexivity.
      - intros p b Hb p' c rest He Ha. rewrite (pb_dec _ _ _ _ _ p' c _ Hb) by eauto with pext. reflexivity. }
    apply wunknowns_spec. assumption. }
  intros rest p4 Hrest.
  eapply wspec_bind; [apply w_u16len_spec|]. intros cnt p5 [-> Hcnt].
  apply wspec_ret. intros p He5 He4 He3 He2 He1 He0. cbn [fst snd].
  unfold fa_method. rewrite Han.
  cbv beta in Hcode. match goal with |- context [obind ?X _] => replace X with (Some dsc) by (symmetry; exact Hcode) end. cbn [obind omap]. eexists. split; [reflexivity|].
  intros p' c rest' He Ha. unfold p_member. rewrite <- !app_assoc.
  rewrite pb_u16 by assumption.
  rewrite (pb_idx _ _ (md_name m) p0 n p' c) by (try apply Hn; eauto with pext).
  rewrite (pb_idx _ _ (md_desc m) p1 d p' c) by (try apply Hd; eauto with pext).
  set (dsall := (leafs (fa_flag (md_deprecated m) ADeprecated) ++ leafs (fa_flag (md_synthetic m) ASynthetic)) ++ dsc ++
                   (match md_exceptions m with Some l => [AExceptions l] | None => [] end ++ leafs (fa_sig (md_signature m)) ++ leafs an ++
                    match md_default m with Some e => [AAnnotationDefault e] | None => [] end ++
                    match md_parameters m with Some l => [AMethodParameters l] | None => [] end ++ leafs (fa_unknown (md_unknown m)))).
  assert (F : Forall2 (fun d b => decodes (p_attr AtMethod) d p b) dsall (dep ++ fst code ++ rest)).
  { apply Forall2_app'; [apply (Forall2_dec_mono AtMethod p2 p); assumption|].
    apply Forall2_app'; [apply (Forall2_dec_mono AtMethod p3 p); assumption|apply (Forall2_dec_mono AtMethod p4 p); assumption]. }
  assert (Hall : decodes (fun c => p_list16 (p_attr AtMethod c)) dsall p (be16 (zlen (dep ++ fst code ++ rest)) ++ concat (dep ++ fst code ++ rest))).
  { assert (Hz : zlen (dep ++ fst code ++ rest) = zlen dsall) by (unfold zlen; rewrite (Forall2_len _ _ _ F); reflexivity).
    assert (Hc2 : zlen dsall <= 65535) by (rewrite <- Hz; exact Hcnt).
    rewrite Hz. apply decodes_list16; [exact Hc2|exact F]. }
  unfold p_attrs. rewrite (app_assoc (be16 _) (concat _) rest'). rewrite (pb_dec _ _ _ _ _ p' c _ Hall) by eauto with pext. unfold pret, dsall.
  rewrite !leafs_app, <- !app_assoc. reflexivity.
Qed.

(* ---- the class ---- *)
Definition cclass_ok (t : cclass) : bool :=
  u16ok (k_minor t) && u16ok (k_major t) && u16ok (k_access t) &&
  forallb cfield_ok (k_fields t) && forallb cmethod_ok (k_methods t) &&
  (match k_inner t with Some l => forallb cinner_ok l | None => true end) &&
  annots_ok (k_annots t) &&
  (match k_module t with Some m => cmodule_ok m | None => true end) &&
  forallb crecord_ok (k_record t) && unknown_ok AtClass (k_unknown t).

Lemma fields_nocode l : forallb cfield_ok l = true -> exists ds, mapO fa_field l = Some ds.
Proof.
  induction l as [|f l IH]; cbn [forallb mapO]; intros H; [exists []; reflexivity|].
  apply andb_true_iff in H as [Hf Hl]. destruct (IH Hl) as (ds & ->). destruct (write_field_spec f Hf) as (d & -> & _). eexists. reflexivity.
Qed.

(* the attributes of the class that are written before the BootstrapMethods attribute *)
Lemma class_pre_spec t an rc :
  cclass_ok t = true -> fa_annots [] (k_annots t) = Some an -> mapO fa_record (k_record t) = Some rc ->
  Forall2 (aspec AtClass) (w_annots [] (k_annots t)) (leafs an) ->
  Forall2 (aspec AtClass)
    (battr (k_deprecated t) (wattr_fix s_Deprecated 0 (ret [])) ++
      battr (k_synthetic t) (wattr_fix s_Synthetic 0 (ret [])) ++
      oattr (k_inner t) (fun l => wattr s_InnerClasses (
              wslice16 (fun ic => a <- put_class (ic_inner ic) ;; b <- put_opt put_class (ic_outer ic) ;;
                                  c <- put_opt put_utf8 (ic_name ic) ;;
                                  ret (be16 a ++ be16 b ++ be16 c ++ be16 (ic_flags ic))) l)) ++
      oattr (k_enclosing t) (fun e => wattr_fix s_EnclosingMethod 4 (
              a <- put_class (fst e) ;; b <- put_opt (fun nd => put_nat (fst nd) (snd nd)) (snd e) ;; ret (be16 a ++ be16 b))) ++
      w_signature (k_signature t) ++
      oattr (k_source_file t) (fun s => wattr_fix s_SourceFile 2 (idx16 (put_utf8 s))) ++
      oattr (k_source_debug t) (fun s => wattr_raw s_SourceDebugExtension s) ++
      w_annots [] (k_annots t) ++
      oattr (k_module t) (fun m => wattr s_Module (write_module m)) ++
      oattr (k_module_packages t) (fun l => wattr s_ModulePackages (wslice16 (fun x => idx16 (put_package x)) l)) ++
      oattr (k_module_main t) (fun c => wattr_fix s_ModuleMainClass 2 (idx16 (put_class c))) ++
      oattr (k_nest_host t) (fun c => wattr_fix s_NestHost 2 (idx16 (put_class c))) ++
      oattr (k_nest_members t) (fun l => wattr s_NestMembers (wslice16 (fun x => idx16 (put_class x)) l)) ++
      oattr (k_permitted t) (fun l => wattr s_PermittedSubclasses (wslice16 (fun x => idx16 (put_class x)) l)) ++
      nattr (k_record t) (fun l => wattr s_Record (wslice16 write_record_component l)))
    (leafs (fa_flag (k_deprecated t) ADeprecated) ++ leafs (fa_flag (k_synthetic t) ASynthetic) ++
     oattrs (k_inner t) AInnerClasses ++
     oattrs (k_enclosing t) (fun e => AEnclosingMethod (fst e) (snd e)) ++
     leafs (fa_sig (k_signature t)) ++
     oattrs (k_source_file t) ASourceFile ++
     oattrs (k_source_debug t) ASourceDebugExtension ++
     leafs an ++
     oattrs (k_module t) AModule ++
     oattrs (k_module_packages t) AModulePackages ++
     oattrs (k_module_main t) AModuleMainClass ++
     oattrs (k_nest_host t) ANestHost ++
     oattrs (k_nest_members t) ANestMembers ++
     oattrs (k_permitted t) APermittedSubclasses ++
     match rc with [] => [] | _ => [ARecord rc] end).
Proof.
  intros Hok Han Hrc Fan. unfold cclass_ok in Hok. bsplit.
  apply Forall2_app'; [apply (w_flag_spec AtClass); [reflexivity|left; split; reflexivity]|].
  apply Forall2_app'; [apply (w_flag_spec AtClass); [reflexivity|right; split; reflexivity]|].
  apply Forall2_app'.
  { destruct (k_inner t) as [l|]; cbn [oattr oattrs]; [constructor; [|constructor]|constructor]. apply inner_spec. assumption. }
  apply Forall2_app'.
  { destruct (k_enclosing t) as [e|]; cbn [oattr oattrs]; [constructor; [|constructor]|constructor]. apply enclosing_spec. }
  apply Forall2_app'; [apply (w_signature_spec AtClass); reflexivity|].
  apply Forall2_app'.
  { destruct (k_source_file t) as [s|]; cbn [oattr oattrs]; [constructor; [|constructor]|constructor].
    apply (one_idx_spec AtClass s_SourceFile put_utf8 get_utf8 ASourceFile s); [reflexivity|apply put_utf8_spec]. }
  apply Forall2_app'.
  { destruct (k_source_debug t) as [s|]; cbn [oattr oattrs]; [constructor; [|constructor]|constructor]. apply sde_spec. }
  apply Forall2_app'; [exact Fan|].
  apply Forall2_app'.
  { destruct (k_module t) as [m|]; cbn [oattr oattrs]; [constructor; [|constructor]|constructor]. apply module_spec. assumption. }
  apply Forall2_app'.
  { destruct (k_module_packages t) as [l|]; cbn [oattr oattrs]; [constructor; [|constructor]|constructor].
    apply (idx_list_attr_spec AtClass s_ModulePackages put_package get_package AModulePackages l); [reflexivity|apply put_package_spec]. }
  apply Forall2_app'.
  { destruct (k_module_main t) as [s|]; cbn [oattr oattrs]; [constructor; [|constructor]|constructor].
    apply (one_idx_spec AtClass s_ModuleMainClass put_class get_class AModuleMainClass s); [reflexivity|apply put_class_spec]. }
  apply Forall2_app'.
  { destruct (k_nest_host t) as [s|]; cbn [oattr oattrs]; [constructor; [|constructor]|constructor].
    apply (one_idx_spec AtClass s_NestHost put_class get_class ANestHost s); [reflexivity|apply put_class_spec]. }
  apply Forall2_app'.
  { destruct (k_nest_members t) as [l|]; cbn [oattr oattrs]; [constructor; [|constructor]|constructor].
    apply (idx_list_attr_spec AtClass s_NestMembers put_class get_class ANestMembers l); [reflexivity|apply put_class_spec]. }
  apply Forall2_app'.
  { destruct (k_permitted t) as [l|]; cbn [oattr oattrs]; [constructor; [|constructor]|constructor].
    apply (idx_list_attr_spec AtClass s_PermittedSubclasses put_class get_class APermittedSubclasses l); [reflexivity|apply put_class_spec]. }
  destruct (k_record t) as [|r l] eqn:Er.
  { cbn [mapO] in Hrc. injection Hrc as <-. constructor. }
  cbn [nattr]. assert (rc <> []) by (intros ->; cbn [mapO] in Hrc; destruct (fa_record r); [destruct (mapO fa_record l)|]; discriminate).
  destruct rc as [|d rc]; [contradiction|]. constructor; [|constructor].
  apply record_spec; [|exact Hrc]. assumption.
Qed.

Lemma methods_facts p : forall ms (rs : list (bytes * code_aux)),
  Forall2 (fun m r => exists d, fa_method m (snd r) = Some d /\ decodes (p_member AtMethod) d p (fst r)) ms rs ->
  exists ds, mapO2 fa_method ms (map snd rs) = Some ds /\ Forall2 (fun d b => decodes (p_member AtMethod) d p b) ds (map fst rs).
Proof.
  induction ms as [|m ms IH]; intros rs F; inversion F as [|? r ? rs' (d & Hd & Hdec) Hrest]; subst; cbn [map mapO2].
  - exists []. split; [reflexivity|constructor].
  - destruct (IH _ Hrest) as (ds & -> & Fd). rewrite Hd. exists (d :: ds). split; [reflexivity|constructor; assumption].
Qed.

Lemma wspec_run {A} (m : W A) Q s a s' : wspec m Q -> winv s -> m s = WOK (a, s') -> winv s' /\ pool_ext (w_pool s) (w_pool s') /\ Q (w_pool s') a.
Proof. intros H. apply H. Qed.

Lemma winv_new : winv wst_new.
Proof. constructor; cbn [wst_new w_pool w_bsm pool_new p_inner]; [apply pool_new_inv|constructor|constructor|cbn; lia]. Qed.

Theorem write_class_decodes t bs aux :
  cclass_ok t = true -> write_class_aux t = WOK (bs, aux) ->
  exists d, facts_of t aux = Some d /\ parse_class bs = Some d.
Proof.
  intros Hok Hw. pose proof Hok as Hok0. unfold cclass_ok in Hok. bsplit. okfacts.
  unfold write_class_aux in Hw.
  match type of Hw with match ?body wst_new with _ => _ end = _ => destruct (body wst_new) as [[[[rest codes] tbl] sF]|?c|] eqn:Hbody; try discriminate end.
  destruct (pool_bytes (w_pool sF)) as [pb|] eqn:Hpb; [|discriminate]. injection Hw as <- <-.
  (* run the body *)
  apply bind_ok in Hbody as (this & s1 & R1 & Hbody). destruct (wspec_run _ _ _ _ _ (put_class_spec (k_name t)) winv_new R1) as (I1 & E1 & Q1).
  apply bind_ok in Hbody as (super & s2 & R2 & Hbody).
  destruct (wspec_run _ _ _ _ _ (put_opt_spec put_class get_class (k_super t) put_class_spec) I1 R2) as (I2 & E2 & Q2).
  apply bind_ok in Hbody as (ifs & s3 & R3 & Hbody).
  destruct (wspec_run _ _ _ _ _ (idx_list_spec put_class get_class (k_interfaces t) put_class_spec) I2 R3) as (I3 & E3 & Q3).
  apply bind_ok in Hbody as (fields & s4 & R4 & Hbody).
  assert (S4 : wspec (wslice16 write_field (k_fields t)) (fun p b => exists ys, mapO fa_field (k_fields t) = Some ys /\ decodes (fun c => p_list16 (p_member AtField c)) ys p b)).
  { apply wslice16_spec_gen. intros f Hin. match goal with H : forallb cfield_ok _ = true |- _ => rewrite forallb_forall in H; destruct (write_field_spec f (H _ Hin)) as (d & Hd & Hwf) end.
    eapply wspec_weaken; [exact Hwf|]. intros p b Hdec. exists d. split; assumption. }
  destruct (wspec_run _ _ _ _ _ S4 I3 R4) as (I4 & E4 & fs & Hfs & Q4).
  apply bind_ok in Hbody as (nm & s5 & R5 & Hbody). destruct (wspec_run _ _ _ _ _ (w_u16len_spec _) I4 R5) as (I5 & E5 & -> & Hnm).
  apply bind_ok in Hbody as (methods & s6 & R6 & Hbody).
  assert (S6 : wspec (mapW write_method (k_methods t))
                 (fun p rs => Forall2 (fun m r => exists d, fa_method m (snd r) = Some d /\ decodes (p_member AtMethod) d p (fst r)) (k_methods t) rs)).
  { apply (wspec_mapW write_method (fun m p r => exists d, fa_method m (snd r) = Some d /\ decodes (p_member AtMethod) d p (fst r))).
    - intros m p p' r He (d & Hd & Hdec). exists d. split; [exact Hd|exact (decodes_mono _ d p p' _ He Hdec)].
    - intros m Hin. apply write_method_spec. match goal with H : forallb cmethod_ok _ = true |- _ => rewrite forallb_forall in H; apply (H _ Hin) end. }
  destruct (wspec_run _ _ _ _ _ S6 I5 R6) as (I6 & E6 & Q6).
  destruct (methods_facts _ _ _ Q6) as (ms & Hms & Fms).
  apply bind_ok in Hbody as (pre & s7 & R7 & Hbody).
  destruct (w_annots_spec AtClass (k_annots t) eq_refl ltac:(assumption)) as (an & Han & Fan).
  destruct (records_nocode (k_record t) ltac:(assumption)) as (rc & Hrc).
  destruct (wspec_run _ _ _ _ _ (lseq_of AtClass _ _ (class_pre_spec t an rc Hok0 Han Hrc Fan)) I6 R7) as (I7 & E7 & Q7).
  apply bind_ok in Hbody as (tbl' & s8 & R8 & Hbody). injection R8 as <- <-.
  apply bind_ok in Hbody as (bsm & s9 & R9 & Hbody).
  (* the BootstrapMethods attribute *)
  assert (Hb : winv s9 /\ pool_ext (w_pool s7) (w_pool s9) /\
               Forall2 (fun d b => decodes (p_attr AtClass) d (w_pool s9) b)
                 (match w_bsm s7 with [] => [] | tb => [ABootstrapMethods tb] end)
                 (filter (fun b => negb (match b with [] => true | _ => false end)) bsm)).
  { unfold w_bootstrap in R9. cbn [seqW] in R9. apply bind_ok in R9 as (y & sy & Ry & R9). apply bind_ok in R9 as (ys & sz & Rz & R9).
    apply ret_ok in Rz as [-> ->]. apply ret_ok in R9 as [-> ->].
    destruct (w_bsm s7) as [|e tb] eqn:Etb.
    - injection Ry as <- <-. cbn [filter negb]. split; [exact I7|split; [apply pool_ext_refl|constructor]].
    - destruct I7 as [Ip Im Ib Il]. rewrite Etb in Ib.
      pose proof (bootstrap_spec (e :: tb) Ib) as Hbs. unfold aspec in Hbs.
      destruct (Hbs _ _ _ (Build_winv _ Ip Im ltac:(rewrite Etb; exact Ib) Il) Ry) as (Iy & Ey & Qy).
      split; [exact Iy|split; [exact Ey|]]. cbn [filter].
      assert (Hne : match y with [] => true | _ => false end = false).
      { unfold wattr in Ry. apply bind_ok in Ry as (b0 & sb & _ & Ry). apply bind_ok in Ry as (i0 & si & _ & Ry).
        apply lift_res_ok in Ry as [Ry _]. apply write_attribute_ok in Ry as [-> _]. apply be16_app_nonempty. }
      rewrite Hne. cbn [negb]. constructor; [exact Qy|constructor]. }
  destruct Hb as (I9 & E9 & Q9).
  apply bind_ok in Hbody as (unk & s10 & R10 & Hbody).
  assert (S10 : wspec (mapW wunknown (k_unknown t)) (fun p bs => Forall2 (fun a b => decodes (p_attr AtClass) (ALeaf (AUnknown (fst a) (snd a))) p b) (k_unknown t) bs)).
  { apply (wspec_mapW wunknown (fun a p b => decodes (p_attr AtClass) (ALeaf (AUnknown (fst a) (snd a))) p b)).
    - intros a p p' b He Hd. exact (decodes_mono _ _ p p' b He Hd).
    - intros a Hin. apply wunknown_spec. match goal with H : unknown_ok AtClass _ = true |- _ => unfold unknown_ok in H; rewrite forallb_forall in H; specialize (H _ Hin); apply negb_true_iff in H; exact H end. }
  destruct (wspec_run _ _ _ _ _ S10 I9 R10) as (I10 & E10 & Q10).
  apply bind_ok in Hbody as (cnt & s11 & R11 & Hbody). destruct (wspec_run _ _ _ _ _ (w_u16len_spec _) I10 R11) as (I11 & E11 & -> & Hcnt).
  apply ret_ok in Hbody as [Hret ->]. injection Hret as -> -> ->.
  (* the pool *)
  destruct I11 as [Ip Im Ib Il]. destruct (pool_bytes_ok _ _ Ip Im Hpb) as (cp & Hag & Hpp).
  set (pF := w_pool s11) in *.
  assert (X1 : pool_ext (w_pool s1) pF) by eauto 12 with pext.
  assert (X2 : pool_ext (w_pool s2) pF) by eauto 12 with pext.
  assert (X3 : pool_ext (w_pool s3) pF) by eauto 12 with pext.
  assert (X4 : pool_ext (w_pool s4) pF) by eauto 12 with pext.
  assert (X6 : pool_ext (w_pool s6) pF) by eauto 12 with pext.
  assert (X7 : pool_ext (w_pool s7) pF) by eauto 12 with pext.
  assert (X9 : pool_ext (w_pool s9) pF) by eauto 12 with pext.
  assert (X10 : pool_ext (w_pool s10) pF) by eauto 12 with pext.
  (* the facts *)
  unfold facts_of. cbn [a_codes a_bsm]. rewrite Hfs, Hms, Han, Hrc. cbn [obind].
  eexists. split; [reflexivity|].
  (* the attribute list of the class *)
  set (dsall := (leafs (fa_flag (k_deprecated t) ADeprecated) ++ leafs (fa_flag (k_synthetic t) ASynthetic) ++
     oattrs (k_inner t) AInnerClasses ++ oattrs (k_enclosing t) (fun e => AEnclosingMethod (fst e) (snd e)) ++
     leafs (fa_sig (k_signature t)) ++ oattrs (k_source_file t) ASourceFile ++ oattrs (k_source_debug t) ASourceDebugExtension ++
     leafs an ++ oattrs (k_module t) AModule ++ oattrs (k_module_packages t) AModulePackages ++ oattrs (k_module_main t) AModuleMainClass ++
     oattrs (k_nest_host t) ANestHost ++ oattrs (k_nest_members t) ANestMembers ++ oattrs (k_permitted t) APermittedSubclasses ++
     match rc with [] => [] | _ => [ARecord rc] end) ++
     match w_bsm s7 with [] => [] | tb => [ABootstrapMethods tb] end ++ leafs (fa_unknown (k_unknown t))).
  set (all := pre ++ filter (fun b => negb (match b with [] => true | _ => false end)) bsm ++ unk) in *.
  assert (Fall : Forall2 (fun d b => decodes (p_attr AtClass) d pF b) dsall all).
  { apply Forall2_app'; [apply (Forall2_dec_mono AtClass (w_pool s7) pF); assumption|].
    apply Forall2_app'; [apply (Forall2_dec_mono AtClass (w_pool s9) pF); assumption|].
    unfold leafs, fa_unknown. rewrite map_map. clear -Q10 X10. induction Q10; cbn [map]; constructor; [|assumption].
    exact (decodes_mono _ _ _ pF _ X10 H). }
  assert (Hz : zlen all = zlen dsall) by (unfold zlen; rewrite (Forall2_len _ _ _ Fall); reflexivity).
  assert (Hattrs : decodes (fun c => p_list16 (p_attr AtClass c)) dsall pF (be16 (zlen all) ++ concat all)).
  { assert (Hc2 : zlen dsall <= 65535) by (rewrite <- Hz; exact Hcnt). rewrite Hz. apply decodes_list16; [exact Hc2|exact Fall]. }
  assert (Hmeth : decodes (fun c => p_list16 (p_member AtMethod c)) ms pF (be16 (zlen (k_methods t)) ++ concat (map fst methods))).
  { assert (Hl : zlen (k_methods t) = zlen ms).
    { unfold zlen. rewrite (Forall2_len _ _ _ Q6). rewrite <- (map_length fst). rewrite (Forall2_len _ _ _ Fms). reflexivity. }
    assert (Hc2 : zlen ms <= 65535) by (rewrite <- Hl; exact Hnm). rewrite Hl. apply decodes_list16; [exact Hc2|].
    eapply Forall2_impl'; [|exact Fms]. intros d b Hd. exact (decodes_mono _ d _ pF b X6 Hd). }
  (* parse *)
  unfold parse_class. rewrite <- ?app_assoc.
  rewrite pb_magic. cbn [Z.eqb Pos.eqb negb].
  rewrite !pb_u16 by assumption. rewrite (pb_some parse_pool _ _ _ _ (Hpp _)).
  rewrite pb_u16 by assumption.
  rewrite (pb_idx _ _ (k_name t) (w_pool s1) this pF cp) by (try apply Q1; auto with pext).
  rewrite (pb_idx _ _ (k_super t) (w_pool s2) super pF cp) by (try apply Q2; auto with pext).
  rewrite (pb_dec _ _ _ _ _ pF cp _ Q3) by auto with pext.
  rewrite (pb_dec _ _ _ _ _ pF cp _ Q4) by auto with pext.
  rewrite (app_assoc (be16 (zlen (k_methods t))) (concat (map fst methods))).
  rewrite (pb_dec _ _ _ _ _ pF cp _ Hmeth) by auto with pext.
  unfold p_attrs.
  pose proof (Hattrs pF cp [] (pool_ext_refl _) Hag) as Hfin. rewrite app_nil_r in Hfin.
  rewrite (pb_some _ _ _ _ _ Hfin). unfold pret.
  unfold dsall. rewrite !leafs_app, <- !app_assoc. reflexivity.
Qed.
